package diskp

// C09, fleet layer: several disks alive at once.
//
// The lock-step layer opens one disk at a time (a configuration is closed
// before the next is opened). Here a scenario keeps up to six disks of
// different kinds ({disk, async_disk} × {Mem, File}) and sizes alive in one
// process, interleaves operations on them — through their methods and, for the
// disk last passed to disk.Init, through the global wrappers —, closes some and
// creates new ones in between (in-memory disks of smaller, equal and larger
// sizes after a closed one; file disks on a removed image path that a closed
// disk used before). Every disk has its own array model; every result is
// compared with the model of the disk addressed. What the statement yields:
// each disk is an array of ITS Size() registers initialised to zero, whatever
// other disks exist or existed; a write changes no block of any other disk; the
// global wrappers return what the methods of the disk given to Init return.
//
// Also here: file-backed disks whose image is larger than 2^31 and 2^32 bytes
// and 2^43 bytes (sparse images; no in-memory counterpart of that size is
// created), with addresses around those byte offsets.

import (
	"bytes"
	"fmt"
	"os"
	"path/filepath"
	"strconv"

	"verif/core"

	"github.com/goose-lang/goose/machine/disk"
)

type fleetStep struct {
	Kind string `json:"step"` // open | init | op | close
	Slot int    `json:"slot"`
	Cfg  string `json:"cfg,omitempty"`  // open: disk-mem | disk-file | async-mem | async-file
	Size uint64 `json:"size,omitempty"` // open
	Scan bool   `json:"scan,omitempty"` // open: read the whole new disk (up to 80 blocks) before anything else
	Via  string `json:"via,omitempty"`  // op: method | global
	Op   *c09op `json:"op,omitempty"`
}

type fleetScn struct {
	Index int         `json:"fleet_index"`
	Class string      `json:"class"`
	Steps []fleetStep `json:"steps"`
}

var fleetCfgs = []string{"disk-mem", "disk-file", "async-mem", "async-file"}
var fleetSizes = []uint64{0, 1, 2, 3, 4, 5, 7, 8, 9, 16, 33, 64, 100}

func fleetCfgParts(cfg string) (pkg, impl string) {
	pkg, impl = "disk", "mem"
	if cfg == "async-mem" || cfg == "async-file" {
		pkg = "async_disk"
	}
	if cfg == "disk-file" || cfg == "async-file" {
		impl = "file"
	}
	return
}

func fOpen(slot int, cfg string, size uint64, scan bool) fleetStep {
	return fleetStep{Kind: "open", Slot: slot, Cfg: cfg, Size: size, Scan: scan}
}
func fInit(slot int) fleetStep  { return fleetStep{Kind: "init", Slot: slot} }
func fClose(slot int) fleetStep { return fleetStep{Kind: "close", Slot: slot} }
func fOp(slot int, via string, o c09op) fleetStep {
	return fleetStep{Kind: "op", Slot: slot, Via: via, Op: &o}
}

// directedFleets is the seed-independent part.
func directedFleets() []fleetScn {
	var out []fleetScn
	add := func(class string, steps []fleetStep) {
		out = append(out, fleetScn{Class: class, Steps: steps})
	}
	// a disk is closed after having been written; the next disk of the same kind — smaller, equal,
	// larger — must read as zero everywhere
	for _, cfg := range fleetCfgs {
		for _, s1 := range []uint64{1, 3, 8, 64} {
			var steps []fleetStep
			steps = append(steps, fOpen(0, cfg, s1, false))
			for a := uint64(0); a < s1; a++ {
				if a < 3 || a+3 >= s1 {
					steps = append(steps, fOp(0, "method", mkwrite(a, "scan", bs, 1+int(a%3), a*17+s1, int(a%2))))
				}
			}
			steps = append(steps, fOp(0, "method", mkop(opRead, s1-1, "size-1")), fClose(0))
			for _, s2 := range []uint64{1, 2, s1, s1 + 1, 7, 64, 65} {
				steps = append(steps, fOpen(0, cfg, s2, true), fOp(0, "method", mkop(opSize, 0, "")))
				steps = append(steps, fOp(0, "method", mkwrite(s2-1, "size-1", bs, 3, s2*5+1, 0)), fOp(0, "method", mkwrite(0, "0", bs, 2, s2, 1)), fClose(0))
			}
			add("closed-then-recreated", steps)
		}
	}
	// Init switching between disks of different sizes and kinds, with the wrappers used in between
	for i, ca := range fleetCfgs {
		cb := fleetCfgs[(i+1)%len(fleetCfgs)]
		for _, sz := range [][2]uint64{{3, 7}, {7, 3}, {1, 64}, {64, 0}, {0, 2}, {5, 5}} {
			na, nb := sz[0], sz[1]
			steps := []fleetStep{fOpen(0, ca, na, false), fOpen(1, cb, nb, false), fInit(0), fOp(0, "global", mkop(opSize, 0, ""))}
			wr := func(slot int, n uint64, salt uint64) {
				steps = append(steps, fOp(slot, "global", mkop(opSize, 0, "")))
				for _, ac := range addrClasses(n) {
					steps = append(steps, fOp(slot, "global", mkwrite(ac.a, ac.c, bs, 3, ac.a+salt, 0)), fOp(slot, "global", mkop(opRead, ac.a, ac.c)))
				}
				// the other disk's size as an address on this one
				other := na + nb - n
				for _, a := range []uint64{other - 1, other, other + 1} {
					steps = append(steps, fOp(slot, "global", mkop(opReadTo, a, "other-size")), fOp(slot, "method", mkwrite(a, "other-size", bs, 2, a+salt, 1)))
				}
				steps = append(steps, fOp(slot, "global", mkop(opBarrier, 0, "")), fOp(slot, "global", mkop(opSize, 0, "")), fOp(slot, "method", mkop(opSize, 0, "")))
			}
			wr(0, na, 11)
			steps = append(steps, fInit(1))
			wr(1, nb, 23)
			steps = append(steps, fOp(0, "method", mkop(opSize, 0, "")), fInit(0))
			wr(0, na, 37)
			steps = append(steps, fClose(1), fOp(0, "global", mkop(opSize, 0, "")), fOpen(1, ca, nb+1, true), fOp(0, "global", mkop(opSize, 0, "")), fInit(1), fOp(1, "global", mkop(opSize, 0, "")))
			add("init-switching", steps)
		}
	}
	// twins: same kind, same size, same addresses, different data
	for _, cfg := range fleetCfgs {
		for _, n := range []uint64{1, 4, 9} {
			steps := []fleetStep{fOpen(0, cfg, n, false), fOpen(1, cfg, n, false), fOpen(2, cfg, n, false)}
			for k := uint64(0); k < 3*n; k++ {
				a := k % n
				steps = append(steps, fOp(int(k%3), "method", mkwrite(a, "in", bs, 2, k*3+1, int(k%3))), fOp(int((k+1)%3), "method", mkop(opRead, a, "in")),
					fOp(int((k+2)%3), "method", mkop(opReadTo, a, "in")))
			}
			add("twins", steps)
		}
	}
	return out
}

// largeFileFleets: sparse file-backed disks whose byte offsets exceed 2^31, 2^32 and 2^43.
func largeFileFleets() []fleetScn {
	var out []fleetScn
	for _, cfg := range []string{"disk-file", "async-file"} {
		for _, n := range []uint64{1<<19 + 1, 1<<20 + 3, 1<<31 + 1} {
			steps := []fleetStep{fOpen(0, cfg, n, false), fOpen(1, cfg, 3, false), fInit(0), fOp(0, "global", mkop(opSize, 0, ""))}
			addrs := []uint64{0, 1, 1<<16 - 1, 1 << 16, 1<<19 - 1, 1 << 19, 1<<20 - 1, 1 << 20, 1<<20 + 1, 1<<20 + 2, 1<<20 + 3, 1 << 24, 1<<31 - 1, 1 << 31, 1<<31 + 1,
				n - 2, n - 1, n, n + 1, 1 << 32, 1<<32 + 1, 1<<44 + 1, 1<<52 + 1, 1<<52 + n - 1, 1 << 63, ^uint64(0)}
			for i, a := range addrs {
				via := []string{"method", "global"}[i%2]
				steps = append(steps, fOp(0, via, mkop(opRead, a, "large")), fOp(0, via, mkwrite(a, "large", bs, 3, a+7, i%2)),
					fOp(0, via, mkop(opReadTo, a, "large")))
				// block a mod 2^k of the same disk and the small disk must not have been hit
				for _, b := range []uint64{a & (1<<20 - 1), a & (1<<19 - 1), a & 3} {
					if b != a {
						steps = append(steps, fOp(0, "method", mkop(opRead, b, "large-alias")))
					}
				}
				steps = append(steps, fOp(1, "method", mkop(opRead, a%3, "in")))
			}
			steps = append(steps, fOp(0, "global", mkop(opBarrier, 0, "")), fOp(0, "method", mkop(opSize, 0, "")))
			out = append(out, fleetScn{Class: "large-sparse-file", Steps: steps})
		}
	}
	return out
}

func randomFleet(seed int64, idx int) fleetScn {
	rng := core.NewRng(seed, "c09/fleet/"+strconv.Itoa(idx))
	nslots := 2 + rng.Intn(5)
	sizes := make([]uint64, nslots)
	open := make([]bool, nslots)
	global := -1
	var steps []fleetStep
	nopen := 0
	nsteps := 30 + rng.Intn(120)
	pickSize := func() uint64 {
		if rng.Chance(60) {
			return fleetSizes[rng.Intn(8)]
		}
		return fleetSizes[rng.Intn(len(fleetSizes))]
	}
	cfgBias := rng.Intn(5) // 0..3: mostly that kind; 4: uniform
	for len(steps) < nsteps {
		p := rng.Intn(100)
		switch {
		case nopen == 0 || (p < 8 && nopen < nslots):
			s := rng.Intn(nslots)
			for open[s] {
				s = (s + 1) % nslots
			}
			cfg := fleetCfgs[rng.Intn(4)]
			if cfgBias < 4 && rng.Chance(70) {
				cfg = fleetCfgs[cfgBias]
			}
			sizes[s], open[s] = pickSize(), true
			nopen++
			steps = append(steps, fOpen(s, cfg, sizes[s], rng.Chance(50)))
		case p < 13 && nopen > 1:
			s := rng.Intn(nslots)
			for !open[s] {
				s = (s + 1) % nslots
			}
			open[s] = false
			nopen--
			if global == s {
				global = -1
			}
			steps = append(steps, fClose(s))
		case p < 22:
			s := rng.Intn(nslots)
			for !open[s] {
				s = (s + 1) % nslots
			}
			global = s
			steps = append(steps, fInit(s))
		default:
			s := rng.Intn(nslots)
			for !open[s] {
				s = (s + 1) % nslots
			}
			via := "method"
			if s == global && rng.Chance(60) {
				via = "global"
			} else if global >= 0 && rng.Chance(30) {
				s, via = global, "global"
			}
			n := sizes[s]
			var a uint64
			var cls string
			switch q := rng.Intn(100); {
			case q < 70 && n > 0:
				a, cls = rng.U64()%n, "random-in"
			case q < 82:
				ac := addrClasses(n)[rng.Intn(8)]
				a, cls = ac.a, ac.c
			case q < 96:
				// an address that is meaningful on another disk of the fleet
				o := rng.Intn(nslots)
				a, cls = sizes[o]-1+uint64(rng.Intn(3)), "other-size"
			default:
				a, cls = rng.U64(), "random-u64"
			}
			var o c09op
			switch q := rng.Intn(100); {
			case q < 40:
				l := bs
				if rng.Chance(10) {
					l = c09wlens[rng.Intn(len(c09wlens))]
				}
				o = mkwrite(a, cls, l, rng.Intn(4), rng.U64(), rng.Intn(5))
			case q < 62:
				o = mkop(opRead, a, cls)
			case q < 86:
				o = mkop(opReadTo, a, cls)
				o.Reuse, o.PSeed = rng.Intn(5), rng.U64()
			case q < 96:
				o = mkop(opSize, 0, "")
			default:
				o = mkop(opBarrier, 0, "")
			}
			steps = append(steps, fOp(s, via, o))
		}
	}
	return fleetScn{Class: "random", Steps: steps}
}

// c09FleetScenarios is a function of the seed only.
func c09FleetScenarios(seed int64, nrand int) []fleetScn {
	out := append(directedFleets(), largeFileFleets()...)
	for k := 0; k < nrand; k++ {
		out = append(out, randomFleet(seed, k))
	}
	for i := range out {
		out[i].Index = i
	}
	return out
}

type fleetSlot struct {
	d       disk.Disk
	cfg     string
	size    uint64
	path    string
	m       *c09model
	sparse  map[uint64]*[bs]byte // model of a large disk: written blocks only
	touched map[uint64]bool
}

func (s *fleetSlot) modelBlock(a uint64) []byte {
	if s.m != nil {
		return s.m.blocks[a][:]
	}
	if b := s.sparse[a]; b != nil {
		return b[:]
	}
	return make([]byte, bs)
}

func (s *fleetSlot) apply(o c09op) c09exp {
	if s.m != nil {
		return s.m.apply(o)
	}
	switch o.Kind {
	case opRead, opReadTo:
		if o.Addr >= s.size {
			return c09exp{Panic: true}
		}
		var d [bs]byte
		copy(d[:], s.modelBlock(o.Addr))
		return c09exp{Data: &d}
	case opWrite:
		if o.Len != bs || o.Addr >= s.size {
			return c09exp{Panic: true}
		}
		b := new([bs]byte)
		fillPattern(b[:], o.Pat, o.PSeed)
		s.sparse[o.Addr] = b
		return c09exp{}
	case opSize:
		return c09exp{Size: s.size}
	}
	return c09exp{}
}

// runFleet executes one scenario; violations and counters go to w.
func (w *c09result) runFleet(seed int64, scn fleetScn, dir string) {
	slots := map[int]*fleetSlot{}
	global := -1
	gen := 0
	lastPath := map[string]string{} // cfg -> image path of the last closed file disk of that kind
	diverged := false
	type heldBuf struct {
		b, snap []byte
		origin  string
	}
	held := map[*byte]*heldBuf{}
	var heldOrder []*byte
	hold := func(b []byte, origin string) {
		if len(b) == 0 {
			return
		}
		k := &b[0]
		if _, ok := held[k]; !ok {
			heldOrder = append(heldOrder, k)
			if len(heldOrder) > 12 {
				delete(held, heldOrder[0])
				heldOrder = heldOrder[1:]
			}
		}
		held[k] = &heldBuf{b: b, snap: append([]byte(nil), b...), origin: origin}
	}
	var pool [4][]byte
	for i := 1; i < 4; i++ {
		pool[i] = make([]byte, bs)
	}
	var lastRead []byte
	curStep := 0
	report := func(cfg, via, opName, kind, what string, want, got []byte) {
		diverged = true
		upto := curStep + 1
		if upto > len(scn.Steps) {
			upto = len(scn.Steps)
		}
		from := 0
		if upto > 80 {
			from = upto - 80
		}
		det := map[string]interface{}{
			"seed": seed, "fleet_index": scn.Index, "class": scn.Class, "failing_step": curStep,
			"steps_up_to_failure (last 80)": scn.Steps[from:upto], "first_step_shown": from,
			"replay": "execute the steps in order in one process: open = create a disk of the given kind and size in the slot (file disks on a fresh or removed image path); init = disk.Init(disk of the slot); op via method = call on the slot's disk, via global = disk.Read/Write/Size/Barrier, disk.Get().ReadTo; " +
				"Write buffers = fillPattern(pattern, pattern_seed) of buf_len bytes; every buffer passed or returned is scribbled (b[i] ^= byte(i*29)|0x80) after the call; after each successful Write the same address is read on every other open disk",
		}
		if want != nil || got != nil {
			off := firstDiff(want, got)
			det["first_differing_offset"] = off
			if off >= 0 {
				det["want"] = hexAround(want, off)
				det["got"] = hexAround(got, off)
			}
		}
		w.Violations = append(w.Violations, c09viol{
			Sig:    fmt.Sprintf("fleet-%s-%s-%s-%s", cfg, via, opName, kind),
			What:   fmt.Sprintf("fleet scenario %d (%s), step %d, %s via %s: %s", scn.Index, scn.Class, curStep, cfg, via, what),
			Detail: det,
		})
	}
	verifyHeld := func(cfg, via string) {
		for _, k := range heldOrder {
			hb := held[k]
			w.Counts["fleet_retained_buffer_checks"]++
			if hb != nil && !bytes.Equal(hb.b, hb.snap) {
				kind := "aliasing-read-buffer"
				if hb.origin == "Write" {
					kind = "aliasing-write-buffer"
				}
				report(cfg, via, hb.origin, kind, "a buffer previously passed to or returned by "+hb.origin+" (and since owned and modified only by the caller) was changed by a later library call, possibly on another disk", hb.snap, hb.b)
				return
			}
		}
	}
	// read block a of slot s through its methods and compare with its model
	probe := func(s *fleetSlot, a uint64) (ok bool, got []byte, panicked bool) {
		var b []byte
		p, _ := callPanics(func() { b = s.d.Read(a) })
		w.Evals++
		w.Counts["fleet_calls"]++
		if p {
			return false, nil, true
		}
		got = append([]byte(nil), b...)
		scribble(b)
		hold(b, "Read")
		return bytes.Equal(got, s.modelBlock(a)), got, false
	}
	readback := func(slotNo int, s *fleetSlot, why string) {
		var addrs []uint64
		if s.size <= 80 {
			for a := uint64(0); a < s.size; a++ {
				addrs = append(addrs, a)
			}
		} else {
			seen := map[uint64]bool{}
			for a := range s.touched {
				for _, x := range []uint64{a - 1, a, a + 1} {
					if x < s.size && !seen[x] {
						seen[x] = true
						addrs = append(addrs, x)
					}
				}
			}
			for _, x := range []uint64{0, 1, s.size - 1} {
				if !seen[x] {
					seen[x] = true
					addrs = append(addrs, x)
				}
			}
		}
		for _, a := range addrs {
			if diverged {
				return
			}
			ok, got, pp := probe(s, a)
			w.Counts["fleet_readback_blocks_compared"]++
			if pp {
				report(s.cfg, "method", "Read", "unexpected-panic", fmt.Sprintf("%s: Read(%d) of the disk in slot %d (size %d) panicked", why, a, slotNo, s.size), nil, nil)
			} else if !ok {
				kind := "interference"
				if why == "scan of a new disk" {
					kind = "fresh-disk-not-zero"
				}
				report(s.cfg, "method", "readback", kind, fmt.Sprintf("%s: block %d of the disk in slot %d (size %d) differs from its model", why, a, slotNo, s.size), s.modelBlock(a), got)
			}
		}
	}
	closeSlot := func(k int) {
		s := slots[k]
		if s == nil {
			return
		}
		callPanics(func() { s.d.Close() })
		if s.path != "" {
			os.Remove(s.path)
			lastPath[s.cfg] = s.path
		}
		delete(slots, k)
		if global == k {
			global = -1
		}
	}
	defer func() {
		for k := range slots {
			closeSlot(k)
		}
	}()
	for i, st := range scn.Steps {
		if diverged {
			return
		}
		curStep = i
		switch st.Kind {
		case "open":
			closeSlot(st.Slot)
			pkg, impl := fleetCfgParts(st.Cfg)
			path := ""
			if impl == "file" {
				// every other time re-use the (removed) image path of the last closed disk of this kind
				if lp := lastPath[st.Cfg]; lp != "" && gen%2 == 0 {
					path = lp
					delete(lastPath, st.Cfg)
				} else {
					path = filepath.Join(dir, fmt.Sprintf("fleet-%d-%d.img", st.Slot, gen))
				}
				gen++
			}
			d, err := openC10Disk(pkg, impl, path, st.Size)
			if err != nil {
				if st.Size > 1<<22 {
					w.Counts["fleet_large_image_not_creatable_skipped"]++
					return // the scratch filesystem cannot hold a sparse image of that size
				}
				w.Err = fmt.Sprintf("fleet open %s size %d: %v", st.Cfg, st.Size, err)
				return
			}
			s := &fleetSlot{d: d, cfg: st.Cfg, size: st.Size, path: path, touched: map[uint64]bool{}}
			if st.Size <= 4096 {
				s.m = &c09model{blocks: make([][bs]byte, st.Size)}
			} else {
				s.sparse = map[uint64]*[bs]byte{}
				w.Counts["fleet_large_sparse_file_disks"]++
			}
			slots[st.Slot] = s
			w.Counts["fleet_disks_opened"]++
			if n := int64(len(slots)); n > w.Counts["fleet_max_disks_alive_at_once"] {
				w.Counts["fleet_max_disks_alive_at_once"] = n
			}
			if len(slots) >= 2 {
				w.Counts["fleet_opens_with_another_disk_alive"]++
			}
			if st.Scan {
				readback(st.Slot, s, "scan of a new disk")
			}
		case "init":
			s := slots[st.Slot]
			if s == nil {
				continue
			}
			disk.Init(s.d)
			global = st.Slot
			w.Counts["fleet_init_calls"]++
		case "close":
			if s := slots[st.Slot]; s != nil {
				readback(st.Slot, s, "read-back before Close")
				closeSlot(st.Slot)
				w.Counts["fleet_disks_closed"]++
			}
		case "op":
			s := slots[st.Slot]
			if s == nil {
				continue
			}
			o := *st.Op
			via := st.Via
			if via == "global" && global != st.Slot {
				via = "method"
			}
			d := s.d
			read, readTo, write, size, barrier := d.Read, d.ReadTo, d.Write, d.Size, d.Barrier
			if via == "global" {
				read, write, size, barrier = disk.Read, disk.Write, disk.Size, disk.Barrier
				readTo = func(a uint64, b []byte) { disk.Get().ReadTo(a, b) }
			}
			exp := s.apply(o) // s's model now reflects o
			var gotData []byte
			var gotSize uint64
			var p bool
			switch o.Kind {
			case opRead:
				var b []byte
				p, _ = callPanics(func() { b = read(o.Addr) })
				if !p {
					gotData = append([]byte(nil), b...)
					if len(b) > 0 {
						if hb, okh := held[&b[0]]; okh {
							report(s.cfg, via, "Read", "aliasing-read-buffer", "Read returned memory the caller already owns (a buffer "+hb.origin+" used earlier, possibly with another disk)", nil, nil)
							return
						}
					}
					scribble(b)
					hold(b, "Read")
					lastRead = b
				}
			case opReadTo:
				var b []byte
				switch {
				case o.Reuse >= 1 && o.Reuse <= 3:
					b = pool[o.Reuse]
				case o.Reuse == 4 && len(lastRead) == bs:
					b = lastRead
				default:
					b = make([]byte, bs)
				}
				fillPattern(b, 3, o.PSeed^0xD1)
				if exp.Data != nil {
					for k := range b {
						b[k] = exp.Data[k] ^ (b[k] | 1)
					}
				}
				p, _ = callPanics(func() { readTo(o.Addr, b) })
				if !p {
					gotData = append([]byte(nil), b...)
				}
				scribble(b)
				hold(b, "ReadTo")
			case opWrite:
				var wbuf []byte
				switch {
				case o.Len == bs && o.Reuse >= 1 && o.Reuse <= 3:
					wbuf = pool[o.Reuse]
				case o.Len == bs && o.Reuse == 4 && len(lastRead) == bs:
					wbuf = lastRead
				default:
					wbuf = make([]byte, o.Len)
				}
				fillPattern(wbuf, o.Pat, o.PSeed)
				p, _ = callPanics(func() { write(o.Addr, wbuf) })
				scribble(wbuf)
				hold(wbuf, "Write")
			case opSize:
				p, _ = callPanics(func() { gotSize = size() })
			case opBarrier:
				p, _ = callPanics(func() { barrier() })
			}
			w.Evals++
			w.Counts["fleet_calls"]++
			w.Counts["fleet_calls_via_"+via]++
			if len(slots) >= 2 {
				w.Counts["fleet_calls_with_several_disks_alive"]++
			}
			if exp.Panic {
				w.Counts["fleet_refusals_expected_and_compared"]++
			}
			switch {
			case exp.Panic && !p:
				report(s.cfg, via, o.Name, "missing-panic", fmt.Sprintf("%s(addr=%d, len=%d) on the disk in slot %d (size %d) returned normally; the model refuses it", o.Name, o.Addr, o.Len, st.Slot, s.size), nil, nil)
				return
			case !exp.Panic && p:
				report(s.cfg, via, o.Name, "unexpected-panic", fmt.Sprintf("%s(addr=%d, len=%d) on the disk in slot %d (size %d) panicked; the model accepts it", o.Name, o.Addr, o.Len, st.Slot, s.size), nil, nil)
				return
			}
			if !exp.Panic {
				switch o.Kind {
				case opRead, opReadTo:
					if !bytes.Equal(gotData, exp.Data[:]) {
						report(s.cfg, via, o.Name, "wrong-data", fmt.Sprintf("%s(%d) on the disk in slot %d (size %d) returned a block differing from the last value written there", o.Name, o.Addr, st.Slot, s.size), exp.Data[:], gotData)
						return
					}
					w.Counts["fleet_blocks_compared"]++
					s.touched[o.Addr] = true
				case opWrite:
					s.touched[o.Addr] = true
					// own block, then the same address on every other disk
					ok, got, pp := probe(s, o.Addr)
					if pp {
						report(s.cfg, via, "Read", "unexpected-panic", fmt.Sprintf("Read(%d) panicked right after a successful Write(%d)", o.Addr, o.Addr), nil, nil)
						return
					} else if !ok {
						report(s.cfg, via, o.Name, "wrong-data", fmt.Sprintf("after Write(%d, v) on the disk in slot %d (size %d) and mutating v, Read(%d) does not return the value written", o.Addr, st.Slot, s.size, o.Addr), s.modelBlock(o.Addr), got)
						return
					}
					for k, os2 := range slots {
						if k == st.Slot || o.Addr >= os2.size || diverged {
							continue
						}
						ok, got, pp := probe(os2, o.Addr)
						w.Counts["fleet_cross_disk_probes"]++
						if pp {
							report(os2.cfg, "method", "Read", "unexpected-panic", fmt.Sprintf("Read(%d) of the disk in slot %d panicked after a Write to the disk in slot %d", o.Addr, k, st.Slot), nil, nil)
						} else if !ok {
							report(os2.cfg, "method", "readback", "cross-disk-interference", fmt.Sprintf("after Write(%d) on the disk in slot %d (%s), block %d of the disk in slot %d differs from its model", o.Addr, st.Slot, s.cfg, o.Addr, k), os2.modelBlock(o.Addr), got)
						}
					}
				case opSize:
					w.Counts["fleet_size_calls_compared"]++
					if gotSize != exp.Size {
						report(s.cfg, via, o.Name, "wrong-size", fmt.Sprintf("Size() = %d for the disk in slot %d, created with %d blocks", gotSize, st.Slot, exp.Size), nil, nil)
						return
					}
				}
			} else if o.Kind == opWrite && o.Addr < s.size {
				ok, got, pp := probe(s, o.Addr)
				if !pp && !ok {
					report(s.cfg, via, o.Name, "wrong-data", fmt.Sprintf("refused Write(addr=%d, len=%d) changed block %d", o.Addr, o.Len, o.Addr), s.modelBlock(o.Addr), got)
					return
				}
			}
			if !diverged {
				verifyHeld(s.cfg, via)
			}
		}
	}
	// end of the scenario: every disk still open against its model, and its size
	for k, s := range slots {
		if diverged {
			break
		}
		curStep = len(scn.Steps)
		readback(k, s, "read-back at the end of the scenario")
		var sz uint64
		if p, _ := callPanics(func() { sz = s.d.Size() }); !diverged && (p || sz != s.size) {
			report(s.cfg, "method", "Size", "wrong-size", fmt.Sprintf("Size() = %d (panic=%v) at the end of the scenario for the disk in slot %d, created with %d blocks", sz, p, k, s.size), nil, nil)
		}
	}
	w.Counts["fleet_scenarios"]++
	w.Counts["fleet_scenarios_"+scn.Class]++
}
