package diskp

import (
	"bufio"
	"crypto/sha256"
	"encoding/binary"
	"encoding/hex"
	"encoding/json"
	"fmt"
	"os"
	"path/filepath"
	"runtime"
	"sort"
	"strconv"
	"strings"
	"sync"
	"sync/atomic"
	"time"

	"verif/core"
	"verif/props"

	"github.com/anishathalye/porcupine"
)

func init() {
	props.Registry["C10"] = props.Prop{Level: "exploration", Run: runC10}
	props.Children["c10-client"] = c10Client
}

// ---------------------------------------------------------------- workload

// A stamp identifies one write: (address+1)<<40 | (client+1)<<24 | seq+1. It is
// repeated as a little-endian uint64 through all 512 words of the block. The
// zero block (stamp 0) is the initial value of every address.
func stampOf(addr uint64, client, seq int) uint64 {
	return (addr+1)<<40 | uint64(client+1)<<24 | uint64(seq+1)
}

func stampAddr(s uint64) (uint64, bool) {
	if s == 0 || s>>40 == 0 {
		return 0, false
	}
	return s>>40 - 1, true
}

func describeStamp(s uint64) string {
	if s == 0 {
		return "initial"
	}
	if s>>56 == 1 { // shaped layer, second disk of a twin history
		if a, ok := stampAddr(s &^ (1 << 56)); ok {
			return fmt.Sprintf("w(disk=1,addr=%d,client=%d,seq=%d)", a, int(s>>24&0xFFFF)-1, int(s&0xFFFFFF)-1)
		}
	}
	a, ok := stampAddr(s)
	if !ok || s>>56 != 0 {
		return fmt.Sprintf("garbage(%#x)", s)
	}
	return fmt.Sprintf("w(addr=%d,client=%d,seq=%d)", a, int(s>>24&0xFFFF)-1, int(s&0xFFFFFF)-1)
}

const dirtyWord = 0xDDDDDDDDDDDDDDDD // ReadTo buffers are pre-filled with it

type c10params struct {
	Hist       int      `json:"hist"`
	Impl       string   `json:"impl"` // mem | file
	Pkg        string   `json:"pkg"`  // disk | async_disk (the package whose constructor made the disk)
	Clients    int      `json:"clients"`
	Size       uint64   `json:"size"`
	Hot        []uint64 `json:"hot"`
	HotPct     int      `json:"hot_pct"`
	GoschedPct int      `json:"gosched_pct"`
	Ops        []int    `json:"ops_per_client"`
}

type c10op struct {
	K byte // 'r' Read, 't' ReadTo, 'w' Write, 's' Size
	A uint64
}

func c10gen(seed int64, idx int) (c10params, [][]c10op) {
	rng := core.NewRng(seed, "c10/h"+strconv.Itoa(idx))
	p := c10params{Hist: idx, Impl: "mem"}
	if idx%2 == 1 {
		p.Impl = "file"
	}
	p.Pkg = "disk"
	if (idx/2)%2 == 1 {
		p.Pkg = "async_disk"
	}
	p.Clients = 2 + rng.Intn(15)
	p.Size = uint64(4 + rng.Intn(13))
	nhot := 1 + rng.Intn(3)
	perm := make([]uint64, p.Size)
	for i := range perm {
		perm[i] = uint64(i)
	}
	for i := len(perm) - 1; i > 0; i-- {
		j := rng.Intn(i + 1)
		perm[i], perm[j] = perm[j], perm[i]
	}
	p.Hot = append([]uint64(nil), perm[:nhot]...)
	if rng.Chance(30) && p.Size >= 4 { // neighbouring hot blocks
		a := uint64(rng.Intn(int(p.Size) - 2))
		p.Hot = []uint64{a, a + 1, a + 2}[:nhot]
	}
	p.HotPct = 70 + rng.Intn(30)
	p.GoschedPct = []int{0, 0, 5, 20, 50}[rng.Intn(5)]
	ops := make([][]c10op, p.Clients)
	for c := 0; c < p.Clients; c++ {
		n := 20 + rng.Intn(41)
		p.Ops = append(p.Ops, n)
		for i := 0; i < n; i++ {
			var o c10op
			switch x := rng.Intn(100); {
			case x < 40:
				o.K = 'w'
			case x < 65:
				o.K = 'r'
			case x < 92:
				o.K = 't'
			default:
				o.K = 's'
			}
			if rng.Chance(p.HotPct) {
				o.A = p.Hot[rng.Intn(len(p.Hot))]
			} else {
				o.A = rng.U64() % p.Size
			}
			ops[c] = append(ops[c], o)
		}
	}
	return p, ops
}

// c10event is one completed call as recorded by the calling client.
type c10event struct {
	C    int      `json:"c"`
	K    string   `json:"k"`
	A    uint64   `json:"a"`
	T0   int64    `json:"t0"`
	T1   int64    `json:"t1"`
	V    uint64   `json:"v"`              // stamp written, stamp of word 0 read, or Size result
	Torn []uint64 `json:"torn,omitempty"` // distinct words of a non-uniform block (first 6)
	P    string   `json:"p,omitempty"`    // panic message
	Q    bool     `json:"q,omitempty"`    // read by the main goroutine after all clients joined
}

type c10record struct {
	c10params
	GoMaxProcs int        `json:"gomaxprocs"`
	Race       bool       `json:"race"`
	Events     []c10event `json:"events"`
}

func decodeBlock(b []byte, ev *c10event) {
	if len(b) != bs {
		ev.P = fmt.Sprintf("harness: returned block has %d bytes", len(b))
		return
	}
	ev.V = binary.LittleEndian.Uint64(b)
	uniform := true
	for i := 8; i < bs; i += 8 {
		if binary.LittleEndian.Uint64(b[i:]) != ev.V {
			uniform = false
			break
		}
	}
	if uniform {
		return
	}
	seen := map[uint64]bool{}
	for i := 0; i < bs; i += 8 {
		w := binary.LittleEndian.Uint64(b[i:])
		if !seen[w] {
			seen[w] = true
			if len(ev.Torn) < 6 {
				ev.Torn = append(ev.Torn, w)
			}
		}
	}
}

// c10Client: vcheck child c10-client <seed> <first> <count> <stride> <race 0|1> <dir> <out>
// Runs histories first, first+stride, ... (count of them), appending one JSON
// line per history to <out>. Everything the clients share is immutable or
// owned by package disk; each client records into its own slice, and no
// atomics are used between clients (they would create happens-before edges
// and hide races from the detector).
func c10Client(args []string) int {
	if len(args) < 7 {
		fmt.Fprintln(os.Stderr, "c10-client: seed first count stride race dir out")
		return 2
	}
	seed, _ := strconv.ParseInt(args[0], 10, 64)
	first, _ := strconv.Atoi(args[1])
	count, _ := strconv.Atoi(args[2])
	stride, _ := strconv.Atoi(args[3])
	race := args[4] == "1"
	dir, out := args[5], args[6]
	os.MkdirAll(dir, 0o755)
	f, err := os.Create(out)
	if err != nil {
		fmt.Fprintln(os.Stderr, err)
		return 2
	}
	defer f.Close()
	wr := bufio.NewWriterSize(f, 1<<20)
	for k := 0; k < count; k++ {
		idx := first + k*stride
		p, ops := c10gen(seed, idx)
		fmt.Fprintf(os.Stderr, "history %d impl=%s pkg=%s clients=%d\n", idx, p.Impl, p.Pkg, p.Clients)
		path := filepath.Join(dir, fmt.Sprintf("h%d.img", idx))
		d, err := openC10Disk(p.Pkg, p.Impl, path, p.Size)
		if err != nil {
			fmt.Fprintln(os.Stderr, "harness: open disk:", err)
			return 2
		}
		evs := make([][]c10event, p.Clients)
		start := time.Now()
		// start barrier: the clients spin until all of them are running, so that their
		// short operation sequences actually overlap. This is the only atomic the
		// clients share and it is not touched once the operations begin.
		var ready int32
		var wg sync.WaitGroup
		for c := 0; c < p.Clients; c++ {
			wg.Add(1)
			go func(c int) {
				defer wg.Done()
				rng := core.NewRng(seed, fmt.Sprintf("c10/h%d/c%d/sched", idx, c))
				my := make([]c10event, 0, len(ops[c]))
				wbuf := make([]byte, bs)
				rbuf := make([]byte, bs)
				atomic.AddInt32(&ready, 1)
				for atomic.LoadInt32(&ready) < int32(p.Clients) {
					runtime.Gosched()
				}
				for seq, o := range ops[c] {
					ev := c10event{C: c, K: string(rune(o.K)), A: o.A}
					func() {
						defer func() {
							if e := recover(); e != nil {
								ev.T1 = int64(time.Since(start))
								ev.P = fmt.Sprint(e)
							}
						}()
						switch o.K {
						case 'w':
							ev.V = stampOf(o.A, c, seq)
							for i := 0; i < bs; i += 8 {
								binary.LittleEndian.PutUint64(wbuf[i:], ev.V)
							}
							ev.T0 = int64(time.Since(start))
							d.Write(o.A, wbuf)
							ev.T1 = int64(time.Since(start))
						case 'r':
							ev.T0 = int64(time.Since(start))
							b := d.Read(o.A)
							ev.T1 = int64(time.Since(start))
							decodeBlock(b, &ev)
						case 't':
							for i := 0; i < bs; i += 8 {
								binary.LittleEndian.PutUint64(rbuf[i:], dirtyWord)
							}
							ev.T0 = int64(time.Since(start))
							d.ReadTo(o.A, rbuf)
							ev.T1 = int64(time.Since(start))
							decodeBlock(rbuf, &ev)
						case 's':
							ev.T0 = int64(time.Since(start))
							ev.V = d.Size()
							ev.T1 = int64(time.Since(start))
						}
					}()
					my = append(my, ev)
					if p.GoschedPct > 0 && rng.Chance(p.GoschedPct) {
						runtime.Gosched()
					}
				}
				evs[c] = my
			}(c)
		}
		wg.Wait()
		// quiescent point: every client has joined. The main goroutine reads every block of
		// the disk (client id = number of clients); these reads overlap nothing.
		var final []c10event
		rbuf := make([]byte, bs)
		for a := uint64(0); a < p.Size; a++ {
			ev := c10event{C: p.Clients, K: "r", A: a, Q: true}
			func() {
				defer func() {
					if e := recover(); e != nil {
						ev.T1 = int64(time.Since(start))
						ev.P = fmt.Sprint(e)
					}
				}()
				if a%2 == 0 {
					ev.T0 = int64(time.Since(start))
					b := d.Read(a)
					ev.T1 = int64(time.Since(start))
					decodeBlock(b, &ev)
				} else {
					ev.K = "t"
					for i := 0; i < bs; i += 8 {
						binary.LittleEndian.PutUint64(rbuf[i:], dirtyWord)
					}
					ev.T0 = int64(time.Since(start))
					d.ReadTo(a, rbuf)
					ev.T1 = int64(time.Since(start))
					decodeBlock(rbuf, &ev)
				}
			}()
			final = append(final, ev)
		}
		d.Close()
		if p.Impl == "file" {
			os.Remove(path)
		}
		rec := c10record{c10params: p, GoMaxProcs: runtime.GOMAXPROCS(0), Race: race}
		for _, e := range evs {
			rec.Events = append(rec.Events, e...)
		}
		rec.Events = append(rec.Events, final...)
		b, _ := json.Marshal(rec)
		wr.Write(b)
		wr.WriteByte('\n')
		wr.Flush()
	}
	return 0
}

// ---------------------------------------------------------------- checkers

type regInput struct {
	write bool
	v     uint64
}

var registerModel = porcupine.Model{
	Init: func() interface{} { return uint64(0) },
	Step: func(state, input, output interface{}) (bool, interface{}) {
		in := input.(regInput)
		if in.write {
			return true, in.v
		}
		return output.(uint64) == state.(uint64), state
	},
	Equal: func(a, b interface{}) bool { return a.(uint64) == b.(uint64) },
	DescribeOperation: func(input, output interface{}) string {
		in := input.(regInput)
		if in.write {
			return "write " + describeStamp(in.v)
		}
		return "read -> " + describeStamp(output.(uint64))
	},
}

func overlaps(a, b *c10event) bool { return a.T0 <= b.T1 && b.T0 <= a.T1 }

func describeEvent(e *c10event) string {
	name := map[string]string{"r": "Read", "t": "ReadTo", "w": "Write", "s": "Size"}[e.K]
	s := fmt.Sprintf("[%d,%d] client %d %s(%d)", e.T0, e.T1, e.C, name, e.A)
	if e.Q {
		s = fmt.Sprintf("[%d,%d] main goroutine after the join %s(%d)", e.T0, e.T1, name, e.A)
	}
	switch {
	case e.P != "":
		s += " PANIC " + e.P
	case e.K == "w":
		s += " value " + describeStamp(e.V)
	case e.K == "s":
		s += fmt.Sprintf(" -> %d", e.V)
	case len(e.Torn) > 0:
		var ws []string
		for _, w := range e.Torn {
			ws = append(ws, describeStamp(w))
		}
		s += " -> TORN {" + strings.Join(ws, ", ") + "}"
	default:
		s += " -> " + describeStamp(e.V)
	}
	return s
}

func describePartition(evs []*c10event, max int) []string {
	var out []string
	for i, e := range evs {
		if i >= max {
			out = append(out, fmt.Sprintf("… %d more", len(evs)-max))
			break
		}
		out = append(out, describeEvent(e))
	}
	return out
}

// partitionKey hashes the order of call/return events and their values: two
// partitions with the same key are the same history up to timestamps.
func partitionKey(impl string, evs []*c10event) string {
	type pt struct {
		t   int64
		ret bool
		i   int
	}
	var pts []pt
	for i, e := range evs {
		pts = append(pts, pt{e.T0, false, i}, pt{e.T1, true, i})
	}
	sort.Slice(pts, func(a, b int) bool {
		if pts[a].t != pts[b].t {
			return pts[a].t < pts[b].t
		}
		if pts[a].ret != pts[b].ret {
			return !pts[a].ret
		}
		return pts[a].i < pts[b].i
	})
	h := sha256.New()
	fmt.Fprint(h, impl)
	for _, p := range pts {
		e := evs[p.i]
		fmt.Fprintf(h, "|%v,%d,%s,%x", p.ret, e.C, e.K, e.V)
	}
	return hex.EncodeToString(h.Sum(nil)[:10])
}

type c10checker struct {
	r        *core.Run
	mu       sync.Mutex
	sampled  map[string]int // per implementation
	sampledH map[int]bool   // one sample per history
}

// sample keeps at most four written-out per-address histories per implementation,
// each from a different history.
func (ck *c10checker) sample(impl string, hist int, v interface{}) {
	ck.mu.Lock()
	defer ck.mu.Unlock()
	if ck.sampled == nil {
		ck.sampled, ck.sampledH = map[string]int{}, map[int]bool{}
	}
	limit := 4
	if strings.HasSuffix(impl, "-shaped") {
		limit = 2
		hist += 1 << 30 // shaped histories are numbered separately
	}
	if ck.sampled[impl] >= limit || ck.sampledH[hist] {
		return
	}
	ck.sampled[impl]++
	ck.sampledH[hist] = true
	ck.r.Sample(12, v)
}

func (ck *c10checker) replayDetail(rec *c10record, addr uint64, evs []*c10event, extra map[string]interface{}) map[string]interface{} {
	d := map[string]interface{}{
		"seed": ck.r.Seed, "history_index": rec.Hist, "impl": rec.Impl, "package": rec.Pkg, "clients": rec.Clients, "disk_size": rec.Size,
		"hot_addresses": rec.Hot, "gomaxprocs": rec.GoMaxProcs, "race_build": rec.Race, "address": addr,
		"events_on_address_by_call_time": describePartition(evs, 400),
		"replay":                         fmt.Sprintf("vcheck child c10-client %d %d 1 1 %d <dir> <out>  (the operation lists are a function of seed and history index; the schedule is not)", ck.r.Seed, rec.Hist, b2i(rec.Race)),
	}
	for k, v := range extra {
		d[k] = v
	}
	return d
}

func b2i(b bool) int {
	if b {
		return 1
	}
	return 0
}

// checkRecord applies every oracle to one recorded history.
func (ck *c10checker) checkRecord(rec *c10record) {
	r := ck.r
	impl := rec.Impl
	pfx := map[string]string{"mem": "memdisk", "file": "filedisk"}[impl]
	r.Count("histories_"+impl, 1)
	r.Count("histories_"+impl+"_"+rec.Pkg, 1)
	if rec.Race {
		r.Count("histories_race_build", 1)
	}
	r.Count(fmt.Sprintf("histories_gomaxprocs_%d", rec.GoMaxProcs), 1)
	r.Eval(len(rec.Events))
	r.Count("ops_"+impl, int64(len(rec.Events)))
	parts := map[uint64][]*c10event{}
	for i := range rec.Events {
		e := &rec.Events[i]
		if e.P != "" {
			r.Violate(pfx+"-unexpected-panic", fmt.Sprintf("%s: in-range %s panicked under concurrency: %s", impl, describeEvent(e), e.P),
				ck.replayDetail(rec, e.A, []*c10event{e}, nil))
			continue
		}
		if e.K == "s" {
			r.Count("size_calls_compared", 1)
			if e.V != rec.Size {
				r.Violate(pfx+"-size-changed", fmt.Sprintf("%s: Size() returned %d on a disk of %d blocks", impl, e.V, rec.Size),
					ck.replayDetail(rec, 0, []*c10event{e}, nil))
			}
			continue
		}
		parts[e.A] = append(parts[e.A], e)
	}
	addrs := make([]uint64, 0, len(parts))
	for a := range parts {
		addrs = append(addrs, a)
	}
	sort.Slice(addrs, func(i, j int) bool { return addrs[i] < addrs[j] })
	for _, a := range addrs {
		evs := parts[a]
		sort.Slice(evs, func(i, j int) bool {
			if evs[i].T0 != evs[j].T0 {
				return evs[i].T0 < evs[j].T0
			}
			return evs[i].C < evs[j].C
		})
		// overlapping pairs (closed intervals, as porcupine interprets them)
		var pairs, wpairs int64
		for i := range evs {
			for j := i + 1; j < len(evs) && evs[j].T0 <= maxT1(evs, i); j++ {
				if overlaps(evs[i], evs[j]) {
					pairs++
					if evs[i].K == "w" || evs[j].K == "w" {
						wpairs++
					}
				}
			}
		}
		r.Count("overlapping_same_address_pairs", pairs)
		r.Count("overlapping_same_address_pairs_"+impl, pairs)
		r.Count("overlapping_pairs_involving_a_write_"+impl, wpairs)
		if pairs > 0 {
			r.Distinct(partitionKey(impl, evs))
			r.Count("per_address_histories_with_overlap_"+impl, 1)
		}
		r.Count("per_address_histories_checked_"+impl, 1)
		torn := 0
		for _, e := range evs {
			if len(e.Torn) > 0 {
				torn++
			}
		}
		r.Count("torn_reads_"+impl, int64(torn))
		if impl == "mem" {
			ck.checkMem(rec, a, evs, torn, pairs)
		} else {
			ck.checkFile(rec, a, evs)
		}
	}
}

// maxT1 bounds the forward scan: evs is sorted by T0, so once evs[j].T0 exceeds
// evs[i].T1 no later event overlaps evs[i].
func maxT1(evs []*c10event, i int) int64 { return evs[i].T1 }

func (ck *c10checker) checkMem(rec *c10record, a uint64, evs []*c10event, torn int, pairs int64) {
	r := ck.r
	if torn > 0 {
		for _, e := range evs {
			if len(e.Torn) > 0 {
				r.Violate("memdisk-torn-read", fmt.Sprintf("mem: %s returned a block whose words come from more than one value", describeEvent(e)),
					ck.replayDetail(rec, a, evs, map[string]interface{}{"torn_read": describeEvent(e)}))
				break
			}
		}
		return // word 0 of a torn block is not a value; porcupine would only repeat the finding
	}
	ops := make([]porcupine.Operation, 0, len(evs))
	for _, e := range evs {
		op := porcupine.Operation{ClientId: e.C, Call: e.T0, Return: e.T1}
		if e.K == "w" {
			op.Input, op.Output = regInput{true, e.V}, uint64(0)
		} else {
			op.Input, op.Output = regInput{false, 0}, e.V
		}
		ops = append(ops, op)
	}
	res := porcupine.CheckOperationsTimeout(registerModel, ops, 60*time.Second)
	switch res {
	case porcupine.Ok:
		r.Count("porcupine_ok", 1)
		if pairs >= 3 && len(evs) <= 12 {
			ck.sample("mem", rec.Hist, map[string]interface{}{"impl": "mem", "history_index": rec.Hist, "address": a, "gomaxprocs": rec.GoMaxProcs,
				"race_build": rec.Race, "overlapping_pairs": pairs, "porcupine": "ok", "events_ns": describePartition(evs, 40)})
		}
	case porcupine.Illegal:
		r.Count("porcupine_illegal", 1)
		r.Violate("memdisk-nonlinearizable", fmt.Sprintf("mem: the %d operations on address %d of history %d admit no linearization against a register", len(evs), a, rec.Hist),
			ck.replayDetail(rec, a, evs, nil))
	default:
		r.Count("porcupine_unknown", 1)
		r.Inconclusive("porcupine-timeout")
	}
}

func (ck *c10checker) checkFile(rec *c10record, a uint64, evs []*c10event) {
	r := ck.r
	var writes []*c10event
	byStamp := map[uint64]*c10event{}
	for _, e := range evs {
		if e.K == "w" {
			writes = append(writes, e)
			byStamp[e.V] = e
		}
	}
	// latestStartOfCompleted(t) = max T0 over writes with T1 < t
	byT1 := append([]*c10event(nil), writes...)
	sort.Slice(byT1, func(i, j int) bool { return byT1[i].T1 < byT1[j].T1 })
	prefMaxT0 := make([]int64, len(byT1))
	for i, w := range byT1 {
		prefMaxT0[i] = w.T0
		if i > 0 && prefMaxT0[i-1] > w.T0 {
			prefMaxT0[i] = prefMaxT0[i-1]
		}
	}
	latestStartOfCompleted := func(t int64) (int64, bool) {
		n := sort.Search(len(byT1), func(i int) bool { return byT1[i].T1 >= t })
		if n == 0 {
			return 0, false
		}
		return prefMaxT0[n-1], true
	}
	sampled := false
	for _, e := range evs {
		if e.K == "w" {
			continue
		}
		words := e.Torn
		if len(words) == 0 {
			words = []uint64{e.V}
		}
		overlapW := false
		for _, w := range writes {
			if overlaps(w, e) {
				overlapW = true
				break
			}
		}
		if overlapW {
			r.Count("filedisk_reads_overlapping_a_write", 1)
		} else {
			r.Count("filedisk_reads_not_overlapping_any_write_checked", 1)
			if e.Q {
				r.Count("filedisk_quiescent_point_reads_judged", 1)
			}
			if len(e.Torn) > 0 {
				// every write to a returned before this read began (or begins after it): the block must be
				// one whole payload
				r.Violate("filedisk-settled-read-is-no-written-block", fmt.Sprintf("file: %s overlaps no write to address %d, yet the block it returned is not the payload of any single write: it mixes several values", describeEvent(e), a),
					ck.replayDetail(rec, a, evs, map[string]interface{}{"read": describeEvent(e)}))
			}
		}
		for _, wd := range words {
			var src *c10event
			if wd != 0 {
				src = byStamp[wd]
				if src == nil {
					// not a value ever written to this address
					what := fmt.Sprintf("file: %s contains %s, which was never written to address %d", describeEvent(e), describeStamp(wd), a)
					if sa, ok := stampAddr(wd); ok && sa != a && wd>>56 == 0 {
						what = fmt.Sprintf("file: %s contains a value written to address %d", describeEvent(e), sa)
					}
					r.Violate("filedisk-interference", what, ck.replayDetail(rec, a, evs, map[string]interface{}{"read": describeEvent(e)}))
					continue
				}
			}
			// stale: the value's write was followed (wholly in real time) by another write to a
			// that itself completed before the read began
			ls, any := latestStartOfCompleted(e.T0)
			stale := any && (src == nil || src.T1 < ls)
			future := src != nil && src.T0 > e.T1
			if overlapW {
				if stale {
					r.Count("filedisk_stale_words_in_reads_overlapping_a_write_not_judged", 1)
				}
				continue
			}
			if future {
				r.Violate("filedisk-future-read", fmt.Sprintf("file: %s returned the value of a write that began after the read returned", describeEvent(e)),
					ck.replayDetail(rec, a, evs, map[string]interface{}{"read": describeEvent(e), "write": describeEvent(src)}))
			}
			if stale {
				val := "the initial zero block"
				if src != nil {
					val = "the value of " + describeEvent(src)
				}
				r.Violate("filedisk-stale-read", fmt.Sprintf("file: %s overlaps no write to address %d, yet returned %s, which had been overwritten by a write that completed before the read began", describeEvent(e), a, val),
					ck.replayDetail(rec, a, evs, map[string]interface{}{"read": describeEvent(e)}))
			}
		}
		if !sampled && len(evs) <= 12 && len(writes) >= 2 && overlapW {
			sampled = true
			ck.sample("file", rec.Hist, map[string]interface{}{"impl": "file", "history_index": rec.Hist, "address": a, "gomaxprocs": rec.GoMaxProcs,
				"race_build": rec.Race, "verdict": "no stale read, no foreign stamp", "events_ns": describePartition(evs, 40)})
		}
	}
}

// ---------------------------------------------------------------- race logs

type raceReport struct {
	Frames [2]string // outermost library frame of each access ("" if none)
	Text   string
}

const goosePrefix = "github.com/goose-lang/goose/"

// parseRaceLog extracts the `WARNING: DATA RACE` blocks of one GORACE log.
func parseRaceLog(text string) []raceReport {
	var out []raceReport
	blocks := strings.Split(text, "WARNING: DATA RACE")
	for _, b := range blocks[1:] {
		if i := strings.Index(b, "=================="); i >= 0 {
			b = b[:i]
		}
		rep := raceReport{Text: "WARNING: DATA RACE" + b}
		sections := strings.Split(strings.TrimSpace(b), "\n\n")
		acc := 0
		for _, s := range sections {
			lines := strings.Split(s, "\n")
			if len(lines) == 0 {
				continue
			}
			head := strings.TrimSpace(lines[0])
			if !(strings.Contains(head, " at 0x") && strings.Contains(head, " by ")) {
				continue // goroutine creation stacks, "Location is…" sections
			}
			if acc >= 2 {
				break
			}
			outer := ""
			for li := 1; li < len(lines); li++ {
				l := lines[li]
				if strings.HasPrefix(l, "      ") || !strings.HasPrefix(l, "  ") {
					continue // file:line lines
				}
				fn := strings.TrimSpace(l)
				file := ""
				if li+1 < len(lines) {
					file = strings.TrimSpace(lines[li+1])
				}
				if strings.HasPrefix(file, "<autogenerated>") {
					continue // pointer-receiver wrappers of value methods called through the interface
				}
				if strings.HasPrefix(fn, goosePrefix) || strings.HasPrefix(file, core.RepoDir+"/") {
					fn = strings.TrimPrefix(fn, goosePrefix)
					fn = strings.TrimPrefix(fn, "machine/")
					fn = strings.TrimSuffix(fn, "()")
					outer = fn // stacks are printed innermost first: the last match is the outermost
				}
			}
			rep.Frames[acc] = outer
			acc++
		}
		out = append(out, rep)
	}
	return out
}

func (ck *c10checker) collectRaces(dir string) {
	r := ck.r
	files, _ := filepath.Glob(filepath.Join(dir, "*"))
	sort.Strings(files)
	dedup := map[string]bool{}
	for _, f := range files {
		b, err := os.ReadFile(f)
		if err != nil {
			continue
		}
		for _, rep := range parseRaceLog(string(b)) {
			r.Count("race_reports_raw", 1)
			if rep.Frames[0] == "" && rep.Frames[1] == "" {
				r.Count("race_reports_without_library_frame", 1)
				r.Sample(12, map[string]interface{}{"race_report_without_library_frame": rep.Text})
				continue
			}
			r.Count("race_reports_with_library_frame", 1)
			fr := []string{rep.Frames[0], rep.Frames[1]}
			for i := range fr {
				if fr[i] == "" {
					fr[i] = "caller"
				}
			}
			sort.Strings(fr)
			sig := "race-" + fr[0] + "-" + fr[1]
			if !dedup[sig] {
				dedup[sig] = true
				r.Violate(sig, fmt.Sprintf("race detector: unsynchronised accesses inside %s and %s", fr[0], fr[1]),
					map[string]interface{}{"seed": r.Seed, "report": rep.Text,
						"replay": "build vcheck with -race and run `vcheck child c10-client <seed> <first> <count> <stride> 1 <dir> <out>` with GORACE=halt_on_error=0"})
			}
		}
	}
	r.Set("race_reports_deduped", len(dedup))
}

// ---------------------------------------------------------------- driver

func runC10(r *core.Run) (bool, string) {
	r.SetRule("evaluations = client-boundary operations recorded and judged; distinct_nontrivial = distinct per-address sub-histories (implementation + order of call/return events with clients, operation kinds and values) that contain at least one pair of overlapping operations (plain layer) or of overlapping writes (shaped layer). " +
		"Plain layer, each history: 2–16 client goroutines, 20–60 operations each (Write 40 %, Read 25 %, ReadTo 27 %, Size 8 %), 70–99 % of them on 1–3 hot addresses of a 4–16 block disk made by package disk or async_disk; every written block carries one stamp (address, client, seq) in all 512 words; after the clients have joined the main goroutine reads every block. " +
		"Fresh-start histories (shaped_fresh_start_*): thousands of newly created disks used for one or two rounds by 2–8 clients whose first operations are released together (no read precedes the first burst). Shaped layer (shaped_* keys), each history: 2–10 clients, 15–45 rounds on 1–2 hot addresses of a 1–12 block disk; a round = observation phase (clients read the hot addresses, nobody writes), spin barrier, burst (1–3 operations per client, 82 % writes), spin barrier; a written block is the block the writer last observed at the address with its stamp put into a region only — whole block, header, trailer, inside a middle sector, two sectors, or nowhere (payload equal to the observation); after the join the main goroutine reads every block. " +
		"MemDisk: porcupine per address against a register (60 s; whole block contents are the values in the shaped layer), a block that is no single write's payload = violation, -race child runs = race reports with a library frame are violations. " +
		"Group layer (group_* keys, c10group.go), each case = one disk: {disk,async_disk}.{MemDisk,FileDisk} x how the disk came into being (MemDisk new / written once before; FileDisk on an absent path, an empty file, an existing image of the exact size, a shorter one, a longer one, an image the library made, wrote and closed, one it made with half the blocks; existing blocks hold a per-address pattern) x group width {8,64,512} x goroutines {2,8,16} (walked systematically over the case index), disk of 16-4096 blocks, groups aligned to the width or at an odd offset; 1-15 rounds per disk; in a round the goroutines, released together (spinning / parking barrier, per round or per step), write the blocks of one group of neighbouring addresses exactly once in the life of the disk, block i by goroutine i mod G, stamped (address, goroutine, round); reads of the group before the writes (optional), barrier, writes, barrier, concurrent read-back by the neighbour goroutine, barrier, read-back by the main goroutine at the quiescent point; after the last round a sweep over every block of the disk (above 1024 blocks: the groups written, 64 blocks on either side, both ends). Every read that begins after the write of its address returned must return exactly that payload, every other read the initial content; the child compares every block and records complete per-address histories for deviating addresses and for the first round of every 17th case, which the parent judges (direct rule + porcupine against a register initialised with the initial content). " +
		"Both implementations: a read that overlaps no write to its address must return exactly the payload of a write that returned before it began and is not followed in real time by another such write (the zero block if there is none); no block may contain a stamp of another address. FileDisk reads that overlap a write: tearing only counted")
	r.Assume("timestamps come from the process-wide monotonic clock (time.Since) taken by the calling goroutine before the call and after the return; equal timestamps are treated as overlapping")
	r.Assume("FileDisk runs on the scratch filesystem of this sandbox (ext4 page cache, where one pwrite of a block is atomic with respect to another); other filesystems are not observed")
	r.Assume("schedules are those the Go runtime produced under GOMAXPROCS ∈ {1,2,3,4,8,16} with Gosched salting; they are sampled, not enumerated")
	self, err := os.Executable()
	if err != nil {
		r.Inconclusive("no-self-executable")
		return false, err.Error()
	}
	// development knob: VERIF_C10_LAYERS=shape (or plain,race,…) runs only the named layers; such a
	// run is never a verdict (inconclusive)
	layer := func(name string) bool {
		v := os.Getenv("VERIF_C10_LAYERS")
		return v == "" || strings.Contains(","+v+",", ","+name+",")
	}
	if os.Getenv("VERIF_C10_LAYERS") != "" {
		r.Inconclusive("dev-knob-VERIF_C10_LAYERS")
	}
	// the -race build of this binary proceeds while the plain children run
	var raceBin string
	var rerr error
	built := make(chan struct{})
	go func() {
		if layer("race") {
			raceBin, rerr = r.BuildSelf("-race")
		} else {
			rerr = fmt.Errorf("race layer switched off")
		}
		close(built)
	}()
	nPlain := r.Pick(200, 10000)
	nRace := r.Pick(200, 4000)
	perChild := r.Pick(10, 50)
	nShape := r.Pick(c10ShapeQuick, 12000)
	nFresh := r.Pick(c10FreshQuick, 120000)
	if !layer("plain") {
		nPlain = 0
	}
	if !layer("shape") {
		nShape = 0
	}
	if !layer("fresh") {
		nFresh = 0
	}
	nGroup := r.Pick(c10GroupQuick, 30000) // neighbouring-first-writes layer (c10group.go)
	if !layer("group") {
		nGroup = 0
	}
	perShapeChild := r.Pick(50, 200)
	perFreshChild := r.Pick(500, 2000)
	raceDir := filepath.Join(r.Scratch, "race")
	os.MkdirAll(raceDir, 0o755)
	type job struct {
		kind         string // plain | race | shape
		first, count int
		gmp          int
		id           int
	}
	var plainJobs, raceJobs []job
	gmps := []int{1, 2, 4, 16}
	// history indices: plain histories use 0..nPlain-1, race histories nPlain..; a
	// child runs `count` consecutive histories (mem/file alternate by index parity, the
	// package by the next bit). Shaped histories are numbered separately.
	id := 0
	for first := 0; first < nPlain; first += perChild {
		plainJobs = append(plainJobs, job{"plain", first, min(perChild, nPlain-first), gmps[id%4], id})
		id++
	}
	for first := nPlain; first < nPlain+nRace; first += perChild {
		raceJobs = append(raceJobs, job{"race", first, min(perChild, nPlain+nRace-first), gmps[id%4], id})
		id++
	}
	shapeGmps := []int{2, 4, 8, 16, 3, 4, 2, 16, 8, 4, 2, 1}
	if v, err := strconv.Atoi(os.Getenv("VERIF_C10_SHAPE_GMP")); err == nil && v > 0 {
		shapeGmps = []int{v} // development knob
		r.Inconclusive("dev-knob-VERIF_C10_SHAPE_GMP")
	}
	var shapeJobs []job
	for first, k := 0, 0; first < nShape; first, k = first+perShapeChild, k+1 {
		shapeJobs = append(shapeJobs, job{"shape", first, min(perShapeChild, nShape-first), shapeGmps[k%len(shapeGmps)], id})
		id++
	}
	for first, k := 0, 0; first < nFresh; first, k = first+perFreshChild, k+1 {
		shapeJobs = append(shapeJobs, job{"shape", shFreshBase + first, min(perFreshChild, nFresh-first), shapeGmps[k%len(shapeGmps)], id})
		id++
	}
	groupGmps := []int{16, 8, 16, 4, 16, 2, 8, 16}
	for first, k := 0, 0; first < nGroup; first, k = first+c10GroupPerChild, k+1 {
		shapeJobs = append(shapeJobs, job{"group", first, min(c10GroupPerChild, nGroup-first), groupGmps[k%len(groupGmps)], id})
		id++
	}
	// interleave shaped and plain children
	var jobs []job
	for i := 0; i < len(plainJobs) || i < len(shapeJobs); i++ {
		if i < len(shapeJobs) {
			jobs = append(jobs, shapeJobs[i])
		}
		if i < len(plainJobs) {
			jobs = append(jobs, plainJobs[i])
		}
	}
	ck := &c10checker{r: r}
	runJob := func(j job) {
		bin := self
		env := append(os.Environ(), fmt.Sprintf("GOMAXPROCS=%d", j.gmp))
		if j.kind == "race" {
			bin = raceBin
			env = append(env, fmt.Sprintf("GORACE=halt_on_error=0 log_path=%s", filepath.Join(raceDir, fmt.Sprintf("job%d", j.id))))
		}
		dir := filepath.Join(r.Scratch, fmt.Sprintf("c10j%d", j.id))
		out := filepath.Join(r.Scratch, fmt.Sprintf("c10j%d.jsonl", j.id))
		var res core.ExecResult
		if j.kind == "group" {
			res = core.Exec(r.Scratch, env, 5*time.Minute, "", bin, "child", "c10-group",
				strconv.FormatInt(r.Seed, 10), strconv.Itoa(j.first), strconv.Itoa(j.count), strconv.Itoa(c10GroupSampleEvery), dir, out)
		} else if j.kind == "shape" {
			res = core.Exec(r.Scratch, env, 5*time.Minute, "", bin, "child", "c10-shape",
				strconv.FormatInt(r.Seed, 10), strconv.Itoa(j.first), strconv.Itoa(j.count), "1", dir, out)
		} else {
			res = core.Exec(r.Scratch, env, 5*time.Minute, "", bin, "child", "c10-client",
				strconv.FormatInt(r.Seed, 10), strconv.Itoa(j.first), strconv.Itoa(j.count), "1", strconv.Itoa(b2i(j.kind == "race")), dir, out)
		}
		r.Count("client_processes", 1)
		if res.TimedOut {
			r.Inconclusive("client-watchdog")
		} else if res.Code != 0 && !(j.kind == "race" && res.Code == 66) {
			// a fatal runtime error inside the library (unlock of unlocked lock, deadlock…) is a
			// finding; anything else is a harness failure
			if strings.Contains(res.Stderr, "fatal error:") && strings.Contains(res.Stderr, goosePrefix) {
				msg := res.Stderr[strings.Index(res.Stderr, "fatal error:"):]
				if k := strings.Index(msg, "\n"); k > 0 {
					msg = msg[:k]
				}
				r.Violate("disk-fatal-runtime-error", "a client process died with a Go runtime "+msg+" with library frames on the stack",
					map[string]interface{}{"seed": r.Seed, "layer": j.kind, "first_history": j.first, "count": j.count, "gomaxprocs": j.gmp, "race_build": j.kind == "race", "stderr_tail": lastLines(res.Stderr, 60)})
			} else {
				r.Inconclusive("client-crashed")
				fmt.Fprintf(os.Stderr, "c10 %s job %d: exit %d: %s\n", j.kind, j.id, res.Code, lastLines(res.Stderr, 10))
			}
		}
		f, err := os.Open(out)
		if err != nil {
			return
		}
		defer f.Close()
		sc := bufio.NewScanner(f)
		sc.Buffer(make([]byte, 1<<20), 256<<20)
		for sc.Scan() {
			if j.kind == "group" {
				var rec grRecord
				if json.Unmarshal(sc.Bytes(), &rec) != nil {
					r.Inconclusive("unparsable-history")
					continue
				}
				ck.checkGroup(&rec)
				continue
			}
			if j.kind == "shape" {
				var rec shRecord
				if json.Unmarshal(sc.Bytes(), &rec) != nil {
					r.Inconclusive("unparsable-history")
					continue
				}
				if rec.Fresh {
					r.Count("shaped_fresh_start_histories_"+rec.Impl, 1)
				} else {
					r.Count("shaped_histories", 1)
				}
				ck.checkShaped(&rec)
				continue
			}
			var rec c10record
			if json.Unmarshal(sc.Bytes(), &rec) != nil {
				r.Inconclusive("unparsable-history")
				continue
			}
			r.Count("histories", 1)
			ck.checkRecord(&rec)
		}
		os.Remove(out)
		os.RemoveAll(dir)
	}
	core.Parallel(len(jobs), 6, func(i int) { runJob(jobs[i]) })
	<-built
	if rerr != nil {
		r.Inconclusive("race-build-failed")
		fmt.Fprintln(os.Stderr, rerr)
	} else {
		core.Parallel(len(raceJobs), 6, func(i int) { runJob(raceJobs[i]) })
		ck.collectRaces(raceDir)
	}
	r.Set("race_build_available", rerr == nil)
	pairs := r.GetCount("overlapping_same_address_pairs")
	if rerr != nil {
		return false, "the -race child could not be built, so the data-race clause was not observed"
	}
	if r.GetCount("histories_race_build") == 0 {
		return false, "no history from a -race client was recorded"
	}
	if r.GetCount("overlapping_same_address_pairs_mem") < 500 || r.GetCount("overlapping_same_address_pairs_file") < 500 || pairs < 1000 {
		return false, fmt.Sprintf("only %d overlapping same-address operation pairs were observed (floor 1000, at least 500 per implementation)", pairs)
	}
	if r.GetCount("filedisk_reads_not_overlapping_any_write_checked") < 100 {
		return false, "fewer than 100 FileDisk reads were in a position to be judged for staleness"
	}
	for _, impl := range []string{"mem", "file"} {
		// MemDisk writes last a few hundred nanoseconds, FileDisk writes a few microseconds
		floor := map[string]int64{"mem": 50, "file": 150}[impl]
		if n := r.GetCount("shaped_overlapping_write_pairs_differently_shaped_" + impl); n < floor {
			return false, fmt.Sprintf("shaped layer, %s: only %d overlapping same-address write pairs with differently shaped payloads were observed (floor %d)", impl, n, floor)
		}
		if n := r.GetCount("shaped_settled_reads_judged_" + impl); n < c10ShapeFloorReads {
			return false, fmt.Sprintf("shaped layer, %s: only %d reads overlapping no write were judged (floor %d)", impl, n, c10ShapeFloorReads)
		}
	}
	if layer("group") {
		if n := r.GetCount("group_rounds"); n < c10GroupFloorRounds {
			return false, fmt.Sprintf("group layer: only %d rounds of concurrent first writes to neighbouring blocks were observed (floor %d)", n, c10GroupFloorRounds)
		}
		if n := r.GetCount("group_round_reads_returned_expected_block") + r.GetCount("group_sweep_reads_returned_expected_block"); n < c10GroupFloorReadBack {
			return false, fmt.Sprintf("group layer: only %d blocks were read back (floor %d)", n, c10GroupFloorReadBack)
		}
	}
	return true, ""
}

// quick-tier volume and floors of the shaped layer (floors an order of magnitude
// below what the unchanged tree yields)
const (
	c10ShapeQuick      = 1200
	c10FreshQuick      = 16000
	c10ShapeFloorReads = 10000
)
