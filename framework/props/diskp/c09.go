// Package diskp holds the checks of machine/disk and machine/async_disk:
// C09 (sequential lock-step against an array-of-registers model) and C10
// (concurrent histories: linearizability, tearing, races).
package diskp

import (
	"bytes"
	"crypto/sha256"
	"encoding/hex"
	"encoding/json"
	"fmt"
	"os"
	"path/filepath"
	"sort"
	"strconv"
	"strings"
	"time"

	"verif/core"
	"verif/props"

	"github.com/goose-lang/goose/machine/async_disk"
	"github.com/goose-lang/goose/machine/disk"
)

func init() {
	props.Registry["C09"] = props.Prop{Level: "exploration", Run: runC09}
	props.Children["c09-worker"] = c09Worker
}

const bs = 4096

// ---------------------------------------------------------------- configurations

type c09cfg struct {
	Name   string
	Async  bool // constructed through machine/async_disk
	File   bool
	Global bool // driven through disk.Init + disk.Read/Write/Size/Barrier (ReadTo through disk.Get())
}

var c09cfgs = []c09cfg{
	{"disk-mem-method", false, false, false},
	{"disk-mem-global", false, false, true},
	{"disk-file-method", false, true, false},
	{"disk-file-global", false, true, true},
	{"async-mem-method", true, false, false},
	{"async-mem-global", true, false, true},
	{"async-file-method", true, true, false},
	{"async-file-global", true, true, true},
}

// api is the way one configuration reaches the five operations.
type api struct {
	read    func(a uint64) []byte
	readTo  func(a uint64, b []byte)
	write   func(a uint64, b []byte)
	size    func() uint64
	barrier func()
	close   func()
	// reinit points the process-wide wrappers at this disk again (global configurations only)
	reinit func()
}

func openCfg(c c09cfg, path string, n uint64) (api, error) {
	var d disk.Disk
	switch {
	case !c.Async && !c.File:
		d = disk.NewMemDisk(n)
	case c.Async && !c.File:
		var ad async_disk.Disk = async_disk.NewMemDisk(n)
		d = ad
	case !c.Async && c.File:
		os.Remove(path)
		fd, err := disk.NewFileDisk(path, n)
		if err != nil {
			return api{}, err
		}
		d = fd
	default:
		os.Remove(path)
		fd, err := async_disk.NewFileDisk(path, n)
		if err != nil {
			return api{}, err
		}
		var ad async_disk.Disk = fd
		d = ad
	}
	if c.Global {
		// async_disk has no wrappers of its own; its Disk type is disk.Disk,
		// so the global wrappers of package disk are the ones it can be used with.
		disk.Init(d)
		return api{
			read:    func(a uint64) []byte { return disk.Read(a) },
			readTo:  func(a uint64, b []byte) { disk.Get().ReadTo(a, b) },
			write:   func(a uint64, b []byte) { disk.Write(a, b) },
			size:    func() uint64 { return disk.Size() },
			barrier: func() { disk.Barrier() },
			close:   func() { d.Close() },
			reinit:  func() { disk.Init(d) },
		}, nil
	}
	return api{read: d.Read, readTo: d.ReadTo, write: d.Write, size: d.Size, barrier: d.Barrier, close: d.Close}, nil
}

// ---------------------------------------------------------------- histories

const (
	opRead = iota
	opReadTo
	opWrite
	opSize
	opBarrier
)

var opNames = []string{"Read", "ReadTo", "Write", "Size", "Barrier"}
var patNames = []string{"zero", "ff", "counter", "random"}

type c09op struct {
	Kind   int    `json:"kind"`
	Name   string `json:"op"`
	Addr   uint64 `json:"addr"`
	AClass string `json:"addr_class,omitempty"`
	Len    int    `json:"buf_len,omitempty"`
	Pat    int    `json:"pattern,omitempty"`
	PSeed  uint64 `json:"pattern_seed,omitempty"`
	Reuse  int    `json:"buffer,omitempty"` // 0 fresh, 1..3 pool buffer, 4 the buffer last returned by Read
	// Place says where a fresh buffer lies: 0 an allocation of its own; 1..3 a sub-slice starting 1, 3 or 511
	// bytes into a larger array (unaligned), 1 and 3 with spare capacity behind it, 2 with none
	Place int `json:"placement,omitempty"`
}

type c09hist struct {
	Index    int     `json:"index"`
	Directed string  `json:"directed,omitempty"`
	Size     uint64  `json:"disk_size"`
	Ops      []c09op `json:"ops"`
}

var c09sizes = []uint64{0, 1, 2, 3, 7, 64}

// sizes only the random histories use (a fifth of them)
var c09moreSizes = []uint64{4, 5, 8, 9, 15, 16, 17, 33, 100, 255, 256, 257, 1000, 4097}

// allocBuf returns a fresh n-byte buffer placed as o.Place says.
func allocBuf(n, place int) []byte {
	switch place {
	case 1:
		big := make([]byte, n+1+100)
		return big[1 : 1+n]
	case 2:
		big := make([]byte, n+3)
		return big[3 : 3+n : 3+n]
	case 3:
		big := make([]byte, n+511+bs)
		return big[511 : 511+n]
	}
	return make([]byte, n)
}

var placeNames = []string{"own", "off1+cap", "off3", "off511+cap"}

// readbackAddrs: every block of a small disk; for a large one the touched addresses, their neighbours, both
// ends and sixteen more.
func readbackAddrs(size uint64, ops []c09op, salt uint64) []uint64 {
	var out []uint64
	if size <= 80 {
		for a := uint64(0); a < size; a++ {
			out = append(out, a)
		}
		return out
	}
	seen := map[uint64]bool{}
	add := func(a uint64) {
		if a < size && !seen[a] {
			seen[a] = true
			out = append(out, a)
		}
	}
	for _, o := range ops {
		if o.Kind <= opWrite && o.Addr < size {
			add(o.Addr - 1)
			add(o.Addr)
			add(o.Addr + 1)
		}
	}
	add(0)
	add(1)
	add(size - 1)
	add(size - 2)
	for k := uint64(1); k <= 16; k++ {
		add((salt*0x9E3779B97F4A7C15 + k*0xBF58476D1CE4E5B9) % size)
	}
	sort.Slice(out, func(i, j int) bool { return out[i] < out[j] })
	return out
}

var c09wlens = []int{0, 1, 4095, 4096, 4097, 8192}

func fillPattern(b []byte, pat int, seed uint64) {
	switch pat {
	case 0:
		for i := range b {
			b[i] = 0
		}
	case 1:
		for i := range b {
			b[i] = 0xFF
		}
	case 2: // counter: every byte position differs from its neighbours and blocks differ by seed
		for i := range b {
			b[i] = byte(uint64(i)*7 + uint64(i>>8)*13 + seed)
		}
	default:
		s := seed
		for i := 0; i < len(b); i += 8 {
			s += 0x9E3779B97F4A7C15
			z := s
			z = (z ^ (z >> 30)) * 0xBF58476D1CE4E5B9
			z = (z ^ (z >> 27)) * 0x94D049BB133111EB
			z ^= z >> 31
			for j := 0; j < 8 && i+j < len(b); j++ {
				b[i+j] = byte(z >> (8 * uint(j)))
			}
		}
	}
}

func addrClasses(size uint64) []struct {
	c string
	a uint64
} {
	return []struct {
		c string
		a uint64
	}{{"0", 0}, {"1", 1}, {"size-1", size - 1}, {"size", size}, {"size+1", size + 1},
		{"2^32", 1 << 32}, {"2^63", 1 << 63}, {"2^64-1", ^uint64(0)}}
}

func classOf(a, size uint64) string {
	if a < size {
		return "in"
	}
	return "out"
}

func mkop(kind int, a uint64, cls string) c09op {
	return c09op{Kind: kind, Name: opNames[kind], Addr: a, AClass: cls, Len: bs}
}

func mkwrite(a uint64, cls string, l, pat int, seed uint64, reuse int) c09op {
	o := mkop(opWrite, a, cls)
	o.Len, o.Pat, o.PSeed, o.Reuse = l, pat, seed, reuse
	return o
}

// directedHistories is the seed-independent layer.
func directedHistories() []c09hist {
	var hs []c09hist
	add := func(name string, size uint64, ops []c09op) {
		hs = append(hs, c09hist{Directed: name, Size: size, Ops: ops})
	}
	for _, n := range c09sizes {
		// fresh disk reads as zero everywhere, through ReadTo (dirty buffer) and Read
		var ops []c09op
		ops = append(ops, mkop(opSize, 0, ""))
		for a := n; a > 0; a-- {
			ops = append(ops, mkop(opReadTo, a-1, "scan"))
		}
		for a := uint64(0); a < n; a++ {
			ops = append(ops, mkop(opRead, a, "scan"))
		}
		ops = append(ops, mkop(opSize, 0, ""))
		add("fresh-zero", n, ops)

		// fill every block with a distinct pattern, read all back both ways, overwrite in reverse
		ops = nil
		for a := uint64(0); a < n; a++ {
			ops = append(ops, mkwrite(a, "scan", bs, 2, a*31+5, int(a%5)))
		}
		for a := uint64(0); a < n; a++ {
			ops = append(ops, mkop(opReadTo, a, "scan"))
		}
		for a := n; a > 0; a-- {
			ops = append(ops, mkwrite(a-1, "scan", bs, 3, a*977+1, int(a%5)))
			if a >= 2 {
				ops = append(ops, mkop(opRead, a-2, "neighbour"))
			}
			if a < n {
				ops = append(ops, mkop(opReadTo, a, "neighbour"))
			}
		}
		ops = append(ops, mkop(opBarrier, 0, ""), mkop(opSize, 0, ""))
		add("fill-readback", n, ops)

		// every special address under every addressed operation
		ops = nil
		for _, ac := range addrClasses(n) {
			ops = append(ops, mkop(opRead, ac.a, ac.c), mkop(opReadTo, ac.a, ac.c),
				mkwrite(ac.a, ac.c, bs, 3, ac.a+11, 0), mkop(opRead, ac.a, ac.c), mkop(opSize, 0, ""))
		}
		add("special-addresses", n, ops)

		// every write-buffer length on in-range and out-of-range addresses
		ops = nil
		for _, ac := range addrClasses(n) {
			if ac.a < n {
				ops = append(ops, mkwrite(ac.a, ac.c, bs, 2, 77, 0))
			}
			for _, l := range c09wlens {
				for pat := 1; pat < 4; pat += 2 {
					ops = append(ops, mkwrite(ac.a, ac.c, l, pat, uint64(l)+3, 0))
				}
				ops = append(ops, mkop(opRead, ac.a, ac.c))
			}
		}
		add("write-lengths", n, ops)

		// zero / 0xFF / barrier interleavings, same buffer re-used for successive writes
		ops = nil
		if n > 0 {
			for k := 0; k < 12; k++ {
				a := uint64(k) % n
				ops = append(ops, mkwrite(a, "in", bs, k%4, uint64(k), 1), mkop(opBarrier, 0, ""),
					mkop(opReadTo, a, "in"), mkwrite((a+1)%n, "in", bs, (k+1)%4, uint64(k)+100, 1), mkop(opRead, a, "in"))
			}
		} else {
			ops = append(ops, mkop(opBarrier, 0, ""), mkop(opSize, 0, ""))
		}
		add("reuse-barrier", n, ops)
	}
	return hs
}

func randomHistory(seed int64, idx int) c09hist {
	rng := core.NewRng(seed, "c09/h"+strconv.Itoa(idx))
	size := c09sizes[rng.Intn(len(c09sizes))]
	if rng.Chance(20) {
		size = c09moreSizes[rng.Intn(len(c09moreSizes))]
	}
	place := func() int {
		if rng.Chance(65) {
			return 0
		}
		return 1 + rng.Intn(3)
	}
	nops := 1 + rng.Intn(200)
	if rng.Chance(40) {
		nops = 1 + rng.Intn(20)
	}
	h := c09hist{Size: size}
	acs := addrClasses(size)
	pickAddr := func() (uint64, string) {
		p := rng.Intn(100)
		switch {
		case p < 74 && size > 0:
			return rng.U64() % size, "random-in"
		case p < 92:
			ac := acs[rng.Intn(len(acs))]
			return ac.a, ac.c
		case p < 96:
			return rng.U64(), "random-u64"
		default:
			return rng.U64() % (2*size + 2), "random-near"
		}
	}
	for i := 0; i < nops; i++ {
		p := rng.Intn(100)
		switch {
		case p < 38:
			a, c := pickAddr()
			l := bs
			if rng.Chance(15) {
				l = c09wlens[rng.Intn(len(c09wlens))]
			}
			o := mkwrite(a, c, l, rng.Intn(4), rng.U64(), rng.Intn(5))
			o.Place = place()
			h.Ops = append(h.Ops, o)
		case p < 62:
			a, c := pickAddr()
			h.Ops = append(h.Ops, mkop(opRead, a, c))
		case p < 90:
			a, c := pickAddr()
			o := mkop(opReadTo, a, c)
			o.Reuse = rng.Intn(5)
			o.PSeed = rng.U64()
			o.Place = place()
			h.Ops = append(h.Ops, o)
		case p < 97:
			h.Ops = append(h.Ops, mkop(opSize, 0, ""))
		default:
			h.Ops = append(h.Ops, mkop(opBarrier, 0, ""))
		}
	}
	return h
}

// ---------------------------------------------------------------- model

type c09exp struct {
	Panic bool
	Data  *[bs]byte // Read/ReadTo: block returned; Write: nil
	Size  uint64
}

type c09model struct{ blocks [][bs]byte }

func (m *c09model) apply(o c09op) c09exp {
	n := uint64(len(m.blocks))
	switch o.Kind {
	case opRead, opReadTo:
		if o.Addr >= n {
			return c09exp{Panic: true}
		}
		d := m.blocks[o.Addr]
		return c09exp{Data: &d}
	case opWrite:
		if o.Len != bs || o.Addr >= n {
			return c09exp{Panic: true}
		}
		fillPattern(m.blocks[o.Addr][:], o.Pat, o.PSeed)
		return c09exp{}
	case opSize:
		return c09exp{Size: n}
	}
	return c09exp{}
}

// ---------------------------------------------------------------- worker result

type c09viol struct {
	Sig    string      `json:"sig"`
	What   string      `json:"what"`
	Detail interface{} `json:"detail"`
}

type c09result struct {
	Worker     int              `json:"worker"`
	Evals      int64            `json:"evals"`
	Counts     map[string]int64 `json:"counts"`
	Classes    map[string]int64 `json:"classes"`
	HistHashes []string         `json:"hist_hashes"`
	Samples    []interface{}    `json:"samples"`
	Violations []c09viol        `json:"violations"`
	Err        string           `json:"err,omitempty"`
}

func callPanics(f func()) (panicked bool, msg string) {
	defer func() {
		if e := recover(); e != nil {
			panicked = true
			msg = fmt.Sprint(e)
		}
	}()
	f()
	return false, ""
}

// scribble changes every byte (the mask is never zero) in a position-dependent
// way, so that a scribbled block cannot coincide with a zero/0xFF/counter block.
func scribble(b []byte) {
	for i := range b {
		b[i] ^= byte(i*29) | 0x80
	}
}

func firstDiff(a, b []byte) int {
	n := len(a)
	if len(b) < n {
		n = len(b)
	}
	for i := 0; i < n; i++ {
		if a[i] != b[i] {
			return i
		}
	}
	if len(a) != len(b) {
		return n
	}
	return -1
}

func hexAround(b []byte, off int) string {
	lo := off - 4
	if lo < 0 {
		lo = 0
	}
	hi := lo + 16
	if hi > len(b) {
		hi = len(b)
	}
	if lo > hi {
		lo = hi
	}
	return fmt.Sprintf("[%d:%d]=%s", lo, hi, hex.EncodeToString(b[lo:hi]))
}

func reuseName(r int) string {
	switch {
	case r == 0:
		return "fresh"
	case r == 4:
		return "buffer-returned-by-Read"
	}
	return "reused"
}

func placeSuffix(o c09op) string {
	if o.Place == 0 || o.Place >= len(placeNames) {
		return ""
	}
	return "/" + placeNames[o.Place]
}

func bufClass(o c09op) string {
	switch o.Kind {
	case opWrite:
		return fmt.Sprintf("len%d/%s/%s", o.Len, patNames[o.Pat], reuseName(o.Reuse)) + placeSuffix(o)
	case opReadTo:
		return "dirty/" + reuseName(o.Reuse) + placeSuffix(o)
	}
	return "-"
}

// runHistory drives every configuration through h and compares each result
// with the model's. It returns the per-step outcome strings of the first
// configuration (for samples).
func (w *c09result) runHistory(seed int64, h c09hist, dir string, cfgs []c09cfg) []string {
	// model outcomes first (a pure function of the history)
	m := &c09model{blocks: make([][bs]byte, h.Size)}
	exps := make([]c09exp, len(h.Ops))
	for i, o := range h.Ops {
		exps[i] = m.apply(o)
	}
	// state of the model before each step is needed for "refused write must not
	// change the disk": recompute incrementally while driving.
	var outcomes []string
	for ci, c := range cfgs {
		path := filepath.Join(dir, c.Name+".img")
		d, err := openCfg(c, path, h.Size)
		if err != nil {
			w.Err = fmt.Sprintf("open %s: %v", c.Name, err)
			return outcomes
		}
		cur := &c09model{blocks: make([][bs]byte, h.Size)}
		var pool [4][]byte
		for i := 1; i < 4; i++ {
			pool[i] = make([]byte, bs)
		}
		var lastRead []byte
		diverged := false
		// retention monitor: buffers the harness owns (passed to Write/ReadTo or
		// returned by Read) with the contents the harness last left in them; a
		// later library call must not modify any of them.
		type heldBuf struct {
			b, snap []byte
			origin  string
		}
		held := map[*byte]*heldBuf{}
		var heldOrder []*byte
		hold := func(b []byte, origin string) []byte {
			if len(b) == 0 {
				return nil
			}
			k := &b[0]
			if _, ok := held[k]; !ok {
				heldOrder = append(heldOrder, k)
				if len(heldOrder) > 10 {
					delete(held, heldOrder[0])
					heldOrder = heldOrder[1:]
				}
			}
			hb := &heldBuf{b: b, snap: append([]byte(nil), b...), origin: origin}
			held[k] = hb
			return hb.snap
		}
		report := func(step int, opName, kind, what string, want, got []byte) {
			diverged = true
			det := map[string]interface{}{
				"seed": seed, "history_index": h.Index, "directed": h.Directed, "config": c.Name,
				"disk_size": h.Size, "failing_step": step, "ops_up_to_failure": h.Ops[:min(step+1, len(h.Ops))],
				"replay": "open a fresh disk of disk_size blocks in the named configuration, apply ops in order " +
					"(Write buffers = fillPattern(pattern, pattern_seed) of buf_len bytes; a fresh buffer with placement 1/2/3 is the sub-slice [1:1+n] / [3:3+n:3+n] / [511:511+n] of a larger array; every buffer passed or returned is scribbled (b[i] ^= byte(i*29)|0x80) after the call; every successful Read/ReadTo/Write is followed by a probe Read of the same address)",
			}
			if want != nil || got != nil {
				off := firstDiff(want, got)
				det["first_differing_offset"] = off
				if off >= 0 {
					det["want"] = hexAround(want, off)
					det["got"] = hexAround(got, off)
				}
			}
			w.Violations = append(w.Violations, c09viol{
				Sig:    fmt.Sprintf("lockstep-%s-%s-%s", c.Name, opName, kind),
				What:   fmt.Sprintf("%s, disk of %d blocks, step %d: %s", c.Name, h.Size, step, what),
				Detail: det,
			})
		}
		// returnedByRead: memory handed out by Read must not be memory the caller
		// already owns (an earlier Read result, or a buffer it passed in).
		curStep := 0
		returnedByRead := func(b []byte) {
			if len(b) == 0 || diverged {
				return
			}
			w.Counts["returned_buffer_freshness_checks"]++
			if hb, ok := held[&b[0]]; ok {
				how := "returned by an earlier Read"
				if hb.origin != "Read" {
					how = "passed to " + hb.origin + " earlier"
				}
				report(curStep, "Read", "aliasing-read-buffer", "Read returned memory that the caller already owns (the buffer "+how+"), so the earlier buffer changed under the caller", nil, nil)
			}
		}
		// probe reads block a through the configuration and compares it with the
		// model; it then mutates the returned buffer and reads once more, so that a
		// Read handing out the stored block itself is recognised as such.
		probe := func(a uint64) (ok bool, got []byte, panicked bool) {
			var b []byte
			p, _ := callPanics(func() { b = d.read(a) })
			w.Evals++
			w.Counts["calls/"+c.Name]++
			if p {
				return false, nil, true
			}
			got = append([]byte(nil), b...)
			returnedByRead(b)
			scribble(b)
			snap := hold(b, "Read")
			if !bytes.Equal(got, cur.blocks[a][:]) || diverged {
				return false, got, false
			}
			var b2 []byte
			p, _ = callPanics(func() { b2 = d.read(a) })
			w.Evals++
			w.Counts["calls/"+c.Name]++
			if p {
				return false, nil, true
			}
			if !bytes.Equal(b2, cur.blocks[a][:]) && !diverged {
				kind := "wrong-data"
				if bytes.Equal(b2, snap) {
					kind = "aliasing-read-buffer"
				}
				report(curStep, "Read", kind, fmt.Sprintf("Read(%d) returned the stored block, the caller mutated the returned buffer, and the next Read(%d) returned something else", a, a), cur.blocks[a][:], b2)
				return true, got, false // already reported
			}
			returnedByRead(b2)
			hold(b2, "Read")
			return true, got, false
		}
		verifyHeld := func(step int) {
			for _, k := range heldOrder {
				hb := held[k]
				w.Counts["retained_buffer_checks"]++
				if hb != nil && !bytes.Equal(hb.b, hb.snap) {
					kind, how := "aliasing-read-buffer", "a buffer previously returned by Read"
					switch hb.origin {
					case "Write":
						kind, how = "aliasing-write-buffer", "a buffer previously passed to Write"
					case "ReadTo":
						how = "a buffer previously passed to ReadTo"
					}
					report(step, hb.origin, kind, how+" (and since owned and modified only by the caller) was changed by a later library call", hb.snap, hb.b)
					return
				}
			}
		}
		stepFn := func(i int, o c09op) {
			exp := exps[i]
			var gotData []byte
			var gotSize uint64
			var wbuf, scribbled []byte
			var p bool
			switch o.Kind {
			case opRead:
				var b []byte
				p, _ = callPanics(func() { b = d.read(o.Addr) })
				if !p {
					gotData = append([]byte(nil), b...)
					returnedByRead(b)
					scribble(b)
					scribbled = hold(b, "Read")
					lastRead = b
				}
			case opReadTo:
				var b []byte
				switch {
				case o.Reuse >= 1 && o.Reuse <= 3:
					b = pool[o.Reuse]
				case o.Reuse == 4 && len(lastRead) == bs:
					b = lastRead
				default:
					b = allocBuf(bs, o.Place)
				}
				// dirty buffer: every byte differs from the byte the read must deliver
				fillPattern(b, 3, o.PSeed^0xD1)
				if exp.Data != nil {
					for k := range b {
						b[k] = exp.Data[k] ^ (b[k] | 1)
					}
				}
				p, _ = callPanics(func() { d.readTo(o.Addr, b) })
				if !p {
					gotData = append([]byte(nil), b...)
				}
				scribble(b)
				scribbled = hold(b, "ReadTo")
			case opWrite:
				switch {
				case o.Len == bs && o.Reuse >= 1 && o.Reuse <= 3:
					wbuf = pool[o.Reuse]
				case o.Len == bs && o.Reuse == 4 && len(lastRead) == bs:
					wbuf = lastRead
				default:
					wbuf = allocBuf(o.Len, o.Place)
				}
				fillPattern(wbuf, o.Pat, o.PSeed)
				p, _ = callPanics(func() { d.write(o.Addr, wbuf) })
				scribble(wbuf)
				scribbled = hold(wbuf, "Write")
			case opSize:
				p, _ = callPanics(func() { gotSize = d.size() })
			case opBarrier:
				p, _ = callPanics(func() { d.barrier() })
			}
			w.Evals++
			w.Counts["calls/"+c.Name]++
			cur.apply(o)
			outcome := "ok"
			if p {
				outcome = "panic"
			}
			if ci == 0 {
				s := fmt.Sprintf("%s(%d", o.Name, o.Addr)
				if o.Kind == opWrite {
					s += fmt.Sprintf(", %d bytes %s", o.Len, patNames[o.Pat])
				}
				s += ") -> " + outcome
				if gotData != nil {
					s += " " + hex.EncodeToString(gotData[:6]) + "…"
				}
				if o.Kind == opSize {
					s += fmt.Sprintf(" %d", gotSize)
				}
				outcomes = append(outcomes, s)
				if o.Kind <= opWrite {
					w.Classes[fmt.Sprintf("%s/%s/%s/%s/%s", o.Name, o.AClass, classOf(o.Addr, h.Size), bufClass(o), outcome)]++
				} else {
					w.Classes[fmt.Sprintf("%s/%s", o.Name, outcome)]++
				}
			}
			if exp.Panic {
				w.Counts["panics_expected_and_compared"]++
			}
			switch {
			case exp.Panic && !p:
				what := fmt.Sprintf("%s(addr=%d, len=%d) returned normally; the model refuses it", o.Name, o.Addr, o.Len)
				report(i, o.Name, "missing-panic", what, nil, nil)
				return
			case !exp.Panic && p:
				report(i, o.Name, "unexpected-panic", fmt.Sprintf("%s(addr=%d, len=%d) panicked; the model accepts it", o.Name, o.Addr, o.Len), nil, nil)
				return
			}
			if exp.Panic {
				// refused: must not have changed the disk
				if o.Kind == opWrite && o.Addr < h.Size {
					ok, got, pp := probe(o.Addr)
					w.Counts["refused_write_probes"]++
					if pp {
						report(i, "Read", "unexpected-panic", fmt.Sprintf("Read(%d) panicked after a refused Write", o.Addr), nil, nil)
					} else if !ok && !diverged {
						report(i, o.Name, "wrong-data", fmt.Sprintf("refused Write(addr=%d, len=%d) changed block %d", o.Addr, o.Len, o.Addr), cur.blocks[o.Addr][:], got)
					}
				}
				return
			}
			switch o.Kind {
			case opRead, opReadTo:
				if !bytes.Equal(gotData, exp.Data[:]) {
					report(i, o.Name, "wrong-data", fmt.Sprintf("%s(%d) returned a block differing from the last value written there (%d bytes returned)", o.Name, o.Addr, len(gotData)), exp.Data[:], gotData)
					return
				}
				w.Counts["blocks_compared"]++
				// aliasing probe: the returned/filled buffer has been scribbled; the block must be unchanged
				ok, got, pp := probe(o.Addr)
				w.Counts["aliasing_probes_read_buffer"]++
				if pp {
					report(i, "Read", "unexpected-panic", fmt.Sprintf("Read(%d) panicked right after a successful %s(%d)", o.Addr, o.Name, o.Addr), nil, nil)
				} else if !ok && !diverged {
					kind := "wrong-data"
					if bytes.Equal(got, scribbled) {
						kind = "aliasing-read-buffer"
					}
					report(i, o.Name, kind, fmt.Sprintf("after mutating the buffer obtained from %s(%d), Read(%d) no longer returns the stored block", o.Name, o.Addr, o.Addr), cur.blocks[o.Addr][:], got)
				}
			case opWrite:
				ok, got, pp := probe(o.Addr)
				w.Counts["aliasing_probes_write_buffer"]++
				if pp {
					report(i, "Read", "unexpected-panic", fmt.Sprintf("Read(%d) panicked right after a successful Write(%d)", o.Addr, o.Addr), nil, nil)
				} else if !ok && !diverged {
					kind := "wrong-data"
					if bytes.Equal(got, scribbled) {
						kind = "aliasing-write-buffer"
					}
					report(i, o.Name, kind, fmt.Sprintf("after Write(%d, v) and mutating v, Read(%d) does not return the value written", o.Addr, o.Addr), cur.blocks[o.Addr][:], got)
				}
			case opSize:
				if gotSize != exp.Size {
					report(i, o.Name, "wrong-size", fmt.Sprintf("Size() = %d on a disk created with %d blocks", gotSize, exp.Size), nil, nil)
				}
			}
		}
		for i, o := range h.Ops {
			if diverged {
				break
			}
			curStep = i
			stepFn(i, o)
			if !diverged {
				verifyHeld(i)
			}
		}
		// interference read-back: every block of the implementation against the model
		curStep = len(h.Ops)
		if !diverged {
			for _, a := range readbackAddrs(h.Size, h.Ops, uint64(h.Index)) {
				if diverged {
					break
				}
				ok, got, pp := probe(a)
				w.Counts["readback_blocks_compared"]++
				if pp {
					report(len(h.Ops), "Read", "unexpected-panic", fmt.Sprintf("final read-back Read(%d) panicked", a), nil, nil)
				} else if !ok && !diverged {
					report(len(h.Ops), "readback", "interference", fmt.Sprintf("after the history, block %d (never mis-read during the history) differs from the model: some operation on another address changed it", a), cur.blocks[a][:], got)
				}
			}
			var sz uint64
			if p, _ := callPanics(func() { sz = d.size() }); p || sz != h.Size {
				report(len(h.Ops), "Size", "wrong-size", fmt.Sprintf("Size() = %d (panic=%v) at the end of a history on a disk of %d blocks", sz, p, h.Size), nil, nil)
			}
			if !diverged {
				verifyHeld(len(h.Ops))
			}
			w.Evals++
		}
		callPanics(func() { d.close() })
		if c.File {
			os.Remove(path)
		}
	}
	return outcomes
}

func histHash(h c09hist) string {
	b, _ := json.Marshal(struct {
		S uint64
		O []c09op
	}{h.Size, h.Ops})
	s := sha256.Sum256(b)
	return hex.EncodeToString(s[:8])
}

// c09Worker: vcheck child c09-worker <seed> <worker> <nworkers> <nrandom> <dir> <out>
func c09Worker(args []string) int {
	if len(args) < 6 {
		fmt.Fprintln(os.Stderr, "c09-worker: seed worker nworkers nrandom dir out")
		return 2
	}
	seed, _ := strconv.ParseInt(args[0], 10, 64)
	wi, _ := strconv.Atoi(args[1])
	nw, _ := strconv.Atoi(args[2])
	nrand, _ := strconv.Atoi(args[3])
	dir, out := args[4], args[5]
	nfleet := 0
	if len(args) > 6 {
		nfleet, _ = strconv.Atoi(args[6])
	}
	os.MkdirAll(dir, 0o755)
	res := &c09result{Worker: wi, Counts: map[string]int64{}, Classes: map[string]int64{}}
	directed := directedHistories()
	total := len(directed) + nrand
	seenSig := map[string]bool{}
	for idx := wi; idx < total; idx += nw {
		var h c09hist
		if idx < len(directed) {
			h = directed[idx]
		} else {
			h = randomHistory(seed, idx-len(directed))
		}
		h.Index = idx
		// progress marker (read by the parent if this process dies inside a library call)
		os.WriteFile(out+".cur", []byte(strconv.Itoa(idx)), 0o644)
		nv := len(res.Violations)
		outcomes := res.runHistory(seed, h, dir, c09cfgs)
		if res.Err != "" {
			break
		}
		// keep the first violation of each signature only
		kept := res.Violations[:nv]
		for _, v := range res.Violations[nv:] {
			if !seenSig[v.Sig] {
				seenSig[v.Sig] = true
				kept = append(kept, v)
			}
		}
		res.Violations = kept
		res.Counts["histories"]++
		if h.Directed != "" {
			res.Counts["histories_directed"]++
		}
		res.Counts["ops_in_histories"] += int64(len(h.Ops))
		res.HistHashes = append(res.HistHashes, histHash(h))
		if len(h.Ops) >= 3 && len(h.Ops) <= 9 && len(res.Samples) < 2 && h.Size > 0 {
			res.Samples = append(res.Samples, map[string]interface{}{
				"history_index": idx, "disk_size": h.Size, "directed": h.Directed,
				"calls_and_results_" + c09cfgs[0].Name:    outcomes,
				"all_eight_configurations_equal_to_model": len(res.Violations) == nv,
			})
		}
	}
	// fleet layer: several disks alive at once, in the same process as (and after) the
	// lock-step histories, so that whatever those left behind is part of the state
	if res.Err == "" && (nfleet > 0 || len(args) > 6) {
		fleets := c09FleetScenarios(seed, nfleet)
		for fi := wi; fi < len(fleets); fi += nw {
			os.WriteFile(out+".cur", []byte("fleet:"+strconv.Itoa(fi)), 0o644)
			nv := len(res.Violations)
			res.runFleet(seed, fleets[fi], dir)
			if res.Err != "" {
				break
			}
			kept := res.Violations[:nv]
			for _, v := range res.Violations[nv:] {
				if !seenSig[v.Sig] {
					seenSig[v.Sig] = true
					kept = append(kept, v)
				}
			}
			res.Violations = kept
		}
	}
	b, _ := json.Marshal(res)
	if err := os.WriteFile(out, b, 0o644); err != nil {
		fmt.Fprintln(os.Stderr, err)
		return 2
	}
	if res.Err != "" {
		fmt.Fprintln(os.Stderr, res.Err)
		return 2
	}
	return 0
}

func runC09(r *core.Run) (bool, string) {
	r.SetRule("evaluations = API calls (history operations, aliasing/refusal probes, end-of-history read-back reads) whose result was compared with the array model; " +
		"distinct_nontrivial = distinct histories by hash of (disk size, operation list); call_classes lists the distinct (operation, address class, in/out of range, buffer class, outcome) tuples that occurred. " +
		"Histories: a seed-independent directed layer (fresh-disk scans, fill/read-back, special addresses, every write length, buffer re-use with barriers, for each disk size in {0,1,2,3,7,64}) plus seeded random histories of 1–200 operations; " +
		"a fifth of the random histories use further sizes (4…4097; read-back of disks above 80 blocks covers touched addresses, their neighbours, both ends and 16 more) and a third of the fresh buffers are unaligned sub-slices of larger arrays; " +
		"each history is applied to all eight configurations {disk,async_disk}×{Mem,File}×{methods,global wrappers} and every result is compared with the model. " +
		"Fleet layer (fleet_* keys), in the same worker processes after the lock-step histories: scenarios keeping up to six disks of different kinds and sizes alive at once, operations interleaved through methods and (for the disk last given to disk.Init) the global wrappers, disks closed and new ones created in between (smaller/equal/larger in-memory disks, file disks on a removed image path used before), each disk compared with its own model, the same address read on every other disk after each write; plus sparse file-backed disks of 2^19+1, 2^20+3 and 2^31+1 blocks (byte offsets beyond 2^31, 2^32, 2^43) with addresses around those boundaries. " +
		"Refusal layer (refusal_* keys): per configuration, in a child process with a single goroutine and no timers, sequences 'refused operation(s) (every out-of-range address class under Read/ReadTo/Write, every wrong write-buffer length) then Size, Barrier, Read, ReadTo, Write+read-back on the SAME object', refusals in pairs, alternating with accepted calls, and seeded random mixtures, each call announced before it is made and compared with the model; " +
		"a call that never returns is decided by the Go runtime's own 'all goroutines are asleep - deadlock!' report (the parent's wall-clock watchdog only yields inconclusive). " +
		"Length of the ReadTo buffer (readto_len_* keys): one ReadTo per case with a buffer of length {nil, 0, 1, 4095, 4096, 4097, 8192, seeded lengths below one / between one and two / above two blocks} × capacity {len, len+4096} × address {0, size-1, seeded in range, size, size+1, 2^32, 2^63, 2^64-1} on fully written disks of 1, 4 and 7 blocks, made on all eight configurations into identical dirty buffers: panic-or-not and every byte of the backing array afterwards must be the same on all eight (messages are not compared), an out-of-range address is refused for every length, a 4096-byte buffer gets the block, and the disks read back unchanged. " +
		"Size a disk is opened with (open_size_* keys): {disk,async_disk}.NewFileDisk over an absent path / an image of 3 / of 10 written blocks and {disk,async_disk}.NewMemDisk with n around the prior size, 2^19, 2^20, 2^31, 2^32, 2^51 (n*4096 leaves int64), 2^52 (n*4096 wraps uint64), q*2^52+k for q in {1,2,3,4095,seeded} and small k (the product wraps to k blocks), 2^63, 2^64-1, one child process per case under RLIMIT_FSIZE 64 MiB with SIGXFSZ ignored (file) / RLIMIT_AS 2 GiB (memory): the open fails (error, panic, the runtime's out-of-memory report) and an existing image is byte-identical afterwards, or it succeeds and Size() = n, the image is exactly n*4096 bytes, prior blocks below n are kept, the first block beyond reads zero and a Write to n-1 is read back and changes no other probed address")
	r.Assume("async_disk has no package-level wrappers; its 'global' configuration passes the async_disk-constructed disk to disk.Init and uses package disk's wrappers (ReadTo, which has no wrapper, through disk.Get())")
	r.Assume("in the histories ReadTo is called with 4096-byte buffers; for other lengths the statement only demands that all implementations behave identically and that out-of-range addresses are refused (readto_len_* family)")
	r.Assume("panics are compared by occurrence, not message")
	self, err := os.Executable()
	if err != nil {
		r.Inconclusive("no-self-executable")
		return false, err.Error()
	}
	nw := 16
	nrand := r.Pick(1000, 20000)
	nfleet := r.Pick(320, 4000)
	results := make([]*c09result, nw)
	deadlocked := make([]*c09viol, nw)
	core.Parallel(nw, nw, func(i int) {
		dir := filepath.Join(r.Scratch, fmt.Sprintf("c09w%d", i))
		out := filepath.Join(r.Scratch, fmt.Sprintf("c09w%d.json", i))
		res := core.Exec(r.Scratch, nil, 25*time.Minute, "", self, "child", "c09-worker",
			strconv.FormatInt(r.Seed, 10), strconv.Itoa(i), strconv.Itoa(nw), strconv.Itoa(nrand), dir, out, strconv.Itoa(nfleet))
		if res.TimedOut {
			r.Inconclusive("worker-watchdog")
			return
		}
		b, err := os.ReadFile(out)
		if (err != nil || res.Code != 0) && bytes.Contains([]byte(res.Stderr), []byte(goDeadlockMsg)) {
			// the worker has one goroutine (the one calling the library) and arms no timer: the
			// runtime's deadlock report means a library call of the history can never return
			cur, _ := os.ReadFile(out + ".cur")
			if fs, ok := strings.CutPrefix(string(cur), "fleet:"); ok {
				fi, _ := strconv.Atoi(fs)
				var scn interface{}
				if fl := c09FleetScenarios(r.Seed, nfleet); fi < len(fl) {
					scn = fl[fi]
				}
				frame := c09DeadlockFrame(res.Stderr)
				deadlocked[i] = &c09viol{Sig: "fleet-call-never-returns-" + frame,
					What:   fmt.Sprintf("while executing fleet scenario %d a call never returned: the Go runtime reports '%s' with the only goroutine of the worker blocked in %s", fi, goDeadlockMsg, frame),
					Detail: map[string]interface{}{"seed": r.Seed, "fleet_index": fi, "scenario": scn, "worker_stderr": tail09(res.Stderr, 4000)}}
				return
			}
			idx, _ := strconv.Atoi(string(cur))
			var hist interface{}
			if d := directedHistories(); idx < len(d) {
				h := d[idx]
				h.Index = idx
				hist = h
			} else {
				h := randomHistory(r.Seed, idx-len(d))
				h.Index = idx
				if len(h.Ops) > 60 {
					h.Ops = h.Ops[:60]
				}
				hist = h
			}
			frame := c09DeadlockFrame(res.Stderr)
			deadlocked[i] = &c09viol{Sig: "lockstep-history-call-never-returns-" + frame,
				What: fmt.Sprintf("while applying history %d to the eight configurations a call never returned: the Go runtime reports '%s' with the only goroutine of the worker blocked in %s", idx, goDeadlockMsg, frame),
				Detail: map[string]interface{}{"seed": r.Seed, "history_index": idx, "history (first 60 ops)": hist, "worker_stderr": tail09(res.Stderr, 4000),
					"replay": "apply the history to each of the eight configurations in turn on one disk object per configuration, recovering each panic"}}
			return
		}
		if err != nil || res.Code != 0 {
			r.Inconclusive("worker-failed")
			fmt.Fprintf(os.Stderr, "c09 worker %d: exit %d %s\n", i, res.Code, lastLines(res.Stderr, 8))
			if err != nil {
				return
			}
		}
		var wr c09result
		if json.Unmarshal(b, &wr) == nil {
			results[i] = &wr
		}
	})
	for _, v := range deadlocked {
		if v != nil {
			r.Count("workers_ended_by_runtime_deadlock_report", 1)
			r.Violate(v.Sig, v.What, v.Detail)
		}
	}
	c09Refusal(r)
	c09ReadToLen(r)
	c09OpenSize(r)
	classes := map[string]int64{}
	for _, wr := range results {
		if wr == nil {
			continue
		}
		r.Eval(int(wr.Evals))
		for k, v := range wr.Counts {
			if strings.Contains(k, "_max_") { // a maximum, not a tally
				if v > r.GetCount(k) {
					r.Count(k, v-r.GetCount(k))
				}
				continue
			}
			r.Count(k, v)
		}
		for k, v := range wr.Classes {
			classes[k] += v
		}
		for _, h := range wr.HistHashes {
			r.Distinct(h)
		}
		for _, s := range wr.Samples {
			r.Sample(6, s)
		}
		for _, v := range wr.Violations {
			r.Violate(v.Sig, v.What, v.Detail)
		}
	}
	var cl []string
	for k := range classes {
		cl = append(cl, k)
	}
	sort.Strings(cl)
	r.Set("call_classes_distinct", len(cl))
	if len(cl) > 1000 {
		cl = cl[:1000]
	}
	r.Set("call_classes", cl)
	r.Set("configurations", len(c09cfgs))
	for _, c := range c09cfgs {
		if r.GetCount("calls/"+c.Name) < 1000 {
			return false, "configuration " + c.Name + " saw fewer than 1000 compared calls"
		}
	}
	if r.GetCount("panics_expected_and_compared") < 100 || r.GetCount("aliasing_probes_write_buffer") < 500 ||
		r.GetCount("aliasing_probes_read_buffer") < 500 || r.GetCount("readback_blocks_compared") < 500 {
		return false, "too few refusals / aliasing probes / read-back blocks observed"
	}
	if r.GetCount("fleet_calls_with_several_disks_alive") < 2000 || r.GetCount("fleet_cross_disk_probes") < 500 || r.GetCount("fleet_calls_via_global") < 300 {
		return false, "fleet layer: too few calls with several disks alive / cross-disk probes / calls through the global wrappers"
	}
	if r.NumViolations() == 0 && (r.GetCount("readto_len_cases") < 100 || r.GetCount("readto_len_cases_refused_by_all_configurations") < 20 || r.GetCount("open_size_cases") < 100 || r.GetCount("open_size_refused_opens_with_the_existing_image_compared") < 20 || r.GetCount("open_size_successful_opens_probed") < 10) {
		return false, "ReadTo buffer-length family: fewer than 100 cases or fewer than 20 refused everywhere; open-size family: fewer than 100 cases, fewer than 20 refused opens over an existing image, or fewer than 10 successful opens probed"
	}
	return r.Evals() >= 20000, "too few compared calls"
}

func lastLines(s string, n int) string {
	lines := bytes.Split([]byte(s), []byte("\n"))
	if len(lines) > n {
		lines = lines[len(lines)-n:]
	}
	return string(bytes.Join(lines, []byte(" | ")))
}
