package diskp

// C10, shaped-payload layer.
//
// The plain C10 workload stamps one identity through all 512 words of every
// written block, so every write differs from the stored block everywhere. This
// layer varies WHERE a written block differs from the block the writer last
// observed at that address: the writer copies its last observation (its own
// last read or write of the address, the zero block before any) and stamps its
// (address, client, seq) identity into a region only — the whole block, a
// header, a trailer, somewhere in a middle sector, two disjoint sectors, or
// nowhere at all (payload equal to the observation). The identity of a write is
// recoverable from the region it stamped.
//
// A history is a sequence of rounds on one disk. In a round every client first
// reads the hot addresses (observation phase: nobody writes), then all clients
// are released together and perform 1–3 operations each (burst phase), then all
// wait for each other again. After the last round the clients are joined and the
// main goroutine reads every address of the disk.
//
// Oracle (both implementations). From the statement — "operations ordered in
// real time on one address are observed in that order", and for MemDisk
// linearizability — a read of address a that overlaps no write to a, and that
// begins after the writes W1..Wk to a have all returned, returns exactly the
// payload of one of those writes that is not followed in real time by another
// of them (a real-time-maximal write), or the zero block if k = 0. A block that
// equals no write's payload (e.g. the header of one write and the trailer of
// another) is a violation, whether it is seen during the history or at the
// quiescent point after the join. Reads overlapping a write are not judged for
// FileDisk (tearing is counted only); for MemDisk they must still be one whole
// payload, and porcupine decides linearizability per address with whole block
// contents as register values.

import (
	"bufio"
	"encoding/binary"
	"encoding/json"
	"fmt"
	"os"
	"path/filepath"
	"runtime"
	"sort"
	"strconv"
	"strings"
	"sync"
	"sync/atomic"
	"time"

	"verif/core"
	"verif/props"

	"github.com/anishathalye/porcupine"
	"github.com/goose-lang/goose/machine/async_disk"
	"github.com/goose-lang/goose/machine/disk"
)

func init() {
	props.Children["c10-shape"] = c10ShapeClient
}

const (
	shWhole = iota
	shHeader
	shTrailer
	shMiddle
	shEqual
	shTwo
	nShapes
)

var shapeNames = []string{"whole", "header", "trailer", "middle", "equal", "two-sectors"}

const (
	wordsPerBlock  = bs / 8
	wordsPerSector = 64 // 512-byte sectors
)

// openC10Disk creates a fresh disk through the named package.
func openC10Disk(pkg, impl, path string, size uint64) (disk.Disk, error) {
	switch {
	case impl == "mem" && pkg == "async_disk":
		var d async_disk.Disk = async_disk.NewMemDisk(size)
		return d, nil
	case impl == "mem":
		return disk.NewMemDisk(size), nil
	case pkg == "async_disk":
		os.Remove(path)
		fd, err := async_disk.NewFileDisk(path, size)
		if err != nil {
			return nil, err
		}
		var d async_disk.Disk = fd
		return d, nil
	default:
		os.Remove(path)
		fd, err := disk.NewFileDisk(path, size)
		if err != nil {
			return nil, err
		}
		return fd, nil
	}
}

// ---------------------------------------------------------------- generation

type shParams struct {
	Hist       int      `json:"hist"`
	Impl       string   `json:"impl"`
	Pkg        string   `json:"pkg"`
	Clients    int      `json:"clients"`
	Size       uint64   `json:"size"`
	Hot        []uint64 `json:"hot"`
	Rounds     int      `json:"rounds"`
	ObservePct int      `json:"observe_pct"`
	GoschedPct int      `json:"gosched_pct"`
	Profile    string   `json:"shape_profile"`
	BurstMax   int      `json:"burst_max"` // a client performs 1..burst_max operations per burst
	Barrier    string   `json:"barrier"`   // park | spin (spin only takes effect under GOMAXPROCS ≤ 4)
	// Twin != "": a second disk of that implementation (same package, size and hot addresses) is alive and
	// used at the same time: clients with an even number work on disk 0, the others on disk 1. The child
	// writes one record per disk; Disk says which one this is. Stamps carry the disk number in bits 56….
	Twin string `json:"twin,omitempty"`
	Disk int    `json:"disk"`
	// Fresh: a "fresh-start" history (indices from shFreshBase): one or two rounds, no observation phase
	// before the first burst, so the clients' first operations on the newly created disk start together.
	Fresh bool `json:"fresh_start,omitempty"`
}

// shFreshBase is the first index of the fresh-start histories.
const shFreshBase = 1 << 24

type shOp struct {
	K     byte // 'r' Read, 't' ReadTo, 'w' Write, 's' Size
	A     uint64
	Shape int
	Rg    []int // stamped regions as (word offset, word count) pairs
}

type shRound struct {
	Obs   [][]shOp // per client: reads of the observation phase
	Burst [][]shOp // per client: operations of the burst phase
}

var shProfiles = []struct {
	name   string
	shapes []int
}{
	{"all-shapes", []int{shWhole, shHeader, shTrailer, shMiddle, shEqual, shTwo}},
	{"header-trailer", []int{shHeader, shTrailer}},
	{"partial-only", []int{shHeader, shTrailer, shMiddle, shTwo, shEqual, shHeader, shTrailer}},
	{"mostly-whole", []int{shWhole, shWhole, shWhole, shHeader, shTrailer, shMiddle, shTwo, shEqual}},
}

func shRegions(rng *core.Rng, shape int) []int {
	widths := []int{1, 2, 8, 64, 64, 100}
	inSector := func(sec int) (int, int) {
		w := []int{1, 8, 64}[rng.Intn(3)]
		return sec*wordsPerSector + rng.Intn(wordsPerSector-w+1), w
	}
	switch shape {
	case shWhole:
		return []int{0, wordsPerBlock}
	case shHeader:
		return []int{0, widths[rng.Intn(len(widths))]}
	case shTrailer:
		w := widths[rng.Intn(len(widths))]
		return []int{wordsPerBlock - w, w}
	case shMiddle:
		o, w := inSector(3 + rng.Intn(2))
		return []int{o, w}
	case shTwo:
		i := rng.Intn(8)
		j := (i + 1 + rng.Intn(7)) % 8
		if j < i {
			i, j = j, i
		}
		o1, w1 := inSector(i)
		o2, w2 := inSector(j)
		return []int{o1, w1, o2, w2}
	}
	return nil
}

func shGen(seed int64, idx int) (shParams, []shRound) {
	rng := core.NewRng(seed, "c10/shape/h"+strconv.Itoa(idx))
	p := shParams{Hist: idx}
	p.Impl = []string{"mem", "file", "mem", "file"}[idx%4]
	p.Pkg = []string{"disk", "disk", "async_disk", "async_disk"}[idx%4]
	p.Clients = 2 + rng.Intn(9)
	if rng.Chance(25) {
		p.Clients = 2
	}
	p.Size = uint64(1 + rng.Intn(12))
	nhot := 1
	if rng.Chance(30) && p.Size >= 2 {
		nhot = 2
	}
	perm := make([]uint64, p.Size)
	for i := range perm {
		perm[i] = uint64(i)
	}
	for i := len(perm) - 1; i > 0; i-- {
		j := rng.Intn(i + 1)
		perm[i], perm[j] = perm[j], perm[i]
	}
	p.Hot = append([]uint64(nil), perm[:nhot]...)
	p.Rounds = 15 + rng.Intn(31)
	p.ObservePct = []int{100, 100, 80, 50}[rng.Intn(4)]
	p.GoschedPct = []int{0, 0, 0, 10, 40}[rng.Intn(5)]
	prof := shProfiles[rng.Intn(len(shProfiles))]
	p.Profile = prof.name
	p.BurstMax = []int{3, 3, 3, 6, 12}[rng.Intn(5)]
	if p.Clients >= 4 && rng.Chance(30) {
		p.Twin = []string{"mem", "file"}[rng.Intn(2)]
	}
	p.Barrier = "park"
	if rng.Chance(12) {
		p.Barrier = "spin"
	}
	if idx >= shFreshBase {
		// many fresh disks, each used briefly: what matters is the first operation of each client
		p.Fresh = true
		p.Clients = 2 + rng.Intn(7)
		// the size of the disk decides how long whatever a first access has to set up takes
		p.Size = []uint64{1, 2, 3, 4, 8, 16, 64, 64, 256, 256, 1024, 4096}[rng.Intn(12)]
		p.Hot = []uint64{rng.U64() % p.Size}
		for k := rng.Intn(3); k > 0 && p.Size >= 4; k-- { // up to three addresses in use
			if a := rng.U64() % p.Size; a != p.Hot[0] && a != p.Hot[len(p.Hot)-1] {
				p.Hot = append(p.Hot, a)
			}
		}
		p.Rounds = 1 + rng.Intn(2)
		p.BurstMax = 1 + rng.Intn(2)
		p.Twin = ""
		p.Barrier = []string{"spin", "spin", "park"}[rng.Intn(3)]
	}
	rounds := make([]shRound, p.Rounds)
	for ri := range rounds {
		rd := shRound{Obs: make([][]shOp, p.Clients), Burst: make([][]shOp, p.Clients)}
		for c := 0; c < p.Clients; c++ {
			if (c == ri%p.Clients || rng.Chance(p.ObservePct)) && !(p.Fresh && ri == 0) {
				for _, a := range p.Hot {
					k := byte('r')
					if rng.Bool() {
						k = 't'
					}
					rd.Obs[c] = append(rd.Obs[c], shOp{K: k, A: a})
				}
			}
			n := 1 + rng.Intn(p.BurstMax)
			for i := 0; i < n; i++ {
				var o shOp
				o.A = p.Hot[rng.Intn(len(p.Hot))]
				if rng.Chance(8) {
					o.A = rng.U64() % p.Size
				}
				x := rng.Intn(100)
				if p.Fresh {
					// a first operation may be of any kind: half of them writes
					x = []int{0, 85, 92, 99}[[]int{0, 0, 0, 0, 1, 1, 2, 2}[rng.Intn(8)]]
					if rng.Chance(6) {
						x = 99
					}
				}
				switch {
				case x < 82:
					o.K = 'w'
					o.Shape = prof.shapes[rng.Intn(len(prof.shapes))]
					o.Rg = shRegions(rng, o.Shape)
				case x < 89:
					o.K = 'r'
				case x < 96:
					o.K = 't'
				default:
					o.K = 's'
				}
				rd.Burst[c] = append(rd.Burst[c], o)
			}
		}
		rounds[ri] = rd
	}
	return p, rounds
}

// ---------------------------------------------------------------- recording

// A block is recorded run-length encoded over its 512 little-endian words, as
// (word, count) pairs: a whole-block stamp is one pair.
func rleOf(b []byte) []uint64 {
	out := make([]uint64, 0, 4)
	for i := 0; i+8 <= len(b); i += 8 {
		w := binary.LittleEndian.Uint64(b[i:])
		if n := len(out); n > 0 && out[n-2] == w {
			out[n-1]++
		} else {
			out = append(out, w, 1)
		}
	}
	return out
}

func rleKey(r []uint64) string {
	buf := make([]byte, 0, len(r)*6)
	for _, v := range r {
		buf = binary.AppendUvarint(buf, v)
	}
	return string(buf)
}

var zeroKey = rleKey([]uint64{0, wordsPerBlock})

func describeRLE(r []uint64) string {
	if len(r) == 0 {
		return "-"
	}
	var sb strings.Builder
	off := uint64(0)
	for i := 0; i+1 < len(r); i += 2 {
		if i >= 24 {
			fmt.Fprintf(&sb, " … %d more runs", (len(r)-i)/2)
			break
		}
		if i > 0 {
			sb.WriteString(" | ")
		}
		fmt.Fprintf(&sb, "bytes[%d:%d)=%s", off*8, (off+r[i+1])*8, describeStamp(r[i]))
		off += r[i+1]
	}
	return sb.String()
}

func expandRLE(r []uint64) []uint64 {
	out := make([]uint64, 0, wordsPerBlock)
	for i := 0; i+1 < len(r); i += 2 {
		for k := uint64(0); k < r[i+1] && len(out) < wordsPerBlock+1; k++ {
			out = append(out, r[i])
		}
	}
	return out
}

type shEvent struct {
	C    int      `json:"c"` // client; the main goroutine's final reads carry client = number of clients
	K    string   `json:"k"`
	A    uint64   `json:"a"`
	T0   int64    `json:"t0"`
	T1   int64    `json:"t1"`
	B    []uint64 `json:"b,omitempty"`  // block written / returned, run-length encoded
	V    uint64   `json:"v,omitempty"`  // stamp of a write (0 for shape "equal"), Size result
	Sh   int      `json:"sh,omitempty"` // shape of a write
	Rg   []int    `json:"rg,omitempty"`
	Bh   uint64   `json:"bh,omitempty"` // hash of the block the payload was built from
	Rd   int      `json:"rd"`           // round
	Ph   int      `json:"ph"`           // 0 observation phase, 1 burst, 2 after the join
	P    string   `json:"p,omitempty"`
	blen int
}

type shRecord struct {
	shParams
	GoMaxProcs int       `json:"gomaxprocs"`
	Events     []shEvent `json:"events"`
}

func fnv64(b []byte) uint64 {
	h := uint64(14695981039346656037)
	for _, c := range b {
		h ^= uint64(c)
		h *= 1099511628211
	}
	return h | 1
}

// spinBarrier releases its n participants together, either by closing a channel
// they are parked on or by a generation counter they spin on (with Gosched).
type spinBarrier struct {
	n     int32
	park  bool
	count atomic.Int32
	gen   atomic.Int32
	mu    sync.Mutex
	ch    chan struct{}
	cnt   int
}

func (b *spinBarrier) wait() {
	if b.park {
		b.mu.Lock()
		b.cnt++
		if b.cnt == int(b.n) {
			b.cnt = 0
			close(b.ch)
			b.ch = make(chan struct{})
			b.mu.Unlock()
		} else {
			ch := b.ch
			b.mu.Unlock()
			<-ch
		}
		return
	}
	g := b.gen.Load()
	if b.count.Add(1) == b.n {
		b.count.Store(0)
		b.gen.Add(1)
		return
	}
	for b.gen.Load() == g {
		runtime.Gosched()
	}
}

// c10ShapeClient: vcheck child c10-shape <seed> <first> <count> <stride> <dir> <out>
func c10ShapeClient(args []string) int {
	if len(args) < 6 {
		fmt.Fprintln(os.Stderr, "c10-shape: seed first count stride dir out")
		return 2
	}
	seed, _ := strconv.ParseInt(args[0], 10, 64)
	first, _ := strconv.Atoi(args[1])
	count, _ := strconv.Atoi(args[2])
	stride, _ := strconv.Atoi(args[3])
	dir, out := args[4], args[5]
	os.MkdirAll(dir, 0o755)
	f, err := os.Create(out)
	if err != nil {
		fmt.Fprintln(os.Stderr, err)
		return 2
	}
	defer f.Close()
	wr := bufio.NewWriterSize(f, 1<<20)
	for k := 0; k < count; k++ {
		idx := first + k*stride
		p, rounds := shGen(seed, idx)
		fmt.Fprintf(os.Stderr, "shaped history %d impl=%s pkg=%s clients=%d\n", idx, p.Impl, p.Pkg, p.Clients)
		path := filepath.Join(dir, fmt.Sprintf("s%d.img", idx))
		d0, err := openC10Disk(p.Pkg, p.Impl, path, p.Size)
		if err != nil {
			fmt.Fprintln(os.Stderr, "harness: open disk:", err)
			return 2
		}
		disks := []disk.Disk{d0}
		impls := []string{p.Impl}
		if p.Twin != "" {
			d1, err := openC10Disk(p.Pkg, p.Twin, path+".twin", p.Size)
			if err != nil {
				fmt.Fprintln(os.Stderr, "harness: open twin disk:", err)
				return 2
			}
			disks, impls = append(disks, d1), append(impls, p.Twin)
		}
		nd := len(disks)
		evs := make([][]shEvent, p.Clients+nd)
		start := time.Now()
		// spinning barriers release the clients more tightly but burn the processors the
		// clients need when there are many of them: most histories park instead
		bar := &spinBarrier{n: int32(p.Clients), park: !(p.Barrier == "spin" && (p.Fresh || runtime.GOMAXPROCS(0) <= 4)), ch: make(chan struct{})}
		var wg sync.WaitGroup
		// do performs one operation on behalf of a client and records it. base is the
		// client's last observation per address (nil = zero block).
		do := func(di, c, seq, rd, ph int, o shOp, base [][]byte, wbuf, rbuf []byte) shEvent {
			d := disks[di]
			ev := shEvent{C: c, K: string(rune(o.K)), A: o.A, Rd: rd, Ph: ph}
			func() {
				defer func() {
					if e := recover(); e != nil {
						ev.T1 = int64(time.Since(start))
						ev.P = fmt.Sprint(e)
					}
				}()
				switch o.K {
				case 'w':
					if base[o.A] == nil {
						base[o.A] = make([]byte, bs)
					}
					copy(wbuf, base[o.A])
					ev.Bh = fnv64(wbuf)
					ev.Sh, ev.Rg = o.Shape, o.Rg
					if o.Shape != shEqual {
						ev.V = stampOf(o.A, c, seq) | uint64(di)<<56
						for i := 0; i+1 < len(o.Rg); i += 2 {
							for w := o.Rg[i]; w < o.Rg[i]+o.Rg[i+1]; w++ {
								binary.LittleEndian.PutUint64(wbuf[w*8:], ev.V)
							}
						}
					}
					ev.B = rleOf(wbuf)
					copy(base[o.A], wbuf)
					ev.T0 = int64(time.Since(start))
					d.Write(o.A, wbuf)
					ev.T1 = int64(time.Since(start))
				case 'r':
					ev.T0 = int64(time.Since(start))
					b := d.Read(o.A)
					ev.T1 = int64(time.Since(start))
					ev.blen = len(b)
					ev.B = rleOf(b)
					if len(b) == bs {
						if base[o.A] == nil {
							base[o.A] = make([]byte, bs)
						}
						copy(base[o.A], b)
					}
				case 't':
					for i := 0; i < bs; i += 8 {
						binary.LittleEndian.PutUint64(rbuf[i:], dirtyWord)
					}
					ev.T0 = int64(time.Since(start))
					d.ReadTo(o.A, rbuf)
					ev.T1 = int64(time.Since(start))
					ev.blen = bs
					ev.B = rleOf(rbuf)
					if base[o.A] == nil {
						base[o.A] = make([]byte, bs)
					}
					copy(base[o.A], rbuf)
				case 's':
					ev.T0 = int64(time.Since(start))
					ev.V = d.Size()
					ev.T1 = int64(time.Since(start))
				}
			}()
			if (o.K == 'r') && ev.P == "" && ev.blen != bs {
				ev.P = fmt.Sprintf("harness: returned block has %d bytes", ev.blen)
			}
			return ev
		}
		for c := 0; c < p.Clients; c++ {
			wg.Add(1)
			go func(c int) {
				defer wg.Done()
				rng := core.NewRng(seed, fmt.Sprintf("c10/shape/h%d/c%d/sched", idx, c))
				var my []shEvent
				base := make([][]byte, p.Size)
				wbuf, rbuf := make([]byte, bs), make([]byte, bs)
				seq := 0
				for ri, rd := range rounds {
					bar.wait() // everybody's burst of the previous round has returned
					for _, o := range rd.Obs[c] {
						my = append(my, do(c%nd, c, seq, ri, 0, o, base, wbuf, rbuf))
						seq++
					}
					bar.wait() // nobody is reading any more
					for _, o := range rd.Burst[c] {
						my = append(my, do(c%nd, c, seq, ri, 1, o, base, wbuf, rbuf))
						seq++
						if p.GoschedPct > 0 && rng.Chance(p.GoschedPct) {
							runtime.Gosched()
						}
					}
				}
				evs[c] = my
			}(c)
		}
		wg.Wait()
		// quiescent point: every client has joined; read every block of every disk
		// (for disks above 16 blocks: the addresses the history used, their neighbours, both ends)
		final := map[uint64]bool{}
		if p.Size > 16 {
			mark := func(a uint64) {
				for _, x := range []uint64{a - 1, a, a + 1} {
					if x < p.Size {
						final[x] = true
					}
				}
			}
			mark(0)
			mark(p.Size - 1)
			for _, rd := range rounds {
				for _, ops := range rd.Burst {
					for _, o := range ops {
						if o.K != 's' {
							mark(o.A)
						}
					}
				}
			}
		}
		for di := range disks {
			base := make([][]byte, p.Size)
			wbuf, rbuf := make([]byte, bs), make([]byte, bs)
			for a := uint64(0); a < p.Size; a++ {
				if p.Size > 16 && !final[a] {
					continue
				}
				k := byte('r')
				if a%2 == 1 {
					k = 't'
				}
				evs[p.Clients+di] = append(evs[p.Clients+di], do(di, p.Clients, int(a), p.Rounds, 2, shOp{K: k, A: a}, base, wbuf, rbuf))
			}
			evs[p.Clients+di] = append(evs[p.Clients+di], do(di, p.Clients, int(p.Size), p.Rounds, 2, shOp{K: 's'}, base, wbuf, rbuf))
		}
		for di, d := range disks {
			func() {
				defer func() { recover() }()
				d.Close()
			}()
			if impls[di] == "file" {
				os.Remove([]string{path, path + ".twin"}[di])
			}
		}
		for di := range disks {
			rec := shRecord{shParams: p, GoMaxProcs: runtime.GOMAXPROCS(0)}
			rec.Disk = di
			if di == 1 {
				rec.Impl, rec.Twin = p.Twin, p.Impl
			}
			for c, e := range evs {
				if (c < p.Clients && c%nd == di) || c == p.Clients+di {
					rec.Events = append(rec.Events, e...)
				}
			}
			b, _ := json.Marshal(rec)
			wr.Write(b)
			wr.WriteByte('\n')
		}
		wr.Flush()
	}
	return 0
}

// ---------------------------------------------------------------- checker

type regInputS struct {
	write bool
	v     string
}

var registerModelS = porcupine.Model{
	Init: func() interface{} { return zeroKey },
	Step: func(state, input, output interface{}) (bool, interface{}) {
		in := input.(regInputS)
		if in.write {
			return true, in.v
		}
		return output.(string) == state.(string), state
	},
	Equal: func(a, b interface{}) bool { return a.(string) == b.(string) },
}

func shOverlaps(a, b *shEvent) bool { return a.T0 <= b.T1 && b.T0 <= a.T1 }

func describeShEvent(e *shEvent) string {
	name := map[string]string{"r": "Read", "t": "ReadTo", "w": "Write", "s": "Size"}[e.K]
	who := fmt.Sprintf("client %d", e.C)
	if e.Ph == 2 {
		who = "main goroutine after the join"
	}
	s := fmt.Sprintf("[%d,%d] round %d %s %s(%d)", e.T0, e.T1, e.Rd, who, name, e.A)
	switch {
	case e.P != "":
		s += " PANIC " + e.P
	case e.K == "w":
		s += fmt.Sprintf(" shape=%s stamped-words=%v payload{%s}", shapeNames[e.Sh], e.Rg, describeRLE(e.B))
	case e.K == "s":
		s += fmt.Sprintf(" -> %d", e.V)
	default:
		s += " -> {" + describeRLE(e.B) + "}"
	}
	return s
}

func describeShPartition(evs []*shEvent, max int) []string {
	var out []string
	if len(evs) > max {
		out = append(out, fmt.Sprintf("… %d earlier events omitted", len(evs)-max))
		evs = evs[len(evs)-max:]
	}
	for _, e := range evs {
		out = append(out, describeShEvent(e))
	}
	return out
}

func regionsDisjoint(a, b []int) bool {
	for i := 0; i+1 < len(a); i += 2 {
		for j := 0; j+1 < len(b); j += 2 {
			if a[i] < b[j]+b[j+1] && b[j] < a[i]+a[i+1] {
				return false
			}
		}
	}
	return true
}

// agreement describes, for a block that equals no payload, where it agrees
// with each of the candidate writes.
func agreement(block []uint64, cands []*shEvent) []string {
	var out []string
	bw := expandRLE(block)
	for _, w := range cands {
		pw := expandRLE(w.B)
		if len(pw) != len(bw) {
			continue
		}
		var ranges []string
		n := 0
		for i := 0; i < len(bw); {
			if bw[i] != pw[i] {
				i++
				continue
			}
			j := i
			for j < len(bw) && bw[j] == pw[j] {
				j++
			}
			ranges = append(ranges, fmt.Sprintf("[%d:%d)", i*8, j*8))
			n += j - i
			i = j
		}
		out = append(out, fmt.Sprintf("agrees with the payload of {%s} on %d of %d bytes: %s", describeShEvent(w), n*8, len(bw)*8, strings.Join(ranges, " ")))
	}
	return out
}

func (ck *c10checker) shDetail(rec *shRecord, addr uint64, evs []*shEvent, upto *shEvent, extra map[string]interface{}) map[string]interface{} {
	// events up to (and including) the judged read, latest last
	var shown []*shEvent
	for _, e := range evs {
		if upto == nil || e.T0 <= upto.T1 {
			shown = append(shown, e)
		}
	}
	d := map[string]interface{}{
		"seed": ck.r.Seed, "shaped_history_index": rec.Hist, "impl": rec.Impl, "package": rec.Pkg, "clients": rec.Clients, "disk_size": rec.Size,
		"disk_number": rec.Disk, "other_disk_alive_at_the_same_time": rec.Twin,
		"hot_addresses": rec.Hot, "rounds": rec.Rounds, "shape_profile": rec.Profile, "gomaxprocs": rec.GoMaxProcs, "address": addr,
		"last_events_on_address_by_call_time": describeShPartition(shown, 60),
		"replay":                              fmt.Sprintf("vcheck child c10-shape %d %d 1 1 <dir> <out>  (operation lists, shapes and stamped regions are a function of seed and history index; payloads also depend on what each writer last observed, and the schedule is not reproducible)", ck.r.Seed, rec.Hist),
	}
	for k, v := range extra {
		d[k] = v
	}
	return d
}

func (ck *c10checker) checkShaped(rec *shRecord) {
	r := ck.r
	impl := rec.Impl
	pfx := map[string]string{"mem": "memdisk", "file": "filedisk"}[impl]
	r.Count("shaped_histories_"+impl+"_"+rec.Pkg, 1)
	if rec.Twin != "" {
		r.Count("shaped_histories_with_a_second_disk_in_use_"+impl+"_beside_"+rec.Twin, 1)
	}
	r.Count(fmt.Sprintf("shaped_histories_gomaxprocs_%d", rec.GoMaxProcs), 1)
	r.Eval(len(rec.Events))
	r.Count("shaped_ops_"+impl, int64(len(rec.Events)))
	parts := map[uint64][]*shEvent{}
	for i := range rec.Events {
		e := &rec.Events[i]
		if e.P != "" {
			r.Violate(pfx+"-unexpected-panic", fmt.Sprintf("%s: in-range %s panicked under concurrency: %s", impl, describeShEvent(e), e.P),
				ck.shDetail(rec, e.A, []*shEvent{e}, nil, nil))
			continue
		}
		if e.K == "s" {
			r.Count("size_calls_compared", 1)
			if e.V != rec.Size {
				r.Violate(pfx+"-size-changed", fmt.Sprintf("%s: Size() returned %d on a disk of %d blocks", impl, e.V, rec.Size),
					ck.shDetail(rec, 0, []*shEvent{e}, nil, nil))
			}
			continue
		}
		parts[e.A] = append(parts[e.A], e)
	}
	addrs := make([]uint64, 0, len(parts))
	for a := range parts {
		addrs = append(addrs, a)
	}
	sort.Slice(addrs, func(i, j int) bool { return addrs[i] < addrs[j] })
	for _, a := range addrs {
		ck.checkShapedAddr(rec, a, parts[a])
	}
}

func (ck *c10checker) checkShapedAddr(rec *shRecord, a uint64, evs []*shEvent) {
	r := ck.r
	impl := rec.Impl
	pfx := map[string]string{"mem": "memdisk", "file": "filedisk"}[impl]
	sort.Slice(evs, func(i, j int) bool {
		if evs[i].T0 != evs[j].T0 {
			return evs[i].T0 < evs[j].T0
		}
		return evs[i].C < evs[j].C
	})
	keys := make(map[*shEvent]string, len(evs))
	var writes []*shEvent // by T0
	byKey := map[string][]*shEvent{}
	for _, e := range evs {
		k := rleKey(e.B)
		keys[e] = k
		if e.K == "w" {
			writes = append(writes, e)
			byKey[k] = append(byKey[k], e)
			r.Count("shaped_writes_"+shapeNames[e.Sh]+"_"+impl, 1)
		}
	}
	// overlapping write pairs and how their payloads were shaped
	var wp, wpDiff, wpSameBase int64
	sampleRound := -1 // a round with overlapping, differently shaped writes, for the written-out samples
	for i := range writes {
		for j := i + 1; j < len(writes) && writes[j].T0 <= writes[i].T1; j++ {
			wi, wj := writes[i], writes[j]
			wp++
			if wi.Sh != wj.Sh {
				wpDiff++
				if sampleRound < 0 && wi.Rd == wj.Rd {
					sampleRound = wi.Rd
				}
			}
			if wi.Sh != shEqual && wj.Sh != shEqual && wi.Bh == wj.Bh && regionsDisjoint(wi.Rg, wj.Rg) {
				wpSameBase++
			}
		}
	}
	r.Count("shaped_overlapping_write_pairs_"+impl, wp)
	r.Count("shaped_overlapping_write_pairs_differently_shaped_"+impl, wpDiff)
	r.Count("shaped_overlapping_write_pairs_same_observed_block_disjoint_regions_"+impl, wpSameBase)
	if wp > 0 {
		r.Count("shaped_per_address_histories_with_overlapping_writes_"+impl, 1)
	}
	// prefix maxima for the two interval queries
	prefMaxT1 := make([]int64, len(writes)) // over writes sorted by T0
	for i, w := range writes {
		prefMaxT1[i] = w.T1
		if i > 0 && prefMaxT1[i-1] > w.T1 {
			prefMaxT1[i] = prefMaxT1[i-1]
		}
	}
	overlapsAWrite := func(e *shEvent) bool {
		n := sort.Search(len(writes), func(i int) bool { return writes[i].T0 > e.T1 })
		return n > 0 && prefMaxT1[n-1] >= e.T0
	}
	byT1 := append([]*shEvent(nil), writes...)
	sort.SliceStable(byT1, func(i, j int) bool { return byT1[i].T1 < byT1[j].T1 })
	prefMaxT0 := make([]int64, len(byT1))
	for i, w := range byT1 {
		prefMaxT0[i] = w.T0
		if i > 0 && prefMaxT0[i-1] > w.T0 {
			prefMaxT0[i] = prefMaxT0[i-1]
		}
	}
	reported := map[string]bool{}
	violate := func(sig, what string, e *shEvent, extra map[string]interface{}) {
		if reported[sig] {
			return
		}
		reported[sig] = true
		if extra == nil {
			extra = map[string]interface{}{}
		}
		extra["read"] = describeShEvent(e)
		r.Violate(sig, what, ck.shDetail(rec, a, evs, e, extra))
	}
	tornMem := false
	for _, e := range evs {
		if e.K == "w" {
			continue
		}
		key := keys[e]
		// no block may contain a word that is not 0 or a stamp of this address
		for i := 0; i+1 < len(e.B); i += 2 {
			wd := e.B[i]
			if wd == 0 {
				continue
			}
			if sa, ok := stampAddr(wd &^ (3 << 56)); !ok || sa != a || wd>>56 != uint64(rec.Disk) {
				what := fmt.Sprintf("%s: %s contains %s, which was never written to address %d", impl, describeShEvent(e), describeStamp(wd), a)
				if ok && wd>>56 == uint64(rec.Disk) {
					what = fmt.Sprintf("%s: %s contains a value written to address %d", impl, describeShEvent(e), sa)
				} else if ok && wd>>56 < 2 && rec.Twin != "" {
					what = fmt.Sprintf("%s: %s contains a value written to the OTHER disk alive at the same time (disk %d, %s)", impl, describeShEvent(e), wd>>56, rec.Twin)
				}
				violate(pfx+"-interference", what, e, nil)
				break
			}
		}
		if overlapsAWrite(e) {
			r.Count("shaped_reads_overlapping_a_write_"+impl, 1)
			if _, ok := byKey[key]; !ok && key != zeroKey {
				r.Count("shaped_reads_overlapping_a_write_that_equal_no_payload_"+impl, 1)
				if impl == "mem" {
					tornMem = true
					violate("memdisk-torn-read", fmt.Sprintf("mem: %s returned a block that is not the payload of any single write to address %d", describeShEvent(e), a), e, nil)
				}
			}
			continue
		}
		// settled read: every write to a has either returned before it began or begins after it returned
		n := sort.Search(len(byT1), func(i int) bool { return byT1[i].T1 >= e.T0 })
		r.Count("shaped_settled_reads_judged_"+impl, 1)
		if e.Ph == 2 {
			r.Count("shaped_quiescent_point_reads_judged_"+impl, 1)
		}
		if n == 0 {
			if key != zeroKey {
				r.Count("shaped_settled_reads_refuted_"+impl, 1)
				kind, what := "-settled-read-is-no-written-block", "a block nobody wrote"
				for _, w := range byKey[key] {
					if w.Sh != shEqual {
						kind, what = "-future-read", "the payload of a write that began after the read returned: "+describeShEvent(w)
						break
					}
				}
				violate(pfx+kind, fmt.Sprintf("%s: %s begins before any write to address %d returned, yet returned %s instead of the initial zero block", impl, describeShEvent(e), a, what), e, nil)
			}
			continue
		}
		ls := prefMaxT0[n-1]
		var maximal []*shEvent
		ok := false
		for i := n - 1; i >= 0 && byT1[i].T1 >= ls; i-- {
			maximal = append(maximal, byT1[i])
			if keys[byT1[i]] == key {
				ok = true
			}
		}
		if len(maximal) >= 2 {
			r.Count("shaped_settled_reads_with_several_maximal_writes_"+impl, 1)
			shapes := map[int]bool{}
			for _, w := range maximal {
				shapes[w.Sh] = true
			}
			if len(shapes) >= 2 {
				r.Count("shaped_settled_reads_with_differently_shaped_maximal_writes_"+impl, 1)
			}
		}
		if ok {
			continue
		}
		var mdesc []string
		for _, w := range maximal {
			mdesc = append(mdesc, describeShEvent(w))
		}
		extra := map[string]interface{}{"completed_writes_not_followed_by_another_completed_write": mdesc}
		// which writes carry this very block? A write of shape "equal" has no identity of its
		// own (it re-writes what its writer observed), so it only counts as the source if it
		// returned before the read began.
		var earlier, laterStamped *shEvent
		for _, w := range byKey[key] {
			if w.T1 < e.T0 {
				earlier = w
			} else if w.Sh != shEqual && laterStamped == nil {
				laterStamped = w
			}
		}
		r.Count("shaped_settled_reads_refuted_"+impl, 1)
		switch {
		case earlier != nil || key == zeroKey:
			val := "the initial zero block"
			if earlier != nil {
				val = "the payload of " + describeShEvent(earlier)
			}
			violate(pfx+"-stale-read", fmt.Sprintf("%s: %s overlaps no write to address %d, yet returned %s, which had been overwritten by a write that completed before the read began", impl, describeShEvent(e), a, val), e, extra)
		case laterStamped != nil:
			extra["write"] = describeShEvent(laterStamped)
			violate(pfx+"-future-read", fmt.Sprintf("%s: %s returned the payload of a write that began after the read returned", impl, describeShEvent(e)), e, extra)
		default:
			cands := maximal
			if len(cands) > 4 {
				cands = cands[:4]
			}
			extra["where_the_block_agrees_with_those_writes"] = agreement(e.B, cands)
			violate(pfx+"-settled-read-is-no-written-block",
				fmt.Sprintf("%s: %s overlaps no write to address %d and begins after %d write(s) to it returned, yet the block it returned is the payload of none of them: it mixes several writes", impl, describeShEvent(e), a, n),
				e, extra)
		}
	}
	if wp > 0 {
		r.Distinct("shaped/" + shPartitionKey(impl, evs, keys))
	}
	// sample: the burst of one round with overlapping differently shaped writes and the reads that follow it
	var window []*shEvent
	if sampleRound >= 0 && len(reported) == 0 {
		for _, e := range evs {
			if (e.Rd == sampleRound && e.Ph == 1) || (e.Rd == sampleRound+1 && e.Ph != 1) {
				window = append(window, e)
			}
		}
	}
	if impl != "mem" {
		if len(window) > 0 && len(window) <= 30 {
			ck.sample("file-shaped", rec.Hist, map[string]interface{}{"impl": "file", "package": rec.Pkg, "shaped_history_index": rec.Hist, "address": a, "gomaxprocs": rec.GoMaxProcs, "round": sampleRound,
				"verdict": "every read overlapping no write returned the payload of a real-time-maximal write", "burst_of_the_round_and_the_reads_after_it_ns": describeShPartition(window, 30)})
		}
		return
	}
	if tornMem {
		return
	}
	ops := make([]porcupine.Operation, 0, len(evs))
	for _, e := range evs {
		op := porcupine.Operation{ClientId: e.C, Call: e.T0, Return: e.T1}
		if e.K == "w" {
			op.Input, op.Output = regInputS{true, keys[e]}, ""
		} else {
			op.Input, op.Output = regInputS{false, ""}, keys[e]
		}
		ops = append(ops, op)
	}
	switch porcupine.CheckOperationsTimeout(registerModelS, ops, 60*time.Second) {
	case porcupine.Ok:
		r.Count("porcupine_ok", 1)
		r.Count("shaped_porcupine_ok", 1)
		if len(window) > 0 && len(window) <= 30 {
			ck.sample("mem-shaped", rec.Hist, map[string]interface{}{"impl": "mem", "package": rec.Pkg, "shaped_history_index": rec.Hist, "address": a, "gomaxprocs": rec.GoMaxProcs, "round": sampleRound,
				"porcupine": "ok (whole per-address history)", "burst_of_the_round_and_the_reads_after_it_ns": describeShPartition(window, 30)})
		}
	case porcupine.Illegal:
		r.Count("porcupine_illegal", 1)
		r.Violate("memdisk-nonlinearizable", fmt.Sprintf("mem: the %d operations on address %d of shaped history %d admit no linearization against a register holding whole blocks", len(evs), a, rec.Hist),
			ck.shDetail(rec, a, evs, nil, nil))
	default:
		r.Count("porcupine_unknown", 1)
		r.Inconclusive("porcupine-timeout")
	}
}

func shPartitionKey(impl string, evs []*shEvent, keys map[*shEvent]string) string {
	cevs := make([]*c10event, len(evs))
	for i, e := range evs {
		cevs[i] = &c10event{C: e.C, K: e.K, A: e.A, T0: e.T0, T1: e.T1, V: fnv64([]byte(keys[e]))}
	}
	return partitionKey(impl, cevs)
}
