package diskp

import (
	"bytes"
	"encoding/json"
	"fmt"
	"math/bits"
	"os"
	"os/signal"
	"path/filepath"
	"sort"
	"strconv"
	"strings"
	"sync"
	"syscall"
	"time"

	"verif/core"
	"verif/props"

	"github.com/goose-lang/goose/machine/async_disk"
	"github.com/goose-lang/goose/machine/disk"
)

// C09, dimension "the SIZE a disk is opened with, relative to the arithmetic the
// implementation does with it" (open_size_* keys).
//
// Every other workload opens disks of at most 2^31+1 blocks. A disk of n blocks
// is n*4096 bytes; that product leaves int64 at n = 2^51 and wraps around uint64
// at n = 2^52, so n = q*2^52 + k "is" a k-block disk for a computation that
// wraps. The family opens
//
//	n         k-1, k, k+1 around the prior image; 2^19, 2^20, 2^31, 2^32 (+-1);
//	          2^51 (+-1); 2^52 (+-1); q*2^52 + k for q in {1, 2, 3, 4095, seeded} and
//	          k in {0, 1, 2, prior-1, prior, prior+1, seeded}; 2^63 (+-1); 2^64-2, 2^64-1
//	flavour   disk.NewFileDisk, async_disk.NewFileDisk over an image path that is
//	          absent / holds 3 / holds 10 written blocks; disk.NewMemDisk,
//	          async_disk.NewMemDisk
//
// each in a child process of its own, file flavours under RLIMIT_FSIZE = 64 MiB
// with SIGXFSZ ignored (nothing large can be written, an oversize truncate fails
// with EFBIG), memory flavours under RLIMIT_AS = 2 GiB (an allocation the machine
// cannot serve ends the child with the runtime's out-of-memory report).
//
// Oracle (the register-array model; n and n*4096 as mathematical integers):
// the open either FAILS (error, panic, or for the memory flavours the runtime's
// fatal out-of-memory report) — then an existing image is byte-identical
// afterwards — or SUCCEEDS — then Size() = n, the image is exactly n*4096 bytes
// long (impossible from 2^51 on, so success there is itself the violation), the
// blocks of the prior image below n are kept, the first block beyond it reads
// zero, and a Write to address n-1 is read back there and changes no other
// address that is probed (0, 1, 2, prior-1). Never success with another length.

func init() {
	props.Children["c09-open-size"] = c09OpenSizeChild
}

type c09osCase struct {
	Idx     int    `json:"idx"`
	Flavour string `json:"flavour"` // disk-file | async-file | disk-mem | async-mem
	N       uint64 `json:"num_blocks"`
	NText   string `json:"num_blocks_as"`
	Prior   int    `json:"prior_image_blocks"` // -1: path absent (file flavours); 0 for memory flavours
	Class   string `json:"byte_size_class"`
}

func c09osClass(n uint64) string {
	hi, lo := bits.Mul64(n, bs)
	switch {
	case hi != 0:
		return "byte-size-wraps-around-2^64"
	case lo >= 1<<63:
		return "byte-size-between-2^63-and-2^64"
	}
	return "byte-size-below-2^63"
}

func c09osText(n uint64) string {
	if n < 1<<16 {
		return strconv.FormatUint(n, 10)
	}
	for _, e := range []uint{64, 63, 52, 51, 32, 31, 20, 19} {
		var p uint64
		if e < 64 {
			p = 1 << e
		}
		for _, d := range []int64{0, -1, 1, -2, 2} {
			if n == p+uint64(d) {
				if d == 0 {
					return fmt.Sprintf("2^%d", e)
				}
				return fmt.Sprintf("2^%d%+d", e, d)
			}
		}
	}
	if q, k := n>>52, n&(1<<52-1); q > 0 && k < 1<<16 {
		return fmt.Sprintf("%d*2^52+%d", q, k)
	}
	return strconv.FormatUint(n, 10)
}

// c09OpenSizeCases is a function of the seed only.
func c09OpenSizeCases(seed int64) []c09osCase {
	rng := core.NewRng(seed, "c09/open-size")
	sizesFor := func(prior int) []uint64 {
		k0 := uint64(3)
		if prior > 0 {
			k0 = uint64(prior)
		}
		var ns []uint64
		ns = append(ns, k0-1, k0, k0+1, 0)
		for _, e := range []uint{19, 20, 31, 32, 51, 52, 63} {
			ns = append(ns, 1<<e-1, 1<<e, 1<<e+1)
		}
		ns = append(ns, ^uint64(0), ^uint64(0)-1)
		qs := []uint64{1, 2, 3, 4095, 1 + rng.U64()%4095, 1 + rng.U64()%4095}
		for _, q := range qs {
			for _, k := range []uint64{0, 1, 2, k0 - 1, k0, k0 + 1, rng.U64() % (2*k0 + 6)} {
				ns = append(ns, q<<52+k)
			}
		}
		// in increasing order, so that the first failing case of a signature is the smallest
		sort.Slice(ns, func(i, j int) bool { return ns[i] < ns[j] })
		var out []uint64
		for i, n := range ns {
			if i == 0 || n != ns[i-1] {
				out = append(out, n)
			}
		}
		return out
	}
	var out []c09osCase
	add := func(fl string, prior int) {
		for _, n := range sizesFor(prior) {
			out = append(out, c09osCase{Idx: len(out), Flavour: fl, N: n, NText: c09osText(n), Prior: prior, Class: c09osClass(n)})
		}
	}
	for _, prior := range []int{3, 10, -1} {
		add("disk-file", prior)
		add("async-file", prior)
	}
	add("disk-mem", 0)
	add("async-mem", 0)
	return out
}

type c09osProbe struct {
	What  string `json:"probe"`
	Addr  uint64 `json:"addr"`
	Panic string `json:"panic,omitempty"`
	OK    bool   `json:"as_the_model_says"`
	Note  string `json:"note,omitempty"`
}

type c09osResult struct {
	Outcome   string       `json:"outcome"` // ok | error | panic
	Err       string       `json:"error_or_panic_message,omitempty"`
	Size      uint64       `json:"size_reported"`
	ImageLen  int64        `json:"image_length_after"` // -1: no file; file flavours only
	ImageSame bool         `json:"image_bytes_identical_to_prior"`
	Probes    []c09osProbe `json:"probes,omitempty"`
}

func c09osPriorBlock(a uint64) []byte {
	b := make([]byte, bs)
	fillPattern(b, 2, a*17+3)
	return b
}

// c09OpenSizeChild: vcheck child c09-open-size <flavour> <n> <prior blocks> <dir>
func c09OpenSizeChild(args []string) int {
	if len(args) < 4 {
		fmt.Fprintln(os.Stderr, "c09-open-size: flavour n prior dir")
		return 2
	}
	fl := args[0]
	n, _ := strconv.ParseUint(args[1], 10, 64)
	prior, _ := strconv.Atoi(args[2])
	dir := args[3]
	os.MkdirAll(dir, 0o755)
	isFile := strings.HasSuffix(fl, "-file")
	var res c09osResult
	res.ImageLen = -1
	var d disk.Disk
	path := filepath.Join(dir, "image")
	var priorBytes []byte
	if isFile {
		signal.Ignore(syscall.SIGXFSZ)
		lim := syscall.Rlimit{Cur: 64 << 20, Max: 64 << 20}
		if err := syscall.Setrlimit(syscall.RLIMIT_FSIZE, &lim); err != nil {
			fmt.Fprintln(os.Stderr, "setrlimit:", err)
			return 2
		}
		os.Remove(path)
		if prior >= 0 {
			for a := 0; a < prior; a++ {
				priorBytes = append(priorBytes, c09osPriorBlock(uint64(a))...)
			}
			if err := os.WriteFile(path, priorBytes, 0o644); err != nil {
				fmt.Fprintln(os.Stderr, err)
				return 2
			}
		}
	} else {
		lim := syscall.Rlimit{Cur: 2 << 30, Max: 2 << 30}
		if err := syscall.Setrlimit(syscall.RLIMIT_AS, &lim); err != nil {
			fmt.Fprintln(os.Stderr, "setrlimit:", err)
			return 2
		}
	}
	os.Stdout.WriteString("OPENING\n")
	p, msg := callPanics(func() {
		var err error
		switch fl {
		case "disk-file":
			var fd disk.FileDisk
			fd, err = disk.NewFileDisk(path, n)
			d = fd
		case "async-file":
			var fd async_disk.FileDisk
			fd, err = async_disk.NewFileDisk(path, n)
			d = fd
		case "disk-mem":
			d = disk.NewMemDisk(n)
		default:
			d = async_disk.NewMemDisk(n)
		}
		if err != nil {
			res.Outcome, res.Err = "error", err.Error()
		}
	})
	switch {
	case p:
		res.Outcome, res.Err = "panic", msg
	case res.Outcome == "":
		res.Outcome = "ok"
	}
	image := func() {
		if !isFile {
			return
		}
		st, err := os.Stat(path)
		if err != nil {
			res.ImageLen = -1
			res.ImageSame = prior < 0
			return
		}
		res.ImageLen = st.Size()
		res.ImageSame = false
		if prior >= 0 && st.Size() == int64(len(priorBytes)) {
			b, err := os.ReadFile(path)
			res.ImageSame = err == nil && bytes.Equal(b, priorBytes)
		}
	}
	image()
	if res.Outcome == "ok" {
		res.Size = d.Size()
		probe := func(what string, a uint64, f func() (bool, string)) {
			pr := c09osProbe{What: what, Addr: a}
			var ok bool
			var note string
			if p, msg := callPanics(func() { ok, note = f() }); p {
				pr.Panic = msg
				if pr.Panic == "" {
					pr.Panic = "(panic)"
				}
			}
			pr.OK, pr.Note = ok, note
			res.Probes = append(res.Probes, pr)
		}
		kept := uint64(0)
		if prior > 0 {
			kept = uint64(prior)
		}
		if n < kept {
			kept = n
		}
		readIs := func(a uint64, want []byte) func() (bool, string) {
			return func() (bool, string) {
				got := d.Read(a)
				if !bytes.Equal(got, want) {
					return false, fmt.Sprintf("first difference at offset %d: want %s got %s", firstDiff(want, got), hexAround(want, firstDiff(want, got)), hexAround(got, firstDiff(want, got)))
				}
				return true, ""
			}
		}
		for a := uint64(0); a < kept; a++ {
			probe("read-of-a-block-of-the-prior-image", a, readIs(a, c09osPriorBlock(a)))
		}
		zero := make([]byte, bs)
		first := uint64(0)
		if prior > 0 {
			first = uint64(prior)
		}
		if first < n {
			probe("read-of-the-first-block-beyond-the-prior-image", first, readIs(first, zero))
		}
		if n > 0 {
			x := make([]byte, bs)
			fillPattern(x, 3, n)
			probe("write-to-the-last-address", n-1, func() (bool, string) { d.Write(n-1, x); return true, "" })
			if last := res.Probes[len(res.Probes)-1]; last.Panic == "" {
				probe("read-back-of-the-last-address", n-1, readIs(n-1, x))
				for _, a := range []uint64{0, 1, 2, first - 1} {
					if a >= n-1 || (first == 0 && a == first-1) {
						continue
					}
					want := zero
					if a < kept {
						want = c09osPriorBlock(a)
					}
					probe("read-of-another-address-after-the-write-to-the-last-address", a, readIs(a, want))
				}
			}
		}
		callPanics(func() { d.Close() })
		if isFile {
			// the length the open gave the image (the probes' write is inside it by the model)
			if st, err := os.Stat(path); err == nil {
				res.ImageLen = st.Size()
			}
		}
	}
	b, _ := json.Marshal(res)
	os.Stdout.WriteString("RESULT " + string(b) + "\n")
	return 0
}

func c09OpenSize(r *core.Run) {
	self, err := os.Executable()
	if err != nil {
		r.Inconclusive("no-self-executable")
		return
	}
	cases := c09OpenSizeCases(r.Seed)
	type pend struct {
		sig, what string
		detail    interface{}
	}
	pends := make([][]pend, len(cases))
	var mu sync.Mutex
	outcomes := map[string]int64{}
	core.Parallel(len(cases), 8, func(i int) {
		cs := cases[i]
		dir := filepath.Join(r.Scratch, fmt.Sprintf("c09os%04d", i))
		defer os.RemoveAll(dir)
		args := []string{"child", "c09-open-size", cs.Flavour, strconv.FormatUint(cs.N, 10), strconv.Itoa(cs.Prior), dir}
		res := core.Exec(r.Scratch, nil, 5*time.Minute, "", self, args...)
		if res.TimedOut {
			r.Inconclusive("open-size-child-watchdog")
			return
		}
		kind := "file"
		if strings.HasSuffix(cs.Flavour, "-mem") {
			kind = "mem"
		}
		fn := map[string]string{"disk-file": "disk.NewFileDisk", "async-file": "async_disk.NewFileDisk", "disk-mem": "disk.NewMemDisk", "async-mem": "async_disk.NewMemDisk"}[cs.Flavour]
		priorText := ""
		if kind == "file" {
			priorText = fmt.Sprintf(" over an image of %d written blocks", cs.Prior)
			if cs.Prior < 0 {
				priorText = " on an absent path"
			}
		}
		call := fmt.Sprintf("%s(%s)%s", fn, cs.NText, priorText)
		sigBase := fmt.Sprintf("open-size/%s/%s", kind, cs.Class)
		detail := map[string]interface{}{"case": cs, "command": self + " " + strings.Join(args, " "),
			"replay": "file flavours: write prior_image_blocks blocks (counter pattern) to a fresh path, call the constructor with num_blocks, stat and read the image, and on success probe Size, Read of the prior blocks, Write(n-1), reads of 0, 1, 2; run under RLIMIT_FSIZE with SIGXFSZ ignored"}
		add := func(k, what string) { pends[i] = append(pends[i], pend{sigBase + ":" + k, call + ": " + what, detail}) }
		var out c09osResult
		got := false
		for _, l := range strings.Split(res.Stdout, "\n") {
			if s, ok := strings.CutPrefix(l, "RESULT "); ok && json.Unmarshal([]byte(s), &out) == nil {
				got = true
			}
		}
		count := func(k string) {
			mu.Lock()
			outcomes[kind+" flavours, "+cs.Class+": "+k]++
			mu.Unlock()
		}
		if !got {
			oom := strings.Contains(res.Stderr, "out of memory") || strings.Contains(res.Stderr, "cannot allocate memory")
			switch {
			case kind == "mem" && oom && strings.Contains(res.Stdout, "OPENING"):
				// refused by the runtime, loudly: not a disk
				r.Eval(1)
				r.Count("open_size_cases", 1)
				count("refused (the runtime's out-of-memory report ends the process)")
			case strings.Contains(res.Stdout, "OPENING") && (strings.Contains(res.Stderr, "fatal error:") || strings.Contains(res.Stderr, "panic:") || res.Signaled):
				r.Eval(1)
				r.Count("open_size_cases", 1)
				detail["child_stderr"] = tail09(res.Stderr, 3000)
				add("process-died-"+slug09(firstFatal(res.Stderr)), fmt.Sprintf("the process died (exit %d): %s", res.Code, tail09(firstFatal(res.Stderr), 200)))
			default:
				r.Inconclusive("open-size-child-failed")
				fmt.Fprintf(os.Stderr, "c09 open-size child %v: exit %d %s\n", args[2:5], res.Code, lastLines(res.Stderr, 4))
			}
			return
		}
		detail["observed"] = out
		r.Eval(1 + len(out.Probes))
		r.Count("open_size_cases", 1)
		r.Distinct(fmt.Sprintf("open-size/%s/%s/%d", cs.Flavour, cs.NText, cs.Prior))
		if out.Outcome != "ok" {
			count("refused (" + out.Outcome + ")")
			if kind == "file" && cs.Prior >= 0 {
				r.Count("open_size_refused_opens_with_the_existing_image_compared", 1)
				if !out.ImageSame {
					add("image-changed-by-refused-open", fmt.Sprintf("fails (%s: %s) but the existing image of %d bytes is %d bytes long afterwards / no longer byte-identical", out.Outcome, out.Err, cs.Prior*bs, out.ImageLen))
				}
			}
			if kind == "file" && cs.Prior < 0 {
				r.Count(fmt.Sprintf("open_size_noted_refused_open_of_an_absent_path_leaves_a_file=%v", out.ImageLen >= 0), 1)
			}
			return
		}
		count("opened")
		r.Count("open_size_successful_opens_probed", 1)
		if out.Size != cs.N {
			add("size-differs-from-request", fmt.Sprintf("succeeds and Size() = %d", out.Size))
		}
		if kind == "file" {
			hi, lo := bits.Mul64(cs.N, bs)
			if hi != 0 || lo >= 1<<63 || out.ImageLen != int64(lo) {
				add("success-with-an-image-of-another-length", fmt.Sprintf("succeeds (err = nil, Size() = %d) and the image is %d bytes long afterwards — %d blocks, not the %s requested (prior blocks intact: %v)",
					out.Size, out.ImageLen, out.ImageLen/bs, cs.NText, out.ImageSame))
			}
		}
		lengthWrong := len(pends[i]) > 0
		for _, p := range out.Probes {
			r.Count("open_size_probes", 1)
			if lengthWrong {
				continue // consequences of a disk that is not n blocks long: kept in the detail, not judged again
			}
			if p.Panic != "" || !p.OK {
				how := "gives other bytes than the model (" + p.Note + ")"
				if p.Panic != "" {
					how = "panics: " + p.Panic
				}
				add("opened-disk-"+p.What, fmt.Sprintf("succeeds, then the %s (address %d) %s", strings.ReplaceAll(p.What, "-", " "), p.Addr, how))
			}
		}
	})
	for _, ps := range pends {
		for _, p := range ps {
			r.Violate(p.sig, p.what, p.detail)
		}
	}
	r.Set("open_size_outcomes", outcomes)
	r.Set("open_size_cases_planned", len(cases))
}
