package diskp

import (
	"bytes"
	"encoding/json"
	"fmt"
	"os"
	"path/filepath"
	"regexp"
	"sort"
	"strconv"
	"strings"
	"sync"
	"time"

	"verif/core"
	"verif/props"
)

// C09, refusal layer: a refused operation (out-of-range address, wrong-sized
// write buffer: the library panics, the caller recovers) must leave the SAME
// disk object serving every later operation. The sequences run in a child
// process whose only goroutine is the one calling the library and which arms
// no timer, so that a later call that never returns is observed through the
// Go runtime's own "fatal error: all goroutines are asleep - deadlock!" (a
// property of the execution, not of the wall clock). The parent's generous
// wall-clock watchdog only ever yields "inconclusive".

func init() {
	props.Children["c09-refusal"] = c09RefusalChild
}

type c09refSeq struct {
	Idx   int     `json:"idx"`
	Class string  `json:"class"`
	Size  uint64  `json:"disk_size"`
	Ops   []c09op `json:"ops"`
	// NRefused is the number of leading/embedded operations the model refuses.
	NRefused int `json:"refused_ops"`
}

// refusedOps lists the refused operations for a disk of n blocks.
func refusedOps(n uint64) []c09op {
	var out []c09op
	for _, ac := range addrClasses(n) {
		if ac.a < n {
			continue
		}
		out = append(out, mkop(opRead, ac.a, ac.c), mkop(opReadTo, ac.a, ac.c), mkwrite(ac.a, ac.c, bs, 2, ac.a+3, 0))
	}
	// wrong-sized write buffers, in range and out of range
	for _, l := range c09wlens {
		if l == bs {
			continue
		}
		if n > 0 {
			out = append(out, mkwrite(0, "0", l, 3, uint64(l)+9, 0), mkwrite(n-1, "size-1", l, 1, 0, 0))
		}
		out = append(out, mkwrite(n, "size", l, 2, uint64(l), 0))
	}
	return out
}

// followUps: every operation kind on the same object after the refusal; the
// written values are read back so that the model comparison also covers
// "the refusal changed nothing and later writes still land".
func followUps(n uint64, salt uint64) []c09op {
	var ops []c09op
	ops = append(ops, mkop(opSize, 0, ""), mkop(opBarrier, 0, ""))
	if n > 0 {
		last := n - 1
		ops = append(ops,
			mkop(opRead, 0, "0"), mkop(opReadTo, last, "size-1"),
			mkwrite(0, "0", bs, 2, salt*7+1, 0), mkop(opRead, 0, "0"),
			mkwrite(last, "size-1", bs, 3, salt*13+5, 1), mkop(opReadTo, last, "size-1"),
			mkop(opBarrier, 0, ""), mkwrite(0, "0", bs, 1, 0, 1), mkop(opReadTo, 0, "0"), mkop(opSize, 0, ""))
	}
	return ops
}

// c09RefusalSequences is a function of the seed only. Directed part: every
// refused operation followed by every operation kind; pairs of refusals; a
// refusal between writes. Seeded part: random mixtures.
func c09RefusalSequences(seed int64, nrand int) []c09refSeq {
	var out []c09refSeq
	add := func(class string, n uint64, ops []c09op) {
		m := &c09model{blocks: make([][bs]byte, n)}
		nr := 0
		for _, o := range ops {
			if m.apply(o).Panic {
				nr++
			}
		}
		out = append(out, c09refSeq{Idx: len(out), Class: class, Size: n, Ops: ops, NRefused: nr})
	}
	for _, n := range []uint64{0, 1, 3} {
		rs := refusedOps(n)
		for i, r := range rs {
			// refused first thing on a fresh object
			add("refused-then-every-kind", n, append([]c09op{r}, followUps(n, uint64(i))...))
			// refused after the object has been written
			if n > 0 {
				pre := []c09op{mkwrite(n-1, "size-1", bs, 2, uint64(i)+40, 0), mkop(opRead, n-1, "size-1")}
				add("written-refused-then-every-kind", n, append(append(pre, r), followUps(n, uint64(i)+100)...))
			}
		}
		// two different refusals in a row, then every kind
		for i := 0; i < len(rs); i++ {
			j := (i*7 + 3) % len(rs)
			add("two-refusals-then-every-kind", n, append([]c09op{rs[i], rs[j]}, followUps(n, uint64(i)+200)...))
		}
		// refusals alternating with accepted operations
		if n > 0 {
			for i := 0; i+2 < len(rs); i += 3 {
				ops := []c09op{rs[i], mkwrite(0, "0", bs, 3, uint64(i)+1, 0), rs[i+1], mkop(opRead, 0, "0"), rs[i+2],
					mkwrite(n-1, "size-1", bs, 2, uint64(i)+2, 1), mkop(opReadTo, n-1, "size-1"), rs[i], mkop(opBarrier, 0, ""), mkop(opSize, 0, ""),
					mkwrite(0, "0", bs, 1, 0, 0), mkop(opRead, 0, "0")}
				add("refusals-alternating-with-accepted", n, ops)
			}
		}
	}
	for k := 0; k < nrand; k++ {
		rng := core.NewRng(seed, "c09/refusal/"+strconv.Itoa(k))
		n := []uint64{1, 2, 3, 7}[rng.Intn(4)]
		rs := refusedOps(n)
		var ops []c09op
		for i := 0; i < 4+rng.Intn(12); i++ {
			if rng.Chance(40) {
				ops = append(ops, rs[rng.Intn(len(rs))])
				continue
			}
			a := rng.U64() % n
			switch rng.Intn(5) {
			case 0:
				ops = append(ops, mkop(opRead, a, "random-in"))
			case 1:
				ops = append(ops, mkop(opReadTo, a, "random-in"))
			case 2:
				ops = append(ops, mkop(opSize, 0, ""))
			case 3:
				ops = append(ops, mkop(opBarrier, 0, ""))
			default:
				ops = append(ops, mkwrite(a, "random-in", bs, rng.Intn(4), rng.U64(), rng.Intn(2)))
			}
		}
		ops = append(ops, followUps(n, uint64(k)+1000)...)
		add("random-mixture", n, ops)
	}
	return out
}

func opText(o c09op) string {
	switch o.Kind {
	case opWrite:
		return fmt.Sprintf("Write(%d, %d-byte buffer)", o.Addr, o.Len)
	case opRead, opReadTo:
		return fmt.Sprintf("%s(%d)", o.Name, o.Addr)
	}
	return o.Name + "()"
}

// c09RefusalChild: vcheck child c09-refusal <cfg index> <seed> <nrand> <first sequence> <image dir>
//
// Protocol on stdout (written unbuffered, one write per line, BEFORE the call
// it announces): "SEQ <idx>", "STEP <idx> <i> <refused|accepted> <text>",
// "VIOL <json>", "DONE <json counts>". No goroutine is started and no timer is
// armed by this function.
func c09RefusalChild(args []string) int {
	if len(args) < 5 {
		fmt.Fprintln(os.Stderr, "c09-refusal: cfg seed nrand first dir")
		return 2
	}
	ci, _ := strconv.Atoi(args[0])
	seed, _ := strconv.ParseInt(args[1], 10, 64)
	nrand, _ := strconv.Atoi(args[2])
	first, _ := strconv.Atoi(args[3])
	dir := args[4]
	if ci < 0 || ci >= len(c09cfgs) {
		return 2
	}
	c := c09cfgs[ci]
	os.MkdirAll(dir, 0o755)
	say := func(f string, a ...interface{}) { os.Stdout.WriteString(fmt.Sprintf(f, a...) + "\n") }
	counts := map[string]int64{}
	classes := map[string]int64{}
	seqs := c09RefusalSequences(seed, nrand)
	seenSig := map[string]bool{}
	for _, s := range seqs {
		if s.Idx < first {
			continue
		}
		say("SEQ %d", s.Idx)
		path := filepath.Join(dir, c.Name+".img")
		d, err := openCfg(c, path, s.Size)
		if err != nil {
			fmt.Fprintf(os.Stderr, "open %s: %v\n", c.Name, err)
			return 2
		}
		m := &c09model{blocks: make([][bs]byte, s.Size)}
		pool := [2][]byte{nil, make([]byte, bs)}
		refusedSoFar := 0
		lastRefused := ""
		viol := func(step int, o c09op, kind, what string) {
			sig := fmt.Sprintf("lockstep-%s-%s-%s-after-refusal", c.Name, o.Name, kind)
			if refusedSoFar == 0 {
				sig = fmt.Sprintf("lockstep-%s-%s-%s", c.Name, o.Name, kind)
			}
			if seenSig[sig] {
				return
			}
			seenSig[sig] = true
			b, _ := json.Marshal(c09viol{Sig: sig, What: fmt.Sprintf("%s, disk of %d blocks, refusal sequence %d step %d (after %d refused operation(s), last %s): %s", c.Name, s.Size, s.Idx, step, refusedSoFar, lastRefused, what),
				Detail: map[string]interface{}{"config": c.Name, "sequence": s, "failing_step": step,
					"replay": "open a fresh disk of disk_size blocks in the named configuration and apply ops in order on that one object, recovering each panic (Write buffers = fillPattern(pattern, pattern_seed) of buf_len bytes)"}})
			say("VIOL %s", b)
		}
		for i, o := range s.Ops {
			exp := m.apply(o)
			kind := "accepted"
			if exp.Panic {
				kind = "refused"
			}
			say("STEP %d %d %s %s", s.Idx, i, kind, opText(o))
			var got []byte
			var gotSize uint64
			var p bool
			switch o.Kind {
			case opRead:
				var b []byte
				p, _ = callPanics(func() { b = d.read(o.Addr) })
				if !p {
					got = append([]byte(nil), b...)
					scribble(b)
				}
			case opReadTo:
				b := make([]byte, bs)
				fillPattern(b, 3, o.Addr^0xA5)
				if exp.Data != nil {
					for k := range b {
						b[k] = exp.Data[k] ^ (b[k] | 1)
					}
				}
				p, _ = callPanics(func() { d.readTo(o.Addr, b) })
				if !p {
					got = b
				}
			case opWrite:
				w := pool[0]
				if o.Len == bs && o.Reuse == 1 {
					w = pool[1]
				} else {
					w = make([]byte, o.Len)
				}
				fillPattern(w, o.Pat, o.PSeed)
				p, _ = callPanics(func() { d.write(o.Addr, w) })
				scribble(w)
			case opSize:
				p, _ = callPanics(func() { gotSize = d.size() })
			case opBarrier:
				p, _ = callPanics(func() { d.barrier() })
			}
			counts["calls"]++
			if refusedSoFar > 0 {
				counts["calls_after_a_refusal_on_the_same_object"]++
				classes[fmt.Sprintf("%s after refused %s -> %s", o.Name, lastRefused, map[bool]string{true: "refused", false: "served"}[p])]++
			}
			switch {
			case exp.Panic && !p:
				viol(i, o, "missing-panic", opText(o)+" returned normally; the model refuses it")
			case !exp.Panic && p:
				viol(i, o, "unexpected-panic", opText(o)+" panicked; the model accepts it")
			case exp.Panic:
				counts["refusals_observed"]++
			case o.Kind == opRead || o.Kind == opReadTo:
				if !bytes.Equal(got, exp.Data[:]) {
					off := firstDiff(exp.Data[:], got)
					viol(i, o, "wrong-data", fmt.Sprintf("%s returned a block differing from the last value written there (first difference at offset %d: want %s got %s)", opText(o), off, hexAround(exp.Data[:], off), hexAround(got, off)))
				} else {
					counts["blocks_compared"]++
				}
			case o.Kind == opSize:
				if gotSize != exp.Size {
					viol(i, o, "wrong-size", fmt.Sprintf("Size() = %d on a disk created with %d blocks", gotSize, exp.Size))
				}
			}
			if exp.Panic {
				refusedSoFar++
				lastRefused = o.Name
				if o.Kind == opWrite && o.Len != bs {
					lastRefused = "Write-wrong-length"
				}
			}
		}
		callPanics(func() { d.close() })
		if c.File {
			os.Remove(path)
		}
		counts["sequences"]++
	}
	b, _ := json.Marshal(map[string]interface{}{"counts": counts, "classes": classes})
	say("DONE %s", b)
	return 0
}

var c09RepoFrameRe = regexp.MustCompile(`(?m)^github\.com/goose-lang/goose/machine/[a-z_]+\.(\(?\*?[A-Za-z]+\)?\.?[A-Za-z]*)`)

// c09DeadlockFrame names the innermost /repo function on the stack of the
// (only) goroutine in a runtime deadlock report.
func c09DeadlockFrame(stderr string) string {
	m := c09RepoFrameRe.FindStringSubmatch(stderr)
	if m == nil {
		return "unknown-frame"
	}
	return strings.NewReplacer("(", "", ")", "", "*", "").Replace(m[1])
}

const goDeadlockMsg = "all goroutines are asleep - deadlock!"

// c09Refusal runs the refusal layer: one child per configuration (the global
// wrappers use process-wide state), restarted after the sequence that killed
// it so that the remaining sequences are still observed.
func c09Refusal(r *core.Run) {
	self, err := os.Executable()
	if err != nil {
		r.Inconclusive("no-self-executable")
		return
	}
	nrand := r.Pick(40, 2000)
	total := len(c09RefusalSequences(r.Seed, nrand))
	var mu sync.Mutex
	classes := map[string]int64{}
	var cmds []string
	type pend struct {
		sig, what string
		detail    interface{}
	}
	pends := make([][]pend, len(c09cfgs))
	core.Parallel(len(c09cfgs), 8, func(ci int) {
		c := c09cfgs[ci]
		first := 0
		for restart := 0; restart < 6 && first < total; restart++ {
			dir := filepath.Join(r.Scratch, fmt.Sprintf("c09r%d", ci))
			args := []string{"child", "c09-refusal", strconv.Itoa(ci), strconv.FormatInt(r.Seed, 10), strconv.Itoa(nrand), strconv.Itoa(first), dir}
			mu.Lock()
			cmds = append(cmds, self+" "+strings.Join(args, " "))
			mu.Unlock()
			res := core.Exec(r.Scratch, nil, 10*time.Minute, "", self, args...)
			lastSeq, lastStep := -1, ""
			done := false
			for _, l := range strings.Split(res.Stdout, "\n") {
				switch {
				case strings.HasPrefix(l, "SEQ "):
					lastSeq, _ = strconv.Atoi(strings.TrimPrefix(l, "SEQ "))
					lastStep = ""
				case strings.HasPrefix(l, "STEP "):
					lastStep = l
				case strings.HasPrefix(l, "VIOL "):
					var v c09viol
					if json.Unmarshal([]byte(strings.TrimPrefix(l, "VIOL ")), &v) == nil {
						pends[ci] = append(pends[ci], pend{v.Sig, v.What, v.Detail})
					}
				case strings.HasPrefix(l, "DONE "):
					done = true
				}
			}
			// what the child saw up to its end or death: count from its lines
			nsteps, nafter := int64(0), int64(0)
			seenRefusal := false
			for _, l := range strings.Split(res.Stdout, "\n") {
				if strings.HasPrefix(l, "SEQ ") {
					seenRefusal = false
				}
				if strings.HasPrefix(l, "STEP ") {
					nsteps++
					if seenRefusal {
						nafter++
					}
					f := strings.Fields(l)
					if len(f) > 3 && f[3] == "refused" {
						seenRefusal = true
					}
				}
			}
			if done {
				var d struct {
					Counts  map[string]int64 `json:"counts"`
					Classes map[string]int64 `json:"classes"`
				}
				for _, l := range strings.Split(res.Stdout, "\n") {
					if strings.HasPrefix(l, "DONE ") && json.Unmarshal([]byte(strings.TrimPrefix(l, "DONE ")), &d) == nil {
						r.Eval(int(d.Counts["calls"]))
						r.Count("refusal_calls/"+c.Name, d.Counts["calls"])
						r.Count("refusal_sequences_completed", d.Counts["sequences"])
						r.Count("refusal_calls_after_a_refusal_on_the_same_object", d.Counts["calls_after_a_refusal_on_the_same_object"])
						r.Count("refusal_refusals_observed", d.Counts["refusals_observed"])
						r.Count("refusal_blocks_compared", d.Counts["blocks_compared"])
						mu.Lock()
						for k, v := range d.Classes {
							classes[k] += v
						}
						mu.Unlock()
					}
				}
				break
			}
			r.Eval(int(nsteps))
			r.Count("refusal_calls/"+c.Name, nsteps)
			r.Count("refusal_calls_after_a_refusal_on_the_same_object", nafter)
			seqs := c09RefusalSequences(r.Seed, nrand)
			var cur interface{}
			if lastSeq >= 0 && lastSeq < len(seqs) {
				cur = seqs[lastSeq]
			}
			detail := map[string]interface{}{"config": c.Name, "sequence": cur, "last_call_announced_by_the_child": lastStep,
				"child_stderr": tail09(res.Stderr, 4000), "child_exit": res.Code, "command": self + " " + strings.Join(args, " "),
				"replay": "open a fresh disk in the named configuration and apply the sequence's ops in order on that one object, recovering each panic; the call announced last never returns"}
			switch {
			case res.TimedOut:
				// wall clock only: not a verdict
				r.Inconclusive("refusal-child-watchdog")
				fmt.Fprintf(os.Stderr, "c09 refusal child %s: watchdog after %s (sequence %d)\n", c.Name, lastStep, lastSeq)
			case strings.Contains(res.Stderr, goDeadlockMsg):
				f := strings.Fields(lastStep) // STEP idx i kind text...
				opName, refusedBefore := "unknown", "refusal"
				if len(f) >= 5 {
					opName = strings.SplitN(f[4], "(", 2)[0]
				}
				if cs, ok := cur.(c09refSeq); ok {
					// the refused operation preceding the stuck call
					m := &c09model{blocks: make([][bs]byte, cs.Size)}
					stuck := -1
					if len(f) >= 3 {
						stuck, _ = strconv.Atoi(f[2])
					}
					for i, o := range cs.Ops {
						if i >= stuck && stuck >= 0 {
							break
						}
						if m.apply(o).Panic {
							refusedBefore = "refused-" + o.Name
						}
					}
				}
				r.Count("refusal_runtime_deadlock_reports", 1)
				pends[ci] = append(pends[ci], pend{
					fmt.Sprintf("lockstep-%s-%s-never-returns-after-%s", c.Name, opName, refusedBefore),
					fmt.Sprintf("%s, refusal sequence %d: %s on the same disk object after a %s never returns — the Go runtime reports '%s' with the only goroutine blocked in %s (the child runs no other goroutine and arms no timer)",
						c.Name, lastSeq, strings.Join(f[min(4, len(f)):], " "), refusedBefore, goDeadlockMsg, c09DeadlockFrame(res.Stderr)),
					detail})
			default:
				cls := "exit-" + strconv.Itoa(res.Code)
				if m := regexp.MustCompile(`(?m)^(fatal error|panic): (.*)$`).FindStringSubmatch(res.Stderr); m != nil {
					cls = slug09(m[2])
				}
				pends[ci] = append(pends[ci], pend{fmt.Sprintf("refusal-child-died-%s-%s", c.Name, cls),
					fmt.Sprintf("%s, refusal sequence %d: the process died during %q (exit %d): %s", c.Name, lastSeq, lastStep, res.Code, tail09(res.Stderr, 300)), detail})
			}
			if lastSeq < 0 || res.TimedOut {
				break
			}
			first = lastSeq + 1
		}
	})
	for _, ps := range pends {
		for _, p := range ps {
			r.Violate(p.sig, p.what, p.detail)
		}
	}
	var cl []string
	for k := range classes {
		cl = append(cl, k)
	}
	sort.Strings(cl)
	r.Set("refusal_sequences_per_configuration", total)
	r.Set("refusal_followup_classes", cl)
	r.Set("refusal_followup_classes_distinct", len(cl))
	r.Set("refusal_child_commands", cmds)
	for _, k := range cl {
		r.Distinct("refusal/" + k)
	}
}

func tail09(s string, n int) string {
	if len(s) > n {
		return s[:n] + "…"
	}
	return s
}

func slug09(s string) string {
	var b strings.Builder
	for _, c := range strings.ToLower(s) {
		if (c >= 'a' && c <= 'z') || (c >= '0' && c <= '9') {
			b.WriteRune(c)
		} else if b.Len() > 0 && !strings.HasSuffix(b.String(), "-") {
			b.WriteByte('-')
		}
		if b.Len() > 48 {
			break
		}
	}
	return strings.Trim(b.String(), "-")
}
