package diskp

// C10, neighbouring-first-writes layer ("group" family).
//
// The plain and the shaped C10 workloads keep two things constant: the disk is
// always a brand-new one that is hammered on one to three hot addresses, and an
// address is written many times. This layer varies
//
//   - HOW THE DISK CAME INTO BEING: MemDisk new / new and written once before;
//     FileDisk on a path that does not exist, on an empty file, on an existing
//     image of exactly the requested size, on a shorter one (grown), on a longer
//     one (cut down), on an image the library itself made, wrote and closed
//     (reopened), and on one it made with half the blocks (reopened and grown);
//     the blocks of an existing image carry a per-address pattern;
//   - THE ADDRESS PATTERN OF CONCURRENT WRITES: in a round G goroutines (2, 8 or
//     16) write the W (8, 64 or 512) blocks of one group of neighbouring
//     addresses, every block exactly once in the whole life of the disk, block i
//     of the group by goroutine i mod G at step i div G — neighbours are
//     written by different goroutines at the same moment. Groups start on a
//     multiple of W or at an odd offset; the disk has dozens to thousands of
//     blocks; all goroutines are released together (spinning or parking
//     barrier), once per round or once per step.
//
// A round: optional reads of the group before anybody wrote it, barrier, the
// writes, barrier, concurrent read-back (every goroutine reads the blocks its
// neighbour wrote), barrier, read-back of the whole group by the main goroutine
// while nobody else uses the disk. After the last round of a disk the main
// goroutine reads every block of the disk (of a disk above 1024 blocks: the
// groups written, 64 blocks on either side of each, and both ends).
//
// Oracle (both implementations; from "operations on distinct addresses never
// interfere" and "operations ordered in real time on one address are observed
// in that order" / linearizability): every block is written at most once, and
// every read of it is separated from that write by a barrier. So a read that
// begins after the write of its address returned must return exactly that
// write's payload; a read that ended before it began, or of an address nobody
// writes, must return the block's initial content (zero, or the pattern of the
// existing image). The per-address histories are also given to porcupine
// against a register.
//
// Volume: the child compares every block it reads with the one expected value
// and writes out complete per-address histories (a) for every address with a
// deviating, torn or panicking operation and (b) for all addresses of a sample
// of rounds; the parent judges (a) and (b) from those recorded histories and
// counts the rest.

import (
	"bufio"
	"encoding/binary"
	"encoding/json"
	"fmt"
	"os"
	"path/filepath"
	"runtime"
	"sort"
	"strconv"
	"sync"
	"time"

	"verif/core"
	"verif/props"

	"github.com/anishathalye/porcupine"
	"github.com/goose-lang/goose/machine/async_disk"
	"github.com/goose-lang/goose/machine/disk"
)

func init() {
	props.Children["c10-group"] = c10GroupClient
}

// quick-tier volume of this layer (cases = disks) and its floors
const (
	c10GroupQuick         = 2400
	c10GroupPerChild      = 100
	c10GroupSampleEvery   = 17 // coprime to the period (8) of the flavours over the case index
	c10GroupFloorRounds   = 300
	c10GroupFloorReadBack = 20000
)

var (
	grFileModes = []string{"new-file", "empty-file", "existing-exact", "existing-shorter", "existing-longer", "reopened", "reopened-grown"}
	grMemModes  = []string{"new", "new-prewritten"}
	grWidths    = []int{8, 64, 512}
	grClients   = []int{2, 8, 16}
)

const grInitClient = 0xFFFE // stamps of the pattern an image held before the disk was opened

type grParams struct {
	Case    int      `json:"case"`
	Impl    string   `json:"impl"`
	Pkg     string   `json:"pkg"`
	Mode    string   `json:"creation_mode"`
	W       int      `json:"group_width"`
	G       int      `json:"goroutines"`
	N       uint64   `json:"disk_size"`
	Align   string   `json:"group_alignment"` // aligned | offset
	Groups  []uint64 `json:"group_starts"`    // one per round
	Sync    string   `json:"release"`         // round | step
	Barrier string   `json:"barrier"`         // spin | park
	PreRead string   `json:"reads_before"`    // none | own | neighbour
	Prior   uint64   `json:"prior_blocks"`    // blocks of the image that existed / were written before this disk was opened
}

// grGen: the case list is a function of the seed and the index only.
func grGen(seed int64, idx int) grParams {
	rng := core.NewRng(seed, "c10/group/"+strconv.Itoa(idx))
	p := grParams{Case: idx}
	// eight consecutive indices: three disk.FileDisk, three async_disk.FileDisk, one MemDisk of each package
	oct := idx % 8
	p.Impl = []string{"file", "mem", "file", "file", "file", "mem", "file", "file"}[oct]
	p.Pkg = []string{"disk", "disk", "async_disk", "disk", "async_disk", "async_disk", "disk", "async_disk"}[oct]
	rank := []int{0, 0, 1, 2, 3, 1, 4, 5}[oct] // rank among the file (mem) disks of the octet
	// the product creation mode × width × goroutines is walked systematically (a mixed-radix
	// counter over the index), everything else is drawn
	var k int
	if p.Impl == "mem" {
		k = idx / 8
		p.Mode = grMemModes[(k+rank)%len(grMemModes)]
		k /= len(grMemModes)
	} else {
		k = idx/8*6 + rank
		p.Mode = grFileModes[k%len(grFileModes)]
		k /= len(grFileModes)
	}
	p.W = grWidths[k%3]
	k /= 3
	p.G = grClients[k%3]
	if p.G > p.W {
		p.G = p.W
	}
	mult := []int{1, 1, 2, 2, 3, 4, 8, 16, 64}[rng.Intn(9)]
	p.N = uint64(p.W * mult)
	if p.N > 4096 {
		p.N = 4096
	}
	if rng.Chance(40) {
		p.N += uint64(rng.Intn(p.W)) // sizes that are no multiple of the width
	}
	if p.N < 16 {
		p.N = 16 + uint64(rng.Intn(48))
	}
	off := uint64(0)
	p.Align = "aligned"
	if rng.Chance(35) && p.N > uint64(p.W) {
		p.Align = "offset"
		off = 1 + uint64(rng.Intn(p.W-1))
		if off+uint64(p.W) > p.N {
			off = p.N - uint64(p.W)
		}
	}
	var starts []uint64
	for s := off; s+uint64(p.W) <= p.N; s += uint64(p.W) {
		starts = append(starts, s)
	}
	for i := len(starts) - 1; i > 0; i-- {
		j := rng.Intn(i + 1)
		starts[i], starts[j] = starts[j], starts[i]
	}
	rounds := 1 + rng.Intn(6)
	if p.W == 8 {
		rounds = 2 + rng.Intn(14) // small groups: several of them share whatever is kept per 64 or 512 blocks
	}
	if rounds > len(starts) {
		rounds = len(starts)
	}
	p.Groups = starts[:rounds]
	if rng.Chance(40) && rounds > 1 {
		sort.Slice(p.Groups, func(i, j int) bool { return p.Groups[i] < p.Groups[j] }) // ascending: group after group
	}
	p.Sync = []string{"round", "round", "step"}[rng.Intn(3)]
	p.Barrier = []string{"spin", "spin", "park"}[rng.Intn(3)]
	p.PreRead = []string{"none", "none", "own", "neighbour"}[rng.Intn(4)]
	switch p.Mode {
	case "new-prewritten", "existing-exact", "reopened":
		p.Prior = p.N
	case "existing-shorter", "reopened-grown":
		p.Prior = p.N / 2
	case "existing-longer":
		p.Prior = p.N // of the 2N blocks the image had, N remain
	}
	return p
}

// grInit is the stamp every word of block a holds before the rounds begin (0 = zero block).
func grInit(p *grParams, a uint64) uint64 {
	if a >= p.Prior {
		return 0
	}
	switch p.Mode {
	case "reopened":
		if a%3 != 0 {
			return 0 // the first life of the image wrote every third block
		}
	}
	return stampOf(a, grInitClient, 0)
}

// grOwner: block i of a group is written by goroutine i mod G at step i div G.
func grOwner(p *grParams, i int) (g, step int) { return i % p.G, i / p.G }

func fillBlock(b []byte, v uint64) {
	for i := 0; i+8 <= len(b); i += 8 {
		binary.LittleEndian.PutUint64(b[i:], v)
	}
}

// grOpen brings the disk into being the way p.Mode says.
func grOpen(p *grParams, path string) (disk.Disk, error) {
	if p.Impl == "mem" {
		var d disk.Disk
		if p.Pkg == "async_disk" {
			d = async_disk.NewMemDisk(p.N)
		} else {
			d = disk.NewMemDisk(p.N)
		}
		if p.Mode == "new-prewritten" {
			b := make([]byte, bs)
			for a := uint64(0); a < p.N; a++ {
				fillBlock(b, grInit(p, a))
				d.Write(a, b)
			}
		}
		return d, nil
	}
	open := func(n uint64) (disk.FileDisk, error) {
		if p.Pkg == "async_disk" {
			return async_disk.NewFileDisk(path, n)
		}
		return disk.NewFileDisk(path, n)
	}
	os.Remove(path)
	writeImage := func(blocks uint64) error {
		f, err := os.Create(path)
		if err != nil {
			return err
		}
		w := bufio.NewWriterSize(f, 1<<16)
		b := make([]byte, bs)
		for a := uint64(0); a < blocks; a++ {
			v := uint64(0)
			if a < p.N {
				v = grInit(p, a)
			} else {
				v = stampOf(a, grInitClient, 0) // beyond the disk: cut away at open
			}
			fillBlock(b, v)
			w.Write(b)
		}
		if err := w.Flush(); err != nil {
			f.Close()
			return err
		}
		return f.Close()
	}
	switch p.Mode {
	case "new-file":
	case "empty-file":
		if err := writeImage(0); err != nil {
			return nil, err
		}
	case "existing-exact":
		if err := writeImage(p.N); err != nil {
			return nil, err
		}
	case "existing-shorter":
		if err := writeImage(p.Prior); err != nil {
			return nil, err
		}
	case "existing-longer":
		if err := writeImage(2 * p.N); err != nil {
			return nil, err
		}
	case "reopened", "reopened-grown":
		d0, err := open(p.Prior)
		if err != nil {
			return nil, err
		}
		b := make([]byte, bs)
		for a := uint64(0); a < p.Prior; a++ {
			if v := grInit(p, a); v != 0 {
				fillBlock(b, v)
				d0.Write(a, b)
			}
		}
		d0.Close()
	}
	d, err := open(p.N)
	if err != nil {
		return nil, err
	}
	return d, nil
}

// grEv is one completed call. Ph: 'a' read before the writes of the round, 'w' the write,
// 'c' concurrent read-back, 'q' read-back by the main goroutine at the quiescent point of the
// round, 'f' the sweep over the whole disk after the last round.
type grEv struct {
	C    int      `json:"c"`
	K    string   `json:"k"` // r | t | w
	Ph   string   `json:"ph"`
	Rd   int      `json:"rd"`
	A    uint64   `json:"a"`
	T0   int64    `json:"t0"`
	T1   int64    `json:"t1"`
	V    uint64   `json:"v"`
	Torn []uint64 `json:"torn,omitempty"`
	P    string   `json:"p,omitempty"`
}

type grRound struct {
	Rd       int    `json:"rd"`
	Start    uint64 `json:"start"`
	Full     bool   `json:"full"` // Events holds every operation of the round (else only those on deviating addresses)
	Writes   int    `json:"writes"`
	Reads    int    `json:"reads"`           // reads of the round compared by the child
	ReadsOK  int    `json:"reads_ok"`        // … that returned the expected block
	MaxWT1   int64  `json:"max_write_t1"`    // latest return of a write of the round
	MinRT0   int64  `json:"min_readback_t0"` // earliest call of a read-back of the round
	MaxAT1   int64  `json:"max_before_t1"`   // latest return of a read before the writes
	MinWT0   int64  `json:"min_write_t0"`
	WOverlap int    `json:"write_overlaps"` // writes of the round that overlap the write of a neighbouring address (± 1)
	Events   []grEv `json:"events,omitempty"`
}

type grRecord struct {
	grParams
	GoMaxProcs int       `json:"gomaxprocs"`
	Rounds     []grRound `json:"rounds"`
	SweepReads int       `json:"sweep_reads"`
	SweepOK    int       `json:"sweep_ok"`
	Sweep      []grEv    `json:"sweep_events,omitempty"` // deviating addresses: their write (if any) and the sweep read
	Sampled    bool      `json:"sampled"`
}

func decodeGr(b []byte, ev *grEv) {
	var ce c10event
	decodeBlock(b, &ce)
	ev.V, ev.Torn, ev.P = ce.V, ce.Torn, ce.P
}

// c10GroupClient: vcheck child c10-group <seed> <first> <count> <sample-every> <dir> <out>
func c10GroupClient(args []string) int {
	if len(args) < 6 {
		fmt.Fprintln(os.Stderr, "c10-group: seed first count sample-every dir out")
		return 2
	}
	seed, _ := strconv.ParseInt(args[0], 10, 64)
	first, _ := strconv.Atoi(args[1])
	count, _ := strconv.Atoi(args[2])
	every, _ := strconv.Atoi(args[3])
	if every < 1 {
		every = 1
	}
	dir, out := args[4], args[5]
	os.MkdirAll(dir, 0o755)
	f, err := os.Create(out)
	if err != nil {
		fmt.Fprintln(os.Stderr, err)
		return 2
	}
	defer f.Close()
	wr := bufio.NewWriterSize(f, 1<<20)
	for k := 0; k < count; k++ {
		idx := first + k
		p := grGen(seed, idx)
		fmt.Fprintf(os.Stderr, "group case %d impl=%s pkg=%s mode=%s w=%d g=%d n=%d rounds=%d\n", idx, p.Impl, p.Pkg, p.Mode, p.W, p.G, p.N, len(p.Groups))
		rec, err := grRunCase(&p, filepath.Join(dir, fmt.Sprintf("g%d.img", idx)), idx%every == 0)
		if err != nil {
			fmt.Fprintln(os.Stderr, "harness: open disk:", err)
			return 2
		}
		b, _ := json.Marshal(rec)
		wr.Write(b)
		wr.WriteByte('\n')
		wr.Flush()
	}
	return 0
}

func grRunCase(p *grParams, path string, sampled bool) (*grRecord, error) {
	d, err := grOpen(p, path)
	if err != nil {
		return nil, err
	}
	G, W := p.G, p.W
	rec := &grRecord{grParams: *p, GoMaxProcs: runtime.GOMAXPROCS(0), Sampled: sampled}
	start := time.Now()
	// only the release of the writers is tight (spinning or parking, as the case says); the phase
	// boundaries park, so that nobody burns a processor while the main goroutine reads
	all := &spinBarrier{n: int32(G + 1), park: true, ch: make(chan struct{})}
	mid := &spinBarrier{n: int32(G), park: true, ch: make(chan struct{})}
	steps := &spinBarrier{n: int32(G), park: p.Barrier != "spin", ch: make(chan struct{})}
	evs := make([][]grEv, G+1) // per goroutine, events of the current round; index G = main
	do := func(c, rd int, ph byte, k byte, a uint64, wv uint64, wbuf, rbuf []byte) grEv {
		ev := grEv{C: c, K: string(rune(k)), Ph: string(rune(ph)), Rd: rd, A: a}
		func() {
			defer func() {
				if e := recover(); e != nil {
					ev.T1 = int64(time.Since(start))
					ev.P = fmt.Sprint(e)
				}
			}()
			switch k {
			case 'w':
				ev.V = wv
				fillBlock(wbuf, wv)
				ev.T0 = int64(time.Since(start))
				d.Write(a, wbuf)
				ev.T1 = int64(time.Since(start))
			case 'r':
				ev.T0 = int64(time.Since(start))
				b := d.Read(a)
				ev.T1 = int64(time.Since(start))
				decodeGr(b, &ev)
			case 't':
				fillBlock(rbuf, dirtyWord)
				ev.T0 = int64(time.Since(start))
				d.ReadTo(a, rbuf)
				ev.T1 = int64(time.Since(start))
				decodeGr(rbuf, &ev)
			}
		}()
		return ev
	}
	readKind := func(a uint64, c int) byte {
		if (a+uint64(c))%2 == 0 {
			return 'r'
		}
		return 't'
	}
	var wg sync.WaitGroup
	for g := 0; g < G; g++ {
		wg.Add(1)
		go func(g int) {
			defer wg.Done()
			wbuf, rbuf := make([]byte, bs), make([]byte, bs)
			for rd, gs := range p.Groups {
				my := evs[g][:0]
				if p.PreRead != "none" {
					who := g
					if p.PreRead == "neighbour" {
						who = (g + 1) % G
					}
					for i := who; i < W; i += G {
						a := gs + uint64(i)
						my = append(my, do(g, rd, 'a', readKind(a, g), a, 0, wbuf, rbuf))
					}
				}
				steps.wait() // nobody reads any more: the writers are released together
				seq := 0
				for i := g; i < W; i += G {
					if p.Sync == "step" && seq > 0 {
						steps.wait()
					}
					a := gs + uint64(i)
					my = append(my, do(g, rd, 'w', 'w', a, stampOf(a, g, rd), wbuf, rbuf))
					seq++
				}
				if p.Sync == "step" {
					// a goroutine with fewer blocks than the others (W no multiple of G) keeps the step barrier company
					for ; seq < (W+G-1)/G; seq++ {
						steps.wait()
					}
				}
				mid.wait() // every write of the round has returned
				nb := (g + 1) % G
				for i := nb; i < W; i += G {
					a := gs + uint64(i)
					my = append(my, do(g, rd, 'c', readKind(a, g), a, 0, wbuf, rbuf))
				}
				evs[g] = my
				all.wait() // concurrent read-back done: the main goroutine has the disk for itself
				all.wait() // main goroutine done
			}
		}(g)
	}
	written := map[uint64]grEv{} // address → its write
	wbuf, rbuf := make([]byte, bs), make([]byte, bs)
	for rd, gs := range p.Groups {
		all.wait() // concurrent read-back done
		my := evs[G][:0]
		for i := 0; i < W; i++ {
			a := gs + uint64(i)
			my = append(my, do(G, rd, 'q', readKind(a, G), a, 0, wbuf, rbuf))
		}
		evs[G] = my
		// judge the round (the other goroutines are waiting at the barrier; their slices are
		// published by it)
		rr := grRound{Rd: rd, Start: gs, Full: sampled && rd == 0, MinRT0: 1 << 62, MinWT0: 1 << 62}
		dev := map[uint64]bool{}
		type iv struct{ t0, t1 int64 }
		wiv := make([]iv, W)
		for c := 0; c <= G; c++ {
			for _, e := range evs[c] {
				switch e.Ph {
				case "w":
					rr.Writes++
					written[e.A] = e
					wiv[e.A-gs] = iv{e.T0, e.T1}
					if e.T1 > rr.MaxWT1 {
						rr.MaxWT1 = e.T1
					}
					if e.T0 < rr.MinWT0 {
						rr.MinWT0 = e.T0
					}
					if e.P != "" {
						dev[e.A] = true
					}
				case "a":
					rr.Reads++
					if e.T1 > rr.MaxAT1 {
						rr.MaxAT1 = e.T1
					}
					if e.P == "" && len(e.Torn) == 0 && e.V == grInit(p, e.A) {
						rr.ReadsOK++
					} else {
						dev[e.A] = true
					}
				default:
					rr.Reads++
					if e.T0 < rr.MinRT0 {
						rr.MinRT0 = e.T0
					}
					ow, _ := grOwner(p, int(e.A-gs))
					if e.P == "" && len(e.Torn) == 0 && e.V == stampOf(e.A, ow, rd) {
						rr.ReadsOK++
					} else {
						dev[e.A] = true
					}
				}
			}
		}
		for i := 0; i+1 < W; i++ {
			if wiv[i].t0 <= wiv[i+1].t1 && wiv[i+1].t0 <= wiv[i].t1 {
				rr.WOverlap++
			}
		}
		if rr.Full || len(dev) > 0 {
			// with a deviating address also the writes of its neighbours (± 4): what happened beside it
			near := map[uint64]bool{}
			for a := range dev {
				for x := a - 4; x != a+5; x++ {
					near[x] = true
				}
			}
			for c := 0; c <= G; c++ {
				for _, e := range evs[c] {
					if rr.Full || dev[e.A] || (near[e.A] && e.Ph == "w") {
						rr.Events = append(rr.Events, e)
					}
				}
			}
		}
		rec.Rounds = append(rec.Rounds, rr)
		all.wait()
	}
	wg.Wait()
	// sweep, nobody else is using the disk: every block of a disk of up to 1024 blocks; of a larger
	// one the groups written, 64 blocks on either side of each, and both ends
	inSweep := func(a uint64) bool {
		if p.N <= 1024 || a < 64 || a+64 >= p.N {
			return true
		}
		for _, gs := range p.Groups {
			if a+64 >= gs && a < gs+uint64(W)+64 {
				return true
			}
		}
		return false
	}
	for a := uint64(0); a < p.N; a++ {
		if !inSweep(a) {
			continue
		}
		e := do(G, len(p.Groups), 'f', readKind(a, G), a, 0, wbuf, rbuf)
		rec.SweepReads++
		want := grInit(p, a)
		w, isW := written[a]
		if isW {
			want = w.V
		}
		if e.P == "" && len(e.Torn) == 0 && e.V == want {
			rec.SweepOK++
			continue
		}
		if isW {
			rec.Sweep = append(rec.Sweep, w)
		}
		rec.Sweep = append(rec.Sweep, e)
	}
	func() {
		defer func() { recover() }()
		d.Close()
	}()
	if p.Impl == "file" {
		os.Remove(path)
	}
	return rec, nil
}

// ---------------------------------------------------------------- checker

func describeGrEv(e *grEv) string {
	name := map[string]string{"r": "Read", "t": "ReadTo", "w": "Write"}[e.K]
	who := fmt.Sprintf("goroutine %d", e.C)
	switch e.Ph {
	case "q":
		who = "main goroutine (every other goroutine waits at the barrier)"
	case "f":
		who = "main goroutine, sweep after the last round"
	case "a":
		who += ", before the writes of the round"
	case "c":
		who += ", concurrent read-back"
	}
	s := fmt.Sprintf("[%d,%d] round %d %s: %s(%d)", e.T0, e.T1, e.Rd, who, name, e.A)
	switch {
	case e.P != "":
		s += " PANIC " + e.P
	case e.K == "w":
		s += " value " + describeGrStamp(e.V)
	case len(e.Torn) > 0:
		s += " -> TORN {"
		for i, w := range e.Torn {
			if i > 0 {
				s += ", "
			}
			s += describeGrStamp(w)
		}
		s += "}"
	default:
		s += " -> " + describeGrStamp(e.V)
	}
	return s
}

func describeGrStamp(s uint64) string {
	if a, ok := stampAddr(s); ok && s>>56 == 0 && int(s>>24&0xFFFF)-1 == grInitClient {
		return fmt.Sprintf("pattern-of-the-existing-image(addr=%d)", a)
	}
	return describeStamp(s)
}

func (ck *c10checker) grDetail(rec *grRecord, a uint64, evs []*grEv, extra map[string]interface{}) map[string]interface{} {
	var lines []string
	for _, e := range evs {
		lines = append(lines, describeGrEv(e))
	}
	d := map[string]interface{}{
		"seed": ck.r.Seed, "group_case_index": rec.Case, "impl": rec.Impl, "package": rec.Pkg, "creation_mode": rec.Mode,
		"disk_size": rec.N, "group_width": rec.W, "goroutines": rec.G, "group_alignment": rec.Align, "group_starts_by_round": rec.Groups,
		"release": rec.Sync, "barrier": rec.Barrier, "reads_before_the_writes": rec.PreRead, "gomaxprocs": rec.GoMaxProcs,
		"address": a, "events_on_address_by_call_time": lines,
		"writer_rule":  "block i of a group is written exactly once, by goroutine i mod G at its step i div G, with the stamp (address, goroutine, round) in all 512 words",
		"initial_rule": "blocks below prior_blocks hold pattern-of-the-existing-image(addr) (mode reopened: every third block only), all others are zero",
		"prior_blocks": rec.Prior,
		"replay":       fmt.Sprintf("vcheck child c10-group %d %d 1 1 <dir> <out>  (the case is a function of seed and index; the schedule is not reproducible)", ck.r.Seed, rec.Case),
	}
	for k, v := range extra {
		d[k] = v
	}
	return d
}

// checkGroup judges one recorded case.
func (ck *c10checker) checkGroup(rec *grRecord) {
	r := ck.r
	impl := rec.Impl
	pfx := map[string]string{"mem": "memdisk", "file": "filedisk"}[impl]
	flavour := rec.Pkg + "." + map[string]string{"mem": "MemDisk", "file": "FileDisk"}[impl]
	r.Count("group_disks", 1)
	r.Count("group_disks_"+flavour, 1)
	r.Count("group_disks_"+impl+"_created_"+rec.Mode, 1)
	r.Count(fmt.Sprintf("group_disks_gomaxprocs_%d", rec.GoMaxProcs), 1)
	r.Count(fmt.Sprintf("group_disks_size_%s", sizeClass(rec.N)), 1)
	r.Count("group_sweep_reads", int64(rec.SweepReads))
	r.Count("group_sweep_reads_returned_expected_block", int64(rec.SweepOK))
	r.Eval(rec.SweepReads)
	p := &rec.grParams
	byAddr := map[uint64][]*grEv{}
	fullAddr := map[uint64]bool{}
	for ri := range rec.Rounds {
		rr := &rec.Rounds[ri]
		r.Count("group_rounds", 1)
		r.Count("group_rounds_"+impl, 1)
		r.Count(fmt.Sprintf("group_rounds_width_%d_goroutines_%d", rec.W, rec.G), 1)
		r.Count("group_rounds_"+impl+"_created_"+rec.Mode, 1)
		r.Count("group_rounds_release_per_"+rec.Sync+"_"+rec.Barrier, 1)
		r.Count("group_rounds_groups_"+rec.Align, 1)
		r.Count("group_blocks_written_once", int64(rr.Writes))
		r.Count("group_blocks_written_once_"+impl, int64(rr.Writes))
		r.Count("group_round_reads", int64(rr.Reads))
		r.Count("group_round_reads_returned_expected_block", int64(rr.ReadsOK))
		r.Count("group_writes_overlapping_the_write_of_the_next_address_"+impl, int64(rr.WOverlap))
		r.Eval(rr.Writes + rr.Reads)
		if rr.WOverlap > 0 {
			r.Distinct(fmt.Sprintf("group/%s/%s/w%d/g%d/%s/%s/%s", flavour, rec.Mode, rec.W, rec.G, rec.Align, rec.Sync, sizeClass(rec.N)))
		}
		if rr.Writes > 0 && (rr.MaxWT1 >= rr.MinRT0 || (rr.MaxAT1 > 0 && rr.MaxAT1 >= rr.MinWT0)) {
			// cannot happen: the phases are separated by barriers and the clock is monotonic
			r.Inconclusive("group-phases-not-separated-by-timestamps")
			continue
		}
		if rr.Full {
			r.Count("group_rounds_recorded_in_full", 1)
		}
		for i := range rr.Events {
			e := &rr.Events[i]
			byAddr[e.A] = append(byAddr[e.A], e)
			if rr.Full {
				fullAddr[e.A] = true
			}
		}
	}
	for i := range rec.Sweep {
		e := &rec.Sweep[i]
		if e.Ph == "w" {
			if len(byAddr[e.A]) > 0 {
				continue // the round's record already holds the write
			}
		}
		byAddr[e.A] = append(byAddr[e.A], e)
	}
	addrs := make([]uint64, 0, len(byAddr))
	for a := range byAddr {
		addrs = append(addrs, a)
	}
	sort.Slice(addrs, func(i, j int) bool { return addrs[i] < addrs[j] })
	sampledOne := false
	for _, a := range addrs {
		evs := byAddr[a]
		sort.SliceStable(evs, func(i, j int) bool { return evs[i].T0 < evs[j].T0 })
		var nb []string
		for x := a - 4; x != a+5; x++ {
			for _, e := range byAddr[x] {
				if x != a && e.K == "w" {
					nb = append(nb, describeGrEv(e))
				}
			}
		}
		beside := map[string]interface{}{"writes_of_the_neighbouring_addresses": nb}
		var w *grEv
		for _, e := range evs {
			if e.K == "w" {
				w = e
			}
		}
		refuted := false
		for _, e := range evs {
			if e.P != "" {
				refuted = true
				r.Violate(pfx+"-unexpected-panic", fmt.Sprintf("%s (%s, created as %s): in-range %s panicked", impl, flavour, rec.Mode, describeGrEv(e)), ck.grDetail(rec, a, evs, beside))
				continue
			}
			if e.K == "w" {
				continue
			}
			want, after := grInit(p, a), false
			if w != nil && w.T1 < e.T0 {
				want, after = w.V, true
			} else if w != nil && !(e.T1 < w.T0) {
				continue // overlaps the write: not produced by this layer
			}
			if len(e.Torn) == 0 && e.V == want {
				continue
			}
			refuted = true
			r.Count("group_reads_refuted_"+impl, 1)
			words := e.Torn
			if len(words) == 0 {
				words = []uint64{e.V}
			}
			foreign := uint64(0)
			for _, wd := range words {
				if sa, ok := stampAddr(wd); wd != 0 && (!ok || sa != a) {
					foreign = wd
				}
			}
			ctx := fmt.Sprintf("%s of %d blocks created as %q; round %d: %d goroutines released together write the %d neighbouring blocks %d..%d once each (block i by goroutine i mod %d)",
				flavour, rec.N, rec.Mode, e.Rd, rec.G, rec.W, rec.Groups[min(e.Rd, len(rec.Groups)-1)], rec.Groups[min(e.Rd, len(rec.Groups)-1)]+uint64(rec.W)-1, rec.G)
			switch {
			case foreign != 0:
				r.Violate(pfx+"-interference", fmt.Sprintf("%s: %s contains %s, which was never written to address %d (%s)", impl, describeGrEv(e), describeGrStamp(foreign), a, ctx), ck.grDetail(rec, a, evs, beside))
			case len(e.Torn) > 0:
				r.Violate(pfx+"-settled-read-is-no-written-block", fmt.Sprintf("%s: %s overlaps no write to address %d, yet mixes several values (%s)", impl, describeGrEv(e), a, ctx), ck.grDetail(rec, a, evs, beside))
			case after:
				r.Violate(pfx+"-write-beside-concurrent-neighbour-writes-returned-but-not-visible",
					fmt.Sprintf("%s: %s returned and %s, which began afterwards and overlaps no write to address %d, returned the content the block had BEFORE that write (%s). %s", impl, describeGrEv(w), describeGrEv(e), a, describeGrStamp(e.V), ctx),
					ck.grDetail(rec, a, evs, beside))
			default:
				r.Violate(pfx+"-unwritten-block-changed-beside-neighbour-writes",
					fmt.Sprintf("%s: %s of a block that nobody has written yet returned %s instead of its initial content %s (%s)", impl, describeGrEv(e), describeGrStamp(e.V), describeGrStamp(want), ctx),
					ck.grDetail(rec, a, evs, beside))
			}
			break
		}
		if refuted {
			continue
		}
		// porcupine on the recorded per-address history (register initialised with the block's initial content)
		init := grInit(p, a)
		model := registerModel
		model.Init = func() interface{} { return init }
		ops := make([]porcupine.Operation, 0, len(evs))
		for _, e := range evs {
			op := porcupine.Operation{ClientId: e.C, Call: e.T0, Return: e.T1}
			if e.K == "w" {
				op.Input, op.Output = regInput{true, e.V}, uint64(0)
			} else {
				if len(e.Torn) > 0 {
					continue
				}
				op.Input, op.Output = regInput{false, 0}, e.V
			}
			ops = append(ops, op)
		}
		switch porcupine.CheckOperationsTimeout(model, ops, 30*time.Second) {
		case porcupine.Ok:
			r.Count("porcupine_ok", 1)
			r.Count("group_per_address_histories_porcupine_ok_"+impl, 1)
			if !sampledOne && fullAddr[a] && len(evs) >= 3 {
				sampledOne = true
				var lines []string
				for _, e := range evs {
					lines = append(lines, describeGrEv(e))
				}
				ck.sampleGroup(impl, map[string]interface{}{"layer": "group", "flavour": flavour, "creation_mode": rec.Mode, "disk_size": rec.N, "group_width": rec.W,
					"goroutines": rec.G, "release": rec.Sync, "gomaxprocs": rec.GoMaxProcs, "group_case_index": rec.Case, "address": a, "porcupine": "ok", "events_ns": lines})
			}
		case porcupine.Illegal:
			r.Count("porcupine_illegal", 1)
			r.Violate(pfx+"-nonlinearizable", fmt.Sprintf("%s: the %d operations on address %d of group case %d admit no linearization against a register", impl, len(evs), a, rec.Case), ck.grDetail(rec, a, evs, beside))
		default:
			r.Count("porcupine_unknown", 1)
			r.Inconclusive("porcupine-timeout")
		}
	}
}

func sizeClass(n uint64) string {
	switch {
	case n < 64:
		return "below_64"
	case n < 512:
		return "64_to_511"
	case n < 2048:
		return "512_to_2047"
	}
	return "2048_and_more"
}

// sampleGroup keeps two written-out per-address histories per implementation.
func (ck *c10checker) sampleGroup(impl string, v interface{}) {
	ck.mu.Lock()
	defer ck.mu.Unlock()
	if ck.sampled == nil {
		ck.sampled, ck.sampledH = map[string]int{}, map[int]bool{}
	}
	if ck.sampled[impl+"-group"] >= 2 {
		return
	}
	ck.sampled[impl+"-group"]++
	ck.r.Sample(16, v)
}
