package diskp

import (
	"bytes"
	"encoding/json"
	"fmt"
	"os"
	"sort"
	"strconv"
	"strings"
	"time"

	"verif/core"
	"verif/props"
)

// C09, dimension "LENGTH of the buffer handed to ReadTo" (readto_len_* keys).
//
// Every other C09 workload calls ReadTo with a 4096-byte buffer. The statement
// pins two things about other lengths only indirectly: out-of-range addresses
// are refused whatever the buffer is, and "for every operation sequence the
// in-memory and file-backed disks, through either package and through the
// global wrappers, return identical results". So this family is a pure
// EQUIVALENCE family: one ReadTo(a, buf) with
//
//	len(buf)  nil, 0, 1, 4095, 4096, 4097, 8192 and seeded lengths below one,
//	          between one and two, and above two blocks
//	cap(buf)  len, or len + 4096 (the bytes between len and cap are watched too)
//	a         0, size-1, a seeded in-range address | size, size+1, 2^32, 2^63, 2^64-1
//
// is made on all eight configurations ({disk, async_disk} x {Mem, File} x
// {methods, global wrappers}) over identical, fully written disks, into
// identical dirty buffers. Observed per configuration: panic or not (occurrence,
// never the message: FileDisk checks the length first and MemDisk the address
// first, so ReadTo(size, 3-byte buffer) fails with different texts on the two —
// both refuse, which is all that is compared) and every byte of the backing
// array afterwards. All eight observations must be equal. What the model adds:
// an out-of-range address is refused for every length; a 4096-byte buffer and an
// in-range address give the block; no call changes the disk (read back at the
// end of every case group).

func init() {
	props.Children["c09-readto-len"] = c09ReadToLenChild
}

type c09rtCase struct {
	Idx      int    `json:"idx"`
	Size     uint64 `json:"disk_size"`
	Addr     uint64 `json:"addr"`
	AClass   string `json:"addr_class"`
	InRange  bool   `json:"addr_in_range"`
	Nil      bool   `json:"nil_buffer"`
	Len      int    `json:"buf_len"`
	Cap      int    `json:"buf_cap"`
	LenClass string `json:"buf_len_class"`
}

func c09rtLenClass(isNil bool, l int) string {
	switch {
	case isNil:
		return "nil"
	case l == 0:
		return "empty"
	case l < bs:
		return "shorter-than-a-block"
	case l == bs:
		return "one-block"
	default:
		return "longer-than-a-block"
	}
}

// c09ReadToLenCases is a function of the seed only; the directed part comes
// first and goes from small to large, so that the first failing case of a
// signature is a minimal one.
func c09ReadToLenCases(seed int64) []c09rtCase {
	rng := core.NewRng(seed, "c09/readto-len")
	type ln struct {
		isNil bool
		l     int
	}
	lens := []ln{{true, 0}, {false, 0}, {false, 1}, {false, 4095}, {false, 4096}, {false, 4097}, {false, 8192}}
	for i := 0; i < 2; i++ {
		lens = append(lens, ln{false, 2 + rng.Intn(4093)}, ln{false, 4098 + rng.Intn(4093)}, ln{false, 8193 + rng.Intn(8192)})
	}
	var out []c09rtCase
	for _, n := range []uint64{1, 4, 7} {
		type ad struct {
			c string
			a uint64
		}
		addrs := []ad{{"0", 0}, {"size-1", n - 1}}
		if n > 2 {
			addrs = append(addrs, ad{"random-in", 1 + rng.U64()%(n-2)})
		}
		addrs = append(addrs, ad{"size", n}, ad{"size+1", n + 1}, ad{"2^32", 1 << 32}, ad{"2^63", 1 << 63}, ad{"2^64-1", ^uint64(0)})
		for _, l := range lens {
			for _, a := range addrs {
				for _, extra := range []int{0, bs} {
					if l.isNil && extra != 0 {
						continue
					}
					out = append(out, c09rtCase{Idx: len(out), Size: n, Addr: a.a, AClass: a.c, InRange: a.a < n, Nil: l.isNil, Len: l.l, Cap: l.l + extra, LenClass: c09rtLenClass(l.isNil, l.l)})
				}
			}
		}
	}
	return out
}

type c09rtObs struct {
	Panicked bool   `json:"panicked"`
	Msg      string `json:"panic_message,omitempty"`
	after    []byte
}

func c09rtBlock(size, a uint64) []byte {
	b := make([]byte, bs)
	fillPattern(b, 2, a*31+size*7+1)
	return b
}

// c09ReadToLenChild: vcheck child c09-readto-len <seed> <image dir>; prints one JSON object.
func c09ReadToLenChild(args []string) int {
	if len(args) < 2 {
		fmt.Fprintln(os.Stderr, "c09-readto-len: seed dir")
		return 2
	}
	seed, _ := strconv.ParseInt(args[0], 10, 64)
	dir := args[1]
	os.MkdirAll(dir, 0o755)
	counts := map[string]int64{}
	classes := map[string]int64{}
	var viols []c09viol
	seen := map[string]bool{}
	viol := func(sig, what string, detail func() map[string]interface{}) {
		if seen[sig] {
			counts["cases_with_a_discrepancy_beyond_the_first_of_its_signature"]++
			return
		}
		seen[sig] = true
		viols = append(viols, c09viol{Sig: sig, What: what, Detail: detail()})
	}
	cases := c09ReadToLenCases(seed)
	bySize := map[uint64][]c09rtCase{}
	var sizes []uint64
	for _, c := range cases {
		if _, ok := bySize[c.Size]; !ok {
			sizes = append(sizes, c.Size)
		}
		bySize[c.Size] = append(bySize[c.Size], c)
	}
	for _, n := range sizes {
		// one disk per configuration, all written with the same contents
		disks := make([]api, len(c09cfgs))
		for ci, c := range c09cfgs {
			d, err := openCfg(c, fmt.Sprintf("%s/rt-%s-%d.img", dir, c.Name, n), n)
			if err != nil {
				fmt.Fprintf(os.Stderr, "open %s: %v\n", c.Name, err)
				return 2
			}
			// the global wrappers serve the disk given to Init last: write through the methods' twin
			for a := uint64(0); a < n; a++ {
				if p, msg := callPanics(func() { d.write(a, c09rtBlock(n, a)) }); p {
					fmt.Fprintf(os.Stderr, "setup write on %s panicked: %s\n", c.Name, msg)
					return 2
				}
			}
			disks[ci] = d
		}
		for _, cs := range bySize[n] {
			obs := make([]c09rtObs, len(c09cfgs))
			var before []byte
			for ci, c := range c09cfgs {
				if c.Global {
					// the wrappers are process-wide: point them at this configuration's disk again
					d, err := reinitGlobal(c, disks[ci])
					if err != nil {
						fmt.Fprintln(os.Stderr, err)
						return 2
					}
					disks[ci] = d
				}
				backing := make([]byte, cs.Cap)
				fillPattern(backing, 3, uint64(cs.Idx)*977+5)
				if cs.InRange { // never equal to the stored block at any position
					stored := c09rtBlock(n, cs.Addr)
					for k := range backing {
						if backing[k] == stored[k%bs] {
							backing[k] ^= 0x55
						}
					}
				}
				before = append(before[:0], backing...)
				var buf []byte
				if !cs.Nil {
					buf = backing[:cs.Len:cs.Cap]
				}
				p, msg := callPanics(func() { disks[ci].readTo(cs.Addr, buf) })
				obs[ci] = c09rtObs{Panicked: p, Msg: msg, after: append([]byte(nil), backing...)}
				counts["calls"]++
				counts["calls/"+c.Name]++
			}
			counts["cases"]++
			classes[fmt.Sprintf("ReadTo %s buffer, address %s", cs.LenClass, map[bool]string{true: "in range", false: "out of range"}[cs.InRange])]++
			detail := func() map[string]interface{} {
				per := map[string]interface{}{}
				for ci, c := range c09cfgs {
					o := obs[ci]
					per[c.Name] = map[string]interface{}{"panicked": o.Panicked, "panic_message (not judged)": o.Msg,
						"buffer_bytes_changed": countDiff(before, o.after), "first_changed_offset": firstDiff(before, o.after)}
				}
				return map[string]interface{}{"case": cs, "per_configuration": per,
					"replay": "create a disk of disk_size blocks in every configuration, Write(a, counter pattern) to every block, then call ReadTo(addr, buf) once with a buffer of buf_len bytes (capacity buf_cap) and recover a panic"}
			}
			// one signature for every length other than one block (nil, empty, shorter, longer): the
			// length class is named in the text and the evidence, the first case reported is the smallest
			sigLen := "not-block-sized"
			if cs.LenClass == "one-block" {
				sigLen = "one-block"
			}
			sigBase := fmt.Sprintf("readto-buffer-length/%s/address-%s", sigLen, map[bool]string{true: "in-range", false: "out-of-range"}[cs.InRange])
			var yes, no []string
			for ci, c := range c09cfgs {
				if obs[ci].Panicked {
					yes = append(yes, c.Name)
				} else {
					no = append(no, c.Name)
				}
			}
			what := fmt.Sprintf("disk of %d blocks, ReadTo(%d, %s) [address class %s]", cs.Size, cs.Addr, c09rtBufText(cs), cs.AClass)
			switch {
			case len(yes) > 0 && len(no) > 0:
				viol(sigBase+":refusal-differs-between-implementations", fmt.Sprintf("%s panics on %v and returns normally on %v (the implementations must return identical results; messages are not compared)", what, yes, no), detail)
			default:
				counts["cases_with_the_same_refusal_behaviour_on_all_configurations"]++
				if len(yes) > 0 {
					counts["cases_refused_by_all_configurations"]++
				} else {
					counts["cases_served_by_all_configurations"]++
				}
				same := true
				for ci := range c09cfgs {
					if !bytes.Equal(obs[ci].after, obs[0].after) {
						same = false
						viol(sigBase+":buffer-bytes-differ-between-implementations", fmt.Sprintf("%s leaves different bytes in the caller's buffer on %s and on %s (first difference at offset %d of the backing array)", what, c09cfgs[0].Name, c09cfgs[ci].Name, firstDiff(obs[0].after, obs[ci].after)), detail)
						break
					}
				}
				if same {
					counts["cases_with_identical_buffer_bytes_on_all_configurations"]++
				}
			}
			// what the model says whatever the implementations agree on
			if !cs.InRange && len(no) > 0 {
				viol(sigBase+":out-of-range-address-not-refused", fmt.Sprintf("%s returns normally on %v; an out-of-range address must be refused", what, no), detail)
			}
			if cs.InRange && !cs.Nil && cs.Len == bs {
				want := c09rtBlock(n, cs.Addr)
				for ci, c := range c09cfgs {
					if obs[ci].Panicked {
						viol(sigBase+":block-sized-read-refused", fmt.Sprintf("%s panics on %s (%s)", what, c.Name, obs[ci].Msg), detail)
					} else if !bytes.Equal(obs[ci].after[:bs], want) {
						viol(sigBase+":wrong-data", fmt.Sprintf("%s on %s does not give the block written there (first difference at offset %d)", what, c.Name, firstDiff(want, obs[ci].after[:bs])), detail)
					} else if !bytes.Equal(obs[ci].after[bs:], before[bs:]) {
						viol(sigBase+":bytes-beyond-the-buffer-changed", fmt.Sprintf("%s on %s changes bytes beyond len(buf) of the backing array", what, c.Name), detail)
					} else {
						counts["block_sized_reads_compared_with_the_model"]++
					}
				}
			}
		}
		// no ReadTo changed any disk
		for ci, c := range c09cfgs {
			if c.Global {
				d, err := reinitGlobal(c, disks[ci])
				if err != nil {
					fmt.Fprintln(os.Stderr, err)
					return 2
				}
				disks[ci] = d
			}
			for a := uint64(0); a < n; a++ {
				var got []byte
				p, msg := callPanics(func() { got = disks[ci].read(a) })
				if p || !bytes.Equal(got, c09rtBlock(n, a)) {
					viol("readto-buffer-length:disk-contents-changed", fmt.Sprintf("%s, disk of %d blocks: after the ReadTo calls Read(%d) no longer gives the block written there (panic %q)", c.Name, n, a, msg),
						func() map[string]interface{} {
							return map[string]interface{}{"config": c.Name, "disk_size": n, "addr": a}
						})
				} else {
					counts["blocks_read_back_after_the_cases"]++
				}
			}
			callPanics(func() { disks[ci].close() })
		}
	}
	b, _ := json.Marshal(map[string]interface{}{"counts": counts, "classes": classes, "violations": viols})
	os.Stdout.Write(append(b, '\n'))
	return 0
}

// reinitGlobal points package disk's process-wide wrappers at the disk behind a
// "global" configuration again (the raw disk is kept in the api's closure: the
// close function of a global configuration closes exactly that disk, so the
// disk itself is recovered through disk.Get only while it is the current one —
// here the api value carries a re-Init hook instead).
func reinitGlobal(c c09cfg, d api) (api, error) {
	if d.reinit == nil {
		return d, fmt.Errorf("configuration %s has no re-Init hook", c.Name)
	}
	d.reinit()
	return d, nil
}

func c09rtBufText(cs c09rtCase) string {
	if cs.Nil {
		return "nil buffer"
	}
	if cs.Cap != cs.Len {
		return fmt.Sprintf("%d-byte buffer of capacity %d", cs.Len, cs.Cap)
	}
	return fmt.Sprintf("%d-byte buffer", cs.Len)
}

func countDiff(a, b []byte) int {
	n := 0
	for i := range a {
		if i < len(b) && a[i] != b[i] {
			n++
		}
	}
	return n
}

// c09ReadToLen runs the family in one child (the global wrappers are process-wide state).
func c09ReadToLen(r *core.Run) {
	self, err := os.Executable()
	if err != nil {
		r.Inconclusive("no-self-executable")
		return
	}
	dir := r.Scratch + "/c09rt"
	args := []string{"child", "c09-readto-len", strconv.FormatInt(r.Seed, 10), dir}
	res := core.Exec(r.Scratch, nil, 10*time.Minute, "", self, args...)
	r.Set("readto_len_child_command", self+" "+strings.Join(args, " "))
	if res.TimedOut {
		r.Inconclusive("readto-len-child-watchdog")
		return
	}
	var out struct {
		Counts     map[string]int64 `json:"counts"`
		Classes    map[string]int64 `json:"classes"`
		Violations []c09viol        `json:"violations"`
	}
	if res.Code != 0 || json.Unmarshal([]byte(strings.TrimSpace(res.Stdout)), &out) != nil {
		if strings.Contains(res.Stderr, "fatal error:") || strings.Contains(res.Stderr, "panic:") {
			r.Violate("readto-buffer-length:child-died-"+slug09(firstFatal(res.Stderr)), "the process making the ReadTo calls died: "+tail09(res.Stderr, 400),
				map[string]interface{}{"command": self + " " + strings.Join(args, " "), "stderr": tail09(res.Stderr, 4000)})
			return
		}
		r.Inconclusive("readto-len-child-failed")
		fmt.Fprintf(os.Stderr, "c09 readto-len child: exit %d %s\n", res.Code, lastLines(res.Stderr, 6))
		return
	}
	r.Eval(int(out.Counts["calls"]))
	for k, v := range out.Counts {
		r.Count("readto_len_"+k, v)
	}
	var cl []string
	for k := range out.Classes {
		cl = append(cl, k)
		r.Distinct("readto-len/" + k)
	}
	sort.Strings(cl)
	r.Set("readto_len_case_classes", cl)
	for _, v := range out.Violations {
		r.Violate(v.Sig, v.What, v.Detail)
	}
}

func firstFatal(stderr string) string {
	for _, l := range strings.Split(stderr, "\n") {
		if strings.HasPrefix(l, "fatal error: ") || strings.HasPrefix(l, "panic: ") {
			return l
		}
	}
	return "unknown"
}
