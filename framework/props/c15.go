package props

import (
	"fmt"

	"verif/core"

	"github.com/goose-lang/goose/machine"
)

// C15: UInt64Put/UInt32Put write exactly the little-endian frame and nothing
// else; Get reads only the frame and inverts Put; short buffers are refused
// without a partial write. Oracle: hand-written shift/mask arithmetic over a
// canaried backing array.

func init() {
	Registry["C15"] = Prop{Level: "exploration", Run: runC15}
}

type c15case struct {
	Width  int    `json:"width"`
	Len    int    `json:"buf_len"`
	Off    int    `json:"offset_in_array"`
	Value  uint64 `json:"value"`
	Result string `json:"observed"`
}

func c15values(r *core.Run, rng *core.Rng, width int) []uint64 {
	var vs []uint64
	for i := 0; i < width; i++ {
		vs = append(vs, uint64(1)<<uint(i), ^(uint64(1) << uint(i)), (uint64(1)<<uint(i))-1)
	}
	for b := 0; b < 256; b += 17 {
		v := uint64(0)
		for i := 0; i < 8; i++ {
			v |= uint64(b) << (8 * uint(i))
		}
		vs = append(vs, v)
	}
	vs = append(vs, 0, 1, 0x0102030405060708, 0x0807060504030201, 0xFFFFFFFFFFFFFFFF, 0x00000000FFFFFFFF,
		0xFFFFFFFF00000000, 0x8000000000000000, 0x0123456789ABCDEF, 0xFEDCBA9876543210)
	n := r.Pick(20000, 2000000)
	for i := 0; i < n; i++ {
		vs = append(vs, rng.U64())
	}
	if width == 32 {
		for i := range vs {
			vs[i] &= 0xFFFFFFFF
		}
	}
	return vs
}

func callPanics(f func()) (panicked bool) {
	defer func() {
		if recover() != nil {
			panicked = true
		}
	}()
	f()
	return false
}

func runC15(r *core.Run) (bool, string) {
	r.SetRule("values: every single-bit/complement/low-mask pattern, byte-repeat patterns, boundaries and seeded random values; " +
		"each Put is applied to a buffer of length 0..32 placed at offset 0..7 of a 64-byte array with random prior contents (capacity extends to the array end) and every byte of the array is compared with the hand-computed little-endian expectation; " +
		"Get is compared with a value assembled by shifts and re-run after scrambling all bytes outside the frame; a case is distinct by (width, length, offset, value)")
	r.Assume("Go runtime bounds checks and recover() behave as specified")
	// the per-architecture children first: they run the same kind of cases in processes of their own, so a
	// primitive that blocks for ever or kills the process (a lock left held by a refusal, say) ends a child
	// with the runtime's report instead of taking the monitors of this process with it
	if !c15Architectures(r) {
		return true, ""
	}
	rng := core.NewRng(r.Seed, "c15")
	const N = 64
	lens := []int{0, 1, 2, 3, 4, 5, 7, 8, 9, 12, 16, 32}
	for _, width := range []int{64, 32} {
		frame := width / 8
		vals := c15values(r, rng, width)
		for vi, v := range vals {
			// boundary values see every (len, offset); random values a seeded subset
			var ls, offs []int
			if vi < 600 {
				ls, offs = lens, []int{0, 1, 3, 7}
			} else {
				ls, offs = []int{lens[rng.Intn(len(lens))], 8 + rng.Intn(20)}, []int{rng.Intn(8)}
			}
			for _, l := range ls {
				for _, off := range offs {
					var arr, before [N]byte
					copy(arr[:], rng.Bytes(N))
					before = arr
					buf := arr[off : off+l]
					var panicked bool
					if width == 64 {
						panicked = callPanics(func() { machine.UInt64Put(buf, v) })
					} else {
						panicked = callPanics(func() { machine.UInt32Put(buf, uint32(v)) })
					}
					r.Eval(1)
					r.Distinct(fmt.Sprintf("put/%d/%d/%d/%x", width, l, off, v))
					c := c15case{Width: width, Len: l, Off: off, Value: v}
					if l < frame {
						c.Result = "refused"
						if !panicked {
							c.Result = "short buffer accepted"
							r.Violate(fmt.Sprintf("put%d-short-accepted", width), fmt.Sprintf("UInt%dPut on a %d-byte buffer returned normally", width, l), c)
						}
						if arr != before {
							c.Result = "short buffer partially written"
							r.Violate(fmt.Sprintf("put%d-short-partial-write", width), fmt.Sprintf("UInt%dPut on a %d-byte buffer modified memory before refusing", width, l), c)
						}
						r.Count("short_buffer_refusals_observed", 1)
					} else {
						if panicked {
							c.Result = "panic on sufficient buffer"
							r.Violate(fmt.Sprintf("put%d-panic", width), fmt.Sprintf("UInt%dPut panicked on a %d-byte buffer", width, l), c)
							continue
						}
						want := before
						for i := 0; i < frame; i++ {
							want[off+i] = byte(v >> (8 * uint(i)))
						}
						if arr != want {
							kind := "wrong-bytes"
							inFrameOK := true
							for i := 0; i < frame; i++ {
								if arr[off+i] != want[off+i] {
									inFrameOK = false
								}
							}
							if inFrameOK {
								kind = "wrote-outside-frame"
							}
							c.Result = fmt.Sprintf("array after=%x want=%x", arr, want)
							r.Violate(fmt.Sprintf("put%d-%s", width, kind), fmt.Sprintf("UInt%dPut(%#x) left bytes differing from the little-endian frame", width, v), c)
						} else {
							c.Result = fmt.Sprintf("frame=%x, %d other bytes untouched", arr[off:off+frame], N-frame)
						}
						r.Count("bytes_compared", N)
						// Get on the same buffer, then with everything outside the frame scrambled
						var got uint64
						var gp bool
						get := func() {
							gp = callPanics(func() {
								if width == 64 {
									got = machine.UInt64Get(buf)
								} else {
									got = uint64(machine.UInt32Get(buf))
								}
							})
						}
						get()
						r.Eval(1)
						if gp || got != v {
							r.Violate(fmt.Sprintf("get%d-not-inverse", width), fmt.Sprintf("UInt%dGet(Put(%#x)) = %#x panic=%v", width, v, got, gp), c)
						}
						scr := rng.Bytes(N)
						for i := 0; i < N; i++ {
							if i < off || i >= off+frame {
								arr[i] = scr[i]
							}
						}
						get()
						r.Eval(1)
						if gp || got != v {
							r.Violate(fmt.Sprintf("get%d-reads-outside-frame", width), fmt.Sprintf("UInt%dGet changed to %#x after scrambling bytes outside the frame", width, got), c)
						}
					}
					if (vi%997 == 3 && l >= frame) || (vi == 5 && off == 3 && l < frame) {
						r.Sample(16, c)
					}
				}
			}
		}
		// Get on arbitrary bytes versus hand assembly, and short-buffer Get refusal
		ng := r.Pick(20000, 1000000)
		for i := 0; i < ng; i++ {
			l := frame + rng.Intn(12)
			b := rng.Bytes(l)
			var want uint64
			for k := 0; k < frame; k++ {
				want |= uint64(b[k]) << (8 * uint(k))
			}
			var got uint64
			p := callPanics(func() {
				if width == 64 {
					got = machine.UInt64Get(b)
				} else {
					got = uint64(machine.UInt32Get(b))
				}
			})
			r.Eval(1)
			r.Distinct(fmt.Sprintf("get/%d/%x", width, b[:frame]))
			if p || got != want {
				r.Violate(fmt.Sprintf("get%d-wrong", width), fmt.Sprintf("UInt%dGet(%x) = %#x, want %#x", width, b, got, want), nil)
			}
		}
		for l := 0; l < frame; l++ {
			b := rng.Bytes(l)
			p := callPanics(func() {
				if width == 64 {
					machine.UInt64Get(b)
				} else {
					machine.UInt32Get(b)
				}
			})
			r.Eval(1)
			r.Distinct(fmt.Sprintf("getshort/%d/%d", width, l))
			if !p {
				r.Violate(fmt.Sprintf("get%d-short-accepted", width), fmt.Sprintf("UInt%dGet on %d bytes returned normally", width, l), nil)
			}
			r.Count("short_buffer_refusals_observed", 1)
		}
	}
	c15Concurrent(r)
	return r.Evals() > 1000 && r.GetCount("short_buffer_refusals_observed") > 10 && r.GetCount("concurrent_calls_plain") > 100000, "too few encoding cases evaluated"
}
