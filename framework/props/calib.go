package props

import (
	"fmt"
	"os"
	"path/filepath"
	"regexp"
	"strings"
	"sync"
	"time"

	"verif/core"
	"verif/gl"
)

// calibrate re-derives, on every run, the known verdicts of the shipped semantics suite from
// the freshly built goose + this reader + this interpreter. A miss means the model (or reader)
// cannot be trusted for this run: no C01–C03 verdict is issued.
var failingExpect = map[string]string{
	"failing_testEncDec32":           "stuck",
	"failing_testReverseAssignOps32": "stuck",
	"failing_testU32NewtypeLen":      "nottrue",
	"failing_testCompareSliceToNil":  "nottrue",
	"failing_testArgumentOrder":      "nottrue",
	"failing_testFunctionOrdering":   "stuck-or-nottrue",
	"failing_testFooBarMutation":     "stuck",
	"failing_testStructUpdates":      "stuck",
	"failing_testStringAppend":       "true",
	"failing_testStringLength":       "true",
}

var calibOnce sync.Once
var calibOK bool

func calibrate(r *core.Run, goose string) bool {
	calibOnce.Do(func() { calibOK = doCalibrate(r, goose) })
	return calibOK
}

// calibrateNameTable reads the GooseLang library names the translator can emit (the string arguments of
// GallinaIdent / newCoqCall in the translator's source) and tells the model which of them it does not
// implement: an unknown unqualified name in emitted text is "reference not found" only for names outside
// that table.
func calibrateNameTable(r *core.Run) {
	re := regexp.MustCompile(`(?:GallinaIdent|newCoqCall)\("([A-Za-z0-9_.]+)"`)
	seen, missing := 0, []string{}
	for _, f := range []string{"goose.go", "types.go", "interface.go", "idents.go", "internal/coq/coq.go"} {
		b, err := os.ReadFile(filepath.Join(core.RepoDir, f))
		if err != nil {
			continue
		}
		for _, m := range re.FindAllStringSubmatch(string(b), -1) {
			seen++
			if !gl.KnownLibraryName(m[1]) {
				gl.UnmodelledLibraryNames[m[1]] = true
				missing = append(missing, m[1])
			}
		}
	}
	r.Set("translator_library_names_read", seen)
	r.Set("translator_library_names_not_in_model", missing)
}

func doCalibrate(r *core.Run, goose string) bool {
	calibrateNameTable(r)
	out := filepath.Join(r.Scratch, "calib-out")
	res := core.Exec(core.RepoDir, core.GoEnv(), 3*time.Minute, "", goose, "-out", out, "./internal/examples/semantics")
	if res.Code != 0 {
		// a goose that can no longer translate its own semantics suite is a finding in its own
		// right (reported by the caller through the directed corpus); calibration cannot run.
		fmt.Println("calibration: goose failed on internal/examples/semantics:", firstLines(res.Stderr, 10))
		return false
	}
	b, err := os.ReadFile(filepath.Join(out, "github_com/goose_lang/goose/internal/examples/semantics.v"))
	if err != nil {
		fmt.Println("calibration:", err)
		return false
	}
	f, err := gl.ParseFile(string(b))
	if err != nil {
		fmt.Println("calibration: reader rejects semantics.v:", err)
		return false
	}
	prog := gl.NewProgram(f)
	bt, _ := gl.ParseTDesc("bool")
	dec := func(in *gl.Interp, v gl.Val) (string, error) { return gl.Decode(in, v, bt) }
	n, bad := 0, 0
	for _, d := range prog.Defs {
		isT := strings.HasPrefix(d.Name, "test")
		isF := strings.HasPrefix(d.Name, "failing_test")
		if !isT && !isF {
			continue
		}
		n++
		for _, pol := range []gl.CapPolicy{gl.CapExact, gl.CapDouble} {
			ex := gl.Explore(prog, pol, d.Name, 2000, 0, dec, 30)
			want := "true"
			if isF {
				want = failingExpect[d.Name]
				if want == "" {
					continue // a failing test added upstream that this table does not know
				}
			}
			ok := true
			for k := range ex.Outcomes {
				switch want {
				case "true":
					ok = ok && k == "value:true"
				case "stuck":
					ok = ok && strings.HasPrefix(k, "stuck:")
				case "nottrue":
					ok = ok && k == "value:false"
				case "stuck-or-nottrue":
					ok = ok && (strings.HasPrefix(k, "stuck:") || k == "value:false")
				}
			}
			if !ok {
				bad++
				fmt.Printf("calibration miss: %s policy=%d expected %s got %v\n", d.Name, pol, want, ex.Outcomes)
			}
		}
	}
	r.Set("calibration_functions", n)
	r.Set("calibration_misses", bad)
	if n < 80 {
		fmt.Println("calibration: only", n, "test functions found")
		return false
	}
	return bad == 0
}
