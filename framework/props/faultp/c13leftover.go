package faultp

import (
	"bytes"
	"context"
	"encoding/json"
	"fmt"
	"io/fs"
	"os"
	"os/exec"
	"path/filepath"
	"runtime"
	"sort"
	"strconv"
	"strings"
	"syscall"
	"time"

	"verif/core"
	"verif/props"

	"github.com/goose-lang/goose/machine/filesys"
)

// C13, dimension "what a call that FAILED leaves behind, and what that does
// to the calls after it". All-or-nothing is about the whole directory tree
// the library manages, not only about dir/name: "nothing" means the tree is
// as it was. And "calls for different names do not disturb each other" holds
// in sequence too: a call that failed must not make a later call for another
// name fail. The crash/fault sweep of c13.go looks at dir/name after the
// failed call and runs recoveries for the SAME name in copies of the tree;
// it never looks at the rest of the tree and never lets the same process go
// on.
//
// (A) injected failures. For data sizes {0, 11, 4096, 70 000} × destination
// {absent, shorter}: a recording run under strace lists the system calls of
// AtomicCreate(d,f,data); each open / write / fsync / rename / CLOSE of it
// then fails with ENOSPC or EIO — that occurrence only, or from that
// occurrence on (the disk stays full) — and the SAME process goes on with
// AtomicCreate(d,h,data3) for another name. Afterwards everything below the
// DirFs root is enumerated (files, directories, links, anywhere): it must be
// exactly what the model says — d/f in its previous state (or exactly data if
// the call reported success), d/g of the complete calls made before, d/h
// exactly data3 — and NOTHING else. With a single failing occurrence the
// following call must report success; with a persisting fault it may fail,
// and then d/h must not exist.
//
// (B) a file system that is really full. The child enters a mount namespace
// of its own, mounts a tmpfs of 256 KiB / 1 MiB on the DirFs root, creates
// d/x, then calls AtomicCreate(d,x,big) once or three times with big just
// over / twice / eight times the capacity (the kernel cuts the write short
// and fails the rest with ENOSPC), then AtomicCreate(d,y,small) with small
// 4 B / 8 KiB / a quarter of the capacity, then AtomicCreate(d,x,tiny). The
// failing calls must leave d/x as it was and nothing else in the tree; the
// following calls fit into the file system many times over and must succeed
// with exactly their data. The child reports the tree itself (the mount is
// private to it).

func init() {
	props.Children["c13-leftover-child"] = c13LeftoverChild
	// strace's when=N counts per thread: the script runs on the main thread
	if len(os.Args) > 2 && os.Args[1] == "child" && os.Args[2] == "c13-leftover-child" {
		runtime.LockOSThread()
	}
}

const (
	vFollow = 6 // payload byte of the following call
	vTiny   = 7
)

// lsTree lists everything below root: relative path -> "dir" | "link" |
// "other" | "file" (contents in files).
func lsTree(root string) (kinds map[string]string, files map[string][]byte) {
	kinds, files = map[string]string{}, map[string][]byte{}
	filepath.WalkDir(root, func(p string, d fs.DirEntry, err error) error {
		if err != nil || p == root {
			return nil
		}
		rel, _ := filepath.Rel(root, p)
		switch {
		case d.IsDir():
			kinds[rel] = "dir"
		case d.Type()&fs.ModeSymlink != 0:
			kinds[rel] = "link"
		case d.Type().IsRegular():
			kinds[rel] = "file"
			if b, e := os.ReadFile(p); e == nil {
				files[rel] = b
			}
		default:
			kinds[rel] = "other"
		}
		return nil
	})
	return
}

// ---------------------------------------------------------------- child

// c13LeftoverChild:
//
//	seq <root> <len> <pre> <followLen>            call 0 = AtomicCreate(d,f), call 1 = AtomicCreate(d,h)
//	fullfs <mountpoint> <capKiB> <bigLen> <failing calls> <followLen>
func c13LeftoverChild(args []string) int {
	if len(args) == 5 && args[0] == "seq" {
		root := args[1]
		n, _ := strconv.Atoi(args[2])
		pre, _ := strconv.Atoi(args[3])
		fl, _ := strconv.Atoi(args[4])
		fsys := filesys.NewDirFs(root)
		mark("PID %d", os.Getpid())
		for j := 0; j < pre; j++ {
			mark("PRE %d %s", j, orOK(protect(func() { fsys.AtomicCreate("d", c13PreName, c13PreData(j)) })))
		}
		mark("BEGIN 0 AtomicCreate d/f")
		res := orOK(protect(func() { fsys.AtomicCreate("d", "f", pay1(vData, n)) }))
		mark("END 0 %s", res)
		mark("BEGIN 1 AtomicCreate d/h")
		res = orOK(protect(func() { fsys.AtomicCreate("d", "h", pay1(vFollow, fl)) }))
		mark("END 1 %s", res)
		return 0
	}
	if len(args) == 6 && args[0] == "fullfs" {
		return c13FullFsChild(args[1:])
	}
	mark("usage")
	return 2
}

func orOK(p string) string {
	if p == "" {
		return "ok"
	}
	return "panic " + p
}

type fullFsStep struct {
	Call   string            `json:"call"`
	Result string            `json:"result"`
	Tree   map[string]string `json:"tree_after"` // path -> description of the content
	Free   uint64            `json:"free_bytes_after"`
}

type fullFsReport struct {
	MountErr string       `json:"mount_error,omitempty"`
	Steps    []fullFsStep `json:"steps"`
}

func c13FullFsChild(args []string) int {
	mnt := args[0]
	capKiB, _ := strconv.Atoi(args[1])
	big, _ := strconv.Atoi(args[2])
	failing, _ := strconv.Atoi(args[3])
	follow, _ := strconv.Atoi(args[4])
	var rep fullFsReport
	out := func() int {
		b, _ := json.Marshal(rep)
		fmt.Println(string(b))
		return 0
	}
	// the mount must not propagate out of this namespace
	if err := syscall.Mount("", "/", "", syscall.MS_REC|syscall.MS_PRIVATE, ""); err != nil {
		rep.MountErr = "making mounts private: " + err.Error()
		return out()
	}
	if err := syscall.Mount("tmpfs", mnt, "tmpfs", 0, fmt.Sprintf("size=%dk", capKiB)); err != nil {
		rep.MountErr = "mounting a tmpfs: " + err.Error()
		return out()
	}
	fsys := filesys.NewDirFs(mnt)
	step := func(call string, f func()) {
		res := orOK(protect(f))
		kinds, files := lsTree(mnt)
		tree := map[string]string{}
		for p, k := range kinds {
			if k == "file" {
				tree[p] = describe(files[p], true)
			} else {
				tree[p] = k
			}
		}
		var st syscall.Statfs_t
		syscall.Statfs(mnt, &st)
		rep.Steps = append(rep.Steps, fullFsStep{call, res, tree, st.Bavail * uint64(st.Bsize)})
	}
	step("Mkdir(d)", func() { fsys.Mkdir("d") })
	step("AtomicCreate(d,x,old)", func() { fsys.AtomicCreate("d", "x", pay1(vOld, 3)) })
	for k := 0; k < failing; k++ {
		step("AtomicCreate(d,x,big)", func() { fsys.AtomicCreate("d", "x", pay1(vData, big)) })
	}
	step("AtomicCreate(d,y,small)", func() { fsys.AtomicCreate("d", "y", pay1(vFollow, follow)) })
	step("AtomicCreate(d,x,tiny)", func() { fsys.AtomicCreate("d", "x", pay1(vTiny, 4)) })
	return out()
}

// execMountNS runs a command in a fresh mount namespace.
func execMountNS(dir string, timeout time.Duration, name string, args ...string) core.ExecResult {
	ctx, cancel := context.WithTimeout(context.Background(), timeout)
	defer cancel()
	cmd := exec.CommandContext(ctx, name, args...)
	cmd.Dir = dir
	cmd.SysProcAttr = &syscall.SysProcAttr{Cloneflags: syscall.CLONE_NEWNS}
	var so, se bytes.Buffer
	cmd.Stdout = &so
	cmd.Stderr = &se
	cmd.WaitDelay = 5 * time.Second
	err := cmd.Run()
	res := core.ExecResult{Stdout: so.String(), Stderr: se.String(), Err: err}
	if ctx.Err() == context.DeadlineExceeded {
		res.TimedOut = true
	}
	if cmd.ProcessState != nil {
		res.Code = cmd.ProcessState.ExitCode()
		if res.Code == -1 {
			res.Signaled = true
		}
	} else if err != nil {
		res.Code = -2
	}
	return res
}

// ---------------------------------------------------------------- (A) injected failures

type leftoverUnit struct {
	Setup   c13setup          `json:"setup"`
	Pre     int               `json:"complete_calls_before"`
	Follow  int               `json:"following_call_data_len"`
	Sys     string            `json:"syscall"`
	Pos     int               `json:"position_in_call"`
	Occ     int               `json:"occurrence_on_main_thread"`
	Errno   string            `json:"errno"`
	Dur     string            `json:"duration"` // once | persistent
	Landed  bool              `json:"landed"`
	Call0   string            `json:"failed_call_reported,omitempty"`
	Call1   string            `json:"following_call_reported,omitempty"`
	Tree    map[string]string `json:"tree_after,omitempty"`
	Trace   []string          `json:"syscalls_of_the_failed_call,omitempty"`
	viol    []pendingViol
	extra   int
	judged1 bool
}

var leftoverTargets = map[string]bool{"open": true, "openat": true, "write": true, "pwrite64": true, "writev": true, "fsync": true, "fdatasync": true,
	"rename": true, "renameat": true, "renameat2": true, "link": true, "linkat": true, "close": true}

func c13LeftoverSweep(r *core.Run, bin string) {
	var setups []c13setup
	sizes := []int{11, 0, 4096, 70000}
	if !r.Quick() {
		sizes = append(sizes, 1, 1<<20)
	}
	for _, sz := range sizes {
		for _, d := range []string{"absent", "shorter"} {
			if sz == 0 && d == "shorter" {
				continue
			}
			setups = append(setups, c13setup{sz, d})
		}
	}
	base := mkdirFresh(r.Scratch, "c13left")
	defer os.RemoveAll(base)
	preOf := func(si int) int { return si % 2 }
	followOf := func(si int) int { return []int{5, 4096, 20000}[si%3] }
	childArgs := func(root string, si int) []string {
		return []string{"c13-leftover-child", "seq", root, fmt.Sprint(setups[si].Size), fmt.Sprint(preOf(si)), fmt.Sprint(followOf(si))}
	}
	recs := make([]*straceResult, len(setups))
	core.Parallel(len(setups), 16, func(i int) {
		d := mkdirFresh(base, setups[i].name(), "rec")
		root := filepath.Join(d, "root")
		if c13Prepare(root, setups[i]) != "" {
			return
		}
		recs[i] = runStrace(bin, d, filepath.Join(d, "log"), "", childArgs(root, i)...)
		os.RemoveAll(d)
	})
	var plan []leftoverUnit
	for si, s := range setups {
		rec := recs[si]
		if rec == nil || rec.Err != nil || rec.T == nil || !rec.T.Exited {
			r.Inconclusive("leftover-recording-run-failed")
			continue
		}
		var call0 *apiCall
		calls := rec.T.calls()
		for i := range calls {
			if calls[i].I == 0 && calls[i].Ended && calls[i].Result == "ok" {
				call0 = &calls[i]
			}
		}
		if call0 == nil {
			r.Inconclusive("leftover-recording-run-incomplete")
			continue
		}
		r.Count("leftover_recording_runs", 1)
		for k, e := range call0.Sys {
			if !leftoverTargets[e.Name] {
				continue
			}
			occ := rec.T.occurrence(e.Idx)
			for _, en := range []string{"ENOSPC", "EIO"} {
				for _, dur := range []string{"once", "persistent"} {
					plan = append(plan, leftoverUnit{Setup: s, Pre: preOf(si), Follow: followOf(si), Sys: e.Name, Pos: k, Occ: occ, Errno: en, Dur: dur})
				}
			}
		}
	}
	r.Count("leftover_fault_points_planned", int64(len(plan)))
	results := make([]leftoverUnit, len(plan))
	setupIdx := map[string]int{}
	for i, s := range setups {
		setupIdx[s.name()] = i
	}
	core.Parallel(len(plan), 16, func(i int) {
		u := plan[i]
		s := u.Setup
		si := setupIdx[s.name()]
		inj := fmt.Sprintf("%s:error=%s:when=%s", u.Sys, u.Errno, whenSpec(u.Occ, u.Dur))
		for attempt := 0; attempt < 2 && !u.Landed; attempt++ {
			d := mkdirFresh(base, s.name(), fmt.Sprintf("u%d-%d", i, attempt))
			root := filepath.Join(d, "root")
			if c13Prepare(root, s) != "" {
				os.RemoveAll(d)
				continue
			}
			sr := runStrace(bin, d, filepath.Join(d, "log"), inj, childArgs(root, si)...)
			r.Eval(1)
			if sr.Err != nil || sr.T == nil || !sr.T.Exited {
				os.RemoveAll(d)
				continue
			}
			var c0, c1 apiCall
			for _, cc := range sr.T.calls() {
				switch cc.I {
				case 0:
					c0 = cc
				case 1:
					c1 = cc
				}
			}
			if _, _, _, ok := sr.T.faultsLanded(0, u.Sys); !ok || !c0.Ended || !c1.Ended {
				os.RemoveAll(d)
				continue
			}
			u.Landed = true
			u.Call0, u.Call1 = c0.Result, c1.Result
			u.Trace = excerpt(c0.Sys, 12)
			kinds, files := lsTree(root)
			u.Tree = map[string]string{}
			for p, k := range kinds {
				if k == "file" {
					u.Tree[p] = describe(files[p], true)
				} else {
					u.Tree[p] = k
				}
			}
			os.RemoveAll(d)
			// the model: d, d/f old (or data when the call reported ok), d/g of
			// the complete calls before, d/h of the following call
			data := pay1(vData, s.Size)
			follow := pay1(vFollow, u.Follow)
			old, hadOld := s.old()
			where := fmt.Sprintf("%s at the %s of AtomicCreate(d,f,%s) (destination before: %s, %s)", u.Errno, u.Sys, describe(data, true), describe(old, hadOld), map[string]string{"once": "that occurrence only", "persistent": "from that occurrence on"}[u.Dur])
			var extra []string
			for p, k := range kinds {
				switch {
				case p == "d" && k == "dir":
				case p == "d/f" && k == "file":
					if got := files[p]; !bytes.Equal(got, data) && !(hadOld && bytes.Equal(got, old)) {
						u.viol = append(u.viol, pendingViol{"fault-at-" + u.Sys + "-dest-corrupt", fmt.Sprintf("%s: d/f is %s afterwards", where, describe(files[p], true)), u})
					}
				case p == "d/"+c13PreName && k == "file" && u.Pre > 0:
				case p == "d/h" && k == "file":
				default:
					extra = append(extra, fmt.Sprintf("%s (%s)", p, u.Tree[p]))
				}
			}
			sort.Strings(extra)
			u.extra = len(extra)
			if len(extra) > 0 {
				u.viol = append(u.viol, pendingViol{"failed-call-leaves-staging-file-fault-at-" + u.Sys,
					fmt.Sprintf("%s: the call reported %q and the tree below the DirFs root afterwards holds %s besides what the model has (d/f, d/h%s): a failed call is not \"nothing\"",
						where, u.Call0, strings.Join(extra, ", "), map[bool]string{true: ", d/g", false: ""}[u.Pre > 0]), u})
			}
			// the following call for another name
			h, hasH := files["d/h"]
			ok1 := strings.HasPrefix(u.Call1, "ok")
			switch {
			case ok1 && (!hasH || !bytes.Equal(h, follow)):
				u.viol = append(u.viol, pendingViol{"following-call-wrong-content-after-fault-at-" + u.Sys,
					fmt.Sprintf("%s; the following AtomicCreate(d,h,%s) of the same process reported ok and d/h is %s", where, describe(follow, true), describe(h, hasH)), u})
			case !ok1 && hasH:
				u.viol = append(u.viol, pendingViol{"following-call-failed-but-published-after-fault-at-" + u.Sys,
					fmt.Sprintf("%s; the following AtomicCreate(d,h,%s) reported %q and d/h is %s", where, describe(follow, true), u.Call1, describe(h, hasH)), u})
			case !ok1 && u.Dur == "once":
				u.viol = append(u.viol, pendingViol{"following-call-fails-after-fault-at-" + u.Sys,
					fmt.Sprintf("%s; the following AtomicCreate(d,h,%s) of the same process — another name, no fault any more — reported %q", where, describe(follow, true), u.Call1), u})
			}
			u.judged1 = ok1 || u.Dur == "once"
		}
		results[i] = u
	})
	landedBy := map[string]int64{}
	for _, u := range results {
		if !u.Landed {
			r.Inconclusive("leftover-fault-not-landed")
			r.Count("leftover_fault_points_not_landed", 1)
			continue
		}
		r.Count("leftover_faults_landed", 1)
		landedBy[u.Sys+"/"+u.Errno+"/"+u.Dur]++
		r.Distinct(fmt.Sprintf("leftover/%s/%s/%s/%s#%d", u.Setup.name(), u.Sys, u.Errno, u.Dur, u.Occ))
		if strings.HasPrefix(u.Call0, "ok") {
			r.Count("leftover_faulted_calls_that_reported_ok", 1)
		} else {
			r.Count("leftover_faulted_calls_that_panicked", 1)
		}
		if u.extra == 0 {
			r.Count("leftover_trees_exactly_the_model_after_a_faulted_call", 1)
		}
		if strings.HasPrefix(u.Call1, "ok") {
			r.Count("leftover_following_calls_ok_and_exact", 1)
		}
		for _, v := range u.viol {
			r.Violate(v.sig, v.what, v.detail)
		}
	}
	r.Set("leftover_faults_landed_by_syscall_errno_duration", landedBy)
	seen := map[string]bool{}
	for _, u := range results {
		if k := u.Sys + u.Dur; u.Landed && !seen[k] && u.Setup.Size == 11 && u.Errno == "ENOSPC" {
			seen[k] = true
			r.Sample(80, map[string]interface{}{"leftover_sweep": u})
		}
	}
}

// ---------------------------------------------------------------- (B) a really full file system

type fullFsCase struct {
	CapKiB  int `json:"capacity_KiB"`
	Big     int `json:"big_data_len"`
	Failing int `json:"calls_with_big_data"`
	Follow  int `json:"following_call_data_len"`
}

func c13FullFs(r *core.Run, bin string) {
	var cases []fullFsCase
	for _, c := range []int{256, 1024} {
		capB := c * 1024
		for bi, big := range []int{capB + 4096, 2 * capB, 8 * capB} {
			for fi, follow := range []int{4, 8192, capB / 4} {
				failing := 1
				if (bi+fi)%3 == 2 {
					failing = 3
				}
				cases = append(cases, fullFsCase{c, big, failing, follow})
			}
		}
	}
	base := mkdirFresh(r.Scratch, "c13full")
	defer os.RemoveAll(base)
	pend := make([][]pendingViol, len(cases))
	core.Parallel(len(cases), 8, func(i int) {
		c := cases[i]
		mnt := mkdirFresh(base, fmt.Sprintf("m%d", i))
		res := execMountNS(base, 2*time.Minute, bin, "child", "c13-leftover-child", "fullfs", mnt, fmt.Sprint(c.CapKiB), fmt.Sprint(c.Big), fmt.Sprint(c.Failing), fmt.Sprint(c.Follow))
		r.Eval(1)
		var rep fullFsReport
		if res.TimedOut {
			r.Inconclusive("full-filesystem child watchdog fired")
			return
		}
		if res.Code != 0 || json.Unmarshal([]byte(strings.TrimSpace(res.Stdout)), &rep) != nil {
			if strings.Contains(res.Stderr+fmt.Sprint(res.Err), "operation not permitted") {
				r.Inconclusive("mount namespaces unavailable")
				return
			}
			pend[i] = append(pend[i], pendingViol{"full-filesystem-child-died", fmt.Sprintf("the child died (exit %d): %s", res.Code, firstN(res.Stderr, 600)), c})
			return
		}
		if rep.MountErr != "" {
			r.Inconclusive("mount namespaces unavailable")
			r.Set("full_filesystem_mount_error", rep.MountErr)
			return
		}
		r.Count("full_filesystem_scenarios_run", 1)
		r.Distinct(fmt.Sprintf("fullfs/%d/%d/%d/%d", c.CapKiB, c.Big, c.Failing, c.Follow))
		model := map[string]string{}
		detail := map[string]interface{}{"scenario": c, "steps": rep.Steps}
		label := fmt.Sprintf("tmpfs of %d KiB", c.CapKiB)
		failedSeen := 0
		for si, st := range rep.Steps {
			ok := strings.HasPrefix(st.Result, "ok")
			before := fmt.Sprintf("[%s; calls so far: %s]", label, stepSummary(rep.Steps[:si+1]))
			switch st.Call {
			case "Mkdir(d)":
				model["d"] = "dir"
			case "AtomicCreate(d,x,old)":
				if ok {
					model["d/x"] = describe(pay1(vOld, 3), true)
				}
			case "AtomicCreate(d,x,big)":
				if ok {
					// it fitted after all (never on a tmpfs smaller than the data)
					model["d/x"] = describe(pay1(vData, c.Big), true)
					r.Count("full_filesystem_big_calls_that_succeeded", 1)
				} else {
					failedSeen++
					r.Count("full_filesystem_calls_failed_for_lack_of_space", 1)
				}
			case "AtomicCreate(d,y,small)":
				if ok {
					model["d/y"] = describe(pay1(vFollow, c.Follow), true)
				} else if failedSeen > 0 {
					pend[i] = append(pend[i], pendingViol{"full-filesystem-following-call-fails",
						fmt.Sprintf("after %d AtomicCreate(d,x,%d bytes) that failed for lack of space, AtomicCreate(d,y,%d bytes) — another name, data that fits %d times into the file system — reported %q; free space then: %d bytes %s",
							failedSeen, c.Big, c.Follow, c.CapKiB*1024/max(c.Follow, 1), st.Result, st.Free, before), detail})
				}
			case "AtomicCreate(d,x,tiny)":
				if ok {
					model["d/x"] = describe(pay1(vTiny, 4), true)
				} else if failedSeen > 0 {
					pend[i] = append(pend[i], pendingViol{"full-filesystem-following-call-fails",
						fmt.Sprintf("after %d AtomicCreate(d,x,%d bytes) that failed for lack of space, AtomicCreate(d,x,4 bytes) reported %q; free space then: %d bytes %s", failedSeen, c.Big, st.Result, st.Free, before), detail})
				}
			}
			// the tree after every step is the model, nothing else
			var extra, wrong []string
			for p, d := range st.Tree {
				if m, ok := model[p]; !ok {
					extra = append(extra, fmt.Sprintf("%s (%s)", p, d))
				} else if m != d {
					wrong = append(wrong, fmt.Sprintf("%s is %s, the model has %s", p, d, m))
				}
			}
			for p, m := range model {
				if _, ok := st.Tree[p]; !ok {
					wrong = append(wrong, fmt.Sprintf("%s (%s) is missing", p, m))
				}
			}
			sort.Strings(extra)
			sort.Strings(wrong)
			if len(wrong) > 0 {
				pend[i] = append(pend[i], pendingViol{"full-filesystem-tree-differs-from-model", fmt.Sprintf("after %s -> %q: %s %s", st.Call, st.Result, strings.Join(wrong, "; "), before), detail})
			}
			if len(extra) > 0 && !ok {
				pend[i] = append(pend[i], pendingViol{"full-filesystem-failed-call-leaves-staging-file",
					fmt.Sprintf("%s reported %q and the tree below the DirFs root then holds %s besides what the model has; free space: %d bytes %s", st.Call, st.Result, strings.Join(extra, ", "), st.Free, before), detail})
			} else if len(extra) > 0 && failedSeen == 0 {
				pend[i] = append(pend[i], pendingViol{"full-filesystem-extra-entries-after-successful-call", fmt.Sprintf("%s reported ok and the tree holds %s besides what the model has %s", st.Call, strings.Join(extra, ", "), before), detail})
			}
			if len(extra) == 0 && len(wrong) == 0 {
				r.Count("full_filesystem_trees_exactly_the_model", 1)
			}
		}
		if i%7 == 0 {
			r.Sample(90, map[string]interface{}{"full_filesystem_scenario": c, "steps": stepSummary(rep.Steps)})
		}
	})
	for _, pv := range pend {
		for _, v := range pv {
			r.Violate(v.sig, v.what, v.detail)
		}
	}
}

func stepSummary(steps []fullFsStep) string {
	var out []string
	for _, s := range steps {
		out = append(out, s.Call+" -> "+firstN(s.Result, 60))
	}
	return strings.Join(out, "; ")
}

func firstN(s string, n int) string {
	s = strings.TrimSpace(s)
	if len(s) > n {
		return s[:n] + "…"
	}
	return s
}

// c13Leftovers is the phase entry point.
func c13Leftovers(r *core.Run) {
	bin, err := r.BuildSelf()
	if err != nil {
		r.Inconclusive("build-failed")
		return
	}
	c13LeftoverSweep(r, bin)
	c13FullFs(r, bin)
}
