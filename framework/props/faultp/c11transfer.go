package faultp

import (
	"fmt"
	"os"
	"sort"
	"strconv"
	"strings"
)

// countOffset parses the trailing (count, offset) arguments of a
// pread64/pwrite64 line: pwrite64(3, "…"..., 4096, 8192).
func (e sysEvent) countOffset() (count, off int64, ok bool) {
	f := strings.Split(e.Args, ", ")
	if len(f) < 4 {
		return 0, 0, false
	}
	c, e1 := strconv.ParseInt(strings.TrimSpace(f[len(f)-2]), 0, 64)
	o, e2 := strconv.ParseInt(strings.TrimSpace(f[len(f)-1]), 0, 64)
	if e1 != nil || e2 != nil {
		return 0, 0, false
	}
	return c, o, true
}

// scriptBlock: the block address of a script step ("W3" -> 3).
func scriptBlock(op string) (int, bool) {
	if len(op) < 2 {
		return 0, false
	}
	a, err := strconv.Atoi(strings.Fields(op)[0][1:])
	return a, err == nil
}

var otherDataCalls = map[string]bool{"read": true, "readv": true, "preadv": true, "preadv2": true, "writev": true, "pwritev": true, "pwritev2": true, "lseek": true}

// c11TransferRanges decides, for a Write/Read/ReadTo call that reported ok,
// whether the pwrite64 (pread64) calls issued on its behalf move exactly the
// bytes of its block: none of them may ask for bytes outside
// [a*4096,(a+1)*4096), and the byte ranges actually transferred (offset,
// return value; a faked short transfer counts with the faked return value: it
// is what the implementation was told) must together cover the whole block.
// Overlaps are fine (writing a part again is harmless). judged=false when the
// call used other data-transfer syscalls or a line could not be parsed, or
// when a faked return value exceeds what was asked for (an impossible reply).
func c11TransferRanges(call apiCall) (judged bool, bad string, faked [][2]int64) {
	if len(call.Op) == 0 {
		return false, "", nil
	}
	sys := "pread64"
	if call.Op[0] == 'W' {
		sys = "pwrite64"
	} else if call.Op[0] != 'R' && call.Op[0] != 'T' {
		return false, "", nil
	}
	a, ok := scriptBlock(call.Op)
	if !ok {
		return false, "", nil
	}
	lo, hi := int64(a)*int64(bs), int64(a+1)*int64(bs)
	type rg struct{ lo, hi int64 }
	var got []rg
	for _, e := range call.Sys {
		if otherDataCalls[e.Name] {
			return false, "", nil
		}
		if e.Name != sys {
			continue
		}
		cnt, off, ok := e.countOffset()
		if !ok {
			return false, "", nil
		}
		if off < lo || off+cnt > hi {
			bad = fmt.Sprintf("%s(count %d, offset %d) asks for bytes %d..%d, outside block %d = bytes %d..%d", sys, cnt, off, off, off+cnt-1, a, lo, hi-1)
		}
		if !e.ok() {
			continue
		}
		n := e.retInt()
		if n > cnt {
			return false, "", nil
		}
		if n > 0 {
			got = append(got, rg{off, off + n})
			if e.Injected {
				faked = append(faked, [2]int64{off - lo, off - lo + n})
			}
		}
	}
	if bad != "" {
		return true, bad, faked
	}
	sort.Slice(got, func(i, j int) bool { return got[i].lo < got[j].lo })
	end := lo
	for _, g := range got {
		if g.lo > end {
			break
		}
		if g.hi > end {
			end = g.hi
		}
	}
	if end < hi {
		return true, fmt.Sprintf("no %s of the call transferred bytes %d.. of block %d (block offset %d): the ranges transferred are %v", sys, end, a, end-lo, got), faked
	}
	return true, "", faked
}

// c11ImageAfter compares the image left by a script run (with or without
// injected faults) with what the script's own results say it must hold: a
// block holds the content of the last Write of it that reported ok and had no
// injected syscall, else the prior image / zeros. Blocks whose last Write had
// an injected syscall or did not report ok are not judged ("tainted": a faked
// transfer moves no data). So a Write to block a that changes another block,
// or bytes beyond the disk, shows. skip=true when the open itself was faulted.
func c11ImageAfter(c c11case, t *trace, img string) (sig, what string, checked int) {
	prior := c11PriorLen(c)
	expect := make([][]byte, c.N)
	for b := range expect {
		expect[b] = make([]byte, bs)
		for j := range expect[b] {
			if off := b*bs + j; off < prior {
				expect[b][j] = imgPattern(off)
			}
		}
	}
	tainted := make([]bool, c.N)
	lastW := make([]string, c.N)
	opened := false
	for _, call := range t.calls() {
		if len(call.Op) == 0 {
			continue
		}
		inj := false
		for _, e := range call.Sys {
			if e.Injected {
				inj = true
			}
		}
		okRes := call.Ended && strings.HasPrefix(call.Result, "ok")
		switch call.Op[0] {
		case 'O':
			if !okRes || inj {
				return "", "", 0
			}
			opened = true
		case 'W':
			a, ok := scriptBlock(call.Op)
			if !ok || a >= c.N {
				continue
			}
			if okRes && !inj {
				expect[a], tainted[a] = c11Content(call.I), false
			} else {
				tainted[a] = true
			}
			lastW[a] = fmt.Sprintf("call %d (%s) -> %s", call.I, call.Op, call.Result)
		}
	}
	if !opened {
		return "", "", 0
	}
	file, err := os.ReadFile(img)
	if err != nil {
		return "", "", 0
	}
	if len(file) > c.N*bs {
		return "write-extended-image-beyond-disk", fmt.Sprintf("after the script the image is %d bytes, the disk has %d blocks = %d bytes: a write touched bytes beyond the last block", len(file), c.N, c.N*bs), 0
	}
	for b := 0; b < c.N; b++ {
		if tainted[b] || (b+1)*bs > len(file) {
			continue
		}
		checked++
		got := file[b*bs : (b+1)*bs]
		if string(got) != string(expect[b]) {
			first, last := -1, -1
			for j := range got {
				if got[j] != expect[b][j] {
					if first < 0 {
						first = j
					}
					last = j
				}
			}
			near := ""
			for _, nb := range []int{b - 1, b + 1} {
				if nb >= 0 && nb < c.N && tainted[nb] {
					near += fmt.Sprintf("; neighbour block %d: %s", nb, lastW[nb])
				}
			}
			return "write-changed-another-block", fmt.Sprintf("block %d of the image differs from the last value written to it (offsets %d..%d; its last Write: %q) although no faulted Write targeted it%s", b, first, last, lastW[b], near), checked
		}
	}
	return "", "", checked
}
