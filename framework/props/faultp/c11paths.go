package faultp

// C11, family "how the image path reaches the file".
//
// Every other C11 workload hands NewFileDisk the absolute, canonical path of a
// regular file. This family crosses the reopen-size matrix of c11PriorImages
// (prior image absent / 0 / 1 byte / numBlocks bytes / 4095 / 4096 / one byte
// short / exact / one byte long / three times as long, numBlocks in {1,2,5} plus
// seeded extra atoms) with the FORM OF THE PATH:
//
//	plain-absolute, relative (to the working directory), relative-dot (./img),
//	relative-dotdot (../real/img), absolute-dot-dotdot (/./ and /../ and // inside),
//	symlink-absolute, symlink-relative (relative link target), symlink-chain-3,
//	symlink-relative-path (relative path that is a symlink),
//	symlink-directory-component (a directory of the path is a symlink),
//	hard-link (second name of the inode), proc-self-fd (/proc/self/fd/N of a
//	descriptor the harness holds), proc-self-cwd (/proc/self/cwd/img)
//
// and, for both packages (disk.NewFileDisk, async_disk.NewFileDisk), runs three
// stages:
//
//	1 open through the path form over the prior image: the oracle of the
//	  reopen matrix (verifyDisk): the TARGET file (stat of its canonical name)
//	  is numBlocks*4096 bytes, Size()==numBlocks, every block reads fully, the
//	  retained prefix is preserved, everything else reads as zero;
//	2 write every block, Barrier, Close, open again through the same form with
//	  numBlocks' in {n-1, n, n+2}: same oracle against the values written;
//	3 Close, open the canonical path with numBlocks': same oracle (what was
//	  written through the form is in the file the form names).
//
// Paths that do not name a regular file must fail loudly ("failures are never
// silent"): fifo, directory, symlink-to-fifo, symlink-to-directory,
// symlink-loop, trailing-slash, file-as-directory-component,
// dangling-symlink-into-missing-directory. Either NewFileDisk reports an error
// (or panics), or every Read / ReadTo / Write through the disk it returned
// panics; a Read or Write that returns normally is a violation (no pread or
// pwrite of a fifo or directory can have moved the block).
//
// Everything runs in child processes (relative forms need their own working
// directory, a fifo could block a mutated open: watchdog -> inconclusive).

import (
	"encoding/json"
	"fmt"
	"os"
	"path/filepath"
	"sort"
	"strings"
	"syscall"
	"time"

	"verif/core"
	"verif/props"

	"github.com/goose-lang/goose/machine/async_disk"
	"github.com/goose-lang/goose/machine/disk"
)

func init() {
	props.Children["c11-path-child"] = c11PathChild
}

var c11PathForms = []string{"plain-absolute", "relative", "relative-dot", "relative-dotdot", "absolute-dot-dotdot",
	"symlink-absolute", "symlink-relative", "symlink-chain-3", "symlink-relative-path", "symlink-directory-component",
	"hard-link", "proc-self-fd", "proc-self-cwd"}

var c11LoudForms = []string{"fifo", "directory", "symlink-to-fifo", "symlink-to-directory", "symlink-loop", "trailing-slash",
	"file-as-directory-component", "dangling-symlink-into-missing-directory"}

type c11pathCase struct {
	ID       int    `json:"id"`
	Pkg      string `json:"package"`
	Form     string `json:"path_form"`
	Loud     bool   `json:"must_fail_loudly,omitempty"`
	N        int    `json:"num_blocks"`
	Class    string `json:"prior_image"`
	PriorLen int    `json:"prior_len_bytes"` // -1 absent
	N2       int    `json:"num_blocks_second_open"`
}

type c11pathStage struct {
	Name   string `json:"stage"`
	Path   string `json:"path_given"`
	N      int    `json:"num_blocks"`
	What   string `json:"failed_clause,omitempty"` // "" = every clause held
	Detail string `json:"detail,omitempty"`
	Probe  string `json:"probe,omitempty"`
}

type c11pathObs struct {
	ID      int            `json:"id"`
	Skipped string         `json:"skipped,omitempty"`
	Harness string         `json:"harness_error,omitempty"`
	Target  string         `json:"target"`
	Stages  []c11pathStage `json:"stages,omitempty"`
	// loud forms
	Open  string            `json:"open,omitempty"` // error: … | panic: … | ok
	Ops   map[string]string `json:"operations,omitempty"`
	Done  bool              `json:"done"`
	Lstat string            `json:"lstat_of_path_given,omitempty"`
}

func c11PathOpen(pkg, path string, n int) (d disk.FileDisk, err error, p string) {
	p = protect(func() {
		if pkg == "async_disk" {
			d, err = async_disk.NewFileDisk(path, uint64(n))
		} else {
			d, err = disk.NewFileDisk(path, uint64(n))
		}
	})
	return
}

// c11PathChild: args = specfile dir
func c11PathChild(args []string) int {
	if len(args) < 2 {
		return 2
	}
	raw, err := os.ReadFile(args[0])
	if err != nil {
		return 2
	}
	var cases []c11pathCase
	if json.Unmarshal(raw, &cases) != nil {
		return 2
	}
	home, _ := os.Getwd()
	for _, c := range cases {
		dir := filepath.Join(args[1], fmt.Sprintf("c%d", c.ID))
		os.RemoveAll(dir)
		o := c11PathRun(c, dir)
		os.Chdir(home)
		os.RemoveAll(dir)
		o.Done = true
		b, _ := json.Marshal(o)
		fmt.Println(string(b))
	}
	return 0
}

func lstatKind(path string) string {
	st, err := os.Lstat(path)
	if err != nil {
		return "lstat: " + err.Error()
	}
	return st.Mode().Type().String() + fmt.Sprintf(" (%d bytes)", st.Size())
}

func c11PathRun(c c11pathCase, dir string) *c11pathObs {
	o := &c11pathObs{ID: c.ID}
	real := filepath.Join(dir, "real")
	if err := os.MkdirAll(real, 0o755); err != nil {
		o.Harness = err.Error()
		return o
	}
	target := filepath.Join(real, "img")
	o.Target = target
	must := func(err error) bool {
		if err != nil && o.Harness == "" {
			o.Harness = err.Error()
		}
		return err == nil
	}
	if c.Loud {
		c11PathLoud(c, dir, real, target, o, must)
		return o
	}
	if c.PriorLen >= 0 {
		b := make([]byte, c.PriorLen)
		for i := range b {
			b[i] = imgPattern(i)
		}
		if !must(os.WriteFile(target, b, 0o644)) {
			return o
		}
	}
	path := target
	var keep *os.File
	defer func() {
		if keep != nil {
			keep.Close()
		}
	}()
	switch c.Form {
	case "plain-absolute":
	case "relative":
		must(os.Chdir(dir))
		path = "real/img"
	case "relative-dot":
		must(os.Chdir(real))
		path = "./img"
	case "relative-dotdot":
		must(os.Chdir(real))
		path = "../real/img"
	case "absolute-dot-dotdot":
		must(os.Mkdir(filepath.Join(dir, "other"), 0o755))
		path = dir + "/other/.././real//./img"
	case "symlink-absolute":
		path = filepath.Join(dir, "link")
		must(os.Symlink(target, path))
	case "symlink-relative":
		path = filepath.Join(dir, "link")
		must(os.Symlink("real/img", path))
	case "symlink-chain-3":
		must(os.Symlink(target, filepath.Join(dir, "l3")))
		must(os.Symlink("l3", filepath.Join(real, "..", "l2")))
		must(os.Symlink(filepath.Join(dir, "l2"), filepath.Join(real, "l1")))
		path = filepath.Join(real, "l1")
	case "symlink-relative-path":
		must(os.Chdir(dir))
		must(os.Symlink("real/img", "link"))
		path = "link"
	case "symlink-directory-component":
		must(os.Symlink("real", filepath.Join(dir, "dlink")))
		path = filepath.Join(dir, "dlink", "img")
	case "hard-link":
		if c.PriorLen < 0 {
			o.Skipped = "an absent image has no second name"
			return o
		}
		path = filepath.Join(dir, "alias")
		must(os.Link(target, path))
	case "proc-self-fd":
		if c.PriorLen < 0 {
			o.Skipped = "an absent image has no descriptor"
			return o
		}
		f, err := os.OpenFile(target, os.O_RDWR, 0)
		if !must(err) {
			return o
		}
		keep = f
		path = fmt.Sprintf("/proc/self/fd/%d", f.Fd())
	case "proc-self-cwd":
		must(os.Chdir(real))
		path = "/proc/self/cwd/img"
	default:
		o.Harness = "unknown form " + c.Form
	}
	if o.Harness != "" {
		return o
	}
	o.Lstat = lstatKind(path)
	// expectation after stage 1
	retained := c.PriorLen
	if retained < 0 {
		retained = 0
	}
	if retained > c.N*bs {
		retained = c.N * bs
	}
	want := make([][]byte, c.N)
	for a := range want {
		want[a] = make([]byte, bs)
		for i := range want[a] {
			if a*bs+i < retained {
				want[a][i] = imgPattern(a*bs + i)
			}
		}
	}
	stage := func(name, pth string, n int, want [][]byte, retainedBytes int) (disk.FileDisk, bool) {
		st := c11pathStage{Name: name, Path: pth, N: n}
		d, err, p := c11PathOpen(c.Pkg, pth, n)
		switch {
		case p != "":
			st.What, st.Detail = "open-panic", p
		case err != nil:
			st.What, st.Detail = "open-error", err.Error()
		default:
			st.What, st.Detail = verifyDisk(d, target, want, retainedBytes)
			if st.What != "" && n > 0 {
				// what a client sees of the last block (the one a missing resize leaves outside the image)
				buf := make([]byte, bs)
				for i := range buf {
					buf[i] = c11Dirt
				}
				if pp := protect(func() { d.ReadTo(uint64(n-1), buf) }); pp != "" {
					st.Probe = fmt.Sprintf("ReadTo(%d) panics: %s", n-1, pp)
				} else {
					dirt := 0
					for _, x := range buf {
						if x == c11Dirt {
							dirt++
						}
					}
					st.Probe = fmt.Sprintf("ReadTo(%d) returns normally, %d bytes of the caller's buffer untouched", n-1, dirt)
				}
				if fi, e := os.Stat(target); e == nil {
					st.Probe += fmt.Sprintf("; target file is %d bytes", fi.Size())
				}
			}
		}
		o.Stages = append(o.Stages, st)
		if st.What != "" {
			if p == "" && err == nil {
				protect(func() { d.Close() })
			}
			return d, false
		}
		return d, true
	}
	d, ok := stage("open-through-the-form", path, c.N, want, retained)
	if !ok {
		return o
	}
	// stage 2: write every block through the form, close, reopen through the form
	model := make([][]byte, c.N)
	for a := 0; a < c.N; a++ {
		model[a] = c11Content(c.ID*17 + a)
		if p := protect(func() { d.Write(uint64(a), model[a]) }); p != "" {
			o.Stages = append(o.Stages, c11pathStage{Name: "write-through-the-form", Path: path, N: c.N, What: "write-panic", Detail: fmt.Sprintf("Write(%d) panicked without any fault: %s", a, p)})
			protect(func() { d.Close() })
			return o
		}
	}
	if c.ID%2 == 0 {
		if p := protect(func() { d.Barrier() }); p != "" {
			o.Stages = append(o.Stages, c11pathStage{Name: "write-through-the-form", Path: path, N: c.N, What: "barrier-panic", Detail: p})
			protect(func() { d.Close() })
			return o
		}
	}
	if p := protect(func() { d.Close() }); p != "" {
		o.Stages = append(o.Stages, c11pathStage{Name: "write-through-the-form", Path: path, N: c.N, What: "close-panic", Detail: p})
		return o
	}
	keepN := c.N
	if c.N2 < keepN {
		keepN = c.N2
	}
	m2 := make([][]byte, c.N2)
	for a := range m2 {
		if a < keepN {
			m2[a] = model[a]
		} else {
			m2[a] = make([]byte, bs)
		}
	}
	d, ok = stage("reopen-through-the-form", path, c.N2, m2, keepN*bs)
	if !ok {
		return o
	}
	if p := protect(func() { d.Close() }); p != "" {
		o.Stages = append(o.Stages, c11pathStage{Name: "reopen-through-the-form", Path: path, N: c.N2, What: "close-panic", Detail: p})
		return o
	}
	// stage 3: the canonical name of the file
	d, ok = stage("reopen-canonical-path", target, c.N2, m2, keepN*bs)
	if ok {
		protect(func() { d.Close() })
	}
	return o
}

func c11PathLoud(c c11pathCase, dir, real, target string, o *c11pathObs, must func(error) bool) {
	path := target
	full := make([]byte, c.N*bs)
	for i := range full {
		full[i] = imgPattern(i)
	}
	switch c.Form {
	case "fifo":
		must(syscall.Mkfifo(target, 0o644))
	case "directory":
		must(os.Mkdir(target, 0o755))
	case "symlink-to-fifo":
		must(syscall.Mkfifo(target, 0o644))
		path = filepath.Join(dir, "link")
		must(os.Symlink(target, path))
	case "symlink-to-directory":
		must(os.Mkdir(target, 0o755))
		path = filepath.Join(dir, "link")
		must(os.Symlink(target, path))
	case "symlink-loop":
		must(os.Symlink("b", filepath.Join(dir, "a")))
		must(os.Symlink("a", filepath.Join(dir, "b")))
		path = filepath.Join(dir, "a")
	case "trailing-slash":
		must(os.WriteFile(target, full, 0o644))
		path = target + "/"
	case "file-as-directory-component":
		must(os.WriteFile(target, full, 0o644))
		path = target + "/img"
	case "dangling-symlink-into-missing-directory":
		path = filepath.Join(dir, "link")
		must(os.Symlink(filepath.Join(dir, "nowhere", "img"), path))
	default:
		o.Harness = "unknown form " + c.Form
	}
	if o.Harness != "" {
		return
	}
	o.Lstat = lstatKind(path)
	d, err, p := c11PathOpen(c.Pkg, path, c.N)
	switch {
	case p != "":
		o.Open = "panic: " + p
		return
	case err != nil:
		o.Open = "error: " + err.Error()
		return
	}
	o.Open = "ok"
	o.Ops = map[string]string{}
	outcome := func(p string) string {
		if p != "" {
			return "panic: " + p
		}
		return "ok"
	}
	buf := make([]byte, bs)
	for i := range buf {
		buf[i] = c11Dirt
	}
	o.Ops["ReadTo"] = outcome(protect(func() { d.ReadTo(0, buf) }))
	o.Ops["Read"] = outcome(protect(func() { d.Read(0) }))
	o.Ops["Write"] = outcome(protect(func() { d.Write(0, c11Content(c.ID)) }))
	o.Ops["Barrier-not-judged"] = outcome(protect(func() { d.Barrier() }))
	protect(func() { d.Close() })
}

// ---------------------------------------------------------------- parent

func c11PathCases(r *core.Run) []c11pathCase {
	rng := core.NewRng(r.Seed, "c11-paths")
	var cases []c11pathCase
	type cl struct {
		name string
		l    int
	}
	add := func(pkg, form string, n int, c cl) {
		n2 := []int{n - 1, n, n + 2}[rng.Intn(3)]
		cases = append(cases, c11pathCase{ID: len(cases), Pkg: pkg, Form: form, N: n, Class: c.name, PriorLen: c.l, N2: n2})
	}
	for _, pkg := range []string{"disk", "async_disk"} {
		for _, form := range c11PathForms {
			for _, n := range []int{1, 2, 5} {
				classes := []cl{{"absent", -1}, {"0", 0}, {"1", 1}, {"numblocks-bytes", n}, {"4095", 4095}, {"4096", 4096},
					{"full-minus-1", n*bs - 1}, {"full", n * bs}, {"full-plus-1", n*bs + 1}, {"triple", 3 * n * bs}}
				seen := map[int]bool{}
				for _, c := range classes {
					if seen[c.l] {
						continue
					}
					seen[c.l] = true
					add(pkg, form, n, c)
				}
			}
			// seeded atoms: other block counts, lengths on and off block boundaries
			for k := 0; k < r.Pick(4, 40); k++ {
				n := 1 + rng.Intn(12)
				var c cl
				switch rng.Intn(4) {
				case 0:
					c = cl{"shorter-aligned", rng.Intn(n) * bs}
				case 1:
					c = cl{"shorter-unaligned", rng.Intn(n*bs-1) + 1}
				case 2:
					c = cl{"longer-aligned", (n + 1 + rng.Intn(2*n)) * bs}
				default:
					c = cl{"longer-unaligned", n*bs + 1 + rng.Intn(3*bs)}
				}
				add(pkg, form, n, c)
			}
		}
		for _, form := range c11LoudForms {
			for _, n := range []int{1, 3} {
				cases = append(cases, c11pathCase{ID: len(cases), Pkg: pkg, Form: form, Loud: true, N: n, Class: "not-a-regular-file"})
			}
		}
	}
	return cases
}

// c11SizeRelation names the relation between the prior image and the requested size.
func c11SizeRelation(c c11pathCase) string {
	full := c.N * bs
	switch {
	case c.PriorLen < 0:
		return "absent"
	case c.PriorLen == 0:
		return "empty"
	case c.PriorLen == full:
		return "equal"
	case c.PriorLen < full && c.PriorLen%bs == 0:
		return "shorter-block-aligned"
	case c.PriorLen < full:
		return "shorter-not-block-aligned"
	case c.PriorLen%bs == 0:
		return "longer-block-aligned"
	}
	return "longer-not-block-aligned"
}

func c11PathFamily(r *core.Run) {
	bin, err := r.BuildSelf()
	if err != nil {
		r.Inconclusive("build-failed")
		return
	}
	cases := c11PathCases(r)
	r.Count("image_path_cases_generated", int64(len(cases)))
	base := mkdirFresh(r.Scratch, "c11path")
	const shards = 8
	obs := make([]*c11pathObs, len(cases))
	core.Parallel(shards, shards, func(s int) {
		var mine []c11pathCase
		for i, c := range cases {
			if i%shards == s {
				mine = append(mine, c)
			}
		}
		dir := mkdirFresh(base, fmt.Sprintf("s%d", s))
		spec := filepath.Join(dir, "spec.json")
		js, _ := json.Marshal(mine)
		os.WriteFile(spec, js, 0o644)
		res := core.Exec(dir, nil, time.Duration(r.Pick(120, 600))*time.Second, "", bin, "child", "c11-path-child", spec, dir)
		for _, l := range strings.Split(res.Stdout, "\n") {
			var o c11pathObs
			if l != "" && json.Unmarshal([]byte(l), &o) == nil && o.Done && o.ID >= 0 && o.ID < len(cases) {
				oo := o
				obs[o.ID] = &oo
			}
		}
		if res.TimedOut {
			r.Inconclusive("image-path-child-watchdog")
		} else if res.Code != 0 {
			r.Inconclusive("image-path-child-died")
			fmt.Fprintf(os.Stderr, "c11-path-child shard %d exit %d: %.400s\n", s, res.Code, res.Stderr)
		}
		os.RemoveAll(dir)
	})
	forms := map[string]bool{}
	rels := map[string]bool{}
	sampled := map[string]bool{}
	for i, c := range cases {
		o := obs[i]
		if o == nil {
			r.Count("image_path_cases_not_completed", 1)
			continue
		}
		if o.Harness != "" {
			r.Inconclusive("image-path-fixture-failed")
			fmt.Fprintf(os.Stderr, "c11 path case %d (%s): fixture: %s\n", c.ID, c.Form, o.Harness)
			continue
		}
		if o.Skipped != "" {
			r.Count("image_path_cases_not_applicable", 1)
			continue
		}
		r.Eval(1)
		if c.Loud {
			c11JudgeLoud(r, c, o, sampled)
			continue
		}
		rel := c11SizeRelation(c)
		forms[c.Form], rels[rel] = true, true
		r.Count("image_path_cases_judged", 1)
		r.Count("image_path_cases_"+c.Pkg, 1)
		r.Count("image_path_form_"+c.Form+"_x_"+rel, 1)
		r.Distinct(fmt.Sprintf("imgpath/%s/%s/n=%d/len=%d", c.Pkg, c.Form, c.N, c.PriorLen))
		bad := false
		for _, st := range o.Stages {
			r.Count("image_path_opens_verified_stage_"+st.Name, 1)
			if st.What == "" {
				r.Count("image_path_blocks_read_back", int64(st.N))
				continue
			}
			bad = true
			// sig: the path form and the failed clause; the stage, the size relation and the package
			// are in the text
			sig := fmt.Sprintf("image-path-%s-%s", c.Form, st.What)
			what := fmt.Sprintf("%s.NewFileDisk(%q, %d) [path form %s; Lstat of that path: %s] over a prior image of %d bytes (%s; relation %s), stage %s: %s: %s",
				c.Pkg, st.Path, st.N, c.Form, o.Lstat, c.PriorLen, c.Class, rel, st.Name, st.What, st.Detail)
			if st.Probe != "" {
				what += " — " + st.Probe
			}
			r.Violate(sig, what, map[string]interface{}{"case": c, "observed": o,
				"fixture": "dir/real/img is the image (prior content imgPattern); the path given reaches it as the form says; length is judged by stat of dir/real/img"})
			break
		}
		if !bad && !sampled[c.Form] && rel != "equal" && rel != "absent" {
			sampled[c.Form] = true
			r.Sample(80, map[string]interface{}{"image_path_case": c, "size_relation": rel, "lstat_of_path_given": o.Lstat, "stages": o.Stages,
				"verdict": "target length n*4096, Size()==n, retained prefix preserved, new blocks zero, every block fully read, in all three stages"})
		}
	}
	var fs, rs []string
	for f := range forms {
		fs = append(fs, f)
	}
	for x := range rels {
		rs = append(rs, x)
	}
	sort.Strings(fs)
	sort.Strings(rs)
	r.Set("image_path_forms_judged", fs)
	r.Set("image_path_size_relations_judged", rs)
}

func c11JudgeLoud(r *core.Run, c c11pathCase, o *c11pathObs, sampled map[string]bool) {
	r.Count("image_path_not_a_regular_file_cases_judged", 1)
	r.Distinct(fmt.Sprintf("imgpath-loud/%s/%s/n=%d", c.Pkg, c.Form, c.N))
	detail := map[string]interface{}{"case": c, "observed": o}
	switch {
	case strings.HasPrefix(o.Open, "error"):
		r.Count("image_path_not_a_regular_file_"+c.Form+"_open_reported_error", 1)
	case strings.HasPrefix(o.Open, "panic"):
		r.Count("image_path_not_a_regular_file_"+c.Form+"_open_panicked", 1)
	default:
		r.Count("image_path_not_a_regular_file_"+c.Form+"_open_ok", 1)
		for _, op := range []string{"ReadTo", "Read", "Write"} {
			if o.Ops[op] == "ok" {
				r.Violate(fmt.Sprintf("image-path-%s-%s-reports-success", c.Form, op),
					fmt.Sprintf("%s.NewFileDisk on a path that names no regular file (%s: %s) returned a disk without error, and %s(0) through it returned normally: no pread/pwrite of such an object can have moved the block", c.Pkg, c.Form, o.Lstat, op), detail)
			} else {
				r.Count("image_path_not_a_regular_file_operations_that_panicked", 1)
			}
		}
	}
	if !sampled["loud/"+c.Form] {
		sampled["loud/"+c.Form] = true
		r.Sample(80, map[string]interface{}{"image_path_not_a_regular_file": c.Form, "lstat_of_path_given": o.Lstat, "open": o.Open, "operations": o.Ops})
	}
}
