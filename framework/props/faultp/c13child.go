package faultp

import (
	"bytes"
	"encoding/json"
	"fmt"
	"os"
	"os/signal"
	"sort"
	"strconv"
	"sync"
	"sync/atomic"
	"syscall"

	"verif/props"

	"github.com/goose-lang/goose/machine/filesys"
)

func init() {
	props.Children["c13-child"] = c13Child
}

// pay1 is the payload of the crash/fault part: one version byte repeated.
func pay1(v byte, n int) []byte { return bytes.Repeat([]byte{v}, n) }

// c13PreName / c13PreData: target and payload of the complete calls a child
// performs before the call under test.
const c13PreName = "g"

func c13PreData(j int) []byte { return pay1(5, 7+j) }

// c13Child: `ac root dir name vbyte len [pre]` performs one bracketed
// DirFs.AtomicCreate after `pre` complete calls for another name (and reports
// its pid in a `PID n` marker); `aclimit root dir name vbyte len limit [pre]`
// the same under a file-size limit; `conc <json spec>` runs a concurrency
// scenario.
func c13Child(args []string) int {
	if len(args) >= 1 && args[0] == "conc" {
		return c13Conc(args[1:])
	}
	limit := int64(-1)
	if len(args) >= 7 && args[0] == "aclimit" {
		// the file-size limit makes the kernel cut a write short (the rest fails with EFBIG),
		// the way a full disk or a quota does
		limit, _ = strconv.ParseInt(args[6], 10, 64)
		args = append([]string{"ac"}, append(append([]string{}, args[1:6]...), args[7:]...)...)
	}
	if len(args) < 6 || args[0] != "ac" {
		mark("usage")
		return 2
	}
	root, dir, name := args[1], args[2], args[3]
	v, _ := strconv.Atoi(args[4])
	n, _ := strconv.Atoi(args[5])
	// optional: number of complete AtomicCreate calls (of another name) this
	// process performs before the call under test, so that the call under test
	// is the (pre+1)-th of its process
	pre := 0
	if len(args) >= 7 {
		pre, _ = strconv.Atoi(args[6])
	}
	data := pay1(byte(v), n)
	fs := filesys.NewDirFs(root)
	res := "ok"
	mark("PID %d", os.Getpid())
	for j := 0; j < pre; j++ {
		pres := "ok"
		func() {
			defer func() {
				if e := recover(); e != nil {
					pres = "panic " + fmt.Sprint(e)
				}
			}()
			fs.AtomicCreate(dir, c13PreName, c13PreData(j))
		}()
		mark("PRE %d %s", j, pres)
	}
	if limit >= 0 {
		signal.Ignore(syscall.SIGXFSZ)
		lim := syscall.Rlimit{Cur: uint64(limit), Max: uint64(limit)}
		if err := syscall.Setrlimit(syscall.RLIMIT_FSIZE, &lim); err != nil {
			mark("setrlimit failed: %v", err)
			return 3
		}
	}
	mark("BEGIN 0 AtomicCreate")
	func() {
		defer func() {
			if e := recover(); e != nil {
				res = "panic " + fmt.Sprint(e)
			}
		}()
		fs.AtomicCreate(dir, name, data)
	}()
	mark("END 0 %s", res)
	return 0
}

// ---------------------------------------------------------------- concurrency

// payN is the payload of the concurrency part: the version id as a 4-byte
// little-endian token repeated to a length that is a function of the id, so
// a reader identifies the version it saw, and truncation, tails and
// mixtures are visible.
func payLen(id uint32, maxLen int) int {
	return 8 + int(((uint64(id)*2654435761+paySalt*0x9E3779B97F4A7C15)>>7)%uint64(maxLen))
}

// paySalt (from VERIF_SEED via the spec) varies the version lengths.
var paySalt uint64

func payN(id uint32, maxLen int) []byte {
	n := payLen(id, maxLen)
	b := make([]byte, n)
	for i := range b {
		b[i] = byte((id + 1) >> (8 * uint(i%4)))
	}
	return b
}

// classify decodes a file content: the version id if it is exactly one
// complete payload, else a description of what is wrong.
func classify(b []byte, maxLen int) (id uint32, ok bool, why string) {
	if len(b) < 8 {
		return 0, false, fmt.Sprintf("length %d shorter than any version", len(b))
	}
	tok := uint32(b[0]) | uint32(b[1])<<8 | uint32(b[2])<<16 | uint32(b[3])<<24
	id = tok - 1
	for i := range b {
		if b[i] != byte(tok>>(8*uint(i%4))) {
			j := i - i%4
			var t2 uint32
			for k := 0; k < 4 && j+k < len(b); k++ {
				t2 |= uint32(b[j+k]) << (8 * uint(k))
			}
			return id, false, fmt.Sprintf("mixture: version %d up to offset %d, then bytes of token %d (file length %d, version %d has length %d)",
				id, i, int64(t2)-1, len(b), id, payLen(id, maxLen))
		}
	}
	if len(b) != payLen(id, maxLen) {
		return id, false, fmt.Sprintf("version %d with length %d instead of %d", id, len(b), payLen(id, maxLen))
	}
	return id, true, ""
}

type concSpec struct {
	Fs       string `json:"fs"`       // dir | mem
	Root     string `json:"root"`     // DirFs root (fresh, empty)
	Scenario string `json:"scenario"` // readers | pair-same-dir-diff-name | pair-diff-dir-same-name | pair-same-dir-same-name
	Creators int    `json:"creators"`
	Readers  int    `json:"readers"`
	Rounds   int    `json:"rounds"`
	MaxLen   int    `json:"max_len"`
	Salt     uint64 `json:"length_salt"`
}

type concAnomaly struct {
	Kind   string `json:"kind"`
	Round  int    `json:"round"`
	Who    string `json:"who"`
	Detail string `json:"detail"`
}

type concReport struct {
	Spec           concSpec       `json:"spec"`
	CreateCalls    int64          `json:"create_calls"`
	ReaderObs      int64          `json:"reader_observations"`
	ListObs        int64          `json:"list_observations"`
	ListMissing    int64          `json:"list_missing_dest"`
	VersionsSeen   int            `json:"distinct_versions_seen_by_readers"`
	NonInitialSeen int64          `json:"reader_observations_of_non_initial_version"`
	FinalChecks    int64          `json:"final_state_checks"`
	OverlapRounds  int64          `json:"rounds_with_overlapping_creators"`
	Anomalies      []concAnomaly  `json:"anomalies"`
	AnomalyCount   map[string]int `json:"anomaly_count"`
}

type target struct{ dir, name string }

// c13Conc runs one scenario and prints one JSON report on stdout. Panics of
// the library are recovered per call and recorded; a fatal runtime error
// kills this child, which the parent reports.
func c13Conc(args []string) int {
	var sp concSpec
	if len(args) < 1 || json.Unmarshal([]byte(args[0]), &sp) != nil {
		fmt.Fprintln(os.Stderr, "bad spec")
		return 2
	}
	paySalt = sp.Salt
	var fs filesys.Filesys
	isMem := sp.Fs == "mem"
	if isMem {
		fs = filesys.NewMemFs()
	} else {
		fs = filesys.NewDirFs(sp.Root)
	}
	fs.Mkdir("d1")
	fs.Mkdir("d2")
	rep := &concReport{Spec: sp, AnomalyCount: map[string]int{}}
	var mu sync.Mutex
	anomaly := func(kind string, round int, who, detail string) {
		mu.Lock()
		rep.AnomalyCount[kind]++
		if rep.AnomalyCount[kind] <= 3 {
			rep.Anomalies = append(rep.Anomalies, concAnomaly{kind, round, who, detail})
		}
		mu.Unlock()
	}
	call := func(f func()) (p string) {
		defer func() {
			if e := recover(); e != nil {
				p = fmt.Sprint(e)
				if p == "" {
					p = "panic"
				}
			}
		}()
		f()
		return ""
	}
	readWhole := func(t target) ([]byte, string) {
		var b []byte
		p := call(func() {
			f := fs.Open(t.dir, t.name)
			b = fs.ReadAt(f, 0, uint64(sp.MaxLen+4096))
			if !isMem {
				// MemFs descriptors are inode numbers shared by all openers
				// (the subject of C12): closing would invalidate the other
				// readers' descriptor, so MemFs readers do not close.
				fs.Close(f)
			}
		})
		return b, p
	}
	// version ids: creator c, round k -> 1 + c*rounds + k ; 0 is the initial version
	vid := func(c, k int) uint32 { return uint32(1 + c*sp.Rounds + k) }

	switch sp.Scenario {
	case "readers":
		t := target{"d1", "f"}
		if p := call(func() { fs.AtomicCreate(t.dir, t.name, payN(0, sp.MaxLen)) }); p != "" {
			anomaly("setup-failed", -1, "setup", p)
			break
		}
		var done int32
		var wg, rg sync.WaitGroup
		seen := make([]map[uint32]bool, sp.Readers)
		for ri := 0; ri < sp.Readers; ri++ {
			seen[ri] = map[uint32]bool{}
			rg.Add(1)
			go func(ri int) {
				defer rg.Done()
				for it := 0; ; it++ {
					fin := atomic.LoadInt32(&done) == 1
					b, p := readWhole(t)
					atomic.AddInt64(&rep.ReaderObs, 1)
					if p != "" {
						anomaly("reader-failed", it, fmt.Sprintf("reader %d", ri), p)
					} else {
						id, ok, why := classify(b, sp.MaxLen)
						if !ok {
							anomaly("reader-saw-incomplete", it, fmt.Sprintf("reader %d", ri), why)
						} else if id > uint32(sp.Creators*sp.Rounds) {
							anomaly("reader-saw-unwritten-version", it, fmt.Sprintf("reader %d", ri), fmt.Sprintf("version %d was never written", id))
						} else {
							seen[ri][id] = true
							if id != 0 {
								atomic.AddInt64(&rep.NonInitialSeen, 1)
							}
						}
					}
					if it%4 == 3 {
						var names []string
						p := call(func() { names = fs.List(t.dir) })
						atomic.AddInt64(&rep.ListObs, 1)
						if p != "" {
							anomaly("list-failed", it, fmt.Sprintf("reader %d", ri), p)
						} else {
							found := false
							for _, n := range names {
								if n == t.name {
									found = true
								}
							}
							if !found {
								atomic.AddInt64(&rep.ListMissing, 1)
								sort.Strings(names)
								anomaly("list-missing-dest", it, fmt.Sprintf("reader %d", ri), fmt.Sprintf("List(%q) = %v", t.dir, names))
							}
						}
					}
					if fin {
						return
					}
				}
			}(ri)
		}
		for c := 0; c < sp.Creators; c++ {
			wg.Add(1)
			go func(c int) {
				defer wg.Done()
				for k := 0; k < sp.Rounds; k++ {
					id := vid(c, k)
					p := call(func() { fs.AtomicCreate(t.dir, t.name, payN(id, sp.MaxLen)) })
					atomic.AddInt64(&rep.CreateCalls, 1)
					if p != "" {
						anomaly("creator-failed", k, fmt.Sprintf("creator %d", c), p)
					}
				}
			}(c)
		}
		wg.Wait()
		atomic.StoreInt32(&done, 1)
		rg.Wait()
		all := map[uint32]bool{}
		for _, s := range seen {
			for id := range s {
				all[id] = true
			}
		}
		rep.VersionsSeen = len(all)
		b, p := readWhole(t)
		rep.FinalChecks++
		if p != "" {
			anomaly("final-read-failed", sp.Rounds, "final", p)
		} else if id, ok, why := classify(b, sp.MaxLen); !ok {
			anomaly("final-incomplete", sp.Rounds, "final", why)
		} else {
			last := false
			for c := 0; c < sp.Creators; c++ {
				if id == vid(c, sp.Rounds-1) {
					last = true
				}
			}
			if !last {
				anomaly("final-not-a-last-version", sp.Rounds, "final", fmt.Sprintf("file holds version %d which is not the last version of any creator", id))
			}
		}
	default:
		var ts [2]target
		switch sp.Scenario {
		case "pair-same-dir-diff-name":
			ts = [2]target{{"d1", "fa"}, {"d1", "fb"}}
		case "pair-diff-dir-same-name":
			ts = [2]target{{"d1", "f"}, {"d2", "f"}}
		case "pair-same-dir-same-name":
			ts = [2]target{{"d1", "f"}, {"d1", "f"}}
		default:
			fmt.Fprintln(os.Stderr, "bad scenario")
			return 2
		}
		same := ts[0] == ts[1]
		for k := 0; k < sp.Rounds; k++ {
			var wg sync.WaitGroup
			var start sync.WaitGroup
			start.Add(1)
			var inflight, overlapped int32
			for c := 0; c < 2; c++ {
				wg.Add(1)
				go func(c int) {
					defer wg.Done()
					id := vid(c, k)
					data := payN(id, sp.MaxLen)
					start.Wait()
					if atomic.AddInt32(&inflight, 1) == 2 {
						atomic.StoreInt32(&overlapped, 1)
					}
					p := call(func() { fs.AtomicCreate(ts[c].dir, ts[c].name, data) })
					atomic.AddInt32(&inflight, -1)
					atomic.AddInt64(&rep.CreateCalls, 1)
					if p != "" {
						anomaly("creator-failed", k, fmt.Sprintf("creator %d on %s/%s", c, ts[c].dir, ts[c].name), p)
					}
				}(c)
			}
			start.Done()
			wg.Wait()
			if overlapped == 1 {
				rep.OverlapRounds++
			}
			for c := 0; c < 2; c++ {
				if same && c == 1 {
					break
				}
				b, p := readWhole(ts[c])
				rep.FinalChecks++
				who := fmt.Sprintf("%s/%s", ts[c].dir, ts[c].name)
				if p != "" {
					anomaly("final-read-failed", k, who, p)
					continue
				}
				id, ok, why := classify(b, sp.MaxLen)
				if !ok {
					anomaly("final-incomplete", k, who, why)
					continue
				}
				if same {
					if id != vid(0, k) && id != vid(1, k) {
						anomaly("final-wrong-version", k, who, fmt.Sprintf("holds version %d, creators wrote %d and %d", id, vid(0, k), vid(1, k)))
					}
				} else if id != vid(c, k) {
					anomaly("final-wrong-version", k, who, fmt.Sprintf("holds version %d, its only creator wrote %d (the other creator wrote %d to %s/%s)", id, vid(c, k), vid(1-c, k), ts[1-c].dir, ts[1-c].name))
				}
			}
		}
	}
	out, _ := json.Marshal(rep)
	fmt.Println(string(out))
	return 0
}
