package faultp

import (
	"bytes"
	"context"
	"fmt"
	"os"
	"os/exec"
	"path"
	"path/filepath"
	"strconv"
	"strings"
	"sync"
	"syscall"
	"time"

	"verif/core"
)

// C13, "whatever was left behind by earlier interrupted calls" includes the
// leftovers of a process with the SAME identity: a daemon restarted as pid 1
// of a container, an exec, a reused pid — and at the same point of its life
// (the same number of AtomicCreate calls before). The interrupted child and
// the recovery child are therefore started in fresh PID namespaces (strace is
// pid 1 there, the child always gets the same pid) and perform the same
// number of complete calls before the call under test.
//
// The oracle knows nothing about staging names: after the recovery call
// returns, dir/name must be exactly its data. Only the evidence counters look
// at names: a recovery run "found a pre-existing file" when its strace log
// shows an open with O_CREAT of a path that existed in the leftover tree.

// execNS runs a command in a fresh PID namespace (it becomes pid 1 there).
func execNS(dir string, timeout time.Duration, name string, args ...string) core.ExecResult {
	ctx, cancel := context.WithTimeout(context.Background(), timeout)
	defer cancel()
	cmd := exec.CommandContext(ctx, name, args...)
	cmd.Dir = dir
	cmd.SysProcAttr = &syscall.SysProcAttr{Cloneflags: syscall.CLONE_NEWPID}
	var so, se bytes.Buffer
	cmd.Stdout = &so
	cmd.Stderr = &se
	cmd.WaitDelay = 5 * time.Second
	err := cmd.Run()
	res := core.ExecResult{Stdout: so.String(), Stderr: se.String(), Err: err}
	if ctx.Err() == context.DeadlineExceeded {
		res.TimedOut = true
	}
	if cmd.ProcessState != nil {
		res.Code = cmd.ProcessState.ExitCode()
		if res.Code == -1 {
			res.Signaled = true
		}
	} else if err != nil {
		res.Code = -2
	}
	return res
}

// runStraceNS is runStrace with strace (and so the child) in a fresh PID
// namespace when ns is true.
func runStraceNS(ns bool, bin, dir, logPath, inject string, childArgs ...string) *straceResult {
	if !ns {
		return runStrace(bin, dir, logPath, inject, childArgs...)
	}
	args := []string{"-f", "-s", "300", "-o", logPath, "-e", "trace=" + traceSet}
	if inject != "" {
		args = append(args, "-e", "inject="+inject)
	}
	args = append(args, bin, "child")
	args = append(args, childArgs...)
	res := execNS(dir, 60*time.Second, "strace", args...)
	out := &straceResult{Res: res, Stderr: res.Stderr}
	if res.TimedOut {
		out.Err = fmt.Errorf("strace watchdog fired")
		return out
	}
	t, err := parseTrace(logPath)
	if err != nil {
		out.Err = err
		return out
	}
	out.T = t
	return out
}

// childPid reads the `PID n` marker of a c13 child (-1 if absent).
func childPid(stderr string) int {
	for _, l := range strings.Split(stderr, "\n") {
		if strings.HasPrefix(l, "PID ") {
			if v, err := strconv.Atoi(strings.TrimSpace(l[4:])); err == nil {
				return v
			}
		}
	}
	return -1
}

var (
	pidNSOnce sync.Once
	pidNSOK   bool
	pidNSWhy  string
)

// c13PidNS decides once per run whether two children started one after the
// other under strace in fresh PID namespaces really get the same pid (and
// that injection still works there).
func c13PidNS(r *core.Run, bin string) bool {
	pidNSOnce.Do(func() {
		base := mkdirFresh(r.Scratch, "c13ns")
		defer os.RemoveAll(base)
		pids := []int{}
		for i := 0; i < 2; i++ {
			root := mkdirFresh(base, fmt.Sprintf("p%d", i), "root")
			os.MkdirAll(filepath.Join(root, "d"), 0o755)
			inj := ""
			if i == 1 {
				inj = "fsync:error=EIO:when=1"
			}
			sr := runStraceNS(true, bin, filepath.Dir(root), filepath.Join(filepath.Dir(root), "log"), inj, "c13-child", "ac", root, "d", "f", "2", "5")
			if sr.Err != nil || sr.T == nil {
				pidNSWhy = fmt.Sprintf("strace in a new pid namespace failed: %v %.200s", sr.Err, sr.Stderr)
				return
			}
			p := childPid(sr.Stderr)
			if p < 0 || fmt.Sprint(p) != sr.T.MainPid {
				pidNSWhy = fmt.Sprintf("child pid %d not the traced main pid %s: %.200s", p, sr.T.MainPid, sr.Stderr)
				return
			}
			if i == 1 {
				if _, ok := sr.T.faultLanded(0, "fsync"); !ok {
					pidNSWhy = "injection did not land inside the namespace"
					return
				}
			}
			pids = append(pids, p)
		}
		if pids[0] != pids[1] || pids[0] == os.Getpid() {
			pidNSWhy = fmt.Sprintf("pids differ: %v", pids)
			return
		}
		pidNSOK = true
		r.Set("pid_namespace_child_pid", pids[0])
	})
	if !pidNSOK {
		r.Inconclusive("same-pid-layer-unavailable-no-pid-namespace")
		if pidNSWhy != "" {
			r.Set("pid_namespace_unavailable_because", pidNSWhy)
		}
	}
	return pidNSOK
}

type c13recSize struct {
	name string
	v    byte
	n    int
}

// c13RecSizes: recovery data shorter than, as long as and longer than `ref`
// (the data of the interrupted call, or the length of what it left behind).
func c13RecSizes(ref int) []c13recSize {
	var out []c13recSize
	if ref > 0 {
		out = append(out, c13recSize{"shorter", vShort, ref / 3})
	}
	return append(out, c13recSize{"equal", 6, ref}, c13recSize{"longer", vLong, ref + 13})
}

// preExistingCreat: the paths opened with O_CREAT by call 0 of the recovery
// run that already existed in the leftover tree (relative to root), with the
// length of the leftover.
func preExistingCreat(t *trace, root string, left map[string][]byte) (name string, n int, found bool) {
	for _, c := range t.calls() {
		if c.I != 0 {
			continue
		}
		for _, e := range c.Sys {
			if !(e.Name == "openat" || e.Name == "open" || e.Name == "creat" || e.Name == "openat2") {
				continue
			}
			if e.Name != "creat" && !strings.Contains(e.Args, "O_CREAT") {
				continue
			}
			q := e.quoted()
			if len(q) == 0 {
				continue
			}
			p := q[0]
			cands := []string{p, path.Join("d", p)}
			if filepath.IsAbs(p) {
				if rel, err := filepath.Rel(root, p); err == nil {
					cands = []string{rel}
				}
			}
			for _, cnd := range cands {
				if b, ok := left[path.Clean(cnd)]; ok {
					return path.Clean(cnd), len(b), true
				}
			}
		}
	}
	return "", 0, false
}

// c13RecoverIdentity runs, in copies of the leftover tree `root`, complete
// AtomicCreate(d,f,data2) calls by children whose pid equals that of the
// interrupted child (interruptedPid) and which made `pre` (same call index)
// or pre+1 (another call index) complete calls before. where/kind describe
// the interruption for messages and signatures. Violations are appended to
// viol (emitted later in plan order); the lines of what was observed to rec.
func c13RecoverIdentity(r *core.Run, bin, root string, interruptedPid, pre int, sizes []c13recSize, where, whatInterrupted string, ctx interface{}, viol *[]pendingViol, rec *[]string) {
	left := treeState(root)
	for _, layer := range []struct {
		name string
		pre  int
	}{{"same-pid-same-call-index", pre}, {"same-pid-other-call-index", pre + 1}} {
		for _, rv := range sizes {
			cp := fmt.Sprintf("%s-id-%s-%s", root, layer.name, rv.name)
			os.RemoveAll(cp)
			if err := copyTree(root, cp); err != nil {
				r.Inconclusive("scratch-copy-failed")
				continue
			}
			data2 := pay1(rv.v, rv.n)
			logp := cp + ".log"
			sr := runStraceNS(true, bin, filepath.Dir(cp), logp, "", "c13-child", "ac", cp, "d", "f", fmt.Sprint(rv.v), fmt.Sprint(rv.n), fmt.Sprint(layer.pre))
			r.Eval(1)
			if sr.Err != nil || sr.T == nil || !sr.T.Exited {
				r.Inconclusive("recovery-child-did-not-finish")
				os.RemoveAll(cp)
				os.Remove(logp)
				continue
			}
			pid := childPid(sr.Stderr)
			if pid != interruptedPid || pid < 0 {
				// the content oracle holds for any process; but this run says
				// nothing about the same-identity layer
				r.Inconclusive("recovery-child-pid-differs")
				r.Count("recovery_identity_runs_pid_differs", 1)
			}
			r.Count("recovery_identity_runs", 1)
			r.Count("recovery_identity_runs_"+layer.name, 1)
			result, ended := "", false
			for _, c := range sr.T.calls() {
				if c.I == 0 {
					result, ended = c.Result, c.Ended
				}
			}
			if name, n, found := preExistingCreat(sr.T, cp, left); found {
				rel := "as_long_as"
				switch {
				case n > len(data2):
					rel = "longer_than"
				case n < len(data2):
					rel = "shorter_than"
				}
				r.Count("recovery_identity_runs_that_created_over_a_preexisting_leftover", 1)
				r.Count("recovery_identity_"+layer.name+"_created_over_a_preexisting_leftover_"+rel+"_its_data", 1)
				r.Distinct(fmt.Sprintf("recovery-collision/%s/%s/leftover-%s/%s", where, layer.name, rel, rv.name))
				_ = name
			}
			st := treeState(cp)
			got, present := st["d/f"]
			line := fmt.Sprintf("%s pre=%d %s data2=%s -> %s, d/f=%s", layer.name, layer.pre, rv.name, describe(data2, true), result, describe(got, present))
			*rec = append(*rec, line)
			detail := map[string]interface{}{"interrupted": ctx, "leftover_state_before_recovery": describeTree(left), "recovery_process": fmt.Sprintf("pid %d (interrupted process: pid %d), %d complete AtomicCreate(d,%s,…) calls before", pid, interruptedPid, layer.pre, c13PreName),
				"recovery_call": fmt.Sprintf("AtomicCreate(d,f,%s)", describe(data2, true)), "child_reported": result, "d/f_after": describe(got, present)}
			switch {
			case !ended || !strings.HasPrefix(result, "ok"):
				*viol = append(*viol, pendingViol{"recovery-call-failed-after-" + where + "-" + layer.name,
					fmt.Sprintf("a complete AtomicCreate by a process with the pid of the interrupted one (%s) in the state left by %s failed: %q", layer.name, whatInterrupted, result), detail})
			case present && bytes.Equal(got, data2):
				r.Count("recovery_identity_runs_exact", 1)
			default:
				sig := "recovery-wrong-content-after-" + where + "-" + layer.name
				for name, lc := range left {
					if name != "d/f" && len(lc) > len(data2) && present && bytes.Equal(got, append(append([]byte{}, data2...), lc[len(data2):]...)) {
						sig = "recovery-leftover-staging-tail-" + layer.name
						detail["explanation"] = fmt.Sprintf("d/f = data2 followed by bytes %d.. of the leftover file %q", len(data2), name)
					}
				}
				*viol = append(*viol, pendingViol{sig, fmt.Sprintf("after %s, a complete AtomicCreate(d,f,%s) by a process with the same pid (%s: %d complete calls before it) returned normally and left d/f = %s",
					whatInterrupted, describe(data2, true), layer.name, layer.pre, describe(got, present)), detail})
			}
			if layer.pre > 0 {
				want := c13PreData(layer.pre - 1)
				if g, ok := st["d/"+c13PreName]; !ok || !bytes.Equal(g, want) {
					*viol = append(*viol, pendingViol{"recovery-preceding-call-wrong-content-" + layer.name,
						fmt.Sprintf("the complete AtomicCreate(d,%s,%s) the recovery process made before its call for d/f left d/%s = %s", c13PreName, describe(want, true), c13PreName, describe(g, ok)), detail})
				}
			}
			os.RemoveAll(cp)
			os.Remove(logp)
		}
	}
}
