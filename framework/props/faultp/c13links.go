package faultp

import (
	"bytes"
	"encoding/json"
	"fmt"
	"os"
	"runtime"
	"sort"
	"strings"
	"sync"
	"sync/atomic"
	"time"

	"verif/core"
	"verif/props"

	"github.com/goose-lang/goose/machine/filesys"
)

// C13, links-and-descriptors layer.
//
// What is decided (C13 statement: "dir/name is either as it was before or
// contains exactly data; once the call returns, the file contains exactly
// data ...; calls for ... different names do not disturb each other"):
//
//  (L1) after every step of a sequence, every existing name read through a
//       fresh descriptor holds what the reference model says: the target of
//       an AtomicCreate holds exactly its data, and every OTHER name —
//       in particular one hard-linked to the file that was just replaced —
//       still holds what it held before the call (an AtomicCreate of name a
//       is not an AtomicCreate of name b). DirFs (write a staging file,
//       rename over the destination) is run through the same sequences as the
//       arbiter of the model;
//  (L2) a reader that keeps ONE descriptor open across a replacement and
//       reads the file in several ReadAt calls assembles one complete written
//       version (never a mixture, never a version cut short or with a tail).
//       Whether that version is the old one (rename semantics, what DirFs and
//       the model do) is recorded as evidence, not decided here.
//
// Sequences run in a child process (library panics recovered per call; a
// fatal error kills only the child).

func init() {
	props.Children["c13-links"] = c13LinksChild
}

type lkOp struct {
	K     string `json:"op"` // atomic | create | link | delete | open | chunk | finish
	Dir   string `json:"dir,omitempty"`
	Name  string `json:"name,omitempty"`
	Dir2  string `json:"dir2,omitempty"`
	Name2 string `json:"name2,omitempty"`
	Ver   uint32 `json:"version,omitempty"`
	Slot  int    `json:"slot,omitempty"`
	N     uint64 `json:"chunk,omitempty"`
}

func (o lkOp) String() string {
	switch o.K {
	case "atomic":
		return fmt.Sprintf("AtomicCreate(%s,%s,version %d)", o.Dir, o.Name, o.Ver)
	case "create":
		return fmt.Sprintf("Create+Append+Close(%s,%s,version %d)", o.Dir, o.Name, o.Ver)
	case "link":
		return fmt.Sprintf("Link(%s,%s -> %s,%s)", o.Dir, o.Name, o.Dir2, o.Name2)
	case "delete":
		return fmt.Sprintf("Delete(%s,%s)", o.Dir, o.Name)
	case "open":
		return fmt.Sprintf("slot%d = Open(%s,%s)", o.Slot, o.Dir, o.Name)
	case "chunk":
		return fmt.Sprintf("ReadAt(slot%d, cursor, %d)", o.Slot, o.N)
	case "finish":
		return fmt.Sprintf("read the rest of slot%d in ReadAt calls of %d bytes, Close", o.Slot, o.N)
	}
	return o.K
}

type lkSeq struct {
	Idx   int    `json:"idx"`
	Class string `json:"class"`
	Ops   []lkOp `json:"ops"`
}

type lkSpec struct {
	Fs      string `json:"fs"`
	Root    string `json:"root"`
	Seed    int64  `json:"seed"`
	NRand   int    `json:"random_sequences"`
	Shard   int    `json:"shard"`
	NShards int    `json:"shards"`
	MaxLen  int    `json:"max_len"`
	Salt    uint64 `json:"length_salt"`
	// concurrency part
	Rounds int `json:"rounds"`
}

// ---------------------------------------------------------------- model

type lkInode struct{ data []byte }

type lkKey struct{ dir, name string }

type lkModel struct {
	names map[lkKey]*lkInode
	slots map[int]*lkInode
}

func newLkModel() *lkModel { return &lkModel{names: map[lkKey]*lkInode{}, slots: map[int]*lkInode{}} }

// valid reports whether the model accepts op (generation keeps only valid sequences).
func (m *lkModel) valid(o lkOp) bool {
	_, ex := m.names[lkKey{o.Dir, o.Name}]
	switch o.K {
	case "atomic":
		return true
	case "create":
		return !ex
	case "link":
		_, ex2 := m.names[lkKey{o.Dir2, o.Name2}]
		return ex && !ex2
	case "delete":
		return ex
	case "open":
		_, used := m.slots[o.Slot]
		return ex && !used
	case "chunk", "finish":
		_, used := m.slots[o.Slot]
		return used
	}
	return false
}

func (m *lkModel) apply(o lkOp, maxLen int) {
	k := lkKey{o.Dir, o.Name}
	switch o.K {
	case "atomic", "create":
		m.names[k] = &lkInode{data: payN(o.Ver, maxLen)} // a fresh file under the name
	case "link":
		m.names[lkKey{o.Dir2, o.Name2}] = m.names[k]
	case "delete":
		delete(m.names, k)
	case "open":
		m.slots[o.Slot] = m.names[k]
	case "finish":
		delete(m.slots, o.Slot)
	}
}

func (m *lkModel) linkedTo(a, b lkKey) bool {
	ia, ok1 := m.names[a]
	ib, ok2 := m.names[b]
	return ok1 && ok2 && ia == ib
}

// ---------------------------------------------------------------- sequences

var lkNames = []lkKey{{"d1", "a"}, {"d1", "b"}, {"d2", "b"}, {"d2", "c"}}

// c13LinkSequences is a function of the seed only.
func c13LinkSequences(seed int64, nrand int) []lkSeq {
	var out []lkSeq
	add := func(class string, ops ...lkOp) { out = append(out, lkSeq{Idx: len(out), Class: class, Ops: ops}) }
	ver := uint32(0)
	v := func() uint32 { ver++; return ver }
	at := func(k lkKey) lkOp { return lkOp{K: "atomic", Dir: k.dir, Name: k.name, Ver: v()} }
	cr := func(k lkKey) lkOp { return lkOp{K: "create", Dir: k.dir, Name: k.name, Ver: v()} }
	ln := func(a, b lkKey) lkOp { return lkOp{K: "link", Dir: a.dir, Name: a.name, Dir2: b.dir, Name2: b.name} }
	a, b, b2, c := lkNames[0], lkNames[1], lkNames[2], lkNames[3]
	for _, other := range []lkKey{b, b2} { // link inside the directory and across directories
		for _, first := range []func(lkKey) lkOp{at, cr} { // the first version made by AtomicCreate or by Create+Append
			// replace a name whose file has a second link; then replace through the other name
			add("link-then-replace", first(a), ln(a, other), at(a), at(other), at(a))
			// replace the link, not the original
			add("link-then-replace-the-link", first(a), ln(a, other), at(other), at(a))
			// three names on one file, replace the middle one, then the others
			add("link-chain-replace-middle", first(a), ln(a, other), ln(other, c), at(other), at(c), at(a))
			// replacement, then link the new file, replace again
			add("replace-link-replace", first(a), at(a), ln(a, other), at(a), ln(a, c), at(a), at(other))
			// delete the original name, the link keeps the file; re-create the name
			add("link-delete-recreate", first(a), ln(a, other), lkOp{K: "delete", Dir: a.dir, Name: a.name}, at(a), at(other))
		}
	}
	// one descriptor held across replacements, read in several calls
	for _, chunk := range []uint64{1, 3, 7, 64, 4096} {
		for _, before := range []int{0, 1, 2} { // ReadAt calls made before the replacement
			ops := []lkOp{at(a), {K: "open", Dir: a.dir, Name: a.name, Slot: 1}}
			for i := 0; i < before; i++ {
				ops = append(ops, lkOp{K: "chunk", Slot: 1, N: chunk})
			}
			ops = append(ops, at(a))
			if before == 2 {
				ops = append(ops, lkOp{K: "chunk", Slot: 1, N: chunk}, at(a))
			}
			ops = append(ops, lkOp{K: "finish", Slot: 1, N: chunk})
			add("descriptor-held-across-replacement", ops...)
		}
		// two descriptors: one opened before, one after the replacement, read alternately
		add("descriptors-before-and-after-replacement", at(a), lkOp{K: "open", Dir: a.dir, Name: a.name, Slot: 1}, lkOp{K: "chunk", Slot: 1, N: chunk}, at(a),
			lkOp{K: "open", Dir: a.dir, Name: a.name, Slot: 2}, lkOp{K: "chunk", Slot: 2, N: chunk}, lkOp{K: "chunk", Slot: 1, N: chunk}, at(a),
			lkOp{K: "finish", Slot: 2, N: chunk}, lkOp{K: "finish", Slot: 1, N: chunk})
		// descriptor on a linked name while the other name is replaced
		add("descriptor-on-link-while-original-replaced", at(a), ln(a, b), lkOp{K: "open", Dir: b.dir, Name: b.name, Slot: 1}, lkOp{K: "chunk", Slot: 1, N: chunk}, at(a),
			lkOp{K: "finish", Slot: 1, N: chunk})
	}
	for k := 0; k < nrand; k++ {
		rng := core.NewRng(seed, fmt.Sprintf("c13/links/%d", k))
		m := newLkModel()
		var ops []lkOp
		n := 6 + rng.Intn(14)
		chunk := []uint64{1, 5, 16, 100, 4096}[rng.Intn(5)]
		for tries := 0; len(ops) < n && tries < 400; tries++ {
			nm := lkNames[rng.Intn(len(lkNames))]
			var o lkOp
			switch x := rng.Intn(100); {
			case x < 34:
				o = lkOp{K: "atomic", Dir: nm.dir, Name: nm.name, Ver: v()}
			case x < 40:
				o = lkOp{K: "create", Dir: nm.dir, Name: nm.name, Ver: v()}
			case x < 62:
				t := lkNames[rng.Intn(len(lkNames))]
				o = lkOp{K: "link", Dir: nm.dir, Name: nm.name, Dir2: t.dir, Name2: t.name}
			case x < 70:
				o = lkOp{K: "delete", Dir: nm.dir, Name: nm.name}
			case x < 82:
				o = lkOp{K: "open", Dir: nm.dir, Name: nm.name, Slot: 1 + rng.Intn(3)}
			case x < 94:
				o = lkOp{K: "chunk", Slot: 1 + rng.Intn(3), N: chunk}
			default:
				o = lkOp{K: "finish", Slot: 1 + rng.Intn(3), N: chunk}
			}
			if m.valid(o) {
				m.apply(o, 64)
				ops = append(ops, o)
			}
		}
		var open []int
		for s := range m.slots {
			open = append(open, s)
		}
		sort.Ints(open)
		for _, s := range open {
			ops = append(ops, lkOp{K: "finish", Slot: s, N: chunk})
		}
		add("random", ops...)
	}
	return out
}

// ---------------------------------------------------------------- child

type lkFinding struct {
	Sig    string `json:"sig"`
	What   string `json:"what"`
	Seq    lkSeq  `json:"sequence"`
	Step   int    `json:"failing_step"`
	Detail string `json:"detail"`
}

type lkReport struct {
	Fs                 string           `json:"fs"`
	Sequences          int64            `json:"sequences"`
	Calls              int64            `json:"calls"`
	NameReads          int64            `json:"name_reads_compared"`
	LinkedNameReads    int64            `json:"reads_of_a_name_linked_to_a_replaced_file"`
	HeldReads          int64            `json:"held_descriptor_reads_assembled"`
	HeldAcross         int64            `json:"held_descriptor_reads_spanning_a_replacement"`
	HeldOld            int64            `json:"held_descriptor_reads_equal_to_version_at_open"`
	HeldChunks         int64            `json:"held_descriptor_readat_calls"`
	Classes            map[string]int64 `json:"classes"`
	Findings           []lkFinding      `json:"findings"`
	ConcRounds         int64            `json:"conc_rounds"`
	ConcOverlap        int64            `json:"conc_rounds_with_overlapping_calls"`
	ConcFinal          int64            `json:"conc_final_checks"`
	ConcHeldReads      int64            `json:"conc_held_descriptor_reads"`
	ConcHeldSpan       int64            `json:"conc_held_descriptor_reads_with_a_replacement_completing_between_open_and_last_readat"`
	ConcReaderVersions int              `json:"conc_distinct_versions_assembled"`
}

func c13LinksChild(args []string) int {
	var sp lkSpec
	if len(args) < 1 || json.Unmarshal([]byte(args[0]), &sp) != nil {
		fmt.Fprintln(os.Stderr, "c13-links: bad spec")
		return 2
	}
	paySalt = sp.Salt
	rep := &lkReport{Fs: sp.Fs, Classes: map[string]int64{}}
	seen := map[string]bool{}
	newFs := func(sub string) (filesys.Filesys, func()) {
		if sp.Fs == "mem" {
			return filesys.NewMemFs(), func() {}
		}
		root := sp.Root + "/" + sub
		os.MkdirAll(root, 0o755)
		d := filesys.NewDirFs(root)
		return d, func() { protect(func() { d.CloseFs() }); os.RemoveAll(root) }
	}
	for _, s := range c13LinkSequences(sp.Seed, sp.NRand) {
		if s.Idx%sp.NShards != sp.Shard {
			continue
		}
		mark("SEQ %d", s.Idx)
		fs, cleanup := newFs(fmt.Sprintf("q%d", s.Idx))
		c13RunLinkSeq(fs, sp, s, rep, seen)
		cleanup()
		rep.Sequences++
	}
	if sp.Rounds > 0 {
		mark("CONC linked-creators")
		fs, cleanup := newFs("conc1")
		c13ConcLinked(fs, sp, rep, seen)
		cleanup()
		mark("CONC held-descriptors")
		fs, cleanup = newFs("conc2")
		c13ConcHeld(fs, sp, rep, seen)
		cleanup()
	}
	out, _ := json.Marshal(rep)
	fmt.Println(string(out))
	return 0
}

func readName(fs filesys.Filesys, dir, name string, max int) (b []byte, p string) {
	p = protect(func() {
		f := fs.Open(dir, name)
		b = fs.ReadAt(f, 0, uint64(max+4096))
		fs.Close(f)
	})
	return
}

func c13RunLinkSeq(fs filesys.Filesys, sp lkSpec, s lkSeq, rep *lkReport, seen map[string]bool) {
	m := newLkModel()
	type slot struct {
		f       filesys.File
		off     uint64
		got     []byte
		calls   int
		openVer []byte // content of the name at Open
		spanned bool   // a replacement of some name happened while the descriptor was open
	}
	slots := map[int]*slot{}
	find := func(step int, sig, what, detail string) {
		sig = sp.Fs + "fs-" + sig
		if seen[sig] {
			return
		}
		seen[sig] = true
		rep.Findings = append(rep.Findings, lkFinding{Sig: sig, What: what, Seq: s, Step: step, Detail: detail})
	}
	if p := protect(func() { fs.Mkdir("d1"); fs.Mkdir("d2") }); p != "" {
		find(-1, "links-setup-failed", "Mkdir failed: "+p, "")
		return
	}
	everLinked := map[lkKey]bool{} // names that shared a file with a name replaced since
	for i, o := range s.Ops {
		key := lkKey{o.Dir, o.Name}
		// names sharing the target's file right before a replacement
		var sharers []lkKey
		if o.K == "atomic" {
			for _, n := range lkNames {
				if n != key && m.linkedTo(n, key) {
					sharers = append(sharers, n)
				}
			}
		}
		var p string
		rep.Calls++
		switch o.K {
		case "atomic":
			data := payN(o.Ver, sp.MaxLen)
			p = protect(func() { fs.AtomicCreate(o.Dir, o.Name, data) })
			for sn, sl := range slots {
				if cur, ok := m.names[key]; ok && m.slots[sn] == cur {
					sl.spanned = true // the file this descriptor reads was replaced under its name (or under a link of it)
				}
			}
		case "create":
			p = protect(func() {
				f, ok := fs.Create(o.Dir, o.Name)
				if !ok {
					panic("Create of a free name returned false")
				}
				data := payN(o.Ver, sp.MaxLen)
				fs.Append(f, data[:len(data)/2])
				fs.Append(f, data[len(data)/2:])
				fs.Close(f)
			})
		case "link":
			p = protect(func() {
				if !fs.Link(o.Dir, o.Name, o.Dir2, o.Name2) {
					panic("Link onto a free name returned false")
				}
			})
		case "delete":
			p = protect(func() { fs.Delete(o.Dir, o.Name) })
		case "open":
			sl := &slot{}
			p = protect(func() { sl.f = fs.Open(o.Dir, o.Name) })
			if p == "" {
				slots[o.Slot] = sl
			}
		case "chunk", "finish":
			sl := slots[o.Slot]
			if sl == nil {
				break
			}
			for {
				var b []byte
				p = protect(func() { b = fs.ReadAt(sl.f, sl.off, o.N) })
				rep.HeldChunks++
				sl.calls++
				if p != "" {
					break
				}
				sl.got = append(sl.got, b...)
				sl.off += uint64(len(b))
				if o.K == "chunk" || len(b) == 0 || len(sl.got) > 4*sp.MaxLen+64 {
					break
				}
			}
			if o.K == "finish" && p == "" {
				p = protect(func() { fs.Close(sl.f) })
				rep.HeldReads++
				want := m.slots[o.Slot].data
				cls := "no-replacement-while-open"
				if sl.spanned {
					rep.HeldAcross++
					cls = "replacement-while-open"
				}
				rep.Classes[fmt.Sprintf("held-descriptor/%s/%d-readat-calls", cls, min(sl.calls, 9))]++
				if bytes.Equal(sl.got, want) {
					rep.HeldOld++
				}
				if _, ok, why := classify(sl.got, sp.MaxLen); !ok {
					find(i, "held-descriptor-chunked-read-not-one-version",
						fmt.Sprintf("%sfs: a reader that opened %s once and read it in %d ReadAt calls of %d bytes, with AtomicCreate replacing the name in between, assembled %s — not one complete written version (%s)",
							sp.Fs, "the file", sl.calls, o.N, describeTokens(sl.got), why),
						fmt.Sprintf("version at Open: %s", describeTokens(want)))
				}
				delete(slots, o.Slot)
			}
		}
		if p != "" {
			find(i, "links-call-failed-"+o.K, fmt.Sprintf("%sfs: %s failed in a valid sequence: %s", sp.Fs, o, p), "")
			return
		}
		m.apply(o, sp.MaxLen)
		for _, n := range sharers {
			everLinked[n] = true
		}
		// (L1) every existing name, through a fresh descriptor, against the model
		for _, n := range lkNames {
			ino, ok := m.names[n]
			if !ok {
				continue
			}
			got, p := readName(fs, n.dir, n.name, sp.MaxLen)
			rep.Calls += 3
			rep.NameReads++
			linked := false
			for _, sn := range sharers {
				if sn == n {
					linked = true
				}
			}
			if linked {
				rep.LinkedNameReads++
				rep.Classes["name-linked-to-the-file-just-replaced/read-after-"+o.K]++
			} else if o.K == "atomic" && n == key {
				rep.Classes["target-of-atomiccreate/read-after-atomic"]++
			}
			if p != "" {
				find(i, "links-read-failed", fmt.Sprintf("%sfs: reading %s/%s after %s failed: %s", sp.Fs, n.dir, n.name, o, p), "")
				return
			}
			if bytes.Equal(got, ino.data) {
				continue
			}
			sig, what := "links-name-content-wrong-after-"+o.K, ""
			switch {
			case o.K == "atomic" && n == key:
				sig = "atomiccreate-target-not-exactly-data"
				what = fmt.Sprintf("after %s returned, %s/%s holds %s instead of exactly the data", o, n.dir, n.name, describeTokens(got))
			case o.K == "atomic" && linked:
				sig = "atomiccreate-changes-name-linked-to-replaced-file"
				what = fmt.Sprintf("%s changed ANOTHER name: %s/%s (a hard link of the file %s/%s pointed to before the call) held %s before and holds %s afterwards; the call's target is %s/%s only",
					o, n.dir, n.name, o.Dir, o.Name, describeTokens(ino.data), describeTokens(got), o.Dir, o.Name)
			case o.K == "atomic":
				sig = "atomiccreate-changes-other-name"
				if everLinked[n] {
					sig = "atomiccreate-changes-name-once-linked-to-replaced-file"
				}
				what = fmt.Sprintf("%s changed ANOTHER name: %s/%s held %s before and holds %s afterwards", o, n.dir, n.name, describeTokens(ino.data), describeTokens(got))
			default:
				what = fmt.Sprintf("after %s, %s/%s holds %s; expected %s", o, n.dir, n.name, describeTokens(got), describeTokens(ino.data))
			}
			find(i, sig, sp.Fs+"fs: "+what, "")
			return
		}
	}
}

// describeTokens renders a payload as runs of version tokens.
func describeTokens(b []byte) string {
	if len(b) == 0 {
		return "empty"
	}
	var parts []string
	for i := 0; i < len(b); {
		tok := func(j int) (uint32, bool) {
			if j+4 > len(b) {
				return 0, false
			}
			return uint32(b[j]) | uint32(b[j+1])<<8 | uint32(b[j+2])<<16 | uint32(b[j+3])<<24, true
		}
		t, ok := tok(i)
		if !ok {
			parts = append(parts, fmt.Sprintf("%d trailing byte(s)", len(b)-i))
			break
		}
		j := i
		for {
			t2, ok2 := tok(j)
			if !ok2 || t2 != t {
				break
			}
			j += 4
		}
		parts = append(parts, fmt.Sprintf("version %d × %d bytes", int64(t)-1, j-i))
		if len(parts) >= 5 {
			parts = append(parts, "…")
			break
		}
		i = j
	}
	return fmt.Sprintf("[%d bytes: %s]", len(b), strings.Join(parts, " + "))
}

// c13ConcLinked: every round names a, b and c are made links of one file;
// then creator A replaces a while creator B replaces b (different names: they
// must not disturb each other); c is nobody's target.
func c13ConcLinked(fs filesys.Filesys, sp lkSpec, rep *lkReport, seen map[string]bool) {
	find := func(round int, sig, what string) {
		sig = sp.Fs + "fs-" + sig
		if seen[sig] {
			return
		}
		seen[sig] = true
		rep.Findings = append(rep.Findings, lkFinding{Sig: sig, What: what, Step: round, Seq: lkSeq{Class: "concurrent-creators-on-hard-linked-names"}})
	}
	if p := protect(func() { fs.Mkdir("d1"); fs.Mkdir("d2") }); p != "" {
		find(-1, "links-setup-failed", p)
		return
	}
	a, b, c := lkKey{"d1", "a"}, lkKey{"d2", "b"}, lkKey{"d1", "c"}
	exists := map[lkKey]bool{}
	for k := 0; k < sp.Rounds; k++ {
		v0, va, vb := uint32(3*k+1), uint32(3*k+2), uint32(3*k+3)
		p := protect(func() {
			fs.AtomicCreate(a.dir, a.name, payN(v0, sp.MaxLen))
			for _, n := range []lkKey{b, c} {
				if exists[n] {
					fs.Delete(n.dir, n.name)
				}
				if !fs.Link(a.dir, a.name, n.dir, n.name) {
					panic("Link onto a free name returned false")
				}
				exists[n] = true
			}
		})
		if p != "" {
			find(k, "links-call-failed-setup", fmt.Sprintf("%sfs: preparing round %d (AtomicCreate a; Link a->b; Link a->c) failed: %s", sp.Fs, k, p))
			return
		}
		var wg, start sync.WaitGroup
		start.Add(1)
		var inflight, overlapped, ready int32
		fails := make([]string, 2)
		for ci, t := range []struct {
			n lkKey
			v uint32
		}{{a, va}, {b, vb}} {
			wg.Add(1)
			go func(ci int, n lkKey, v uint32) {
				defer wg.Done()
				data := payN(v, sp.MaxLen)
				start.Wait()
				// both creators spin until the other one is running too
				atomic.AddInt32(&ready, 1)
				for atomic.LoadInt32(&ready) < 2 {
					runtime.Gosched()
				}
				if atomic.AddInt32(&inflight, 1) == 2 {
					atomic.StoreInt32(&overlapped, 1)
				}
				fails[ci] = protect(func() { fs.AtomicCreate(n.dir, n.name, data) })
				atomic.AddInt32(&inflight, -1)
			}(ci, t.n, t.v)
		}
		start.Done()
		wg.Wait()
		rep.ConcRounds++
		rep.Calls += 5
		if overlapped == 1 {
			rep.ConcOverlap++
		}
		for ci, f := range fails {
			if f != "" {
				find(k, "concurrent-linked-names-creator-failed", fmt.Sprintf("%sfs: creator %d failed while another creator replaced a hard link of the same file: %s", sp.Fs, ci, f))
				return
			}
		}
		for _, chk := range []struct {
			n    lkKey
			want uint32
			role string
		}{{a, va, "target of creator A"}, {b, vb, "target of creator B"}, {c, v0, "a third link that no call targets"}} {
			got, p := readName(fs, chk.n.dir, chk.n.name, sp.MaxLen)
			rep.ConcFinal++
			if p != "" {
				find(k, "links-read-failed", fmt.Sprintf("%sfs: reading %s/%s failed: %s", sp.Fs, chk.n.dir, chk.n.name, p))
				return
			}
			if !bytes.Equal(got, payN(chk.want, sp.MaxLen)) {
				find(k, "concurrent-creators-on-hard-linked-names-interfere",
					fmt.Sprintf("%sfs round %d: names d1/a, d2/b, d1/c were links of one file (version %d); AtomicCreate(d1,a,version %d) ran concurrently with AtomicCreate(d2,b,version %d); afterwards %s/%s (%s) holds %s instead of version %d",
						sp.Fs, k, v0, va, vb, chk.n.dir, chk.n.name, chk.role, describeTokens(got), chk.want))
				return
			}
		}
	}
}

// c13ConcHeld: one creator replaces d1/f over and over; readers open it once
// and read it in many small ReadAt calls, yielding in between.
func c13ConcHeld(fs filesys.Filesys, sp lkSpec, rep *lkReport, seen map[string]bool) {
	var mu sync.Mutex
	find := func(sig, what string) {
		mu.Lock()
		defer mu.Unlock()
		sig = sp.Fs + "fs-" + sig
		if seen[sig] {
			return
		}
		seen[sig] = true
		rep.Findings = append(rep.Findings, lkFinding{Sig: sig, What: what, Seq: lkSeq{Class: "concurrent-held-descriptor-readers"}})
	}
	if p := protect(func() { fs.Mkdir("d1"); fs.AtomicCreate("d1", "f", payN(0, sp.MaxLen)) }); p != "" {
		find("links-setup-failed", p)
		return
	}
	var done int32
	var version int64 // number of completed AtomicCreate calls
	var rg sync.WaitGroup
	versions := map[uint32]bool{}
	for ri := 0; ri < 3; ri++ {
		rg.Add(1)
		go func(ri int) {
			defer rg.Done()
			chunk := []uint64{16, 64, 333}[ri]
			for it := 0; ; it++ {
				fin := atomic.LoadInt32(&done) == 1
				var got []byte
				calls := 0
				v0 := atomic.LoadInt64(&version)
				var v1 int64
				p := protect(func() {
					f := fs.Open("d1", "f")
					for off := uint64(0); ; {
						b := fs.ReadAt(f, off, chunk)
						calls++
						if len(b) == 0 || len(got) > 4*sp.MaxLen+64 {
							break
						}
						got = append(got, b...)
						off += uint64(len(b))
						if calls%2 == 1 {
							runtime.Gosched()
						}
					}
					v1 = atomic.LoadInt64(&version)
					fs.Close(f)
				})
				atomic.AddInt64(&rep.ConcHeldReads, 1)
				if v1 > v0 {
					atomic.AddInt64(&rep.ConcHeldSpan, 1)
				}
				if p != "" {
					find("held-descriptor-reader-failed", fmt.Sprintf("%sfs: a reader (Open, ReadAt in %d-byte calls, Close) failed while a creator replaced the file: %s", sp.Fs, chunk, p))
					return
				}
				id, ok, why := classify(got, sp.MaxLen)
				if !ok {
					find("held-descriptor-chunked-read-not-one-version",
						fmt.Sprintf("%sfs: a reader that opened d1/f once and read it in %d ReadAt calls of %d bytes while a creator replaced it assembled %s — not one complete written version (%s)", sp.Fs, calls, chunk, describeTokens(got), why))
					return
				}
				mu.Lock()
				versions[id] = true
				mu.Unlock()
				if fin {
					return
				}
			}
		}(ri)
	}
	for k := 1; k <= sp.Rounds; k++ {
		p := protect(func() { fs.AtomicCreate("d1", "f", payN(uint32(k), sp.MaxLen)) })
		atomic.AddInt64(&version, 1)
		rep.Calls++
		if p != "" {
			find("links-call-failed-atomic", fmt.Sprintf("%sfs: AtomicCreate failed while readers held descriptors of the file: %s", sp.Fs, p))
			break
		}
		if k%8 == 0 {
			runtime.Gosched()
		}
	}
	atomic.StoreInt32(&done, 1)
	rg.Wait()
	rep.ConcReaderVersions = len(versions)
}

// ---------------------------------------------------------------- parent

func c13LinksAndDescriptors(r *core.Run) {
	bin, err := r.BuildSelf()
	if err != nil {
		r.Inconclusive("build-failed")
		return
	}
	nrand := r.Pick(96, 3000)
	const shards = 8
	base := mkdirFresh(r.Scratch, "c13l")
	type pv struct {
		sig, what string
		detail    interface{}
	}
	var specs []lkSpec
	for _, fsn := range []string{"dir", "mem"} {
		for sh := 0; sh < shards; sh++ {
			sp := lkSpec{Fs: fsn, Seed: r.Seed, NRand: nrand, Shard: sh, NShards: shards, MaxLen: map[string]int{"dir": 3000, "mem": 512}[fsn], Salt: uint64(r.Seed)}
			if sh == 0 {
				sp.Rounds = r.Pick(60, 600) * map[string]int{"dir": 1, "mem": 20}[fsn]
			}
			specs = append(specs, sp)
		}
	}
	pend := make([][]pv, len(specs))
	classes := map[string]int64{}
	var mu sync.Mutex
	core.Parallel(len(specs), 8, func(i int) {
		sp := specs[i]
		sp.Root = mkdirFresh(base, fmt.Sprintf("s%d", i))
		defer os.RemoveAll(sp.Root)
		js, _ := json.Marshal(sp)
		res := core.Exec(sp.Root, nil, 10*time.Minute, "", bin, "child", "c13-links", string(js))
		if res.TimedOut {
			r.Inconclusive("links-child-watchdog")
			return
		}
		var rep lkReport
		if res.Code != 0 || json.Unmarshal([]byte(strings.TrimSpace(res.Stdout)), &rep) != nil {
			lines := strings.Split(strings.TrimSpace(res.Stderr), "\n")
			where := ""
			for _, l := range lines {
				if strings.HasPrefix(l, "SEQ ") || strings.HasPrefix(l, "CONC ") {
					where = l
				}
			}
			t := res.Stderr
			if len(t) > 1500 {
				t = t[len(t)-1500:]
			}
			pend[i] = append(pend[i], pv{fmt.Sprintf("%sfs-links-child-died", sp.Fs), fmt.Sprintf("the process running the links/descriptors sequences on %sfs died (exit %d) during %q: %s", sp.Fs, res.Code, where, t), sp})
			return
		}
		r.Eval(int(rep.Calls))
		pre := "links_" + sp.Fs + "fs_"
		r.Count(pre+"sequences", rep.Sequences)
		r.Count(pre+"name_reads_compared_with_model", rep.NameReads)
		r.Count(pre+"reads_of_a_name_linked_to_the_file_just_replaced", rep.LinkedNameReads)
		r.Count(pre+"held_descriptor_reads_assembled", rep.HeldReads)
		r.Count(pre+"held_descriptor_reads_spanning_a_replacement", rep.HeldAcross)
		r.Count(pre+"held_descriptor_reads_equal_to_version_at_open", rep.HeldOld)
		r.Count(pre+"held_descriptor_readat_calls", rep.HeldChunks)
		r.Count(pre+"conc_linked_rounds", rep.ConcRounds)
		r.Count(pre+"conc_linked_rounds_with_overlapping_calls", rep.ConcOverlap)
		r.Count(pre+"conc_linked_final_checks", rep.ConcFinal)
		r.Count(pre+"conc_held_descriptor_reads", rep.ConcHeldReads)
		r.Count(pre+"conc_held_descriptor_reads_spanning_a_replacement", rep.ConcHeldSpan)
		if rep.ConcReaderVersions > 0 {
			r.Set(pre+"conc_held_descriptor_distinct_versions_assembled", rep.ConcReaderVersions)
		}
		mu.Lock()
		for k, v := range rep.Classes {
			classes[sp.Fs+"fs/"+k] += v
		}
		mu.Unlock()
		for _, f := range rep.Findings {
			pend[i] = append(pend[i], pv{f.Sig, f.What, map[string]interface{}{"spec": sp, "sequence": f.Seq, "failing_step": f.Step, "detail": f.Detail,
				"replay": "fresh filesystem, Mkdir d1, d2; apply the sequence's ops in order (payload of version v = payN(v, max_len) with length salt = seed); after every op read every existing name through a fresh descriptor"}})
		}
	})
	for _, ps := range pend {
		for _, p := range ps {
			r.Violate(p.sig, p.what, p.detail)
		}
	}
	var cl []string
	for k := range classes {
		cl = append(cl, k)
		r.Distinct("links/" + k)
	}
	sort.Strings(cl)
	r.Set("links_observation_classes", classes)
	seqs := c13LinkSequences(r.Seed, nrand)
	byClass := map[string]int{}
	for _, s := range seqs {
		byClass[s.Class]++
	}
	r.Set("links_sequences_by_class", byClass)
	r.Sample(60, map[string]interface{}{"links_sequence_example": seqs[0].Class, "ops": func() []string {
		var o []string
		for _, op := range seqs[0].Ops {
			o = append(o, op.String())
		}
		return o
	}()})
}
