package faultp

import (
	"fmt"
	"os"
	"path/filepath"
	"sort"
	"strings"
	"sync"

	"verif/core"
	"verif/props"

	"github.com/goose-lang/goose/machine/disk"
)

// C11: FileDisk contents persist across Close + reopen at any requested
// size, whatever the length of the prior image; a failed (or short) flush /
// write / read / resize is never reported as success.

func init() {
	props.Registry["C11"] = props.Prop{Level: "fault_enumeration", Run: runC11}
}

const bs = int(disk.BlockSize)

// ---------------------------------------------------------------- (a) reopen, in-process

func imgPattern(off int) byte { return byte(1 + (off*7+off/4096)%199) } // never zero, never the dirt byte 0xEE

// protect runs f and returns the recovered panic text ("" if none).
func protect(f func()) (p string) {
	defer func() {
		if e := recover(); e != nil {
			p = fmt.Sprint(e)
			if p == "" {
				p = "panic"
			}
		}
	}()
	f()
	return ""
}

// verifyDisk compares the disk and its backing file with want (one entry per
// block). It returns "" or (what, detail): what names the failed clause.
// Reads go through ReadTo into a buffer pre-filled with bytes that differ
// from the expectation at every position, so a short read shows.
func verifyDisk(d disk.FileDisk, path string, want [][]byte, retainedBytes int) (what, detail string) {
	n := len(want)
	st, err := os.Stat(path)
	if err != nil {
		return "stat-failed", err.Error()
	}
	if st.Size() != int64(n*bs) {
		return "length-wrong", fmt.Sprintf("backing file is %d bytes after NewFileDisk(path,%d), want %d", st.Size(), n, n*bs)
	}
	var sz uint64
	if p := protect(func() { sz = d.Size() }); p != "" || sz != uint64(n) {
		return "size-wrong", fmt.Sprintf("Size()=%d panic=%q, want %d", sz, p, n)
	}
	for a := 0; a < n; a++ {
		buf := make([]byte, bs)
		for i := range buf {
			buf[i] = ^want[a][i]
		}
		if p := protect(func() { d.ReadTo(uint64(a), buf) }); p != "" {
			return "read-panic", fmt.Sprintf("ReadTo(%d) panicked: %s", a, p)
		}
		for i := range buf {
			if buf[i] != want[a][i] {
				off := a*bs + i
				surv := 0
				for j := range buf {
					if buf[j] == ^want[a][j] {
						surv++
					}
				}
				w := "new-not-zero"
				if off < retainedBytes {
					w = "retained-lost"
				}
				return w, fmt.Sprintf("block %d offset %d: read %#02x want %#02x; %d of 4096 bytes of the pre-filled buffer were never overwritten by ReadTo", a, i, buf[i], want[a][i], surv)
			}
		}
		var rb disk.Block
		if p := protect(func() { rb = d.Read(uint64(a)) }); p != "" || string(rb) != string(want[a]) {
			return "read-mismatch", fmt.Sprintf("Read(%d) differs from ReadTo (len %d, panic %q)", a, len(rb), p)
		}
	}
	return "", ""
}

type c11image struct {
	N        int    `json:"num_blocks"`
	Class    string `json:"prior_image"`
	PriorLen int    `json:"prior_len_bytes"` // -1 absent
	Observed string `json:"observed"`
}

func c11PriorImages(r *core.Run) {
	dir := mkdirFresh(r.Scratch, "c11img")
	for _, n := range []int{1, 2, 5} {
		type cl struct {
			name string
			l    int
		}
		classes := []cl{{"absent", -1}, {"0", 0}, {"1", 1}, {"numblocks-bytes", n}, {"4095", 4095}, {"4096", 4096},
			{"full-minus-1", n*bs - 1}, {"full", n * bs}, {"full-plus-1", n*bs + 1}, {"triple", 3 * n * bs}} // full = n*4096
		seen := map[int]bool{}
		for _, c := range classes {
			if seen[c.l] {
				r.Count("prior_image_classes_coinciding", 1)
				continue
			}
			seen[c.l] = true
			path := filepath.Join(dir, fmt.Sprintf("img-%d-%d", n, c.l))
			os.Remove(path)
			if c.l >= 0 {
				b := make([]byte, c.l)
				for i := range b {
					b[i] = imgPattern(i)
				}
				if err := os.WriteFile(path, b, 0o644); err != nil {
					r.Inconclusive("scratch-write-failed")
					continue
				}
			}
			retained := c.l
			if retained < 0 {
				retained = 0
			}
			if retained > n*bs {
				retained = n * bs
			}
			want := make([][]byte, n)
			for a := range want {
				want[a] = make([]byte, bs)
				for i := range want[a] {
					if a*bs+i < retained {
						want[a][i] = imgPattern(a*bs + i)
					}
				}
			}
			var d disk.FileDisk
			var err error
			what, detail := "", ""
			if p := protect(func() { d, err = disk.NewFileDisk(path, uint64(n)) }); p != "" {
				what, detail = "open-panic", p
			} else if err != nil {
				what, detail = "open-error", err.Error()
			} else {
				what, detail = verifyDisk(d, path, want, retained)
				protect(func() { d.Close() })
			}
			r.Eval(1)
			r.Count("prior_image_cases", 1)
			r.Distinct(fmt.Sprintf("image/n=%d/len=%d", n, c.l))
			ci := c11image{N: n, Class: c.name, PriorLen: c.l, Observed: "length n*4096, retained prefix preserved, rest zero, all blocks fully read"}
			if what != "" {
				ci.Observed = what + ": " + detail
				sig := fmt.Sprintf("reopen-image-%s-%s", c.name, what)
				if c.l == n {
					// the one atom where the prior length in BYTES equals numBlocks
					sig = "reopen-image-len-eq-numblocks-not-resized"
				}
				r.Violate(sig, fmt.Sprintf("NewFileDisk(path,%d) on an existing image of %d bytes (%s): %s: %s", n, c.l, c.name, what, detail), ci)
				r.Sample(40, ci)
			} else if c.l == n || c.name == "absent" || c.name == "full-plus-1" {
				r.Sample(40, ci)
			}
			os.Remove(path)
		}
	}
}

func c11Histories(r *core.Run) {
	rng := core.NewRng(r.Seed, "c11-hist")
	dir := mkdirFresh(r.Scratch, "c11hist")
	H := r.Pick(1000, 40000)
	for h := 0; h < H; h++ {
		path := filepath.Join(dir, fmt.Sprintf("h%d", h))
		os.Remove(path)
		n := 1 + rng.Intn(6)
		var model [][]byte
		var hist []string
		var d disk.FileDisk
		fail := func(sig, what string) {
			if len(hist) > 60 {
				hist = append([]string{fmt.Sprintf("… %d earlier ops", len(hist)-60)}, hist[len(hist)-60:]...)
			}
			r.Violate(sig, what, map[string]interface{}{"history": hist, "seed_history_index": h})
		}
		reopen := func(n2 int, first bool) bool {
			old := len(model)
			retained := old
			if n2 < retained {
				retained = n2
			}
			m2 := make([][]byte, n2)
			for a := range m2 {
				if a < retained {
					m2[a] = model[a]
				} else {
					m2[a] = make([]byte, bs)
				}
			}
			model = m2
			hist = append(hist, fmt.Sprintf("NewFileDisk(%d)", n2))
			var err error
			if p := protect(func() { d, err = disk.NewFileDisk(path, uint64(n2)) }); p != "" || err != nil {
				fail("reopen-history-open-failed", fmt.Sprintf("NewFileDisk(path,%d) over an image of %d blocks failed: %v %s", n2, old, err, p))
				return false
			}
			r.Eval(1)
			r.Count("reopens_verified", 1)
			r.Count("blocks_verified_after_reopen", int64(n2))
			rel := "same"
			switch {
			case first:
				rel = "fresh"
			case n2 == 0:
				rel = "zero"
			case n2 < old:
				rel = "shrink"
			case n2 > old:
				rel = "grow"
			}
			r.Count("reopen_"+rel, 1)
			if what, detail := verifyDisk(d, path, model, retained*bs); what != "" {
				fail("reopen-history-"+what, fmt.Sprintf("after Close and NewFileDisk(path,%d) over an image of %d blocks: %s", n2, old, detail))
				return false
			}
			return true
		}
		if !reopen(n, true) {
			continue
		}
		ops := 10 + rng.Intn(50)
		written := 0
		okHist := true
		for i := 0; i < ops && okHist; i++ {
			n = len(model)
			k := rng.Intn(100)
			switch {
			case n == 0 || k < 15:
				var opts []int
				if n == 0 {
					opts = []int{0, 1, 1 + rng.Intn(5)}
				} else {
					opts = []int{n, n + 1, n - 1, 0, 2 * n}
					if 2*n > 24 {
						opts[4] = n / 2
					}
				}
				n2 := opts[rng.Intn(len(opts))]
				hist = append(hist, "Close")
				if p := protect(func() { d.Close() }); p != "" {
					fail("history-close-panic", "Close panicked: "+p)
					okHist = false
					break
				}
				okHist = reopen(n2, false)
			case k < 65:
				a := rng.Intn(n)
				b := rng.Bytes(bs)
				hist = append(hist, fmt.Sprintf("Write(%d,%02x%02x…)", a, b[0], b[1]))
				if p := protect(func() { d.Write(uint64(a), b) }); p != "" {
					fail("history-write-panic", fmt.Sprintf("Write(%d) panicked without any fault: %s", a, p))
					okHist = false
					break
				}
				model[a] = b
				written++
				r.Eval(1)
			case k < 92:
				a := rng.Intn(n)
				hist = append(hist, fmt.Sprintf("Read(%d)", a))
				var got disk.Block
				if p := protect(func() { got = d.Read(uint64(a)) }); p != "" || string(got) != string(model[a]) {
					fail("history-read-mismatch", fmt.Sprintf("Read(%d) returned %d bytes differing from the last value written (panic %q)", a, len(got), p))
					okHist = false
					break
				}
				r.Eval(1)
			default:
				hist = append(hist, "Barrier")
				if p := protect(func() { d.Barrier() }); p != "" {
					fail("history-barrier-panic", "Barrier panicked without any fault: "+p)
					okHist = false
				}
			}
		}
		if okHist {
			protect(func() { d.Close() })
			r.Distinct("history/" + fmt.Sprint(core.NewRng(int64(len(hist)), strings.Join(hist, ";")).U64()))
			if h < 2 {
				hh := hist
				if len(hh) > 30 {
					hh = hh[:30]
				}
				r.Sample(40, map[string]interface{}{"reopen_history": hh, "verdict": "every reopen verified"})
			}
		}
		os.Remove(path)
	}
}

// ---------------------------------------------------------------- (b) faults under strace

var c11OpName = map[string]string{"O": "NewFileDisk", "W": "Write", "R": "Read", "T": "ReadTo", "B": "Barrier", "C": "Close"}

var c11Targets = map[string]bool{"pwrite64": true, "pread64": true, "fsync": true, "fdatasync": true, "ftruncate": true}
var flushCalls = map[string]bool{"fsync": true, "fdatasync": true, "sync_file_range": true, "syncfs": true, "sync": true, "msync": true}

type c11case struct {
	Name   string
	N      int
	Prior  string // absent | larger | exact | smaller
	Script string
	Fixed  bool
}

type c11fault struct {
	Case   int    `json:"-"`
	CaseN  string `json:"case"`
	Call   int    `json:"call_index"`
	Op     string `json:"operation"`
	Sys    string `json:"syscall"`
	Occ    int    `json:"occurrence_on_main_thread"`
	Kind   string `json:"fault"` // EIO | ENOSPC | EINTR | EAGAIN | short<K>
	Dur    string `json:"duration"` // once | twice | thrice | persistent (occurrences K, K..K+1, K..K+2, K+)
	Fails  int    `json:"failures_inside_the_call"`
	Landed bool   `json:"landed"`
	Result string `json:"child_reported"`
	Line   string `json:"injected_line,omitempty"`
}

// c11PriorLen: length in bytes of the image before the script opens it (-1: absent).
func c11PriorLen(c c11case) int {
	switch c.Prior {
	case "larger":
		return (c.N + 2) * bs
	case "exact":
		return c.N * bs
	case "smaller":
		return bs
	}
	return -1
}

// c11ChildArgs: the child is told the prior length (0 for an absent image) so
// that it knows the expected content of blocks the script never wrote.
func c11ChildArgs(img string, c c11case) []string {
	l := c11PriorLen(c)
	if l < 0 {
		l = 0
	}
	return []string{"c11-child", img, fmt.Sprint(c.N), c.Script, fmt.Sprint(l)}
}

// the faked transfer counts of the short-transfer family
var c11ShortCounts = []int{0, 1, 100, 4095}

func shortCount(kind string) (int, bool) {
	if !strings.HasPrefix(kind, "short") {
		return 0, false
	}
	var k int
	if _, err := fmt.Sscanf(kind, "short%d", &k); err != nil {
		return 0, false
	}
	return k, true
}

func c11Prepare(path string, c c11case) {
	os.Remove(path)
	l := c11PriorLen(c)
	if l >= 0 {
		b := make([]byte, l)
		for i := range b {
			b[i] = imgPattern(i)
		}
		os.WriteFile(path, b, 0o644)
	}
}

func c11RandomScript(rng *core.Rng, n int) string {
	steps := []string{"O"}
	k := 6 + rng.Intn(10)
	for i := 0; i < k; i++ {
		a := rng.Intn(n)
		switch x := rng.Intn(10); {
		case x < 4:
			steps = append(steps, fmt.Sprintf("W%d", a))
		case x < 6:
			steps = append(steps, fmt.Sprintf("R%d", a))
		case x < 8:
			steps = append(steps, fmt.Sprintf("T%d", a))
		default:
			steps = append(steps, "B")
		}
	}
	steps = append(steps, "B", "C")
	return strings.Join(steps, ",")
}

func c11Faults(r *core.Run) (landed int64, kindsPlanned, kindsLanded map[string]bool) {
	kindsPlanned, kindsLanded = map[string]bool{}, map[string]bool{}
	bin, err := r.BuildSelf()
	if err != nil {
		r.Inconclusive("build-failed")
		fmt.Fprintln(os.Stderr, err)
		return
	}
	const fixed = "O,W0,W1,B,R0,T1,B,C"
	cases := []c11case{
		{"fixed-absent", 3, "absent", fixed, true},
		{"fixed-larger", 3, "larger", fixed, true},
		{"fixed-exact", 3, "exact", fixed, true},
		{"fixed-smaller", 3, "smaller", fixed, true},
	}
	rng := core.NewRng(r.Seed, "c11-scripts")
	priors := []string{"absent", "larger", "exact", "smaller"}
	for i := 0; i < r.Pick(12, 300); i++ {
		n := 2 + rng.Intn(4)
		cases = append(cases, c11case{fmt.Sprintf("random-%d", i), n, priors[rng.Intn(4)], c11RandomScript(rng, n), false})
	}
	base := mkdirFresh(r.Scratch, "c11f")

	// recording runs
	recs := make([]*straceResult, len(cases))
	core.Parallel(len(cases), 16, func(i int) {
		d := mkdirFresh(base, cases[i].Name, "rec")
		img := filepath.Join(d, "img")
		c11Prepare(img, cases[i])
		recs[i] = runStrace(bin, d, filepath.Join(d, "log"), "", c11ChildArgs(img, cases[i])...)
	})
	var plan []c11fault
	for ci, c := range cases {
		rec := recs[ci]
		if rec.Err != nil || rec.T == nil || !rec.T.Exited {
			r.Inconclusive("recording-run-failed")
			continue
		}
		r.Eval(1)
		r.Count("recording_runs", 1)
		osync := false
		calls := rec.T.calls()
		if len(calls) != len(strings.Split(c.Script, ",")) {
			r.Inconclusive("recording-run-incomplete")
			continue
		}
		for _, call := range calls {
			op := c11OpName[call.Op[:1]]
			r.Count("api_calls_observed_without_fault", 1)
			if !strings.HasPrefix(call.Result, "ok") {
				r.Violate("nofault-"+op+"-failed", fmt.Sprintf("%s failed without any injected fault (%s, prior image %s): %s", op, c.Name, c.Prior, call.Result),
					map[string]interface{}{"case": c, "call": call.I, "syscalls": excerpt(call.Sys, 12)})
				continue
			}
			if strings.Contains(call.Result, "match=no") || (strings.Contains(call.Result, "dirt=") && !strings.Contains(call.Result, "dirt=0")) {
				r.Violate("nofault-read-wrong", fmt.Sprintf("%s returned data differing from the last written value without any fault: %s", op, call.Result),
					map[string]interface{}{"case": c, "call": call.I, "syscalls": excerpt(call.Sys, 12)})
			}
			for _, e := range call.Sys {
				if (e.Name == "openat" || e.Name == "open") && (strings.Contains(e.Args, "O_SYNC") || strings.Contains(e.Args, "O_DSYNC")) {
					osync = true
				}
			}
			if op == "Barrier" {
				hasFlush := false
				for _, e := range call.Sys {
					if flushCalls[e.Name] && e.ok() {
						hasFlush = true
					}
				}
				r.Count("barrier_calls_recorded", 1)
				if hasFlush {
					r.Count("barrier_calls_with_flush_syscall", 1)
				} else if osync {
					r.Inconclusive("barrier-without-flush-on-O_SYNC-descriptor")
				} else {
					r.Violate("barrier-no-fsync", fmt.Sprintf("Barrier (call %d of %s) returned normally without issuing any flush syscall (fsync/fdatasync/…): it cannot surface a failed flush", call.I, c.Name),
						map[string]interface{}{"case": c, "call": call.I, "syscalls_inside_barrier": excerpt(call.Sys, 12)})
				}
			}
			for _, e := range call.Sys {
				if !c11Targets[e.Name] {
					continue
				}
				occ := rec.T.occurrence(e.Idx)
				errnos := []string{"EIO", "ENOSPC", "EINTR"}
				if e.Name == "pread64" || e.Name == "pwrite64" {
					errnos = append(errnos, "EAGAIN")
				}
				for _, k := range errnos {
					for _, dur := range faultDurations {
						// quick tier: the full errno x duration product on the
						// fixed script (4 prior images); on the random scripts
						// every errno once and EIO for every duration
						if r.Quick() && !c.Fixed && dur != "once" && k != "EIO" {
							continue
						}
						plan = append(plan, c11fault{Case: ci, CaseN: c.Name, Call: call.I, Op: op, Sys: e.Name, Occ: occ, Kind: k, Dur: dur})
					}
				}
				if e.Name == "pread64" || e.Name == "pwrite64" {
					for _, k := range c11ShortCounts {
						plan = append(plan, c11fault{Case: ci, CaseN: c.Name, Call: call.I, Op: op, Sys: e.Name, Occ: occ, Kind: fmt.Sprintf("short%d", k), Dur: "once"})
						// 2 and 3 consecutive short transfers (a continuation
						// loop issues new syscalls: occurrences K+1, K+2); a faked
						// 4095 cannot be repeated (the rest asked for is 1 byte)
						if k < 4095 {
							for _, dur := range []string{"twice", "thrice"} {
								plan = append(plan, c11fault{Case: ci, CaseN: c.Name, Call: call.I, Op: op, Sys: e.Name, Occ: occ, Kind: fmt.Sprintf("short%d", k), Dur: dur})
							}
						}
					}
				}
			}
		}
		if ci == 0 {
			var sc []string
			for _, call := range calls {
				var names []string
				for _, e := range call.Sys {
					names = append(names, e.Name)
				}
				sc = append(sc, fmt.Sprintf("%d %s: %s -> %s", call.I, call.Op, strings.Join(names, ","), call.Result))
			}
			r.Sample(40, map[string]interface{}{"recording_run": c.Name, "calls": sc})
		}
	}
	r.Count("faults_planned", int64(len(plan)))
	var mu sync.Mutex
	results := make([]c11fault, len(plan))
	type c11judged struct {
		call    apiCall
		retried bool
		imgSig  string
		imgWhat string
	}
	judged := make([]*c11judged, len(plan))
	core.Parallel(len(plan), 16, func(i int) {
		f := plan[i]
		c := cases[f.Case]
		kindsPlannedKey := f.Sys
		mu.Lock()
		kindsPlanned[kindsPlannedKey] = true
		mu.Unlock()
		inj := fmt.Sprintf("%s:error=%s:when=%s", f.Sys, f.Kind, whenSpec(f.Occ, f.Dur))
		if k, ok := shortCount(f.Kind); ok {
			inj = fmt.Sprintf("%s:retval=%d:when=%s", f.Sys, k, whenSpec(f.Occ, f.Dur))
		}
		for attempt := 0; attempt < 2; attempt++ {
			d := mkdirFresh(base, c.Name, fmt.Sprintf("f%d-%d", i, attempt))
			img := filepath.Join(d, "img")
			c11Prepare(img, c)
			sr := runStrace(bin, d, filepath.Join(d, "log"), inj, c11ChildArgs(img, c)...)
			r.Eval(1)
			if sr.Err != nil || sr.T == nil {
				os.RemoveAll(d)
				continue
			}
			at, inCall, retried, ok := sr.T.faultsLanded(f.Call, f.Sys)
			if !ok {
				os.RemoveAll(d)
				continue
			}
			f.Landed = true
			f.Fails = len(inCall)
			f.Line = at.Raw
			if len(f.Line) > 140 {
				f.Line = f.Line[:60] + " … " + f.Line[len(f.Line)-60:]
			}
			var call apiCall
			for _, cc := range sr.T.calls() {
				if cc.I == f.Call {
					call = cc
				}
			}
			f.Result = call.Result
			if !call.Ended {
				f.Result = "(call did not return: child ended)"
			}
			isig, iwhat, ichecked := c11ImageAfter(c, sr.T, img)
			r.Count("blocks_of_the_image_compared_after_fault_runs", int64(ichecked))
			judged[i] = &c11judged{call, retried, isig, iwhat}
			os.RemoveAll(d)
			break
		}
		if !f.Landed {
			r.Inconclusive("fault-not-landed")
			r.Count("faults_not_landed", 1)
		} else {
			r.Count("faults_landed", 1)
			r.Count("faults_landed_"+f.Sys, 1)
			if _, ok := shortCount(f.Kind); ok {
				r.Count("short_transfers_landed_"+f.Sys+"_"+f.Kind, 1)
			}
			r.Distinct(fmt.Sprintf("fault/%s/call%d/%s/%s#%d/%s/%s", c.Script, f.Call, f.Op, f.Sys, f.Occ, f.Kind, f.Dur))
			r.Count("faults_landed_duration_"+f.Dur, 1)
			mu.Lock()
			kindsLanded[f.Sys] = true
			mu.Unlock()
		}
		results[i] = f
	})
	// verdicts in plan order (deterministic reports); prefer ReadTo over Read
	// for the short-read witness: its dirty buffer shows the stale bytes
	order := make([]int, 0, len(plan))
	for i, f := range results {
		if f.Op == "ReadTo" {
			order = append(order, i)
		}
	}
	for i, f := range results {
		if f.Op != "ReadTo" {
			order = append(order, i)
		}
	}
	for _, i := range order {
		if judged[i] != nil {
			c11Judge(r, cases[results[i].Case], results[i], judged[i].call, judged[i].retried)
			if judged[i].imgSig != "" {
				f := results[i]
				r.Violate(judged[i].imgSig, fmt.Sprintf("script %s with %s %s at occurrence %d (%s, inside %s call %d): %s", cases[f.Case].Script, f.Sys, f.Kind, f.Occ, f.Dur, f.Op, f.Call, judged[i].imgWhat),
					map[string]interface{}{"fault": f, "script": cases[f.Case].Script, "num_blocks": cases[f.Case].N, "prior_image": cases[f.Case].Prior, "syscalls_of_the_call": excerpt(judged[i].call.Sys, 8)})
			}
		}
	}
	// samples: one per (syscall, kind) in plan order
	seen := map[string]bool{}
	for _, f := range results {
		k := f.Sys + "/" + f.Kind
		if f.Kind == "ENOSPC" || f.Kind == "EINTR" {
			k = f.Kind
		}
		if f.Landed && !seen[k] {
			seen[k] = true
			r.Sample(40, f)
		}
	}
	var ks []string
	for k := range kindsLanded {
		ks = append(ks, k)
	}
	sort.Strings(ks)
	r.Set("fault_syscalls_landed", ks)
	return r.GetCount("faults_landed"), kindsPlanned, kindsLanded
}

// resultField extracts the integer after key= from a child result line.
func resultField(res, key string) (int, bool) {
	for _, f := range strings.Fields(res) {
		if strings.HasPrefix(f, key+"=") {
			var v int
			if _, err := fmt.Sscanf(f[len(key)+1:], "%d", &v); err == nil {
				return v, true
			}
		}
	}
	return 0, false
}

func c11Judge(r *core.Run, c c11case, f c11fault, call apiCall, retried bool) {
	if !call.Ended {
		r.Count("faults_call_did_not_return", 1)
		return
	}
	if !strings.HasPrefix(call.Result, "ok") {
		r.Count("faults_surfaced_as_panic_or_error", 1)
		return
	}
	detail := map[string]interface{}{"fault": f, "script": c.Script, "num_blocks": c.N, "prior_image": c.Prior, "syscalls_of_the_call": excerpt(call.Sys, 8)}
	k, short := shortCount(f.Kind)
	if retried && !short {
		// The call reports success after one or more occurrences of the
		// syscall failed and a later one succeeded. What the statement says
		// about that depends on the syscall:
		r.Count("faults_retried_successfully", 1)
		r.Count(fmt.Sprintf("faults_retried_successfully_%s_%s", f.Sys, f.Kind), 1)
		transient := f.Kind == "EINTR" || f.Kind == "EAGAIN"
		readWrong := strings.Contains(call.Result, "match=no")
		switch {
		case flushCalls[f.Sys] && transient:
			// an interrupted fsync leaves the pages dirty on Linux and the
			// retry flushes them; not so on every file system: not decided
			r.Inconclusive("flush-" + f.Kind + "-then-successful-retry-not-judged")
		case flushCalls[f.Sys]:
			// a failed fsync may already have marked the dirty pages clean (or
			// dropped them): the later success says nothing about the data of
			// the failed one — the underlying flush failed and Barrier says ok
			r.Violate(fmt.Sprintf("fault-%s-%s-%s-retried-then-reported-success", f.Op, f.Sys, f.Kind),
				fmt.Sprintf("%s reported success although %d %s call(s) issued on its behalf failed with %s (first: occurrence %d); it re-issued %s until one succeeded, which proves nothing about the pages of the failed flush", f.Op, f.Fails, f.Sys, f.Kind, f.Occ, f.Sys), detail)
		case f.Sys == "pread64" && readWrong:
			r.Violate(fmt.Sprintf("fault-%s-pread64-%s-retried-wrong-data", f.Op, f.Kind),
				fmt.Sprintf("%s after a pread64 failing with %s re-read and returned data differing from the last value written: %s", f.Op, f.Kind, call.Result), detail)
		case f.Sys == "pread64" && transient:
			r.Count("restartable_errors_retried_and_correct", 1) // read restarted after EINTR/EAGAIN without loss
		case f.Sys == "pread64":
			// a read error followed by a re-read that returned the last value
			// written: nothing lost or stale was observed, but a read did fail
			r.Inconclusive("pread-" + f.Kind + "-then-successful-reread-with-correct-data-not-judged")
		case f.Sys == "pwrite64" && transient:
			r.Count("restartable_errors_retried_and_correct", 1)
		case f.Sys == "pwrite64":
			r.Violate(fmt.Sprintf("fault-%s-%s-%s-retried-then-reported-success", f.Op, f.Sys, f.Kind),
				fmt.Sprintf("%s reported success although %d pwrite64 call(s) issued on its behalf failed with %s (first: occurrence %d) before one succeeded", f.Op, f.Fails, f.Kind, f.Occ), detail)
		default:
			// ftruncate (resize at open) re-issued successfully: the resize did
			// happen; the reopen checks decide the content
			r.Count("faults_retried_not_judged_"+f.Sys, 1)
		}
		return
	}
	if retried {
		// A faked K-byte transfer moves no data, so the bytes of the faked
		// ranges are whatever the buffer (or the file) held before: only the
		// other bytes can be judged after a continuation / retry loop. What
		// can always be judged is WHICH bytes the call asked the kernel to
		// move: they must be the bytes of its block, all of them.
		r.Count("faults_retried_successfully", 1)
		judgedT, bad, faked := c11TransferRanges(call)
		if !judgedT {
			r.Count("short_transfer_continuations_not_judged", 1)
			return
		}
		r.Count("short_transfer_continuations_judged", 1)
		if bad != "" {
			r.Violate(fmt.Sprintf("%s-continuation-after-short-%s-wrong-byte-range", f.Op, f.Sys),
				fmt.Sprintf("%s reported success after %d faked %d-byte %s transfer(s), but %s", f.Op, f.Fails, k, f.Sys, bad), detail)
			return
		}
		if short && f.Sys == "pread64" {
			if lb, ok := resultField(call.Result, "lastbad"); ok && strings.Contains(call.Result, "match=") && !strings.Contains(call.Result, "match=unknown") {
				r.Count("short_pread_retries_judged", 1)
				inFaked := lb < 0
				for _, g := range faked {
					if int64(lb) >= g[0] && int64(lb) < g[1] {
						inFaked = true
					}
				}
				if !inFaked {
					r.Violate("short-pread-retry-wrong-data", fmt.Sprintf("%s after %d pread64 call(s) that transferred %d bytes each re-read but returned a byte differing from the last value written at offset %d, outside the faked ranges %v: %s", f.Op, f.Fails, k, lb, faked, call.Result), detail)
				}
			}
		}
		return
	}
	r.Count("faults_reported_as_success", 1)
	switch {
	case short && f.Sys == "pread64" && k == 0:
		r.Violate("zero-byte-pread-silent", fmt.Sprintf("%s returned normally although pread64 transferred 0 of 4096 bytes (as at end of file) and no further read was issued: child reported %q — the block returned is not what was stored (dirt=N counts surviving bytes of the pre-filled buffer, lastbad the last offset differing from the last value written)", f.Op, call.Result), detail)
	case short && f.Sys == "pread64":
		r.Violate("short-pread-silent", fmt.Sprintf("%s returned normally although pread64 transferred only %d of 4096 bytes (no further read issued): child reported %q — the bytes beyond the transfer are whatever the buffer held before (dirt=N counts surviving bytes of the pre-filled buffer)", f.Op, k, call.Result), detail)
	case short && f.Sys == "pwrite64" && k == 0:
		r.Violate("zero-byte-pwrite-silent", fmt.Sprintf("%s returned normally although pwrite64 transferred 0 of 4096 bytes (no further write issued)", f.Op), detail)
	case short && f.Sys == "pwrite64":
		r.Violate("short-pwrite-silent", fmt.Sprintf("%s returned normally although pwrite64 transferred only %d of 4096 bytes (no further write issued)", f.Op, k), detail)
	default:
		r.Violate(fmt.Sprintf("fault-%s-%s-%s-reported-success", f.Op, f.Sys, f.Kind),
			fmt.Sprintf("%s reported success although its %s (occurrence %d) failed with %s", f.Op, f.Sys, f.Occ, f.Kind), detail)
	}
}

func runC11(r *core.Run) (bool, string) {
	r.SetRule("(a) reopen, in-process lock-step against an array model: EXHAUSTIVE grid of prior image lengths {absent,0,1,numBlocks bytes,4095,4096,n*4096-1,n*4096,n*4096+1,3n*4096} x n in {1,2,5} " +
		"(file pre-filled with a non-zero pattern; after NewFileDisk(path,n): os.Stat length == n*4096, Size()==n, every block read through ReadTo into a buffer pre-filled with the complement of the expectation equals retained-prefix-then-zeros); " +
		"seeded random write/read/barrier histories with Close + NewFileDisk(path,n') at random points, n' in {n,n+1,n-1,0,2n}, same verification after every reopen (sampled, not exhaustive). " +
		"(b) faults under strace: the child runs a script (fixed script open,W,W,Barrier,Read,ReadTo,Barrier,Close over prior images absent/larger/exact/smaller, plus seeded random scripts), every API call between BEGIN i/END i marker writes; " +
		"a recording run yields the per-thread occurrence index of EVERY pwrite64/pread64/fsync/fdatasync/ftruncate inside the markers and each is injected with EIO, ENOSPC, EINTR (exhaustive for the scripts run) and, for pread64/pwrite64, with a faked transfer of 0, 1, 100 and 4095 bytes (the syscall is not executed: the kernel moves no data), once and (0, 1, 100) for 2 and 3 consecutive occurrences; a call that continues after short transfers and reports ok must have asked only for bytes of its own block and the ranges transferred must cover the block (from the offset/count/return value of every pread64/pwrite64 of the call), and a re-read block may differ from the last value written only inside the faked ranges; after EVERY injected run the image file is compared block by block with the last value written by a Write that reported ok without an injected syscall (blocks of faulted Writes are not judged): a Write must not change another block nor extend the image beyond the disk; " +
		"fault duration: each errno fault fails exactly the K-th occurrence of the syscall, occurrences K..K+1, K..K+2, or every occurrence from K on (EAGAIN additionally on pread64/pwrite64); " +
		"an injected run counts only if its own log shows (INJECTED) lines only on the main thread and only of the planned syscall, the first of them inside the planned markers (else retried once, then inconclusive); " +
		"when the call re-issued the failed syscall and that succeeded: fsync/fdatasync failed with EIO/ENOSPC -> violation (a failed flush may have dropped the dirty state, the later success proves nothing), with EINTR -> inconclusive; pwrite64 failed with EIO/ENOSPC -> violation, with EINTR/EAGAIN -> allowed (restartable without loss); pread64 re-read returning wrong data -> violation, correct data after EINTR/EAGAIN -> allowed, after EIO/ENOSPC -> inconclusive; ftruncate -> not judged here. " +
		"violation = the enclosing call reports `ok` and did not re-issue the syscall successfully; after a faked K-byte pread64 followed by a successful re-read, a returned byte at offset >= K differing from the last value written (never-written blocks: the retained prior image, then zeros). " +
		"A Barrier that returns without any flush syscall in the recording run is a violation (barrier-no-fsync): the statement requires Barrier never to report success when the flush failed, and a Barrier that does not flush cannot surface a failed flush — there is nothing to inject into. " +
		"(c) image length changed behind an open disk (child processes, no strace; image_length_* keys): after writing every block the harness truncates the image to 0 / to 1 byte / inside a block / one byte short / on a block boundary / k blocks short, opens a second handle with fewer blocks (kept open, or closed at once) or with more blocks, grows the image by whole or partial blocks, or shrinks and re-extends it; " +
		"then Read, ReadTo into a dirty buffer, Write at the first, middle, last-in-image, cut / first-beyond-image, last-of-disk and just-beyond-disk block and Barrier, then a sweep of ReadTo+Read over every block; plus seeded random histories over the same alphabet. " +
		"Per block the harness tracks what IT did: a block it cut away is `missing`/`cut` while the file is shorter than (b+1)*4096 — a read of it that returns normally with anything but the last value written is a violation (panic or the last value written are fine); once the file was re-extended over it the read is `hole` and not judged; a block never removed whose last Write returned must read as that value; reads beyond Size() are recorded only. " +
		"(d) how the image path reaches the file (child processes; image_path_* keys, c11paths.go): path form {plain absolute, relative, ./, ../, absolute with /./ /../ //, symlink (absolute target), symlink (relative target), chain of 3 symlinks, relative path that is a symlink, symlink as a directory component, hard link, /proc/self/fd/N, /proc/self/cwd/…} x the prior-image grid of (a) plus seeded atoms (n in 1..12, lengths on and off block boundaries) x {disk.NewFileDisk, async_disk.NewFileDisk}; three stages, each judged with the oracle of (a) where the length is taken by stat of the TARGET's canonical name: open through the form over the prior image; write every block, Close, open through the form again with n' in {n-1,n,n+2}; Close, open the canonical path with n'. Paths that name no regular file (fifo, directory, symlink to either, symlink loop, trailing slash, a file as directory component, dangling symlink into a missing directory): NewFileDisk must report an error / panic, or every Read, ReadTo and Write through the disk it returned must panic. " +
		"distinct = prior-image atoms (n,len) + distinct reopen histories + landed fault points (script,call,op,syscall,occurrence,fault) + (mutation, probe, block state, n) classes of reads of removed blocks")
	r.Assume("strace error=/retval= injection replaces the syscall (it is not executed) and the child's main goroutine is locked to the main thread, so `when=` counts are reproducible; validated per run from the injected run's own log")
	r.Assume("ext4 scratch directory: ftruncate extends with zeros")
	if os.Getenv("VERIF_C11_LAYERS") == "paths" {
		// development knob: only the path-form family; such a run is never a verdict
		r.Inconclusive("dev-knob-VERIF_C11_LAYERS")
		c11PathFamily(r)
		return false, "development knob VERIF_C11_LAYERS set"
	}
	c11PriorImages(r)
	c11Histories(r)
	c11ImageLength(r)
	landed, planned, kl := c11Faults(r)
	c11PathFamily(r) // how the image path reaches the file x the reopen-size matrix (c11paths.go)
	notLanded := r.GetCount("faults_not_landed")
	r.Set("exhaustive", notLanded == 0 && landed > 0)
	r.Set("exhaustive_parts", []string{"prior image length x numBlocks grid (30 atoms, coinciding lengths merged)", "every occurrence of pwrite64/pread64/fsync/fdatasync/ftruncate in each script run x {EIO,ENOSPC,EINTR, EAGAIN for pread64/pwrite64} x duration {K, K..K+1, K..K+2, K+} and x short transfer {0,1,100,4095} for pread64/pwrite64"})
	for k := range planned {
		if !kl[k] {
			return false, "no fault landed for syscall " + k
		}
	}
	if landed < 20 {
		return false, fmt.Sprintf("only %d injected faults landed where planned", landed)
	}
	if r.GetCount("reopens_verified") < 100 || r.GetCount("prior_image_cases") < 20 {
		return false, "too few reopen cases verified"
	}
	removedReads := r.GetCount("image_length_reads_missing_panicked") + r.GetCount("image_length_reads_missing_returned_last_written") + r.GetCount("image_length_reads_missing_returned_other_data") +
		r.GetCount("image_length_reads_cut_panicked") + r.GetCount("image_length_reads_cut_returned_last_written") + r.GetCount("image_length_reads_cut_returned_other_data")
	if removedReads < 200 || r.GetCount("image_length_reads_intact_returned_last_written") < 200 {
		return false, fmt.Sprintf("only %d reads of blocks removed from the image behind the open disk were observed", removedReads)
	}
	if n := r.GetCount("image_path_cases_judged"); n < 100 {
		return false, fmt.Sprintf("only %d path-form x prior-image cases were judged", n)
	}
	return true, ""
}
