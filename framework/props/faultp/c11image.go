package faultp

import (
	"bufio"
	"encoding/json"
	"fmt"
	"os"
	"path/filepath"
	"sort"
	"strconv"
	"strings"
	"time"

	"verif/core"
	"verif/props"

	"github.com/goose-lang/goose/machine/disk"
)

// C11, family "the image is shorter/longer than the disk believes while it is
// open": the harness changes the length of the backing file behind an open
// FileDisk (external truncate to 0 / inside a block / on a block boundary /
// k blocks short, a second handle opened with fewer or more blocks, external
// growth, shrink followed by re-extension) and then runs Read, ReadTo into a
// dirty buffer, Write and Barrier at the first / a middle / the last block
// still in the image / the first block beyond the image end / the last block
// of the disk / the block just beyond the disk, followed by a sweep reading
// every block.
//
// Oracle (exactly the clause "Read never reports success when the underlying
// read failed … never as silently lost or stale data"): the harness knows
// which blocks IT removed from the image. While the file is shorter than
// (b+1)*4096 the kernel cannot deliver block b, so a Read/ReadTo of b that
// returns normally with anything but the last value written is a silent loss
// (a panic is fine; so is the last value written). Once something re-extended
// the file over b (growth, a later Write further out, a second handle with
// more blocks) the zeros there are what the file really contains: such reads
// are counted inconclusive, never judged. A block the harness never touched
// and whose last Write returned normally must read as that value.
//
// The scripts run in child processes (no strace): a retry loop that never
// terminates at end of file only costs that child (watchdog → inconclusive).

func init() {
	props.Children["c11-image-child"] = c11ImageChild
}

type c11imgCase struct {
	ID    int      `json:"id"`
	N     int      `json:"n"`
	Mut   string   `json:"mutation"`
	Probe string   `json:"probe"`
	Steps []string `json:"steps"`
}

// c11imgObs is one Read/ReadTo observation (or a Write/Barrier/mutation
// outcome, Kind != "read") reported by the child.
type c11imgObs struct {
	Case  int    `json:"c"`
	Step  int    `json:"s"`
	Op    string `json:"op"`              // R | T | W | B | X | H | h
	Block int    `json:"b"`               //
	State string `json:"st,omitempty"`    // intact | missing | cut | hole | unknown | beyond-disk
	FLen  int64  `json:"flen"`            // length of the image just before the operation
	Res   string `json:"res"`             // ok | panic | err
	Match bool   `json:"match,omitempty"` // returned bytes == last value written
	Zeros int    `json:"zeros,omitempty"` // zero bytes in the returned block
	Dirt  int    `json:"dirt,omitempty"`  // surviving bytes of the pre-filled ReadTo buffer
	Msg   string `json:"msg,omitempty"`
	Sweep bool   `json:"sweep,omitempty"`
}

// c11ImageChild: args = specfile imagedir. Steps:
//
//	W<b> R<b> T<b> B        operations through the first handle
//	X<len>                  harness: os.Truncate(image, len) (shrink or growth)
//	H<m> / h<m>             harness: second handle NewFileDisk(image, m), kept open / closed at once
//	S                       sweep: ReadTo and Read of every block 0..n (n = just beyond the disk)
func c11ImageChild(args []string) int {
	if len(args) < 2 {
		return 2
	}
	raw, err := os.ReadFile(args[0])
	if err != nil {
		return 2
	}
	var cases []c11imgCase
	if json.Unmarshal(raw, &cases) != nil {
		return 2
	}
	out := bufio.NewWriter(os.Stdout)
	defer out.Flush()
	emit := func(o c11imgObs) {
		b, _ := json.Marshal(o)
		out.Write(b)
		out.WriteByte('\n')
	}
	for _, c := range cases {
		path := filepath.Join(args[1], fmt.Sprintf("img%d", c.ID))
		os.Remove(path)
		c11ImageRun(c, path, emit)
		os.Remove(path)
		out.Flush()
		fmt.Fprintf(out, "{\"done\":%d}\n", c.ID)
	}
	return 0
}

const (
	blkIntact  = 0 // last Write returned normally, the harness never removed it
	blkGone    = 1 // the harness removed (part of) it from the image
	blkUnknown = 2 // a Write of it did not return normally
)

func c11ImageRun(c c11imgCase, path string, emit func(c11imgObs)) {
	var d disk.FileDisk
	var err error
	if p := protect(func() { d, err = disk.NewFileDisk(path, uint64(c.N)) }); p != "" || err != nil {
		emit(c11imgObs{Case: c.ID, Step: -1, Op: "O", Res: "err", Msg: fmt.Sprint(p, err)})
		return
	}
	defer protect(func() { d.Close() })
	var second []disk.FileDisk
	defer func() {
		for _, h := range second {
			protect(func() { h.Close() })
		}
	}()
	model := make([][]byte, c.N)
	state := make([]int, c.N)
	for b := range model {
		model[b] = make([]byte, bs) // fresh image: zeros
	}
	flen := func() int64 {
		st, e := os.Stat(path)
		if e != nil {
			return -1
		}
		return st.Size()
	}
	// after the harness changed the length: every block not wholly inside
	// the file is gone
	cut := func(l int64) {
		for b := range state {
			if int64(b+1)*int64(bs) > l {
				state[b] = blkGone
			}
		}
	}
	classify := func(b int, l int64) string {
		if b >= c.N {
			return "beyond-disk"
		}
		switch state[b] {
		case blkUnknown:
			return "unknown"
		case blkGone:
			switch {
			case l >= int64(b+1)*int64(bs):
				return "hole"
			case l > int64(b)*int64(bs):
				return "cut"
			default:
				return "missing"
			}
		}
		return "intact"
	}
	read := func(step int, op string, b int, sweep bool) {
		l := flen()
		o := c11imgObs{Case: c.ID, Step: step, Op: op, Block: b, State: classify(b, l), FLen: l, Res: "ok", Sweep: sweep}
		var got []byte
		var p string
		if op == "T" {
			buf := make([]byte, bs)
			for i := range buf {
				buf[i] = c11Dirt
			}
			p = protect(func() { d.ReadTo(uint64(b), buf) })
			got = buf
		} else {
			p = protect(func() { got = d.Read(uint64(b)) })
		}
		if p != "" {
			o.Res, o.Msg = "panic", p
			if len(o.Msg) > 80 {
				o.Msg = o.Msg[:80]
			}
			emit(o)
			return
		}
		if b < c.N && state[b] != blkUnknown {
			o.Match = string(got) == string(model[b])
		}
		for _, x := range got {
			if x == 0 {
				o.Zeros++
			}
			if x == c11Dirt && op == "T" {
				o.Dirt++
			}
		}
		if len(got) != bs {
			o.Match = false
			o.Msg = fmt.Sprintf("returned %d bytes", len(got))
		}
		emit(o)
	}
	for i, st := range c.Steps {
		op := st[:1]
		arg := 0
		if len(st) > 1 {
			arg, _ = strconv.Atoi(st[1:])
		}
		switch op {
		case "W":
			content := c11Content(c.ID*131 + i)
			l := flen()
			p := protect(func() { d.Write(uint64(arg), content) })
			o := c11imgObs{Case: c.ID, Step: i, Op: "W", Block: arg, FLen: l, Res: "ok", State: classify(arg, l)}
			if p != "" {
				o.Res, o.Msg = "panic", p
				if arg < c.N {
					state[arg] = blkUnknown
				}
			} else if arg < c.N {
				model[arg], state[arg] = content, blkIntact
			}
			emit(o)
		case "R", "T":
			read(i, op, arg, false)
		case "B":
			l := flen()
			p := protect(func() { d.Barrier() })
			o := c11imgObs{Case: c.ID, Step: i, Op: "B", FLen: l, Res: "ok"}
			if p != "" {
				o.Res, o.Msg = "panic", p
			}
			emit(o)
		case "X":
			l := flen()
			e := os.Truncate(path, int64(arg))
			o := c11imgObs{Case: c.ID, Step: i, Op: "X", Block: arg, FLen: l, Res: "ok"}
			if e != nil {
				o.Res, o.Msg = "err", e.Error()
			}
			if a := flen(); a < l {
				cut(a)
			}
			emit(o)
		case "H", "h":
			l := flen()
			var h disk.FileDisk
			var e error
			p := protect(func() { h, e = disk.NewFileDisk(path, uint64(arg)) })
			o := c11imgObs{Case: c.ID, Step: i, Op: op, Block: arg, FLen: l, Res: "ok"}
			if p != "" || e != nil {
				o.Res, o.Msg = "err", fmt.Sprint(p, e)
			} else if op == "H" {
				second = append(second, h)
			} else {
				protect(func() { h.Close() })
			}
			// whatever the second open did to the length is the harness's doing
			// (it asked for it): blocks not wholly inside min(before, after)
			// are gone. If it failed we no longer know what the image holds.
			a := flen()
			if a < l {
				cut(a)
			}
			if o.Res != "ok" {
				for b := range state {
					state[b] = blkUnknown
				}
			}
			emit(o)
		case "S":
			for b := 0; b <= c.N; b++ {
				read(i, "T", b, true)
				read(i, "R", b, true)
			}
		}
	}
}

// ---------------------------------------------------------------- parent

func uniqInts(xs []int) []int {
	seen := map[int]bool{}
	var out []int
	for _, x := range xs {
		if x >= 0 && !seen[x] {
			seen[x] = true
			out = append(out, x)
		}
	}
	return out
}

// c11ImageCases generates the family. Every case starts by writing all n
// blocks (the values the oracle calls "last value written").
func c11ImageCases(r *core.Run) []c11imgCase {
	rng := core.NewRng(r.Seed, "c11-image")
	var cases []c11imgCase
	add := func(n int, mut, probe string, steps []string) {
		cases = append(cases, c11imgCase{ID: len(cases), N: n, Mut: mut, Probe: probe, Steps: steps})
	}
	ns := []int{1, 2, 4, 7}
	if !r.Quick() {
		ns = append(ns, 3, 16, 33)
	}
	for _, n := range ns {
		var init []string
		for b := 0; b < n; b++ {
			init = append(init, fmt.Sprintf("W%d", b))
		}
		if n%2 == 0 {
			init = append(init, "B")
		}
		type mutation struct {
			name  string
			steps []string
			end   int // image length in bytes afterwards
		}
		var muts []mutation
		X := func(l int) string { return fmt.Sprintf("X%d", l) }
		muts = append(muts, mutation{"truncate-to-0", []string{X(0)}, 0})
		j := rng.Intn(n) // the block the cut falls into
		muts = append(muts, mutation{"truncate-mid-block", []string{X(j*bs + 1 + rng.Intn(bs-1))}, 0})
		muts = append(muts, mutation{"truncate-1-byte-short", []string{X(n*bs - 1)}, 0})
		muts = append(muts, mutation{"truncate-to-1-byte", []string{X(1)}, 0})
		if n > 1 {
			muts = append(muts, mutation{"truncate-block-boundary", []string{X((1 + rng.Intn(n-1)) * bs)}, 0})
			k := 1 + rng.Intn(n-1)
			muts = append(muts, mutation{fmt.Sprintf("truncate-k-blocks-short"), []string{X((n - k) * bs)}, 0})
			m := rng.Intn(n) // 0..n-1 blocks
			muts = append(muts, mutation{"second-handle-fewer-blocks-open", []string{fmt.Sprintf("H%d", m)}, 0})
			muts = append(muts, mutation{"second-handle-fewer-blocks-closed", []string{fmt.Sprintf("h%d", (m+1)%n)}, 0})
		} else {
			muts = append(muts, mutation{"second-handle-fewer-blocks-open", []string{"H0"}, 0})
			muts = append(muts, mutation{"second-handle-fewer-blocks-closed", []string{"h0"}, 0})
		}
		muts = append(muts, mutation{"grow-external-whole-blocks", []string{X((n + 1 + rng.Intn(3)) * bs)}, 0})
		muts = append(muts, mutation{"grow-external-partial-block", []string{X(n*bs + 1 + rng.Intn(bs-1))}, 0})
		muts = append(muts, mutation{"second-handle-more-blocks", []string{fmt.Sprintf("H%d", n+1+rng.Intn(3))}, 0})
		muts = append(muts, mutation{"shrink-then-reextend-external", []string{X(rng.Intn(n) * bs), X(n * bs)}, 0})
		muts = append(muts, mutation{"shrink-then-second-handle-same-size", []string{X(rng.Intn(n)*bs + rng.Intn(bs)), fmt.Sprintf("h%d", n)}, 0})
		muts = append(muts, mutation{"none", nil, 0})
		for mi := range muts {
			// the image length after the mutation, from the steps themselves
			l := n * bs
			for _, st := range muts[mi].steps {
				v, _ := strconv.Atoi(st[1:])
				if st[0] == 'X' {
					l = v
				} else {
					l = v * bs
				}
			}
			muts[mi].end = l
		}
		for _, m := range muts {
			whole := m.end / bs          // blocks wholly inside the image
			first := (m.end + bs - 1) / bs // first block wholly beyond the image end
			pos := map[string]int{"first": 0, "middle": n / 2, "last-in-image": whole - 1, "cut-or-first-beyond-image": whole, "first-beyond-image": first, "last-of-disk": n - 1, "just-beyond-disk": n}
			var names []string
			for k := range pos {
				names = append(names, k)
			}
			sort.Strings(names)
			done := map[int]bool{}
			for _, pn := range names {
				b := pos[pn]
				if b < 0 || b > n || done[b] {
					continue
				}
				done[b] = true
				for _, op := range []string{"R", "T", "W", "B"} {
					if op == "B" && pn != "first" {
						continue
					}
					steps := append(append([]string{}, init...), m.steps...)
					probe := op
					if op != "B" {
						probe = fmt.Sprintf("%s%d", op, b)
					}
					steps = append(steps, probe, "S")
					add(n, m.name, op+"@"+pn, steps)
				}
			}
		}
	}
	// seeded random histories over the same step alphabet
	for h := 0; h < r.Pick(300, 6000); h++ {
		n := 1 + rng.Intn(6)
		var steps []string
		for b := 0; b < n; b++ {
			if rng.Intn(8) > 0 {
				steps = append(steps, fmt.Sprintf("W%d", b))
			}
		}
		k := 6 + rng.Intn(20)
		for i := 0; i < k; i++ {
			switch x := rng.Intn(100); {
			case x < 22:
				steps = append(steps, fmt.Sprintf("W%d", rng.Intn(n+1)))
			case x < 42:
				steps = append(steps, fmt.Sprintf("R%d", rng.Intn(n+1)))
			case x < 62:
				steps = append(steps, fmt.Sprintf("T%d", rng.Intn(n+1)))
			case x < 68:
				steps = append(steps, "B")
			case x < 84:
				l := rng.Intn((n + 2) * bs)
				if rng.Bool() {
					l = rng.Intn(n+2) * bs
				}
				steps = append(steps, fmt.Sprintf("X%d", l))
			case x < 92:
				steps = append(steps, fmt.Sprintf("%s%d", []string{"H", "h"}[rng.Intn(2)], rng.Intn(n+2)))
			default:
				steps = append(steps, "S")
			}
		}
		steps = append(steps, "S")
		add(n, "random-history", "random", steps)
	}
	return cases
}

func c11ImageLength(r *core.Run) {
	bin, err := r.BuildSelf()
	if err != nil {
		r.Inconclusive("build-failed")
		return
	}
	cases := c11ImageCases(r)
	r.Count("image_length_cases_generated", int64(len(cases)))
	base := mkdirFresh(r.Scratch, "c11len")
	const shards = 16
	obs := make([][]c11imgObs, shards)
	doneCases := make([]map[int]bool, shards)
	core.Parallel(shards, shards, func(s int) {
		var mine []c11imgCase
		for i, c := range cases {
			if i%shards == s {
				mine = append(mine, c)
			}
		}
		dir := mkdirFresh(base, fmt.Sprintf("s%d", s))
		spec := filepath.Join(dir, "spec.json")
		js, _ := json.Marshal(mine)
		os.WriteFile(spec, js, 0o644)
		res := core.Exec(dir, nil, time.Duration(r.Pick(60, 300))*time.Second, "", bin, "child", "c11-image-child", spec, dir)
		doneCases[s] = map[int]bool{}
		for _, l := range strings.Split(res.Stdout, "\n") {
			if strings.HasPrefix(l, `{"done":`) {
				var d struct {
					Done int `json:"done"`
				}
				if json.Unmarshal([]byte(l), &d) == nil {
					doneCases[s][d.Done] = true
				}
				continue
			}
			var o c11imgObs
			if l != "" && json.Unmarshal([]byte(l), &o) == nil {
				obs[s] = append(obs[s], o)
			}
		}
		if res.TimedOut {
			r.Inconclusive("image-length-child-watchdog")
		} else if res.Code != 0 {
			r.Inconclusive("image-length-child-died")
			fmt.Fprintf(os.Stderr, "c11-image-child shard %d exit %d: %.400s\n", s, res.Code, res.Stderr)
		}
		os.RemoveAll(dir)
	})
	finished := map[int]bool{}
	for _, m := range doneCases {
		for k := range m {
			finished[k] = true
		}
	}
	r.Count("image_length_cases_completed", int64(len(finished)))
	if len(finished) < len(cases) {
		r.Count("image_length_cases_not_completed", int64(len(cases)-len(finished)))
	}
	var all []c11imgObs
	for _, o := range obs {
		all = append(all, o...)
	}
	sort.SliceStable(all, func(i, j int) bool {
		if all[i].Case != all[j].Case {
			return all[i].Case < all[j].Case
		}
		return false
	})
	opName := map[string]string{"R": "Read", "T": "ReadTo"}
	reported := map[string]bool{}
	sampled := map[string]bool{}
	for _, o := range all {
		c := cases[o.Case]
		if !finished[o.Case] {
			continue // a case cut off by the watchdog is not judged in part
		}
		r.Eval(1)
		switch o.Op {
		case "O":
			r.Inconclusive("image-length-open-failed")
			continue
		case "W":
			r.Count("image_length_writes_"+o.State+"_"+o.Res, 1)
			continue
		case "B":
			r.Count("image_length_barriers_"+o.Res, 1)
			continue
		case "X", "H", "h":
			r.Count("image_length_mutations_applied", 1)
			if o.Res != "ok" {
				r.Count("image_length_mutations_failed", 1)
			}
			continue
		}
		key := "image_length_reads_" + o.State
		detail := map[string]interface{}{"case": c, "observation": o,
			"image_length_before_read": o.FLen, "block_needs_bytes_up_to": (o.Block + 1) * bs}
		switch o.State {
		case "missing", "cut":
			r.Distinct(fmt.Sprintf("imglen/%s/%s/%s/n=%d", c.Mut, c.Probe, o.State, c.N))
			switch {
			case o.Res != "ok":
				r.Count(key+"_panicked", 1)
				k := o.State + "/" + o.Op
				if !sampled[k] {
					sampled[k] = true
					r.Sample(60, map[string]interface{}{"image_length_case": c.Mut, "n": c.N, "steps": c.Steps, "read": fmt.Sprintf("%s(%d) with the image at %d bytes", opName[o.Op], o.Block, o.FLen), "observed": "panic: " + o.Msg})
				}
			case o.Match:
				r.Count(key+"_returned_last_written", 1)
			default:
				r.Count(key+"_returned_other_data", 1)
				sig := "read-of-block-missing-from-image-reports-success"
				what := "wholly beyond the end of the image"
				if o.State == "cut" {
					sig = "read-of-block-cut-by-image-end-reports-success"
					what = "only partly inside the image"
				}
				if !reported[sig] {
					reported[sig] = true
					r.Violate(sig, fmt.Sprintf("%s(%d) returned normally with data that is not the last value written (%d zero bytes, %d untouched bytes of the caller's buffer) although the image had been cut to %d bytes by the harness (%s) and block %d, bytes %d..%d, is %s: the underlying read cannot have delivered 4096 bytes",
						opName[o.Op], o.Block, o.Zeros, o.Dirt, o.FLen, c.Mut, o.Block, o.Block*bs, (o.Block+1)*bs-1, what), detail)
				}
			}
		case "hole":
			r.Count(key+"_not_judged", 1)
		case "unknown", "beyond-disk":
			r.Count(key+"_not_judged", 1)
		case "intact":
			switch {
			case o.Res != "ok":
				// nothing failed underneath; the statement does not forbid a
				// spurious panic, C09 decides those
				r.Count(key+"_panicked_not_judged", 1)
			case o.Match:
				r.Count(key+"_returned_last_written", 1)
			default:
				sig := "open-disk-untouched-block-read-differs-from-last-written"
				if !reported[sig] {
					reported[sig] = true
					r.Violate(sig, fmt.Sprintf("%s(%d) returned data differing from the last value written although the block lies wholly inside the image (%d bytes) and the harness never removed it (mutation %s elsewhere in the image)", opName[o.Op], o.Block, o.FLen, c.Mut), detail)
				}
			}
		}
	}
}
