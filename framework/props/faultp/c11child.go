package faultp

import (
	"fmt"
	"strconv"
	"strings"

	"verif/props"

	"github.com/goose-lang/goose/machine/disk"
)

func init() {
	props.Children["c11-child"] = c11Child
}

const c11Dirt = 0xEE // never part of a legitimate block (values 0 and 1..199)

// c11Content is the block written by script step i (self-identifying, never
// contains 0 or the dirt byte).
func c11Content(step int) []byte {
	b := make([]byte, disk.BlockSize)
	for j := range b {
		b[j] = byte(1 + (step*31+j)%199)
	}
	return b
}

// c11Child runs a script against a FileDisk: args = path numBlocks script,
// script = comma separated steps O | W<a> | R<a> | T<a> | B | C.
// Every API call is bracketed by `BEGIN i op` / `END i ok …|panic …|err …`.
// Reads report whether the bytes equal the child's own model of the disk
// (updated by every Write that returned normally) and how many bytes of a
// dirty pre-filled ReadTo buffer survived.
func c11Child(args []string) int {
	if len(args) < 3 {
		mark("usage")
		return 2
	}
	path := args[0]
	n, _ := strconv.ParseUint(args[1], 10, 64)
	steps := strings.Split(args[2], ",")
	// optional: length in bytes of the image before the open (filled with
	// imgPattern); then the expected content of a block that was never written
	// is known too: the retained prefix of the prior image, then zeros.
	priorLen := -1
	if len(args) > 3 {
		priorLen, _ = strconv.Atoi(args[3])
	}
	expect := func(model map[uint64][]byte, known map[uint64]bool, a uint64) ([]byte, bool) {
		if m, ok := model[a]; ok || known[a] {
			return m, known[a]
		}
		if _, failed := known[a]; failed || priorLen < 0 || a >= n {
			return nil, false
		}
		b := make([]byte, disk.BlockSize)
		for j := range b {
			if off := int(a)*int(disk.BlockSize) + j; off < priorLen {
				b[j] = imgPattern(off)
			}
		}
		return b, true
	}
	var d disk.FileDisk
	open := false
	model := map[uint64][]byte{} // nil entry: unknown (a write failed)
	known := map[uint64]bool{}
	for i, st := range steps {
		op := st[:1]
		var a uint64
		if len(st) > 1 {
			a, _ = strconv.ParseUint(st[1:], 10, 64)
		}
		if op != "O" && !open {
			mark("SKIP %d %s (disk not open)", i, st)
			continue
		}
		extra := ""
		res := "ok"
		var content []byte
		if op == "W" {
			content = c11Content(i)
		}
		dirty := make([]byte, disk.BlockSize)
		for j := range dirty {
			dirty[j] = c11Dirt
		}
		mark("BEGIN %d %s", i, st)
		func() {
			defer func() {
				if e := recover(); e != nil {
					res = "panic " + fmt.Sprint(e)
				}
			}()
			switch op {
			case "O":
				var err error
				d, err = disk.NewFileDisk(path, n)
				if err != nil {
					res = "err " + err.Error()
				} else {
					open = true
				}
			case "W":
				d.Write(a, content)
			case "R":
				b := d.Read(a)
				w, k := expect(model, known, a)
				extra = c11Compare(b, w, k, false)
			case "T":
				d.ReadTo(a, dirty)
				w, k := expect(model, known, a)
				extra = c11Compare(dirty, w, k, true)
			case "B":
				d.Barrier()
			case "C":
				d.Close()
				open = false
			}
		}()
		if res == "ok" && extra != "" {
			res = "ok " + extra
		}
		mark("END %d %s", i, res)
		if op == "W" {
			if res == "ok" {
				model[a], known[a] = content, true
			} else {
				delete(model, a)
				known[a] = false
			}
		}
	}
	return 0
}

// c11Compare: match=yes|no|unknown (unknown when an earlier write of that
// block did not report success, or the block was never written: then the
// expected content depends on the prior image and the parent decides),
// dirt=<surviving dirt bytes>, dirtTail=<surviving dirt bytes from offset 100 on>.
func c11Compare(got, want []byte, known, dirtyBuf bool) string {
	match := "unknown"
	if known {
		match = "yes"
		if len(got) != len(want) {
			match = "no"
		} else {
			for i := range got {
				if got[i] != want[i] {
					match = "no"
					break
				}
			}
		}
	}
	tailMatch := "unknown"
	if known && len(got) == len(want) && len(got) > 100 {
		tailMatch = "yes"
		for i := 100; i < len(got); i++ {
			if got[i] != want[i] {
				tailMatch = "no"
				break
			}
		}
	}
	// lastbad: offset of the last byte differing from the expectation (-1:
	// none, or the expectation is unknown). After a faked K-byte transfer the
	// bytes below K were never moved, so only lastbad >= K can be judged.
	lastBad := -1
	if known && len(got) == len(want) {
		for i := len(got) - 1; i >= 0; i-- {
			if got[i] != want[i] {
				lastBad = i
				break
			}
		}
	}
	dirt := 0
	if dirtyBuf {
		for _, c := range got {
			if c == c11Dirt {
				dirt++
			}
		}
	}
	return fmt.Sprintf("len=%d match=%s tailmatch=%s dirt=%d lastbad=%d", len(got), match, tailMatch, dirt, lastBad)
}
