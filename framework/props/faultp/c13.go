package faultp

import (
	"bytes"
	"encoding/json"
	"fmt"
	"io/fs"
	"os"
	"path/filepath"
	"sort"
	"strings"
	"sync"
	"time"

	"verif/core"
	"verif/props"

	"github.com/goose-lang/goose/machine/filesys"
)

// C13: DirFs/MemFs AtomicCreate is all-or-nothing (crash and fault
// enumeration under strace), recovers from every leftover state, flushes
// before publishing, and concurrent creators/readers do not disturb each
// other.

func init() {
	props.Registry["C13"] = props.Prop{Level: "fault_enumeration", Run: runC13}
}

const (
	vOld   = 1 // previous content of d/f
	vData  = 2 // data of the call under test
	vShort = 3 // recovery data shorter than data
	vLong  = 4 // recovery data longer than data
)

type c13setup struct {
	Size int    `json:"data_len"`
	Dest string `json:"destination_before"` // absent | shorter | longer
}

func (s c13setup) name() string { return fmt.Sprintf("len%d-%s", s.Size, s.Dest) }

func (s c13setup) old() ([]byte, bool) {
	switch s.Dest {
	case "shorter":
		return pay1(vOld, s.Size/2), true
	case "longer":
		return pay1(vOld, s.Size+7), true
	}
	return nil, false
}

// describe renders a content as run lengths of bytes: "0x02×11+0x01×4085".
func describe(b []byte, present bool) string {
	if !present {
		return "absent"
	}
	if len(b) == 0 {
		return "empty"
	}
	var parts []string
	for i := 0; i < len(b); {
		j := i
		for j < len(b) && b[j] == b[i] {
			j++
		}
		parts = append(parts, fmt.Sprintf("0x%02x×%d", b[i], j-i))
		if len(parts) >= 6 {
			parts = append(parts, "…")
			break
		}
		i = j
	}
	return strings.Join(parts, "+")
}

// treeState reads every regular file under root (relative path -> content).
func treeState(root string) map[string][]byte {
	out := map[string][]byte{}
	filepath.WalkDir(root, func(p string, d fs.DirEntry, err error) error {
		if err != nil || d.IsDir() {
			return nil
		}
		rel, _ := filepath.Rel(root, p)
		b, e := os.ReadFile(p)
		if e == nil {
			out[rel] = b
		}
		return nil
	})
	return out
}

func describeTree(st map[string][]byte) map[string]string {
	out := map[string]string{}
	for k, v := range st {
		out[k] = describe(v, true)
	}
	return out
}

func copyTree(src, dst string) error {
	return filepath.WalkDir(src, func(p string, d fs.DirEntry, err error) error {
		if err != nil {
			return err
		}
		rel, _ := filepath.Rel(src, p)
		t := filepath.Join(dst, rel)
		if d.IsDir() {
			return os.MkdirAll(t, 0o755)
		}
		b, e := os.ReadFile(p)
		if e != nil {
			return e
		}
		return os.WriteFile(t, b, 0o644)
	})
}

// c13Prepare builds the starting state with the library itself.
func c13Prepare(root string, s c13setup) string {
	os.RemoveAll(root)
	os.MkdirAll(root, 0o755)
	return protect(func() {
		f := filesys.NewDirFs(root)
		defer f.CloseFs()
		f.Mkdir("d")
		if old, ok := s.old(); ok {
			f.AtomicCreate("d", "f", old)
		}
	})
}

type c13unit struct {
	Setup  int               `json:"-"`
	SetupN string            `json:"setup"`
	Kind   string            `json:"kind"` // crash | EIO | ENOSPC | EINTR | EAGAIN
	Dur    string            `json:"duration,omitempty"` // once | twice | thrice | persistent (occurrences K, K..K+1, K..K+2, K+)
	Fails  int               `json:"failures_inside_the_call,omitempty"`
	Sys    string            `json:"syscall"`
	Pos    int               `json:"position_in_call"` // 0-based index among the call's syscalls
	Occ    int               `json:"occurrence_on_main_thread"`
	Landed bool              `json:"landed"`
	Child  string            `json:"child_reported,omitempty"`
	After  map[string]string `json:"tree_after,omitempty"`
	Rec    []string          `json:"recovery,omitempty"`
	viol   []pendingViol
}

// pendingViol is a violation found inside a parallel unit; it is emitted
// after the parallel phase in plan order so that reports are deterministic.
type pendingViol struct {
	sig, what string
	detail    interface{}
}

var c13FaultTargets = map[string]bool{"open": true, "openat": true, "write": true, "pwrite64": true, "writev": true, "fsync": true, "fdatasync": true,
	"rename": true, "renameat": true, "renameat2": true, "link": true, "linkat": true}

func isRename(n string) bool { return n == "rename" || n == "renameat" || n == "renameat2" }
func isWrite(n string) bool {
	return n == "write" || n == "pwrite64" || n == "writev" || n == "pwritev"
}

// c13Order decides the durable-before-visible clause on the syscalls of one
// successful call. Returns sig "" when the order is right, "?"+reason when
// the trace cannot be interpreted.
func c13Order(call apiCall, dest string) (sig, detail string) {
	pub := -1
	for i, e := range call.Sys {
		q := e.quoted()
		if (isRename(e.Name) || e.Name == "linkat" || e.Name == "link") && e.ok() && len(q) >= 2 && strings.HasSuffix(q[len(q)-1], dest) {
			pub = i
		}
	}
	if pub < 0 {
		for _, e := range call.Sys {
			q := e.quoted()
			if (e.Name == "openat" || e.Name == "open" || e.Name == "creat") && len(q) >= 1 && strings.HasSuffix(q[0], dest) &&
				(strings.Contains(e.Args, "O_WRONLY") || strings.Contains(e.Args, "O_RDWR") || e.Name == "creat") {
				return "order-dest-written-in-place", "the destination itself is opened for writing (" + e.Raw + "): the name is visible before the data is flushed"
			}
		}
		return "?publish-event-not-recognised", ""
	}
	src := call.Sys[pub].quoted()[0]
	fd := -1
	for i := 0; i < pub; i++ {
		e := call.Sys[i]
		q := e.quoted()
		if (e.Name == "openat" || e.Name == "open" || e.Name == "creat") && e.ok() && len(q) >= 1 && q[0] == src {
			fd = int(e.retInt())
		}
	}
	if fd < 0 {
		return "?staging-open-not-found", ""
	}
	lastW := -1
	for i := 0; i < pub; i++ {
		e := call.Sys[i]
		if isWrite(e.Name) && e.firstIntArg() == fd && e.ok() {
			lastW = i
		}
	}
	if lastW < 0 {
		return "?no-write-to-staging-descriptor", ""
	}
	// A flush that FAILED (with anything but EINTR) after the last write
	// reports the writeback error once and may leave the pages marked clean: a
	// later successful fsync then proves nothing unless the data was written
	// again (which would make that write the last write). So: no failed
	// non-EINTR flush of the descriptor between its last write and the
	// publishing rename, and a successful one.
	for i := lastW + 1; i < pub; i++ {
		e := call.Sys[i]
		if (e.Name == "fsync" || e.Name == "fdatasync") && e.firstIntArg() == fd && !e.ok() && e.Ret != "" && !strings.HasPrefix(e.Ret, "?") && !strings.Contains(e.Ret, "EINTR") {
			return "order-rename-after-failed-fsync-without-rewrite", fmt.Sprintf("%s(%d) failed (%s) after the last write to the staging descriptor, the data was not written again, and the call went on to publish the name with %s: a later successful flush says nothing about the pages of the failed one", e.Name, fd, e.Ret, call.Sys[pub].Name)
		}
	}
	for i := lastW + 1; i < pub; i++ {
		e := call.Sys[i]
		if e.ok() && (((e.Name == "fsync" || e.Name == "fdatasync") && e.firstIntArg() == fd) || e.Name == "sync" || e.Name == "syncfs") {
			return "", fmt.Sprintf("%s(%d) after the last write and before %s", e.Name, fd, call.Sys[pub].Name)
		}
	}
	for i := pub + 1; i < len(call.Sys); i++ {
		e := call.Sys[i]
		if (e.Name == "fsync" || e.Name == "fdatasync") && e.firstIntArg() == fd {
			return "order-fsync-after-rename", fmt.Sprintf("the only flush of staging descriptor %d comes after %s published the name", fd, call.Sys[pub].Name)
		}
	}
	return "order-no-fsync-before-rename", fmt.Sprintf("no successful fsync/fdatasync of staging descriptor %d between its last write and %s", fd, call.Sys[pub].Name)
}

// destVerdict: the destination must be exactly as before or exactly data.
func destVerdict(st map[string][]byte, s c13setup, data []byte) (ok bool, which, what string) {
	cur, present := st["d/f"]
	old, had := s.old()
	if present && bytes.Equal(cur, data) && !(had && bytes.Equal(old, data)) {
		return true, "new", ""
	}
	if had == present && (!had || bytes.Equal(cur, old)) {
		return true, "old", ""
	}
	if had && !present {
		return false, "", "missing"
	}
	return false, "", "corrupt"
}

// c13Recover runs complete AtomicCreate calls (shorter and longer data) in
// copies of the leftover state and checks the result is exactly data2.
func c13Recover(r *core.Run, root string, s c13setup, u *c13unit) {
	left := treeState(root)
	for _, rv := range c13RecSizes(s.Size) {
		cp := root + "-rec-" + rv.name
		os.RemoveAll(cp)
		if err := copyTree(root, cp); err != nil {
			r.Inconclusive("scratch-copy-failed")
			continue
		}
		data2 := pay1(rv.v, rv.n)
		p := protect(func() {
			f := filesys.NewDirFs(cp)
			defer f.CloseFs()
			f.AtomicCreate("d", "f", data2)
		})
		r.Eval(1)
		r.Count("recovery_runs", 1)
		st := treeState(cp)
		got, present := st["d/f"]
		res := fmt.Sprintf("%s data2=%s -> d/f=%s", rv.name, describe(data2, true), describe(got, present))
		if p != "" {
			res += " panic: " + p
		}
		u.Rec = append(u.Rec, res)
		detail := map[string]interface{}{"fault_point": *u, "setup": s, "leftover_state_before_recovery": describeTree(left),
			"recovery_call": fmt.Sprintf("AtomicCreate(d,f,%s)", describe(data2, true)), "d/f_after": describe(got, present), "panic": p}
		where := u.Kind + "-at-" + u.Sys
		switch {
		case p != "":
			u.viol = append(u.viol, pendingViol{"recovery-call-failed-after-" + where, fmt.Sprintf("a complete AtomicCreate in the state left by a %s at %s (setup %s) panicked: %s", u.Kind, u.Sys, s.name(), p), detail})
		case present && bytes.Equal(got, data2):
			r.Count("recovery_runs_exact", 1)
		default:
			sig := "recovery-wrong-content-after-" + where
			for name, lc := range left {
				if name != "d/f" && len(lc) > len(data2) && present && bytes.Equal(got, append(append([]byte{}, data2...), lc[len(data2):]...)) {
					sig = "recovery-leftover-staging-tail"
					detail["explanation"] = fmt.Sprintf("d/f = data2 followed by bytes %d.. of the leftover file %q", len(data2), name)
				}
			}
			u.viol = append(u.viol, pendingViol{sig, fmt.Sprintf("after a %s at %s of AtomicCreate(d,f,%s) (setup %s), a complete AtomicCreate(d,f,%s) left d/f = %s",
				u.Kind, u.Sys, describe(pay1(vData, s.Size), true), s.name(), describe(data2, true), describe(got, present)), detail})
		}
		os.RemoveAll(cp)
	}
}

func c13CrashAndFaults(r *core.Run) (missing []string) {
	bin, err := r.BuildSelf()
	if err != nil {
		r.Inconclusive("build-failed")
		fmt.Fprintln(os.Stderr, err)
		return []string{"build"}
	}
	var setups []c13setup
	sizes := []int{11, 0, 1, 4096, 1 << 20}
	if !r.Quick() {
		sizes = append(sizes, 100, 4097, 65536, 3<<20)
	}
	for _, sz := range sizes {
		for _, d := range []string{"absent", "shorter", "longer"} {
			if sz == 0 && d == "shorter" {
				continue
			}
			setups = append(setups, c13setup{sz, d})
		}
	}
	base := mkdirFresh(r.Scratch, "c13x")
	// the interrupted call is the (pre+1)-th AtomicCreate of its process
	preOf := func(si int) int { return si % 3 }
	childArgs := func(root string, si int) []string {
		return []string{"c13-child", "ac", root, "d", "f", fmt.Sprint(vData), fmt.Sprint(setups[si].Size), fmt.Sprint(preOf(si))}
	}
	// every strace run of this part happens in a fresh PID namespace (when
	// available) so that interrupted and recovery children share one pid
	ns := c13PidNS(r, bin)
	recs := make([]*straceResult, len(setups))
	recState := make([]map[string][]byte, len(setups))
	prepErr := make([]string, len(setups))
	core.Parallel(len(setups), 16, func(i int) {
		d := mkdirFresh(base, setups[i].name(), "rec")
		root := filepath.Join(d, "root")
		if prepErr[i] = c13Prepare(root, setups[i]); prepErr[i] != "" {
			return
		}
		recs[i] = runStraceNS(ns, bin, d, filepath.Join(d, "log"), "", childArgs(root, i)...)
		recState[i] = treeState(root)
	})
	var plan []c13unit
	kindsPlanned := map[string]bool{}
	for si, s := range setups {
		if prepErr[si] != "" {
			r.Violate("setup-atomiccreate-failed", "AtomicCreate of the previous content in an empty directory failed: "+prepErr[si], s)
			continue
		}
		rec := recs[si]
		if rec.Err != nil || rec.T == nil || !rec.T.Exited {
			r.Inconclusive("recording-run-failed")
			continue
		}
		calls := rec.T.calls()
		if len(calls) != 1 || !calls[0].Ended {
			r.Inconclusive("recording-run-incomplete")
			continue
		}
		call := calls[0]
		r.Eval(1)
		r.Count("recording_runs", 1)
		data := pay1(vData, s.Size)
		got, present := recState[si]["d/f"]
		var names []string
		for _, e := range call.Sys {
			names = append(names, e.Name)
		}
		if call.Result != "ok" || !present || !bytes.Equal(got, data) {
			r.Violate("nofault-atomiccreate-wrong", fmt.Sprintf("AtomicCreate(d,f,%s) without any fault (setup %s) reported %q and left d/f = %s", describe(data, true), s.name(), call.Result, describe(got, present)),
				map[string]interface{}{"setup": s, "syscalls": excerpt(call.Sys, 12)})
			continue
		}
		// (c) order
		if s.Size > 0 {
			sig, detail := c13Order(call, "d/f")
			r.Count("order_traces_checked", 1)
			switch {
			case sig == "":
				r.Count("order_traces_flush_before_publish", 1)
				if si < 4 {
					r.Sample(60, map[string]interface{}{"order_trace": s.name(), "syscalls": excerpt(call.Sys, 10), "verdict": detail})
				}
			case strings.HasPrefix(sig, "?"):
				r.Inconclusive("order-" + sig[1:])
			default:
				r.Violate(sig, fmt.Sprintf("successful AtomicCreate(d,f,%s) (setup %s): %s", describe(data, true), s.name(), detail),
					map[string]interface{}{"setup": s, "syscalls_of_the_call": excerpt(call.Sys, 12)})
			}
		}
		for k, e := range call.Sys {
			occ := rec.T.occurrence(e.Idx)
			plan = append(plan, c13unit{Setup: si, SetupN: s.name(), Kind: "crash", Sys: e.Name, Pos: k, Occ: occ})
			kindsPlanned["crash/"+e.Name] = true
			if c13FaultTargets[e.Name] {
				errnos := []string{"EIO", "ENOSPC", "EINTR"}
				if isWrite(e.Name) {
					errnos = append(errnos, "EAGAIN")
				}
				for _, en := range errnos {
					for _, dur := range faultDurations {
						plan = append(plan, c13unit{Setup: si, SetupN: s.name(), Kind: en, Sys: e.Name, Pos: k, Occ: occ, Dur: dur})
					}
				}
				kindsPlanned["fault/"+e.Name] = true
			}
		}
		r.Set("syscalls_of_one_call/"+s.name(), strings.Join(names, ","))
	}
	r.Count("fault_points_planned", int64(len(plan)))
	results := make([]c13unit, len(plan))
	var mu sync.Mutex
	kindsLanded := map[string]bool{}
	core.Parallel(len(plan), 16, func(i int) {
		u := plan[i]
		s := setups[u.Setup]
		data := pay1(vData, s.Size)
		inj := fmt.Sprintf("%s:error=%s:when=%s", u.Sys, u.Kind, whenSpec(u.Occ, u.Dur))
		if u.Kind == "crash" {
			inj = fmt.Sprintf("%s:signal=KILL:when=%d", u.Sys, u.Occ)
		}
		for attempt := 0; attempt < 2 && !u.Landed; attempt++ {
			d := mkdirFresh(base, s.name(), fmt.Sprintf("u%d-%d", i, attempt))
			root := filepath.Join(d, "root")
			if p := c13Prepare(root, s); p != "" {
				os.RemoveAll(d)
				continue
			}
			sr := runStraceNS(ns, bin, d, filepath.Join(d, "log"), inj, childArgs(root, u.Setup)...)
			r.Eval(1)
			if sr.Err != nil || sr.T == nil {
				os.RemoveAll(d)
				continue
			}
			var call apiCall
			for _, cc := range sr.T.calls() {
				if cc.I == 0 {
					call = cc
				}
			}
			retried := false
			if u.Kind == "crash" {
				if !sr.T.killLanded(0, u.Pos, u.Sys) {
					os.RemoveAll(d)
					continue
				}
				u.Child = "(killed before " + u.Sys + ")"
			} else {
				_, inCall, rt, ok := sr.T.faultsLanded(0, u.Sys)
				if !ok || !call.Ended {
					os.RemoveAll(d)
					continue
				}
				u.Child = call.Result
				u.Fails = len(inCall)
				retried = rt
			}
			u.Landed = true
			st := treeState(root)
			u.After = describeTree(st)
			detail := map[string]interface{}{"fault_point": u, "setup": s, "data": describe(data, true), "syscalls_of_the_call": excerpt(call.Sys, 10)}
			ok, which, what := destVerdict(st, s, data)
			if !ok {
				cur, present := st["d/f"]
				old, had := s.old()
				u.viol = append(u.viol, pendingViol{fmt.Sprintf("%s-at-%s-dest-%s", map[bool]string{true: "crash", false: "fault"}[u.Kind == "crash"], u.Sys, what),
					fmt.Sprintf("%s at syscall #%d (%s) of AtomicCreate(d,f,%s), setup %s: d/f was %s before and is %s afterwards — neither the previous state nor exactly data",
						u.Kind, u.Pos, u.Sys, describe(data, true), s.name(), describe(old, had), describe(cur, present)), detail})
			} else {
				r.Count("dest_"+which+"_after_"+map[bool]string{true: "crash", false: "fault"}[u.Kind == "crash"], 1)
			}
			if u.Kind != "crash" && strings.HasPrefix(call.Result, "ok") {
				if retried {
					r.Count("faults_retried_successfully", 1)
					// the statement allows a retry that ends with exactly data,
					// provided the data was still flushed before the name became
					// visible: judge the final state and the order, not the retry
					if which != "new" {
						u.viol = append(u.viol, pendingViol{"fault-retried-" + u.Sys + "-dest-not-new", "call reported success after retrying but d/f is not data", detail})
					} else if s.Size > 0 {
						osig, odetail := c13Order(call, "d/f")
						switch {
						case osig == "":
							r.Count("faults_retried_order_flush_before_publish", 1)
						case strings.HasPrefix(osig, "?"):
							r.Inconclusive("order-after-retry-" + osig[1:])
						case strings.HasPrefix(osig, "order-rename-after-failed-fsync"):
							u.viol = append(u.viol, pendingViol{osig,
								fmt.Sprintf("AtomicCreate(d,f,%s) (setup %s) reported success after %d %s failure(s) with %s: %s", describe(data, true), s.name(), u.Fails, u.Sys, u.Kind, odetail), detail})
						default:
							u.viol = append(u.viol, pendingViol{"fault-retried-" + u.Sys + "-" + osig,
								fmt.Sprintf("AtomicCreate re-issued a %s that had failed with %s and reported success, but %s", u.Sys, u.Kind, odetail), detail})
						}
					}
				} else {
					u.viol = append(u.viol, pendingViol{fmt.Sprintf("fault-AtomicCreate-%s-%s-reported-success", u.Sys, u.Kind),
						fmt.Sprintf("AtomicCreate reported success although its %s failed with %s (setup %s)", u.Sys, u.Kind, s.name()), detail})
				}
			} else if u.Kind != "crash" {
				r.Count("faults_surfaced_as_panic", 1)
			}
			c13Recover(r, root, s, &u)
			// the same-pid recoveries after every crash point and after the
			// single-occurrence EIO/ENOSPC faults (the leftover tree does not
			// depend on errno or duration)
			if ns && (u.Kind == "crash" || (u.Dur == "once" && (u.Kind == "EIO" || u.Kind == "ENOSPC"))) {
				where := u.Kind + "-at-" + u.Sys
				c13RecoverIdentity(r, bin, root, childPid(sr.Stderr), preOf(u.Setup), c13RecSizes(s.Size), where,
					fmt.Sprintf("a %s at %s of AtomicCreate(d,f,%s) (setup %s, the call was number %d of its process)", u.Kind, u.Sys, describe(data, true), s.name(), preOf(u.Setup)+1),
					map[string]interface{}{"fault_point": u, "setup": s}, &u.viol, &u.Rec)
			}
			os.RemoveAll(d)
		}
		if !u.Landed {
			r.Inconclusive("fault-not-landed")
			r.Count("fault_points_not_landed", 1)
		} else {
			mu.Lock()
			if u.Kind == "crash" {
				kindsLanded["crash/"+u.Sys] = true
			} else {
				kindsLanded["fault/"+u.Sys] = true
			}
			mu.Unlock()
			if u.Kind == "crash" {
				r.Count("crash_points_landed", 1)
				r.Count("crash_points_landed_"+u.Sys, 1)
			} else {
				r.Count("faults_landed", 1)
				r.Count("faults_landed_"+u.Sys, 1)
			}
			r.Distinct(fmt.Sprintf("%s/%s/%s#%d@%d/%s", s.name(), u.Kind, u.Sys, u.Occ, u.Pos, u.Dur))
			if u.Kind != "crash" {
				r.Count("faults_landed_duration_"+u.Dur, 1)
				r.Count("faults_landed_errno_"+u.Kind, 1)
			}
		}
		results[i] = u
	})
	for _, u := range results {
		for _, v := range u.viol {
			r.Violate(v.sig, v.what, v.detail)
		}
	}
	seen := map[string]bool{}
	for _, u := range results {
		k := u.Kind + "/" + u.Sys
		if u.Landed && !seen[k] && setups[u.Setup].Size == 11 {
			seen[k] = true
			r.Sample(60, u)
		}
	}
	for k := range kindsPlanned {
		if !kindsLanded[k] {
			missing = append(missing, k)
		}
	}
	sort.Strings(missing)
	r.Set("fault_kinds_planned_but_never_landed", missing)
	return missing
}

// ---------------------------------------------------------------- (d) concurrency

func c13Concurrency(r *core.Run) {
	bin, err := r.BuildSelf()
	if err != nil {
		r.Inconclusive("build-failed")
		return
	}
	rounds := r.Pick(200, 2000)
	// MemFs calls take microseconds: more rounds (and smaller payloads, MemFs
	// never frees inodes) so that readers and creators really overlap.
	mult := map[string]int{"dir": 1, "mem": 25}
	maxLen := map[string]int{"dir": 6000, "mem": 512}
	var specs []concSpec
	for _, fsn := range []string{"dir", "mem"} {
		for c := 1; c <= 4; c++ {
			for rd := 1; rd <= 4; rd++ {
				specs = append(specs, concSpec{Fs: fsn, Scenario: "readers", Creators: c, Readers: rd, Rounds: rounds * mult[fsn], MaxLen: maxLen[fsn], Salt: uint64(r.Seed)})
			}
		}
		for _, sc := range []string{"pair-same-dir-diff-name", "pair-diff-dir-same-name", "pair-same-dir-same-name"} {
			specs = append(specs, concSpec{Fs: fsn, Scenario: sc, Creators: 2, Rounds: rounds * mult[fsn], MaxLen: maxLen[fsn], Salt: uint64(r.Seed)})
		}
	}
	// thorough: every scenario also with GOMAXPROCS=2 (other interleavings)
	procs := make([]int, len(specs))
	if !r.Quick() {
		n := len(specs)
		for i := 0; i < n; i++ {
			specs = append(specs, specs[i])
			procs = append(procs, 2)
		}
	}
	base := mkdirFresh(r.Scratch, "c13c")
	versions := int64(0)
	var mu sync.Mutex
	pend := make([][]pendingViol, len(specs))
	core.Parallel(len(specs), 8, func(i int) {
		sp := specs[i]
		sp.Root = mkdirFresh(base, fmt.Sprintf("s%d", i))
		js, _ := json.Marshal(sp)
		var env []string
		label := fmt.Sprintf("%s/%s/c%d/r%d", sp.Fs, sp.Scenario, sp.Creators, sp.Readers)
		if procs[i] > 0 {
			env = append(os.Environ(), fmt.Sprintf("GOMAXPROCS=%d", procs[i]))
			label += fmt.Sprintf("/gomaxprocs%d", procs[i])
		}
		res := core.Exec(sp.Root, env, 10*time.Minute, "", bin, "child", "c13-child", "conc", string(js))
		defer os.RemoveAll(sp.Root)
		if res.TimedOut {
			r.Inconclusive("concurrency-child-watchdog")
			return
		}
		var rep concReport
		if res.Code != 0 || json.Unmarshal([]byte(strings.TrimSpace(res.Stdout)), &rep) != nil {
			tail := res.Stderr
			if len(tail) > 1500 {
				tail = tail[:1500]
			}
			pend[i] = append(pend[i], pendingViol{fmt.Sprintf("conc-%s-%s-child-died", sp.Fs, sp.Scenario), fmt.Sprintf("the process running scenario %s died (exit %d): %s", label, res.Code, tail), sp})
			return
		}
		r.Eval(int(rep.CreateCalls + rep.ReaderObs + rep.ListObs + rep.FinalChecks))
		r.Count("conc_scenarios_run", 1)
		r.Count("conc_create_calls", rep.CreateCalls)
		r.Count("conc_reader_observations", rep.ReaderObs)
		r.Count("conc_reader_observations_of_a_concurrently_written_version", rep.NonInitialSeen)
		r.Count("conc_"+sp.Fs+"fs_reader_observations_of_a_concurrently_written_version", rep.NonInitialSeen)
		r.Count("conc_"+sp.Fs+"fs_pair_rounds_with_overlapping_calls", rep.OverlapRounds)
		r.Count("conc_list_observations", rep.ListObs)
		r.Count("conc_pair_rounds_with_overlapping_calls", rep.OverlapRounds)
		r.Count("conc_final_state_checks", rep.FinalChecks)
		mu.Lock()
		versions += int64(rep.VersionsSeen)
		mu.Unlock()
		r.Distinct("conc/" + label)
		if sp.Scenario == "readers" && (sp.Creators == 1 || sp.Creators == 4) && sp.Readers == 4 || sp.Scenario != "readers" {
			r.Sample(60, map[string]interface{}{"scenario": label, "rounds": sp.Rounds, "create_calls": rep.CreateCalls, "reader_observations": rep.ReaderObs,
				"distinct_versions_seen_by_readers": rep.VersionsSeen, "overlapping_rounds": rep.OverlapRounds, "anomalies": rep.AnomalyCount})
		}
		var kinds []string
		for k := range rep.AnomalyCount {
			kinds = append(kinds, k)
		}
		sort.Strings(kinds)
		bySig := map[string][]string{}
		var sigs []string
		for _, k := range kinds {
			if k == "list-missing-dest" && sp.Fs == "dir" {
				// DirFs.List is documented as not atomic w.r.t. concurrent operations
				r.Inconclusive("dirfs-list-missed-dest-nonatomic-readdir")
				continue
			}
			sig := ""
			switch {
			case sp.Fs == "mem":
				sig = fmt.Sprintf("memfs-%s-%s", c13Class(sp), k)
			case sp.Scenario == "pair-diff-dir-same-name":
				sig = "concurrent-different-dirs-same-name-interfere"
			case sp.Scenario == "pair-same-dir-same-name" || (sp.Scenario == "readers" && sp.Creators > 1):
				sig = "concurrent-same-name-mixture-or-failure"
			default:
				sig = fmt.Sprintf("dirfs-%s-%s", c13Class(sp), k)
			}
			if _, ok := bySig[sig]; !ok {
				sigs = append(sigs, sig)
			}
			bySig[sig] = append(bySig[sig], k)
		}
		for _, sig := range sigs {
			var ex []concAnomaly
			var parts []string
			for _, k := range bySig[sig] {
				first := ""
				for _, a := range rep.Anomalies {
					if a.Kind == k {
						if first == "" {
							first = fmt.Sprintf(" (first: round %d, %s: %s)", a.Round, a.Who, a.Detail)
						}
						ex = append(ex, a)
					}
				}
				parts = append(parts, fmt.Sprintf("%d × %s%s", rep.AnomalyCount[k], k, first))
			}
			pend[i] = append(pend[i], pendingViol{sig, fmt.Sprintf("scenario %s (%d rounds, %d AtomicCreate calls): %s", label, sp.Rounds, rep.CreateCalls, strings.Join(parts, "; ")),
				map[string]interface{}{"spec": sp, "anomaly_counts": rep.AnomalyCount, "examples": ex}})
		}
	})
	for _, pv := range pend {
		for _, v := range pv {
			r.Violate(v.sig, v.what, v.detail)
		}
	}
	r.Set("conc_distinct_versions_seen_by_readers_summed", versions)
}

func c13Class(sp concSpec) string {
	if sp.Scenario == "readers" {
		if sp.Creators == 1 {
			return "single-creator-with-readers"
		}
		return "same-name-creators-with-readers"
	}
	return sp.Scenario
}

func runC13(r *core.Run) (bool, string) {
	r.SetRule("(a) crash: for data sizes {0,1,11,4096,1MiB} x destination {absent, shorter old content, longer old content} (old content created by the library itself) a recording run under strace lists the syscalls of DirFs.AtomicCreate(d,f,data) between BEGIN/END marker writes; " +
		"EVERY one of them is then replaced by a SIGKILL before it executes (exhaustive over the file-system syscalls of the call) and d/f must be exactly its previous state or exactly data; " +
		"then, in copies of the SAME leftover tree, a complete AtomicCreate(d,f,data2) with data2 shorter and (separately) longer than data must leave exactly data2. " +
		"The interrupted call is the 1st, 2nd or 3rd AtomicCreate of its process (complete calls for another name come first), and every recovery runs in three process identities: a different pid (in-process), and — strace and child started in a fresh PID namespace, where the child always gets the same pid — a process with the SAME pid as the interrupted one making the same number of calls before (same call index) or one more (other call index), each with data2 shorter than, as long as and longer than data; the result must be exactly data2 (the oracle never looks at staging names; recovery_identity_*_created_over_a_preexisting_leftover_* count, from the recovery run's own strace log, the runs whose call opened with O_CREAT a path that the interrupted call had left behind). The same same-pid recoveries follow every partial-write scenario. " +
		"(b) fault: every open/write/fsync/rename-family syscall of the call fails with EIO, ENOSPC, EINTR (write family: also EAGAIN), each for exactly that occurrence, for occurrences K..K+1, K..K+2 and for every occurrence from K on (exhaustive): the call must not report ok unless it re-issued the syscall successfully — and then d/f must be exactly data and the recorded order must still show a successful flush of the staging descriptor after its last write and before the publishing rename, and NO flush of it that failed with anything but EINTR after that last write (a failed fsync may leave the pages clean; re-writing the data and flushing successfully is fine); d/f must be old or new, and the recovery runs follow (the same-pid ones after the single-occurrence EIO/ENOSPC faults). " +
		"(c) order, on each recorded successful call with non-empty data: a successful fsync/fdatasync of the staging descriptor (the descriptor returned by the open of the path later renamed onto d/f) after its last write and before the rename; writing d/f in place is a violation. " +
		"(d) concurrency in a child process (library panics recovered per call; a fatal error kills only the child): 1-4 creators x 1-4 readers (Open+ReadAt of the whole file, List every 4th iteration) on one file, and creator pairs on (same dir, different names), (different dirs, same name), (same dir, same name) started together each round, on DirFs and MemFs; " +
		"payloads are a 4-byte version token repeated to a version-specific length: a reader/final check must see exactly one complete written version. " +
		"Injected runs count only when validated from their own strace log (kill: BEGIN seen, END not seen, the syscall being entered is the planned k-th syscall of the call; fault: exactly one (INJECTED) line of the planned syscall inside the markers). " +
		"(e) links and descriptors (links_* keys), on DirFs and MemFs against a reference model in which AtomicCreate installs a fresh file under the name: directed and seeded sequences of AtomicCreate / Create+Append / Link / Delete over four names in two directories; after EVERY step every existing name is read through a fresh descriptor: the target holds exactly data and every other name — in particular a hard link of the file just replaced — is unchanged; " +
		"a reader that keeps one descriptor open across replacements and reads in several ReadAt calls (1…4096 bytes) must assemble one complete written version (whether it is the version at Open is recorded, not decided); the same with concurrency: creators replacing different names that are hard links of one file, and chunked readers holding descriptors while a creator replaces the file. " +
		"(f) what a FAILED call leaves behind (leftover_* and full_filesystem_* keys): every open/write/fsync/rename/close of AtomicCreate(d,f,data) fails with ENOSPC or EIO (that occurrence only, or from it on) and the same process goes on with AtomicCreate(d,h,data3): everything below the DirFs root must then be exactly the model (d/f old or new, d/g, d/h) and nothing else, and after a single failing occurrence the following call must succeed; and on a tmpfs of 256 KiB / 1 MiB mounted on the root in a mount namespace of the child: AtomicCreate(d,x,big) with big just over / 2× / 8× the capacity, once or three times, must leave d/x as it was and nothing else, and the following AtomicCreate(d,y,4 B / 8 KiB / capacity÷4) and AtomicCreate(d,x,4 B) must succeed with exactly their data. " +
		"distinct = landed (setup, kill|errno, syscall, occurrence) points + concurrency scenarios + links observation classes")
	r.Assume("kill -9 at a syscall boundary stands for a crash; real power loss is not produced: durability is decided on the recorded syscall order only")
	r.Assume("MemFs readers do not Close (MemFs descriptors are inode numbers shared between openers — subject of C12); a DirFs List that misses the destination is counted inconclusive because List is documented as non-atomic")
	r.Assume("a process in a fresh PID namespace with the pid of the interrupted process stands for a restarted pid-1 daemon, an exec or a reused pid; if PID namespaces are unavailable the same-pid layers are reported inconclusive")
	r.Assume("crash enumeration starts from trees without leftover staging files; leftovers are exercised by the recovery calls that follow every crash/fault point")
	t0 := time.Now()
	phase := func(name string) {
		r.Set("phase_wall_seconds_"+name, float64(int(time.Since(t0).Seconds()*10))/10)
		t0 = time.Now()
	}
	missing := c13CrashAndFaults(r)
	phase("crash_and_faults")
	c13PartialWrite(r)
	phase("partial_write")
	c13Leftovers(r)
	phase("failed_call_leftovers")
	c13Concurrency(r)
	phase("concurrency")
	c13LinksAndDescriptors(r)
	phase("links_and_descriptors")
	notLanded := r.GetCount("fault_points_not_landed")
	r.Set("exhaustive", notLanded == 0 && r.GetCount("crash_points_landed") > 0)
	r.Set("exhaustive_parts", []string{"crash point before every file-system syscall of the call, for each of the (size,destination) setups", "failure of every open/write/fsync/rename syscall of the call with EIO, ENOSPC, EINTR (write: also EAGAIN) x duration {K, K..K+1, K..K+2, K+}, for each setup"})
	if r.GetCount("crash_points_landed") < 14 || r.GetCount("faults_landed") < 20 {
		return false, fmt.Sprintf("only %d crash points and %d faults landed", r.GetCount("crash_points_landed"), r.GetCount("faults_landed"))
	}
	if len(missing) > 0 {
		return false, "no injection landed for: " + strings.Join(missing, ", ")
	}
	if r.NumViolations() == 0 && r.GetCount("leftover_faults_landed") < 20 {
		return false, fmt.Sprintf("only %d faults of the leftover sweep landed", r.GetCount("leftover_faults_landed"))
	}
	if r.GetCount("recovery_runs") < 40 {
		return false, "too few recovery runs"
	}
	for _, f := range []string{"dir", "mem"} {
		if r.GetCount("conc_"+f+"fs_reader_observations_of_a_concurrently_written_version") < 50 || r.GetCount("conc_"+f+"fs_pair_rounds_with_overlapping_calls") < 20 {
			return false, "readers/creators on " + f + "fs did not overlap enough to observe anything"
		}
	}
	for _, f := range []string{"dir", "mem"} {
		if r.NumViolations() == 0 && (r.GetCount("links_"+f+"fs_reads_of_a_name_linked_to_the_file_just_replaced") < 20 || r.GetCount("links_"+f+"fs_held_descriptor_reads_spanning_a_replacement") < 10) {
			return false, "too few reads of hard-linked names / of descriptors held across a replacement on " + f + "fs"
		}
	}
	return true, ""
}

// c13PartialWrite: a write that the kernel cuts short (file-size limit reached mid-write, as
// with a full disk or a quota): the call must not publish a truncated file. Either it fails and
// d/f keeps its previous state, or it returns normally and d/f holds exactly data.
func c13PartialWrite(r *core.Run) {
	bin, err := r.BuildSelf()
	if err != nil {
		r.Inconclusive("child-build-failed")
		return
	}
	type sc struct {
		Size, Limit int
		Dest        string
	}
	var scs []sc
	for _, size := range []int{12288, 70000, 1 << 20} {
		for _, lim := range []int{1, 4096, 8192, size - 1, size / 2} {
			for _, dest := range []string{"absent", "shorter"} {
				scs = append(scs, sc{size, lim, dest})
			}
		}
	}
	ns := c13PidNS(r, bin)
	pend := make([][]pendingViol, len(scs))
	defer func() {
		for _, pv := range pend {
			for _, v := range pv {
				r.Violate(v.sig, v.what, v.detail)
			}
		}
	}()
	core.Parallel(len(scs), 8, func(i int) {
		s := scs[i]
		root := filepath.Join(r.Scratch, fmt.Sprintf("c13-partial-%d", i), "root")
		defer os.RemoveAll(filepath.Dir(root))
		setup := c13setup{Size: s.Size, Dest: s.Dest}
		if msg := c13Prepare(root, setup); msg != "" {
			r.Inconclusive("partial-write-setup-failed")
			return
		}
		before := treeState(root)
		pre := i % 3
		var res core.ExecResult
		if ns {
			// under strace in a fresh PID namespace, so that the recovery
			// children below can have the pid of this interrupted process
			sr := runStraceNS(true, bin, filepath.Dir(root), root+".log", "", "c13-child", "aclimit", root, "d", "f", "9", fmt.Sprint(s.Size), fmt.Sprint(s.Limit), fmt.Sprint(pre))
			res = sr.Res
			os.Remove(root + ".log")
		} else {
			res = core.Exec(root, nil, 2*time.Minute, "", bin, "child", "c13-child", "aclimit", root, "d", "f", "9", fmt.Sprint(s.Size), fmt.Sprint(s.Limit))
		}
		after := treeState(root)
		r.Eval(1)
		reported := "no END marker"
		for _, l := range strings.Split(res.Stderr, "\n") {
			if strings.HasPrefix(l, "END 0 ") {
				reported = strings.TrimPrefix(l, "END 0 ")
			}
		}
		r.Count("partial_write_runs", 1)
		r.Distinct(fmt.Sprintf("partial/%d/%d/%s", s.Size, s.Limit, s.Dest))
		data := pay1(9, s.Size)
		got, present := after["d/f"]
		old, hadOld := before["d/f"]
		detail := map[string]interface{}{"data_len": s.Size, "file_size_limit": s.Limit, "destination_before": describe(old, hadOld), "destination_after": describe(got, present), "child_reported": reported}
		isNew := present && bytes.Equal(got, data)
		isOld := present == hadOld && (!present || bytes.Equal(got, old))
		switch {
		case strings.HasPrefix(reported, "ok") && !isNew:
			r.Violate("partial-write-published-truncated-data", fmt.Sprintf("with the file size limited to %d bytes AtomicCreate(d,f,%d bytes) returned normally but d/f is %s", s.Limit, s.Size, describe(got, present)), detail)
		case !isNew && !isOld:
			r.Violate("partial-write-dest-neither-old-nor-new", fmt.Sprintf("with the file size limited to %d bytes AtomicCreate(d,f,%d bytes) reported %q and d/f is %s (before: %s)", s.Limit, s.Size, reported, describe(got, present), describe(old, hadOld)), detail)
		default:
			r.Count("partial_write_old_or_new", 1)
			r.Sample(12, detail)
		}
		if ns && !strings.HasPrefix(reported, "ok") && reported != "no END marker" {
			// what the interrupted call left behind is at most Limit bytes long:
			// recovery data shorter, as long and longer than that
			var rec []string
			c13RecoverIdentity(r, bin, root, childPid(res.Stderr), pre, c13RecSizes(s.Limit), "partial-write",
				fmt.Sprintf("an AtomicCreate(d,f,%d bytes) cut short by a file size limit of %d bytes (destination before: %s; the call was number %d of its process and reported %q)", s.Size, s.Limit, s.Dest, pre+1, reported),
				detail, &pend[i], &rec)
			r.Count("partial_write_runs_followed_by_same_pid_recovery", 1)
		}
	})
}
