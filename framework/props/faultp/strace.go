// Package faultp holds the fault-enumeration checks C11 (FileDisk persistence,
// I/O failures never silent) and C13 (AtomicCreate all-or-nothing,
// durable-before-visible, interference-free). Both use strace as syscall
// recorder and fault/crash injector around small child processes (E6 of
// DESIGN.md) next to ordinary in-process lock-step and concurrency monitors.
package faultp

import (
	"fmt"
	"os"
	"path/filepath"
	"regexp"
	"runtime"
	"strconv"
	"strings"
	"syscall"
	"time"

	"verif/core"
)

// Children of this group pin the main goroutine to the main thread before
// anything else runs: strace's `when=N` counts per syscall name PER THREAD,
// so every syscall of the script has to be issued by one thread.
func init() {
	if len(os.Args) > 2 && os.Args[1] == "child" && (os.Args[2] == "c11-child" || os.Args[2] == "c13-child") {
		runtime.LockOSThread()
	}
}

// mark writes one marker line to descriptor 2 with a raw write(2) so that it
// shows up in the strace log at the exact position between the syscalls of
// the API calls, and in the child's stderr for the parent to read results.
func mark(format string, a ...interface{}) {
	s := fmt.Sprintf(format, a...)
	if len(s) > 200 {
		s = s[:200]
	}
	s = strings.ReplaceAll(s, "\n", " ")
	syscall.Write(2, []byte(s+"\n"))
}

// the syscalls recorded; everything an implementation of the two libraries
// can reasonably use to reach the file system.
const traceSet = "execve,open,openat,openat2,creat,read,write,pread64,pwrite64,readv,writev,preadv,pwritev,preadv2,pwritev2," +
	"fsync,fdatasync,sync,syncfs,sync_file_range,ftruncate,truncate,fallocate," +
	"rename,renameat,renameat2,link,linkat,unlink,unlinkat,symlink,symlinkat,mkdir,mkdirat,close,fstat,newfstatat,stat,lstat,statx,lseek,dup,dup2,dup3,fcntl"

type sysEvent struct {
	Idx      int    // index in trace.Main
	Name     string // syscall name
	Args     string // raw argument text
	Ret      string // text after " = "
	Injected bool
	Raw      string
}

func (e sysEvent) ok() bool {
	if e.Ret == "" || strings.HasPrefix(e.Ret, "-1") || strings.HasPrefix(e.Ret, "?") {
		return false
	}
	return true
}

// retInt is the numeric return value (-1 on failure/unknown).
func (e sysEvent) retInt() int64 {
	f := strings.Fields(e.Ret)
	if len(f) == 0 {
		return -1
	}
	v, err := strconv.ParseInt(f[0], 0, 64)
	if err != nil {
		return -1
	}
	return v
}

// firstIntArg parses the first argument as a descriptor number.
func (e sysEvent) firstIntArg() int {
	a := e.Args
	if i := strings.IndexAny(a, ",)"); i >= 0 {
		a = a[:i]
	}
	a = strings.TrimSpace(a)
	if i := strings.IndexByte(a, '<'); i >= 0 { // -y style decoration
		a = a[:i]
	}
	v, err := strconv.Atoi(a)
	if err != nil {
		return -1
	}
	return v
}

var quotedRe = regexp.MustCompile(`"((?:[^"\\]|\\.)*)"`)

// quoted returns the string literals among the arguments.
func (e sysEvent) quoted() []string {
	var out []string
	for _, m := range quotedRe.FindAllStringSubmatch(e.Args, -1) {
		out = append(out, m[1])
	}
	return out
}

type trace struct {
	MainPid     string
	Main        []sysEvent // events of the main thread, in order
	OtherInject int        // (INJECTED) lines on other threads
	Killed      bool       // "+++ killed by SIGKILL +++" seen for the main pid
	KilledAt    string     // the last, unfinished syscall of the main thread when killed
	Exited      bool
	Lines       int
}

var lineRe = regexp.MustCompile(`^(\d+)\s+(.*)$`)
var callRe = regexp.MustCompile(`^([a-z_0-9]+)\((.*)$`)
var resumedRe = regexp.MustCompile(`^<\.\.\. ([a-z_0-9]+) resumed>(.*)$`)

func parseTrace(path string) (*trace, error) {
	b, err := os.ReadFile(path)
	if err != nil {
		return nil, err
	}
	t := &trace{}
	pending := map[string]string{}
	for _, line := range strings.Split(string(b), "\n") {
		if line == "" {
			continue
		}
		t.Lines++
		m := lineRe.FindStringSubmatch(line)
		if m == nil {
			continue
		}
		pid, rest := m[1], m[2]
		if t.MainPid == "" {
			t.MainPid = pid
		}
		if strings.HasPrefix(rest, "+++") {
			if pid == t.MainPid {
				if strings.Contains(rest, "killed by SIGKILL") {
					t.Killed = true
				}
				if strings.Contains(rest, "exited with") {
					t.Exited = true
				}
			} else if strings.Contains(rest, "killed by SIGKILL") && pending[t.MainPid] != "" {
				// the whole group dies; remember what main was doing
			}
			continue
		}
		if strings.HasPrefix(rest, "---") { // signal delivery
			continue
		}
		if strings.HasSuffix(rest, "<unfinished ...>") {
			pending[pid] = strings.TrimSuffix(rest, "<unfinished ...>")
			continue
		}
		if rm := resumedRe.FindStringSubmatch(rest); rm != nil {
			rest = pending[pid] + rm[2]
			delete(pending, pid)
		}
		cm := callRe.FindStringSubmatch(rest)
		if cm == nil {
			continue
		}
		ev := sysEvent{Name: cm[1], Raw: rest}
		body := cm[2]
		ev.Args = body
		if i := strings.LastIndex(body, " = "); i >= 0 {
			// "name(args)      = ret": strace pads between ')' and '='
			if a := strings.TrimRight(body[:i], " "); strings.HasSuffix(a, ")") {
				ev.Args = strings.TrimSuffix(a, ")")
				ev.Ret = strings.TrimSpace(body[i+3:])
			}
		}
		if strings.Contains(ev.Ret, "(INJECTED)") {
			ev.Injected = true
		}
		if pid != t.MainPid {
			if ev.Injected {
				t.OtherInject++
			}
			continue
		}
		ev.Idx = len(t.Main)
		t.Main = append(t.Main, ev)
	}
	if p := pending[t.MainPid]; p != "" {
		t.KilledAt = p
		if cm := callRe.FindStringSubmatch(p); cm != nil {
			// the syscall the thread was entering when the kill arrived
			ev := sysEvent{Name: cm[1], Args: cm[2], Ret: "?", Raw: p + "<unfinished>", Idx: len(t.Main)}
			t.Main = append(t.Main, ev)
		}
	}
	return t, nil
}

// marker recognises the marker writes of the children: write(2, "BEGIN 3 ...\n", n).
func (e sysEvent) marker() (kind string, idx int, rest string, ok bool) {
	if e.Name != "write" || e.firstIntArg() != 2 {
		return
	}
	q := e.quoted()
	if len(q) == 0 {
		return
	}
	s := strings.TrimSuffix(q[0], `\n`)
	f := strings.SplitN(s, " ", 3)
	if len(f) < 2 || (f[0] != "BEGIN" && f[0] != "END") {
		return
	}
	n, err := strconv.Atoi(f[1])
	if err != nil {
		return
	}
	if len(f) == 3 {
		rest = f[2]
	}
	return f[0], n, rest, true
}

// apiCall is one BEGIN i / END i bracket of the main thread.
type apiCall struct {
	I      int
	Op     string     // text after "BEGIN i"
	Result string     // text after "END i" ("" if END never appeared)
	Ended  bool       //
	Sys    []sysEvent // syscalls strictly between the markers
}

func (t *trace) calls() []apiCall {
	var out []apiCall
	cur := -1
	for _, e := range t.Main {
		if k, i, rest, ok := e.marker(); ok {
			if k == "BEGIN" {
				out = append(out, apiCall{I: i, Op: rest})
				cur = len(out) - 1
			} else if cur >= 0 && out[cur].I == i {
				out[cur].Result = rest
				out[cur].Ended = true
				cur = -1
			}
			continue
		}
		if cur >= 0 {
			out[cur].Sys = append(out[cur].Sys, e)
		}
	}
	return out
}

// occurrence is the 1-based count of syscalls with the name of Main[idx] on
// the main thread up to and including idx: the `when=` value for strace.
func (t *trace) occurrence(idx int) int {
	n := 0
	for i := 0; i <= idx && i < len(t.Main); i++ {
		if t.Main[i].Name == t.Main[idx].Name {
			n++
		}
	}
	return n
}

type straceResult struct {
	T      *trace
	Res    core.ExecResult
	Stderr string
	LogTxt string
	Err    error
}

// results parses the marker lines from the child's stderr.
func (s *straceResult) endLines() map[int]string {
	out := map[int]string{}
	for _, l := range strings.Split(s.Stderr, "\n") {
		f := strings.SplitN(strings.TrimSpace(l), " ", 3)
		if len(f) >= 2 && f[0] == "END" {
			if n, err := strconv.Atoi(f[1]); err == nil {
				rest := ""
				if len(f) == 3 {
					rest = f[2]
				}
				out[n] = rest
			}
		}
	}
	return out
}

// runStrace runs `bin child <name> args...` under strace in dir; inject is
// the text after -e inject= ("" for a recording run). The log goes to
// logPath.
func runStrace(bin, dir, logPath, inject string, childArgs ...string) *straceResult {
	args := []string{"-f", "-s", "300", "-o", logPath, "-e", "trace=" + traceSet}
	if inject != "" {
		args = append(args, "-e", "inject="+inject)
	}
	args = append(args, bin, "child")
	args = append(args, childArgs...)
	res := core.Exec(dir, nil, 60*time.Second, "", "strace", args...)
	out := &straceResult{Res: res, Stderr: res.Stderr}
	if res.TimedOut {
		out.Err = fmt.Errorf("strace watchdog fired")
		return out
	}
	t, err := parseTrace(logPath)
	if err != nil {
		out.Err = err
		return out
	}
	out.T = t
	return out
}

// logExcerpt returns the main-thread lines of a call for samples/details.
func excerpt(evs []sysEvent, max int) []string {
	var out []string
	for i, e := range evs {
		if i >= max {
			out = append(out, fmt.Sprintf("… %d more", len(evs)-max))
			break
		}
		r := e.Raw
		if len(r) > 160 {
			r = r[:80] + " … " + r[len(r)-70:]
		}
		out = append(out, r)
	}
	return out
}

// landing validates an injected run from its own log: exactly one
// (INJECTED) line, on the main thread, of the planned syscall, strictly
// between BEGIN call / END call.
func (t *trace) faultLanded(call int, sysname string) (sysEvent, bool) {
	if t.OtherInject > 0 {
		return sysEvent{}, false
	}
	n := 0
	var at sysEvent
	for _, e := range t.Main {
		if e.Injected {
			n++
			at = e
		}
	}
	if n != 1 || at.Name != sysname {
		return sysEvent{}, false
	}
	for _, c := range t.calls() {
		if c.I != call {
			continue
		}
		for _, e := range c.Sys {
			if e.Idx == at.Idx {
				return at, true
			}
		}
	}
	return sysEvent{}, false
}

// faultDurations: the "fault duration" dimension. A fault planned at the K-th
// occurrence of a syscall fails exactly that occurrence, occurrences K..K+1,
// K..K+2, or every occurrence from K on (strace when= syntax).
var faultDurations = []string{"once", "twice", "thrice", "persistent"}

func whenSpec(k int, dur string) string {
	switch dur {
	case "twice":
		return fmt.Sprintf("%d..%d", k, k+1)
	case "thrice":
		return fmt.Sprintf("%d..%d", k, k+2)
	case "persistent":
		return fmt.Sprintf("%d+", k)
	}
	return fmt.Sprint(k)
}

// faultsLanded validates an injected run of any duration from its own log:
// every (INJECTED) line is on the main thread and of the planned syscall, and
// the first one lies strictly between BEGIN call / END call. It returns that
// first event, the injected events inside the call, and whether a later
// occurrence of the same syscall inside the call succeeded (a retry).
func (t *trace) faultsLanded(call int, sysname string) (first sysEvent, inCall []sysEvent, retried bool, ok bool) {
	if t.OtherInject > 0 {
		return
	}
	firstIdx := -1
	for _, e := range t.Main {
		if e.Injected {
			if e.Name != sysname {
				return
			}
			if firstIdx < 0 {
				firstIdx = e.Idx
				first = e
			}
		}
	}
	if firstIdx < 0 {
		return
	}
	for _, c := range t.calls() {
		if c.I != call {
			continue
		}
		for _, e := range c.Sys {
			if e.Idx == firstIdx {
				ok = true
			}
			if e.Injected {
				inCall = append(inCall, e)
			}
			if ok && e.Idx > firstIdx && e.Name == sysname && !e.Injected && e.ok() {
				retried = true
			}
		}
	}
	if !ok {
		return sysEvent{}, nil, false, false
	}
	return
}

// killLanded validates a crash run: the process was killed, BEGIN call was
// seen, END call was not, and the syscall being entered when the kill
// arrived is the k-th syscall (0-based position pos) of the call with the
// planned name.
func (t *trace) killLanded(call int, pos int, sysname string) bool {
	if !t.Killed {
		return false
	}
	for _, c := range t.calls() {
		if c.I != call {
			continue
		}
		if c.Ended || len(c.Sys) != pos+1 {
			return false
		}
		last := c.Sys[pos]
		return last.Name == sysname && !last.ok()
	}
	return false
}

func mkdirFresh(base string, parts ...string) string {
	p := filepath.Join(append([]string{base}, parts...)...)
	os.MkdirAll(p, 0o755)
	return p
}
