// Package props holds one check per property. Each check registers itself in
// Registry; child-process entry points register in Children.
package props

import "verif/core"

type Prop struct {
	Level string
	// Run executes the workload and monitors; it returns whether the run
	// observed enough to be meaningful (the floor) and a message if not.
	Run func(r *core.Run) (floorOK bool, msg string)
}

var Registry = map[string]Prop{}

// Children are entry points run in child processes (under -race, strace, ...).
var Children = map[string]func(args []string) int{}
