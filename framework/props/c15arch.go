package props

import (
	"bufio"
	"encoding/hex"
	"fmt"
	"os"
	"path/filepath"
	"strconv"
	"strings"
	"time"

	"verif/core"
)

// c15arch.go: the same encoding cases on every word size this machine can execute.
//
// The property is about bytes, not about the platform the library is compiled for; an implementation
// that goes through a platform-sized integer (uint, int, uintptr) is right on amd64 and loses the high
// word on a 32-bit target. The framework itself is a 64-bit program, so the cases are run by a small
// generated program built once per GOARCH (amd64 and 386: both execute natively on this kernel; no other
// target can be run in the sandbox), which prints what it observed; the oracle stays here: every printed
// array is compared with the hand-computed little-endian expectation.
//
//	P <width> <len> <off> <value> <fill>   ->  P ... <before> <after> ok|panic
//	G <width> <len> <off> <fill>           ->  G ... <array> <result> ok|panic

const c15archProgram = `package main

import (
	"bufio"
	"encoding/hex"
	"fmt"
	"os"
	"strconv"
	"strings"

	"github.com/goose-lang/goose/machine"
)

func fill(arr []byte, seed uint64) {
	x := seed*6364136223846793005 + 1442695040888963407
	for i := range arr {
		x = x*6364136223846793005 + 1442695040888963407
		arr[i] = byte(x >> 56)
	}
}

func try(f func()) (ok bool) {
	defer func() {
		if recover() != nil {
			ok = false
		}
	}()
	f()
	return true
}

func main() {
	in := bufio.NewScanner(os.Stdin)
	out := bufio.NewWriter(os.Stdout)
	defer out.Flush()
	fmt.Fprintf(out, "WORD %d\n", strconv.IntSize)
	for in.Scan() {
		f := strings.Fields(in.Text())
		if len(f) < 5 {
			continue
		}
		width, _ := strconv.Atoi(f[1])
		l, _ := strconv.Atoi(f[2])
		off, _ := strconv.Atoi(f[3])
		arr := make([]byte, 64)
		switch f[0] {
		case "P":
			v, _ := strconv.ParseUint(f[4], 16, 64)
			seed, _ := strconv.ParseUint(f[5], 16, 64)
			fill(arr, seed)
			before := hex.EncodeToString(arr)
			buf := arr[off : off+l]
			ok := try(func() {
				if width == 64 {
					machine.UInt64Put(buf, v)
				} else {
					machine.UInt32Put(buf, uint32(v))
				}
			})
			st := "ok"
			if !ok {
				st = "panic"
			}
			fmt.Fprintf(out, "P %d %d %d %x %s %s %s\n", width, l, off, v, before, hex.EncodeToString(arr), st)
		case "G":
			seed, _ := strconv.ParseUint(f[4], 16, 64)
			fill(arr, seed)
			buf := arr[off : off+l]
			var got uint64
			ok := try(func() {
				if width == 64 {
					got = machine.UInt64Get(buf)
				} else {
					got = uint64(machine.UInt32Get(buf))
				}
			})
			st := "ok"
			if !ok {
				st = "panic"
			}
			fmt.Fprintf(out, "G %d %d %d %s %x %s\n", width, l, off, hex.EncodeToString(arr), got, st)
		}
	}
}
`

// c15Architectures returns false when a child died: the in-process layers would meet the same fate.
func c15Architectures(r *core.Run) bool {
	alive := true
	dir := filepath.Join(r.Scratch, "c15arch")
	os.MkdirAll(dir, 0o755)
	gomod := "module c15arch\n\ngo 1.22\n\nrequire github.com/goose-lang/goose v0.0.0\n\nreplace github.com/goose-lang/goose => " + core.RepoDir + "\n"
	os.WriteFile(filepath.Join(dir, "go.mod"), []byte(gomod), 0o644)
	if b, err := os.ReadFile(filepath.Join(core.RepoDir, "go.sum")); err == nil {
		os.WriteFile(filepath.Join(dir, "go.sum"), b, 0o644)
	}
	os.WriteFile(filepath.Join(dir, "main.go"), []byte(c15archProgram), 0o644)

	// the cases: every boundary value at every (len, offset) of the in-process layer, plus seeded random ones
	rng := core.NewRng(r.Seed, "c15-arch")
	lens := []int{0, 1, 3, 4, 5, 7, 8, 9, 16, 32}
	var in strings.Builder
	ncases := 0
	for _, width := range []int{64, 32} {
		var vals []uint64
		for i := 0; i < width; i++ {
			vals = append(vals, uint64(1)<<uint(i), ^(uint64(1) << uint(i)), (uint64(1)<<uint(i))-1)
		}
		vals = append(vals, 0, 1, 0x0102030405060708, 0x0807060504030201, 0xFFFFFFFFFFFFFFFF, 0x00000000FFFFFFFF, 0xFFFFFFFF00000000,
			0x8000000000000000, 0x0123456789ABCDEF, 0xFEDCBA9876543210, 0x0000000100000000, 0x00000001FFFFFFFF, 0x7FFFFFFF80000000)
		for i := 0; i < r.Pick(2000, 200000); i++ {
			vals = append(vals, rng.U64())
		}
		for vi, v := range vals {
			if width == 32 {
				v &= 0xFFFFFFFF
			}
			ls, offs := []int{lens[rng.Intn(len(lens))], 8 + rng.Intn(20)}, []int{rng.Intn(8)}
			if vi < 210 {
				ls, offs = lens, []int{0, 3, 7}
			}
			for _, l := range ls {
				for _, off := range offs {
					fmt.Fprintf(&in, "P %d %d %d %x %x\n", width, l, off, v, rng.U64())
					fmt.Fprintf(&in, "G %d %d %d %x\n", width, l, off, rng.U64())
					ncases += 2
				}
			}
		}
	}
	inPath := filepath.Join(dir, "cases.txt")
	os.WriteFile(inPath, []byte(in.String()), 0o644)

	for _, arch := range []string{"amd64", "386"} {
		bin := filepath.Join(dir, "c15arch-"+arch)
		env := append(core.GoEnv(), "GOARCH="+arch, "CGO_ENABLED=0")
		res := core.Exec(dir, env, 10*time.Minute, "", "go", "build", "-o", bin, ".")
		if res.Code != 0 {
			fmt.Println("C15 arch layer: build for", arch, "failed:", firstLines(res.Stdout+res.Stderr, 6))
			r.Inconclusive("arch-build-failed-" + arch)
			continue
		}
		run := core.Exec(dir, nil, 10*time.Minute, in.String(), bin)
		if run.TimedOut {
			r.Inconclusive("arch-child-watchdog-" + arch)
			continue
		}
		if run.Code != 0 {
			r.Violate("arch-"+arch+"-child-died", fmt.Sprintf("the encoding primitives built for GOARCH=%s: the process died: %s", arch, firstLines(run.Stderr, 8)), map[string]interface{}{"arch": arch, "stderr": tail2(run.Stderr), "cases": inPath})
			alive = false
			continue
		}
		c15JudgeArch(r, arch, run.Stdout)
	}
	r.Set("arch_cases_per_architecture", ncases)
	return alive
}

func c15JudgeArch(r *core.Run, arch string, out string) {
	sc := bufio.NewScanner(strings.NewReader(out))
	sc.Buffer(make([]byte, 1<<20), 1<<20)
	seen := 0
	for sc.Scan() {
		f := strings.Fields(sc.Text())
		if len(f) == 2 && f[0] == "WORD" {
			r.Set("arch_"+arch+"_int_size", f[1])
			want := map[string]string{"amd64": "64", "386": "32"}[arch]
			if f[1] != want {
				r.Inconclusive("arch-" + arch + "-unexpected-word-size")
			}
			continue
		}
		if len(f) < 7 {
			continue
		}
		width, _ := strconv.Atoi(f[1])
		l, _ := strconv.Atoi(f[2])
		off, _ := strconv.Atoi(f[3])
		frame := width / 8
		seen++
		r.Eval(1)
		r.Count("arch_"+arch+"_cases_judged", 1)
		switch f[0] {
		case "P":
			v, _ := strconv.ParseUint(f[4], 16, 64)
			before, _ := hex.DecodeString(f[5])
			after, _ := hex.DecodeString(f[6])
			st := f[7]
			r.Distinct(fmt.Sprintf("arch/%s/put/%d/%d/%d/%x", arch, width, l, off, v))
			c := map[string]interface{}{"arch": arch, "width": width, "buf_len": l, "offset": off, "value": fmt.Sprintf("%#x", v), "before": f[5], "after": f[6], "status": st}
			if l < frame {
				if st != "panic" {
					r.Violate(fmt.Sprintf("arch-%s-put%d-short-accepted", arch, width), fmt.Sprintf("GOARCH=%s: UInt%dPut on a %d-byte buffer returned normally", arch, width, l), c)
				}
				if string(before) != string(after) {
					r.Violate(fmt.Sprintf("arch-%s-put%d-short-partial-write", arch, width), fmt.Sprintf("GOARCH=%s: UInt%dPut on a %d-byte buffer modified memory before refusing", arch, width, l), c)
				}
				continue
			}
			if st != "ok" {
				r.Violate(fmt.Sprintf("arch-%s-put%d-panic", arch, width), fmt.Sprintf("GOARCH=%s: UInt%dPut panicked on a %d-byte buffer", arch, width, l), c)
				continue
			}
			want := append([]byte{}, before...)
			for i := 0; i < frame; i++ {
				want[off+i] = byte(v >> (8 * uint(i)))
			}
			if string(want) != string(after) {
				c["want"] = hex.EncodeToString(want)
				r.Violate(fmt.Sprintf("arch-%s-put%d-wrong-bytes", arch, width), fmt.Sprintf("GOARCH=%s: UInt%dPut(%#x) left bytes differing from the little-endian frame", arch, width, v), c)
			}
		case "G":
			arr, _ := hex.DecodeString(f[4])
			got, _ := strconv.ParseUint(f[5], 16, 64)
			st := f[6]
			r.Distinct(fmt.Sprintf("arch/%s/get/%d/%d/%d/%s", arch, width, l, off, f[4][:16]))
			c := map[string]interface{}{"arch": arch, "width": width, "buf_len": l, "offset": off, "array": f[4], "result": fmt.Sprintf("%#x", got), "status": st}
			if l < frame {
				if st != "panic" {
					r.Violate(fmt.Sprintf("arch-%s-get%d-short-accepted", arch, width), fmt.Sprintf("GOARCH=%s: UInt%dGet on %d bytes returned normally", arch, width, l), c)
				}
				continue
			}
			var want uint64
			for k := 0; k < frame; k++ {
				want |= uint64(arr[off+k]) << (8 * uint(k))
			}
			if st != "ok" || got != want {
				c["want"] = fmt.Sprintf("%#x", want)
				r.Violate(fmt.Sprintf("arch-%s-get%d-wrong", arch, width), fmt.Sprintf("GOARCH=%s: UInt%dGet = %#x (%s), want %#x", arch, width, got, st, want), c)
			}
		}
	}
	if seen < 1000 {
		r.Inconclusive("arch-" + arch + "-too-few-cases-observed")
	}
}
