package declp

import (
	"fmt"
	"go/ast"
	"go/parser"
	"go/token"
	"os"
	"path/filepath"
	"sort"
	"strings"
	"sync"
	"time"

	"verif/core"
)

// C07: goose never crashes: complete output or structured, located conversion
// errors; one bad declaration does not hide the others.
//
// Workloads: (1) the installed standard library, crashing packages re-run on a
// private copy with the crashing function neutralised until they terminate
// normally; (2) a catalogue of out-of-subset constructs at every position of
// a generated host package; (3) type-preserving mutations of the shipped
// examples; (4) mixtures of k broken declarations among good ones;
// (5) the pinned crash witnesses under /verif/known/C07/<signature>/;
// (6) many errors in many packages of one invocation (c07stress.go).

// c07Input is one package handed to goose.
type c07Input struct {
	ID       string
	Workload string            // stdlib | stdlib-peel | catalogue | mutant | mixture | witness
	Desc     string            // construct × position, mutation operator, ...
	Rel      string            // package directory inside the scratch module ("" for stdlib)
	Pattern  string            // what is passed to goose
	Files    map[string]string // sources (scratch inputs)
	Extra    map[string]map[string]string
	// expectations
	Broken   []string // names of the top-level declarations made out-of-subset on purpose (each must get its own error)
	MayBreak []string // support declarations that may be rejected too
	Good     []string // documented names of the good declarations (must be present under -ignore-errors)
}

// c07Outcome is what one goose execution looked like.
type c07Outcome struct {
	Exit      int        `json:"exit"`
	Crash     bool       `json:"crash"`
	CrashSig  string     `json:"crash_signature,omitempty"`
	PanicLine string     `json:"panic_message,omitempty"`
	Blocks    []errBlock `json:"error_blocks,omitempty"`
	LoadError bool       `json:"load_error,omitempty"`
	Problems  []string   `json:"problems,omitempty"`
	Located   []string   `json:"errors_located_in_declarations,omitempty"`
	Stderr    string     `json:"-"`
	TimedOut  bool       `json:"timed_out,omitempty"`
}

type declIndex struct {
	mu    sync.Mutex
	files map[string]*parsedFile
}

type parsedFile struct {
	fset *token.FileSet
	f    *ast.File
	err  error
}

func newDeclIndex() *declIndex { return &declIndex{files: map[string]*parsedFile{}} }

// enclosing returns the name of the top-level declaration of file that contains line:col ("" if none).
func (di *declIndex) enclosing(file string, line, col int) (string, bool, error) {
	di.mu.Lock()
	pf := di.files[file]
	if pf == nil {
		pf = &parsedFile{fset: token.NewFileSet()}
		pf.f, pf.err = parser.ParseFile(pf.fset, file, nil, parser.SkipObjectResolution)
		di.files[file] = pf
	}
	di.mu.Unlock()
	if pf.f == nil {
		return "", false, pf.err
	}
	for _, d := range pf.f.Decls {
		s, e := pf.fset.Position(d.Pos()), pf.fset.Position(d.End())
		if (line > s.Line || line == s.Line && col >= s.Column) && (line < e.Line || line == e.Line && col <= e.Column) {
			return declName(d), true, nil
		}
	}
	return "", false, nil
}

func declName(d ast.Decl) string {
	switch d := d.(type) {
	case *ast.FuncDecl:
		if rn := recvName(d); rn != "" {
			return rn + "." + d.Name.Name
		}
		return d.Name.Name
	case *ast.GenDecl:
		for _, s := range d.Specs {
			switch s := s.(type) {
			case *ast.TypeSpec:
				return s.Name.Name
			case *ast.ValueSpec:
				if len(s.Names) > 0 {
					return s.Names[0].Name
				}
			case *ast.ImportSpec:
				return "import " + s.Path.Value
			}
		}
		return d.Tok.String()
	}
	return "?"
}

// c07Exec runs goose on one pattern and reads the result (no verdicts yet).
func c07Exec(bin, modDir, outDir string, env []string, flags []string, pattern string) *c07Outcome {
	return c07ExecN(bin, modDir, outDir, env, flags, pattern)
}

func c07ExecN(bin, modDir, outDir string, env []string, flags []string, patterns ...string) *c07Outcome {
	res := runGoose(bin, modDir, outDir, 3*time.Minute, env, flags, patterns...)
	if res.Code == 1 && strings.Contains(res.Stderr, "patterns matched no packages") {
		// the go command rewrites go.mod on the first loads of a fresh module; a concurrent load can see nothing: once more
		time.Sleep(300 * time.Millisecond)
		res = runGoose(bin, modDir, outDir, 3*time.Minute, env, flags, patterns...)
	}
	// the package loader (golang.org/x/tools/go/packages) gives up with this line when the export data of a standard-
	// library package disappears from the go build cache between `go list` and the load (a concurrent `go clean -cache`,
	// which the framework itself issues when the disk fills): the environment, not the translation — once more, and if it
	// persists the input counts as "does not load"
	toolchainGaveUp := func(r core.ExecResult) bool {
		return r.Code == 1 && strings.Contains(r.Stderr, "internal error: package ") && strings.Contains(r.Stderr, " without types was imported from ")
	}
	if toolchainGaveUp(res) {
		time.Sleep(500 * time.Millisecond)
		res = runGoose(bin, modDir, outDir, 3*time.Minute, env, flags, patterns...)
	}
	o := &c07Outcome{Exit: res.Code, Stderr: ansiRe.ReplaceAllString(res.Stderr, ""), TimedOut: res.TimedOut}
	if res.TimedOut {
		return o
	}
	if toolchainGaveUp(res) {
		o.LoadError = true
		return o
	}
	if isCrash(res) {
		o.Crash = true
		o.CrashSig, o.PanicLine, _ = crashSignature(res)
		return o
	}
	reps, stray := parseStderr(res.Stderr)
	for _, s := range stray {
		o.Problems = append(o.Problems, "unrecognised-stderr-text: "+clip(s, 120))
	}
	for _, rep := range reps {
		switch rep.Kind {
		case "load":
			o.LoadError = true
		case "conversion":
			o.Blocks = append(o.Blocks, rep.Blocks...)
			for _, p := range rep.Problems {
				o.Problems = append(o.Problems, "report: "+p)
			}
			for _, b := range rep.Blocks {
				for _, p := range b.Problems {
					o.Problems = append(o.Problems, "block: "+p)
				}
			}
		case "other":
			o.LoadError = true
		}
	}
	return o
}

type c07Ctx struct {
	r   *core.Run
	bin string
	di  *declIndex
	mu  sync.Mutex
	// crash classes: signature -> witnesses
	crashes map[string][]map[string]interface{}
	errCats map[string]int
}

func (c *c07Ctx) noteCrash(sig string, w map[string]interface{}) {
	c.mu.Lock()
	if len(c.crashes[sig]) < 3 {
		c.crashes[sig] = append(c.crashes[sig], w)
	} else {
		c.crashes[sig+"#more"] = nil
	}
	c.mu.Unlock()
}

var msgClassRe = strings.NewReplacer("0", "", "1", "", "2", "", "3", "", "4", "", "5", "", "6", "", "7", "", "8", "", "9", "")

// msgClass abstracts an error message to its first words (for the evidence: distinct (category, message-class) pairs).
func msgClass(m string) string {
	f := strings.Fields(msgClassRe.Replace(m))
	if len(f) > 4 {
		f = f[:4]
	}
	return strings.Join(f, " ")
}

// judge issues the verdicts that apply to every input: no crash; exit status and stderr
// of the documented shape; every error located inside a declaration of the package.
// pkgDir is the directory the package's files live in. Returns the names of the
// declarations that carry an error.
func (c *c07Ctx) judge(in *c07Input, o *c07Outcome, pkgDir string, outFile string, ignoreErrors bool) map[string]int {
	r := c.r
	located := map[string]int{}
	detail := func() map[string]interface{} {
		m := map[string]interface{}{"input": in.ID, "workload": in.Workload, "description": in.Desc, "pattern": in.Pattern, "outcome": o, "stderr": clip(o.Stderr, 6000)}
		if in.Files != nil {
			m["files"] = in.Files
		}
		return m
	}
	if o.TimedOut {
		r.Inconclusive("goose-watchdog")
		return located
	}
	r.Eval(1)
	r.Count("inputs_run/"+in.Workload, 1)
	if o.Crash {
		r.Count("crashes/"+in.Workload, 1)
		c.noteCrash(o.CrashSig, map[string]interface{}{"input": in.ID, "workload": in.Workload, "description": in.Desc, "panic": o.PanicLine})
		r.Distinct("crash " + o.CrashSig)
		r.Violate(o.CrashSig, fmt.Sprintf("goose aborted (exit %d) with %q on the type-correct input %s (%s: %s)", o.Exit, o.PanicLine, in.ID, in.Workload, in.Desc), detail())
		return located
	}
	if o.LoadError {
		// goose says the package does not load: not "a package that type-checks"
		r.Count("inputs_not_loading/"+in.Workload, 1)
		r.Inconclusive("package-does-not-load")
		return located
	}
	for _, p := range o.Problems {
		sig := "error-output-malformed:" + strings.SplitN(strings.TrimPrefix(strings.TrimPrefix(p, "block: "), "report: "), ":", 2)[0]
		r.Violate(sig, fmt.Sprintf("goose's error output for %s (%s) departs from `[category]: message / go code / goose file:line / src: file:line:col`: %s", in.ID, in.Workload, p), detail())
	}
	switch {
	case o.Exit == 0 && len(o.Blocks) > 0:
		r.Violate("exit-0-with-error-blocks", fmt.Sprintf("goose exited 0 but printed %d conversion errors for %s", len(o.Blocks), in.ID), detail())
	case o.Exit == 1 && len(o.Blocks) == 0:
		r.Violate("exit-1-without-structured-error", fmt.Sprintf("goose exited 1 on %s without any structured conversion error", in.ID), detail())
	case o.Exit == 0 && outFile != "":
		if _, err := os.Stat(outFile); err != nil {
			r.Violate("exit-0-without-output-file", fmt.Sprintf("goose exited 0 on %s but wrote no output file %s", in.ID, outFile), detail())
		} else {
			r.Count("complete_outputs", 1)
		}
	}
	for _, b := range o.Blocks {
		r.Count("error_blocks_parsed", 1)
		c.mu.Lock()
		c.errCats["["+b.Category+"] "+msgClass(b.Message)]++
		c.mu.Unlock()
		r.Distinct("error [" + b.Category + "] " + msgClass(b.Message))
		if len(b.Problems) > 0 || b.Line == 0 {
			continue
		}
		if filepath.Dir(b.SrcFile) != filepath.Clean(pkgDir) {
			r.Violate("error-src-outside-package-files", fmt.Sprintf("an error for %s names src %s:%d:%d, which is not a file of the package (directory %s)", in.ID, b.SrcFile, b.Line, b.Col, pkgDir), detail())
			continue
		}
		name, ok, err := c.di.enclosing(b.SrcFile, b.Line, b.Col)
		if err != nil {
			r.Inconclusive("oracle-cannot-parse-source-file")
			continue
		}
		if !ok && strings.HasPrefix(b.Message, "package uses multiple ffis") {
			// a refusal of the package as a whole (C08: a package reaching two FFIs is refused) has no
			// offending declaration; it is located at the package clause of a file of the package
			r.Count("package_level_refusals", 1)
			continue
		}
		if !ok {
			r.Violate("error-src-outside-any-declaration", fmt.Sprintf("an error for %s is located at %s:%d:%d, inside no top-level declaration of that file: [%s] %s", in.ID, filepath.Base(b.SrcFile), b.Line, b.Col, b.Category, b.Message), detail())
			continue
		}
		r.Count("errors_located_inside_a_declaration", 1)
		located[name]++
		o.Located = append(o.Located, name)
	}
	for n, k := range located {
		if k > 1 {
			// documented: one error per top-level declaration (the first); more is not a violation, only noted
			r.Count("declarations_with_more_than_one_error", 1)
			_ = n
		}
	}
	return located
}

func runC07(r *core.Run) (bool, string) {
	r.SetRule("a case (evaluation) is one execution of the goose binary built from /repo on one type-correct Go package: a standard-library package (or its private copy with already-found crashing functions neutralised), an out-of-subset construct at one position of a generated host package, a type-checked mutant of a shipped example, a mixture of k broken declarations among good ones (with and without -ignore-errors), or a pinned crash witness; also one execution over several packages (multi-package scenarios; the stress family: P ∈ {2, 8, 24} packages × E ∈ {1, 20, 300} out-of-subset declarations each in one `./...` invocation under GOMAXPROCS 2 and 16, exactly one located error per broken declaration required); " +
		"observed: exit status, stderr (crash markers; otherwise parsed strictly as [category]: message / code / goose file:line / src: file:line:col blocks + `N errors`), the emitted file; " +
		"distinct = distinct (construct × position), crash signatures, and (category, message class) pairs of the errors seen")
	r.Assume("a package goose itself reports as not loading (type errors, missing cgo) is outside the statement and only counted")
	r.Assume("go/parser's top-level declaration ranges are the reference for `inside the offending declaration`")
	setGoEnvInProcess()
	bin, err := gooseBin(r)
	if err != nil {
		fmt.Fprintln(os.Stderr, err)
		return false, "goose does not build: " + err.Error()
	}
	c := &c07Ctx{r: r, bin: bin, di: newDeclIndex(), crashes: map[string][]map[string]interface{}{}, errCats: map[string]int{}}

	if only := os.Getenv("VERIF_C07_ONLY"); only != "" {
		// development aid: run single families; never a verdict about the property (reported as inconclusive)
		for _, f := range strings.Split(only, ",") {
			switch f {
			case "scale":
				c.runScale()
			case "locate":
				c.runLocate()
			case "groups":
				c.runGroups()
			}
		}
		return false, "VERIF_C07_ONLY=" + only + ": only the named families were run"
	}
	t0 := time.Now()
	c.runWitnesses()
	t1 := time.Now()
	c.runStdlib()
	t2 := time.Now()
	rejecting := c.runCatalogue()
	t3 := time.Now()
	c.runMixtures(rejecting)
	t4 := time.Now()
	c.runMutants()
	c.runMultiPackage()
	c.runFileForms()
	t5 := time.Now()
	c.runStress()
	t6 := time.Now()
	c.runScale()
	t7 := time.Now()
	c.runLocate()
	c.runGroups()
	t8 := time.Now()
	r.Set("phase_seconds", map[string]float64{"witnesses": t1.Sub(t0).Seconds(), "stdlib": t2.Sub(t1).Seconds(), "catalogue": t3.Sub(t2).Seconds(), "mixtures": t4.Sub(t3).Seconds(), "mutants": t5.Sub(t4).Seconds(), "stress": t6.Sub(t5).Seconds(), "scale": t7.Sub(t6).Seconds(), "locate": t8.Sub(t7).Seconds()})

	// evidence: crash classes with witnesses, error classes
	cls := map[string]interface{}{}
	for sig, ws := range c.crashes {
		if strings.HasSuffix(sig, "#more") {
			continue
		}
		cls[sig] = ws
	}
	r.Set("crash_classes", cls)
	r.Set("crash_signatures_distinct", len(cls))
	r.Set("error_classes_seen", c.errCats)
	var sigs []string
	for s := range cls {
		sigs = append(sigs, s)
	}
	sort.Strings(sigs)
	for _, s := range sigs {
		fmt.Printf("C07 crash class: %s\n", s)
	}

	if r.Evals() < 100 {
		return false, fmt.Sprintf("only %d inputs run (floor 100)", r.Evals())
	}
	if r.GetCount("inputs_run/stdlib") < 20 {
		return false, fmt.Sprintf("only %d standard-library packages run (floor 20)", r.GetCount("inputs_run/stdlib"))
	}
	if r.GetCount("error_blocks_parsed") < 100 {
		return false, "fewer than 100 structured error blocks read"
	}
	if r.GetCount("mixtures_judged") < 5 {
		return false, "fewer than 5 mixtures of broken and good declarations judged"
	}
	return true, ""
}

// ---------------------------------------------------------------- pinned witnesses

// runWitnesses replays /verif/known/C07/<signature>/*.go: each directory is one small package.
func (c *c07Ctx) runWitnesses() {
	r := c.r
	root := filepath.Join(core.VerifDir, "known", "C07")
	ents, err := os.ReadDir(root)
	if err != nil {
		r.Set("pinned_witnesses", 0)
		return
	}
	dir := filepath.Join(r.Scratch, "c07wit")
	if err := writeModule(dir); err != nil {
		return
	}
	var ins []*c07Input
	for i, e := range ents {
		if !e.IsDir() {
			continue
		}
		files, err := readExampleFiles(filepath.Join(root, e.Name()))
		if err != nil || len(files) == 0 {
			continue
		}
		in := &c07Input{ID: "witness/" + e.Name(), Workload: "witness", Desc: "pinned witness of " + e.Name(), Rel: fmt.Sprintf("w%03d", i), Files: files}
		in.Pattern = "./" + in.Rel
		writePkg(dir, in.Rel, files)
		// witnesses may bring sibling packages in sub-directories
		subs, _ := os.ReadDir(filepath.Join(root, e.Name()))
		for _, s := range subs {
			if s.IsDir() {
				if fs, err := readExampleFiles(filepath.Join(root, e.Name(), s.Name())); err == nil {
					writePkg(dir, filepath.Join(in.Rel, s.Name()), fs)
				}
			}
		}
		ins = append(ins, in)
	}
	r.Set("pinned_witnesses", len(ins))
	core.Parallel(len(ins), 16, func(i int) {
		in := ins[i]
		out := filepath.Join(dir, "out")
		o := c07Exec(c.bin, dir, out, nil, nil, in.Pattern)
		r.Count("goose_invocations", 1)
		if o.Crash {
			r.Count("pinned_witnesses_still_crashing", 1)
			want := strings.TrimPrefix(in.ID, "witness/")
			if o.CrashSig != want {
				r.Count("pinned_witnesses_crashing_with_another_signature", 1)
				fmt.Fprintf(os.Stderr, "C07: witness %s now crashes as %s\n", want, o.CrashSig)
			}
		}
		c.judge(in, o, filepath.Join(dir, in.Rel), vPath(out, in.Rel), false)
	})
}

// ---------------------------------------------------------------- helpers shared by the workloads

func goListStd() ([]string, error) {
	res := core.Exec("", core.GoEnv(), 2*time.Minute, "", "go", "list", "std")
	if res.Code != 0 {
		return nil, fmt.Errorf("go list std: %s", res.Stderr)
	}
	var out []string
	for _, l := range strings.Split(res.Stdout, "\n") {
		l = strings.TrimSpace(l)
		if l == "" || strings.HasPrefix(l, "internal/") || strings.Contains(l, "/internal/") || strings.HasSuffix(l, "/internal") ||
			strings.HasPrefix(l, "vendor/") || strings.HasPrefix(l, "cmd/") {
			continue
		}
		out = append(out, l)
	}
	sort.Strings(out)
	return out, nil
}

func goEnvVar(name string) string {
	res := core.Exec("", core.GoEnv(), time.Minute, "", "go", "env", name)
	return strings.TrimSpace(res.Stdout)
}

// settleModule lets the go command complete go.mod/go.sum of a fresh scratch module before parallel loads start.
func settleModule(dir string) {
	core.Exec(dir, core.GoEnv(), 2*time.Minute, "", "go", "list", "-e", "-tags", "goose", "./...")
}
