package declp

import (
	"bytes"
	"fmt"
	"go/ast"
	"go/format"
	"go/parser"
	"go/token"
	"os"
	"path/filepath"
	"regexp"
	"sort"
	"strings"
	"sync"
	"time"

	"verif/core"
)

// c07std.go: real-world Go — the installed standard library. goose is run
// from a scratch module with the import path as pattern (works offline). A
// crash hides every declaration after it, so a crashing package is re-run on a
// PRIVATE COPY in which the crashing function's body is replaced by
// panic("x") (always type-correct; imports that become unused are dropped),
// until the package terminates normally: every crash class of the corpus is
// enumerated, not just the first per package.
//
// The private copy is a scratch GOROOT made of symbolic links to the installed
// one, except for the directory of the package under study, which is a real
// copy (standard-library packages import internal/... packages, so they cannot
// be copied into an ordinary module). Nothing is ever written below the
// installed GOROOT.

func (c *c07Ctx) runStdlib() {
	r := c.r
	pkgs, err := goListStd()
	if err != nil {
		fmt.Fprintln(os.Stderr, "C07:", err)
		r.Inconclusive("go-list-std-failed")
		return
	}
	r.Set("stdlib_packages_listed", len(pkgs))
	if r.Quick() {
		// a seed-dependent quarter of the list
		var sub []string
		off := int(uint64(r.Seed) % 4)
		for i, p := range pkgs {
			if i%4 == off {
				sub = append(sub, p)
			}
		}
		pkgs = sub
	}
	goroot := goEnvVar("GOROOT")
	if goroot == "" {
		r.Inconclusive("no-GOROOT")
		return
	}
	modDir := filepath.Join(r.Scratch, "c07std")
	if err := writeModule(modDir); err != nil {
		return
	}
	env := []string{"CGO_ENABLED=0"}
	crashed := make([]bool, len(pkgs))
	core.Parallel(len(pkgs), 16, func(i int) {
		p := pkgs[i]
		in := &c07Input{ID: "std/" + p, Workload: "stdlib", Desc: "standard library package " + p, Pattern: p}
		out := filepath.Join(modDir, fmt.Sprintf("out%03d", i))
		o := c07Exec(c.bin, modDir, out, env, nil, p)
		r.Count("goose_invocations", 1)
		c.judge(in, o, filepath.Join(goroot, "src", p), filepath.Join(out, p+".v"), false)
		if o.Crash {
			crashed[i] = true
			r.Count("stdlib_packages_crashing", 1)
		}
		if i < 3 {
			r.Sample(12, map[string]interface{}{"input": in.ID, "exit": o.Exit, "crash_signature": o.CrashSig, "error_blocks": len(o.Blocks), "first_error": firstBlock(o)})
		}
	})
	var toPeel []int
	for i, cr := range crashed {
		if cr {
			toPeel = append(toPeel, i)
		}
	}
	maxIter := r.Pick(3, 15)
	core.Parallel(len(toPeel), 16, func(k int) {
		i := toPeel[k]
		c.peel(pkgs[i], i, goroot, maxIter)
	})
}

func firstBlock(o *c07Outcome) interface{} {
	if len(o.Blocks) == 0 {
		return nil
	}
	return o.Blocks[0]
}

// makeScratchGoroot builds <base> as a GOROOT whose only real directory chain is src/<pkg>.
func makeScratchGoroot(realRoot, base, pkg string) (pkgDir string, err error) {
	if err = os.MkdirAll(filepath.Join(base, "src"), 0o755); err != nil {
		return
	}
	ents, err := os.ReadDir(realRoot)
	if err != nil {
		return
	}
	for _, e := range ents {
		if e.Name() == "src" {
			continue
		}
		if err = os.Symlink(filepath.Join(realRoot, e.Name()), filepath.Join(base, e.Name())); err != nil {
			return
		}
	}
	realCur, cur := filepath.Join(realRoot, "src"), filepath.Join(base, "src")
	elems := strings.Split(pkg, "/")
	for depth := 0; depth <= len(elems); depth++ {
		next := ""
		if depth < len(elems) {
			next = elems[depth]
		}
		var es []os.DirEntry
		if es, err = os.ReadDir(realCur); err != nil {
			return
		}
		for _, e := range es {
			if e.Name() == next && e.IsDir() {
				continue
			}
			src, dst := filepath.Join(realCur, e.Name()), filepath.Join(cur, e.Name())
			if e.IsDir() {
				if err = os.Symlink(src, dst); err != nil {
					return
				}
				continue
			}
			if depth == 0 {
				continue // loose files in src/ are not needed
			}
			var b []byte
			if b, err = os.ReadFile(src); err != nil {
				return
			}
			if err = os.WriteFile(dst, b, 0o644); err != nil {
				return
			}
		}
		if next == "" {
			break
		}
		realCur, cur = filepath.Join(realCur, next), filepath.Join(cur, next)
		if err = os.MkdirAll(cur, 0o755); err != nil {
			return
		}
	}
	return cur, nil
}

type peelFunc struct {
	file       string
	name       string
	lbrace     int // offsets of the body in the original source
	rbrace     int
	start, end int
}

var versionElemRe = regexp.MustCompile(`^v[0-9]+$`)

func guessImportName(path string) string {
	el := strings.Split(path, "/")
	n := el[len(el)-1]
	if versionElemRe.MatchString(n) && len(el) > 1 {
		n = el[len(el)-2]
	}
	n = strings.TrimPrefix(n, "go-")
	if i := strings.IndexByte(n, '.'); i > 0 {
		n = n[:i]
	}
	return n
}

// dropUnusedImports re-reads a modified file and removes import specs whose name no longer occurs as a selector head.
func dropUnusedImports(name, src string) (string, error) {
	fset := token.NewFileSet()
	f, err := parser.ParseFile(fset, name, src, parser.ParseComments)
	if err != nil {
		return "", err
	}
	used := map[string]bool{}
	ast.Inspect(f, func(n ast.Node) bool {
		if se, ok := n.(*ast.SelectorExpr); ok {
			if id, ok := se.X.(*ast.Ident); ok && id.Obj == nil {
				used[id.Name] = true
			}
		}
		return true
	})
	changed := false
	var decls []ast.Decl
	for _, d := range f.Decls {
		gd, ok := d.(*ast.GenDecl)
		if !ok || gd.Tok != token.IMPORT {
			decls = append(decls, d)
			continue
		}
		var specs []ast.Spec
		for _, s := range gd.Specs {
			is := s.(*ast.ImportSpec)
			n := ""
			if is.Name != nil {
				n = is.Name.Name
			} else {
				n = guessImportName(strings.Trim(is.Path.Value, "\"`"))
			}
			switch {
			case n == "_" || n == "." || used[n]:
				specs = append(specs, s)
			case strings.Trim(is.Path.Value, "\"`") == "unsafe":
				// kept for //go:linkname, which requires the file to import unsafe
				is.Name = ast.NewIdent("_")
				specs = append(specs, s)
				changed = true
			default:
				changed = true
			}
		}
		if len(specs) > 0 {
			gd.Specs = specs
			decls = append(decls, gd)
		}
	}
	if !changed {
		return src, nil
	}
	f.Decls = decls
	var buf bytes.Buffer
	if err := format.Node(&buf, fset, f); err != nil {
		return "", err
	}
	return buf.String(), nil
}

// peel re-runs one crashing package on its private copy until it terminates normally.
func (c *c07Ctx) peel(pkg string, idx int, realRoot string, maxIter int) {
	r := c.r
	base := filepath.Join(r.Scratch, fmt.Sprintf("c07goroot%03d", idx))
	pkgDir, err := makeScratchGoroot(realRoot, base, pkg)
	if err != nil {
		r.Inconclusive("scratch-goroot-failed")
		fmt.Fprintln(os.Stderr, "C07: scratch GOROOT for", pkg, ":", err)
		return
	}
	modDir := filepath.Join(r.Scratch, "c07std")
	env := []string{"CGO_ENABLED=0", "GOROOT=" + base}
	lres := core.Exec(modDir, append(core.GoEnv(), env...), 2*time.Minute, "", "go", "list", "-tags", "goose", "-f", `{{join .GoFiles "\n"}}`, pkg)
	if lres.Code != 0 {
		r.Inconclusive("peel-go-list-failed")
		return
	}
	var files []string
	for _, l := range strings.Split(lres.Stdout, "\n") {
		if l = strings.TrimSpace(l); l != "" {
			files = append(files, l)
		}
	}
	sort.Strings(files)
	orig := map[string]string{}
	var funcs []peelFunc
	for _, fn := range files {
		b, err := os.ReadFile(filepath.Join(pkgDir, fn))
		if err != nil {
			r.Inconclusive("peel-read-failed")
			return
		}
		orig[fn] = string(b)
		fset := token.NewFileSet()
		f, err := parser.ParseFile(fset, fn, b, parser.SkipObjectResolution)
		if err != nil {
			r.Inconclusive("peel-parse-failed")
			return
		}
		tf := fset.File(f.Pos())
		for _, d := range f.Decls {
			if fd, ok := d.(*ast.FuncDecl); ok && fd.Body != nil {
				funcs = append(funcs, peelFunc{file: fn, name: declName(fd), lbrace: tf.Offset(fd.Body.Lbrace), rbrace: tf.Offset(fd.Body.Rbrace),
					start: tf.Offset(fd.Pos()), end: tf.Offset(fd.End())})
			}
		}
	}
	n := len(funcs)
	var seq int
	var seqMu sync.Mutex
	// test writes the copy with funcs[i] neutralised for every i in perm or ≥ prefix, runs goose, returns the outcome
	test := func(perm map[int]bool, prefix int) (*c07Outcome, string) {
		byFile := map[string][]int{}
		for i := range funcs {
			if perm[i] || i >= prefix {
				byFile[funcs[i].file] = append(byFile[funcs[i].file], i)
			}
		}
		for _, fn := range files {
			src := orig[fn]
			if ix := byFile[fn]; len(ix) > 0 {
				sort.Slice(ix, func(a, b int) bool { return funcs[ix[a]].lbrace > funcs[ix[b]].lbrace })
				for _, i := range ix {
					src = src[:funcs[i].lbrace] + "{ panic(\"x\") }" + src[funcs[i].rbrace+1:]
				}
				if s2, err := dropUnusedImports(fn, src); err == nil {
					src = s2
				}
			}
			os.WriteFile(filepath.Join(pkgDir, fn), []byte(src), 0o644)
		}
		seqMu.Lock()
		seq++
		out := filepath.Join(base, fmt.Sprintf("vout%03d", seq))
		seqMu.Unlock()
		o := c07Exec(c.bin, modDir, out, env, nil, pkg)
		r.Count("goose_invocations", 1)
		return o, out
	}
	perm := map[int]bool{}
	deadline := time.Now().Add(time.Duration(r.Pick(12, 240)) * time.Second)
	stopDiag := func(why string, o *c07Outcome) {
		if r.GetCount("diag_peel_load") < 6 {
			r.Count("diag_peel_load", 1)
			fmt.Fprintf(os.Stderr, "C07: peel of %s stopped (%s): %s\n", pkg, why, clip(o.Stderr, 500))
		}
	}
	for iter := 0; iter < maxIter; iter++ {
		if time.Now().After(deadline) {
			r.Count("peel_stopped/time-bound", 1)
			return
		}
		o, out := test(perm, n)
		r.Count("stdlib_reruns_on_private_copy", 1)
		in := &c07Input{ID: fmt.Sprintf("std/%s#copy-with-%d-functions-neutralised", pkg, len(perm)), Workload: "stdlib-peel",
			Desc: fmt.Sprintf("private copy of %s, bodies of %d crashing functions replaced by panic(\"x\")", pkg, len(perm)), Pattern: pkg}
		if o.TimedOut {
			r.Inconclusive("goose-watchdog")
			return
		}
		if o.LoadError {
			r.Count("peel_stopped/copy-no-longer-type-checks", 1)
			stopDiag("copy does not load", o)
			return
		}
		if !o.Crash {
			// terminates normally now: judge the full structured output of the package
			c.judge(in, o, pkgDir, filepath.Join(out, pkg+".v"), false)
			r.Count("peel_finished/terminates-normally", 1)
			r.Count("peel_functions_neutralised_total", int64(len(perm)))
			return
		}
		// crash: is it inside a function body at all?
		all, _ := test(perm, 0)
		if all.LoadError || all.TimedOut {
			r.Count("peel_stopped/copy-no-longer-type-checks", 1)
			stopDiag("copy with every body neutralised does not load", all)
			c.judge(in, o, pkgDir, "", false)
			return
		}
		if all.Crash {
			in.Desc += "; crash persists with every function body neutralised (it is in a type, constant, variable declaration or a signature)"
			c.judge(in, all, pkgDir, "", false)
			r.Count("peel_stopped/crash-outside-function-bodies", 1)
			return
		}
		lo, hi := 0, n // prefix lo: no crash; prefix hi: crash
		last := o
		bad := false
		for hi-lo > 1 {
			mid := (lo + hi) / 2
			m, _ := test(perm, mid)
			if m.LoadError || m.TimedOut {
				bad = true
				stopDiag("a bisection step does not load", m)
				break
			}
			if m.Crash {
				hi, last = mid, m
			} else {
				lo = mid
			}
		}
		if bad {
			r.Count("peel_stopped/copy-no-longer-type-checks", 1)
			c.judge(in, o, pkgDir, "", false)
			return
		}
		k := hi - 1
		f := funcs[k]
		text := orig[f.file][f.start:f.end]
		in.ID = fmt.Sprintf("std/%s#%s", pkg, f.name)
		in.Desc = fmt.Sprintf("function %s of %s (%s), found by bisection over the function bodies of a private copy", f.name, pkg, f.file)
		in.Files = map[string]string{f.file + "#" + f.name: clip(text, 4000)}
		c.judge(in, last, pkgDir, "", false)
		c.noteCrash(last.CrashSig, map[string]interface{}{"input": in.ID, "workload": "stdlib-peel", "function": clip(text, 1500)})
		r.Count("crashing_functions_located", 1)
		perm[k] = true
	}
	r.Count("peel_stopped/iteration-bound", 1)
}
