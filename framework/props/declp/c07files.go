package declp

import (
	"fmt"
	"path/filepath"
	"strings"

	"verif/core"
)

// c07files.go: file- and directory-level shapes (everything the catalogue, which works on declarations and
// statements, cannot express): what stands before the package clause, unusual line structure, files without
// declarations, directories goose's patterns match but that hold nothing to translate. Every scenario is
// translated together with a sibling package that has one unsupported function: no crash, the sibling's error
// is still reported, the exit status says "errors".

type fileForm struct {
	name  string
	files map[string]string // file name -> content of package `ff` (package clause included)
	bad   int               // unsupported functions in ff itself
}

func c07FileForms() []fileForm {
	good := "\nfunc Keep(a uint64) uint64 {\n\treturn a + 1\n}\n"
	bad := "\nfunc Bad(a uint64) uint64 {\n\tswitch a {\n\tcase 1:\n\t\treturn 2\n\t}\n\treturn a\n}\n"
	pk := "package ff\n"
	var fs []fileForm
	add := func(name string, files map[string]string, nbad int) { fs = append(fs, fileForm{name, files, nbad}) }
	for _, h := range []struct{ n, text string }{
		{"directive-go-generate", "//go:generate echo hello\n"},
		{"directive-nolint", "//nolint:all\n"},
		{"bare-line-comment", "//\n"},
		{"empty-block-comment", "/**/\n"},
		{"blank-block-comment", "/* */\n"},
		{"several-bare-comments", "//\n//\n//\n"},
		{"doc-comment", "// Package ff does things.\n"},
		{"doc-comment-with-blank-lines", "// Package ff does things.\n//\n//   indented\n//\n"},
		{"detached-comment", "// Copyright someone.\n\n"},
		{"detached-then-doc", "/* Copyright\n   someone */\n\n// Package ff.\n"},
		{"build-constraint", "//go:build !neverdefined\n\n"},
		{"build-constraint-and-doc", "//go:build !neverdefined\n\n// Package ff.\n"},
		{"legacy-build-constraint", "// +build !neverdefined\n\n"},
		{"directive-and-doc", "// Package ff.\n//go:generate echo\n"},
		{"comment-with-coq-delimiters", "// (* not closed\n"},
		{"comment-with-quote", "// say \"hi\n"},
	} {
		add("header-"+h.n, map[string]string{"a.go": h.text + pk + good}, 0)
		add("header-"+h.n+"+bad", map[string]string{"a.go": h.text + pk + good + bad}, 1)
	}
	add("no-trailing-newline", map[string]string{"a.go": strings.TrimSuffix(pk+good, "\n")}, 0)
	add("trailing-comment-no-newline", map[string]string{"a.go": pk + good + "// end"}, 0)
	add("crlf-line-endings", map[string]string{"a.go": strings.ReplaceAll(pk+good+bad, "\n", "\r\n")}, 1)
	add("byte-order-mark", map[string]string{"a.go": "\xef\xbb\xbf" + pk + good}, 0)
	add("package-clause-with-semicolon", map[string]string{"a.go": "package ff;\n" + good}, 0)
	add("package-clause-only", map[string]string{"a.go": pk}, 0)
	add("comments-only-file", map[string]string{"a.go": pk + good, "b.go": "// nothing here\n" + pk + "\n// still nothing\n"}, 0)
	add("file-with-only-imports", map[string]string{"a.go": pk + good, "b.go": pk + "\nimport _ \"sync\"\n"}, 0)
	add("blank-import-of-fmt", map[string]string{"a.go": pk + "\nimport _ \"fmt\"\n" + good}, 0)
	add("dot-import", map[string]string{"a.go": pk + "\nimport . \"sync\"\n\nfunc Lk() *Mutex {\n\treturn new(Mutex)\n}\n" + good}, 0)
	add("renamed-import", map[string]string{"a.go": pk + "\nimport sy \"sync\"\n\nfunc Lk() *sy.Mutex {\n\treturn new(sy.Mutex)\n}\n" + good}, 0)
	add("two-files-errors-in-both", map[string]string{"a.go": pk + good + bad, "z.go": pk + strings.ReplaceAll(bad, "Bad", "Worse")}, 2)
	add("tests-only-directory", map[string]string{"only_test.go": "package ff\n\nimport \"testing\"\n\nfunc TestX(t *testing.T) {\n}\n"}, 0)
	add("tests-and-source", map[string]string{"a.go": pk + good, "a_test.go": "package ff\n\nimport \"testing\"\n\nfunc TestX(t *testing.T) {\n\tif Keep(1) != 2 {\n\t\tt.Fail()\n\t}\n}\n"}, 0)
	add("external-test-package", map[string]string{"a.go": pk + good, "x_test.go": "package ff_test\n\nimport \"testing\"\n\nfunc TestY(t *testing.T) {\n}\n"}, 0)
	add("ignored-file-names", map[string]string{"a.go": pk + good, "_skipped.go": "package other\n\nthis is not Go\n", ".hidden.go": "garbage"}, 0)
	add("goose-build-tag-file", map[string]string{"a.go": pk + good, "b.go": "//go:build !goose\n\n" + pk + "\nfunc NotForGoose() chan int {\n\treturn nil\n}\n"}, 0)
	add("empty-directory-entry", map[string]string{"a.go": pk + good, "notes.txt": "hello"}, 0)
	return fs
}

func (c *c07Ctx) runFileForms() {
	r := c.r
	root := filepath.Join(r.Scratch, "c07files")
	if err := writeModule(root); err != nil {
		r.Inconclusive("file-forms-module-not-written")
		return
	}
	forms := c07FileForms()
	sib := "package sib\n\nfunc SibGood(a uint64) uint64 {\n\treturn a\n}\n\nfunc SibBad(a uint64) uint64 {\n\tdefer func() {\n\t}()\n\treturn a\n}\n"
	for i, f := range forms {
		rel := fmt.Sprintf("f%02d", i)
		writePkg(root, filepath.Join(rel, "ff"), f.files)
		writePkg(root, filepath.Join(rel, "sib"), map[string]string{"sib.go": sib})
	}
	settleModule(root)
	core.Parallel(len(forms), 16, func(i int) {
		f := forms[i]
		rel := fmt.Sprintf("f%02d", i)
		for _, order := range []string{"dots", "explicit"} {
			pats := []string{"./" + rel + "/..."}
			if order == "explicit" {
				pats = []string{"./" + rel + "/ff", "./" + rel + "/sib"}
			}
			out := filepath.Join(root, "out-"+rel+"-"+order)
			o := c07ExecN(c.bin, root, out, nil, nil, pats...)
			r.Count("goose_invocations", 1)
			if o.TimedOut {
				r.Inconclusive("goose-watchdog")
				continue
			}
			r.Eval(1)
			r.Count("inputs_run/file-forms", 1)
			r.Distinct("file form " + f.name + " × " + order)
			detail := map[string]interface{}{"form": f.name, "files": f.files, "patterns": pats, "outcome": o, "stderr": clip(o.Stderr, 4000)}
			if o.Crash {
				c.noteCrash(o.CrashSig, map[string]interface{}{"input": "file-form/" + f.name, "workload": "file-forms", "panic": o.PanicLine})
				r.Violate(o.CrashSig, fmt.Sprintf("goose aborted (exit %d) with %q on the file form %q translated with a sibling package", o.Exit, o.PanicLine, f.name), detail)
				continue
			}
			sibDir := filepath.Join(root, rel, "sib")
			ffDir := filepath.Join(root, rel, "ff")
			nsib, nff := 0, 0
			for _, b := range o.Blocks {
				switch filepath.Dir(b.SrcFile) {
				case sibDir:
					nsib++
				case ffDir:
					nff++
				}
			}
			if nsib == 0 {
				r.Violate("file-form-hides-sibling-error", fmt.Sprintf("file form %q: the unsupported function of the sibling package is not reported (exit %d)", f.name, o.Exit), detail)
			}
			if o.Exit == 0 {
				r.Violate("file-form-exit-0-with-broken-sibling", fmt.Sprintf("file form %q: goose exits 0 although the sibling package has an unsupported function", f.name), detail)
			}
			if !o.LoadError && nff < f.bad {
				r.Violate("file-form-error-not-reported", fmt.Sprintf("file form %q: %d unsupported functions in the package, %d errors located in its files", f.name, f.bad, nff), detail)
			}
			if o.LoadError {
				r.Count("file_forms_not_loading/"+f.name, 1)
			}
			for _, p := range o.Problems {
				r.Violate("error-output-malformed:"+strings.SplitN(strings.TrimPrefix(strings.TrimPrefix(p, "block: "), "report: "), ":", 2)[0], fmt.Sprintf("file form %q: goose's error output departs from the documented shape: %s", f.name, p), detail)
			}
			r.Count("file_forms_judged", 1)
		}
	})
}
