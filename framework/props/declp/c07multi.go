package declp

import (
	"fmt"
	"os"
	"path/filepath"
	"sort"
	"strings"

	"verif/core"
)

// c07multi.go: several packages in one invocation. "Complete output or structured errors" is a
// statement about the whole run: the exit status must say "errors" whenever any package had one,
// whatever the order the packages are processed in, every broken package must get its report, and
// an error in one package must not stop the other packages from being written.

var multiBad = []struct{ name, body string }{
	{"switch", "\tswitch a {\n\tcase 1:\n\t\ta = 2\n\t}\n"},
	{"defer", "\tdefer func() {\n\t}()\n"},
	{"goto", "\tgoto l\nl:\n"},
	{"chan", "\tc := make(chan uint64, 1)\n\tc <- a\n"},
}

func (c *c07Ctx) runMultiPackage() {
	r := c.r
	type scen struct {
		id    string
		rels  []string
		bad   []bool
		out   string
		pats  []string
		flags []string
	}
	root := filepath.Join(r.Scratch, "c07multi")
	var scens []*scen
	// all good/bad assignments over 2..4 packages (names sort in processing order), patterns ./... and explicit reverse
	for n := 2; n <= r.Pick(3, 4); n++ {
		for mask := 1; mask < 1<<n; mask++ { // at least one bad package
			for _, order := range []string{"dots", "reverse", "forward"} {
				for _, ign := range []bool{false, true} {
					if ign && order != "dots" {
						continue
					}
					s := &scen{id: fmt.Sprintf("n%d-mask%d-%s-ign%v", n, mask, order, ign)}
					for i := 0; i < n; i++ {
						s.rels = append(s.rels, fmt.Sprintf("%s/p%c", s.id, 'a'+i))
						s.bad = append(s.bad, mask&(1<<i) != 0)
					}
					switch order {
					case "dots":
						s.pats = []string{"./" + s.id + "/..."}
					case "forward":
						for _, rel := range s.rels {
							s.pats = append(s.pats, "./"+rel)
						}
					case "reverse":
						for i := n - 1; i >= 0; i-- {
							s.pats = append(s.pats, "./"+s.rels[i])
						}
					}
					if ign {
						s.flags = []string{"-ignore-errors"}
					}
					scens = append(scens, s)
				}
			}
		}
	}
	if err := writeModule(root); err != nil {
		r.Inconclusive("multi-package-module-not-written")
		return
	}
	for si, s := range scens {
		s.out = filepath.Join(root, "out-"+s.id)
		for i, rel := range s.rels {
			name := filepath.Base(rel)
			body := ""
			if s.bad[i] {
				body = multiBad[(si+i)%len(multiBad)].body
			}
			src := fmt.Sprintf("package %s\n\nfunc F%d(a uint64) uint64 {\n%s\treturn a + %d\n}\n\nfunc G%d(a uint64) uint64 {\n\treturn a * 2\n}\n", name, i, body, i+1, i)
			writePkg(root, rel, map[string]string{name + ".go": src})
		}
	}
	settleModule(root)
	core.Parallel(len(scens), 16, func(i int) {
		s := scens[i]
		o := c07ExecN(c.bin, root, s.out, nil, s.flags, s.pats...)
		r.Count("goose_invocations", 1)
		if o.TimedOut {
			r.Inconclusive("goose-watchdog")
			return
		}
		r.Eval(1)
		r.Count("inputs_run/multi-package", 1)
		detail := map[string]interface{}{"scenario": s.id, "patterns": s.pats, "flags": s.flags, "packages": s.rels, "broken": s.bad, "outcome": o, "stderr": clip(o.Stderr, 4000)}
		if o.Crash {
			r.Violate(o.CrashSig, fmt.Sprintf("goose aborted (exit %d) with %q translating %v", o.Exit, o.PanicLine, s.pats), detail)
			return
		}
		if o.LoadError {
			r.Inconclusive("package-does-not-load")
			return
		}
		r.Distinct(fmt.Sprintf("multi-package %d packages, broken %v, patterns %s, flags %v", len(s.rels), s.bad, strings.SplitN(s.id, "-", 3)[2], s.flags))
		if o.Exit == 0 {
			r.Violate("multi-package-exit-0-with-broken-package", fmt.Sprintf("goose exited 0 translating %v although %d of the packages contain an unsupported construct (%d error blocks were printed)", s.pats, countTrue(s.bad), len(o.Blocks)), detail)
		}
		// each broken package gets a report located in its own file
		have := map[string]int{}
		for _, b := range o.Blocks {
			have[filepath.Dir(b.SrcFile)]++
		}
		var missing []string
		for j, rel := range s.rels {
			dir := filepath.Join(root, rel)
			if s.bad[j] && have[dir] == 0 {
				missing = append(missing, rel)
			}
			if !s.bad[j] && have[dir] > 0 {
				r.Violate("multi-package-error-in-good-package", fmt.Sprintf("an error is reported in %s, which has no unsupported construct", rel), detail)
			}
			_, err := os.Stat(vPath(s.out, rel))
			wantFile := !s.bad[j] || len(s.flags) > 0
			if wantFile && err != nil {
				r.Violate("multi-package-output-missing", fmt.Sprintf("no output file for %s (broken=%v, flags %v) when translated together with %v", rel, s.bad[j], s.flags, s.pats), detail)
			}
			if !wantFile && err == nil {
				r.Violate("multi-package-output-for-broken-package", fmt.Sprintf("an output file was written for the broken package %s without -ignore-errors", rel), detail)
			}
		}
		if len(missing) > 0 {
			sort.Strings(missing)
			r.Violate("multi-package-broken-package-without-report", fmt.Sprintf("no structured error is located in the files of %v although each contains an unsupported construct", missing), detail)
		}
		r.Count("multi_package_runs_judged", 1)
	})
}

func countTrue(bs []bool) int {
	n := 0
	for _, b := range bs {
		if b {
			n++
		}
	}
	return n
}
