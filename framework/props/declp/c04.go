package declp

import (
	"fmt"
	"go/build"
	"go/types"
	"os"
	"path/filepath"
	"sort"
	"strings"
	"sync"
	"time"

	"verif/core"
	"verif/props"
)

// C04: every top-level declaration emitted exactly once, uniquely named,
// defined before use, for every declaration order and file split.

func init() {
	props.Registry["C04"] = props.Prop{Level: "exploration", Run: runC04}
	props.Registry["C07"] = props.Prop{Level: "exploration", Run: runC07}
}

// setInfo is the Go-side reading of one declaration set (computed once; layouts only permute).
type setInfo struct {
	pkg        *goPkg
	expected   map[string][]int // documented name -> units
	unitOfDec  [][]int          // declSet unit (declaration text) -> goPkg units
	tcRelevant bool             // a signature / constant type / global type names a type of the package
	shapes     []string         // per goPkg unit: kind, refined for named types and aliases (coverage table)
	err        string
}

type c04Job struct {
	set    *declSet
	k      int
	lay    layout
	rel    string
	batch  int
	tc     bool   // translated with -typecheck (typing theorems mention the types of signatures and constants)
	status string // "", rejected, load-failed, crashed, no-output
	errTxt string
}

func runC04(r *core.Run) (bool, string) {
	r.SetRule("a case (evaluation) is one LAYOUT of a declaration set: the same top-level declarations in some order, split over 1–4 files with names in either lexical order, translated by the goose binary built from /repo; " +
		"expected definition names come from go/parser+go/types on the sources (f, T__m, T, constant/global name), definition order and unquoted identifiers from the Coq reader; " +
		"the directed sets whose signatures / constant types name a type of the package are translated a second time with -typecheck, where the typing theorem printed after a definition counts as part of what is emitted for that declaration; " +
		"generated families (c04matrix.go): type-matrix (every kind of local type declaration, incl. aliases of basic types / structs / named types / slices, maps, pointers of local types / aliases, as target of every reference form, from users of every declaration kind), value-matrix (functions, methods, constants, globals × users), imported-twin (the same forms applied to objects of two helper packages while a local declaration with the imported object's bare name, of every declaration kind, depends on the mentioning declaration; an imported object is not a same-package dependency); " +
		"coverage keys cell/target <kind> × <reference kind> × <relative order> and cell_by_user/<user kind> mentions <target kind> × <reference kind> count the mentions checked per cell; " +
		"checked per layout: (1) one Definition/Notation per declaration, no name twice; (2) if the Go declaration graph is acyclic, every same-package name mentioned in a body is defined earlier, self-calls go through the rec binder; (3) every layout of a set yields the same set of definitions with identical bodies; " +
		"distinct = (kind of mentioned declaration × reference kind as read from the emitted text × relative order of user and target in goose's processing order) triples actually observed")
	r.Assume("go/parser and go/types agree with the Go specification on what the top-level declarations of a package are and which ones a declaration refers to")
	r.Assume("an unquoted identifier that is neither declared by the Go package nor defined in the emitted file is a library name (Perennial), not a same-package reference")
	setGoEnvInProcess()
	// wall-clock per phase: information for whoever tunes the workload, never part of a verdict
	phases := map[string]float64{}
	phaseStart := time.Now()
	phase := func(name string) {
		phases[name] = float64(time.Since(phaseStart).Milliseconds()) / 1000
		phaseStart = time.Now()
		r.Set("phase_wall_seconds", phases)
	}
	bin, err := gooseBin(r)
	if err != nil {
		fmt.Fprintln(os.Stderr, err)
		return false, "goose does not build: " + err.Error()
	}
	phase("1-build-goose")
	skip := c04Skip()
	if len(skip) > 0 {
		r.Set("atoms_quarantined_by_VERIF_C04_SKIP", sortedKeys(skip))
	}

	// ---- declaration sets and their layouts
	var jobs []*c04Job
	var sets []*declSet
	addJobs := func(ds *declSet, lays []layout) {
		sets = append(sets, ds)
		for k, l := range lays {
			jobs = append(jobs, &c04Job{set: ds, k: k, lay: l, rel: fmt.Sprintf("%s_l%04d", ds.ID, k)})
		}
	}
	directed := c04DirectedSets(skip)
	// probe: an atom goose rejects is outside the accepted-package space; keep it out of the random compositions
	rejectedAtoms := c04ProbeAtoms(r, bin, directed)
	phase("2-probe-atoms")
	if len(rejectedAtoms) > 0 {
		r.Set("atoms_rejected_by_goose_left_out_of_random_sets", sortedKeys(rejectedAtoms))
		for a := range rejectedAtoms {
			skip[a] = true
		}
	}
	var tcJobs []*c04Job
	for _, ds := range directed {
		if rejectedAtoms[ds.Atoms[0]] {
			continue
		}
		var lays []layout
		if ds.Family == "" {
			lays = exhaustiveLayouts(len(ds.Units))
			r.Count("layouts_exhaustive_permutations", int64(len(lays)))
		} else {
			lays = familyLayouts(len(ds.Units))
			if !r.Quick() && len(ds.Units) == 3 {
				lays = exhaustiveLayouts(3)
			}
			if ds.Family == "conversion-two-users" {
				lays = conversionUsersLayouts()
			}
			if ds.Family == "two-users" && len(ds.Units) == 4 && r.Quick() {
				// every order in one file; the two-file layouts under the first pair of file names only
				var l []layout
				for _, x := range lays {
					if len(x.Files) == 1 || x.Files[0].Name == "a_f1.go" {
						l = append(l, x)
					}
				}
				lays = l
			}
			r.Count("layouts_of_generated_families/"+ds.Family, int64(len(lays)))
			r.Count("sets_of_generated_families/"+ds.Family, 1)
		}
		addJobs(ds, lays)
	}
	rng := core.NewRng(r.Seed, "c04-random")
	nRandomSets := r.Pick(12, 20)
	nLayouts := r.Pick(50, 2000)
	for i := 0; i < nRandomSets; i++ {
		ds := c04RandomSet(rng.Fork(fmt.Sprintf("set%d", i)), fmt.Sprintf("r%02d", i), skip)
		lr := rng.Fork(fmt.Sprintf("lay%d", i))
		var lays []layout
		lays = append(lays, layout{Files: []layoutFile{{Name: "m_f0.go", Units: seq(len(ds.Units))}}, Desc: "as-generated"})
		for k := 0; k < nLayouts; k++ {
			lays = append(lays, randomLayout(lr, len(ds.Units)))
		}
		r.Count("layouts_random_permutation_and_split", int64(nLayouts))
		addJobs(ds, lays)
	}
	shipped, shipNotes := c04ShippedSets()
	r.Set("shipped_example_packages", shipNotes)
	nShipLayouts := r.Pick(20, 60)
	for i, ds := range shipped {
		lr := rng.Fork(fmt.Sprintf("ship%d", i))
		var lays []layout
		for k := 0; k < nShipLayouts; k++ {
			lays = append(lays, randomLayout(lr, len(ds.Units)))
		}
		r.Count("layouts_of_shipped_examples", int64(nShipLayouts))
		addJobs(ds, lays)
	}

	// ---- Go-side reading of each set (canonical layout), inside one analysis module
	anDir := filepath.Join(r.Scratch, "c04an")
	if err := writeModule(anDir); err != nil {
		return false, "scratch: " + err.Error()
	}
	build.Default.Dir = anDir // go/build resolves imports with `go list` run there (the source importer uses build.Default)
	infos := map[*declSet]*setInfo{}
	var imu sync.Mutex
	srcImp := newSourceImporter()
	helperImp, herr := c04HelperImporter()
	if herr != nil {
		return false, "helper packages do not type-check: " + herr.Error()
	}
	for name, files := range c04HelperPkgs {
		writePkg(anDir, name, files)
	}
	core.Parallel(len(sets), 8, func(i int) {
		ds := sets[i]
		if len(ds.Imports) > 0 && !ds.Helper {
			return
		}
		var imp types.ImporterFrom
		if ds.Helper {
			imp = helperImp
		}
		si := c04Analyze(anDir, ds, imp)
		imu.Lock()
		infos[ds] = si
		imu.Unlock()
	})
	for _, ds := range sets {
		if len(ds.Imports) > 0 && !ds.Helper { // the source importer runs `go list` in the module and is not concurrency-safe
			infos[ds] = c04Analyze(anDir, ds, srcImp)
		}
	}
	cyclicSets := 0
	cyclicWhy := map[string]string{}
	for _, ds := range sets {
		si := infos[ds]
		if si.err != "" {
			r.Inconclusive("oracle-cannot-read-set")
			fmt.Fprintf(os.Stderr, "C04: set %s (%s): %s\n", ds.ID, ds.Origin, si.err)
			continue
		}
		if len(si.pkg.TypeErrors) > 0 {
			r.Count("sets_with_type_errors_on_the_oracle_side", 1)
			if r.GetCount("diag_type_errors") < 5 {
				r.Count("diag_type_errors", 1)
				fmt.Fprintf(os.Stderr, "C04: oracle type errors in %s (%s): %v\n", ds.ID, ds.Origin, firstN(si.pkg.TypeErrors, 3))
			}
		}
		if si.pkg.Cyclic {
			cyclicSets++
			r.Count("cyclic_sets_order_check_skipped", 1)
			cyclicWhy[ds.Origin+" "+ds.ID] = si.pkg.CyclicWhy
		}
	}
	r.Set("declaration_sets", len(sets))
	phase("3-go-side-analysis")

	// ---- the directed sets in which a typing theorem would mention a same-package type are translated
	// again with -typecheck (the theorems exist for functions, methods, constants and globals only)
	for _, ds := range sets {
		si := infos[ds]
		if !strings.HasPrefix(ds.Origin, "directed:") || si.err != "" || !si.tcRelevant || rejectedAtoms[ds.Atoms[0]] || ds.Family == "conversion-two-users" {
			continue
		}
		tl := typecheckLayouts(len(ds.Units))
		if ds.Family == "two-users" && r.Quick() {
			var l []layout
			for _, x := range tl {
				if len(x.Files) == 1 {
					l = append(l, x)
				}
			}
			tl = l
		}
		for k, l := range tl {
			tcJobs = append(tcJobs, &c04Job{set: ds, k: k, lay: l, tc: true, rel: fmt.Sprintf("%s_t%04d", ds.ID, k)})
		}
		r.Count("layouts_translated_with_typecheck", int64(len(tl)))
		r.Count("sets_translated_with_typecheck", 1)
	}
	jobs = append(jobs, tcJobs...)

	// ---- batches: one scratch module per batch, one goose invocation each
	const perBatch = 250
	nb := 0
	{
		// shipped sets need their sibling packages; keep them in their own batches
		cur, n := -1, perBatch
		lastShipped, lastTc := false, false
		for _, j := range jobs {
			sh := strings.HasPrefix(j.set.Origin, "shipped:")
			if n >= perBatch || sh != lastShipped || j.tc != lastTc {
				cur++
				n = 0
				lastShipped, lastTc = sh, j.tc
			}
			j.batch = cur
			n++
		}
		nb = cur + 1
	}
	batchJobs := make([][]*c04Job, nb)
	for _, j := range jobs {
		batchJobs[j.batch] = append(batchJobs[j.batch], j)
	}
	batchDir := func(b int) string { return filepath.Join(r.Scratch, fmt.Sprintf("c04m%03d", b)) }
	var crashed int64
	core.Parallel(nb, 16, func(b int) {
		dir := batchDir(b)
		if err := writeModule(dir); err != nil {
			r.Inconclusive("scratch-write-failed")
			return
		}
		wroteExtra := map[string]bool{}
		var flags []string
		for _, j := range batchJobs[b] {
			if infos[j.set].err != "" {
				j.status = "no-oracle"
				continue
			}
			if j.tc {
				flags = []string{"-typecheck"}
			}
			writePkg(dir, j.rel, j.set.render(j.lay))
			for rel, files := range j.set.Extra {
				if j.set.Helper && wroteExtra[rel] {
					continue
				}
				wroteExtra[rel] = true
				writePkg(dir, rel, files)
			}
		}
		res := runGoose(bin, dir, filepath.Join(dir, "out"), 10*time.Minute, nil, flags, "./...")
		r.Count("goose_invocations", 1)
		if res.TimedOut {
			r.Inconclusive("goose-watchdog")
			for _, j := range batchJobs[b] {
				j.status = "crashed"
			}
			return
		}
		if isCrash(res) {
			// C07's subject; here the batch is lost. Re-run its packages one by one to keep the others.
			sig, _, _ := crashSignature(res)
			fmt.Fprintf(os.Stderr, "C04: goose crashed on batch %d (%s); re-running its %d packages separately\n", b, sig, len(batchJobs[b]))
			for _, j := range batchJobs[b] {
				if j.status != "" {
					continue
				}
				one := runGoose(bin, dir, filepath.Join(dir, "out"), 2*time.Minute, nil, flags, "./"+j.rel)
				r.Count("goose_invocations", 1)
				if isCrash(one) || one.TimedOut {
					j.status = "crashed"
					crashed++
					continue
				}
				c04Attribute(one.Stderr, []*c04Job{j})
			}
			return
		}
		c04Attribute(res.Stderr, batchJobs[b])
	})

	phase("4-translate-all-layouts")
	// ---- judge: per set, layouts in order (the first judged layout is the reference of the metamorphic comparison)
	bySet := map[*declSet][]*c04Job{}
	for _, j := range jobs {
		bySet[j.set] = append(bySet[j.set], j)
	}
	// directed sets first, so that the replay file of a signature holds the smallest input that shows it
	var order []*declSet
	for _, ds := range sets {
		if strings.HasPrefix(ds.Origin, "directed:") {
			order = append(order, ds)
		}
	}
	nDirected := len(order)
	for _, ds := range sets {
		if !strings.HasPrefix(ds.Origin, "directed:") {
			order = append(order, ds)
		}
	}
	var cellMu sync.Mutex
	allCells := map[string]bool{}
	judgeSet := func(ds *declSet) {
		si := infos[ds]
		if si.err != "" {
			return
		}
		refs := map[bool]map[string][]string{}
		refJobs := map[bool]*c04Job{}
		cells := c04Cells{}
		defer func() {
			cellMu.Lock()
			for _, k := range sortedCellKeys(cells) {
				r.Count(k, cells[k])
				allCells[k] = true
			}
			cellMu.Unlock()
		}()
		for _, j := range bySet[ds] {
			ref, refJob := refs[j.tc], refJobs[j.tc]
			switch j.status {
			case "crashed":
				// a layout (order of declarations / split over files) of an accepted package on which goose
				// aborts yields no definition at all
				r.Violate("goose-crash-on-layout", fmt.Sprintf("goose aborts on one layout of a declaration set (%d layouts of this set were run)", len(bySet[ds])), map[string]interface{}{"package": j.rel, "layout": j.k, "stderr": clip(j.errTxt, 4000)})
				continue
			case "load-failed":
				r.Inconclusive("layout-does-not-load")
				if r.GetCount("diag_load") < 5 {
					r.Count("diag_load", 1)
					fmt.Fprintf(os.Stderr, "C04: layout %s of %s does not load: %s\n", j.rel, ds.Origin, clip(j.errTxt, 600))
				}
				continue
			case "rejected":
				// the statement is about accepted packages
				r.Inconclusive("package-rejected-by-goose")
				r.Count("rejected/"+ds.Origin, 1)
				if r.GetCount("diag_rejected") < 5 {
					r.Count("diag_rejected", 1)
					fmt.Fprintf(os.Stderr, "C04: layout %s of %s rejected: %s\n", j.rel, ds.Origin, clip(j.errTxt, 600))
				}
				continue
			}
			vb, err := os.ReadFile(vPath(filepath.Join(batchDir(j.batch), "out"), j.rel))
			if err != nil {
				r.Inconclusive("accepted-package-without-output-file")
				continue
			}
			defs, perr := readV(string(vb))
			if perr != nil {
				r.Inconclusive("emitted-file-unreadable")
				if r.GetCount("diag_unreadable") < 3 {
					r.Count("diag_unreadable", 1)
					fmt.Fprintf(os.Stderr, "C04: %s: emitted file unreadable (C05's subject): %v\n", j.rel, perr)
				}
				continue
			}
			r.Eval(1)
			r.Count("layouts_judged/"+strings.SplitN(ds.Origin, ":", 2)[0], 1)
			r.Count(fmt.Sprintf("layouts_by_file_count/%d", len(j.lay.Files)), 1)
			if j.tc {
				r.Count("layouts_judged_with_typecheck", 1)
			}
			cur := c04Judge(r, ds, si, j, defs, string(vb), cells)
			if len(j.lay.Files) > 1 {
				// noted, not judged (the statement does not fix the order of independent definitions):
				// goose prints one (* file.go *) comment per file in its processing order
				isFile := map[string]bool{}
				for _, f := range j.lay.Files {
					isFile[f.Name] = true
				}
				var seen []string
				for _, c := range readVComments(string(vb)) {
					if isFile[c] {
						seen = append(seen, c)
					}
				}
				if sort.StringsAreSorted(seen) {
					r.Count("noted/multi_file_layouts_with_file_comments_in_path_order", 1)
				} else {
					r.Count("noted/multi_file_layouts_with_file_comments_NOT_in_path_order", 1)
				}
			}
			if ref == nil {
				refs[j.tc], refJobs[j.tc] = cur, j
			} else {
				c04Metamorphic(r, ds, refJob, j, ref, cur, batchDir)
			}
			if !j.tc && (j.k == 1 || j.k == 0 && len(bySet[ds]) == 1) {
				var names []string
				for _, d := range defs {
					names = append(names, d.Name)
				}
				r.Sample(10, map[string]interface{}{"set": ds.ID, "origin": ds.Origin, "atoms": ds.Atoms, "layout": j.lay.Desc,
					"files": ds.render(j.lay), "definitions_in_order": names, "verdict_signatures": j.errTxt})
			}
		}
	}
	core.Parallel(nDirected, 16, func(i int) { judgeSet(order[i]) })
	core.Parallel(len(order)-nDirected, 16, func(i int) { judgeSet(order[nDirected+i]) })
	phase("5-judge")
	{
		nc, nu := 0, 0
		tks, rks := map[string]bool{}, map[string]bool{}
		for k := range allCells {
			if rest, ok := strings.CutPrefix(k, "cell/target "); ok {
				nc++
				if f := strings.Split(rest, " × "); len(f) == 3 {
					tks[f[0]], rks[f[1]] = true, true
				}
			} else {
				nu++
			}
		}
		r.Set("coverage_cells_observed(target kind × reference kind × relative order)", nc)
		r.Set("coverage_cells_observed(user kind × target kind × reference kind)", nu)
		r.Set("coverage_target_kinds_observed", sortedKeys(tks))
		r.Set("coverage_reference_kinds_observed", sortedKeys(rks))
	}
	r.Set("layouts_total", len(jobs))
	r.Set("goose_crashed_layouts", crashed)
	// atoms exercised
	atoms := map[string]int{}
	for _, ds := range sets {
		for _, a := range ds.Atoms {
			// generated atoms are named family/target/form[/twin]: counted per family/target
			if f := strings.Split(a, "/"); len(f) >= 3 {
				a = f[0] + "/" + f[1] + "/*"
			}
			atoms[a]++
		}
	}
	r.Set("generator_atoms_in_sets", atoms)
	r.Set("cyclic_sets_skipped", cyclicSets)
	r.Set("cyclic_sets", cyclicWhy)

	if r.Evals() < 200 {
		return false, fmt.Sprintf("only %d layouts judged (floor 200)", r.Evals())
	}
	if r.GetCount("mentions_checked_for_order") < 500 {
		return false, "fewer than 500 same-package mentions checked for definition order"
	}
	if r.GetCount("layouts_judged/shipped") == 0 && len(shipped) > 0 {
		return false, "no layout of a shipped example package could be judged"
	}
	return true, ""
}

func seq(n int) []int {
	a := make([]int, n)
	for i := range a {
		a[i] = i
	}
	return a
}

func firstN(ss []string, n int) []string {
	if len(ss) > n {
		return ss[:n]
	}
	return ss
}

// c04Attribute marks the jobs whose package goose rejected or could not load.
func c04Attribute(stderr string, js []*c04Job) {
	if strings.TrimSpace(stderr) == "" {
		return
	}
	reps, _ := parseStderr(stderr)
	find := func(txt string) *c04Job {
		for _, j := range js {
			if strings.Contains(txt, "/"+j.rel+"/") || strings.HasSuffix(strings.TrimSpace(txt), "/"+j.rel) || strings.Contains(txt, "/"+j.rel+":") {
				return j
			}
		}
		return nil
	}
	for _, rep := range reps {
		switch rep.Kind {
		case "conversion":
			for _, b := range rep.Blocks {
				if j := find(b.SrcFile); j != nil {
					j.status = "rejected"
					j.errTxt = rep.Raw
					break
				}
			}
		case "load":
			if j := find(rep.PkgPath + "/"); j != nil {
				j.status = "load-failed"
				j.errTxt = rep.Raw
			} else if j := find(rep.Raw); j != nil {
				j.status = "load-failed"
				j.errTxt = rep.Raw
			}
		}
	}
}

// c04Analyze reads the canonical layout of a set with go/parser + go/types.
func c04Analyze(anDir string, ds *declSet, srcImp types.ImporterFrom) *setInfo {
	si := &setInfo{}
	lay := layout{Files: []layoutFile{{Name: "all.go", Units: seq(len(ds.Units))}}}
	files := ds.render(lay)
	rel := "an_" + ds.ID
	if err := writePkg(anDir, rel, files); err != nil {
		si.err = err.Error()
		return si
	}
	for rel2, fs := range ds.Extra {
		writePkg(anDir, rel2, fs)
	}
	abs := map[string]string{}
	for n, c := range files {
		abs[filepath.Join(anDir, rel, n)] = c
	}
	p, err := readPackage(abs)
	if err != nil {
		si.err = "go/parser: " + err.Error()
		return si
	}
	if len(p.Decls) != len(ds.Units) {
		si.err = fmt.Sprintf("set has %d declaration texts but the parser reads %d declarations", len(ds.Units), len(p.Decls))
		return si
	}
	p.analyzeDeps(srcImp)
	si.pkg = p
	si.expected = p.expectedNames()
	si.shapes = unitShapes(p)
	si.tcRelevant = typecheckRelevant(p)
	for _, d := range p.Decls {
		si.unitOfDec = append(si.unitOfDec, d.Units)
	}
	return si
}

// relOrder describes where the mentioned declaration sits relative to the mentioning one in goose's processing order.
func relOrder(fileRank, pos []int, user, target int) string {
	switch {
	case user == target:
		return "same-declaration"
	case fileRank[user] == fileRank[target] && pos[target] < pos[user]:
		return "same-file-target-first"
	case fileRank[user] == fileRank[target]:
		return "same-file-user-first"
	case fileRank[target] < fileRank[user]:
		return "target-in-earlier-file"
	}
	return "target-in-later-file"
}

// c04Judge applies oracles (1) and (2) to one layout and returns name -> bodies for oracle (3).
func c04Judge(r *core.Run, ds *declSet, si *setInfo, j *c04Job, defs []vdef, vtext string, cells c04Cells) map[string][]string {
	p := si.pkg
	detail := func(extra map[string]interface{}) map[string]interface{} {
		m := map[string]interface{}{"set": ds.ID, "origin": ds.Origin, "atoms": ds.Atoms, "layout": j.lay.Desc, "files": ds.render(j.lay), "emitted": vtext}
		if j.tc {
			m["goose_flags"] = "-typecheck"
		}
		if len(ds.Extra) > 0 && ds.Helper {
			m["imported_helper_packages"] = ds.Extra
		}
		for k, v := range extra {
			m[k] = v
		}
		return m
	}
	var sigs []string
	violate := func(sig, what string, extra map[string]interface{}) {
		sigs = append(sigs, sig)
		r.Violate(sig, what, detail(extra))
	}
	defIdx := map[string][]int{}
	bodies := map[string][]string{}
	for i, d := range defs {
		defIdx[d.Name] = append(defIdx[d.Name], i)
		bodies[d.Name] = append(bodies[d.Name], d.Kind+" "+strings.Join(d.TypeParams, ",")+" := "+d.Show+" "+d.Theorem)
	}
	for _, b := range bodies {
		sort.Strings(b)
	}
	// kinds of names
	kindOf := map[string]string{}
	shapeOf := map[string]string{} // finer kinds, for the coverage table only
	for name, us := range si.expected {
		kindOf[name] = p.Units[us[0]].Kind
		shapeOf[name] = si.shapes[us[0]]
	}
	shape := func(n string) string {
		if s, ok := shapeOf[n]; ok {
			return s
		}
		return kindOf[n]
	}
	for _, d := range defs {
		if _, ok := kindOf[d.Name]; !ok {
			if strings.Contains(d.Name, "__to__") {
				kindOf[d.Name] = "conversion"
				r.Count("interface_conversion_definitions_seen", 1)
			} else {
				kindOf[d.Name] = "unexpected"
				r.Count("definitions_without_a_go_declaration", 1)
			}
		}
	}
	// S__to__I for a struct S and an interface I of this package is a same-package name even if no definition of it was emitted
	for _, d := range defs {
		for _, m := range d.Mentions {
			if h := strings.SplitN(m.Name, "__to__", 2); len(h) == 2 {
				if _, ok := kindOf[m.Name]; !ok && len(si.expected[h[0]]) > 0 && len(si.expected[h[1]]) > 0 {
					kindOf[m.Name] = "conversion"
				}
			}
		}
	}
	isPkgName := func(n string) bool { _, ok := kindOf[n]; return ok }

	// (1) one definition per declaration, distinct declarations -> distinct names
	for _, name := range sortedKeys(si.expected) {
		us := si.expected[name]
		n := len(defIdx[name])
		r.Count("declarations_checked_for_one_definition", int64(len(us)))
		if len(us) > 1 {
			var ks []string
			for _, u := range us {
				ks = append(ks, p.Units[u].Kind)
			}
			sort.Strings(ks)
			violate("two-declarations-one-name-"+strings.Join(ks, "-and-"),
				fmt.Sprintf("%d distinct Go declarations (%s) are both documented to become Definition %s; the emitted file has %d definitions of that name", len(us), strings.Join(ks, ", "), name, n),
				map[string]interface{}{"name": name})
			continue
		}
		u := p.Units[us[0]]
		switch {
		case n == 0 && u.MultiName && u.NameIdx > 0:
			violate("multi-name-spec-later-names-not-defined",
				fmt.Sprintf("%s %s is declared in a spec with several names (position %d); the emitted file has no definition of it", u.Kind, name, u.NameIdx+1),
				map[string]interface{}{"name": name})
		case n == 0:
			violate("declaration-not-emitted-"+u.Kind,
				fmt.Sprintf("Go %s %s has no Definition/Notation named %s in the emitted file", u.Kind, u.GoName, name), map[string]interface{}{"name": name})
		case n > 1:
			violate("definition-emitted-twice-"+u.Kind,
				fmt.Sprintf("Go %s %s has %d definitions named %s in the emitted file", u.Kind, u.GoName, n, name), map[string]interface{}{"name": name})
		}
	}
	for name, idx := range defIdx {
		if _, exp := si.expected[name]; !exp && len(idx) > 1 {
			violate("definition-emitted-twice-"+kindOf[name],
				fmt.Sprintf("the emitted file defines %s %d times (different texts)", name, len(idx)), map[string]interface{}{"name": name})
		}
	}

	// (2) definition order
	if p.Cyclic {
		r.Count("layouts_order_check_skipped_cyclic", 1)
	} else {
		fileRank, pos := j.lay.positions(len(ds.Units))
		unitDecl := func(name string) int {
			if us, ok := si.expected[name]; ok {
				return p.Units[us[0]].Decl
			}
			return -1
		}
		for i, d := range defs {
			userKind := kindOf[d.Name]
			for _, m := range d.Mentions {
				if !isPkgName(m.Name) {
					continue
				}
				tk := kindOf[m.Name]
				// a value-level name (function, method, constant, global) counts as a same-package
				// mention only if the Go declaration really refers to it: a Go function called Skip
				// must not turn every library `Skip` into a reference to it (that is C05's subject)
				if us, ok := si.expected[d.Name]; ok && (tk == "func" || tk == "const" || tk == "var" || strings.HasPrefix(tk, "method")) {
					refers := false
					for _, uu := range us {
						for _, tu := range si.expected[m.Name] {
							if p.Edges[uu][tu] {
								refers = true
							}
						}
					}
					if !refers && m.Name != d.Name {
						r.Count("mentions_ignored_library_name_equal_to_a_go_name", 1)
						continue
					}
				}
				kind := refKind(m, d.Name, userKind, tk, isPkgName)
				r.Count("mentions_checked_for_order", 1)
				ud, td := unitDecl(d.Name), unitDecl(m.Name)
				order := "n/a"
				if ud >= 0 && td >= 0 {
					order = relOrder(fileRank, pos, ud, td)
				}
				r.Distinct(tk + " × " + kind + " × " + order)
				cells.add("cell/target " + shape(m.Name) + " × " + kind + " × " + order)
				cells.add("cell_by_user/" + shape(d.Name) + " mentions " + shape(m.Name) + " × " + kind)
				if m.Name == d.Name {
					if d.IsRec {
						// the signature names the form of the self reference in the Go source (kind of declaration, generic or not,
						// call or function / method value), so that one recorded form does not cover the others
						form := userKind
						if us, ok := si.expected[d.Name]; ok {
							form = selfRefForm(p.Units[us[0]])
						}
						violate("self-call-through-global:"+form,
							fmt.Sprintf("Definition %s mentions itself as the unquoted identifier %s instead of its rec: binder \"%s\" (self reference in the Go source: %s)", d.Name, d.Name, d.Name, form),
							map[string]interface{}{"definition": d.Name})
					} else {
						violate("self-mention-in-"+userKind,
							fmt.Sprintf("Definition %s (%s) mentions itself", d.Name, userKind), map[string]interface{}{"definition": d.Name})
					}
					continue
				}
				first := -1
				if ix := defIdx[m.Name]; len(ix) > 0 {
					first = ix[0]
				}
				if first >= 0 && first < i {
					continue
				}
				// attribute
				tu := -1
				if us, ok := si.expected[m.Name]; ok {
					tu = us[0]
				}
				sameGroup := ud >= 0 && ud == td
				switch {
				case first < 0 && tu >= 0 && p.Units[tu].MultiName && p.Units[tu].NameIdx > 0:
					violate("multi-name-spec-later-names-not-defined",
						fmt.Sprintf("Definition %s mentions %s, which is declared in a multi-name spec and never defined in the emitted file", d.Name, m.Name),
						map[string]interface{}{"definition": d.Name, "mentions": m.Name})
				case first < 0:
					violate("use-never-defined-"+kind,
						fmt.Sprintf("Definition %s mentions same-package %s %s (%s) which the emitted file never defines", d.Name, tk, m.Name, kind),
						map[string]interface{}{"definition": d.Name, "mentions": m.Name, "reference_kind": kind})
				case sameGroup:
					violate("use-before-def-within-grouped-declaration",
						fmt.Sprintf("Definition %s (line %d) mentions %s, a later spec of the same grouped declaration, defined only at line %d", d.Name, d.Line, m.Name, defs[first].Line),
						map[string]interface{}{"definition": d.Name, "mentions": m.Name, "reference_kind": kind})
				default:
					// name the input class more closely where the Go side shows one of the generated dimensions
					qual := ""
					if tk == "alias" {
						qual = "-of-type-alias"
					}
					if tk == "conversion" && kind == "interface-conversion" {
						// the user passes the struct only in plain positions (call statement, right-hand side of a define or
						// assignment, returned expression at the top level of its body): not the if-condition shape of the known finding
						plain := false
						for _, uu := range si.expected[d.Name] {
							plain = plain || p.PlainConvUser[uu]
						}
						if plain {
							qual = "-by-a-plain-call-user"
						}
					}
					if tu >= 0 {
						for _, n := range sortedKeys(p.ImportedMentions[tu]) {
							if _, local := si.expected[n]; local {
								qual += "/target-mentions-imported-namesake-of-a-local-declaration"
								break
							}
						}
					}
					violate("use-before-def-"+kind+qual,
						fmt.Sprintf("Definition %s (line %d) mentions same-package %s %s through a %s reference, but %s is defined only later (line %d); Go declaration order: %s",
							d.Name, d.Line, tk, m.Name, kind, m.Name, defs[first].Line, order),
						map[string]interface{}{"definition": d.Name, "mentions": m.Name, "reference_kind": kind, "relative_order": order})
				}
			}
		}
	}
	sort.Strings(sigs)
	j.errTxt = strings.Join(uniqStrings(sigs), ", ")
	return bodies
}

func uniqStrings(ss []string) []string {
	var out []string
	for i, s := range ss {
		if i == 0 || s != ss[i-1] {
			out = append(out, s)
		}
	}
	return out
}

// c04Metamorphic: two layouts of the same declarations must give the same set of definitions with identical bodies.
func c04Metamorphic(r *core.Run, ds *declSet, refJob, j *c04Job, ref, cur map[string][]string, batchDir func(int) string) {
	r.Count("metamorphic_layout_pairs_compared", 1)
	var missing, extra, differ []string
	for n, b := range ref {
		c, ok := cur[n]
		if !ok {
			missing = append(missing, n)
		} else if strings.Join(b, "\n") != strings.Join(c, "\n") {
			differ = append(differ, n)
		}
	}
	for n := range cur {
		if _, ok := ref[n]; !ok {
			extra = append(extra, n)
		}
	}
	sort.Strings(missing)
	sort.Strings(extra)
	sort.Strings(differ)
	det := func() map[string]interface{} {
		a, _ := os.ReadFile(vPath(filepath.Join(batchDir(refJob.batch), "out"), refJob.rel))
		b, _ := os.ReadFile(vPath(filepath.Join(batchDir(j.batch), "out"), j.rel))
		return map[string]interface{}{"set": ds.ID, "origin": ds.Origin, "atoms": ds.Atoms,
			"layout_A_files": ds.render(refJob.lay), "layout_B_files": ds.render(j.lay), "emitted_A": string(a), "emitted_B": string(b),
			"only_in_A": missing, "only_in_B": extra, "different_body": differ}
	}
	if len(missing) > 0 || len(extra) > 0 {
		r.Violate("layout-changes-definition-set",
			fmt.Sprintf("two layouts of the same declarations (%s) give different sets of definitions: only in the first %v, only in the second %v", ds.Origin, missing, extra), det())
	}
	if len(differ) > 0 {
		r.Violate("layout-changes-definition-body",
			fmt.Sprintf("two layouts of the same declarations (%s) give different bodies for %v", ds.Origin, differ), det())
	}
}

// c04ProbeAtoms translates every directed atom once (as generated) and returns the atoms goose does not accept.
func c04ProbeAtoms(r *core.Run, bin string, directed []*declSet) map[string]bool {
	const perProbe = 200
	nb := (len(directed) + perProbe - 1) / perProbe
	all := make([][]*c04Job, nb)
	core.Parallel(nb, 16, func(b int) {
		dir := filepath.Join(r.Scratch, fmt.Sprintf("c04probe%02d", b))
		if err := writeModule(dir); err != nil {
			return
		}
		var js []*c04Job
		for i := b * perProbe; i < len(directed) && i < (b+1)*perProbe; i++ {
			ds := directed[i]
			j := &c04Job{set: ds, rel: ds.ID + "_probe", lay: layout{Files: []layoutFile{{Name: "m_f0.go", Units: seq(len(ds.Units))}}}}
			writePkg(dir, j.rel, ds.render(j.lay))
			js = append(js, j)
		}
		for name, files := range c04HelperPkgs {
			writePkg(dir, name, files)
		}
		res := runGoose(bin, dir, filepath.Join(dir, "out"), 5*time.Minute, nil, nil, "./...")
		r.Count("goose_invocations", 1)
		if isCrash(res) || res.TimedOut {
			for _, j := range js {
				one := runGoose(bin, dir, filepath.Join(dir, "out"), time.Minute, nil, nil, "./"+j.rel)
				r.Count("goose_invocations", 1)
				if isCrash(one) || one.TimedOut {
					j.status = "crashed"
					continue
				}
				c04Attribute(one.Stderr, []*c04Job{j})
			}
		} else {
			c04Attribute(res.Stderr, js)
		}
		all[b] = js
	})
	out := map[string]bool{}
	for _, js := range all {
		for _, j := range js {
			if j.status != "" {
				out[j.set.Atoms[0]] = true
			}
		}
	}
	return out
}
