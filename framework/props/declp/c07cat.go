package declp

import (
	"fmt"
	"go/ast"
	"go/parser"
	"go/token"
	"os"
	"path/filepath"
	"sort"
	"strings"

	"verif/core"
	"verif/gen"
)

// c07cat.go: the catalogue of out-of-subset (and borderline) constructs, each
// type-correct Go, and the packages built from it: every construct at the
// first / middle / last statement position of a function of a generated good
// host package and as its own top-level declaration; then mixtures of k
// broken declarations among the good ones.
//
// All identifiers a construct introduces start with zq so they cannot clash
// with the host's (S0, f0, p0, v0, case_…, useMachine).

type construct struct {
	Name    string
	Stmt    string   // closed statement list insertable anywhere in a function body ("" = declaration-only)
	Decl    string   // own top-level declaration ("" = wrap Stmt in func zqBroken())
	Broken  string   // name (as declName reports it) of the declaration Decl declares
	Support []string // further top-level declarations the construct needs (may be rejected themselves)
	Imports []string // import specs; "@/x" is a sibling package of the input
	Sibling map[string]string
	NoHost  bool // the construct redefines names the host uses: put it in a package of its own
}

const (
	supT   = "type zqT struct {\n\ta uint64\n}"
	supTm  = "func (t zqT) zqm() uint64 {\n\treturn t.a\n}"
	supSl  = "type zqSl []uint64"
	supMp  = "type zqMp map[uint64]uint64"
	supVar = "func zqVar(xs ...uint64) uint64 {\n\treturn uint64(len(xs))\n}"
	supId  = "func zqId(x uint64) uint64 {\n\treturn x\n}"
)

var c07Catalogue = []construct{
	{Name: "switch", Stmt: "var zqx uint64 = 1\nswitch zqx {\ncase 1:\n\tzqx = 2\ndefault:\n\tzqx = 3\n}\n_ = zqx"},
	{Name: "switch-with-init", Stmt: "switch zqx := uint64(1); zqx {\ncase 1:\n}"},
	{Name: "switch-fallthrough", Stmt: "var zqx uint64 = 1\nswitch zqx {\ncase 1:\n\tfallthrough\ncase 2:\n\tzqx = 3\n}\n_ = zqx"},
	{Name: "type-switch", Stmt: "var zqi interface{} = uint64(1)\nswitch zqi.(type) {\ncase uint64:\n}"},
	{Name: "select", Stmt: "zqc := make(chan uint64)\nselect {\ncase <-zqc:\ndefault:\n}"},
	{Name: "defer", Stmt: "defer func() {\n}()"},
	{Name: "goto-label", Stmt: "goto zqL\nzqL:"},
	{Name: "labelled-continue", Stmt: "zqL2:\n\tfor zqi := uint64(0); zqi < 2; zqi++ {\n\t\tfor {\n\t\t\tcontinue zqL2\n\t\t}\n\t}"},
	{Name: "labelled-break", Stmt: "zqL3:\n\tfor {\n\t\tfor {\n\t\t\tbreak zqL3\n\t\t}\n\t}"},
	{Name: "channel-send-recv", Stmt: "zqch := make(chan uint64, 1)\nzqch <- 1\n_ = <-zqch"},
	{Name: "array-variable", Stmt: "var zqa [3]uint64\nzqa[0] = 1\n_ = zqa[0]"},
	{Name: "array-literal", Stmt: "zqb := [2]uint64{1, 2}\n_ = zqb"},
	{Name: "len-of-array", Stmt: "var zqa [3]uint64\n_ = len(zqa)"},
	{Name: "cap-of-array", Stmt: "var zqa [3]uint64\n_ = cap(zqa)"},
	{Name: "len-of-string", Stmt: "zqs := \"abc\"\n_ = len(zqs)"},
	{Name: "len-of-map", Stmt: "zqm := make(map[uint64]uint64)\n_ = len(zqm)"},
	{Name: "len-of-chan", Stmt: "zqc := make(chan uint64)\n_ = len(zqc)"},
	{Name: "slice-of-array", Stmt: "var zqa [3]uint64\n_ = zqa[1:]"},
	{Name: "slice-of-string", Stmt: "zqs := \"abc\"\n_ = zqs[1:]"},
	{Name: "slice-of-named-slice-type", Stmt: "var zqv zqSl\n_ = zqv[1:]", Support: []string{supSl}},
	{Name: "string-indexing", Stmt: "zqs := \"abc\"\n_ = zqs[0]"},
	{Name: "copy-from-string", Stmt: "zqb := make([]byte, 3)\ncopy(zqb, \"abc\")"},
	{Name: "three-index-slice", Stmt: "zqs := make([]uint64, 4)\n_ = zqs[0:1:2]"},
	{Name: "variadic-declaration", Decl: supVar, Broken: "zqVar"},
	{Name: "variadic-call", Stmt: "_ = zqVar(1, 2)", Support: []string{supVar}},
	{Name: "variadic-call-spread", Stmt: "_ = zqVar([]uint64{1}...)", Support: []string{supVar}},
	{Name: "embedded-field-declaration", Decl: "type zqEmb struct {\n\tzqT\n}", Broken: "zqEmb", Support: []string{supT}},
	{Name: "embedded-field-use", Stmt: "zqe := zqEmb{}\n_ = zqe.a", Support: []string{supT, "type zqEmb struct {\n\tzqT\n}"}},
	{Name: "anonymous-struct-literal", Stmt: "zqs := struct{ a uint64 }{a: 1}\n_ = zqs.a"},
	{Name: "anonymous-struct-variable", Stmt: "var zqs struct{ a uint64 }\n_ = zqs"},
	{Name: "anonymous-struct-func-field-call", Stmt: "zqs := struct{ f func() }{f: func() {}}\nzqs.f()"},
	{Name: "empty-literal-of-named-slice-type", Stmt: "zqv := zqSl{}\n_ = zqv", Support: []string{supSl}},
	{Name: "empty-literal-of-named-map-type", Stmt: "zqv := zqMp{}\n_ = zqv", Support: []string{supMp}},
	{Name: "map-literal", Stmt: "zqm := map[uint64]uint64{1: 2}\n_ = zqm"},
	{Name: "multi-element-slice-literal", Stmt: "zqs := []uint64{1, 2}\n_ = zqs"},
	{Name: "unkeyed-struct-literal", Stmt: "_ = zqT{1}", Support: []string{supT}},
	{Name: "int-define", Stmt: "zqx := 5\n_ = zqx"},
	{Name: "float64", Stmt: "var zqf float64 = 1.5\n_ = zqf"},
	{Name: "float64-from-int-literal", Stmt: "var zqf float64 = 1\n_ = zqf"},
	{Name: "complex", Stmt: "zqc := complex(1, 2)\n_ = zqc"},
	{Name: "rune-literal", Stmt: "zqr := 'a'\n_ = zqr"},
	{Name: "int32", Stmt: "var zqi int32 = 3\n_ = zqi"},
	{Name: "negative-constant-declaration", Decl: "const zqNeg = -1", Broken: "zqNeg"},
	{Name: "negative-literal", Stmt: "var zqn int64 = -5\n_ = zqn"},
	{Name: "unary-minus", Stmt: "var zqa uint64 = 1\n_ = -zqa"},
	{Name: "bit-clear-operator", Stmt: "var zqa uint64 = 7\n_ = zqa &^ 1"},
	{Name: "string-of-rune", Stmt: "_ = string(rune(65))"},
	{Name: "method-expression", Stmt: "zqf := zqT.zqm\n_ = zqf(zqT{a: 1})", Support: []string{supT, supTm}},
	{Name: "function-typed-field", Decl: "type zqFn struct {\n\tf func(uint64) uint64\n}", Broken: "zqFn"},
	{Name: "multi-name-field", Decl: "type zqMf struct {\n\ta, b uint64\n}", Broken: "zqMf"},
	{Name: "closure-capturing-loop-variable", Stmt: "for zqi := uint64(0); zqi < 2; zqi++ {\n\tzqf := func() uint64 {\n\t\treturn zqi\n\t}\n\t_ = zqf()\n}"},
	{Name: "immediately-called-function-literal", Stmt: "func() {\n}()"},
	{Name: "go-with-arguments", Stmt: "go zqG(1)", Support: []string{"func zqG(x uint64) {\n}"}},
	{Name: "go-named-function", Stmt: "go zqG0()", Support: []string{"func zqG0() {\n}"}},
	{Name: "go-closure-with-arguments", Stmt: "go func(x uint64) {\n}(1)"},
	{Name: "mutex-by-value", Stmt: "var zqmu sync.Mutex\nzqmu.Lock()\nzqmu.Unlock()", Imports: []string{`"sync"`}},
	{Name: "renamed-import", Stmt: "var zqmu *zqsync.Mutex\n_ = zqmu", Imports: []string{`zqsync "sync"`}},
	{Name: "struct-comparison", Stmt: "_ = zqT{a: 1} == zqT{a: 2}", Support: []string{supT}},
	{Name: "unsafe-pointer-arithmetic", Stmt: "var zqu uint64 = 1\nzqp := unsafe.Pointer(&zqu)\n_ = uintptr(zqp) + 1", Imports: []string{`"unsafe"`}},
	{Name: "range-over-int", Stmt: "for zqi := range 3 {\n\t_ = zqi\n}"},
	{Name: "range-over-string", Stmt: "for zqi, zqc := range \"ab\" {\n\t_ = zqi\n\t_ = zqc\n}"},
	{Name: "range-over-array", Stmt: "var zqa [2]uint64\nfor zqi := range zqa {\n\t_ = zqi\n}"},
	{Name: "range-with-non-identifier-key", Stmt: "for zqKs[0] = range []uint64{7} {\n}", Support: []string{"var zqKs []int"}},
	{Name: "range-without-key", Stmt: "zqs := make([]uint64, 1)\nfor range zqs {\n}"},
	{Name: "range-over-map-without-key", Stmt: "zqm := make(map[uint64]uint64)\nfor range zqm {\n}"},
	{Name: "builtin-min", Stmt: "_ = min(uint64(1), uint64(2))"},
	{Name: "builtin-max", Stmt: "_ = max(uint64(1), uint64(2))"},
	{Name: "builtin-clear", Stmt: "zqm := make(map[uint64]uint64)\nclear(zqm)"},
	{Name: "generic-type", Decl: "type zqBox[T any] struct {\n\tv T\n}", Broken: "zqBox"},
	{Name: "generic-method", Decl: "func (b zqBox[T]) get() T {\n\treturn b.v\n}", Broken: "?", Support: []string{"type zqBox[T any] struct {\n\tv T\n}"}},
	{Name: "generic-explicit-instantiation", Stmt: "_ = zqGen[uint64](1)", Support: []string{"func zqGen[T any](x T) T {\n\treturn x\n}"}},
	{Name: "type-parameter-method-call", Decl: "func zqTP[T interface{ M() uint64 }](x T) uint64 {\n\treturn x.M()\n}", Broken: "zqTP"},
	{Name: "unnamed-interface-method-call", Decl: "func zqUI(x interface{ M() uint64 }) uint64 {\n\treturn x.M()\n}", Broken: "zqUI"},
	{Name: "call-through-double-index", Stmt: "zqfs := make([][]func(uint64) uint64, 1)\nzqfs[0] = make([]func(uint64) uint64, 1)\nzqfs[0][0] = zqId\n_ = zqfs[0][0](1)", Support: []string{supId}},
	{Name: "call-through-index", Stmt: "zqfs := make([]func(uint64) uint64, 1)\nzqfs[0] = zqId\n_ = zqfs[0](1)", Support: []string{supId}},
	{Name: "parenthesised-callee", Stmt: "_ = (zqId)(1)", Support: []string{supId}},
	{Name: "mutual-recursion", Decl: "func zqEven(n uint64) bool {\n\tif n == 0 {\n\t\treturn true\n\t}\n\treturn zqOdd(n - 1)\n}", Broken: "zqEven", Support: []string{"func zqOdd(n uint64) bool {\n\tif n == 0 {\n\t\treturn false\n\t}\n\treturn zqEven(n - 1)\n}"}},
	{Name: "three-cycle-recursion", Decl: "func zqA3(n uint64) uint64 {\n\tif n == 0 {\n\t\treturn 0\n\t}\n\treturn zqB3(n - 1)\n}", Broken: "zqA3", Support: []string{"func zqB3(n uint64) uint64 {\n\tif n == 0 {\n\t\treturn 1\n\t}\n\treturn zqC3(n - 1)\n}", "func zqC3(n uint64) uint64 {\n\tif n == 0 {\n\t\treturn 2\n\t}\n\treturn zqA3(n - 1)\n}"}},
	{Name: "mutually-referring-structs", Decl: "type zqNodeA struct {\n\tnext *zqNodeB\n\tkids []zqNodeB\n}", Broken: "zqNodeA", Support: []string{"type zqNodeB struct {\n\tback *zqNodeA\n\tm    map[uint64]zqNodeA\n}"}},
	{Name: "method-and-function-cycle", Decl: "func (t *zqT) zqwalk(n uint64) uint64 {\n\tif n == 0 {\n\t\treturn t.a\n\t}\n\treturn zqWalkT(t, n-1)\n}", Broken: "zqT.zqwalk", Support: []string{supT, "func zqWalkT(t *zqT, n uint64) uint64 {\n\treturn t.zqwalk(n)\n}"}},
	{Name: "early-return-else-if", Decl: "func zqERE() {\n\tvar zqx uint64 = 1\n\tif zqx > 5 {\n\t\treturn\n\t} else if zqx == 1 {\n\t\tzqx = 7\n\t}\n\tzqx += 2\n\t_ = zqx\n}", Broken: "zqERE"},
	{Name: "early-return-else-if-else", Decl: "func zqEREE() {\n\tvar zqx uint64 = 1\n\tif zqx > 5 {\n\t\treturn\n\t} else if zqx == 1 {\n\t\tzqx = 7\n\t} else {\n\t\tzqx = 8\n\t}\n\tzqx += 2\n\t_ = zqx\n}", Broken: "zqEREE"},
	{Name: "loop-break-else-if", Stmt: "var zqx uint64 = 1\nfor {\n\tif zqx > 3 {\n\t\tbreak\n\t} else if zqx == 1 {\n\t\tzqx = 7\n\t}\n\tzqx += 2\n}"},
	{Name: "iota-constant-block", Decl: "const (\n\tzqA = iota\n\tzqB\n)", Broken: "zqA"},
	{Name: "grouped-var-block", Decl: "var (\n\tzqV1 uint64 = 1\n\tzqV2 uint64 = 2\n)", Broken: "zqV1"},
	{Name: "grouped-type-declaration", Decl: "type (\n\tzqG1 uint64\n\tzqG2 uint64\n)", Broken: "zqG1"},
	{Name: "global-without-value", Decl: "var zqNV uint64", Broken: "zqNV"},
	{Name: "init-function", Decl: "func init() {\n}", Broken: "init"},
	{Name: "blank-function", Decl: "func _() {\n}", Broken: "_"},
	{Name: "method-on-named-non-struct-type", Decl: "func (s zqSl) zqlen() uint64 {\n\treturn uint64(len(s))\n}", Broken: "zqSl.zqlen", Support: []string{supSl}},
	{Name: "interface-embedding", Decl: "type zqI2 interface {\n\tzqI1\n\tB() uint64\n}", Broken: "zqI2", Support: []string{"type zqI1 interface {\n\tA() uint64\n}"}},
	{Name: "error-interface-method-call", Decl: "func zqErr(err error) string {\n\treturn err.Error()\n}", Broken: "zqErr"},
	{Name: "error-global-method-call", Stmt: "_ = zqFail.Error()", Support: []string{"var zqFail error"}},
	{Name: "unnamed-interface-global-method-call", Stmt: "_ = zqShape.M()", Support: []string{"var zqShape interface {\n\tM() uint64\n}"}},
	{Name: "anonymous-struct-global-field-call", Stmt: "zqCfg.f()", Support: []string{"var zqCfg struct {\n\tf func()\n}"}},
	{Name: "generic-type-method-call", Decl: "func zqUseBox(b *zqGBox[uint64]) uint64 {\n\treturn b.get()\n}", Broken: "zqUseBox", Support: []string{"type zqGBox[T any] struct {\n\tv T\n}", "func (b *zqGBox[T]) get() T {\n\treturn b.v\n}"}},
	{Name: "error-typed-result", Decl: "func zqErr2() error {\n\treturn nil\n}", Broken: "zqErr2"},
	{Name: "type-assertion-comma-ok", Stmt: "var zqi interface{} = uint64(1)\nzqv, zqok := zqi.(uint64)\n_ = zqv\n_ = zqok"},
	{Name: "type-assertion", Stmt: "var zqi interface{} = uint64(1)\n_ = zqi.(uint64)"},
	{Name: "swap-assignment", Stmt: "var zqa uint64 = 1\nvar zqb uint64 = 2\nzqa, zqb = zqb, zqa"},
	{Name: "op-assign-mul", Stmt: "var zqa uint64 = 6\nzqa *= 2"},
	{Name: "op-assign-quo", Stmt: "var zqa uint64 = 6\nzqa /= 2"},
	{Name: "op-assign-rem", Stmt: "var zqa uint64 = 6\nzqa %= 4"},
	{Name: "op-assign-shl", Stmt: "var zqa uint64 = 6\nzqa <<= 1"},
	{Name: "op-assign-shr", Stmt: "var zqa uint64 = 6\nzqa >>= 1"},
	{Name: "op-assign-andnot", Stmt: "var zqa uint64 = 6\nzqa &^= 2"},
	{Name: "increment-field", Stmt: "zqt := &zqT{a: 1}\nzqt.a++", Support: []string{supT}},
	{Name: "increment-slice-element", Stmt: "zqs := make([]uint64, 1)\nzqs[0]++"},
	{Name: "increment-map-element", Stmt: "zqm := make(map[uint64]uint64)\nzqm[1]++"},
	{Name: "increment-through-pointer", Stmt: "zqp := new(uint64)\n(*zqp)++"},
	{Name: "if-with-init", Stmt: "if zqx := uint64(1); zqx > 0 {\n}"},
	{Name: "for-with-two-variables", Stmt: "for zqi, zqj := uint64(0), uint64(1); zqi < zqj; zqi++ {\n}"},
	{Name: "named-result", Decl: "func zqNamed() (r uint64) {\n\tr = 1\n\treturn\n}", Broken: "zqNamed"},
	{Name: "five-results-destructured", Stmt: "zqa, zqb, zqc, zqd, zqe := zq5()\n_ = zqa\n_ = zqb\n_ = zqc\n_ = zqd\n_ = zqe", Support: []string{"func zq5() (uint64, uint64, uint64, uint64, uint64) {\n\treturn 1, 2, 3, 4, 5\n}"}},
	{Name: "named-pointer-type-dereference", Stmt: "var zqp zqP = new(uint64)\n_ = *zqp", Support: []string{"type zqP *uint64"}},
	{Name: "nil-map-value", Stmt: "var zqm map[uint64]uint64 = nil\n_ = zqm"},
	{Name: "address-of-slice-literal", Stmt: "_ = &[]uint64{1}"},
	{Name: "method-value-on-named-non-struct-type", Stmt: "var zqv zqSl\nzqf := zqv.zqlen\n_ = zqf()", Support: []string{supSl, "func (s zqSl) zqlen() uint64 {\n\treturn uint64(len(s))\n}"}},
	{Name: "two-ffi-packages", Stmt: "_ = disk.Size()\n_ = async_disk.BlockSize", Imports: []string{`"github.com/goose-lang/goose/machine/disk"`, `"github.com/goose-lang/goose/machine/async_disk"`}},
	{Name: "user-package-named-disk", Stmt: "_ = disk.Foo(1)", Imports: []string{`"@/disk"`}, Sibling: map[string]string{"disk": "package disk\n\nfunc Foo(x uint64) uint64 {\n\treturn x\n}\n"}},
	{Name: "user-package-named-machine", Stmt: "_ = machine.Foo(1)", Imports: []string{`"@/machine"`}, Sibling: map[string]string{"machine": "package machine\n\nfunc Foo(x uint64) uint64 {\n\treturn x\n}\n"}, NoHost: true},
	{Name: "user-package-named-sync", Stmt: "_ = sync.Foo(1)", Imports: []string{`"@/sync"`}, Sibling: map[string]string{"sync": "package sync\n\nfunc Foo(x uint64) uint64 {\n\treturn x\n}\n"}},
	{Name: "user-package-named-log", Stmt: "log.Printf(1)", Imports: []string{`"@/log"`}, Sibling: map[string]string{"log": "package log\n\nfunc Printf(x uint64) {\n}\n"}},
	{Name: "user-package-named-fmt", Stmt: "fmt.Println(1)", Imports: []string{`"@/fmt"`}, Sibling: map[string]string{"fmt": "package fmt\n\nfunc Println(x uint64) {\n}\n"}},
	{Name: "user-package-named-filesys", Stmt: "_ = filesys.Foo(1)", Imports: []string{`"@/filesys"`}, Sibling: map[string]string{"filesys": "package filesys\n\nfunc Foo(x uint64) uint64 {\n\treturn x\n}\n"}},
	{Name: "shadowed-builtin-len", NoHost: true, Decl: "func len(x bool) bool {\n\treturn x\n}", Broken: "len", Support: []string{"func zqUse() bool {\n\treturn len(true)\n}"}},
	{Name: "shadowed-builtin-make", NoHost: true, Decl: "func make(x bool) bool {\n\treturn x\n}", Broken: "make", Support: []string{"func zqUse() bool {\n\treturn make(true)\n}"}},
	{Name: "shadowed-builtin-new", NoHost: true, Decl: "func new(x bool) bool {\n\treturn x\n}", Broken: "new", Support: []string{"func zqUse() bool {\n\treturn new(true)\n}"}},
	{Name: "shadowed-builtin-panic", NoHost: true, Decl: "func panic(x bool) bool {\n\treturn x\n}", Broken: "panic", Support: []string{"func zqUse() bool {\n\treturn panic(true)\n}"}},
	{Name: "shadowed-builtin-uint64", NoHost: true, Decl: "func uint64(x bool) bool {\n\treturn x\n}", Broken: "uint64", Support: []string{"func zqUse() bool {\n\treturn uint64(true)\n}"}},
	{Name: "shadowed-builtin-append-local", Decl: "func zqShadowAppend() bool {\n\tappend := func(x bool) bool {\n\t\treturn x\n\t}\n\treturn append(true)\n}", Broken: "zqShadowAppend"},
	// empty declaration groups (a GenDecl without specs)
	{Name: "empty-type-group", Decl: "type ()", Broken: "?"},
	{Name: "empty-var-group", Decl: "var ()", Broken: "?"},
	{Name: "empty-const-group", Decl: "const ()", Broken: "?"},
	{Name: "empty-type-group-then-unsupported", Decl: "type ()", Broken: "?", Support: []string{"func zqAfterEmpty(x uint64) uint64 {\n\tswitch x {\n\tcase 1:\n\t\treturn 2\n\t}\n\treturn x\n}"}},
	// every remaining statement / expression node kind of go/ast (one construct per kind)
	{Name: "empty-statement", Stmt: "var zqx uint64 = 1\n;\n_ = zqx"},
	{Name: "empty-statement-in-loop-body", Stmt: "var zqx uint64 = 0\nfor zqx < 1 {\n\t;\n\tzqx = zqx + 1\n}"},
	{Name: "empty-statement-only-loop-body", Stmt: "zqd := new(bool)\n*zqd = true\nfor !*zqd {\n\t;\n}"},
	{Name: "empty-statement-in-if", Stmt: "var zqx uint64 = 1\nif zqx == 1 {\n\t;\n}"},
	{Name: "labelled-empty-statement", Stmt: "goto zqL4\nzqL4:\n\t;"},
	{Name: "bare-block", Stmt: "var zqx uint64 = 1\n{\n\tzqy := zqx + 1\n\t_ = zqy\n}"},
	{Name: "empty-bare-block", Stmt: "{\n}"},
	{Name: "local-const-declaration", Stmt: "const zqc uint64 = 3\n_ = zqc"},
	{Name: "local-type-declaration", Stmt: "type zqLocal struct {\n\ta uint64\n}\n_ = zqLocal{a: 1}"},
	{Name: "local-multi-name-var", Stmt: "var zqa, zqb uint64\n_ = zqa\n_ = zqb"},
	{Name: "local-multi-name-var-with-values", Stmt: "var zqa, zqb uint64 = 1, 2\n_ = zqa\n_ = zqb"},
	{Name: "local-var-group", Stmt: "var (\n\tzqa uint64\n\tzqb bool\n)\n_ = zqa\n_ = zqb"},
	{Name: "local-var-from-call-pair", Stmt: "var zqa, zqb = zqPair()\n_ = zqa\n_ = zqb", Support: []string{"func zqPair() (uint64, bool) {\n\treturn 1, true\n}"}},
	{Name: "unary-plus", Stmt: "var zqa uint64 = 1\n_ = +zqa"},
	{Name: "imaginary-literal", Stmt: "zqc := 2i\n_ = zqc"},
	{Name: "raw-string-literal", Stmt: "zqs := `a\"b`\n_ = zqs"},
	{Name: "hex-octal-binary-literals", Stmt: "var zqa uint64 = 0x10 + 0o7 + 0b11 + 1_000\n_ = zqa"},
	{Name: "char-escape-literal", Stmt: "var zqb byte = '\\n'\n_ = zqb"},
	{Name: "generic-two-parameter-instantiation", Stmt: "_ = zqGen2[uint64, bool](1, true)", Support: []string{"func zqGen2[T any, U any](x T, y U) T {\n\treturn x\n}"}},
	{Name: "directional-channel-types", Decl: "func zqChans(in <-chan uint64, out chan<- uint64) {\n}", Broken: "zqChans"},
	{Name: "receive-from-nil-channel-in-expression", Stmt: "var zqc chan uint64\nif false {\n\t_ = <-zqc + 1\n}"},
	{Name: "range-over-channel", Stmt: "zqc := make(chan uint64)\nclose(zqc)\nfor zqv := range zqc {\n\t_ = zqv\n}"},
	{Name: "for-with-empty-clauses", Stmt: "var zqx uint64 = 0\nfor ; ; {\n\tzqx++\n\tif zqx > 1 {\n\t\tbreak\n\t}\n}"},
	{Name: "for-with-only-post", Stmt: "var zqx uint64 = 0\nfor ; ; zqx++ {\n\tif zqx > 1 {\n\t\tbreak\n\t}\n}"},
	{Name: "for-with-only-init", Stmt: "for zqi := uint64(0); ; {\n\tif zqi == 0 {\n\t\tbreak\n\t}\n}"},
	{Name: "func-type-conversion", Stmt: "zqf := zqFT(zqId)\n_ = zqf(1)", Support: []string{supId, "type zqFT func(uint64) uint64"}},
	{Name: "func-typed-variable-nil-compare", Stmt: "var zqf func(uint64) uint64\nif zqf == nil {\n\tzqf = zqId\n}\n_ = zqf(1)", Support: []string{supId}},
	{Name: "interface-type-literal-variable", Stmt: "var zqi interface {\n\tM() uint64\n}\n_ = zqi"},
	{Name: "map-of-func-values", Stmt: "zqm := make(map[uint64]func() uint64)\n_ = zqm"},
	{Name: "struct-literal-of-pointer-elements", Stmt: "zqs := []*zqT{{a: 1}}\n_ = zqs", Support: []string{supT}},
	{Name: "nested-composite-literal-elided-types", Stmt: "zqs := [][]uint64{{1}, {2, 3}}\n_ = zqs"},
	{Name: "address-of-composite-in-call", Stmt: "_ = zqTakesT(&zqT{a: 1})", Support: []string{supT, "func zqTakesT(t *zqT) uint64 {\n\treturn t.a\n}"}},
	{Name: "return-of-multi-value-call", Decl: "func zqFwd() (uint64, bool) {\n\treturn zqPair()\n}", Broken: "zqFwd", Support: []string{"func zqPair() (uint64, bool) {\n\treturn 1, true\n}"}},
	{Name: "call-with-multi-value-argument", Stmt: "zqTake2(zqPair())", Support: []string{"func zqPair() (uint64, bool) {\n\treturn 1, true\n}", "func zqTake2(a uint64, b bool) {\n}"}},
	{Name: "blank-parameter", Decl: "func zqBlankParam(_ uint64, b uint64) uint64 {\n\treturn b\n}", Broken: "zqBlankParam"},
	{Name: "unnamed-parameters", Decl: "func zqUnnamed(uint64, bool) uint64 {\n\treturn 1\n}", Broken: "zqUnnamed"},
	{Name: "blank-receiver", Decl: "func (_ *zqT) zqblank() uint64 {\n\treturn 1\n}", Broken: "zqT.zqblank", Support: []string{supT}},
	{Name: "unnamed-receiver", Decl: "func (*zqT) zqanon() uint64 {\n\treturn 1\n}", Broken: "zqT.zqanon", Support: []string{supT}},
	{Name: "expression-statement-of-builtin", Stmt: "zqs := make([]uint64, 1)\ncopy(zqs, zqs)\nprintln(len(zqs))"},
	{Name: "recover-call", Stmt: "_ = recover()"},
	{Name: "string-concatenation-assign", Stmt: "zqs := \"a\"\nzqs += \"b\"\n_ = zqs"},
	{Name: "bool-op-assign", Stmt: "var zqa uint64 = 6\nzqa &= 3\nzqa |= 8\nzqa ^= 1\n_ = zqa"},
	{Name: "pointer-to-pointer", Stmt: "zqp := new(*uint64)\n*zqp = new(uint64)\n**zqp = 3\n_ = **zqp"},
	{Name: "struct-value-method-on-literal", Stmt: "_ = zqT{a: 2}.zqm()", Support: []string{supT, supTm}},
	{Name: "selector-on-call-result", Stmt: "_ = zqMk().a", Support: []string{supT, "func zqMk() *zqT {\n\treturn &zqT{a: 1}\n}"}},
	{Name: "index-on-call-result", Stmt: "_ = zqMkS()[0]", Support: []string{"func zqMkS() []uint64 {\n\treturn make([]uint64, 1)\n}"}},
	{Name: "slice-full-form-of-call-result", Stmt: "_ = zqMkS()[0:1]", Support: []string{"func zqMkS() []uint64 {\n\treturn make([]uint64, 1)\n}"}},
	// two different declarations that are given the SAME Coq name (whatever goose does with them, it must not crash)
	{Name: "function-named-like-a-mangled-method", Decl: "func zqT__zqm() uint64 {\n\treturn 1\n}", Broken: "zqT__zqm", Support: []string{supT, supTm}},
	{Name: "two-methods-with-one-mangled-name", Decl: "func (a zqA__b) c() uint64 {\n\treturn 1\n}", Broken: "zqA__b.c", Support: []string{"type zqA struct {\n\ta uint64\n}", "type zqA__b struct {\n\ta uint64\n}", "func (a zqA) b__c() uint64 {\n\treturn 2\n}"}},
	{Name: "type-named-like-a-mangled-method", Decl: "type zqC__D struct {\n\ta uint64\n}", Broken: "zqC__D", Support: []string{"type zqC struct {\n\ta uint64\n}", "func (c zqC) D() uint64 {\n\treturn c.a\n}"}},
	{Name: "function-named-like-a-typecheck-theorem", Decl: "func zqF_t() uint64 {\n\treturn 1\n}", Broken: "zqF_t", Support: []string{"func zqF() uint64 {\n\treturn 2\n}"}},
	{Name: "second-blank-function", Decl: "func _() uint64 {\n\treturn 1\n}", Broken: "_", Support: []string{"func _() {\n}"}},
	{Name: "second-blank-variable", Decl: "var _ = uint64(4)", Broken: "_", Support: []string{"var _ uint64 = 3"}},
	{Name: "conversion-to-named-func-result", Stmt: "_ = uint64(zqMk().a) + 1", Support: []string{supT, "func zqMk() *zqT {\n\treturn &zqT{a: 1}\n}"}},
}

// hostPkg is a generated good package cut into declarations.
type hostPkg struct {
	Name    string
	Imports []string            // import specs
	Decls   []string            // declaration texts
	Names   []string            // declName of each
	Good    map[string][]string // declName -> documented definition names
}

func makeHost(rng *core.Rng, name string) (*hostPkg, error) {
	opt := gen.DefaultOptions()
	opt.NumFuncs = 3
	opt.NumCases = 1
	opt.MaxStmts = 4
	gp := gen.RandomPackage(rng, name, opt)
	p, err := readPackage(map[string]string{name + ".go": gp.Source})
	if err != nil {
		return nil, err
	}
	h := &hostPkg{Name: name, Good: map[string][]string{}}
	for _, is := range p.Imports {
		h.Imports = append(h.Imports, is.Text)
	}
	for _, d := range p.Decls {
		h.Decls = append(h.Decls, d.Text)
		dn := declName(d.node)
		h.Names = append(h.Names, dn)
		for _, u := range d.Units {
			if p.Units[u].Name != "" {
				h.Good[dn] = append(h.Good[dn], p.Units[u].Name)
			}
		}
	}
	return h, nil
}

// insertStmt puts stmt text at a statement boundary of a function declaration text (pos: first|middle|last).
func insertStmt(declText, stmt, pos string) (string, error) {
	const hdr = "package p\n\n"
	fset := token.NewFileSet()
	f, err := parser.ParseFile(fset, "h.go", hdr+declText, 0)
	if err != nil {
		return "", err
	}
	fd, ok := f.Decls[0].(*ast.FuncDecl)
	if !ok || fd.Body == nil {
		return "", fmt.Errorf("not a function")
	}
	tf := fset.File(f.Pos())
	n := len(fd.Body.List)
	var at int
	switch {
	case n == 0:
		at = tf.Offset(fd.Body.Rbrace)
	case pos == "first":
		at = tf.Offset(fd.Body.List[0].Pos())
	case pos == "middle":
		at = tf.Offset(fd.Body.List[n/2].Pos())
	default:
		at = tf.Offset(fd.Body.List[n-1].Pos())
	}
	at -= len(hdr)
	ind := "\t" + strings.ReplaceAll(stmt, "\n", "\n\t")
	return declText[:at] + strings.TrimPrefix(ind, "\t") + "\n\t" + declText[at:], nil
}

func renameZq(s string, k int) string {
	if k < 0 {
		return s
	}
	return strings.ReplaceAll(s, "zq", fmt.Sprintf("zq%d", k))
}

// buildFile assembles one source file.
func buildFile(pkg string, imports []string, decls []string) string {
	var b strings.Builder
	fmt.Fprintf(&b, "package %s\n", pkg)
	seen := map[string]bool{}
	var imps []string
	for _, i := range imports {
		if !seen[i] {
			seen[i] = true
			imps = append(imps, i)
		}
	}
	if len(imps) > 0 {
		b.WriteString("\nimport (\n")
		for _, i := range imps {
			b.WriteString("\t" + i + "\n")
		}
		b.WriteString(")\n")
	}
	for _, d := range decls {
		b.WriteString("\n" + d + "\n")
	}
	return b.String()
}

// catalogueInput builds the package for (construct, position).
// positions: stmt-first | stmt-middle | stmt-last (inside host function f0) | toplevel-first | toplevel-middle | toplevel-last.
func catalogueInput(cn construct, pos string, h *hostPkg, rel string) (*c07Input, error) {
	in := &c07Input{ID: "cat/" + cn.Name + "@" + pos, Workload: "catalogue", Desc: cn.Name + " × " + pos, Rel: rel, Pattern: "./" + rel, Files: map[string]string{}}
	var imports []string
	for _, i := range cn.Imports {
		imports = append(imports, strings.ReplaceAll(i, "@/", modPath+"/"+rel+"/"))
	}
	if len(cn.Sibling) > 0 {
		in.Extra = map[string]map[string]string{}
		for d, src := range cn.Sibling {
			in.Extra[filepath.Join(rel, d)] = map[string]string{d + ".go": src}
		}
	}
	var decls []string
	pkgName := "zqonly"
	if !cn.NoHost && h != nil {
		pkgName = h.Name
		imports = append(append([]string{}, h.Imports...), imports...)
		decls = append(decls, h.Decls...)
		for _, g := range h.Good {
			in.Good = append(in.Good, g...)
		}
	}
	broken := cn.Decl
	brokenName := cn.Broken
	if broken == "" {
		broken = "func zqBroken() {\n\t" + strings.ReplaceAll(cn.Stmt, "\n", "\n\t") + "\n}"
		brokenName = "zqBroken"
	}
	if strings.HasPrefix(pos, "stmt-") {
		if cn.Stmt == "" || cn.NoHost || h == nil {
			return nil, nil
		}
		idx := -1
		for i, n := range h.Names {
			if n == "f0" {
				idx = i
			}
		}
		if idx < 0 {
			return nil, fmt.Errorf("host has no f0")
		}
		t, err := insertStmt(decls[idx], cn.Stmt, strings.TrimPrefix(pos, "stmt-"))
		if err != nil {
			return nil, err
		}
		decls[idx] = t
		in.Broken = []string{"f0"}
		in.Good = nil
		for dn, g := range h.Good {
			if dn != "f0" {
				in.Good = append(in.Good, g...)
			}
		}
		decls = append(decls, cn.Support...)
	} else {
		at := 0
		switch pos {
		case "toplevel-middle":
			at = len(decls) / 2
		case "toplevel-last":
			at = len(decls)
		}
		nd := append([]string{}, decls[:at]...)
		nd = append(nd, broken)
		nd = append(nd, decls[at:]...)
		decls = append(nd, cn.Support...)
		in.Broken = []string{brokenName}
	}
	for _, s := range cn.Support {
		in.MayBreak = append(in.MayBreak, supportName(s))
	}
	sort.Strings(in.Good)
	in.Files[pkgName+".go"] = buildFile(pkgName, imports, decls)
	return in, nil
}

func supportName(decl string) string {
	fset := token.NewFileSet()
	f, err := parser.ParseFile(fset, "s.go", "package p\n\n"+decl, parser.SkipObjectResolution)
	if err != nil || len(f.Decls) == 0 {
		return "?"
	}
	return declName(f.Decls[0])
}

// runCatalogue runs every construct at every position; returns the constructs goose rejects
// with an error located inside the broken declaration when it stands alone at top level.
func (c *c07Ctx) runCatalogue() map[string]bool {
	r := c.r
	dir := filepath.Join(r.Scratch, "c07cat")
	if err := writeModule(dir); err != nil {
		return nil
	}
	rng := core.NewRng(r.Seed, "c07-catalogue")
	positions := []string{"stmt-first", "stmt-middle", "stmt-last", "toplevel-first", "toplevel-middle", "toplevel-last"}
	var ins []*c07Input
	var cons []construct
	nHosts := r.Pick(1, 3)
	for hi := 0; hi < nHosts; hi++ {
		for ci, cn := range c07Catalogue {
			for pi, pos := range positions {
				if hi > 0 && (cn.NoHost || !strings.HasPrefix(pos, "stmt-")) {
					continue
				}
				if cn.NoHost && pos != "toplevel-first" {
					continue
				}
				if r.Quick() && (pos == "toplevel-middle" || pos == "toplevel-last") && cn.Decl == "" {
					continue // a wrapped statement: one top-level position is enough in quick
				}
				name := fmt.Sprintf("h%dc%03dp%d", hi, ci, pi)
				h, err := makeHost(rng.Fork(name), name)
				if err != nil {
					r.Inconclusive("host-generation-failed")
					continue
				}
				in, err := catalogueInput(cn, pos, h, name)
				if err != nil {
					r.Inconclusive("catalogue-input-failed")
					fmt.Fprintln(os.Stderr, "C07 catalogue:", cn.Name, pos, err)
					continue
				}
				if in == nil {
					continue
				}
				writePkg(dir, in.Rel, in.Files)
				for rel, fs := range in.Extra {
					writePkg(dir, rel, fs)
				}
				ins = append(ins, in)
				cons = append(cons, cn)
			}
		}
	}
	settleModule(dir)
	rejecting := map[string]bool{}
	accepted := map[string]int{}
	type res struct {
		o       *c07Outcome
		located map[string]int
	}
	results := make([]res, len(ins))
	core.Parallel(len(ins), 16, func(i int) {
		in := ins[i]
		out := filepath.Join(dir, "out")
		o := c07Exec(c.bin, dir, out, nil, nil, in.Pattern)
		r.Count("goose_invocations", 1)
		loc := c.judge(in, o, filepath.Join(dir, in.Rel), vPath(out, in.Rel), false)
		results[i] = res{o, loc}
	})
	notLoading := map[string]bool{}
	for i, in := range ins {
		o, loc := results[i].o, results[i].located
		if o == nil || o.TimedOut {
			continue
		}
		cn := cons[i]
		pos := strings.SplitN(in.ID, "@", 2)[1]
		if o.LoadError {
			notLoading[cn.Name] = true
			if r.GetCount("diag_cat_load") < 8 {
				r.Count("diag_cat_load", 1)
				fmt.Fprintf(os.Stderr, "C07: catalogue input %s does not load (catalogue defect): %s\n", in.ID, clip(o.Stderr, 400))
			}
			continue
		}
		r.Distinct("construct " + cn.Name + " × " + pos)
		switch {
		case o.Crash:
			r.Count("catalogue/crashed", 1)
		case o.Exit == 0:
			r.Count("catalogue/accepted-without-error", 1)
			accepted[cn.Name]++
		default:
			hit := loc[in.Broken[0]] > 0
			for _, m := range in.MayBreak {
				if loc[m] > 0 {
					hit = true
				}
			}
			if hit {
				r.Count("catalogue/rejected-with-error-in-the-broken-declaration", 1)
				if pos == "toplevel-first" && loc[in.Broken[0]] > 0 && !cn.NoHost && len(cn.Sibling) == 0 {
					rejecting[cn.Name] = true
				}
			} else {
				r.Count("catalogue/errors-only-in-host-declarations", 1)
			}
		}
		if i%29 == 0 {
			r.Sample(12, map[string]interface{}{"input": in.ID, "files": in.Files, "exit": o.Exit, "crash_signature": o.CrashSig, "errors": o.Blocks, "located_in": o.Located})
		}
	}
	r.Set("catalogue_constructs", len(c07Catalogue))
	r.Set("catalogue_constructs_accepted_silently_somewhere", sortedKeys(accepted))
	r.Set("catalogue_constructs_not_loading", sortedKeys(notLoading))
	r.Set("catalogue_constructs_rejected_with_located_error", len(rejecting))
	return rejecting
}

// runMixtures: k ∈ 1..5 broken declarations among generated good ones; every broken declaration must
// get its own error, and under -ignore-errors every good declaration must be in the output.
func (c *c07Ctx) runMixtures(rejecting map[string]bool) {
	r := c.r
	var pool []construct
	for _, cn := range c07Catalogue {
		if rejecting[cn.Name] {
			pool = append(pool, cn)
		}
	}
	if len(pool) < 5 {
		r.Inconclusive("too-few-rejecting-constructs-for-mixtures")
		return
	}
	dir := filepath.Join(r.Scratch, "c07mix")
	if err := writeModule(dir); err != nil {
		return
	}
	rng := core.NewRng(r.Seed, "c07-mixtures")
	n := r.Pick(40, 400)
	type mix struct {
		in    *c07Input
		k     int
		cons  []string
		owner map[string]string
	}
	var mixes []*mix
	for i := 0; i < n; i++ {
		name := fmt.Sprintf("m%04d", i)
		mr := rng.Fork(name)
		h, err := makeHost(mr.Fork("host"), name)
		if err != nil {
			r.Inconclusive("host-generation-failed")
			continue
		}
		k := 1 + i%5
		decls := append([]string{}, h.Decls...)
		imports := append([]string{}, h.Imports...)
		m := &mix{k: k, in: &c07Input{ID: "mix/" + name, Workload: "mixture", Rel: name, Pattern: "./" + name, Files: map[string]string{}}}
		var support []string
		for j := 0; j < k; j++ {
			cn := pool[mr.Intn(len(pool))]
			broken, bname := cn.Decl, cn.Broken
			if broken == "" {
				broken = "func zqBroken() {\n\t" + strings.ReplaceAll(cn.Stmt, "\n", "\n\t") + "\n}"
				bname = "zqBroken"
			}
			broken, bname = renameZq(broken, j), renameZq(bname, j)
			at := mr.Intn(len(decls) + 1)
			nd := append([]string{}, decls[:at]...)
			nd = append(nd, broken)
			decls = append(nd, decls[at:]...)
			for _, s := range cn.Support {
				support = append(support, renameZq(s, j))
				m.in.MayBreak = append(m.in.MayBreak, supportName(renameZq(s, j)))
			}
			imports = append(imports, cn.Imports...)
			m.in.Broken = append(m.in.Broken, bname)
			m.cons = append(m.cons, cn.Name)
		}
		decls = append(decls, support...)
		owner := map[string]string{}
		for dn, g := range h.Good {
			m.in.Good = append(m.in.Good, g...)
			for _, x := range g {
				owner[x] = dn
			}
		}
		m.owner = owner
		sort.Strings(m.in.Good)
		m.in.Desc = fmt.Sprintf("k=%d broken declarations (%s) among %d good ones", k, strings.Join(m.cons, ", "), len(h.Decls))
		// split over two files half of the time
		if mr.Bool() && len(decls) > 3 {
			cut := 1 + mr.Intn(len(decls)-1)
			m.in.Files["a_"+name+".go"] = buildFile(name, importsUsed(imports, decls[:cut]), decls[:cut])
			m.in.Files["b_"+name+".go"] = buildFile(name, importsUsed(imports, decls[cut:]), decls[cut:])
		} else {
			m.in.Files[name+".go"] = buildFile(name, imports, decls)
		}
		writePkg(dir, name, m.in.Files)
		mixes = append(mixes, m)
	}
	settleModule(dir)
	core.Parallel(len(mixes), 16, func(i int) {
		m := mixes[i]
		in := m.in
		pkgDir := filepath.Join(dir, in.Rel)
		out1 := filepath.Join(dir, "out_plain")
		o := c07Exec(c.bin, dir, out1, nil, nil, in.Pattern)
		r.Count("goose_invocations", 1)
		loc := c.judge(in, o, pkgDir, vPath(out1, in.Rel), false)
		if o.TimedOut || o.Crash {
			return
		}
		if o.LoadError {
			if r.GetCount("diag_mix_load") < 5 {
				r.Count("diag_mix_load", 1)
				fmt.Fprintf(os.Stderr, "C07: mixture %s does not load: %s\n", in.ID, clip(o.Stderr, 400))
			}
			return
		}
		r.Count("mixtures_judged", 1)
		r.Count(fmt.Sprintf("mixtures_by_k/%d", m.k), 1)
		det := func(extra map[string]interface{}) map[string]interface{} {
			d := map[string]interface{}{"input": in.ID, "description": in.Desc, "files": in.Files, "broken_declarations": in.Broken, "errors_located_in": o.Located, "stderr": clip(o.Stderr, 5000)}
			for k, v := range extra {
				d[k] = v
			}
			return d
		}
		missing := []string{}
		for _, b := range in.Broken {
			if loc[b] == 0 {
				missing = append(missing, b)
			}
		}
		if len(o.Blocks) < m.k {
			r.Violate("fewer-errors-than-broken-declarations", fmt.Sprintf("%s: %d broken declarations in %d different top-level declarations, but goose reported %d errors (declarations without an error: %v)", in.Desc, m.k, m.k, len(o.Blocks), missing), det(nil))
		} else if len(missing) > 0 {
			r.Violate("broken-declaration-without-its-own-error", fmt.Sprintf("%s: no error is located inside %v", in.Desc, missing), det(nil))
		} else {
			r.Count("mixtures_with_one_error_per_broken_declaration", 1)
		}
		// partial output
		out2 := filepath.Join(dir, "out_ignore")
		o2 := c07Exec(c.bin, dir, out2, nil, []string{"-ignore-errors"}, in.Pattern)
		r.Count("goose_invocations", 1)
		in2 := *in
		in2.ID += "[-ignore-errors]"
		c.judge(&in2, o2, pkgDir, "", true)
		if o2.Crash || o2.TimedOut || o2.LoadError {
			return
		}
		vb, err := os.ReadFile(vPath(out2, in.Rel))
		if err != nil {
			r.Violate("no-partial-output-under-ignore-errors", fmt.Sprintf("%s: goose -ignore-errors wrote no output file", in.Desc), det(nil))
			return
		}
		defined := map[string]bool{}
		if defs, perr := readV(string(vb)); perr == nil {
			for _, d := range defs {
				defined[d.Name] = true
			}
		} else {
			r.Count("partial_outputs_unreadable_by_the_coq_reader", 1)
			for _, l := range strings.Split(string(vb), "\n") {
				f := strings.Fields(l)
				if len(f) >= 2 && (f[0] == "Definition" || f[0] == "Notation") {
					defined[strings.TrimSuffix(f[1], ":")] = true
				}
			}
		}
		// good declarations: the host's, except those goose (wrongly or not) reported an error in — that is C01's subject
		var lost []string
		for _, g := range in.Good {
			if !defined[g] {
				lost = append(lost, g)
			}
		}
		var reallyLost []string
		for _, g := range lost {
			if loc[m.owner[g]] > 0 {
				r.Count("good_declarations_with_an_error_of_their_own_not_required", 1)
				continue
			}
			reallyLost = append(reallyLost, g)
		}
		r.Count("good_declarations_checked_under_ignore_errors", int64(len(in.Good)))
		if len(reallyLost) > 0 {
			r.Violate("good-declaration-missing-under-ignore-errors", fmt.Sprintf("%s: under -ignore-errors the output lacks the good declarations %v", in.Desc, reallyLost), det(map[string]interface{}{"emitted": string(vb)}))
		} else {
			r.Count("mixtures_with_all_good_declarations_in_partial_output", 1)
		}
		if i%37 == 0 {
			r.Sample(12, map[string]interface{}{"input": in.ID, "description": in.Desc, "files": in.Files, "errors": o.Blocks, "located_in": o.Located})
		}
	})
}

// importsUsed keeps the import specs whose package name occurs as "name." in the declarations.
func importsUsed(imports []string, decls []string) []string {
	txt := strings.Join(decls, "\n")
	var out []string
	for _, i := range imports {
		f := strings.Fields(i)
		name := ""
		if len(f) == 2 {
			name = f[0]
		} else {
			name = guessImportName(strings.Trim(f[0], "\""))
		}
		if strings.Contains(txt, name+".") {
			out = append(out, i)
		}
	}
	return out
}
