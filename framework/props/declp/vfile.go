package declp

import (
	"strings"

	"verif/gl"
)

// vfile.go: what the emitted .v file says, read with the Coq reader: the
// sequence of Definition/Notation names and, for each body, the unquoted
// (Gallina) identifiers that occur in it together with the construct they
// occur under.

// mention is one occurrence of an unquoted identifier in a definition body.
type mention struct {
	Name   string
	Head   string // nearest enclosing application head that is not a type constructor ("" at top)
	Outer  string // the head enclosing Head
	IsHead bool   // the identifier is itself in function position
	InType bool   // occurs inside a type expression (struct.t, slice.T, load/store annotation, ...)
	Where  string // struct-decl | ty-def | notation | load | store | "" (context that is not an application)
}

type vdef struct {
	Name       string
	Kind       string // val | expr | ty | struct | notation | other
	TypeParams []string
	Body       gl.Expr
	Show       string
	Mentions   []mention
	IsRec      bool
	Line       int
	Theorem    string // text of the typing theorem emitted right after the definition under -typecheck ("" if none)
}

var typeCtors = map[string]bool{
	"struct.t": true, "slice.T": true, "mapT": true, "arrayT": true, "refT": true, "struct.ptrT": true, "chanT": true,
}

var descriptorHeads = map[string]bool{
	"struct.mk": true, "struct.new": true, "struct.get": true, "struct.loadF": true, "struct.storeF": true,
	"struct.fieldRef": true, "struct.load": true, "struct.store": true, "struct.alloc": true,
}

type walkCtx struct {
	head, outer string
	inType      bool
	where       string
}

// readVComments returns the texts of the comments of an emitted file, in order.
func readVComments(src string) []string {
	_, cs, err := gl.Lex(src)
	if err != nil {
		return nil
	}
	var out []string
	for _, c := range cs {
		t := strings.TrimSpace(c.Text)
		t = strings.TrimSpace(strings.TrimSuffix(strings.TrimPrefix(t, "(*"), "*)"))
		out = append(out, t)
	}
	return out
}

func readV(src string) ([]vdef, error) {
	f, err := gl.ParseFile(src)
	if err != nil {
		return nil, err
	}
	var out []vdef
	for _, it := range f.Items {
		if it.Kind == "theorem" {
			// Theorem X_t [Γ] : [Γ] ⊢ X : <type>.  — belongs to the definition X just before it; the
			// identifiers of <type> are mentions made by what is emitted for the declaration of X
			if n := len(out); n > 0 && it.Name == out[n-1].Name+"_t" && out[n-1].Theorem == "" {
				d := &out[n-1]
				d.Theorem = strings.TrimSpace(src[it.Pos:it.End])
				d.Mentions = append(d.Mentions, theoremMentions(d.Theorem, d.Name)...)
			}
			continue
		}
		if it.Kind != "def" && it.Kind != "notation" {
			continue
		}
		d := vdef{Name: it.Name, Kind: it.DefKind, TypeParams: it.TypeParams, Body: it.Body, Line: it.Line}
		if it.Kind == "notation" {
			d.Kind = "notation"
		}
		d.Show = gl.Show(it.Body)
		ctx := walkCtx{}
		switch d.Kind {
		case "ty":
			ctx = walkCtx{inType: true, where: "ty-def"}
		case "notation":
			ctx = walkCtx{inType: true, where: "notation"}
		}
		if _, ok := gl.Strip(it.Body).(gl.Rec); ok {
			d.IsRec = true
		}
		tp := map[string]bool{}
		for _, t := range it.TypeParams {
			tp[t] = true
		}
		collect(it.Body, ctx, tp, &d.Mentions)
		out = append(out, d)
	}
	return out, nil
}

// theoremMentions returns the identifiers of the type of a typing theorem (everything after "⊢ X :").
func theoremMentions(text, defName string) []mention {
	toks, _, err := gl.Lex(text)
	if err != nil {
		return nil
	}
	start := -1
	for i, t := range toks {
		if t.Kind == gl.TSym && t.Text == "⊢" {
			start = i
			break
		}
	}
	if start < 0 || start+2 >= len(toks) || toks[start+1].Text != defName || toks[start+2].Text != ":" {
		return nil
	}
	var out []mention
	for _, t := range toks[start+3:] {
		if t.Kind == gl.TIdent {
			out = append(out, mention{Name: t.Text, InType: true, Where: "typecheck-theorem"})
		}
	}
	return out
}

func collect(e gl.Expr, c walkCtx, bound map[string]bool, out *[]mention) {
	switch e := e.(type) {
	case nil:
	case gl.Var, gl.Lit, gl.Num:
	case gl.Global:
		if bound[e.Name] {
			return
		}
		*out = append(*out, mention{Name: e.Name, Head: c.head, Outer: c.outer, InType: c.inType, Where: c.where})
	case gl.App:
		h := ""
		if g, ok := gl.Strip(e.Fn).(gl.Global); ok {
			h = g.Name
			if !bound[h] {
				*out = append(*out, mention{Name: h, Head: c.head, Outer: c.outer, IsHead: true, InType: c.inType, Where: c.where})
			}
		} else {
			collect(e.Fn, c, bound, out)
		}
		nc := c
		switch {
		case h == "":
		case typeCtors[h]:
			nc.inType = true
		case h == "struct.decl":
			nc = walkCtx{head: h, outer: c.head, inType: true, where: "struct-decl"}
		default:
			o := c.head
			if o == "" {
				o = c.outer
			}
			nc = walkCtx{head: h, outer: o, where: c.where}
		}
		for i, a := range e.Args {
			if i > 0 && descriptorHeads[h] {
				// only the first argument of struct.* is the descriptor; the rest are ordinary values
				collect(a, walkCtx{outer: h}, bound, out)
				continue
			}
			collect(a, nc, bound, out)
		}
	case gl.BinOp:
		if e.Op == "->" {
			c.inType = true
		}
		collect(e.L, c, bound, out)
		collect(e.R, c, bound, out)
	case gl.Not:
		collect(e.X, c, bound, out)
	case gl.Load:
		collect(e.Ty, walkCtx{head: c.head, outer: c.outer, inType: true, where: "load"}, bound, out)
		collect(e.X, c, bound, out)
	case gl.Store:
		collect(e.Ty, walkCtx{head: c.head, outer: c.outer, inType: true, where: "store"}, bound, out)
		collect(e.Dst, c, bound, out)
		collect(e.Val, c, bound, out)
	case gl.Let:
		collect(e.Val, c, bound, out)
		collect(e.Body, c, bound, out)
	case gl.Seq:
		collect(e.A, c, bound, out)
		collect(e.B, c, bound, out)
	case gl.If:
		collect(e.C, c, bound, out)
		collect(e.T, c, bound, out)
		collect(e.E, c, bound, out)
	case gl.Lam:
		collect(e.Body, c, bound, out)
	case gl.Rec:
		collect(e.Body, c, bound, out)
	case gl.For:
		collect(e.Cond, c, bound, out)
		collect(e.Post, c, bound, out)
		collect(e.Body, c, bound, out)
	case gl.Tuple:
		for _, x := range e.Elems {
			collect(x, c, bound, out)
		}
	case gl.Paren:
		collect(e.X, c, bound, out)
	case gl.FieldVals:
		for _, x := range e.Vals {
			collect(x, c, bound, out)
		}
	case gl.FieldTys:
		for _, x := range e.Tys {
			collect(x, c, bound, out)
		}
	case gl.Scoped:
		if e.Scope == "ht" {
			c.inType = true
		}
		collect(e.X, c, bound, out)
	case gl.GallinaFun:
		collect(e.Body, c, bound, out)
	}
}

var sliceOps = map[string]bool{
	"SliceGet": true, "SliceSet": true, "SliceAppend": true, "SliceAppendSlice": true, "SliceSkip": true,
	"SliceSubslice": true, "SliceRef": true, "SliceCopy": true, "ForSlice": true, "SliceSingleton": true, "SliceTake": true,
}

// refKind names the kind of reference a mention is, from the construct it
// occurs under in the emitted text and the kind of the thing mentioned.
// userName/userKind describe the mentioning definition; targetKind the Go
// kind of the mentioned declaration ("conversion" for S__to__I definitions);
// isPkgName tells whether a head is a definition of this package.
func refKind(m mention, userName, userKind, targetKind string, isPkgName func(string) bool) string {
	if strings.Contains(userName, "__to__") && userKind == "conversion" {
		switch {
		case strings.HasPrefix(targetKind, "method"):
			return "interface-conversion-method"
		case targetKind == "interface":
			return "interface-conversion-interface-descriptor"
		}
		return "interface-conversion-other"
	}
	if targetKind == "conversion" {
		return "interface-conversion"
	}
	isType := m.InType || targetKind == "struct" || targetKind == "interface" || targetKind == "named-type" || targetKind == "alias"
	switch m.Head {
	case "struct.mk":
		if !m.InType {
			return "struct-literal"
		}
	case "struct.new":
		if !m.InType {
			return "struct-literal-address"
		}
	case "struct.get":
		if !m.InType {
			if targetKind == "interface" {
				return "interface-method-call"
			}
			return "field-access-value"
		}
	case "struct.loadF":
		if !m.InType {
			return "field-access-pointer"
		}
	case "struct.storeF":
		if !m.InType {
			return "field-store"
		}
	case "struct.fieldRef":
		if !m.InType {
			return "field-address"
		}
	case "struct.load":
		if !m.InType {
			return "pointer-load"
		}
	case "struct.store":
		if !m.InType {
			return "pointer-store"
		}
	case "struct.alloc":
		if !m.InType {
			return "new"
		}
	}
	if isType {
		switch m.Where {
		case "typecheck-theorem":
			if userKind == "const" || userKind == "var" {
				return "constant-type(typecheck-theorem)"
			}
			return "signature-type(typecheck-theorem)"
		case "load":
			return "load-type"
		case "store":
			return "store-type"
		case "struct-decl":
			if userKind == "interface" {
				return "interface-method-signature-type"
			}
			return "struct-field-type"
		case "ty-def":
			return "named-type-underlying"
		case "notation":
			return "alias-target"
		}
		switch {
		case m.Head == "zero_val" && m.Outer == "ref":
			return "var-declaration-type"
		case m.Head == "zero_val" && m.Outer == "struct.alloc":
			return "new"
		case m.Head == "zero_val":
			return "zero-value-type"
		case m.Head == "ref_to":
			return "var-initialiser-type"
		case m.Head == "NewSlice" || m.Head == "NewSliceWithCap":
			return "make-slice-type"
		case m.Head == "NewMap":
			return "make-map-type"
		case sliceOps[m.Head]:
			return "slice-element-type"
		case m.Head != "" && isPkgName(m.Head):
			return "generic-instantiation"
		case m.Head != "" && strings.Contains(m.Head, "."):
			return "type-argument-of-" + m.Head
		}
		return "type-use"
	}
	switch {
	case m.IsHead && targetKind == "func":
		return "call"
	case m.IsHead && strings.HasPrefix(targetKind, "method"):
		return "method-call"
	case targetKind == "func":
		return "function-value"
	case strings.HasPrefix(targetKind, "method"):
		return "method-value"
	case targetKind == "const" || targetKind == "var":
		k := "constant"
		if targetKind == "var" {
			k = "global"
		}
		if userKind == "const" || userKind == "var" {
			return k + "-in-initialiser"
		}
		return k + "-in-expression"
	}
	return "mention-of-" + targetKind
}
