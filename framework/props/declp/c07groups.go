package declp

import (
	"fmt"
	"os"
	"path/filepath"
	"strings"
	"time"

	"verif/core"
)

// c07groups.go: parenthesised const / var / import declarations in which SOME specs are refused.
//
// The property: an error in one declaration does not stop the other declarations from being translated and
// the other errors from being reported. The specs of a group are declarations of their own (Go's grammar
// calls them ConstSpec / VarSpec / ImportSpec); the dimension is which specs of a group are refused: none,
// the first, a middle one, the last, two of them — for each kind of group. Expected: exactly one error per
// refused spec, located on that spec's line; with -ignore-errors every good spec is defined / required.

type grpSpec struct {
	text string // the line inside the parentheses
	bad  bool
	name string // what a good spec defines (Definition <name>) or requires ("" for none)
}

func (c *c07Ctx) runGroups() {
	r := c.r
	rng := core.NewRng(r.Seed, "c07-groups")
	bin, err := gooseBin(r)
	if err != nil {
		r.Inconclusive("groups-no-goose")
		return
	}
	modDir := filepath.Join(r.Scratch, "c07groups")
	if err := writeModule(modDir); err != nil {
		r.Inconclusive("groups-module")
		return
	}
	// a helper package for the import groups
	writePkg(modDir, "grp/helper", map[string]string{"h.go": "package helper\n\nfunc H() uint64 {\n\treturn 2\n}\n"})
	writePkg(modDir, "grp/helper2", map[string]string{"h.go": "package helper2\n\nfunc H() uint64 {\n\treturn 3\n}\n"})
	goodVar := func(i int) grpSpec {
		n := fmt.Sprintf("V%d", i)
		return grpSpec{text: fmt.Sprintf("%s uint64 = %d", n, 10+i), name: n}
	}
	badVars := []string{"%s float64 = 2", "%s int8 = 3", "%s = 1.5", "%s complex128 = 1", "%s = 'x'"}
	type group struct {
		kind  string
		specs []grpSpec
		use   string // body of func Use() uint64 over the good names
	}
	var groups []group
	patterns := [][]bool{{false, false, false}, {true, false, false}, {false, true, false}, {false, false, true}, {true, false, true}, {false, true, true, false}, {true, true}}
	for _, kw := range []string{"var", "const"} {
		for _, pat := range patterns {
			var g group
			g.kind = kw
			var uses []string
			for i, bad := range pat {
				if bad {
					n := fmt.Sprintf("B%d", i)
					g.specs = append(g.specs, grpSpec{text: fmt.Sprintf(badVars[rng.Intn(len(badVars))], n), bad: true})
				} else {
					s := goodVar(i)
					g.specs = append(g.specs, s)
					uses = append(uses, s.name)
				}
			}
			g.use = "uint64(0)"
			if len(uses) > 0 {
				g.use = strings.Join(uses, " + ")
			}
			groups = append(groups, g)
		}
	}
	// import groups: a refused import (renamed) next to good ones
	for _, pat := range [][]bool{{false, false}, {true, false}, {false, true}} {
		var g group
		g.kind = "import"
		paths := []string{modPath + "/grp/helper", modPath + "/grp/helper2"}
		var uses []string
		for i, bad := range pat {
			if bad {
				g.specs = append(g.specs, grpSpec{text: fmt.Sprintf("renamed%d %q", i, paths[i]), bad: true})
				uses = append(uses, fmt.Sprintf("renamed%d.H()", i))
			} else {
				base := filepath.Base(paths[i])
				g.specs = append(g.specs, grpSpec{text: fmt.Sprintf("%q", paths[i]), name: "require:" + strings.NewReplacer(".", "_", "-", "_", "/", ".").Replace(paths[i])})
				uses = append(uses, base+".H()")
			}
		}
		g.use = strings.Join(uses, " + ")
		groups = append(groups, g)
	}
	for gi, g := range groups {
		rel := fmt.Sprintf("grp/g%d", gi)
		var b strings.Builder
		fmt.Fprintf(&b, "package g%d\n\n", gi)
		specLine := map[int]int{}
		line := 3
		if g.kind != "import" {
			b.WriteString("func before() uint64 {\n\treturn 1\n}\n\n")
			line += 4
		}
		fmt.Fprintf(&b, "%s (\n", g.kind)
		for i, s := range g.specs {
			line++
			specLine[i] = line
			b.WriteString("\t" + s.text + "\n")
		}
		b.WriteString(")\n\n")
		fmt.Fprintf(&b, "func Use() uint64 {\n\treturn %s\n}\n\nfunc after() uint64 {\n\treturn 7\n}\n", g.use)
		if err := writePkg(modDir, rel, map[string]string{"g.go": b.String()}); err != nil {
			r.Inconclusive("groups-write")
			return
		}
		out := filepath.Join(modDir, "out", fmt.Sprintf("g%d", gi))
		res := runGoose(bin, modDir, out, 3*time.Minute, nil, []string{"-ignore-errors"}, "./"+rel)
		r.Eval(1)
		pat := ""
		nbad := 0
		for _, s := range g.specs {
			if s.bad {
				pat += "B"
				nbad++
			} else {
				pat += "g"
			}
		}
		r.Distinct("groups/" + g.kind + "/" + pat)
		detail := map[string]interface{}{"source": b.String(), "stderr": clip(res.Stderr, 2000), "exit": res.Code, "kind": g.kind, "pattern": pat}
		if res.TimedOut {
			r.Inconclusive("groups-watchdog")
			continue
		}
		if isCrash(res) {
			r.Violate("group-"+g.kind+"-crash", fmt.Sprintf("goose crashes on a %s group with pattern %s", g.kind, pat), detail)
			continue
		}
		reps, _ := parseStderr(res.Stderr)
		var blocks []errBlock
		for _, rp := range reps {
			blocks = append(blocks, rp.Blocks...)
		}
		// errors on the lines of the bad specs
		onSpec := map[int]int{}
		for _, bl := range blocks {
			for i, s := range g.specs {
				if s.bad && bl.Line == specLine[i] && filepath.Base(bl.SrcFile) == "g.go" {
					onSpec[i]++
				}
			}
		}
		for i, s := range g.specs {
			if s.bad && onSpec[i] == 0 {
				detail["missing_spec"] = s.text
				r.Violate("group-"+g.kind+"-refused-spec-not-reported", fmt.Sprintf("%s group %s: no error is located on the refused spec `%s` (line %d); %d error(s) reported in all", g.kind, pat, s.text, specLine[i], len(blocks)), detail)
				break
			}
		}
		r.Count("group_refused_specs_reported", int64(len(onSpec)))
		// good specs still translated
		vb, _ := os.ReadFile(vPath(out, rel))
		v := string(vb)
		for _, s := range g.specs {
			if s.bad || s.name == "" {
				continue
			}
			want := "Definition " + s.name + " "
			if strings.HasPrefix(s.name, "require:") {
				want = "Require " + strings.TrimPrefix(s.name, "require:") + "."
				if !strings.Contains(v, want) {
					want = strings.TrimPrefix(s.name, "require:") + "."
				}
			}
			r.Count("group_good_specs_checked", 1)
			if !strings.Contains(v, want) {
				detail["v"] = clip(v, 2000)
				r.Violate("group-"+g.kind+"-good-spec-dropped", fmt.Sprintf("%s group %s under -ignore-errors: the good spec `%s` is missing from the output although only other specs of the group are refused", g.kind, pat, s.text), detail)
				break
			}
		}
		if nbad == 0 && (res.Code != 0 || len(blocks) != 0) {
			r.Violate("group-"+g.kind+"-all-good-refused", fmt.Sprintf("%s group without refused specs: exit %d, %d errors", g.kind, res.Code, len(blocks)), detail)
		}
		for _, f := range []string{"Definition before", "Definition after"} {
			if g.kind != "import" || f == "Definition after" {
				if !strings.Contains(v, f) {
					r.Violate("group-"+g.kind+"-neighbour-declaration-dropped", fmt.Sprintf("%s group %s: `%s` is missing from the -ignore-errors output", g.kind, pat, f), detail)
				}
			}
		}
	}
	r.Set("groups_judged", len(groups))
}
