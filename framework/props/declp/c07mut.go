package declp

import (
	"fmt"
	"go/ast"
	"go/build"
	"go/parser"
	"go/token"
	"go/types"
	"os"
	"path/filepath"
	"sort"
	"strings"
	"sync"

	"verif/core"
)

// c07mut.go: type-preserving mutations of the shipped example packages.
// Sites are found on the type-checked AST (go/types); the mutation itself is
// a set of textual edits of the original sources, and every mutant is
// type-checked again (go/types, imports resolved from source once and cached)
// before goose sees it; mutants that do not type-check are dropped and counted.

var mutatedExamples = []string{"unittest", "semantics", "simpledb", "wal", "append_log", "logging2"}

type edit struct {
	file       string
	start, end int
	text       string
}

type mutation struct {
	op    string
	edits []edit
	tail  map[string]string // file -> declarations appended at the end
}

// cachingImporter resolves every import path once (through the source importer) and serves it to concurrent type checks.
type cachingImporter struct {
	mu    sync.Mutex
	src   types.ImporterFrom
	cache map[string]*types.Package
}

func (ci *cachingImporter) Import(path string) (*types.Package, error) {
	return ci.ImportFrom(path, "", 0)
}

func (ci *cachingImporter) ImportFrom(path, dir string, mode types.ImportMode) (*types.Package, error) {
	ci.mu.Lock()
	defer ci.mu.Unlock()
	if p, ok := ci.cache[path]; ok {
		return p, nil
	}
	p, err := ci.src.ImportFrom(path, dir, mode)
	if err != nil {
		return nil, err
	}
	ci.cache[path] = p
	return p, nil
}

type typedExample struct {
	name   string
	dir    string            // where the (import-rewritten) originals live
	srcs   map[string]string // base name -> source
	extra  map[string]map[string]string
	fset   *token.FileSet
	files  map[string]*ast.File
	info   *types.Info
	pkg    *types.Package
	sites  map[string][]mutation // operator -> candidate mutations
	nsites int
}

func typeCheck(fset *token.FileSet, files []*ast.File, imp types.Importer, info *types.Info) (*types.Package, []error) {
	var errs []error
	conf := types.Config{Importer: imp, Error: func(err error) { errs = append(errs, err) }}
	pkg, _ := conf.Check(modPath+"/x", fset, files, info)
	return pkg, errs
}

// loadExample copies one shipped example (imports of /repo/internal packages redirected to sibling copies) and type-checks it.
func loadExample(anDir, name string, imp types.Importer) (*typedExample, error) {
	files, err := readExampleFiles(filepath.Join(core.RepoDir, examplesDir, name))
	if err != nil || len(files) == 0 {
		return nil, fmt.Errorf("no files")
	}
	p0, err := readPackage(files)
	if err != nil {
		return nil, err
	}
	_, extra, why := rewriteImports(p0.Imports)
	if why != "" {
		return nil, fmt.Errorf("%s", why)
	}
	te := &typedExample{name: name, srcs: map[string]string{}, extra: extra, fset: token.NewFileSet(), files: map[string]*ast.File{}, sites: map[string][]mutation{}}
	for fn, src := range files {
		for _, is := range p0.Imports {
			if strings.HasPrefix(is.Path, gooseMod+"/internal/") {
				src = strings.ReplaceAll(src, `"`+is.Path+`"`, `"`+modPath+"/lib/"+pkgBase(is.Path)+`"`)
			}
		}
		te.srcs[fn] = src
	}
	te.dir = filepath.Join(anDir, "mutsrc_"+name)
	if err := writePkg(anDir, "mutsrc_"+name, te.srcs); err != nil {
		return nil, err
	}
	for rel, fs := range extra {
		writePkg(anDir, rel, fs)
	}
	var fl []*ast.File
	for _, fn := range sortedKeys(te.srcs) {
		f, err := parser.ParseFile(te.fset, filepath.Join(te.dir, fn), te.srcs[fn], parser.ParseComments)
		if err != nil {
			return nil, err
		}
		te.files[fn] = f
		fl = append(fl, f)
	}
	te.info = &types.Info{Defs: map[*ast.Ident]types.Object{}, Uses: map[*ast.Ident]types.Object{}, Types: map[ast.Expr]types.TypeAndValue{},
		Selections: map[*ast.SelectorExpr]*types.Selection{}, Instances: map[*ast.Ident]types.Instance{}}
	var errs []error
	te.pkg, errs = typeCheck(te.fset, fl, imp, te.info)
	if len(errs) > 0 {
		return nil, fmt.Errorf("original does not type-check: %v", errs[0])
	}
	te.findSites()
	return te, nil
}

func (te *typedExample) off(fn string, p token.Pos) int { return te.fset.Position(p).Offset }

func (te *typedExample) text(fn string, n ast.Node) string {
	return te.srcs[fn][te.off(fn, n.Pos()):te.off(fn, n.End())]
}

func (te *typedExample) add(op string, m mutation) {
	m.op = op
	te.sites[op] = append(te.sites[op], m)
	te.nsites++
}

const (
	tailArr  = ""
	tailSl   = "type zqSl []uint64"
	tailMp   = "type zqMp map[uint64]uint64"
	tailVar  = "func zqVar(xs ...uint64) uint64 {\n\treturn uint64(len(xs))\n}"
	tailBase = "type zqBase struct {\n\ta uint64\n}\n\ntype zqEmb struct {\n\tzqBase\n}"
)

var insertedConstructs = []struct{ op, stmt, tail string }{
	{"insert-array-variable", "var zqa [3]uint64\n_ = zqa", ""},
	{"insert-anonymous-struct", "zqs := struct{ a uint64 }{a: 1}\n_ = zqs", ""},
	{"insert-empty-named-slice-literal", "zqv := zqSl{}\n_ = zqv", tailSl},
	{"insert-empty-named-map-literal", "zqw := zqMp{}\n_ = zqw", tailMp},
	{"insert-variadic-call", "_ = zqVar(1, 2)", tailVar},
	{"insert-embedded-field-use", "zqe := zqEmb{}\n_ = zqe.a", tailBase},
}

// findSites enumerates the candidate mutations of every operator.
func (te *typedExample) findSites() {
	qual := func(p *types.Package) string {
		if p == te.pkg {
			return ""
		}
		return p.Name()
	}
	// uses of every function object (for add-unused-parameter)
	callsOf := map[types.Object][]struct {
		fn   string
		call *ast.CallExpr
	}{}
	otherUse := map[types.Object]bool{}
	for fn, f := range te.files {
		fn := fn
		inCallFun := map[*ast.Ident]*ast.CallExpr{}
		ast.Inspect(f, func(n ast.Node) bool {
			if c, ok := n.(*ast.CallExpr); ok {
				switch fu := c.Fun.(type) {
				case *ast.Ident:
					inCallFun[fu] = c
				case *ast.SelectorExpr:
					inCallFun[fu.Sel] = c
				}
			}
			return true
		})
		ast.Inspect(f, func(n ast.Node) bool {
			if id, ok := n.(*ast.Ident); ok {
				if o, ok := te.info.Uses[id].(*types.Func); ok && o.Pkg() == te.pkg {
					if c := inCallFun[id]; c != nil {
						callsOf[o] = append(callsOf[o], struct {
							fn   string
							call *ast.CallExpr
						}{fn, c})
					} else {
						otherUse[o] = true
					}
				}
			}
			return true
		})
	}
	valueMethods := map[string][]edit{} // receiver type -> edits turning its value receivers into pointer receivers
	for fn, f := range te.files {
		fn := fn
		for _, d := range f.Decls {
			fd, ok := d.(*ast.FuncDecl)
			if !ok || fd.Body == nil {
				continue
			}
			// value receiver -> pointer receiver (all value methods of the type together)
			if fd.Recv != nil && len(fd.Recv.List) == 1 {
				if id, ok := fd.Recv.List[0].Type.(*ast.Ident); ok {
					valueMethods[id.Name] = append(valueMethods[id.Name], edit{fn, te.off(fn, id.Pos()), te.off(fn, id.Pos()), "*"})
				}
			}
			// add an unused parameter and a matching argument at every call
			if o, ok := te.info.Defs[fd.Name].(*types.Func); ok && !otherUse[o] && fd.Name.Name != "init" && fd.Type.TypeParams == nil {
				sig := o.Type().(*types.Signature)
				if !sig.Variadic() {
					sep := ", "
					if fd.Type.Params.NumFields() == 0 {
						sep = ""
					}
					m := mutation{edits: []edit{{fn, te.off(fn, fd.Type.Params.Closing), te.off(fn, fd.Type.Params.Closing), sep + "zqUnused uint64"}}}
					okc := true
					for _, c := range callsOf[o] {
						s := ", "
						if len(c.call.Args) == 0 {
							s = ""
						}
						if c.call.Ellipsis.IsValid() {
							okc = false
						}
						m.edits = append(m.edits, edit{c.fn, te.off(c.fn, c.call.Rparen), te.off(c.fn, c.call.Rparen), s + "0"})
					}
					if okc && (fd.Recv == nil || len(callsOf[o]) > 0) {
						te.add("add-unused-parameter", m)
					}
				}
			}
			// named result
			if fd.Type.Results != nil && len(fd.Type.Results.List) == 1 && len(fd.Type.Results.List[0].Names) == 0 && !fd.Type.Results.Opening.IsValid() {
				rt := fd.Type.Results.List[0].Type
				te.add("name-the-result", mutation{edits: []edit{{fn, te.off(fn, rt.Pos()), te.off(fn, rt.End()), "(zqr " + te.text(fn, rt) + ")"}}})
			}
			// constructs inserted at the start of the body
			for _, ic := range insertedConstructs {
				at := te.off(fn, fd.Body.Lbrace) + 1
				m := mutation{edits: []edit{{fn, at, at, "\n" + ic.stmt + "\n"}}}
				if ic.tail != "" {
					m.tail = map[string]string{fn: ic.tail}
				}
				te.add(ic.op, m)
			}
			// expressions of the function, by type, for same-type replacement
			type texpr struct {
				e ast.Expr
				t types.Type
			}
			var pool []texpr
			ast.Inspect(fd.Body, func(n ast.Node) bool {
				if e, ok := n.(ast.Expr); ok {
					if tv, ok := te.info.Types[e]; ok && tv.IsValue() && tv.Type != nil {
						if b, ok := tv.Type.(*types.Basic); ok && b.Info()&types.IsUntyped != 0 {
							return true
						}
						if _, isFn := e.(*ast.FuncLit); !isFn && te.off(fn, e.End())-te.off(fn, e.Pos()) < 160 {
							pool = append(pool, texpr{e, tv.Type})
						}
					}
				}
				return true
			})
			replace := func(e ast.Expr) {
				tv, ok := te.info.Types[e]
				if !ok || !tv.IsValue() || tv.Type == nil {
					return
				}
				if b, ok := tv.Type.(*types.Basic); ok && b.Info()&types.IsUntyped != 0 {
					return
				}
				et := te.text(fn, e)
				n := 0
				for _, c := range pool {
					if c.e == e || !types.Identical(c.t, tv.Type) {
						continue
					}
					ct := te.text(fn, c.e)
					if ct == et {
						continue
					}
					te.add("replace-expression-by-same-type-expression", mutation{edits: []edit{{fn, te.off(fn, e.Pos()), te.off(fn, e.End()), "(" + ct + ")"}}})
					if n++; n >= 3 {
						break
					}
				}
			}
			ast.Inspect(fd.Body, func(n ast.Node) bool {
				switch n := n.(type) {
				case *ast.BlockStmt:
					te.stmtSites(fn, n.List)
				case *ast.CaseClause:
					te.stmtSites(fn, n.Body)
				case *ast.BinaryExpr:
					replace(n.X)
					replace(n.Y)
				case *ast.ReturnStmt:
					for _, e := range n.Results {
						replace(e)
					}
				case *ast.AssignStmt:
					for _, e := range n.Rhs {
						replace(e)
					}
				case *ast.KeyValueExpr:
					replace(n.Value)
				case *ast.IndexExpr:
					if tv, ok := te.info.Types[n.X]; ok && tv.IsValue() {
						replace(n.Index)
					}
				case *ast.CallExpr:
					if tv, ok := te.info.Types[n.Fun]; ok && tv.IsType() {
						break
					}
					if id, ok := n.Fun.(*ast.Ident); ok {
						if _, isBuiltin := te.info.Uses[id].(*types.Builtin); isBuiltin {
							// make([]T, n) -> []T{}
							if id.Name == "make" && len(n.Args) == 2 {
								if _, isSl := te.info.TypeOf(n.Args[0]).Underlying().(*types.Slice); isSl {
									te.add("make-slice-to-empty-literal", mutation{edits: []edit{{fn, te.off(fn, n.Pos()), te.off(fn, n.End()), te.text(fn, n.Args[0]) + "{}"}}})
								}
							}
							break
						}
						// explicit instantiation of an inferred generic call
						if inst, ok := te.info.Instances[id]; ok && inst.TypeArgs != nil && inst.TypeArgs.Len() > 0 {
							var ts []string
							for k := 0; k < inst.TypeArgs.Len(); k++ {
								ts = append(ts, types.TypeString(inst.TypeArgs.At(k), qual))
							}
							te.add("instantiate-generic-explicitly", mutation{edits: []edit{{fn, te.off(fn, id.End()), te.off(fn, id.End()), "[" + strings.Join(ts, ", ") + "]"}}})
						}
					}
					for _, a := range n.Args {
						replace(a)
					}
				case *ast.CompositeLit:
					if n.Type != nil && len(n.Elts) > 0 {
						if _, isStruct := te.info.TypeOf(n).Underlying().(*types.Struct); isStruct {
							te.add("struct-literal-to-empty-literal", mutation{edits: []edit{{fn, te.off(fn, n.Pos()), te.off(fn, n.End()), te.text(fn, n.Type) + "{}"}}})
						}
					}
				}
				return true
			})
		}
	}
	for _, es := range valueMethods {
		te.add("value-receivers-to-pointer-receivers", mutation{edits: es})
	}
}

// stmtSites: mutations that wrap or rewrite one statement of a statement list.
func (te *typedExample) stmtSites(fn string, list []ast.Stmt) {
	for _, s := range list {
		st, en := te.off(fn, s.Pos()), te.off(fn, s.End())
		txt := te.srcs[fn][st:en]
		switch s := s.(type) {
		case *ast.AssignStmt:
			if s.Tok == token.DEFINE && len(s.Lhs) == 1 && len(s.Rhs) == 1 {
				if id, ok := s.Lhs[0].(*ast.Ident); ok && id.Name != "_" {
					te.add("define-to-var", mutation{edits: []edit{{fn, st, en, "var " + id.Name + " = " + te.text(fn, s.Rhs[0])}}})
				}
				continue // wrapping a definition would hide the name
			}
		case *ast.DeclStmt:
			if gd, ok := s.Decl.(*ast.GenDecl); ok && gd.Tok == token.VAR && len(gd.Specs) == 1 {
				vs := gd.Specs[0].(*ast.ValueSpec)
				if len(vs.Names) == 1 && len(vs.Values) == 1 && vs.Type == nil {
					te.add("var-to-define", mutation{edits: []edit{{fn, st, en, vs.Names[0].Name + " := " + te.text(fn, vs.Values[0])}}})
				}
			}
			continue
		case *ast.LabeledStmt:
			continue
		case *ast.ExprStmt:
			if _, ok := s.X.(*ast.CallExpr); ok {
				te.add("introduce-defer", mutation{edits: []edit{{fn, st, st, "defer "}}})
			}
		}
		te.add("wrap-in-block", mutation{edits: []edit{{fn, st, en, "{\n" + txt + "\n}"}}})
		te.add("wrap-in-if-true", mutation{edits: []edit{{fn, st, en, "if true {\n" + txt + "\n}"}}})
		te.add("introduce-switch", mutation{edits: []edit{{fn, st, en, "switch {\ndefault:\n" + txt + "\n}"}}})
		te.add("introduce-labelled-loop", mutation{edits: []edit{{fn, st, en, "zqL:\n\tfor {\n" + txt + "\nbreak zqL\n}"}}})
	}
}

// apply produces the files of a mutant.
func (te *typedExample) apply(ms []mutation) (map[string]string, bool) {
	by := map[string][]edit{}
	tails := map[string][]string{}
	for _, m := range ms {
		for _, e := range m.edits {
			by[e.file] = append(by[e.file], e)
		}
		for f, t := range m.tail {
			dup := false
			for _, x := range tails[f] {
				if x == t {
					dup = true
				}
			}
			if !dup {
				tails[f] = append(tails[f], t)
			}
		}
	}
	out := map[string]string{}
	for fn, src := range te.srcs {
		es := by[fn]
		sort.Slice(es, func(i, j int) bool {
			if es[i].start != es[j].start {
				return es[i].start > es[j].start
			}
			return es[i].end > es[j].end
		})
		prev := len(src) + 1
		for _, e := range es {
			if e.end > prev {
				return nil, false // overlapping edits
			}
			src = src[:e.start] + e.text + src[e.end:]
			prev = e.start
		}
		for _, t := range tails[fn] {
			src += "\n" + t + "\n"
		}
		out[fn] = src
	}
	return out, true
}

func (c *c07Ctx) runMutants() {
	r := c.r
	anDir := filepath.Join(r.Scratch, "c07mutan")
	if err := writeModule(anDir); err != nil {
		return
	}
	build.Default.Dir = anDir
	imp := &cachingImporter{src: newSourceImporter(), cache: map[string]*types.Package{}}
	var exs []*typedExample
	for _, n := range mutatedExamples {
		te, err := loadExample(anDir, n, imp)
		if err != nil {
			r.Inconclusive("example-not-loadable-for-mutation")
			fmt.Fprintf(os.Stderr, "C07: example %s cannot be mutated: %v\n", n, err)
			continue
		}
		exs = append(exs, te)
		r.Count("mutation_sites_found", int64(te.nsites))
	}
	if len(exs) == 0 {
		return
	}
	want := r.Pick(200, 5000)
	rng := core.NewRng(r.Seed, "c07-mutants")
	type mutant struct {
		te    *typedExample
		ops   []string
		files map[string]string
		rel   string
		ok    bool
	}
	// generate 1.6x candidates, keep the first `want` that type-check
	var cands []*mutant
	for i := 0; i < want*8/5; i++ {
		te := exs[rng.Intn(len(exs))]
		ops := sortedKeys(te.sites)
		if len(ops) == 0 {
			continue
		}
		nm := 1
		if rng.Chance(25) {
			nm = 2
		}
		var ms []mutation
		var names []string
		for k := 0; k < nm; k++ {
			op := ops[rng.Intn(len(ops))]
			ss := te.sites[op]
			ms = append(ms, ss[rng.Intn(len(ss))])
			names = append(names, op)
		}
		files, ok := te.apply(ms)
		if !ok {
			continue
		}
		cands = append(cands, &mutant{te: te, ops: names, files: files})
	}
	r.Set("mutants_generated", len(cands))
	core.Parallel(len(cands), 16, func(i int) {
		m := cands[i]
		fset := token.NewFileSet()
		var fl []*ast.File
		for _, fn := range sortedKeys(m.files) {
			f, err := parser.ParseFile(fset, filepath.Join(m.te.dir, fn), m.files[fn], parser.SkipObjectResolution)
			if err != nil {
				r.Count("mutants_dropped/syntax", 1)
				return
			}
			fl = append(fl, f)
		}
		if _, errs := typeCheck(fset, fl, imp, nil); len(errs) > 0 {
			r.Count("mutants_dropped/type-error", 1)
			return
		}
		m.ok = true
	})
	var muts []*mutant
	for _, m := range cands {
		if m.ok && len(muts) < want {
			m.rel = fmt.Sprintf("mu%05d", len(muts))
			muts = append(muts, m)
		}
	}
	r.Set("mutants_type_correct", len(muts))
	const perMod = 400
	nb := (len(muts) + perMod - 1) / perMod
	modOf := func(i int) string { return filepath.Join(r.Scratch, fmt.Sprintf("c07mut%02d", i/perMod)) }
	for b := 0; b < nb; b++ {
		dir := modOf(b * perMod)
		writeModule(dir)
		for _, te := range exs {
			for rel, fs := range te.extra {
				writePkg(dir, rel, fs)
			}
		}
	}
	for i, m := range muts {
		writePkg(modOf(i), m.rel, m.files)
	}
	for b := 0; b < nb; b++ {
		settleModule(modOf(b * perMod))
	}
	byOp := map[string]int{}
	var mu sync.Mutex
	core.Parallel(len(muts), 16, func(i int) {
		m := muts[i]
		dir := modOf(i)
		in := &c07Input{ID: "mutant/" + m.te.name + "/" + m.rel, Workload: "mutant", Desc: m.te.name + ": " + strings.Join(m.ops, " + "), Rel: m.rel, Pattern: "./" + m.rel}
		out := filepath.Join(dir, "out")
		o := c07Exec(c.bin, dir, out, nil, nil, in.Pattern)
		r.Count("goose_invocations", 1)
		if o.Crash || len(o.Problems) > 0 {
			// keep only the changed files in the replay detail
			in.Files = map[string]string{}
			for fn, s := range m.files {
				if s != m.te.srcs[fn] {
					in.Files[fn] = s
				}
			}
		}
		c.judge(in, o, filepath.Join(dir, m.rel), vPath(out, m.rel), false)
		if o.LoadError {
			r.Count("mutants_goose_could_not_load", 1)
			if r.GetCount("diag_mut_load") < 3 {
				r.Count("diag_mut_load", 1)
				fmt.Fprintf(os.Stderr, "C07: mutant %s (%s) type-checks here but goose cannot load it: %s\n", in.ID, in.Desc, clip(o.Stderr, 400))
			}
			return
		}
		mu.Lock()
		for _, op := range m.ops {
			byOp[op]++
		}
		mu.Unlock()
		r.Distinct("mutant " + m.te.name + " × " + strings.Join(m.ops, "+") + " × " + fmt.Sprint(len(o.Blocks) > 0))
		r.Count("mutants_run", 1)
		if i%53 == 0 {
			ch := map[string]string{}
			for fn, s := range m.files {
				if s != m.te.srcs[fn] {
					ch[fn] = clip(firstDiff(m.te.srcs[fn], s), 600)
				}
			}
			r.Sample(12, map[string]interface{}{"input": in.ID, "mutation": in.Desc, "changed": ch, "exit": o.Exit, "crash_signature": o.CrashSig, "error_blocks": len(o.Blocks), "first_error": firstBlock(o)})
		}
	})
	r.Set("mutants_by_operator", byOp)
}

// firstDiff shows the neighbourhood of the first difference between two texts.
func firstDiff(a, b string) string {
	i := 0
	for i < len(a) && i < len(b) && a[i] == b[i] {
		i++
	}
	s := i - 80
	if s < 0 {
		s = 0
	}
	e := i + 300
	if e > len(b) {
		e = len(b)
	}
	return b[s:e]
}
