package declp

import (
	"bufio"
	"fmt"
	"math"
	"os"
	"path/filepath"
	"sort"
	"strconv"
	"strings"
	"sync"
	"time"

	"verif/core"
)

// c07scale.go: the SIZE of the input along each structural axis.
//
// "goose terminates with a complete output" is a statement about every input, also the large
// ones; a translator whose work doubles with every further else-if arm terminates on every test
// and on no real dispatch function. The dimension the other C07 workloads hold constant is how
// LARGE an input is along one structural axis (chain length, nesting depth, expression depth,
// number of statements / declarations / fields / parameters / files, literal and comment length).
//
// For every axis a type-correct package of the supported subset is generated at the sizes
// N, 2N, 4N, ...; goose is built with coverage counters (-cover -covermode=count) and the sum of
// the execution counts of its basic blocks is the number of logical steps of one run - a function
// of the input, not of the machine or its load. The verdict compares steps(2N) with steps(N):
// more than 16 times the steps for twice the size (worse than N^4) is not polynomial growth at
// sizes where every axis of the unchanged tree stays below 5 (at most quadratic). The sizes start
// so small that a 2^N translator still finishes in seconds, and an axis is taken to the next size
// only while its last ratio is unsuspicious. Wall-clock time is used for the watchdog only; a
// fired watchdog is inconclusive.
//
// At every size: exit status 0, the output file ends with the section footer, and every generated
// declaration is defined in it.

// scaleAxis generates the package of one structural axis at size n.
type scaleAxis struct {
	name string
	// gen returns the files of package sc and the names that must be defined in the output
	gen func(n int, v *scaleVariant) (map[string]string, []string)
	max int // largest meaningful size (0 = no limit)
}

// scaleVariant is the seed-determined part of the generated text (leaf statements, operators,
// constants, the shape of the compound axes): the verdict must not depend on it.
type scaleVariant struct {
	leaf   string // leaf statement of the nesting axes
	op     string // arithmetic operator of the expression axes
	cmp    string // comparison of the chain axes
	k      int    // constant offset
	word   string // filler of the literal / comment axes
	mixed  []int  // statement containers of the mixed nesting axis, cyclic
	emixed []int  // expression wrappers of the mixed expression axis, cyclic
}

func newScaleVariant(rng *core.Rng) *scaleVariant {
	v := &scaleVariant{}
	v.leaf = []string{"r = r + 1", "r = r + a", "r = a", "r = r * 2 + a"}[rng.Intn(4)]
	v.op = []string{"+", "*", "-", "|", "^", "&"}[rng.Intn(6)]
	v.cmp = []string{"==", "<", ">", "!=", "<=", ">="}[rng.Intn(6)]
	v.k = rng.Intn(90)
	v.word = []string{"lorem", "x", "(* *)", "\\\"", "if then else", "0123456789"}[rng.Intn(6)]
	for i := 0; i < 7; i++ {
		v.mixed = append(v.mixed, rng.Intn(len(scaleContainers)))
		v.emixed = append(v.emixed, rng.Intn(len(scaleExprWraps)))
	}
	return v
}

// ---------------------------------------------------------------- building blocks

func indentBy(s string, tabs int) string {
	p := strings.Repeat("\t", tabs)
	return p + strings.ReplaceAll(s, "\n", "\n"+p)
}

// scaleContainers wrap a statement list (no indentation) into one statement containing it.
var scaleContainers = []struct {
	name string
	wrap func(level int, inner string) string
}{
	{"if-then", func(l int, in string) string { return fmt.Sprintf("if a > %d {\n%s\n}", l, indentBy(in, 1)) }},
	{"if-else", func(l int, in string) string {
		return fmt.Sprintf("if a == %d {\n\tr = %d\n} else {\n%s\n}", l, l, indentBy(in, 1))
	}},
	{"for-clause", func(l int, in string) string {
		return fmt.Sprintf("for i%d := uint64(0); i%d < a; i%d++ {\n%s\n}", l, l, l, indentBy(in, 1))
	}},
	{"for-bare", func(l int, in string) string { return fmt.Sprintf("for {\n%s\n\tbreak\n}", indentBy(in, 1)) }},
	{"for-range", func(l int, in string) string {
		return fmt.Sprintf("for _, x%d := range s {\n\tr = r + x%d\n%s\n}", l, l, indentBy(in, 1))
	}},
	{"bare-block", func(l int, in string) string { return fmt.Sprintf("{\n%s\n}", indentBy(in, 1)) }},
	{"closure", func(l int, in string) string {
		return fmt.Sprintf("f%d := func() {\n%s\n}\nf%d()", l, indentBy(in, 1), l)
	}},
	{"go-closure", func(l int, in string) string { return fmt.Sprintf("go func() {\n%s\n}()", indentBy(in, 1)) }},
}

// scaleExprWraps wrap a uint64 expression into a larger uint64 expression.
var scaleExprWraps = []struct {
	name string
	wrap func(level int, inner string, v *scaleVariant) string
}{
	{"binop-left", func(l int, in string, v *scaleVariant) string { return fmt.Sprintf("%s %s a", in, v.op) }},
	{"binop-right", func(l int, in string, v *scaleVariant) string { return fmt.Sprintf("a %s (%s)", v.op, in) }},
	{"paren", func(l int, in string, v *scaleVariant) string { return "(" + in + ")" }},
	{"call", func(l int, in string, v *scaleVariant) string { return "id(" + in + ")" }},
	{"index", func(l int, in string, v *scaleVariant) string { return "s[" + in + "]" }},
	{"conversion", func(l int, in string, v *scaleVariant) string { return "uint64(uint32(" + in + "))" }},
	{"call-two-args", func(l int, in string, v *scaleVariant) string { return "add(" + in + ", a)" }},
}

const scaleExprSupport = "func id(x uint64) uint64 {\n\treturn x\n}\n\nfunc add(x uint64, y uint64) uint64 {\n\treturn x + y\n}\n"

func scaleFunc(body string) string {
	return "func F(a uint64, b bool, s []uint64) uint64 {\n\tvar r uint64 = 0\n" + indentBy(body, 1) + "\n\treturn r\n}\n"
}

func scalePkg(decls ...string) map[string]string {
	return map[string]string{"sc.go": "package sc\n\n" + strings.Join(decls, "\n")}
}

// nestAxis: one container applied n times around the leaf statement.
func nestAxis(ci int) scaleAxis {
	c := scaleContainers[ci]
	return scaleAxis{name: "nest-depth/" + c.name, gen: func(n int, v *scaleVariant) (map[string]string, []string) {
		body := v.leaf
		for l := n - 1; l >= 0; l-- {
			body = c.wrap(l, body)
		}
		return scalePkg(scaleFunc(body)), []string{"F"}
	}}
}

// seqAxis: n copies of one container side by side (a statement-count axis per container).
func seqAxis(ci int) scaleAxis {
	c := scaleContainers[ci]
	return scaleAxis{name: "statement-count/" + c.name, gen: func(n int, v *scaleVariant) (map[string]string, []string) {
		var parts []string
		for l := 0; l < n; l++ {
			parts = append(parts, c.wrap(l, v.leaf))
		}
		return scalePkg(scaleFunc(strings.Join(parts, "\n"))), []string{"F"}
	}}
}

func exprAxis(wi int) scaleAxis {
	w := scaleExprWraps[wi]
	return scaleAxis{name: "expression-depth/" + w.name, gen: func(n int, v *scaleVariant) (map[string]string, []string) {
		e := "a"
		for l := 0; l < n; l++ {
			e = w.wrap(l, e, v)
		}
		return scalePkg(scaleExprSupport, "func F(a uint64, s []uint64) uint64 {\n\treturn "+e+"\n}\n"), []string{"F", "id", "add"}
	}}
}

func simpleAxis(name string, gen func(n int, v *scaleVariant) (map[string]string, []string)) scaleAxis {
	return scaleAxis{name: name, gen: gen}
}

func numbered(n int, f func(i int) string) string {
	var b strings.Builder
	for i := 0; i < n; i++ {
		b.WriteString(f(i))
	}
	return b.String()
}

func scaleAxes() []scaleAxis {
	var axes []scaleAxis
	add := func(a scaleAxis) { axes = append(axes, a) }

	// ---- chains of conditionals
	add(simpleAxis("else-if-chain/returning-arms", func(n int, v *scaleVariant) (map[string]string, []string) {
		var b strings.Builder
		b.WriteString("func F(a uint64) uint64 {\n\t")
		for i := 0; i < n; i++ {
			fmt.Fprintf(&b, "if a %s %d {\n\t\treturn %d\n\t} else ", v.cmp, i+v.k, 100+i)
		}
		b.WriteString("{\n\t\treturn 7\n\t}\n}\n")
		return scalePkg(b.String()), []string{"F"}
	}))
	add(simpleAxis("else-if-chain/assigning-arms", func(n int, v *scaleVariant) (map[string]string, []string) {
		var b strings.Builder
		for i := 0; i < n; i++ {
			fmt.Fprintf(&b, "if a %s %d {\n\tr = %d\n} else ", v.cmp, i+v.k, 100+i)
		}
		b.WriteString("{\n\t" + v.leaf + "\n}")
		return scalePkg(scaleFunc(b.String())), []string{"F"}
	}))
	add(simpleAxis("else-if-chain/without-final-else", func(n int, v *scaleVariant) (map[string]string, []string) {
		var parts []string
		for i := 0; i < n; i++ {
			parts = append(parts, fmt.Sprintf("if a %s %d {\n\tr = %d\n}", v.cmp, i+v.k, 100+i))
		}
		return scalePkg(scaleFunc(strings.Join(parts, " else "))), []string{"F"}
	}))
	add(simpleAxis("else-if-chain/in-loop-with-break-and-continue", func(n int, v *scaleVariant) (map[string]string, []string) {
		var b strings.Builder
		b.WriteString("for {\n\t")
		for i := 0; i < n; i++ {
			what := "break"
			if i%2 == 1 {
				what = "continue"
			}
			fmt.Fprintf(&b, "if r %s %d {\n\t\t%s\n\t} else ", v.cmp, i+v.k, what)
		}
		b.WriteString("{\n\t\tr = r + 1\n\t\tcontinue\n\t}\n}")
		return scalePkg(scaleFunc(b.String())), []string{"F"}
	}))
	add(simpleAxis("early-return-sequence", func(n int, v *scaleVariant) (map[string]string, []string) {
		var b strings.Builder
		b.WriteString("func F(a uint64) uint64 {\n")
		for i := 0; i < n; i++ {
			fmt.Fprintf(&b, "\tif a %s %d {\n\t\treturn %d\n\t}\n", v.cmp, i+v.k, 100+i)
		}
		b.WriteString("\treturn 7\n}\n")
		return scalePkg(b.String()), []string{"F"}
	}))
	add(simpleAxis("loop-exit-sequence", func(n int, v *scaleVariant) (map[string]string, []string) {
		var b strings.Builder
		b.WriteString("for {\n")
		for i := 0; i < n; i++ {
			fmt.Fprintf(&b, "\tif r %s %d {\n\t\tbreak\n\t}\n", v.cmp, i+v.k)
		}
		b.WriteString("\tr = r + 1\n\tcontinue\n}")
		return scalePkg(scaleFunc(b.String())), []string{"F"}
	}))

	// ---- nesting depth and statement count, one axis per statement container
	for ci := range scaleContainers {
		add(nestAxis(ci))
	}
	for ci := range scaleContainers {
		add(seqAxis(ci))
	}
	add(simpleAxis("nest-depth/mixed-containers", func(n int, v *scaleVariant) (map[string]string, []string) {
		body := v.leaf
		for l := n - 1; l >= 0; l-- {
			body = scaleContainers[v.mixed[l%len(v.mixed)]].wrap(l, body)
		}
		return scalePkg(scaleFunc(body)), []string{"F"}
	}))
	add(simpleAxis("nest-depth/if-in-both-branches", func(n int, v *scaleVariant) (map[string]string, []string) {
		// a conditional whose two branches each hold a chain of depth n-1 would be a 2^n input; here
		// the then-branch holds a leaf and the else-branch the rest, and the other way round, alternating
		body := v.leaf
		for l := n - 1; l >= 0; l-- {
			if l%2 == 0 {
				body = fmt.Sprintf("if a %s %d {\n\tr = %d\n} else {\n%s\n}", v.cmp, l, l, indentBy(body, 1))
			} else {
				body = fmt.Sprintf("if a %s %d {\n%s\n} else {\n\tr = %d\n}", v.cmp, l, indentBy(body, 1), l)
			}
		}
		return scalePkg(scaleFunc(body)), []string{"F"}
	}))
	add(simpleAxis("nest-depth/value-returning-closures", func(n int, v *scaleVariant) (map[string]string, []string) {
		body := "return a"
		for l := n - 1; l >= 0; l-- {
			body = fmt.Sprintf("g%d := func() uint64 {\n%s\n}\nreturn g%d()", l, indentBy(body, 1), l)
		}
		return scalePkg("func F(a uint64) uint64 {\n" + indentBy(body, 1) + "\n}\n"), []string{"F"}
	}))

	// ---- statement count
	add(simpleAxis("statement-count/assignments", func(n int, v *scaleVariant) (map[string]string, []string) {
		return scalePkg(scaleFunc(strings.TrimSuffix(numbered(n, func(i int) string { return fmt.Sprintf("r = r %s %d\n", v.op, i+1) }), "\n"))), []string{"F"}
	}))
	add(simpleAxis("statement-count/short-variable-declarations", func(n int, v *scaleVariant) (map[string]string, []string) {
		body := "x0 := a\n" + numbered(n, func(i int) string { return fmt.Sprintf("x%d := x%d %s %d\n", i+1, i, v.op, i+1) }) + fmt.Sprintf("r = x%d", n)
		return scalePkg(scaleFunc(body)), []string{"F"}
	}))
	add(simpleAxis("statement-count/var-declarations", func(n int, v *scaleVariant) (map[string]string, []string) {
		body := numbered(n, func(i int) string { return fmt.Sprintf("var y%d uint64 = %d\n", i, i) }) + numbered(n, func(i int) string { return fmt.Sprintf("r = r + y%d\n", i) })
		return scalePkg(scaleFunc(strings.TrimSuffix(body, "\n"))), []string{"F"}
	}))
	add(simpleAxis("statement-count/calls", func(n int, v *scaleVariant) (map[string]string, []string) {
		body := numbered(n, func(i int) string { return fmt.Sprintf("note(%d)\n", i) })
		return scalePkg("func note(x uint64) {\n}\n", scaleFunc(strings.TrimSuffix(body, "\n"))), []string{"F", "note"}
	}))
	add(simpleAxis("statement-count/slice-and-map-stores", func(n int, v *scaleVariant) (map[string]string, []string) {
		body := "m := make(map[uint64]uint64)\n" + numbered(n, func(i int) string {
			if i%2 == 0 {
				return fmt.Sprintf("m[%d] = a\n", i)
			}
			return fmt.Sprintf("s[%d] = m[%d]\n", i, i-1)
		})
		return scalePkg(scaleFunc(strings.TrimSuffix(body, "\n"))), []string{"F"}
	}))

	// ---- expression depth
	for wi := range scaleExprWraps {
		add(exprAxis(wi))
	}
	add(simpleAxis("expression-depth/mixed-wrappers", func(n int, v *scaleVariant) (map[string]string, []string) {
		e := "a"
		for l := 0; l < n; l++ {
			e = scaleExprWraps[v.emixed[l%len(v.emixed)]].wrap(l, e, v)
		}
		return scalePkg(scaleExprSupport, "func F(a uint64, s []uint64) uint64 {\n\treturn "+e+"\n}\n"), []string{"F", "id", "add"}
	}))
	add(simpleAxis("expression-depth/logical-and-or", func(n int, v *scaleVariant) (map[string]string, []string) {
		e := "b"
		for l := 0; l < n; l++ {
			switch l % 3 {
			case 0:
				e = fmt.Sprintf("%s && a %s %d", e, v.cmp, l)
			case 1:
				e = fmt.Sprintf("(%s || a %s %d)", e, v.cmp, l)
			default:
				e = fmt.Sprintf("b && (%s)", e)
			}
		}
		return scalePkg("func F(a uint64, b bool) bool {\n\treturn " + e + "\n}\n"), []string{"F"}
	}))
	add(simpleAxis("expression-depth/negation", func(n int, v *scaleVariant) (map[string]string, []string) {
		return scalePkg("func F(b bool) bool {\n\treturn " + strings.Repeat("!(", n) + "b" + strings.Repeat(")", n) + "\n}\n"), []string{"F"}
	}))
	add(simpleAxis("expression-depth/string-concatenation", func(n int, v *scaleVariant) (map[string]string, []string) {
		e := "x"
		for l := 0; l < n; l++ {
			if l%2 == 0 {
				e = fmt.Sprintf("%s + \"%d\"", e, l)
			} else {
				e = fmt.Sprintf("x + (%s)", e)
			}
		}
		return scalePkg("func F(x string) string {\n\treturn " + e + "\n}\n"), []string{"F"}
	}))
	add(simpleAxis("expression-depth/constant-string-concatenation", func(n int, v *scaleVariant) (map[string]string, []string) {
		e := "\"s\""
		for l := 0; l < n; l++ {
			e = fmt.Sprintf("%s + \"%d\"", e, l)
		}
		return scalePkg("const C = " + e + "\n\nfunc F() string {\n\treturn C + " + e + "\n}\n"), []string{"F", "C"}
	}))
	add(simpleAxis("expression-depth/constant-arithmetic", func(n int, v *scaleVariant) (map[string]string, []string) {
		e := "1"
		for l := 0; l < n; l++ {
			e = fmt.Sprintf("(%s + %d)", e, l)
		}
		return scalePkg("const C uint64 = " + e + "\n\nfunc F() uint64 {\n\treturn C + " + e + "\n}\n"), []string{"F", "C"}
	}))
	add(simpleAxis("expression-depth/append", func(n int, v *scaleVariant) (map[string]string, []string) {
		e := "s"
		for l := 0; l < n; l++ {
			e = fmt.Sprintf("append(%s, %d)", e, l)
		}
		return scalePkg("func F(s []uint64) []uint64 {\n\treturn " + e + "\n}\n"), []string{"F"}
	}))
	add(simpleAxis("expression-depth/field-selection-through-pointers", func(n int, v *scaleVariant) (map[string]string, []string) {
		return scalePkg("type N struct {\n\tnext *N\n\tv    uint64\n}\n", "func F(p *N) uint64 {\n\treturn p"+strings.Repeat(".next", n)+".v\n}\n"), []string{"F", "N"}
	}))
	add(simpleAxis("expression-depth/method-call-chain", func(n int, v *scaleVariant) (map[string]string, []string) {
		return scalePkg("type N struct {\n\tnext *N\n\tv    uint64\n}\n", "func (p *N) Self() *N {\n\treturn p\n}\n", "func F(p *N) uint64 {\n\treturn p"+strings.Repeat(".Self()", n)+".v\n}\n"), []string{"F", "N", "N__Self"}
	}))
	add(simpleAxis("expression-depth/pointer-struct-literal", func(n int, v *scaleVariant) (map[string]string, []string) {
		e := "&N{v: 0}"
		for l := 1; l <= n; l++ {
			e = fmt.Sprintf("&N{next: %s, v: %d}", e, l)
		}
		return scalePkg("type N struct {\n\tnext *N\n\tv    uint64\n}\n", "func F() *N {\n\treturn "+e+"\n}\n"), []string{"F", "N"}
	}))
	add(simpleAxis("expression-depth/struct-literal-of-nested-struct-types", func(n int, v *scaleVariant) (map[string]string, []string) {
		types := "type T0 struct {\n\tv uint64\n}\n"
		names := []string{"F", "T0"}
		e := "T0{v: 0}"
		for l := 1; l <= n; l++ {
			types += fmt.Sprintf("\ntype T%d struct {\n\tin T%d\n\tv  uint64\n}\n", l, l-1)
			names = append(names, fmt.Sprintf("T%d", l))
			e = fmt.Sprintf("T%d{in: %s, v: %d}", l, e, l)
		}
		return scalePkg(types, fmt.Sprintf("func F() T%d {\n\treturn %s\n}\n", n, e)), names
	}))
	add(simpleAxis("expression-depth/dereference", func(n int, v *scaleVariant) (map[string]string, []string) {
		return scalePkg("func F(p " + strings.Repeat("*", n) + "uint64) uint64 {\n\treturn " + strings.Repeat("*", n) + "p\n}\n"), []string{"F"}
	}))

	// ---- type depth
	for _, t := range []struct{ name, open, close string }{
		{"slice", "[]", ""}, {"pointer", "*", ""}, {"map", "map[uint64]", ""}, {"function-parameter", "func(", ")"}, {"function-result", "func() ", ""},
	} {
		t := t
		add(simpleAxis("type-depth/"+t.name, func(n int, v *scaleVariant) (map[string]string, []string) {
			leaf := "uint64"
			if t.name == "function-parameter" {
				leaf = ""
			}
			ty := strings.Repeat(t.open, n) + leaf + strings.Repeat(t.close, n)
			return scalePkg("type H struct {\n\tx " + ty + "\n}\n\nfunc F(x " + ty + ") " + ty + " {\n\treturn x\n}\n"), []string{"F", "H"}
		}))
	}

	// ---- number of declarations and their parts
	add(simpleAxis("declaration-count/independent-functions", func(n int, v *scaleVariant) (map[string]string, []string) {
		names := []string{}
		src := numbered(n, func(i int) string {
			names = append(names, fmt.Sprintf("F%d", i))
			return fmt.Sprintf("func F%d(a uint64) uint64 {\n\treturn a %s %d\n}\n\n", i, v.op, i+1)
		})
		return scalePkg(src), names
	}))
	add(simpleAxis("declaration-count/call-chain-callee-first", func(n int, v *scaleVariant) (map[string]string, []string) {
		names := []string{"F0"}
		src := "func F0(a uint64) uint64 {\n\treturn a\n}\n\n" + numbered(n, func(i int) string {
			names = append(names, fmt.Sprintf("F%d", i+1))
			return fmt.Sprintf("func F%d(a uint64) uint64 {\n\treturn F%d(a) + %d\n}\n\n", i+1, i, i)
		})
		return scalePkg(src), names
	}))
	add(simpleAxis("declaration-count/call-chain-caller-first", func(n int, v *scaleVariant) (map[string]string, []string) {
		names := []string{}
		src := numbered(n, func(i int) string {
			names = append(names, fmt.Sprintf("F%d", i))
			return fmt.Sprintf("func F%d(a uint64) uint64 {\n\treturn F%d(a) + %d\n}\n\n", i, i+1, i)
		}) + fmt.Sprintf("func F%d(a uint64) uint64 {\n\treturn a\n}\n", n)
		return scalePkg(src), append(names, fmt.Sprintf("F%d", n))
	}))
	add(simpleAxis("declaration-count/one-function-calling-all", func(n int, v *scaleVariant) (map[string]string, []string) {
		names := []string{"F"}
		e := "a"
		src := numbered(n, func(i int) string {
			names = append(names, fmt.Sprintf("F%d", i))
			e += fmt.Sprintf(" + F%d(a)", i)
			return fmt.Sprintf("func F%d(a uint64) uint64 {\n\treturn a + %d\n}\n\n", i, i)
		})
		return scalePkg("func F(a uint64) uint64 {\n\treturn "+e+"\n}\n", src), names
	}))
	add(simpleAxis("declaration-count/struct-types-each-using-the-previous", func(n int, v *scaleVariant) (map[string]string, []string) {
		names := []string{"T0"}
		src := "type T0 struct {\n\tv uint64\n}\n\n" + numbered(n, func(i int) string {
			names = append(names, fmt.Sprintf("T%d", i+1))
			return fmt.Sprintf("type T%d struct {\n\tp *T%d\n\ts []T%d\n}\n\n", i+1, i, i)
		})
		return scalePkg(src), names
	}))
	add(simpleAxis("declaration-count/constants-and-globals", func(n int, v *scaleVariant) (map[string]string, []string) {
		names := []string{"F"}
		e := "a"
		src := numbered(n, func(i int) string {
			names = append(names, fmt.Sprintf("C%d", i))
			e += fmt.Sprintf(" + C%d", i)
			return fmt.Sprintf("const C%d uint64 = %d\n\n", i, i)
		})
		return scalePkg(src, "func F(a uint64) uint64 {\n\treturn "+e+"\n}\n"), names
	}))
	add(simpleAxis("declaration-count/constant-group", func(n int, v *scaleVariant) (map[string]string, []string) {
		names := []string{}
		src := "const (\n" + numbered(n, func(i int) string {
			names = append(names, fmt.Sprintf("G%d", i))
			return fmt.Sprintf("\tG%d uint64 = %d\n", i, i)
		}) + ")\n"
		return scalePkg(src), names
	}))
	add(simpleAxis("declaration-count/methods-of-one-type", func(n int, v *scaleVariant) (map[string]string, []string) {
		names := []string{"T"}
		src := "type T struct {\n\tv uint64\n}\n\n" + numbered(n, func(i int) string {
			names = append(names, fmt.Sprintf("T__M%d", i))
			return fmt.Sprintf("func (t *T) M%d() uint64 {\n\treturn t.v + %d\n}\n\n", i, i)
		})
		return scalePkg(src), names
	}))
	add(simpleAxis("declaration-count/files", func(n int, v *scaleVariant) (map[string]string, []string) {
		files := map[string]string{}
		names := []string{}
		for i := 0; i < n; i++ {
			files[fmt.Sprintf("f%04d.go", i)] = fmt.Sprintf("package sc\n\n// F%d lives in file %d.\nfunc F%d(a uint64) uint64 {\n\treturn a + %d\n}\n", i, i, i, i)
			names = append(names, fmt.Sprintf("F%d", i))
		}
		return files, names
	}))
	add(simpleAxis("part-count/struct-fields", func(n int, v *scaleVariant) (map[string]string, []string) {
		lit := ""
		sum := "t.f0"
		src := "type T struct {\n" + numbered(n, func(i int) string {
			lit += fmt.Sprintf("f%d: %d, ", i, i)
			if i > 0 {
				sum += fmt.Sprintf(" + t.f%d", i)
			}
			return fmt.Sprintf("\tf%d uint64\n", i)
		}) + "}\n"
		return scalePkg(src, "func Mk() *T {\n\treturn &T{"+strings.TrimSuffix(lit, ", ")+"}\n}\n", "func F(t *T) uint64 {\n\treturn "+sum+"\n}\n"), []string{"T", "Mk", "F"}
	}))
	add(simpleAxis("part-count/parameters-and-arguments", func(n int, v *scaleVariant) (map[string]string, []string) {
		var ps, as []string
		sum := "p0"
		for i := 0; i < n; i++ {
			ps = append(ps, fmt.Sprintf("p%d uint64", i))
			as = append(as, fmt.Sprintf("a + %d", i))
			if i > 0 {
				sum += fmt.Sprintf(" + p%d", i)
			}
		}
		return scalePkg("func G("+strings.Join(ps, ", ")+") uint64 {\n\treturn "+sum+"\n}\n", "func F(a uint64) uint64 {\n\treturn G("+strings.Join(as, ", ")+")\n}\n"), []string{"G", "F"}
	}))
	add(simpleAxis("part-count/interface-methods", func(n int, v *scaleVariant) (map[string]string, []string) {
		names := []string{"I", "T", "F"}
		ms := numbered(n, func(i int) string { return fmt.Sprintf("\tM%d() uint64\n", i) })
		impl := numbered(n, func(i int) string {
			names = append(names, fmt.Sprintf("T__M%d", i))
			return fmt.Sprintf("func (t T) M%d() uint64 {\n\treturn t.v + %d\n}\n\n", i, i)
		})
		return scalePkg("type I interface {\n"+ms+"}\n", "type T struct {\n\tv uint64\n}\n", impl, "func use(i I) uint64 {\n\treturn i.M0()\n}\n", "func F(t T) uint64 {\n\treturn use(t)\n}\n"), names
	}))
	add(simpleAxis("part-count/slice-literal-elements-by-append", func(n int, v *scaleVariant) (map[string]string, []string) {
		body := "var t []uint64\n" + numbered(n, func(i int) string { return fmt.Sprintf("t = append(t, %d)\n", i) }) + "r = uint64(len(t))"
		return scalePkg(scaleFunc(body)), []string{"F"}
	}))

	// ---- text length
	add(simpleAxis("text-length/string-literal", func(n int, v *scaleVariant) (map[string]string, []string) {
		return scalePkg("func F() string {\n\treturn " + strconv.Quote(strings.Repeat(strings.Trim(v.word, "\\\"")+" ", n)) + "\n}\n"), []string{"F"}
	}))
	add(simpleAxis("text-length/string-literal-with-escapes", func(n int, v *scaleVariant) (map[string]string, []string) {
		return scalePkg("func F() string {\n\treturn \"" + strings.Repeat("\\\\\\n(**)\\t", n) + "\"\n}\n"), []string{"F"}
	}))
	add(simpleAxis("text-length/doc-comment-line", func(n int, v *scaleVariant) (map[string]string, []string) {
		return scalePkg("// F " + strings.Repeat(v.word+" ", n) + "\nfunc F() uint64 {\n\treturn 1\n}\n"), []string{"F"}
	}))
	add(simpleAxis("text-length/doc-comment-lines", func(n int, v *scaleVariant) (map[string]string, []string) {
		return scalePkg("// F does it.\n" + numbered(n, func(i int) string { return fmt.Sprintf("// %s %d\n", v.word, i) }) + "func F() uint64 {\n\treturn 1\n}\n"), []string{"F"}
	}))
	add(simpleAxis("text-length/comments-between-statements", func(n int, v *scaleVariant) (map[string]string, []string) {
		body := numbered(n, func(i int) string { return fmt.Sprintf("// %s %d\nr = r + 1\n", v.word, i) })
		return scalePkg(scaleFunc(strings.TrimSuffix(body, "\n"))), []string{"F"}
	}))
	add(simpleAxis("text-length/identifier", func(n int, v *scaleVariant) (map[string]string, []string) {
		id := "v" + strings.Repeat("x", n)
		return scalePkg("func F" + id + "(" + id + " uint64) uint64 {\n\t" + id + "2 := " + id + " + 1\n\treturn " + id + "2\n}\n"), []string{"F" + id}
	}))
	add(simpleAxis("text-length/blank-lines-and-line-numbers", func(n int, v *scaleVariant) (map[string]string, []string) {
		return scalePkg(strings.Repeat("\n", n*10) + "func F() uint64 {\n" + strings.Repeat("\n", n*10) + "\treturn 1\n}\n"), []string{"F"}
	}))
	return axes
}

// ---------------------------------------------------------------- running and counting

// sumCoverCounts converts the counter files of one run and returns the sum of the execution counts of all
// basic blocks and the number of distinct blocks executed.
func sumCoverCounts(covDir string) (steps int64, blocks int, err error) {
	out := filepath.Join(covDir, "counts.txt")
	res := core.Exec("", core.GoEnv(), 2*time.Minute, "", "go", "tool", "covdata", "textfmt", "-i="+covDir, "-o="+out)
	if res.TimedOut {
		return 0, 0, fmt.Errorf("covdata watchdog")
	}
	if res.Code != 0 {
		return 0, 0, fmt.Errorf("go tool covdata textfmt: %s", clip(res.Stderr, 300))
	}
	f, err := os.Open(out)
	if err != nil {
		return 0, 0, err
	}
	defer f.Close()
	sc := bufio.NewScanner(f)
	sc.Buffer(make([]byte, 1<<20), 1<<20)
	for sc.Scan() {
		l := sc.Text()
		if strings.HasPrefix(l, "mode:") {
			continue
		}
		i := strings.LastIndexByte(l, ' ')
		if i < 0 {
			continue
		}
		n, perr := strconv.ParseInt(l[i+1:], 10, 64)
		if perr != nil {
			continue
		}
		if n > 0 {
			blocks++
		}
		steps += n
	}
	return steps, blocks, sc.Err()
}

type scalePoint struct {
	Size     int     `json:"size"`
	Steps    int64   `json:"steps"`
	OutBytes int     `json:"output_bytes"`
	InBytes  int     `json:"input_bytes"`
	Exit     int     `json:"exit"`
	Ratio    float64 `json:"steps_ratio_to_half_size,omitempty"`
	OutRatio float64 `json:"output_ratio_to_half_size,omitempty"`
	ok       bool
}

type scaleState struct {
	axis    scaleAxis
	points  []*scalePoint
	stopped string // why the axis is not taken to larger sizes
}

const (
	scaleBound = 16.0 // steps(2N)/steps(N) above this: worse than N^4
)

func (c *c07Ctx) runScale() {
	r := c.r
	covBin, err := r.BuildGoose("-cover", "-covermode=count", "-coverpkg=./...")
	if err != nil {
		fmt.Fprintln(os.Stderr, "C07 scale:", err)
		r.Inconclusive("goose-does-not-build-with-coverage-counters")
		return
	}
	root := filepath.Join(r.Scratch, "c07scale")
	if err := writeModule(root); err != nil {
		r.Inconclusive("scale-module-not-written")
		return
	}
	rng := core.NewRng(r.Seed, "c07-scale")
	v := newScaleVariant(rng)
	base := 3 + rng.Intn(3) // first size 3..5
	stages := r.Pick(5, 8)  // quick: base .. 16*base (48..80); thorough: .. 128*base
	var states []*scaleState
	for _, a := range scaleAxes() {
		if strings.HasPrefix(a.name, "nest-depth/") && a.max == 0 {
			a.max = 450 // go/parser gives up beyond 1000 nested scopes ("exceeded max scope depth"): not a package any more
		}
		states = append(states, &scaleState{axis: a})
	}
	if only := os.Getenv("VERIF_C07_SCALE_ONLY"); only != "" { // development aid: restrict to axes containing this text
		var keep []*scaleState
		for _, s := range states {
			if strings.Contains(s.axis.name, only) {
				keep = append(keep, s)
			}
		}
		states = keep
	}
	r.Set("scale_variant", map[string]interface{}{"leaf": v.leaf, "operator": v.op, "comparison": v.cmp, "constant_offset": v.k, "filler": v.word, "first_size": base, "doublings": stages - 1})
	stepBudget := float64(r.Pick(1, 4)) * 1e9 // projected steps above which an axis is not taken to the next size
	var mu sync.Mutex
	for stage := 0; stage < stages; stage++ {
		size := base << stage
		var todo []*scaleState
		for _, s := range states {
			if s.stopped == "" && (s.axis.max == 0 || size <= s.axis.max) {
				todo = append(todo, s)
			}
		}
		if len(todo) == 0 {
			break
		}
		type job struct {
			s     *scaleState
			rel   string
			files map[string]string
			names []string
		}
		jobs := make([]*job, len(todo))
		for i, s := range todo {
			files, names := s.axis.gen(size, v)
			rel := fmt.Sprintf("ax%02d_%d/sc", indexOfState(states, s), size)
			writePkg(root, rel, files)
			jobs[i] = &job{s, rel, files, names}
		}
		if stage == 0 {
			settleModule(root)
		}
		core.Parallel(len(jobs), 16, func(i int) {
			j := jobs[i]
			s := j.s
			covDir := filepath.Join(root, "cov", strings.ReplaceAll(j.rel, "/", "_"))
			os.MkdirAll(covDir, 0o755)
			out := filepath.Join(root, "out")
			in := &c07Input{ID: fmt.Sprintf("scale/%s@%d", s.axis.name, size), Workload: "scale", Desc: fmt.Sprintf("axis %s at size %d", s.axis.name, size), Rel: j.rel, Pattern: "./" + j.rel}
			if size <= 2*base {
				in.Files = j.files
			}
			o := c07ExecN(covBin, root, out, []string{"GOCOVERDIR=" + covDir}, nil, in.Pattern)
			r.Count("goose_invocations", 1)
			pt := &scalePoint{Size: size, Exit: o.Exit}
			for _, f := range j.files {
				pt.InBytes += len(f)
			}
			mu.Lock()
			s.points = append(s.points, pt)
			mu.Unlock()
			if o.TimedOut {
				r.Inconclusive("goose-scale-watchdog")
				r.Count("scale/watchdog_fired", 1)
				s.stopped = "watchdog"
				return
			}
			vfile := vPath(out, j.rel)
			c.judge(in, o, filepath.Join(root, j.rel), vfile, false)
			if o.Crash {
				s.stopped = "crash"
				return
			}
			if o.LoadError {
				s.stopped = "does-not-load"
				fmt.Fprintf(os.Stderr, "C07 scale: %s does not load (generator defect): %s\n", in.ID, clip(o.Stderr, 400))
				return
			}
			detail := func(extra map[string]interface{}) map[string]interface{} {
				d := map[string]interface{}{"axis": s.axis.name, "size": size, "stderr": clip(o.Stderr, 3000), "points": s.points}
				if smallest, _ := s.axis.gen(base, v); smallest != nil {
					d["files_at_the_first_size"] = smallest
				}
				for k, x := range extra {
					d[k] = x
				}
				return d
			}
			if o.Exit != 0 {
				// structured errors are a legitimate way to terminate, but every axis stays inside the subset goose accepts
				// on the unchanged tree: a refusal that appears with the size is reported by the size at which it appears
				r.Count("scale/refused", 1)
				first := ""
				if len(o.Blocks) > 0 {
					first = "[" + o.Blocks[0].Category + "] " + o.Blocks[0].Message
				}
				if len(s.points) > 1 {
					r.Violate("refused-only-above-a-size:"+s.axis.name, fmt.Sprintf("axis %s: goose translates the package at smaller sizes and refuses the same construct at size %d: %s", s.axis.name, size, first), detail(nil))
				} else {
					fmt.Fprintf(os.Stderr, "C07 scale: axis %s is refused at its first size (not judged): %s\n", s.axis.name, first)
				}
				s.stopped = "refused"
				return
			}
			vb, rerr := os.ReadFile(vfile)
			if rerr != nil {
				s.stopped = "no-output"
				return // judged by c.judge
			}
			pt.OutBytes = len(vb)
			text := string(vb)
			if !strings.HasSuffix(strings.TrimRight(text, "\n"), "End code.") {
				r.Violate("output-without-footer:"+s.axis.name, fmt.Sprintf("axis %s at size %d: goose exits 0 but the file it wrote does not end with `End code.` (last line %q)", s.axis.name, size, lastLine(text)), detail(nil))
			}
			var missing []string
			defined := map[string]bool{}
			for _, l := range strings.Split(text, "\n") {
				f := strings.Fields(l)
				if len(f) >= 2 && f[0] == "Definition" {
					defined[strings.TrimSuffix(f[1], ":")] = true
				}
			}
			for _, n := range j.names {
				if !defined[n] {
					missing = append(missing, n)
				}
			}
			if len(missing) > 0 {
				if len(missing) > 6 {
					missing = append(missing[:6], "…")
				}
				r.Violate("output-incomplete:"+s.axis.name, fmt.Sprintf("axis %s at size %d: goose exits 0 but the output defines no %v", s.axis.name, size, missing), detail(nil))
			} else {
				r.Count("scale/complete_outputs", 1)
			}
			steps, _, cerr := sumCoverCounts(covDir)
			os.RemoveAll(covDir)
			if cerr != nil || steps == 0 {
				r.Inconclusive("scale-step-count-unavailable")
				fmt.Fprintf(os.Stderr, "C07 scale: %s: no step count: %v\n", in.ID, cerr)
				s.stopped = "no-step-count"
				return
			}
			pt.Steps = steps
			pt.ok = true
			r.Count("scale/points_measured", 1)
			r.Distinct(fmt.Sprintf("scale axis %s", s.axis.name))
			// compare with the half size
			var prev *scalePoint
			for _, p := range s.points {
				if p.ok && p.Size*2 == size {
					prev = p
				}
			}
			if prev == nil {
				return
			}
			pt.Ratio = round2(float64(steps) / float64(prev.Steps))
			if prev.OutBytes > 0 {
				pt.OutRatio = round2(float64(pt.OutBytes) / float64(prev.OutBytes))
			}
			r.Count("scale/doublings_judged", 1)
			switch {
			case pt.Ratio > scaleBound:
				r.Violate("work-grows-faster-than-any-reasonable-polynomial:"+s.axis.name,
					fmt.Sprintf("axis %s: translating size %d takes %d executed basic blocks of goose, size %d takes %d: %.1f times the work for twice the input (N^4 would be 16; an input a few times larger does not terminate in practice)", s.axis.name, prev.Size, prev.Steps, size, steps, pt.Ratio), detail(nil))
				s.stopped = "violation"
			case pt.OutRatio > scaleBound:
				r.Violate("output-grows-faster-than-any-reasonable-polynomial:"+s.axis.name,
					fmt.Sprintf("axis %s: the output for size %d has %d bytes, for size %d %d bytes: %.1f times the output for twice the input", s.axis.name, prev.Size, prev.OutBytes, size, pt.OutBytes, pt.OutRatio), detail(nil))
				s.stopped = "violation"
			default:
				// were the growth exponential, the next doubling would square the ratio: the axis is taken further only
				// while that projection stays affordable (a run that cannot finish would only fire the watchdog)
				g := math.Max(2, math.Max(pt.Ratio, pt.OutRatio))
				if float64(steps)*g*g > stepBudget {
					s.stopped = fmt.Sprintf("ratio %.1f at size %d with %d steps: the next size is not affordable if the growth is exponential", g, size, steps)
					r.Count("scale/axes_not_taken_further_for_cost", 1)
				}
			}
		})
	}
	// evidence
	table := map[string]interface{}{}
	worst, worstAxis := 0.0, ""
	judgedAxes := 0
	for _, s := range states {
		sort.Slice(s.points, func(i, j int) bool { return s.points[i].Size < s.points[j].Size })
		row := map[string]interface{}{"points": s.points}
		if s.stopped != "" {
			row["stopped"] = s.stopped
		}
		judged := false
		for _, p := range s.points {
			if p.Ratio > 0 {
				judged = true
			}
			if p.Ratio > worst {
				worst, worstAxis = p.Ratio, s.axis.name
			}
		}
		if judged {
			judgedAxes++
		}
		table[s.axis.name] = row
		if os.Getenv("VERIF_C07_SCALE_TABLE") != "" {
			fmt.Fprintf(os.Stderr, "%-70s", s.axis.name)
			for _, p := range s.points {
				fmt.Fprintf(os.Stderr, " %d:%d(x%.2f,o%.2f)", p.Size, p.Steps, p.Ratio, p.OutRatio)
			}
			fmt.Fprintf(os.Stderr, " %s\n", s.stopped)
		}
	}
	r.Set("scale_axes", table)
	r.Set("scale_axes_generated", len(states))
	r.Set("scale_axes_judged", judgedAxes)
	r.Set("scale_largest_step_ratio_for_a_doubling", map[string]interface{}{"axis": worstAxis, "ratio": worst, "bound": scaleBound})
}

func indexOfState(states []*scaleState, s *scaleState) int {
	for i, x := range states {
		if x == s {
			return i
		}
	}
	return -1
}

func round2(x float64) float64 { return math.Round(x*100) / 100 }

func lastLine(s string) string {
	ls := strings.Split(strings.TrimRight(s, "\n"), "\n")
	return clip(ls[len(ls)-1], 80)
}
