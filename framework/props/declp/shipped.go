package declp

import (
	"fmt"
	"os"
	"path/filepath"
	"sort"
	"strings"

	"verif/core"
)

// shipped.go: the example packages shipped in /repo/internal/examples, read
// as declaration sets (declaration texts cut out of the sources, doc comments
// and trailing line comments kept) so that they can be laid out again in any
// order and file split, or copied and mutated (C07).

const examplesDir = "internal/examples"

// readExampleFiles returns the non-test Go sources of one shipped example directory.
func readExampleFiles(dir string) (map[string]string, error) {
	ents, err := os.ReadDir(dir)
	if err != nil {
		return nil, err
	}
	files := map[string]string{}
	for _, e := range ents {
		n := e.Name()
		if e.IsDir() || !strings.HasSuffix(n, ".go") || strings.HasSuffix(n, "_test.go") {
			continue
		}
		b, err := os.ReadFile(filepath.Join(dir, n))
		if err != nil {
			return nil, err
		}
		files[n] = string(b)
	}
	return files, nil
}

// availableModules lists the module paths /repo's go.mod requires (they are in the module cache).
func availableModules() []string {
	b, _ := os.ReadFile(filepath.Join(core.RepoDir, "go.mod"))
	var out []string
	for _, l := range strings.Split(string(b), "\n") {
		f := strings.Fields(l)
		if len(f) >= 2 && strings.Contains(f[0], ".") && strings.HasPrefix(f[1], "v") {
			out = append(out, f[0])
		}
		if len(f) >= 3 && f[0] == "require" && strings.Contains(f[1], ".") {
			out = append(out, f[1])
		}
	}
	return out
}

const gooseMod = "github.com/goose-lang/goose"

// rewriteImports maps the imports of a shipped package into the scratch
// module: packages under /repo/internal (not importable from outside) are
// copied as packages lib/<name>; returns ok=false if an import is not available offline.
func rewriteImports(imps []importSpec) (out []importSpec, extra map[string]map[string]string, why string) {
	mods := availableModules()
	extra = map[string]map[string]string{}
	for _, is := range imps {
		switch {
		case strings.HasPrefix(is.Path, gooseMod+"/internal/"):
			src := filepath.Join(core.RepoDir, strings.TrimPrefix(is.Path, gooseMod+"/"))
			files, err := readExampleFiles(src)
			if err != nil || len(files) == 0 {
				return nil, nil, "cannot copy " + is.Path
			}
			// (the directory keeps the package's name: an import whose package name differs from the last element
			// of its path is refused since fix fabb596)
			rel := "lib/" + pkgBase(is.Path)
			extra[rel] = files
			np := modPath + "/" + rel
			is.Text = strings.Replace(is.Text, is.Path, np, 1)
			is.Path = np
		case !strings.Contains(strings.SplitN(is.Path, "/", 2)[0], "."):
			// standard library
		case strings.HasPrefix(is.Path, gooseMod+"/"):
		default:
			ok := false
			for _, m := range mods {
				if is.Path == m || strings.HasPrefix(is.Path, m+"/") {
					ok = true
				}
			}
			if !ok {
				return nil, nil, "imports " + is.Path + " (module not required by /repo, not in the cache)"
			}
		}
		out = append(out, is)
	}
	return out, extra, ""
}

// shippedSet reads one example directory as a declaration set.
func shippedSet(name string) (*declSet, *goPkg, string) {
	dir := filepath.Join(core.RepoDir, examplesDir, name)
	files, err := readExampleFiles(dir)
	if err != nil || len(files) == 0 {
		return nil, nil, "no Go files"
	}
	p, err := readPackage(files)
	if err != nil {
		return nil, nil, "go/parser: " + err.Error()
	}
	imps, extra, why := rewriteImports(p.Imports)
	if why != "" {
		return nil, nil, why
	}
	ds := &declSet{ID: "s_" + strings.NewReplacer("-", "_", ".", "_").Replace(name), Origin: "shipped:" + name, PkgName: p.Name, Imports: imps, Extra: extra}
	// declarations in file-name order, then source order (readPackage's order)
	for _, d := range p.Decls {
		ds.Units = append(ds.Units, d.Text)
		ds.Refs = append(ds.Refs, d.PkgRefs)
	}
	return ds, p, ""
}

func c04ShippedSets() ([]*declSet, map[string]string) {
	notes := map[string]string{}
	ents, err := os.ReadDir(filepath.Join(core.RepoDir, examplesDir))
	if err != nil {
		notes["*"] = err.Error()
		return nil, notes
	}
	var names []string
	for _, e := range ents {
		if e.IsDir() {
			names = append(names, e.Name())
		}
	}
	sort.Strings(names)
	var out []*declSet
	for _, n := range names {
		ds, _, why := shippedSet(n)
		if ds == nil {
			notes[n] = "skipped: " + why
			continue
		}
		notes[n] = fmt.Sprintf("%d declarations", len(ds.Units))
		out = append(out, ds)
	}
	return out, notes
}
