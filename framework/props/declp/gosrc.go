package declp

import (
	"fmt"
	"go/ast"
	"go/importer"
	"go/parser"
	"go/token"
	"go/types"
	"path/filepath"
	"sort"
	"strings"
)

// gosrc.go: the independent Go-side reading of a package (go/parser +
// go/types only): top-level declarations with their text and ranges, the
// names the statement documents for them, and the declaration dependency graph.

// unit is one named top-level entity.
type unit struct {
	Name      string // documented Coq name: f, T__m, T, constant/global name
	Kind      string // func | method-value-receiver | method-pointer-receiver | struct | interface | named-type | alias | const | var
	Decl      int    // index into goPkg.Decls
	SpecIdx   int    // index of the spec inside a GenDecl
	NameIdx   int    // index of the name inside a value spec
	MultiName bool   // belongs to a spec that declares several names
	GoName    string // Go identifier
	node      []ast.Node
	obj       types.Object
}

// topDecl is one element of ast.File.Decls.
type topDecl struct {
	File      string
	Order     int    // position in the file as read
	Tok       string // func | type | const | var | import
	Text      string // doc comment + declaration text (+ trailing line comment)
	StartLine int    // of the declaration node (doc excluded)
	EndLine   int
	StartOff  int
	EndOff    int
	Units     []int
	PkgRefs   []string // names of imported packages mentioned (syntactic)
	Specs     int
	node      ast.Decl
}

type importSpec struct {
	Name string // name used in selectors
	Path string
	Text string // the spec as written
}

type goPkg struct {
	Name    string
	Fset    *token.FileSet
	Files   map[string]*ast.File
	Srcs    map[string]string
	Decls   []topDecl
	Units   []unit
	Imports []importSpec
	// dependency graph (filled by analyzeDeps)
	Edges       map[int]map[int]bool // unit -> unit
	Cyclic      bool
	CyclicWhy   string
	TypeErrors  []string
	convMethods map[string][]int // "S->I" -> method units
	// ImportedMentions: unit -> bare names of the objects of OTHER packages (types, functions, constants,
	// globals, methods of imported types) its declaration mentions; these are never same-package dependencies
	ImportedMentions map[int]map[string]bool
	// PlainConvUser: the unit is a function that passes a struct where an interface is expected, and every such call is
	// itself a statement of the function body, the single right-hand side of an assignment / define there, a returned
	// expression, or the left operand of a returned binary expression (top level of the body, not nested in a condition)
	PlainConvUser map[int]bool
}

func pkgBase(p string) string {
	if i := strings.LastIndex(p, "/"); i >= 0 {
		return p[i+1:]
	}
	return p
}

// readPackage parses the files (name -> source; names may be absolute paths) syntactically.
func readPackage(files map[string]string) (*goPkg, error) {
	p := &goPkg{Fset: token.NewFileSet(), Files: map[string]*ast.File{}, Srcs: files}
	names := sortedKeys(files)
	seenImp := map[string]bool{}
	for _, fn := range names {
		src := files[fn]
		f, err := parser.ParseFile(p.Fset, fn, src, parser.ParseComments)
		if err != nil {
			return nil, err
		}
		p.Files[fn] = f
		p.Name = f.Name.Name
		tf := p.Fset.File(f.Pos())
		for _, is := range f.Imports {
			path := strings.Trim(is.Path.Value, "\"`")
			name := pkgBase(path)
			if is.Name != nil {
				name = is.Name.Name
			}
			key := name + " " + path
			if !seenImp[key] {
				seenImp[key] = true
				p.Imports = append(p.Imports, importSpec{Name: name, Path: path, Text: src[tf.Offset(is.Pos()):tf.Offset(is.End())]})
			}
		}
		for di, d := range f.Decls {
			td := topDecl{File: fn, Order: di, node: d}
			start, end := d.Pos(), d.End()
			tstart := start
			switch d := d.(type) {
			case *ast.FuncDecl:
				td.Tok = "func"
				if d.Doc != nil {
					tstart = d.Doc.Pos()
				}
			case *ast.GenDecl:
				td.Tok = d.Tok.String()
				td.Specs = len(d.Specs)
				if d.Doc != nil {
					tstart = d.Doc.Pos()
				}
			default:
				td.Tok = "bad"
			}
			so, eo := tf.Offset(tstart), tf.Offset(end)
			// keep a trailing line comment (goose reads spec.Comment)
			rest := src[eo:]
			if nl := strings.IndexByte(rest, '\n'); nl >= 0 {
				rest = rest[:nl]
			}
			if strings.HasPrefix(strings.TrimSpace(rest), "//") {
				eo += len(rest)
			}
			td.Text = src[so:eo]
			td.StartOff, td.EndOff = tf.Offset(start), tf.Offset(end)
			td.StartLine, td.EndLine = p.Fset.Position(start).Line, p.Fset.Position(end).Line
			// imported package names mentioned: selector heads the parser could not resolve
			refs := map[string]bool{}
			ast.Inspect(d, func(n ast.Node) bool {
				if se, ok := n.(*ast.SelectorExpr); ok {
					if id, ok := se.X.(*ast.Ident); ok && id.Obj == nil {
						refs[id.Name] = true
					}
				}
				return true
			})
			td.PkgRefs = sortedKeys(refs)
			if td.Tok == "import" {
				continue
			}
			idx := len(p.Decls)
			p.Decls = append(p.Decls, td)
			p.addUnits(idx, d)
		}
	}
	return p, nil
}

func (p *goPkg) addUnits(idx int, d ast.Decl) {
	add := func(u unit) {
		u.Decl = idx
		p.Decls[idx].Units = append(p.Decls[idx].Units, len(p.Units))
		p.Units = append(p.Units, u)
	}
	switch d := d.(type) {
	case *ast.FuncDecl:
		u := unit{GoName: d.Name.Name, Kind: "func", Name: d.Name.Name, node: []ast.Node{d}}
		if d.Recv != nil && len(d.Recv.List) == 1 {
			rt := d.Recv.List[0].Type
			u.Kind = "method-value-receiver"
			if st, ok := rt.(*ast.StarExpr); ok {
				rt = st.X
				u.Kind = "method-pointer-receiver"
			}
			if id, ok := rt.(*ast.Ident); ok {
				u.Name = id.Name + "__" + d.Name.Name
			} else {
				u.Name = "" // generic receiver etc.: no documented name
			}
		}
		if d.Name.Name == "_" {
			u.Name = ""
		}
		add(u)
	case *ast.GenDecl:
		for si, s := range d.Specs {
			switch s := s.(type) {
			case *ast.TypeSpec:
				u := unit{GoName: s.Name.Name, Name: s.Name.Name, SpecIdx: si, node: []ast.Node{s}}
				switch s.Type.(type) {
				case *ast.StructType:
					u.Kind = "struct"
				case *ast.InterfaceType:
					u.Kind = "interface"
				default:
					u.Kind = "named-type"
					if s.Assign != 0 {
						u.Kind = "alias"
					}
				}
				if s.Name.Name == "_" {
					u.Name = ""
				}
				add(u)
			case *ast.ValueSpec:
				for ni, n := range s.Names {
					u := unit{GoName: n.Name, Name: n.Name, SpecIdx: si, NameIdx: ni, MultiName: len(s.Names) > 1, Kind: d.Tok.String()}
					if s.Type != nil {
						u.node = append(u.node, s.Type)
					}
					if len(s.Values) == len(s.Names) {
						u.node = append(u.node, s.Values[ni])
					} else {
						for _, v := range s.Values {
							u.node = append(u.node, v)
						}
					}
					u.node = append(u.node, n)
					if n.Name == "_" {
						u.Name = ""
					}
					add(u)
				}
			}
		}
	}
}

// declAt returns the index of the top-level declaration of file containing line:col (-1 if none).
func (p *goPkg) declAt(file string, line, col int) int {
	for i, d := range p.Decls {
		if d.File != file && filepath.Base(d.File) != filepath.Base(file) {
			continue
		}
		s := p.Fset.Position(d.node.Pos())
		e := p.Fset.Position(d.node.End())
		if (line > s.Line || line == s.Line && col >= s.Column) && (line < e.Line || line == e.Line && col <= e.Column) {
			return i
		}
	}
	return -1
}

// expectedNames: documented name -> units carrying it.
func (p *goPkg) expectedNames() map[string][]int {
	m := map[string][]int{}
	for i, u := range p.Units {
		if u.Name != "" {
			m[u.Name] = append(m[u.Name], i)
		}
	}
	return m
}

// ---------------------------------------------------------------- dependency graph

type tolerantImporter struct {
	src  types.ImporterFrom
	fake map[string]*types.Package
	errs *[]string
}

func (t tolerantImporter) Import(path string) (*types.Package, error) {
	return t.ImportFrom(path, "", 0)
}

func (t tolerantImporter) ImportFrom(path, dir string, mode types.ImportMode) (*types.Package, error) {
	if t.src != nil {
		if pk, err := t.src.ImportFrom(path, dir, mode); err == nil {
			return pk, nil
		} else {
			*t.errs = append(*t.errs, fmt.Sprintf("import %s: %v", path, err))
		}
	}
	if pk, ok := t.fake[path]; ok {
		return pk, nil
	}
	pk := types.NewPackage(path, pkgBase(path))
	pk.MarkComplete()
	t.fake[path] = pk
	return pk, nil
}

// newSourceImporter returns an importer that type-checks imported packages
// from source (go/build resolves them with `go list` run in build.Default.Dir).
// It is not safe for concurrent use.
func newSourceImporter() types.ImporterFrom {
	si, _ := importer.ForCompiler(token.NewFileSet(), "source", nil).(types.ImporterFrom)
	return si
}

// analyzeDeps type-checks the package (files must carry the paths they have on
// disk when they import anything) and fills the unit dependency graph. Type
// errors are tolerated and recorded: unresolved selectors then add edges to
// every method of that name, so the graph only ever grows (more cycles, more
// skips, never a missed cycle).
func (p *goPkg) analyzeDeps(srcImp types.ImporterFrom) {
	info := &types.Info{
		Defs:       map[*ast.Ident]types.Object{},
		Uses:       map[*ast.Ident]types.Object{},
		Types:      map[ast.Expr]types.TypeAndValue{},
		Selections: map[*ast.SelectorExpr]*types.Selection{},
		Instances:  map[*ast.Ident]types.Instance{},
	}
	var impErrs []string
	ti := tolerantImporter{fake: map[string]*types.Package{}, errs: &impErrs}
	if len(p.Imports) > 0 {
		ti.src = srcImp
	}
	conf := types.Config{Importer: ti, Error: func(err error) { p.TypeErrors = append(p.TypeErrors, err.Error()) }}
	var files []*ast.File
	for _, fn := range sortedKeys(p.Files) {
		files = append(files, p.Files[fn])
	}
	self, _ := conf.Check(modPath+"/"+p.Name, p.Fset, files, info)
	p.ImportedMentions = map[int]map[string]bool{}
	noteImported := func(i int, o types.Object) {
		if o == nil || o.Pkg() == nil || o.Pkg() == self {
			return
		}
		if _, isPkgName := o.(*types.PkgName); isPkgName {
			return
		}
		if p.ImportedMentions[i] == nil {
			p.ImportedMentions[i] = map[string]bool{}
		}
		p.ImportedMentions[i][o.Name()] = true
	}
	p.TypeErrors = append(p.TypeErrors, impErrs...)

	unitOf := map[types.Object]int{}
	methodsByName := map[string][]int{}
	for i := range p.Units {
		u := &p.Units[i]
		var id *ast.Ident
		switch n := u.node[0].(type) {
		case *ast.FuncDecl:
			id = n.Name
			if n.Recv != nil {
				methodsByName[n.Name.Name] = append(methodsByName[n.Name.Name], i)
			}
		case *ast.TypeSpec:
			id = n.Name
		}
		if id == nil {
			id, _ = u.node[len(u.node)-1].(*ast.Ident)
		}
		if id != nil {
			if o := info.Defs[id]; o != nil {
				u.obj = o
				unitOf[o] = i
			}
		}
	}
	p.Edges = map[int]map[int]bool{}
	addEdge := func(a, b int) {
		if p.Edges[a] == nil {
			p.Edges[a] = map[int]bool{}
		}
		p.Edges[a][b] = true
	}
	// pseudo nodes for struct-to-interface conversions: index len(Units)+k
	convIdx := map[string]int{}
	p.convMethods = map[string][]int{}
	nConv := 0
	for i := range p.Units {
		for _, n := range p.Units[i].node {
			ast.Inspect(n, func(x ast.Node) bool {
				switch x := x.(type) {
				case *ast.Ident:
					if o := info.Uses[x]; o != nil {
						noteImported(i, o)
						if f, ok := o.(*types.Func); ok {
							o = f.Origin()
						}
						if j, ok := unitOf[o]; ok {
							addEdge(i, j)
						}
					}
				case *ast.SelectorExpr:
					if info.Uses[x.Sel] == nil && info.Selections[x] == nil {
						// unresolved (type errors through a missing import): be conservative
						for _, j := range methodsByName[x.Sel.Name] {
							addEdge(i, j)
						}
					}
				case *ast.CallExpr:
					sig, _ := info.TypeOf(x.Fun).(*types.Signature)
					if sig == nil {
						break
					}
					var ifaces []*types.Interface
					for k := 0; k < sig.Params().Len(); k++ {
						if it, ok := sig.Params().At(k).Type().Underlying().(*types.Interface); ok {
							ifaces = append(ifaces, it)
						}
					}
					if len(ifaces) == 0 {
						break
					}
					for _, a := range x.Args {
						at := info.TypeOf(a)
						if at == nil {
							continue
						}
						nt, _ := at.(*types.Named)
						if nt == nil {
							continue
						}
						if _, ok := nt.Underlying().(*types.Struct); !ok {
							continue
						}
						for ii, it := range ifaces {
							key := fmt.Sprintf("%s->%d:%p", nt.Obj().Name(), ii, it)
							ci, ok := convIdx[key]
							if !ok {
								ci = len(p.Units) + nConv
								nConv++
								convIdx[key] = ci
								for m := 0; m < it.NumMethods(); m++ {
									for _, j := range methodsByName[it.Method(m).Name()] {
										if fd, ok := p.Units[j].node[0].(*ast.FuncDecl); ok && recvName(fd) == nt.Obj().Name() {
											addEdge(ci, j)
										}
									}
								}
							}
							addEdge(i, ci)
						}
					}
				}
				return true
			})
		}
	}
	// plain users of struct-to-interface conversions
	p.PlainConvUser = map[int]bool{}
	passesStruct := func(c *ast.CallExpr) bool {
		sig, _ := info.TypeOf(c.Fun).(*types.Signature)
		if sig == nil {
			return false
		}
		hasIface := false
		for k := 0; k < sig.Params().Len(); k++ {
			if _, ok := sig.Params().At(k).Type().Underlying().(*types.Interface); ok {
				hasIface = true
			}
		}
		if !hasIface {
			return false
		}
		for _, a := range c.Args {
			if nt, _ := info.TypeOf(a).(*types.Named); nt != nil {
				if _, ok := nt.Underlying().(*types.Struct); ok {
					return true
				}
			}
		}
		return false
	}
	for i := range p.Units {
		fd, ok := p.Units[i].node[0].(*ast.FuncDecl)
		if !ok || fd.Body == nil {
			continue
		}
		all := 0
		ast.Inspect(fd.Body, func(x ast.Node) bool {
			if c, ok := x.(*ast.CallExpr); ok && passesStruct(c) {
				all++
			}
			return true
		})
		plain := 0
		direct := func(e ast.Expr) {
			if c, ok := e.(*ast.CallExpr); ok && passesStruct(c) {
				plain++
			}
		}
		for _, st := range fd.Body.List {
			switch st := st.(type) {
			case *ast.ExprStmt:
				direct(st.X)
			case *ast.AssignStmt:
				if len(st.Rhs) == 1 {
					direct(st.Rhs[0])
				}
			case *ast.ReturnStmt:
				for _, res := range st.Results {
					direct(res)
					if b, ok := res.(*ast.BinaryExpr); ok {
						direct(b.X)
					}
				}
			}
		}
		if all > 0 && all == plain {
			p.PlainConvUser[i] = true
		}
	}
	total := len(p.Units) + nConv
	// unit-level cycles (direct recursion of a function through its own binder is not a cycle)
	adj := make([][]int, total)
	for a, m := range p.Edges {
		for b := range m {
			if a == b {
				if a < len(p.Units) && (p.Units[a].Kind == "func" || strings.HasPrefix(p.Units[a].Kind, "method")) {
					continue
				}
				p.Cyclic, p.CyclicWhy = true, "self-referential "+p.Units[a].Kind+" "+p.Units[a].GoName
				continue
			}
			adj[a] = append(adj[a], b)
		}
	}
	if c := findCycle(adj); c != nil {
		p.Cyclic = true
		var ns []string
		for _, i := range c {
			if i < len(p.Units) {
				ns = append(ns, p.Units[i].GoName)
			} else {
				ns = append(ns, "<interface-conversion>")
			}
		}
		p.CyclicWhy = "cycle " + strings.Join(ns, " -> ")
	}
	// declaration-level cycles: a grouped declaration is emitted as a whole
	if !p.Cyclic {
		grp := func(i int) int {
			if i < len(p.Units) {
				return p.Units[i].Decl
			}
			return len(p.Decls) + i
		}
		gadj := map[int][]int{}
		maxg := 0
		for a, m := range p.Edges {
			for b := range m {
				ga, gb := grp(a), grp(b)
				if ga != gb {
					gadj[ga] = append(gadj[ga], gb)
				}
				if ga > maxg {
					maxg = ga
				}
				if gb > maxg {
					maxg = gb
				}
			}
		}
		ga := make([][]int, maxg+1)
		for a, l := range gadj {
			ga[a] = l
		}
		if c := findCycle(ga); c != nil {
			p.Cyclic = true
			p.CyclicWhy = "cycle through a grouped declaration"
		}
	}
}

func recvName(fd *ast.FuncDecl) string {
	if fd.Recv == nil || len(fd.Recv.List) != 1 {
		return ""
	}
	t := fd.Recv.List[0].Type
	if st, ok := t.(*ast.StarExpr); ok {
		t = st.X
	}
	if id, ok := t.(*ast.Ident); ok {
		return id.Name
	}
	return ""
}

// findCycle returns the nodes of some cycle of the graph, or nil.
func findCycle(adj [][]int) []int {
	color := make([]int, len(adj))
	var stack []int
	var res []int
	var dfs func(int) bool
	dfs = func(v int) bool {
		color[v] = 1
		stack = append(stack, v)
		ns := append([]int{}, adj[v]...)
		sort.Ints(ns)
		for _, w := range ns {
			if w >= len(adj) {
				continue
			}
			if color[w] == 1 {
				for k := len(stack) - 1; k >= 0; k-- {
					res = append([]int{stack[k]}, res...)
					if stack[k] == w {
						break
					}
				}
				res = append(res, w)
				return true
			}
			if color[w] == 0 && dfs(w) {
				return true
			}
		}
		stack = stack[:len(stack)-1]
		color[v] = 2
		return false
	}
	for v := range adj {
		if color[v] == 0 && dfs(v) {
			return res
		}
	}
	return nil
}
