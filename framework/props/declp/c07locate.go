package declp

import (
	"fmt"
	"os"
	"path/filepath"
	"sort"
	"strings"

	"verif/core"
)

// c07locate.go: refused constructs that REFER to another declaration.
//
// "A source position inside the offending declaration" has one interesting way to go wrong that the
// catalogue cannot show, because each of its constructs lives in one declaration: a construct that
// names a package-level variable, constant, type, function, method or field declared elsewhere can be
// reported where it stands (inside the function that contains it: the offending declaration) or where
// the thing it names is declared (a different, translatable declaration, possibly in another file).
// The dimension is (kind of cross-declaration reference inside a refused construct) × (the kind of
// declaration that contains the construct) × (where the referred declaration stands relative to it:
// same file before, same file after, another file that sorts before, another file that sorts after,
// another package).
//
// Oracle, per case: a calibration package holding the referred declarations without the referring one
// tells which of them goose refuses on their own account (and with how many errors). In the full
// package every error must lie in the file and source range of the referring declaration or of a
// referred declaration that is refused on its own account (with no more errors than it has alone);
// the referring declaration carries at least one error whenever it does so in any other placement of
// the same reference (the placement of a declaration it refers to cannot decide whether a construct is
// supported); under -ignore-errors every other declaration is defined in the output.

// locRef is one kind of reference. In stmt / expr the referred package-level names are prefixed with
// § (replaced by nothing, or by "dep." when the referred declarations live in another package).
type locRef struct {
	name    string
	ref     []string // the referred declarations
	stmt    string   // refused statements for a function body (a uint64, s []uint64, r var uint64 are in scope)
	expr    string   // closed uint64 expression for the initialiser of a package-level variable ("" = none)
	imports []string // import specs either side may need
	pkgable bool     // the referred declarations make sense as the exported API of another package
}

const (
	lcMT   = "type MT struct {\n\tV uint64\n}"
	lcMTm  = "func (t MT) Get() uint64 {\n\treturn t.V\n}"
	lcSl   = "type Sl []uint64"
	lcSlm  = "func (x Sl) Len() uint64 {\n\treturn uint64(len(x))\n}"
	lcG    = "var G uint64 = 7"
	lcV    = "func V(xs ...uint64) uint64 {\n\treturn uint64(len(xs))\n}"
	lcPair = "func Pair() (uint64, bool) {\n\treturn 1, true\n}"
	lcId   = "func Id(x uint64) uint64 {\n\treturn x\n}"
)

var c07LocRefs = []locRef{
	// ---- package-level variables
	{name: "global-assignment", ref: []string{lcG}, stmt: "§G = a", pkgable: true},
	{name: "global-op-assignment", ref: []string{lcG}, stmt: "§G += a", pkgable: true},
	{name: "global-increment", ref: []string{lcG}, stmt: "§G++", pkgable: true},
	{name: "global-decrement-in-loop-post", ref: []string{lcG}, stmt: "for i := uint64(0); i < a; §G-- {\n\tr = r + i\n\tbreak\n}"},
	{name: "global-address", ref: []string{lcG}, stmt: "p := &§G\nr = *p", pkgable: true},
	{name: "global-parallel-assignment", ref: []string{lcG}, stmt: "§G, r = a, a"},
	{name: "global-assigned-from-call-pair", ref: []string{lcG, lcPair}, stmt: "var ok bool\n§G, ok = §Pair()\nif ok {\n\tr = 1\n}"},
	{name: "global-as-range-variable", ref: []string{"var GI int = 0"}, stmt: "for §GI = range s {\n\tr = r + 1\n}"},
	{name: "global-as-loop-variable", ref: []string{lcG}, stmt: "for §G = 0; §G < a; §G++ {\n\tr = r + 1\n}"},
	{name: "global-struct-field-assignment", ref: []string{lcMT, "var GS = MT{V: 1}"}, stmt: "§GS.V = a", pkgable: true},
	{name: "global-struct-pointer-field-increment", ref: []string{lcMT, "var GP = &MT{V: 1}"}, stmt: "§GP.V++"},
	{name: "global-slice-element-assignment", ref: []string{"var GSl = make([]uint64, 3)"}, stmt: "§GSl[0] = a"},
	{name: "global-map-insert", ref: []string{"var GM = make(map[uint64]uint64)"}, stmt: "§GM[a] = a"},
	{name: "global-without-value-read", ref: []string{"var GN uint64"}, stmt: "r = §GN", expr: "§GN + 1"},
	{name: "global-array-length", ref: []string{"var GA [3]uint64"}, stmt: "r = uint64(len(§GA))", expr: "uint64(len(§GA))"},
	{name: "global-mutex-by-value", ref: []string{"var Mu sync.Mutex"}, stmt: "§Mu.Lock()\n§Mu.Unlock()", imports: []string{`"sync"`}},
	{name: "global-error-method-call", ref: []string{"var Fail error"}, stmt: "if §Fail.Error() == \"\" {\n\tr = 1\n}"},
	{name: "global-function-variable-call", ref: []string{lcId, "var Fn = Id"}, stmt: "r = §Fn(a)", expr: "§Fn(1)"},
	{name: "global-closure-variable-call", ref: []string{"var Cl = func(x uint64) uint64 {\n\treturn x\n}"}, stmt: "r = §Cl(a)", expr: "§Cl(1)"},
	// ---- constants
	{name: "string-constant-ordered-comparison", ref: []string{"const SC = \"m\""}, stmt: "x := \"k\"\nif x < §SC {\n\tr = 1\n}", pkgable: true},
	{name: "constant-in-switch-case", ref: []string{"const C1 uint64 = 1"}, stmt: "switch a {\ncase §C1:\n\tr = 2\n}", pkgable: true},
	{name: "constant-negated", ref: []string{"const C1 uint64 = 1"}, stmt: "r = -a + §C1", pkgable: true},
	{name: "constant-as-array-length", ref: []string{"const N = 3"}, stmt: "var arr [§N]uint64\nr = arr[0]"},
	{name: "float-constant-conversion", ref: []string{"const FC = 2.5"}, stmt: "var f float64 = §FC\nr = uint64(f)"},
	// ---- functions
	{name: "variadic-function-call", ref: []string{lcV}, stmt: "r = §V(a, a)", expr: "§V(1, 2)", pkgable: true},
	{name: "variadic-function-call-spread", ref: []string{lcV}, stmt: "r = §V(s...)", pkgable: true},
	{name: "call-with-multi-valued-argument", ref: []string{lcPair, "func Take2(x uint64, y bool) uint64 {\n\treturn x\n}"}, stmt: "r = §Take2(§Pair())", expr: "§Take2(§Pair())", pkgable: true},
	{name: "five-results-destructured", ref: []string{"func Five() (uint64, uint64, uint64, uint64, uint64) {\n\treturn 1, 2, 3, 4, 5\n}"}, stmt: "v1, v2, v3, v4, v5 := §Five()\nr = v1 + v2 + v3 + v4 + v5", pkgable: true},
	{name: "goroutine-with-arguments", ref: []string{"func Worker(x uint64) {\n}"}, stmt: "go §Worker(a)", pkgable: true},
	{name: "deferred-call", ref: []string{"func Cleanup() {\n}"}, stmt: "defer §Cleanup()", pkgable: true},
	{name: "if-with-init-call", ref: []string{lcId}, stmt: "if x := §Id(a); x > 0 {\n\tr = x\n}", pkgable: true},
	{name: "generic-function-instantiated-twice", ref: []string{"func Gen2[T any, U any](x T, y U) T {\n\treturn x\n}"}, stmt: "r = §Gen2[uint64, bool](a, true)", expr: "§Gen2[uint64, bool](1, true)", pkgable: true},
	{name: "function-value-compared-with-nil", ref: []string{lcId}, stmt: "f := §Id\nif f == nil {\n\tr = 0\n}\nr = f(a)"},
	{name: "parenthesised-callee", ref: []string{lcId}, stmt: "r = (§Id)(a)", expr: "(§Id)(1)", pkgable: true},
	{name: "function-with-named-result-called-in-switch", ref: []string{"func Named(x uint64) (res uint64) {\n\tres = x\n\treturn\n}"}, stmt: "switch §Named(a) {\ncase 1:\n\tr = 2\n}", pkgable: true},
	// ---- types
	{name: "array-type-variable-length", ref: []string{"type Arr [3]uint64"}, stmt: "var x §Arr\nr = uint64(len(x))", pkgable: true},
	{name: "named-slice-type-literal", ref: []string{lcSl}, stmt: "v := §Sl{}\nr = uint64(len(v))", expr: "uint64(len(§Sl{}))", pkgable: true},
	{name: "named-slice-type-sliced", ref: []string{lcSl}, stmt: "var v §Sl\nw := v[1:]\nr = uint64(len(w))", pkgable: true},
	{name: "named-map-type-literal", ref: []string{"type Mp map[uint64]uint64"}, stmt: "m := §Mp{}\nr = uint64(len(m))", pkgable: true},
	{name: "struct-literal-without-keys", ref: []string{lcMT}, stmt: "t := §MT{a}\nr = t.V"},
	{name: "struct-comparison", ref: []string{lcMT}, stmt: "if (§MT{V: 1}) == (§MT{V: a}) {\n\tr = 1\n}"},
	{name: "conversion-to-named-float-type", ref: []string{"type Fl float64"}, stmt: "r = uint64(§Fl(a))", expr: "uint64(§Fl(3))", pkgable: true},
	{name: "conversion-to-named-int-type", ref: []string{"type In int"}, stmt: "r = uint64(§In(a))", expr: "uint64(§In(3))", pkgable: true},
	{name: "named-pointer-type-dereference", ref: []string{"type Pt *uint64"}, stmt: "var p §Pt = new(uint64)\nr = *p", pkgable: true},
	{name: "embedded-field-selected", ref: []string{"type Base struct {\n\tV uint64\n}", "type Emb struct {\n\tBase\n}"}, stmt: "e := §Emb{}\nr = e.V", pkgable: true},
	{name: "function-typed-field-called", ref: []string{"type FnH struct {\n\tF func(uint64) uint64\n}"}, stmt: "h := &§FnH{}\nr = h.F(a)", pkgable: true},
	{name: "generic-struct-type-literal", ref: []string{"type Box[T any] struct {\n\tV T\n}"}, stmt: "b := §Box[uint64]{V: a}\nr = b.V", pkgable: true},
	{name: "named-function-type-conversion", ref: []string{lcId, "type FT func(uint64) uint64"}, stmt: "f := §FT(§Id)\nr = f(a)", pkgable: true},
	{name: "type-assertion-to-struct", ref: []string{"type I interface {\n\tM() uint64\n}", "type IV struct {\n\tV uint64\n}", "func (t IV) M() uint64 {\n\treturn t.V\n}", "func MkI() I {\n\treturn IV{V: 1}\n}"}, stmt: "i := §MkI()\nx := i.(§IV)\nr = x.M()"},
	{name: "type-switch-on-interface", ref: []string{"type I interface {\n\tM() uint64\n}", "type IV struct {\n\tV uint64\n}", "func (t IV) M() uint64 {\n\treturn t.V\n}", "func MkI() I {\n\treturn IV{V: 1}\n}"}, stmt: "i := §MkI()\nswitch i.(type) {\ncase §IV:\n\tr = 1\n}"},
	{name: "pointer-passed-as-interface", ref: []string{"type I interface {\n\tM() uint64\n}", "type IP struct {\n\tV uint64\n}", "func (t *IP) M() uint64 {\n\treturn t.V\n}", "func UseI(i I) uint64 {\n\treturn i.M()\n}"}, stmt: "r = §UseI(&§IP{V: a})", pkgable: true},
	{name: "anonymous-struct-of-named-field-type", ref: []string{lcMT}, stmt: "x := struct{ in §MT }{in: §MT{V: a}}\nr = x.in.V", pkgable: true},
	// ---- methods
	{name: "method-expression", ref: []string{lcMT, lcMTm}, stmt: "f := §MT.Get\nr = f(§MT{V: a})", pkgable: true},
	{name: "method-value-of-named-slice-type", ref: []string{lcSl, lcSlm}, stmt: "var v §Sl\nf := v.Len\nr = f()", pkgable: true},
	{name: "method-call-on-named-slice-type", ref: []string{lcSl, lcSlm}, stmt: "var v §Sl\nr = v.Len()", pkgable: true},
	{name: "goroutine-method-with-arguments", ref: []string{"type WT struct {\n\tV uint64\n}", "func (t *WT) Work(x uint64) {\n}"}, stmt: "t := &§WT{}\ngo t.Work(a)", pkgable: true},
	{name: "deferred-method-call", ref: []string{"type WT struct {\n\tV uint64\n}", "func (t *WT) Done() {\n}"}, stmt: "t := &§WT{}\ndefer t.Done()", pkgable: true},
	{name: "variadic-method-call", ref: []string{"type WT struct {\n\tV uint64\n}", "func (t *WT) Sum(xs ...uint64) uint64 {\n\treturn t.V\n}"}, stmt: "t := &§WT{}\nr = t.Sum(a, a)", pkgable: true},
	{name: "method-of-generic-type-called", ref: []string{"type GB[T any] struct {\n\tV T\n}", "func (b *GB[T]) Get() T {\n\treturn b.V\n}"}, stmt: "b := &§GB[uint64]{V: a}\nr = b.Get()", pkgable: true},
	// ---- names of the library
	{name: "imported-mutex-try-lock", stmt: "mu := new(sync.Mutex)\nif mu.TryLock() {\n\tr = 1\n}", imports: []string{`"sync"`}},
	{name: "imported-mutex-by-value", stmt: "var mu sync.Mutex\nmu.Lock()\nmu.Unlock()", imports: []string{`"sync"`}},
	{name: "imported-strings-function", stmt: "r = uint64(len(strings.Repeat(\"a\", 3)))", expr: "uint64(len(strings.Repeat(\"a\", 3)))", imports: []string{`"strings"`}},
	{name: "imported-errors-new", stmt: "e := errors.New(\"x\")\nif e != nil {\n\tr = 1\n}", imports: []string{`"errors"`}},
}

var lcContainers = []string{"function", "method", "closure", "loop-body", "variable-initialiser"}
var lcPlacements = []string{"same-file-before", "same-file-after", "other-file-sorting-before", "other-file-sorting-after", "other-package"}

type locCase struct {
	ref         locRef
	container   string
	placement   string
	rel         string
	files       map[string]string
	extra       map[string]map[string]string
	useName     string            // declName of the referring declaration
	refNames    []string          // declNames of the referred declarations (inside this package)
	goodDefs    []string          // Coq names that must be defined under -ignore-errors, whatever happens to the referring declaration
	refDefs     map[string]string // declName of a referred declaration -> Coq name
	calibration bool
	// results
	exit    int
	located map[string]int
	judged  bool
}

func coqNameOfDecl(dn string) string { return strings.ReplaceAll(dn, ".", "__") }

func padding(rng *core.Rng, what string) string {
	n := rng.Intn(4)
	if n == 0 {
		return ""
	}
	return strings.Repeat("// "+what+"\n", n) + "\n"
}

// buildLocCase lays out one package. calibration: the referring declaration is left out.
func buildLocCase(lr locRef, container, placement, rel string, rng *core.Rng, calibration bool) *locCase {
	lc := &locCase{ref: lr, container: container, placement: placement, rel: rel, files: map[string]string{}, refDefs: map[string]string{}, calibration: calibration}
	prefix := ""
	if placement == "other-package" {
		prefix = "dep."
	}
	stmt := strings.ReplaceAll(lr.stmt, "§", prefix)
	expr := strings.ReplaceAll(lr.expr, "§", prefix)
	var use string
	body := func(inner string) string {
		return "(a uint64, s []uint64) uint64 {\n\tvar r uint64 = a\n" + indentBy(inner, 1) + "\n\treturn r\n}"
	}
	var holder string
	switch container {
	case "function":
		use, lc.useName = "func Use"+body(stmt), "Use"
	case "method":
		holder = "type Holder struct {\n\tv uint64\n}"
		use, lc.useName = "func (hd *Holder) Use"+body(stmt), "Holder.Use"
	case "closure":
		use, lc.useName = "func Use"+body("f := func() {\n"+indentBy(stmt, 1)+"\n}\nf()"), "Use"
	case "loop-body":
		use, lc.useName = "func Use"+body("for j := uint64(0); j < a; j++ {\n"+indentBy(stmt, 1)+"\n}"), "Use"
	case "variable-initialiser":
		use, lc.useName = "var Use = "+expr, "Use"
	}
	good := func(n string, k int) string {
		return fmt.Sprintf("func %s(a uint64) uint64 {\n\treturn a + %d\n}", n, k)
	}
	for _, d := range lr.ref {
		dn := supportName(d)
		lc.refNames = append(lc.refNames, dn)
		lc.refDefs[dn] = coqNameOfDecl(dn)
	}
	refBlock := []string{}
	for _, d := range lr.ref {
		refBlock = append(refBlock, padding(rng, "referred")+d)
	}
	var useBlock []string
	if !calibration {
		useBlock = []string{padding(rng, "the referring declaration") + use}
	}
	var useFile, otherFile []string
	useFile = append(useFile, good("GoodA", 1))
	if holder != "" {
		useFile = append(useFile, holder)
		lc.goodDefs = append(lc.goodDefs, "Holder")
	}
	lc.goodDefs = append(lc.goodDefs, "GoodA", "GoodZ")
	mid := func() string { return good("GoodM", 3) }
	switch placement {
	case "same-file-before":
		useFile = append(useFile, refBlock...)
		useFile = append(useFile, mid())
		useFile = append(useFile, useBlock...)
		lc.goodDefs = append(lc.goodDefs, "GoodM")
	case "same-file-after":
		useFile = append(useFile, useBlock...)
		useFile = append(useFile, mid())
		useFile = append(useFile, refBlock...)
		lc.goodDefs = append(lc.goodDefs, "GoodM")
	default:
		useFile = append(useFile, useBlock...)
		otherFile = append(otherFile, good("GoodO", 4))
		otherFile = append(otherFile, refBlock...)
		otherFile = append(otherFile, good("GoodP", 5))
	}
	useFile = append(useFile, good("GoodZ", 2))
	imports := append([]string{}, lr.imports...)
	switch placement {
	case "other-package":
		depImp := fmt.Sprintf("%q", modPath+"/"+rel+"/dep")
		lc.files["m_use.go"] = buildFile("lc", importsUsed(append(imports, depImp), useFile), useFile)
		lc.extra = map[string]map[string]string{filepath.Join(rel, "dep"): {"dep.go": buildFile("dep", importsUsed(imports, otherFile), otherFile)}}
		lc.refNames = nil // not declarations of this package
	case "other-file-sorting-before":
		lc.files["m_use.go"] = buildFile("lc", importsUsed(imports, useFile), useFile)
		lc.files["a_decl.go"] = buildFile("lc", importsUsed(imports, otherFile), otherFile)
		lc.goodDefs = append(lc.goodDefs, "GoodO", "GoodP")
	case "other-file-sorting-after":
		lc.files["m_use.go"] = buildFile("lc", importsUsed(imports, useFile), useFile)
		lc.files["z_decl.go"] = buildFile("lc", importsUsed(imports, otherFile), otherFile)
		lc.goodDefs = append(lc.goodDefs, "GoodO", "GoodP")
	default:
		lc.files["m_use.go"] = buildFile("lc", importsUsed(imports, useFile), useFile)
	}
	return lc
}

func (lc *locCase) id() string {
	if lc.calibration {
		return "locate/" + lc.ref.name + "/referred-declarations-alone"
	}
	return "locate/" + lc.ref.name + "/" + lc.container + "/" + lc.placement
}

func (c *c07Ctx) runLocate() {
	r := c.r
	root := filepath.Join(r.Scratch, "c07locate")
	if err := writeModule(root); err != nil {
		r.Inconclusive("locate-module-not-written")
		return
	}
	rng := core.NewRng(r.Seed, "c07-locate")
	var cases, calib []*locCase
	for ri, lr := range c07LocRefs {
		kr := rng.Fork(lr.name)
		if len(lr.ref) > 0 {
			calib = append(calib, buildLocCase(lr, "function", "same-file-before", fmt.Sprintf("k%02dcal/lc", ri), kr.Fork("cal"), true))
		}
		var conts []string
		for _, ct := range lcContainers {
			if ct == "variable-initialiser" && lr.expr == "" {
				continue
			}
			conts = append(conts, ct)
		}
		if r.Quick() {
			// the plain function always; one further container drawn by the seed
			pick := conts[1+kr.Intn(len(conts)-1)]
			conts = []string{"function", pick}
		}
		for ci, ct := range conts {
			for pi, pl := range lcPlacements {
				if len(lr.ref) == 0 && pl != "same-file-before" {
					continue // names of the library have one placement
				}
				if pl == "other-package" && !lr.pkgable {
					continue
				}
				if r.Quick() && ci > 0 && pl != "other-file-sorting-before" && pl != "same-file-after" {
					continue
				}
				rel := fmt.Sprintf("k%02dc%dp%d/lc", ri, ci, pi)
				cases = append(cases, buildLocCase(lr, ct, pl, rel, kr.Fork(rel), false))
			}
		}
	}
	all := append(append([]*locCase{}, calib...), cases...)
	for _, lc := range all {
		writePkg(root, lc.rel, lc.files)
		for rel, fs := range lc.extra {
			writePkg(root, rel, fs)
		}
	}
	settleModule(root)
	outPlain, outIgn := filepath.Join(root, "out_plain"), filepath.Join(root, "out_ignore")
	notLoading := map[string]bool{}
	core.Parallel(len(all), 16, func(i int) {
		lc := all[i]
		in := &c07Input{ID: lc.id(), Workload: "locate", Desc: lc.id(), Rel: lc.rel, Pattern: "./" + lc.rel, Files: lc.files, Extra: lc.extra}
		pkgDir := filepath.Join(root, lc.rel)
		o := c07Exec(c.bin, root, outPlain, nil, nil, in.Pattern)
		r.Count("goose_invocations", 1)
		loc := c.judge(in, o, pkgDir, vPath(outPlain, lc.rel), false)
		if o.TimedOut || o.Crash {
			return
		}
		if o.LoadError {
			c.mu.Lock()
			notLoading[lc.id()] = true
			c.mu.Unlock()
			if r.GetCount("diag_locate_load") < 6 {
				r.Count("diag_locate_load", 1)
				fmt.Fprintf(os.Stderr, "C07 locate: %s does not load (generator defect): %s\n", lc.id(), clip(o.Stderr, 500))
			}
			return
		}
		lc.exit, lc.located, lc.judged = o.Exit, loc, true
		if lc.calibration || o.Exit == 0 {
			return
		}
		// partial output: everything but the declarations with an error is still emitted
		o2 := c07Exec(c.bin, root, outIgn, nil, []string{"-ignore-errors"}, in.Pattern)
		r.Count("goose_invocations", 1)
		in2 := *in
		in2.ID += "[-ignore-errors]"
		c.judge(&in2, o2, pkgDir, "", true)
		if o2.TimedOut || o2.Crash || o2.LoadError {
			return
		}
		detail := map[string]interface{}{"case": lc.id(), "files": lc.files, "stderr": clip(o.Stderr, 3000), "errors_located_in": o.Located}
		vb, err := os.ReadFile(vPath(outIgn, lc.rel))
		if err != nil {
			r.Violate("no-partial-output-under-ignore-errors", fmt.Sprintf("%s: goose -ignore-errors wrote no output file", lc.id()), detail)
			return
		}
		defined := map[string]bool{}
		for _, l := range strings.Split(string(vb), "\n") {
			f := strings.Fields(l)
			if len(f) >= 2 && (f[0] == "Definition" || f[0] == "Notation" || f[0] == "Axiom") {
				defined[strings.TrimSuffix(f[1], ":")] = true
			}
		}
		want := append([]string{}, lc.goodDefs...)
		for _, dn := range lc.refNames {
			if loc[dn] == 0 {
				want = append(want, lc.refDefs[dn])
			}
		}
		var lost []string
		for _, w := range want {
			if !defined[w] {
				lost = append(lost, w)
			}
		}
		r.Count("locate/good_declarations_checked_under_ignore_errors", int64(len(want)))
		if len(lost) > 0 {
			detail["emitted"] = clip(string(vb), 4000)
			r.Violate("good-declaration-missing-under-ignore-errors", fmt.Sprintf("%s: under -ignore-errors the output lacks %v, none of which carries an error", lc.id(), lost), detail)
		}
	})

	// calibration: which referred declarations are refused on their own account
	selfErr := map[string]map[string]int{}
	for _, lc := range calib {
		if lc.judged {
			selfErr[lc.ref.name] = lc.located
		}
	}
	// verdicts per reference kind and container, over the placements
	type groupKey struct{ kind, container string }
	groups := map[groupKey][]*locCase{}
	for _, lc := range cases {
		if lc.judged {
			groups[groupKey{lc.ref.name, lc.container}] = append(groups[groupKey{lc.ref.name, lc.container}], lc)
		}
	}
	table := map[string]map[string]interface{}{}
	var keys []groupKey
	for k := range groups {
		keys = append(keys, k)
	}
	sort.Slice(keys, func(i, j int) bool {
		if keys[i].kind != keys[j].kind {
			return keys[i].kind < keys[j].kind
		}
		return keys[i].container < keys[j].container
	})
	for _, k := range keys {
		g := groups[k]
		self, haveCal := selfErr[k.kind]
		if len(g[0].ref.ref) == 0 {
			self, haveCal = map[string]int{}, true
		}
		if !haveCal {
			r.Inconclusive("locate-calibration-missing")
			continue
		}
		row := table[k.kind]
		if row == nil {
			row = map[string]interface{}{"referred_declarations_refused_on_their_own": sortedKeys(self)}
			table[k.kind] = row
		}
		refusedIn, acceptedIn := []string{}, []string{}
		otherPkg := ""
		for _, lc := range g {
			r.Distinct("locate " + lc.ref.name + " × " + lc.container + " × " + lc.placement)
			r.Count("locate/cases_judged", 1)
			r.Count("locate/placement/"+lc.placement, 1)
			r.Count("locate/container/"+lc.container, 1)
			detail := map[string]interface{}{"case": lc.id(), "files": lc.files, "other_package": lc.extra, "exit": lc.exit, "errors_located_in": lc.located, "referring_declaration": lc.useName, "referred_declarations": lc.refNames, "referred_declarations_refused_alone": self}
			if lc.exit == 0 {
				// names of another package are translated differently from names of the package itself: whether the construct
				// is refused there is a question of its own, and only the four placements inside the package are compared
				if lc.placement == "other-package" {
					otherPkg = "accepted"
				} else {
					acceptedIn = append(acceptedIn, lc.placement)
				}
				continue
			}
			var elsewhere []string
			for dn, n := range lc.located {
				switch {
				case dn == lc.useName:
				case self[dn] > 0 && n <= self[dn]:
				case self[dn] > 0:
					elsewhere = append(elsewhere, fmt.Sprintf("%s (%d errors, %d when it stands alone)", dn, n, self[dn]))
				default:
					elsewhere = append(elsewhere, dn)
				}
			}
			sort.Strings(elsewhere)
			if len(elsewhere) > 0 {
				r.Violate("error-located-in-a-declaration-that-is-not-the-offending-one:"+k.kind,
					fmt.Sprintf("%s: the refused construct stands in %s, but goose locates an error in %v, which translates without error when %s is absent (errors per declaration: %v)", lc.id(), lc.useName, elsewhere, lc.useName, lc.located), detail)
				continue
			}
			if lc.located[lc.useName] > 0 {
				r.Count("locate/errors_inside_the_referring_declaration", 1)
				if lc.placement == "other-package" {
					otherPkg = "refused"
				} else {
					refusedIn = append(refusedIn, lc.placement)
				}
			} else if lc.placement != "other-package" {
				// errors only in referred declarations that are refused anyway: the construct itself was accepted
				acceptedIn = append(acceptedIn, lc.placement)
			}
		}
		row[k.container] = map[string]interface{}{"refused_with_error_in_the_referring_declaration": refusedIn, "referring_declaration_accepted": acceptedIn, "with_the_referred_declarations_in_another_package": otherPkg}
		if len(refusedIn) > 0 && len(acceptedIn) > 0 {
			r.Violate("refusal-depends-on-where-the-referred-declaration-stands:"+k.kind,
				fmt.Sprintf("reference %s inside a %s: the referring declaration gets an error when the referred declaration stands %v and none when it stands %v", k.kind, k.container, refusedIn, acceptedIn),
				map[string]interface{}{"kind": k.kind, "container": k.container, "files_of_a_refused_placement": firstFiles(g, refusedIn[0]), "files_of_an_accepted_placement": firstFiles(g, acceptedIn[0])})
		}
		if len(refusedIn) > 0 {
			r.Count("locate/reference_kinds_x_containers_refused", 1)
		} else {
			r.Count("locate/reference_kinds_x_containers_accepted", 1)
		}
	}
	r.Set("locate_reference_kinds", table)
	r.Set("locate_reference_kinds_generated", len(c07LocRefs))
	r.Set("locate_cases_not_loading", sortedKeys(notLoading))
}

func firstFiles(g []*locCase, placement string) map[string]string {
	for _, lc := range g {
		if lc.placement == placement {
			return lc.files
		}
	}
	return nil
}
