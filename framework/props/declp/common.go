// Package declp holds the checks for C04 (every declaration emitted once,
// uniquely named, defined before use) and C07 (goose never crashes: complete
// output or structured, located conversion errors). Both are black-box
// monitors of the goose binary built from /repo's working tree, run on
// generated scratch Go modules; emitted files are read back with the Coq
// reader (verif/gl); expectations come from go/parser + go/types on the
// sources, never from /repo code.
//
// VERIF_GOOSE_BIN=<path>: use this goose binary instead of building
// /repo/cmd/goose (used only for mutation confirmation, where goose is built
// from a scratch copy of /repo). The override lives in gooseBin below.
package declp

import (
	"fmt"
	"os"
	"path/filepath"
	"regexp"
	"sort"
	"strconv"
	"strings"
	"time"

	"verif/core"
)

const modPath = "example.com/vb"

// gooseBin returns the binary under test.
func gooseBin(r *core.Run) (string, error) {
	if p := os.Getenv("VERIF_GOOSE_BIN"); p != "" {
		if _, err := os.Stat(p); err != nil {
			return "", fmt.Errorf("VERIF_GOOSE_BIN=%s: %v", p, err)
		}
		r.Set("goose_binary_override", p)
		return p, nil
	}
	return r.BuildGoose()
}

// setGoEnvInProcess makes go/build (used by the source importer) see the same
// offline environment as the child processes.
func setGoEnvInProcess() {
	os.Setenv("GOFLAGS", "-mod=mod")
	os.Setenv("GOPROXY", "off")
	os.Setenv("GOSUMDB", "off")
	os.Setenv("GOTOOLCHAIN", "local")
}

// writeModule lays out go.mod/go.sum of a scratch module (same shape as gorun's).
func writeModule(dir string) error {
	gomod := fmt.Sprintf("module %s\n\ngo 1.22\n\nrequire github.com/goose-lang/goose v0.0.0\n\nreplace github.com/goose-lang/goose => %s\n", modPath, core.RepoDir)
	if err := core.WriteFile(filepath.Join(dir, "go.mod"), gomod); err != nil {
		return err
	}
	sum, err := os.ReadFile(filepath.Join(core.RepoDir, "go.sum"))
	if err != nil {
		return err
	}
	return core.WriteFile(filepath.Join(dir, "go.sum"), string(sum))
}

// writePkg writes one package (relative directory rel inside the module).
func writePkg(modDir, rel string, files map[string]string) error {
	for n, c := range files {
		if err := core.WriteFile(filepath.Join(modDir, rel, n), c); err != nil {
			return err
		}
	}
	return nil
}

// vPath is where goose is documented to write the file of package <modPath>/<rel>.
func vPath(outDir, rel string) string {
	p := strings.NewReplacer(".", "_", "-", "_").Replace(modPath + "/" + rel)
	return filepath.Join(outDir, p+".v")
}

// runGoose runs the binary in modDir.
func runGoose(bin, modDir, outDir string, timeout time.Duration, extraEnv []string, flags []string, patterns ...string) core.ExecResult {
	os.MkdirAll(outDir, 0o755)
	args := append([]string{"-out", outDir}, flags...)
	args = append(args, patterns...)
	env := append(core.GoEnv(), extraEnv...)
	return core.Exec(modDir, env, timeout, "", bin, args...)
}

// ---------------------------------------------------------------- stderr grammar

var ansiRe = regexp.MustCompile("\x1b\\[[0-9;]*m")

var categories = map[string]bool{
	"unsupported": true, "todo": true, "future": true, "impossible(go)": true, "impossible(no-examples)": true,
}

// errBlock is one structured conversion error as printed by goose.
type errBlock struct {
	Category string   `json:"category"`
	Message  string   `json:"message"`
	Code     []string `json:"go_code"`
	Site     string   `json:"goose_site"`
	SrcFile  string   `json:"src_file"`
	Line     int      `json:"line"`
	Col      int      `json:"col"`
	Problems []string `json:"problems,omitempty"` // ways in which the block departs from the documented shape
}

// report is what goose printed for one failing package.
type report struct {
	Kind     string     // conversion | load | other
	PkgPath  string     // for load reports
	Blocks   []errBlock // conversion
	Declared int        // the "N errors" trailer (-1 if absent)
	Problems []string
	Raw      string
}

var (
	hdrRe    = regexp.MustCompile(`^\[([^\]]*)\]: (.*)$`)
	siteRe   = regexp.MustCompile(`^  (\S.*\.go):(\d+)$`)
	srcRe    = regexp.MustCompile(`^  src: (.*)$`)
	srcPosRe = regexp.MustCompile(`^(.+):(\d+):(\d+)$`)
	nErrRe   = regexp.MustCompile(`^(\d+) errors$`)
	crashRe  = regexp.MustCompile(`(?m)^(panic: |\s*panic: |goroutine \d+ \[running\]|fatal error: |\[signal SIG)`)
)

// parseStderr reads goose's stderr (exit status 0 or 1, no crash) as a
// sequence of per-package reports. Anything that does not fit the documented
// shape is recorded as a problem, never silently skipped.
func parseStderr(stderr string) (reps []report, stray []string) {
	s := ansiRe.ReplaceAllString(stderr, "")
	lines := strings.Split(s, "\n")
	i := 0
	for i < len(lines) {
		l := lines[i]
		switch {
		case strings.TrimSpace(l) == "":
			i++
		case strings.HasPrefix(l, "conversion failed: "):
			rep := report{Kind: "conversion", Declared: -1}
			start := i
			lines[i] = strings.TrimPrefix(l, "conversion failed: ")
			for {
				// one block starting at lines[i]
				var b errBlock
				m := hdrRe.FindStringSubmatch(lines[i])
				if m == nil {
					b.Problems = append(b.Problems, "header-not-[category]:-message")
					b.Message = lines[i]
				} else {
					b.Category, b.Message = m[1], m[2]
					if !categories[b.Category] {
						b.Problems = append(b.Problems, "unknown-category")
					}
				}
				// find the goose-site / src pair that closes the block
				j := i + 1
				found := false
				for ; j < len(lines); j++ {
					if srcRe.MatchString(lines[j]) && j-1 > i && siteRe.MatchString(lines[j-1]) {
						found = true
						break
					}
					if strings.HasPrefix(lines[j], "conversion failed: ") || strings.HasPrefix(lines[j], "could not load package ") {
						break
					}
					if nErrRe.MatchString(lines[j]) && j > 0 && lines[j-1] == "" {
						break
					}
				}
				if !found {
					// a block without the two trailer lines: look for either of them alone
					b.Problems = append(b.Problems, "no-goose-site-and-src-lines")
					for k := i + 1; k < j; k++ {
						if sm := srcRe.FindStringSubmatch(lines[k]); sm != nil {
							b.Problems[len(b.Problems)-1] = "src-line-without-goose-site-line"
							setSrc(&b, sm[1])
						}
					}
					rep.Blocks = append(rep.Blocks, b)
					i = j
					// resynchronise: continue at the trailer / next report
					if i < len(lines) && nErrRe.MatchString(lines[i]) {
						n, _ := strconv.Atoi(nErrRe.FindStringSubmatch(lines[i])[1])
						rep.Declared = n
						i++
					}
					break
				}
				b.Code = append([]string{}, lines[i+1:j-1]...)
				b.Site = strings.TrimSpace(lines[j-1])
				setSrc(&b, srcRe.FindStringSubmatch(lines[j])[1])
				rep.Blocks = append(rep.Blocks, b)
				i = j + 1
				// separator: blank line, then next header or the trailer
				if i < len(lines) && lines[i] == "" {
					i++
				} else {
					rep.Problems = append(rep.Problems, "no-blank-line-after-block")
				}
				if i < len(lines) {
					if m := nErrRe.FindStringSubmatch(lines[i]); m != nil {
						n, _ := strconv.Atoi(m[1])
						rep.Declared = n
						i++
						break
					}
				}
				if i >= len(lines) || strings.TrimSpace(lines[i]) == "" && i == len(lines)-1 {
					rep.Problems = append(rep.Problems, "no-N-errors-trailer")
					break
				}
			}
			if rep.Declared >= 0 && rep.Declared != len(rep.Blocks) {
				rep.Problems = append(rep.Problems, fmt.Sprintf("trailer-count-differs-from-blocks-read: trailer says %d errors, %d blocks read", rep.Declared, len(rep.Blocks)))
			}
			if rep.Declared < 0 && len(rep.Problems) == 0 {
				rep.Problems = append(rep.Problems, "no-N-errors-trailer")
			}
			end := i
			if end > len(lines) {
				end = len(lines)
			}
			rep.Raw = strings.Join(lines[start:end], "\n")
			reps = append(reps, rep)
		case strings.HasPrefix(l, "could not load package "):
			rep := report{Kind: "load", Declared: -1}
			rep.PkgPath = strings.TrimSuffix(strings.TrimPrefix(l, "could not load package "), ":")
			start := i
			i++
			for i < len(lines) {
				if m := nErrRe.FindStringSubmatch(lines[i]); m != nil && lines[i-1] == "" {
					i++
					break
				}
				if strings.HasPrefix(lines[i], "conversion failed: ") || strings.HasPrefix(lines[i], "could not load package ") {
					break
				}
				i++
			}
			rep.Raw = strings.Join(lines[start:minInt(i, len(lines))], "\n")
			reps = append(reps, rep)
		case l == "patterns matched no packages":
			reps = append(reps, report{Kind: "other", Raw: l, Declared: -1})
			i++
		default:
			stray = append(stray, l)
			i++
		}
	}
	return
}

func setSrc(b *errBlock, s string) {
	m := srcPosRe.FindStringSubmatch(s)
	if m == nil {
		b.SrcFile = s
		b.Problems = append(b.Problems, "src-not-file:line:col")
		return
	}
	b.SrcFile = m[1]
	b.Line, _ = strconv.Atoi(m[2])
	b.Col, _ = strconv.Atoi(m[3])
}

func minInt(a, b int) int {
	if a < b {
		return a
	}
	return b
}

// ---------------------------------------------------------------- crash signatures

var (
	hexRe      = regexp.MustCompile(`0x[0-9a-fA-F]+`)
	numRe      = regexp.MustCompile(`[0-9]+`)
	typeTokRe  = regexp.MustCompile(`(\*|\[\]|map\[)*[A-Za-z_][A-Za-z0-9_/]*\.[A-Za-z_][A-Za-z0-9_.]*(\{[^}]*\})?`)
	nonWordRe  = regexp.MustCompile(`[^A-Za-z0-9]+`)
	gooseFnRe  = regexp.MustCompile(`^github\.com/goose-lang/goose(/[A-Za-z0-9_/]+)?\.(.+)$`)
	gorHeadRe  = regexp.MustCompile(`^goroutine \d+ \[`)
	panicLnRe  = regexp.MustCompile(`^\s*panic: (.*)$`)
	fatalLnRe  = regexp.MustCompile(`^fatal error: (.*)$`)
	trimArgsRe = regexp.MustCompile(`\(.*$`)
)

// isCrash reports whether an execution of goose aborted instead of terminating normally.
func isCrash(res core.ExecResult) bool {
	if res.TimedOut {
		return false
	}
	if res.Code >= 2 || res.Code < 0 || res.Signaled {
		return true
	}
	return crashRe.MatchString(ansiRe.ReplaceAllString(res.Stderr, ""))
}

// crashSignature = abstracted panic message + "@" + topmost frame inside
// github.com/goose-lang/goose (function name only), e.g.
// runtime-error-invalid-memory-address-or-nil-pointer-dereference@goose.isDisk
func crashSignature(res core.ExecResult) (sig, message, frame string) {
	s := ansiRe.ReplaceAllString(res.Stderr, "")
	lines := strings.Split(s, "\n")
	msg := ""
	for _, l := range lines {
		if m := panicLnRe.FindStringSubmatch(l); m != nil {
			msg = m[1] // the last "panic:" line before the trace is the innermost re-panic; all carry the same text
			break
		}
		if m := fatalLnRe.FindStringSubmatch(l); m != nil {
			msg = "fatal error: " + m[1]
			break
		}
	}
	message = msg
	msg = strings.TrimSpace(strings.TrimSuffix(strings.TrimSpace(msg), "[recovered]"))
	// frames of the first goroutine block
	frame = "no-goose-frame"
	in := false
	lastPanic := -1
	var fr []string
	for _, l := range lines {
		if gorHeadRe.MatchString(l) {
			if in {
				break
			}
			in = true
			continue
		}
		if !in {
			continue
		}
		if strings.TrimSpace(l) == "" {
			break
		}
		if strings.HasPrefix(l, "\t") || strings.HasPrefix(l, " ") {
			continue // file:line of the previous frame
		}
		fr = append(fr, l)
		if strings.HasPrefix(l, "panic(") {
			lastPanic = len(fr) - 1
		}
	}
	for k := lastPanic + 1; k < len(fr); k++ {
		name := trimArgsRe.ReplaceAllString(fr[k], "")
		if m := gooseFnRe.FindStringSubmatch(name); m != nil {
			pkg := "goose"
			if m[1] != "" {
				pkg = filepath.Base(m[1])
			}
			frame = pkg + "." + m[2]
			break
		}
	}
	if msg == "" {
		switch {
		case res.Signaled || res.Code < 0:
			msg = "killed by signal"
		default:
			msg = fmt.Sprintf("exit status %d without panic message", res.Code)
		}
	}
	return abstractMessage(msg) + "@" + frame, message, frame
}

func abstractMessage(msg string) string {
	m := msg
	// Go prints error values as their Error() text, possibly wrapped
	m = hexRe.ReplaceAllString(m, "X")
	if strings.HasPrefix(m, "interface conversion:") {
		m = "interface conversion"
	} else if i := strings.Index(m, ", got "); i >= 0 {
		m = m[:i] + " got T"
	} else if strings.HasPrefix(m, "multiple ffis used") {
		m = "multiple ffis used"
	}
	m = typeTokRe.ReplaceAllString(m, "T")
	m = numRe.ReplaceAllString(m, "N")
	m = nonWordRe.ReplaceAllString(m, "-")
	m = strings.Trim(m, "-")
	m = strings.ToLower(m)
	if len(m) > 70 {
		m = m[:70]
	}
	if m == "" {
		m = "empty-panic-message"
	}
	return m
}

// ---------------------------------------------------------------- misc

func sortedKeys[V any](m map[string]V) []string {
	ks := make([]string, 0, len(m))
	for k := range m {
		ks = append(ks, k)
	}
	sort.Strings(ks)
	return ks
}

func clip(s string, n int) string {
	if len(s) > n {
		return s[:n] + "…"
	}
	return s
}

func firstLines(s string, n int) string {
	ls := strings.Split(s, "\n")
	if len(ls) > n {
		ls = ls[:n]
	}
	return strings.Join(ls, "\n")
}
