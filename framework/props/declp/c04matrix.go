package declp

import (
	"fmt"
	"go/ast"
	"go/parser"
	"go/token"
	"go/types"
	"regexp"
	"sort"
	"strings"
)

// c04matrix.go: GENERATED atom families of the C04 workload.
//
//   type-matrix    every kind of local type declaration (struct, interface,
//                  named types over basic / slice / map / another named type,
//                  aliases to a basic type, a struct, a named type, slices /
//                  maps / pointers of local types, alias of alias) as the
//                  TARGET of every reference form the generator knows, the
//                  USER being a function, a method, a struct, a named type, an
//                  alias, an interface, a typed constant or a typed global.
//   value-matrix   functions, methods, constants and globals as targets of
//                  users of every kind that can mention a value.
//   imported-twin  the same reference forms applied to objects of two helper
//                  packages (types, functions, constants, globals) in a
//                  declaration D, while the package under test declares a
//                  top-level TWIN with the bare name of the imported object
//                  (of every declaration kind) that depends on D, directly or
//                  through a middle declaration. An imported object is not a
//                  same-package dependency: the twin must come after D.
//
// All families are acyclic by construction; expected names and the
// dependency graph still come from go/types (c04Analyze).

// ---------------------------------------------------------------- helper packages

var c04HelperPkgs = map[string]map[string]string{
	"conf": {"conf.go": `package conf

type Limit uint64

type Rec struct {
	A uint64
}

type List []uint64

type Table map[uint64]uint64

type Shape interface {
	Area() uint64
}

const Max uint64 = 7

var Level uint64 = 3

func Zero() uint64 {
	return 0
}

func Default() Limit {
	return 8
}

func (r Rec) Get() uint64 {
	return r.A
}
`},
	// the same bare names under other kinds
	"alt": {"alt.go": `package alt

type Max uint64

type Level struct {
	A uint64
}

type Zero []uint64

const Rec uint64 = 9

var List uint64 = 2

func Limit() uint64 {
	return 4
}

func Table() uint64 {
	return 5
}
`},
}

// c04HelperImporter type-checks the helper packages from the texts above (they import nothing).
type c04HelperImp struct {
	pkgs map[string]*types.Package
}

func (h *c04HelperImp) Import(path string) (*types.Package, error) {
	return h.ImportFrom(path, "", 0)
}

func (h *c04HelperImp) ImportFrom(path, dir string, mode types.ImportMode) (*types.Package, error) {
	if p, ok := h.pkgs[path]; ok {
		return p, nil
	}
	return nil, fmt.Errorf("not a helper package: %s", path)
}

func c04HelperImporter() (*c04HelperImp, error) {
	h := &c04HelperImp{pkgs: map[string]*types.Package{}}
	for _, name := range sortedKeys(c04HelperPkgs) {
		fset := token.NewFileSet()
		var files []*ast.File
		for _, fn := range sortedKeys(c04HelperPkgs[name]) {
			f, err := parser.ParseFile(fset, fn, c04HelperPkgs[name][fn], 0)
			if err != nil {
				return nil, err
			}
			files = append(files, f)
		}
		path := modPath + "/" + name
		pk, err := (&types.Config{}).Check(path, fset, files, nil)
		if err != nil {
			return nil, err
		}
		h.pkgs[path] = pk
	}
	return h, nil
}

var helperRefRe = map[string]*regexp.Regexp{}

func init() {
	for name := range c04HelperPkgs {
		helperRefRe[name] = regexp.MustCompile(`(^|[^A-Za-z0-9_.])` + name + `\.`)
	}
}

// attachHelpers fills Imports / Refs / Extra of a set from the texts of its units.
func (ds *declSet) attachHelpers() {
	used := map[string]bool{}
	ds.Refs = make([][]string, len(ds.Units))
	for i, u := range ds.Units {
		for _, name := range sortedKeys(c04HelperPkgs) {
			if helperRefRe[name].MatchString(u) {
				ds.Refs[i] = append(ds.Refs[i], name)
				used[name] = true
			}
		}
	}
	if len(used) == 0 {
		ds.Refs = nil
		return
	}
	ds.Helper = true
	ds.Extra = map[string]map[string]string{}
	for _, name := range sortedKeys(used) {
		path := modPath + "/" + name
		ds.Imports = append(ds.Imports, importSpec{Name: name, Path: path, Text: fmt.Sprintf("%q", path)})
		ds.Extra[name] = c04HelperPkgs[name]
	}
}

// ---------------------------------------------------------------- types that are mentioned

// c04Ty is a type that user declarations mention: a local declaration (Decl != "") or an object of a helper package.
type c04Ty struct {
	Name   string   // kind of the target, part of the atom name
	Pre    []string // declarations the target itself needs
	Decl   string   // the target declaration ("" for an imported type)
	Expr   string   // how users spell the type
	Caps   string   // num | struct | slice | map | iface | ptr
	Field  string   // a uint64 field (struct)
	Method string   // a method returning uint64 (iface)
	Bare   string   // imported: bare name of the object
	Zero   string   // a value of the type, if the capability does not say
}

const (
	dE = "type E# struct {\n\ta uint64\n}"
	dH = "type H# struct {\n\tv uint64\n}"
)

var c04LocalTypes = []c04Ty{
	{Name: "struct", Decl: "type T# struct {\n\ta uint64\n\tb bool\n}", Caps: "struct", Field: "a"},
	{Name: "interface", Decl: "type T# interface {\n\tM() uint64\n}", Caps: "iface", Method: "M"},
	{Name: "named-basic", Decl: "type T# uint64", Caps: "num"},
	{Name: "named-slice-of-basic", Decl: "type T# []uint64", Caps: "slice"},
	{Name: "named-slice-of-local", Pre: []string{dE}, Decl: "type T# []E#", Caps: "slice"},
	{Name: "named-map-of-local", Pre: []string{dE}, Decl: "type T# map[uint64]E#", Caps: "map"},
	{Name: "named-of-named", Pre: []string{"type N# uint64"}, Decl: "type T# N#", Caps: "num"},
	{Name: "alias-of-basic", Decl: "type T# = uint64", Caps: "num"},
	{Name: "alias-of-struct", Pre: []string{dE}, Decl: "type T# = E#", Caps: "struct", Field: "a"},
	{Name: "alias-of-named", Pre: []string{"type N# uint64"}, Decl: "type T# = N#", Caps: "num"},
	{Name: "alias-of-interface", Pre: []string{"type J# interface {\n\tM() uint64\n}"}, Decl: "type T# = J#", Caps: "iface", Method: "M"},
	{Name: "alias-of-slice-of-basic", Decl: "type T# = []uint64", Caps: "slice"},
	{Name: "alias-of-slice-of-local", Pre: []string{dE}, Decl: "type T# = []E#", Caps: "slice"},
	{Name: "alias-of-map-of-local", Pre: []string{dE}, Decl: "type T# = map[uint64]E#", Caps: "map"},
	{Name: "alias-of-pointer-to-local", Pre: []string{dE}, Decl: "type T# = *E#", Caps: "ptr"},
	{Name: "alias-of-alias", Pre: []string{"type B# = uint64"}, Decl: "type T# = B#", Caps: "num"},
	{Name: "alias-of-alias-of-struct", Pre: []string{dE, "type B# = E#"}, Decl: "type T# = B#", Caps: "struct", Field: "a"},
	// named types whose values the forms only pass around
	{Name: "named-of-struct", Pre: []string{dE}, Decl: "type T# E#", Caps: "opaque", Zero: "T#{}"},
	{Name: "named-pointer-to-local", Pre: []string{dE}, Decl: "type T# *E#", Caps: "opaque"},
	// a parenthesised declaration with a single spec
	{Name: "alias-of-basic-in-parentheses", Decl: "type (\n\tT# = uint64\n)", Caps: "num"},
	{Name: "named-basic-in-parentheses", Decl: "type (\n\tT# uint64\n)", Caps: "num"},
	{Name: "struct-in-parentheses", Decl: "type (\n\tT# struct {\n\t\ta uint64\n\t}\n)", Caps: "struct", Field: "a"},
}

var c04ImportedTypes = []c04Ty{
	{Name: "conf.Limit", Expr: "conf.Limit", Caps: "num", Bare: "Limit"},
	{Name: "conf.Rec", Expr: "conf.Rec", Caps: "struct", Field: "A", Bare: "Rec"},
	{Name: "conf.List", Expr: "conf.List", Caps: "slice", Bare: "List"},
	{Name: "conf.Table", Expr: "conf.Table", Caps: "map", Bare: "Table"},
	{Name: "conf.Shape", Expr: "conf.Shape", Caps: "iface", Method: "Area", Bare: "Shape"},
	{Name: "alt.Max", Expr: "alt.Max", Caps: "num", Bare: "Max"},
	{Name: "alt.Level", Expr: "alt.Level", Caps: "struct", Field: "A", Bare: "Level"},
	{Name: "alt.Zero", Expr: "alt.Zero", Caps: "slice", Bare: "Zero"},
}

// c04Form is one way a declaration D# mentions a type (@ in the templates; $F
// field, $M method, $Z a value of the type).
type c04Form struct {
	Name     string
	UserKind string   // func | method | struct | named-type | alias | interface | const | var
	Caps     string   // "" = any type, else the capabilities (space separated) the form needs one of
	Pre      []string // declarations the user needs besides the type
	Decl     string
	Call     string // func / method users: a call of D#
	U64      bool   // the call yields a uint64
	TypeLike bool   // D# is itself a type a twin can mention
	Num      bool   // D# is a numeric type when @ is
}

var c04TypeForms = []c04Form{
	// ---- a function mentions the type
	{Name: "signature-parameter", UserKind: "func", Decl: "func D#(x @) uint64 {\n\treturn 1\n}", Call: "D#($Z)", U64: true},
	{Name: "signature-result-through-pointer", UserKind: "func", Decl: "func D#(p *@) @ {\n\treturn *p\n}", Call: "D#(nil)"},
	{Name: "signature-result-value", UserKind: "func", Caps: "num", Decl: "func D#() @ {\n\treturn 3\n}", Call: "D#()"},
	{Name: "signature-slice-parameter", UserKind: "func", Decl: "func D#(xs []@) uint64 {\n\treturn uint64(len(xs))\n}", Call: "D#(nil)", U64: true},
	{Name: "signature-map-parameter", UserKind: "func", Decl: "func D#(m map[uint64]@) uint64 {\n\treturn uint64(len(m))\n}", Call: "D#(nil)", U64: true},
	{Name: "var-declaration", UserKind: "func", Decl: "func D#() {\n\tvar x @\n\t_ = x\n}", Call: "D#()"},
	{Name: "var-declaration-slice", UserKind: "func", Decl: "func D#() uint64 {\n\tvar x []@\n\treturn uint64(len(x))\n}", Call: "D#()", U64: true},
	{Name: "make-slice", UserKind: "func", Decl: "func D#() uint64 {\n\tx := make([]@, 2)\n\treturn uint64(len(x))\n}", Call: "D#()", U64: true},
	{Name: "make-map", UserKind: "func", Decl: "func D#() uint64 {\n\tx := make(map[uint64]@)\n\treturn uint64(len(x))\n}", Call: "D#()", U64: true},
	{Name: "make-of-the-type-itself", UserKind: "func", Caps: "slice", Decl: "func D#() uint64 {\n\tx := make(@, 2)\n\treturn uint64(len(x))\n}", Call: "D#()", U64: true},
	{Name: "make-of-the-map-type-itself", UserKind: "func", Caps: "map", Decl: "func D#() uint64 {\n\tx := make(@)\n\treturn uint64(len(x))\n}", Call: "D#()", U64: true},
	{Name: "new", UserKind: "func", Decl: "func D#() *@ {\n\treturn new(@)\n}", Call: "D#()"},
	{Name: "conversion", UserKind: "func", Caps: "num", Decl: "func D#(x uint64) uint64 {\n\treturn uint64(@(x))\n}", Call: "D#(3)", U64: true},
	{Name: "conversion-result", UserKind: "func", Caps: "num", Decl: "func D#(x uint64) @ {\n\treturn @(x)\n}", Call: "D#(3)"},
	{Name: "composite-literal", UserKind: "func", Caps: "struct", Decl: "func D#() uint64 {\n\tv := @{$F: 1}\n\treturn v.$F\n}", Call: "D#()", U64: true},
	{Name: "composite-literal-empty", UserKind: "func", Caps: "struct", Decl: "func D#() {\n\t_ = @{}\n}", Call: "D#()"},
	{Name: "composite-literal-address", UserKind: "func", Caps: "struct", Decl: "func D#() *@ {\n\treturn &@{$F: 1}\n}", Call: "D#()"},
	{Name: "field-access-pointer", UserKind: "func", Caps: "struct", Decl: "func D#(p *@) uint64 {\n\treturn p.$F\n}", Call: "D#(nil)", U64: true},
	{Name: "field-access-value", UserKind: "func", Caps: "struct", Decl: "func D#(v @) uint64 {\n\treturn v.$F\n}", Call: "D#($Z)", U64: true},
	{Name: "field-store", UserKind: "func", Caps: "struct", Decl: "func D#(p *@) {\n\tp.$F = 1\n}", Call: "D#(nil)"},
	{Name: "empty-slice-literal", UserKind: "func", Decl: "func D#() uint64 {\n\tx := []@{}\n\treturn uint64(len(x))\n}", Call: "D#()", U64: true},
	{Name: "slice-index", UserKind: "func", Decl: "func D#(xs []@) @ {\n\treturn xs[0]\n}", Call: "D#(nil)"},
	{Name: "slice-append", UserKind: "func", Decl: "func D#(xs []@, v @) []@ {\n\treturn append(xs, v)\n}", Call: "D#(nil, $Z)"},
	{Name: "map-index", UserKind: "func", Decl: "func D#(m map[uint64]@) @ {\n\treturn m[1]\n}", Call: "D#(nil)"},
	{Name: "pointer-store", UserKind: "func", Decl: "func D#(p *@, v @) {\n\t*p = v\n}", Call: "D#(nil, $Z)"},
	{Name: "closure-parameter", UserKind: "func", Decl: "func D#() uint64 {\n\tf := func(x @) uint64 {\n\t\treturn 1\n\t}\n\treturn f($Z)\n}", Call: "D#()", U64: true},
	{Name: "interface-method-call", UserKind: "func", Caps: "iface", Decl: "func D#(i @) uint64 {\n\treturn i.$M()\n}", Call: "D#(nil)", U64: true},
	{Name: "generic-instantiation", UserKind: "func", Pre: []string{"func idp#[P any](p *P) *P {\n\treturn p\n}"}, Decl: "func D#(p *@) *@ {\n\treturn idp#[@](p)\n}", Call: "D#(nil)"},
	// ---- a method of another local type mentions the type
	{Name: "method-signature-parameter", UserKind: "method", Pre: []string{dH}, Decl: "func (h *H#) D#(x @) uint64 {\n\treturn h.v\n}", Call: "h.D#($Z)", U64: true},
	{Name: "method-body-make-slice", UserKind: "method", Pre: []string{dH}, Decl: "func (h *H#) D#() uint64 {\n\tx := make([]@, 2)\n\treturn uint64(len(x)) + h.v\n}", Call: "h.D#()", U64: true},
	{Name: "method-body-var-declaration", UserKind: "method", Pre: []string{dH}, Decl: "func (h H#) D#() uint64 {\n\tvar x []@\n\treturn uint64(len(x)) + h.v\n}", Call: "h.D#()", U64: true},
	// ---- a type declaration mentions the type
	{Name: "struct-field", UserKind: "struct", Decl: "type D# struct {\n\tf @\n}", TypeLike: true},
	{Name: "struct-slice-field", UserKind: "struct", Decl: "type D# struct {\n\tf []@\n}", TypeLike: true},
	{Name: "struct-map-field", UserKind: "struct", Decl: "type D# struct {\n\tf map[uint64]@\n}", TypeLike: true},
	{Name: "struct-pointer-field", UserKind: "struct", Decl: "type D# struct {\n\tf *@\n}", TypeLike: true},
	{Name: "struct-func-field", UserKind: "struct", Decl: "type D# struct {\n\tf func(@) uint64\n}", TypeLike: true},
	{Name: "named-type-underlying", UserKind: "named-type", Decl: "type D# @", TypeLike: true, Num: true},
	{Name: "named-type-slice-of", UserKind: "named-type", Decl: "type D# []@", TypeLike: true},
	{Name: "named-type-map-of", UserKind: "named-type", Decl: "type D# map[uint64]@", TypeLike: true},
	{Name: "alias-target", UserKind: "alias", Decl: "type D# = @", TypeLike: true, Num: true},
	{Name: "alias-slice-of", UserKind: "alias", Decl: "type D# = []@", TypeLike: true},
	{Name: "alias-map-of", UserKind: "alias", Decl: "type D# = map[uint64]@", TypeLike: true},
	{Name: "alias-pointer-to", UserKind: "alias", Decl: "type D# = *@", TypeLike: true},
	{Name: "interface-method-parameter", UserKind: "interface", Decl: "type D# interface {\n\tQ(x @) uint64\n}", TypeLike: true},
	{Name: "interface-method-result", UserKind: "interface", Decl: "type D# interface {\n\tQ() @\n}", TypeLike: true},
	// ---- a typed constant / global
	{Name: "typed-constant", UserKind: "const", Caps: "num", Decl: "const D# @ = 3"},
	{Name: "typed-global", UserKind: "var", Caps: "num", Decl: "var D# @ = 3"},
	{Name: "constant-conversion", UserKind: "const", Caps: "num", Decl: "const D# = @(3)"},
	{Name: "global-conversion", UserKind: "var", Caps: "num", Decl: "var D# = @(3)"},
	{Name: "global-composite-literal", UserKind: "var", Caps: "struct", Decl: "var D# = @{$F: 1}"},
}

func hasCap(caps, need string) bool {
	if need == "" {
		return true
	}
	for _, n := range strings.Fields(need) {
		if caps == n {
			return true
		}
	}
	return false
}

func (t c04Ty) expr() string {
	if t.Expr != "" {
		return t.Expr
	}
	return "T#"
}

func (t c04Ty) zero() string {
	if t.Zero != "" {
		return t.Zero
	}
	switch t.Caps {
	case "num":
		return "3"
	case "struct":
		return t.expr() + "{}"
	}
	return "nil"
}

func (t c04Ty) subst(s string) string {
	s = strings.ReplaceAll(s, "$Z", t.zero())
	s = strings.ReplaceAll(s, "@", t.expr())
	s = strings.ReplaceAll(s, "$F", t.Field)
	s = strings.ReplaceAll(s, "$M", t.Method)
	return s
}

func helpersOf(texts []string) []string {
	var out []string
	for _, name := range sortedKeys(c04HelperPkgs) {
		for _, t := range texts {
			if helperRefRe[name].MatchString(t) {
				out = append(out, name)
				break
			}
		}
	}
	return out
}

// c04TypeMatrixAtoms: local type kinds x reference forms.
func c04TypeMatrixAtoms() []c04Atom {
	var out []c04Atom
	for _, t := range c04LocalTypes {
		for _, f := range c04TypeForms {
			if !hasCap(t.Caps, f.Caps) {
				continue
			}
			if len(t.Pre)+len(f.Pre) > 2 {
				continue // keep the sets at <= 4 declarations
			}
			var decls []string
			decls = append(decls, t.Pre...)
			decls = append(decls, t.Decl)
			decls = append(decls, f.Pre...)
			decls = append(decls, t.subst(f.Decl))
			out = append(out, c04Atom{Name: "type-matrix/" + t.Name + "/" + f.Name, Family: "type-matrix", Decls: decls,
				Kinds: t.Name + " x " + f.Name + " (user: " + f.UserKind + ")"})
		}
	}
	return out
}

// twins: declarations named like the imported object that depend on D#.
type c04Twin struct {
	Kind string
	Pre  []string
	Decl string // X = the bare name, $C the call of D#
}

func c04TwinsFor(f c04Form, t c04Ty) []c04Twin {
	var out []c04Twin
	switch f.UserKind {
	case "func":
		out = append(out, c04Twin{Kind: "func", Decl: "func X() {\n\t$C\n}"})
		out = append(out, c04Twin{Kind: "method", Pre: []string{"type G# struct {\n\tw uint64\n}"}, Decl: "func (g *G#) X() {\n\t$C\n}"})
		if f.U64 {
			out = append(out, c04Twin{Kind: "var", Decl: "var X uint64 = $C"})
		}
	case "method":
		out = append(out, c04Twin{Kind: "func", Decl: "func X(h *H#) {\n\t$C\n}"})
	case "struct", "named-type", "alias", "interface":
		out = append(out,
			c04Twin{Kind: "struct", Decl: "type X struct {\n\tf D#\n}"},
			c04Twin{Kind: "named-type", Decl: "type X []D#"},
			c04Twin{Kind: "alias", Decl: "type X = D#"},
			c04Twin{Kind: "interface", Decl: "type X interface {\n\tR(v D#) uint64\n}"},
			c04Twin{Kind: "func", Decl: "func X() uint64 {\n\tx := make([]D#, 1)\n\treturn uint64(len(x))\n}"},
		)
		if f.Num && t.Caps == "num" {
			out = append(out,
				c04Twin{Kind: "named-type-of", Decl: "type X D#"},
				c04Twin{Kind: "const", Decl: "const X D# = 3"},
				c04Twin{Kind: "var", Decl: "var X D# = 3"},
			)
		}
	case "const":
		out = append(out,
			c04Twin{Kind: "const", Decl: "const X @ = D# + 1"},
			c04Twin{Kind: "func", Decl: "func X() @ {\n\treturn D# + 1\n}"},
			c04Twin{Kind: "var", Decl: "var X @ = D# + 1"},
		)
	case "var":
		if f.Caps == "struct" {
			out = append(out,
				c04Twin{Kind: "func", Decl: "func X() uint64 {\n\treturn D#.$F\n}"},
				c04Twin{Kind: "var", Decl: "var X uint64 = D#.$F"},
			)
			break
		}
		out = append(out,
			c04Twin{Kind: "func", Decl: "func X() @ {\n\treturn D# + 1\n}"},
			c04Twin{Kind: "var", Decl: "var X @ = D# + 1"},
		)
	}
	return out
}

// value objects of the helper packages and the forms that mention them
type c04ImpVal struct {
	Name, Expr, Bare, Kind string
}

var c04ImportedValues = []c04ImpVal{
	{"conf.Zero", "conf.Zero", "Zero", "func"},
	{"alt.Limit", "alt.Limit", "Limit", "func"},
	{"alt.Table", "alt.Table", "Table", "func"},
	{"conf.Max", "conf.Max", "Max", "const"},
	{"alt.Rec", "alt.Rec", "Rec", "const"},
	{"conf.Level", "conf.Level", "Level", "var"},
	{"alt.List", "alt.List", "List", "var"},
}

var c04ValueForms = []c04Form{
	{Name: "call", UserKind: "func", Caps: "func", Decl: "func D#() uint64 {\n\treturn @() + 1\n}", Call: "D#()", U64: true},
	{Name: "call-in-closure", UserKind: "func", Caps: "func", Decl: "func D#() uint64 {\n\tf := func() uint64 {\n\t\treturn @()\n\t}\n\treturn f()\n}", Call: "D#()", U64: true},
	{Name: "call-as-make-length", UserKind: "func", Caps: "func", Decl: "func D#() uint64 {\n\tx := make([]uint64, @())\n\treturn uint64(len(x))\n}", Call: "D#()", U64: true},
	{Name: "call-in-method-body", UserKind: "method", Caps: "func", Pre: []string{dH}, Decl: "func (h *H#) D#() uint64 {\n\treturn @() + h.v\n}", Call: "h.D#()", U64: true},
	{Name: "call-in-global-initialiser", UserKind: "var", Caps: "func", Decl: "var D# uint64 = @()"},
	{Name: "value-in-function", UserKind: "func", Caps: "const var", Decl: "func D#() uint64 {\n\treturn @ + 1\n}", Call: "D#()", U64: true},
	{Name: "value-in-closure", UserKind: "func", Caps: "const var", Decl: "func D#() uint64 {\n\tf := func() uint64 {\n\t\treturn @\n\t}\n\treturn f()\n}", Call: "D#()", U64: true},
	{Name: "value-in-method-body", UserKind: "method", Caps: "const var", Pre: []string{dH}, Decl: "func (h *H#) D#() uint64 {\n\treturn @ + h.v\n}", Call: "h.D#()", U64: true},
	{Name: "value-as-make-length", UserKind: "func", Caps: "const var", Decl: "func D#() uint64 {\n\tx := make([]uint64, @)\n\treturn uint64(len(x))\n}", Call: "D#()", U64: true},
	{Name: "value-in-constant-initialiser", UserKind: "const", Caps: "const", Decl: "const D# uint64 = @ + 1"},
	{Name: "value-in-global-initialiser", UserKind: "var", Caps: "const var", Decl: "var D# uint64 = @ + 1"},
}

// c04ImportedTwinAtoms: D# mentions an imported object; a local declaration with the bare name of that object depends on D#.
func c04ImportedTwinAtoms() []c04Atom {
	var out []c04Atom
	field := ""
	add := func(objName, bare string, f c04Form, dDecl, call, typeExpr string, pre []string, tw c04Twin, transitive bool) {
		var decls []string
		decls = append(decls, pre...)
		decls = append(decls, dDecl)
		twDecl := strings.ReplaceAll(tw.Decl, "$C", call)
		twDecl = strings.ReplaceAll(twDecl, "@", typeExpr)
		twDecl = strings.ReplaceAll(twDecl, "$F", field)
		name := "imported-twin/" + objName + "/" + f.Name + "/twin-" + tw.Kind
		if transitive {
			// X -> mid# -> D#
			switch {
			case f.UserKind == "func" && tw.Kind == "func":
				decls = append(decls, "func mid#() {\n\t"+call+"\n}")
				twDecl = "func X() {\n\tmid#()\n}"
			case f.TypeLike && tw.Kind == "struct":
				decls = append(decls, "type Mid# struct {\n\tf D#\n}")
				twDecl = "type X struct {\n\tf Mid#\n}"
			default:
				return
			}
			name += "-through-a-middle-declaration"
		}
		decls = append(decls, tw.Pre...)
		// the twin's name is X in the templates; identifiers of the templates never contain an upper-case X otherwise
		twDecl = regexp.MustCompile(`\bX\b`).ReplaceAllString(twDecl, bare)
		decls = append(decls, twDecl)
		if len(decls) > 4 {
			return
		}
		out = append(out, c04Atom{Name: name, Family: "imported-twin", Decls: decls, Fixed: []string{bare},
			Kinds: "imported " + objName + " x " + f.Name + " (user: " + f.UserKind + "); local " + tw.Kind + " " + bare + " depends on the user"})
	}
	// the forms under which EVERY imported type and EVERY kind of twin is exercised; the other forms run with
	// the types of package conf and without the method twin
	core := map[string]bool{"signature-parameter": true, "var-declaration": true, "make-slice": true, "conversion": true, "composite-literal": true,
		"new": true, "method-signature-parameter": true, "struct-field": true, "named-type-underlying": true, "alias-target": true,
		"interface-method-parameter": true, "typed-constant": true, "typed-global": true, "global-conversion": true, "global-composite-literal": true}
	for _, t := range c04ImportedTypes {
		for _, f := range c04TypeForms {
			if !hasCap(t.Caps, f.Caps) {
				continue
			}
			if strings.HasPrefix(t.Name, "alt.") && !core[f.Name] {
				continue
			}
			field = t.Field
			for _, tw := range c04TwinsFor(f, t) {
				if tw.Kind == "method" && !core[f.Name] {
					continue
				}
				ty := "uint64"
				if f.UserKind == "const" || f.UserKind == "var" {
					ty = t.Expr // the typed constant / global has the imported type
				}
				add(t.Name, t.Bare, f, t.subst(f.Decl), t.subst(f.Call), ty, f.Pre, tw, false)
				if t.Name == "conf.Limit" || t.Name == "conf.Rec" {
					add(t.Name, t.Bare, f, t.subst(f.Decl), t.subst(f.Call), ty, f.Pre, tw, true)
				}
			}
		}
	}
	for _, v := range c04ImportedValues {
		for _, f := range c04ValueForms {
			if !hasCap(v.Kind, f.Caps) {
				continue
			}
			d := strings.ReplaceAll(f.Decl, "@", v.Expr)
			for _, tw := range c04TwinsFor(f, c04Ty{}) {
				add(v.Name, v.Bare, f, d, f.Call, "uint64", f.Pre, tw, false)
				add(v.Name, v.Bare, f, d, f.Call, "uint64", f.Pre, tw, true)
			}
		}
	}
	// a method of an imported type: its bare name and the bare name of its receiver type are both local top-level names
	for _, tw := range []struct{ bare, kind string }{{"Get", "func"}, {"Rec", "func"}, {"Get", "var"}} {
		d := "func D#(r conf.Rec) uint64 {\n\treturn r.Get()\n}"
		x := "func " + tw.bare + "() uint64 {\n\treturn D#(conf.Rec{})\n}"
		if tw.kind == "var" {
			x = "var " + tw.bare + " uint64 = D#(conf.Rec{})"
		}
		out = append(out, c04Atom{Name: "imported-twin/conf.Rec.Get/method-call/twin-" + tw.kind + "-" + tw.bare, Family: "imported-twin",
			Decls: []string{d, x}, Fixed: []string{tw.bare}, Kinds: "imported method conf.Rec.Get x method-call; local " + tw.kind + " " + tw.bare + " depends on the user"})
	}
	return out
}

// c04ValueMatrixAtoms: functions, methods, constants, globals as targets of every kind of user that can mention a value.
func c04ValueMatrixAtoms() []c04Atom {
	type target struct {
		name string
		pre  []string
		decl string
		use  string // expression of type uint64; $R a receiver expression
		recv string // "" | value | pointer
	}
	targets := []target{
		{name: "func", decl: "func t#() uint64 {\n\treturn 1\n}", use: "t#()"},
		{name: "func-with-parameter", decl: "func t#(x uint64) uint64 {\n\treturn x\n}", use: "t#(2)"},
		{name: "method-value-receiver", pre: []string{dS}, decl: "func (s S#) m#() uint64 {\n\treturn s.a\n}", use: "$R.m#()", recv: "value"},
		{name: "method-pointer-receiver", pre: []string{dS}, decl: "func (s *S#) m#() uint64 {\n\treturn s.a\n}", use: "$R.m#()", recv: "pointer"},
		{name: "const", decl: "const c# uint64 = 3", use: "c#"},
		{name: "var", decl: "var g# uint64 = 5", use: "g#"},
	}
	type user struct {
		name string
		pre  []string
		decl string // $U the use, $P extra parameter (with leading comma or not)
		only string // restrict to targets
	}
	users := []user{
		{name: "function-body", decl: "func u#($P) uint64 {\n\treturn $U + 1\n}"},
		{name: "closure-body", decl: "func u#($P) uint64 {\n\tf := func() uint64 {\n\t\treturn $U\n\t}\n\treturn f()\n}"},
		{name: "if-condition", decl: "func u#($P) bool {\n\tif $U == 1 {\n\t\treturn true\n\t}\n\treturn false\n}"},
		{name: "loop-body", decl: "func u#($P) uint64 {\n\tvar r uint64 = 0\n\tfor i := uint64(0); i < 2; i++ {\n\t\tr = r + $U\n\t}\n\treturn r\n}"},
		{name: "make-length", decl: "func u#($P) uint64 {\n\tx := make([]uint64, $U)\n\treturn uint64(len(x))\n}"},
		{name: "call-argument", pre: []string{"func idu#(x uint64) uint64 {\n\treturn x\n}"}, decl: "func u#($P) uint64 {\n\treturn idu#($U)\n}"},
		{name: "struct-literal-field-value", pre: []string{dE}, decl: "func u#($P) uint64 {\n\te := E#{a: $U}\n\treturn e.a\n}"},
		{name: "method-body-of-another-type", pre: []string{dH}, decl: "func (h *H#) u#($P) uint64 {\n\treturn $U + h.v\n}"},
		{name: "value-receiver-method-body-of-another-type", pre: []string{dH}, decl: "func (h H#) u#($P) uint64 {\n\treturn $U + h.v\n}"},
		{name: "sibling-method-body", decl: "func (s *S#) u#() uint64 {\n\treturn s.m#() + 1\n}", only: "method"},
		{name: "sibling-value-method-body", decl: "func (s S#) u#() uint64 {\n\treturn s.m#() + 1\n}", only: "method-value-receiver"},
		{name: "global-initialiser", decl: "var u# uint64 = $U", only: "func func-with-parameter const var"},
		{name: "constant-initialiser", decl: "const u# uint64 = $U + 1", only: "const"},
		{name: "typed-constant-untyped-initialiser", decl: "const u# = $U * 2", only: "const"},
		{name: "go-statement", decl: "func u#($P) {\n\tgo func() {\n\t\t$U\n\t}()\n}", only: "func func-with-parameter method"},
		{name: "function-value", decl: "func u#() func() uint64 {\n\treturn t#\n}", only: "func"},
		{name: "method-value", decl: "func u#(p *S#) func() uint64 {\n\treturn p.m#\n}", only: "method-pointer-receiver"},
	}
	var out []c04Atom
	for _, t := range targets {
		for _, u := range users {
			if u.only != "" {
				ok := false
				for _, o := range strings.Fields(u.only) {
					if o == t.name || o == "method" && t.recv != "" {
						ok = true
					}
				}
				if !ok {
					continue
				}
			}
			use, param := t.use, ""
			if t.recv != "" {
				use = strings.ReplaceAll(use, "$R", "p")
				param = "p *S#"
				if t.recv == "value" && u.name != "go-statement" {
					use = strings.ReplaceAll(t.use, "$R", "v")
					param = "v S#"
				}
			}
			d := strings.ReplaceAll(u.decl, "$U", use)
			d = strings.ReplaceAll(d, "$P", param)
			var decls []string
			decls = append(decls, t.pre...)
			decls = append(decls, t.decl)
			decls = append(decls, u.pre...)
			decls = append(decls, d)
			if len(decls) > 4 {
				continue
			}
			out = append(out, c04Atom{Name: "value-matrix/" + t.name + "/" + u.name, Family: "value-matrix", Decls: decls, Kinds: t.name + " x " + u.name})
		}
	}
	return out
}

var c04GeneratedCache []c04Atom

// c04GeneratedAtoms returns the generated families (the same list at every call).
func c04GeneratedAtoms() []c04Atom {
	if c04GeneratedCache == nil {
		c04GeneratedCache = append(c04GeneratedCache, c04TypeMatrixAtoms()...)
		c04GeneratedCache = append(c04GeneratedCache, c04ValueMatrixAtoms()...)
		c04GeneratedCache = append(c04GeneratedCache, c04ImportedTwinAtoms()...)
		c04GeneratedCache = append(c04GeneratedCache, c04TwoUsersAtoms()...)
		c04GeneratedCache = append(c04GeneratedCache, c04ConversionUsersAtoms()...)
		c04GeneratedCache = append(c04GeneratedCache, c04RecursionAtoms()...)
		seen := map[string]bool{}
		for _, a := range c04GeneratedCache {
			if seen[a.Name] {
				panic("duplicate generated atom " + a.Name)
			}
			seen[a.Name] = true
		}
	}
	return c04GeneratedCache
}

// ---------------------------------------------------------------- finer declaration kinds for the coverage table

// unitShapes names the kind of every unit more finely than unit.Kind: what a named type / alias is made of.
func unitShapes(p *goPkg) []string {
	byName := map[string]int{}
	for i, u := range p.Units {
		if _, ok := u.node[0].(*ast.TypeSpec); ok {
			byName[u.GoName] = i
		}
	}
	var of func(e ast.Expr, depth int) string
	of = func(e ast.Expr, depth int) string {
		switch e := e.(type) {
		case *ast.Ident:
			if i, ok := byName[e.Name]; ok {
				k := p.Units[i].Kind
				if k == "alias" && depth < 3 {
					return "alias"
				}
				return k
			}
			return "basic"
		case *ast.ArrayType:
			if e.Len == nil {
				return "slice"
			}
			return "array"
		case *ast.MapType:
			return "map"
		case *ast.StarExpr:
			return "pointer"
		case *ast.SelectorExpr:
			return "imported"
		case *ast.FuncType:
			return "func-type"
		case *ast.ParenExpr:
			return of(e.X, depth)
		case *ast.StructType:
			return "struct"
		case *ast.InterfaceType:
			return "interface"
		case *ast.IndexExpr, *ast.IndexListExpr:
			return "instantiation"
		}
		return "other"
	}
	out := make([]string, len(p.Units))
	for i, u := range p.Units {
		out[i] = u.Kind
		if ts, ok := u.node[0].(*ast.TypeSpec); ok && (u.Kind == "alias" || u.Kind == "named-type") {
			out[i] = u.Kind + "(" + of(ts.Type, 0) + ")"
		}
	}
	return out
}

// c04CellTable accumulates the coverage cells of one judged layout.
type c04Cells map[string]int64

func (c c04Cells) add(k string) { c[k]++ }

func sortedCellKeys(c c04Cells) []string {
	ks := make([]string, 0, len(c))
	for k := range c {
		ks = append(ks, k)
	}
	sort.Strings(ks)
	return ks
}

// typecheckRelevant: does some function / method signature, constant type or global type name a
// type declared by the package (syntactically)? Only then do the typing theorems of -typecheck add mentions.
func typecheckRelevant(p *goPkg) bool {
	typeNames := map[string]bool{}
	for _, u := range p.Units {
		if _, ok := u.node[0].(*ast.TypeSpec); ok {
			typeNames[u.GoName] = true
		}
	}
	found := false
	look := func(n ast.Node) {
		if n == nil {
			return
		}
		ast.Inspect(n, func(x ast.Node) bool {
			if _, ok := x.(*ast.StarExpr); ok {
				return false // a pointer type is printed as ptrT, whatever it points to
			}
			if id, ok := x.(*ast.Ident); ok && typeNames[id.Name] {
				found = true
			}
			return !found
		})
	}
	for _, d := range p.Decls {
		switch d := d.node.(type) {
		case *ast.FuncDecl:
			look(d.Type)
			if d.Recv != nil {
				look(d.Recv)
			}
		case *ast.GenDecl:
			for _, s := range d.Specs {
				if vs, ok := s.(*ast.ValueSpec); ok {
					if vs.Type != nil {
						look(vs.Type)
					} else {
						// the type of the initialiser: a conversion T(x) or a call names it
						for _, v := range vs.Values {
							look(v)
						}
					}
				}
			}
		}
	}
	return found
}

// ---------------------------------------------------------------- two users of one target

// c04TwoUsersAtoms: sets with SEVERAL users of the same type. What the translator learns while it translates one
// declaration must not change what it records for the next: { T, u1 (reference form A), u2 (reference form B), p (calls
// u2, so u2 is pulled forward) } for every pair of forms, in every order of the four declarations (which user is
// translated first, whether T comes before or after them, whether p precedes u2). The forms of the second user reach T
// through types the type checker derives (a variable whose type is inferred from its initialiser, a load / store
// through a pointer parameter, a range variable, an element of a slice of pointers), next to forms that spell T.
func c04TwoUsersAtoms() []c04Atom {
	type form struct {
		name   string
		caps   string // "" any
		decl   string // U the user's name, @ the type
		p      string // the declaration p# that depends on the user
		filler bool   // used for the first user
		second bool   // used for the second user (p# does not mention the type)
	}
	callP := func(call string) string { return "func p#() {\n\t" + call + "\n}" }
	forms := []form{
		{name: "signature-parameter", decl: "func U(x @) uint64 {\n\treturn 1\n}", filler: true},
		{name: "var-declared", decl: "func U() {\n\tvar x @\n\t_ = x\n}", p: callP("U()"), second: true},
		{name: "var-inferred-from-conversion", caps: "num", decl: "func U() uint64 {\n\tvar w = @(5)\n\tw = w + 1\n\treturn uint64(w)\n}", p: callP("U()"), filler: true, second: true},
		{name: "global-of-inferred-type", caps: "num", decl: "var U = @(5)", p: "func p#() uint64 {\n\treturn uint64(U) + 1\n}", second: true},
		{name: "pointer-load-into-inferred-var", decl: "func U(p *@, q *@) {\n\tvar y = *p\n\t*q = y\n}", p: callP("U(nil, nil)"), filler: true, second: true},
		{name: "pointer-copy", decl: "func U(p *@, q *@) {\n\t*p = *q\n}", p: callP("U(nil, nil)"), second: true},
		{name: "pointer-load-define", decl: "func U(p *@, q *@) {\n\ty := *p\n\t*q = y\n}", p: callP("U(nil, nil)"), second: true},
		{name: "field-load-through-inferred-pointer", caps: "struct", decl: "func U(p *@) uint64 {\n\tq := p\n\treturn q.a\n}", p: callP("U(nil)"), second: true},
		{name: "element-of-slice-of-pointers", decl: "func U(ps []*@, q *@) {\n\t*q = *ps[0]\n}", p: callP("U(nil, nil)"), second: true},
		{name: "range-variable", decl: "func U(xs []@, q *@) {\n\tfor _, x := range xs {\n\t\tvar y = x\n\t\t*q = y\n\t}\n}", p: callP("U(nil, nil)"), filler: true, second: true},
	}
	targets := []c04Ty{
		{Name: "named-basic", Decl: "type T# uint64", Caps: "num"},
		{Name: "struct", Decl: "type T# struct {\n\ta uint64\n\tb bool\n}", Caps: "struct"},
		{Name: "named-slice-of-basic", Decl: "type T# []uint64", Caps: "slice"},
	}
	ok := func(f form, t c04Ty) bool { return f.caps == "" || f.caps == t.Caps }
	nm := func(s, name string) string {
		s = strings.ReplaceAll(s, "@", "T#")
		return regexp.MustCompile(`\bU\b`).ReplaceAllString(s, name)
	}
	var out []c04Atom
	for _, t := range targets {
		for _, a := range forms {
			if !a.filler || !ok(a, t) {
				continue
			}
			for _, b := range forms {
				if !b.second || !ok(b, t) {
					continue
				}
				out = append(out, c04Atom{Name: "two-users/" + t.Name + "/" + a.name + "+" + b.name, Family: "two-users",
					Decls: []string{t.Decl, nm(a.decl, "ua#"), nm(b.decl, "ub#"), nm(b.p, "ub#")},
					Kinds: t.Name + " x first user " + a.name + ", second user " + b.name + " (pulled forward by p)"})
			}
		}
	}
	// three users; p depends on the last one
	for _, t := range targets[:2] {
		var us []form
		for _, f := range forms {
			if ok(f, t) && f.second {
				us = append(us, f)
			}
		}
		for k := 0; k+2 < len(us) && k < 4; k++ {
			a, b, c := forms[0], us[k+1], us[k+2]
			out = append(out, c04Atom{Name: "two-users/" + t.Name + "/three-users-" + a.name + "+" + b.name + "+" + c.name, Family: "two-users",
				Decls: []string{t.Decl, nm(a.decl, "ua#"), nm(b.decl, "ub#"), nm(c.decl, "uc#"), nm(c.p, "uc#")},
				Kinds: t.Name + " x three users; p depends on the third"})
		}
	}
	return out
}

// ---------------------------------------------------------------- two plain users of one struct-to-interface conversion

// c04ConversionUsersAtoms: two functions f and g that both pass struct S where interface I is expected, each in a PLAIN
// position (the call is a statement of the function body, the right-hand side of a define, or a returned expression),
// with f depending on g, g depending on f, or neither. (The shapes recorded as known findings — the call inside an if
// condition's comparison, the method declared after the users — are other atoms.)
func c04ConversionUsersAtoms() []c04Atom {
	forms := []struct{ name, tail string }{
		{"call-statement", "useI#(s)\n\treturn x"},
		{"define", "a := useI#(s)\n\treturn a"},
		{"return-expression", "return useI#(s)"},
		{"return-sum", "return useI#(s) + x"},
	}
	user := func(name, dep, tail string) string {
		return "func " + name + "() uint64 {\n\tx := " + dep + "\n\ts := S#{a: x}\n\t" + tail + "\n}"
	}
	var out []c04Atom
	for i, ff := range forms {
		for _, gf := range forms[i:] {
			for _, dep := range []string{"f-depends-on-g", "g-depends-on-f", "independent"} {
				fd, gd := "uint64(1)", "uint64(2)"
				switch dep {
				case "f-depends-on-g":
					fd = "g#()"
				case "g-depends-on-f":
					gd = "f#()"
				}
				out = append(out, c04Atom{Name: "conversion-two-users/" + ff.name + "+" + gf.name + "/" + dep, Family: "conversion-two-users",
					Decls: []string{dI, dS, dSM, "func useI#(i I#) uint64 {\n\treturn i.M()\n}", user("f#", fd, ff.tail), user("g#", gd, gf.tail)},
					Kinds: "method x interface-conversion (two plain users: " + ff.name + ", " + gf.name + "; " + dep + ")"})
			}
		}
	}
	return out
}

// conversionUsersLayouts: the four supporting declarations (units 0-3) stay together as one block; the block, f (4) and
// g (5) in every order; in one file, cut into two files at either point under both lexical orders of the file names,
// and in three files under three assignments of names (the processing order of the files is the order of their names).
func conversionUsersLayouts() []layout {
	blocks := [][]int{{0, 1, 2, 3}, {4}, {5}}
	var out []layout
	for _, p := range permutations(3) {
		seq := [][]int{blocks[p[0]], blocks[p[1]], blocks[p[2]]}
		flat := func(bs [][]int) []int {
			var u []int
			for _, b := range bs {
				u = append(u, b...)
			}
			return u
		}
		out = append(out, layout{Files: []layoutFile{{Name: "m_f0.go", Units: flat(seq)}}, Desc: "blocks-1-file"})
		for cut := 1; cut <= 2; cut++ {
			for _, nm := range [][2]string{{"a_f1.go", "z_f2.go"}, {"z_f1.go", "A_f2.go"}} {
				out = append(out, layout{Files: []layoutFile{{Name: nm[0], Units: flat(seq[:cut])}, {Name: nm[1], Units: flat(seq[cut:])}}, Desc: "blocks-2-files"})
			}
		}
		for _, nm := range [][3]string{{"a_f1.go", "m_f2.go", "z_f3.go"}, {"z_f1.go", "a_f2.go", "m_f3.go"}, {"m_f1.go", "Z_f2.go", "a_f3.go"}} {
			out = append(out, layout{Files: []layoutFile{{Name: nm[0], Units: seq[0]}, {Name: nm[1], Units: seq[1]}, {Name: nm[2], Units: seq[2]}}, Desc: "blocks-3-files"})
		}
	}
	return out
}
