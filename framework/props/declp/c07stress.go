package declp

import (
	"fmt"
	"os"
	"path/filepath"
	"sort"
	"strings"

	"verif/core"
)

// c07stress.go: MANY errors in MANY packages of ONE invocation. goose translates the packages matched by its
// patterns concurrently, so whatever is shared between two translations (counters, caches, reporters) is exercised
// only when several packages report errors at the same time; the other workloads put at most a handful of errors
// into an invocation. The family: P ∈ {2, 8, 24} packages × E ∈ {1, 20, 300} out-of-subset declarations each (seven
// constructs of three error categories, functions / a type / a global, spread over three files, among good
// declarations), each module translated with `./...` under GOMAXPROCS ∈ {2, 16}, with and without -ignore-errors,
// the heavy cells several times. Judged like every other input of C07: terminates normally (exit status 1, no
// panic / fatal error / goroutine dump), stderr parses as structured located errors, EXACTLY one error inside each of
// the P×E broken declarations and none elsewhere, no output file for a broken package without -ignore-errors, and
// under -ignore-errors one file per package with every good declaration in it.

var stressBroken = []struct{ name, decl string }{
	{"basic-type-int", "func $N(x int) int {\n\treturn x\n}"},
	{"multi-element-slice-literal", "func $N() []uint64 {\n\treturn []uint64{1, 2, 3}\n}"},
	{"multiple-defines", "func $N() uint64 {\n\ta, b := uint64(1), uint64(2)\n\treturn a + b\n}"},
	{"switch", "func $N(a uint64) uint64 {\n\tswitch a {\n\tcase 1:\n\t\ta = 2\n\t}\n\treturn a\n}"},
	{"defer", "func $N() {\n\tdefer func() {\n\t}()\n}"},
	{"channel-type", "type $N chan uint64"},
	{"float-global", "var $N float64 = 1.5"},
}

type stressCell struct {
	p, e  int
	root  string
	rels  []string
	names [][]string // per package: the broken declarations
	good  [][]string // per package: documented names of the good declarations
}

func stressModule(root string, p, e int) (*stressCell, error) {
	c := &stressCell{p: p, e: e, root: root}
	if err := writeModule(root); err != nil {
		return nil, err
	}
	for k := 0; k < p; k++ {
		pkg := fmt.Sprintf("s%02d", k)
		files := []*strings.Builder{{}, {}, {}}
		for _, b := range files {
			fmt.Fprintf(b, "package %s\n", pkg)
		}
		var broken, good []string
		for i := 0; i < e; i++ {
			kind := stressBroken[(i+k)%len(stressBroken)]
			name := fmt.Sprintf("B%04d", i)
			fmt.Fprintf(files[i%3], "\n%s\n", strings.ReplaceAll(kind.decl, "$N", name))
			broken = append(broken, name)
			if i%7 == 0 {
				// good declarations between the broken ones
				g := fmt.Sprintf("Ok%04d", i)
				fmt.Fprintf(files[(i+1)%3], "\nfunc %s(x uint64) uint64 {\n\treturn x + %d\n}\n", g, i)
				good = append(good, g)
			}
		}
		fmt.Fprintf(files[2], "\ntype Rec struct {\n\ta uint64\n}\n\nfunc (r Rec) Get() uint64 {\n\treturn r.a\n}\n")
		good = append(good, "Rec", "Rec__Get")
		m := map[string]string{}
		for i, b := range files {
			m[fmt.Sprintf("%c_%s.go", 'a'+i, pkg)] = b.String()
		}
		if err := writePkg(root, pkg, m); err != nil {
			return nil, err
		}
		c.rels = append(c.rels, pkg)
		c.names = append(c.names, broken)
		c.good = append(c.good, good)
	}
	return c, nil
}

func (c *c07Ctx) runStress() {
	r := c.r
	type run struct {
		cell  *stressCell
		procs int
		ign   bool
		rep   int
	}
	var runs []*run
	base := filepath.Join(r.Scratch, "c07stress")
	for _, p := range []int{2, 8, 24} {
		for _, e := range []int{1, 20, 300} {
			cell, err := stressModule(filepath.Join(base, fmt.Sprintf("p%de%d", p, e)), p, e)
			if err != nil {
				r.Inconclusive("stress-module-not-written")
				continue
			}
			settleModule(cell.root)
			reps := 1
			if p*e >= 400 {
				reps = r.Pick(3, 8) // the cells in which translations overlap for long
			}
			for _, procs := range []int{2, 16} {
				for rep := 0; rep < reps; rep++ {
					runs = append(runs, &run{cell: cell, procs: procs, rep: rep})
				}
				runs = append(runs, &run{cell: cell, procs: procs, ign: true})
			}
		}
	}
	core.Parallel(len(runs), 4, func(i int) {
		x := runs[i]
		cell := x.cell
		id := fmt.Sprintf("stress/P%d-E%d-GOMAXPROCS%d-ignore%v-rep%d", cell.p, cell.e, x.procs, x.ign, x.rep)
		out := filepath.Join(cell.root, fmt.Sprintf("out-%d-%v-%d", x.procs, x.ign, x.rep))
		var flags []string
		if x.ign {
			flags = []string{"-ignore-errors"}
		}
		o := c07ExecN(c.bin, cell.root, out, []string{fmt.Sprintf("GOMAXPROCS=%d", x.procs)}, flags, "./...")
		r.Count("goose_invocations", 1)
		if o.TimedOut {
			r.Inconclusive("goose-watchdog")
			return
		}
		r.Eval(1)
		r.Count("inputs_run/stress", 1)
		desc := fmt.Sprintf("one invocation (./..., GOMAXPROCS=%d, flags %v) over %d packages with %d out-of-subset declarations each", x.procs, flags, cell.p, cell.e)
		detail := func(extra map[string]interface{}) map[string]interface{} {
			d := map[string]interface{}{"input": id, "description": desc, "exit": o.Exit, "error_blocks": len(o.Blocks), "stderr_head": clip(o.Stderr, 5000),
				"constructs": stressBroken, "layout": "package sNN: declaration i is construct (i+NN) mod 7 named B<i>, in file (i mod 3); good declarations Ok<i> for i mod 7 = 0, Rec, Rec.Get"}
			if cell.p*cell.e <= 40 {
				fs := map[string]string{}
				for _, rel := range cell.rels {
					m, _ := readExampleFiles(filepath.Join(cell.root, rel))
					for n, s := range m {
						fs[rel+"/"+n] = s
					}
				}
				d["files"] = fs
			}
			for k, v := range extra {
				d[k] = v
			}
			return d
		}
		if o.Crash {
			r.Count("crashes/stress", 1)
			c.noteCrash(o.CrashSig, map[string]interface{}{"input": id, "workload": "stress", "description": desc, "panic": o.PanicLine})
			r.Distinct("crash " + o.CrashSig)
			r.Violate(o.CrashSig, fmt.Sprintf("goose aborted (exit %d) with %q on %s", o.Exit, o.PanicLine, desc), detail(nil))
			return
		}
		if o.LoadError {
			r.Inconclusive("package-does-not-load")
			if r.GetCount("diag_stress_load") < 3 {
				r.Count("diag_stress_load", 1)
				fmt.Fprintf(os.Stderr, "C07: stress module %s does not load: %s\n", id, clip(o.Stderr, 600))
			}
			return
		}
		r.Distinct(fmt.Sprintf("stress P=%d E=%d GOMAXPROCS=%d ignore-errors=%v", cell.p, cell.e, x.procs, x.ign))
		for _, p := range o.Problems {
			sig := "error-output-malformed:" + strings.SplitN(strings.TrimPrefix(strings.TrimPrefix(p, "block: "), "report: "), ":", 2)[0]
			r.Violate(sig, fmt.Sprintf("goose's error output for %s departs from `[category]: message / go code / goose file:line / src: file:line:col`: %s", desc, p), detail(nil))
		}
		if o.Exit != 1 {
			r.Violate("multi-package-exit-0-with-broken-package", fmt.Sprintf("goose exited %d on %s (%d error blocks were printed)", o.Exit, desc, len(o.Blocks)), detail(nil))
		}
		// exactly one error inside each broken declaration, none elsewhere
		perPkg := map[string]map[string]int{}
		for _, b := range o.Blocks {
			r.Count("error_blocks_parsed", 1)
			if len(b.Problems) > 0 || b.Line == 0 {
				continue
			}
			rel := filepath.Base(filepath.Dir(b.SrcFile))
			if filepath.Dir(filepath.Dir(b.SrcFile)) != filepath.Clean(cell.root) {
				r.Violate("error-src-outside-package-files", fmt.Sprintf("an error of %s names src %s:%d:%d, which is not a file of a translated package", desc, b.SrcFile, b.Line, b.Col), detail(nil))
				continue
			}
			name, ok, err := c.di.enclosing(b.SrcFile, b.Line, b.Col)
			if err != nil {
				r.Inconclusive("oracle-cannot-parse-source-file")
				continue
			}
			if !ok {
				r.Violate("error-src-outside-any-declaration", fmt.Sprintf("an error of %s is located at %s:%d:%d, inside no top-level declaration of that file: [%s] %s", desc, b.SrcFile, b.Line, b.Col, b.Category, b.Message), detail(nil))
				continue
			}
			r.Count("errors_located_inside_a_declaration", 1)
			c.mu.Lock()
			c.errCats["["+b.Category+"] "+msgClass(b.Message)]++
			c.mu.Unlock()
			if perPkg[rel] == nil {
				perPkg[rel] = map[string]int{}
			}
			perPkg[rel][name]++
		}
		var without, twice, foreign []string
		for k, rel := range cell.rels {
			isBroken := map[string]bool{}
			for _, n := range cell.names[k] {
				isBroken[n] = true
				switch got := perPkg[rel][n]; {
				case got == 0:
					without = append(without, rel+"."+n)
				case got > 1:
					twice = append(twice, rel+"."+n)
				}
			}
			for n := range perPkg[rel] {
				if !isBroken[n] {
					foreign = append(foreign, rel+"."+n)
				}
			}
		}
		sort.Strings(without)
		sort.Strings(twice)
		sort.Strings(foreign)
		want := cell.p * cell.e
		switch {
		case len(without) > 0:
			r.Violate("fewer-errors-than-broken-declarations", fmt.Sprintf("%s: %d broken declarations, %d structured errors; declarations without an error of their own: %v", desc, want, len(o.Blocks), firstN(without, 10)),
				detail(map[string]interface{}{"without_error": firstN(without, 200)}))
		case len(twice) > 0 || len(foreign) > 0 || len(o.Blocks) != want:
			r.Violate("errors-not-one-per-broken-declaration", fmt.Sprintf("%s: %d broken declarations (one out-of-subset construct each), %d structured errors; reported more than once: %v; reported in declarations that are not broken: %v", desc, want, len(o.Blocks), firstN(twice, 10), firstN(foreign, 10)),
				detail(map[string]interface{}{"more_than_once": firstN(twice, 200), "in_good_declarations": firstN(foreign, 200)}))
		default:
			r.Count("stress_runs_with_exactly_one_error_per_broken_declaration", 1)
			r.Count("stress_errors_matched_to_their_declaration", int64(want))
		}
		// outputs
		var lost []string
		for k, rel := range cell.rels {
			vb, err := os.ReadFile(vPath(out, rel))
			if !x.ign {
				if err == nil {
					r.Violate("multi-package-output-for-broken-package", fmt.Sprintf("%s: an output file was written for the broken package %s without -ignore-errors", desc, rel), detail(nil))
				}
				continue
			}
			if err != nil {
				r.Violate("no-partial-output-under-ignore-errors", fmt.Sprintf("%s: no output file for package %s", desc, rel), detail(nil))
				continue
			}
			defined := map[string]bool{}
			if defs, perr := readV(string(vb)); perr == nil {
				for _, d := range defs {
					defined[d.Name] = true
				}
			} else {
				r.Count("partial_outputs_unreadable_by_the_coq_reader", 1)
				for _, l := range strings.Split(string(vb), "\n") {
					f := strings.Fields(l)
					if len(f) >= 2 && (f[0] == "Definition" || f[0] == "Notation") {
						defined[strings.TrimSuffix(f[1], ":")] = true
					}
				}
			}
			for _, g := range cell.good[k] {
				if !defined[g] {
					lost = append(lost, rel+"."+g)
				}
			}
			r.Count("good_declarations_checked_under_ignore_errors", int64(len(cell.good[k])))
		}
		if len(lost) > 0 {
			sort.Strings(lost)
			r.Violate("good-declaration-missing-under-ignore-errors", fmt.Sprintf("%s: the outputs lack the good declarations %v", desc, firstN(lost, 10)), detail(map[string]interface{}{"missing": firstN(lost, 200)}))
		}
		r.Count("stress_runs_judged", 1)
		r.Count(fmt.Sprintf("stress_runs/P%d-E%d", cell.p, cell.e), 1)
	})
}
