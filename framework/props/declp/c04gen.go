package declp

import (
	"fmt"
	"os"
	"sort"
	"strings"

	"verif/core"
)

// c04gen.go: the C04 workload. A package is a SET of top-level declarations
// (texts); layouts order them and split them over files. Atoms are small
// declaration groups exercising one reference kind from a "user" declaration
// to a "target" declaration; `#` in the templates is replaced by an instance
// id so several atoms can live in one package.
//
// Each atom that is a suspected/confirmed defect today is switchable:
// VERIF_C04_SKIP=<atom>,<atom>… removes atoms from both the directed and the
// random layer (quarantine); nothing else changes.

type c04Atom struct {
	Name    string
	Suspect bool     // produces a known/suspected violation on the unchanged tree
	Decls   []string // declaration templates
	Entry   string   // closed entry function template ("" if none): func() uint64 unless EntryUnit
	Unit    bool     // entry returns nothing
	Kinds   string   // declaration kind x reference kind, for the evidence
	Family  string   // "" hand-written | type-matrix | value-matrix | imported-twin (generated, c04matrix.go)
	Fixed   []string // top-level names the atom declares that do not carry the instance id
}

const (
	dS  = "type S# struct {\n\ta uint64\n\tb bool\n}"
	dN  = "type N# uint64"
	dI  = "type I# interface {\n\tM() uint64\n}"
	dT  = "func t#() uint64 {\n\treturn 1\n}"
	dSM = "func (s S#) M() uint64 {\n\treturn s.a\n}"
)

var c04Atoms = []c04Atom{
	{Name: "call", Decls: []string{dT, "func u#() uint64 {\n\treturn t#() + 1\n}"}, Entry: "u#", Kinds: "func x call"},
	{Name: "call-chain", Decls: []string{dT, "func v#() uint64 {\n\treturn t#()\n}", "func u#() uint64 {\n\treturn v#() + t#()\n}"}, Entry: "u#", Kinds: "func x call"},
	{Name: "call-in-nested-statements", Decls: []string{dT, "func u#() uint64 {\n\tvar r uint64 = 0\n\tfor i := uint64(0); i < 3; i++ {\n\t\tif i > 1 {\n\t\t\tr = r + t#()\n\t\t}\n\t}\n\treturn r\n}"}, Entry: "u#", Kinds: "func x call"},
	{Name: "call-in-closure", Decls: []string{dT, "func u#() uint64 {\n\tf := func() uint64 {\n\t\treturn t#()\n\t}\n\treturn f()\n}"}, Entry: "u#", Kinds: "func x call"},
	{Name: "call-in-go-statement", Decls: []string{dT, "func u#() {\n\tgo func() {\n\t\tt#()\n\t}()\n}"}, Entry: "u#", Unit: true, Kinds: "func x call"},
	{Name: "function-value", Decls: []string{dT, "func u#() func() uint64 {\n\treturn t#\n}"}, Kinds: "func x function-value"},
	{Name: "generic-call", Decls: []string{"func idv#[T any](x T) T {\n\treturn x\n}", "func u#() uint64 {\n\treturn idv#(uint64(3))\n}"}, Entry: "u#", Kinds: "func x call"},
	{Name: "method-call-value-receiver", Decls: []string{dS, "func (s S#) m#() uint64 {\n\treturn s.a\n}", "func u#() uint64 {\n\ts := S#{a: 1}\n\treturn s.m#()\n}"}, Entry: "u#", Kinds: "method x method-call"},
	{Name: "method-call-pointer-receiver", Decls: []string{dS, "func (s *S#) pm#() uint64 {\n\treturn s.a\n}", "func u#(p *S#) uint64 {\n\treturn p.pm#()\n}"}, Kinds: "method x method-call"},
	{Name: "method-value", Decls: []string{dS, "func (s *S#) pm#() uint64 {\n\treturn s.a\n}", "func u#(p *S#) func() uint64 {\n\treturn p.pm#\n}"}, Kinds: "method x method-value"},
	{Name: "method-on-named-type", Decls: []string{dN, "func (n N#) nm#() uint64 {\n\treturn 3\n}", "func u#(x uint64) uint64 {\n\tn := N#(x)\n\treturn n.nm#()\n}"}, Kinds: "method x method-call"},
	{Name: "method-pointer-receiver-on-named-type", Decls: []string{dN, "func (n *N#) npm#() uint64 {\n\treturn 4\n}", "func u#(p *N#) uint64 {\n\treturn p.npm#()\n}"}, Kinds: "method x method-call"},
	{Name: "struct-literal", Decls: []string{dS, "func u#() {\n\t_ = S#{a: 1}\n}"}, Entry: "u#", Unit: true, Kinds: "struct x struct-literal"},
	{Name: "struct-literal-empty", Decls: []string{dS, "func u#() {\n\t_ = S#{}\n}"}, Entry: "u#", Unit: true, Kinds: "struct x struct-literal"},
	{Name: "struct-literal-address", Decls: []string{dS, "func u#() *S# {\n\treturn &S#{a: 1}\n}"}, Kinds: "struct x struct-literal-address"},
	{Name: "new", Decls: []string{dS, "func u#() *S# {\n\treturn new(S#)\n}"}, Kinds: "struct x new"},
	{Name: "new-named-type", Decls: []string{dN, "func u#() *N# {\n\treturn new(N#)\n}"}, Kinds: "named-type x new"},
	{Name: "field-access-pointer", Decls: []string{dS, "func u#(p *S#) uint64 {\n\treturn p.a\n}"}, Kinds: "struct x field-access-pointer"},
	{Name: "field-access-value", Decls: []string{dS, "func u#(p *S#) uint64 {\n\treturn (*p).a\n}"}, Kinds: "struct x field-access-value"},
	{Name: "field-store", Suspect: true, Decls: []string{dS, "func u#(p *S#) {\n\tp.a = 1\n}"}, Kinds: "struct x field-store"},
	{Name: "field-address", Suspect: true, Decls: []string{dS, "func u#(p *S#) *uint64 {\n\treturn &p.a\n}"}, Kinds: "struct x field-address"},
	{Name: "pointer-load-store", Suspect: true, Decls: []string{dS, "func u#(p *S#, q *S#) {\n\t*p = *q\n}"}, Kinds: "struct x pointer-load/pointer-store"},
	{Name: "signature-parameter", Decls: []string{dS, "func u#(s S#) {\n}"}, Kinds: "struct x signature"},
	{Name: "signature-result", Decls: []string{dS, "func u#(p *S#) S# {\n\treturn *p\n}"}, Kinds: "struct x signature"},
	{Name: "signature-slice-parameter", Decls: []string{dS, "func u#(xs []S#) uint64 {\n\treturn uint64(len(xs))\n}"}, Kinds: "struct x signature"},
	{Name: "signature-named-type", Decls: []string{dN, "func u#(n N#) N# {\n\treturn n\n}"}, Kinds: "named-type x signature"},
	{Name: "signature-interface", Decls: []string{dI, "func u#(i I#) uint64 {\n\treturn i.M()\n}"}, Kinds: "interface x signature/interface-method-call"},
	{Name: "struct-field-type", Decls: []string{dS, "type W# struct {\n\ts S#\n}"}, Kinds: "struct x struct-field-type"},
	{Name: "struct-slice-field-type", Decls: []string{dS, "type W# struct {\n\tss []S#\n}"}, Kinds: "struct x struct-field-type(slice element)"},
	{Name: "struct-pointer-field-only", Decls: []string{dS, "type W# struct {\n\tp *S#\n}"}, Kinds: "struct x pointer-field (no mention)"},
	{Name: "struct-map-field-type", Decls: []string{dS, "type W# struct {\n\tm map[uint64]S#\n}"}, Kinds: "struct x struct-field-type(map value)"},
	{Name: "struct-func-field-type", Decls: []string{dS, "type W# struct {\n\tf func(S#) uint64\n}"}, Kinds: "struct x struct-field-type(function type)"},
	{Name: "struct-named-field-type", Decls: []string{dN, "type W# struct {\n\tn N#\n}"}, Kinds: "named-type x struct-field-type"},
	{Name: "var-declaration-struct", Suspect: true, Decls: []string{dS, "func u#() {\n\tvar s S#\n\t_ = s\n}"}, Entry: "u#", Unit: true, Kinds: "struct x var-declaration"},
	{Name: "var-declaration-named-type", Suspect: true, Decls: []string{dN, "func u#() {\n\tvar n N#\n\t_ = n\n}"}, Entry: "u#", Unit: true, Kinds: "named-type x var-declaration"},
	{Name: "make-slice", Decls: []string{dS, "func u#() uint64 {\n\tx := make([]S#, 2)\n\treturn uint64(len(x))\n}"}, Entry: "u#", Kinds: "struct x make"},
	{Name: "make-map", Decls: []string{dS, "func u#() uint64 {\n\tx := make(map[uint64]S#)\n\treturn uint64(len(x))\n}"}, Entry: "u#", Kinds: "struct x make"},
	{Name: "make-slice-named-type", Decls: []string{dN, "func u#() uint64 {\n\tx := make([]N#, 2)\n\treturn uint64(len(x))\n}"}, Entry: "u#", Kinds: "named-type x make"},
	{Name: "empty-slice-literal", Decls: []string{dS, "func u#() uint64 {\n\tx := []S#{}\n\treturn uint64(len(x))\n}"}, Entry: "u#", Kinds: "struct x slice-literal"},
	{Name: "conversion", Decls: []string{dN, "func u#(x uint64) uint64 {\n\treturn uint64(N#(x))\n}"}, Kinds: "named-type x conversion (no mention)"},
	{Name: "generic-instantiation-explicit", Suspect: true, Decls: []string{dS, "func idp#[T any](p *T) *T {\n\treturn p\n}", "func u#(p *S#) *S# {\n\treturn idp#[S#](p)\n}"}, Kinds: "struct x generic-instantiation"},
	{Name: "generic-instantiation-inferred", Suspect: true, Decls: []string{dS, "func idp#[T any](p *T) *T {\n\treturn p\n}", "func u#(p *S#) *S# {\n\treturn idp#(p)\n}"}, Kinds: "struct x generic-instantiation"},
	{Name: "generic-instantiation-named-type", Suspect: true, Decls: []string{dN, "func idp#[T any](p *T) *T {\n\treturn p\n}", "func u#(p *N#) *N# {\n\treturn idp#[N#](p)\n}"}, Kinds: "named-type x generic-instantiation"},
	{Name: "constant-in-constant", Decls: []string{"const c# uint64 = 3", "const d# uint64 = c# + 1", "const e# = d# * 2"}, Kinds: "const x constant-in-initialiser"},
	{Name: "constant-in-function", Decls: []string{"const c# uint64 = 3", "func u#() uint64 {\n\treturn c# + 1\n}"}, Entry: "u#", Kinds: "const x constant-in-expression"},
	{Name: "global-in-function", Decls: []string{"var g# uint64 = 5", "func u#() uint64 {\n\treturn g# + 1\n}"}, Entry: "u#", Kinds: "var x global-in-expression"},
	{Name: "global-in-global", Decls: []string{"const c# uint64 = 3", "var g# uint64 = 5", "var h# = g# + c#"}, Kinds: "var x global-in-initialiser"},
	{Name: "typed-constant-of-named-type", Decls: []string{dN, "const cn# N# = 4"}, Kinds: "named-type x constant-type (no mention)"},
	{Name: "constant-block", Decls: []string{"const (\n\tka# uint64 = 1\n\tkb# uint64 = ka# + 1\n)", "func u#() uint64 {\n\treturn kb#\n}"}, Entry: "u#", Kinds: "const x constant-in-expression (second spec of a block)"},
	{Name: "alias-of-struct", Decls: []string{dS, "type A# = S#", "func u#(a A#) uint64 {\n\treturn a.a\n}"}, Kinds: "struct x alias-target"},
	{Name: "alias-of-named-type", Decls: []string{dN, "type A# = N#"}, Kinds: "named-type x alias-target"},
	{Name: "named-type-of-named-type", Decls: []string{dN, "type N2# N#"}, Kinds: "named-type x named-type-underlying"},
	{Name: "receiver-only-value", Decls: []string{dS, "func (s S#) r#() uint64 {\n\treturn 1\n}"}, Kinds: "struct x method-receiver"},
	{Name: "receiver-only-pointer", Decls: []string{dS, "func (s *S#) r#() uint64 {\n\treturn 2\n}"}, Kinds: "struct x method-receiver (no mention)"},
	{Name: "interface-conversion", Suspect: true, Decls: []string{dI, dS, dSM, "func useI#(i I#) uint64 {\n\treturn i.M()\n}", "func u#() uint64 {\n\ts := S#{a: 1}\n\treturn useI#(s)\n}"}, Entry: "u#", Kinds: "method x interface-conversion"},
	{Name: "interface-conversion-in-if-condition", Suspect: true, Decls: []string{dI, dS, dSM, "func useI#(i I#) uint64 {\n\treturn i.M()\n}", "func u#() bool {\n\ts := S#{a: 1}\n\tif useI#(s) == 1 {\n\t\treturn true\n\t}\n\treturn false\n}"}, Kinds: "method x interface-conversion (call inside a comparison)"},
	{Name: "interface-conversion-shared-by-two-users", Suspect: true, Decls: []string{dI, dS, dSM, "func useI#(i I#) uint64 {\n\treturn i.M()\n}", "func u#() uint64 {\n\ts := S#{a: 1}\n\treturn useI#(s)\n}", "func v#() bool {\n\ts := S#{a: 2}\n\tif useI#(s) == 1 {\n\t\treturn true\n\t}\n\treturn false\n}"}, Kinds: "method x interface-conversion (definition emitted with another user)"},
	{Name: "pointer-store-named-type", Suspect: true, Decls: []string{dN, "func u#(p *N#) {\n\t*p = 3\n}"}, Kinds: "named-type x store-type"},
	{Name: "pointer-load-named-type", Suspect: true, Decls: []string{dN, "func u#(p *N#) uint64 {\n\treturn uint64(*p)\n}"}, Kinds: "named-type x load-type"},
	{Name: "var-initialiser-struct", Suspect: true, Decls: []string{dS, "func u#(p *S#) {\n\tvar s = *p\n\t_ = s\n}"}, Kinds: "struct x var-initialiser-type"},
	{Name: "self-recursion", Decls: []string{"func r#(n uint64) uint64 {\n\tif n == 0 {\n\t\treturn 0\n\t}\n\treturn r#(n - 1)\n}", "func u#() uint64 {\n\treturn r#(2)\n}"}, Entry: "u#", Kinds: "func x self-call"},
	{Name: "self-recursion-method", Decls: []string{dS, "func (s *S#) rm#(n uint64) uint64 {\n\tif n == 0 {\n\t\treturn s.a\n\t}\n\treturn s.rm#(n - 1)\n}"}, Kinds: "method x self-call"},
	{Name: "self-recursion-in-closure", Decls: []string{"func r#(n uint64) uint64 {\n\tf := func() uint64 {\n\t\treturn r#(n - 1)\n\t}\n\tif n == 0 {\n\t\treturn 0\n\t}\n\treturn f()\n}"}, Kinds: "func x self-call"},
	{Name: "multi-name-const", Suspect: true, Decls: []string{"const a#, b# uint64 = 1, 2", "func u#() uint64 {\n\treturn a# + b#\n}"}, Entry: "u#", Kinds: "const x multi-name spec"},
	{Name: "multi-name-var", Suspect: true, Decls: []string{"var x#, y# uint64 = 3, 4", "func u#() uint64 {\n\treturn x# + y#\n}"}, Entry: "u#", Kinds: "var x multi-name spec"},
	{Name: "function-named-like-method", Suspect: true, Decls: []string{"type T# struct {\n\tv uint64\n}", "func (t T#) m() uint64 {\n\treturn t.v\n}", "func T#__m(t T#) uint64 {\n\treturn 7\n}"}, Kinds: "func/method x name collision"},
	{Name: "method-bare-name-equals-function", Decls: []string{"type T# struct {\n\tv uint64\n}", "func get#() uint64 {\n\treturn 4\n}", "func (t *T#) get#() uint64 {\n\treturn t.v\n}", "func u#() uint64 {\n\treturn get#() * 2\n}"}, Entry: "u#", Kinds: "func x call (a method has the same bare name)"},
	{Name: "method-bare-name-equals-constant", Decls: []string{"type T# struct {\n\tv uint64\n}", "const lim# uint64 = 4", "func (t *T#) lim#() uint64 {\n\treturn t.v\n}", "func u#() uint64 {\n\treturn lim# * 2\n}"}, Entry: "u#", Kinds: "const x constant-in-expression (a method has the same bare name)"},
	{Name: "method-bare-name-equals-global", Decls: []string{"type T# struct {\n\tv uint64\n}", "var cnt# uint64 = 4", "func (t *T#) cnt#() uint64 {\n\treturn t.v\n}", "func u#() uint64 {\n\treturn cnt# * 2\n}"}, Entry: "u#", Kinds: "var x global-in-expression (a method has the same bare name)"},
	{Name: "method-bare-name-equals-type", Decls: []string{"type T# struct {\n\tv uint64\n}", "type Key# struct {\n\tk uint64\n}", "func (t *T#) Key#() uint64 {\n\treturn t.v\n}", "func u#() uint64 {\n\tk := Key#{k: 3}\n\treturn k.k\n}"}, Entry: "u#", Kinds: "struct x struct-literal (a method has the same bare name)"},
	{Name: "two-methods-same-bare-name", Decls: []string{"type T# struct {\n\tv uint64\n}", "type V# struct {\n\tw uint64\n}", "func (t *T#) size#() uint64 {\n\treturn t.v\n}", "func (t *V#) size#() uint64 {\n\treturn t.w\n}", "func u#(a *T#, b *V#) uint64 {\n\treturn a.size#() + b.size#()\n}"}, Kinds: "method x method-call (two receivers share the bare name)"},
	{Name: "grouped-constants-later-member-used", Decls: []string{"const (\n\tha# uint64 = 8\n\thb# uint64 = 64\n\thc# uint64 = 3\n)", "const lim# uint64 = hb# * 2", "func u#() uint64 {\n\treturn hc# + lim#\n}"}, Entry: "u#", Kinds: "const x constant-in-initialiser (later member of a group)"},
	{Name: "grouped-globals-later-member-used", Decls: []string{"var (\n\tga# uint64 = 8\n\tgb# uint64 = 64\n)", "func u#() uint64 {\n\treturn gb# + 1\n}"}, Entry: "u#", Kinds: "var x global-in-expression (later member of a group)"},
	{Name: "grouped-types-later-member-used", Decls: []string{"type (\n\tGa# struct {\n\t\ta uint64\n\t}\n\tGb# struct {\n\t\tb uint64\n\t}\n)", "func u#() uint64 {\n\tv := Gb#{b: 2}\n\treturn v.b\n}"}, Entry: "u#", Kinds: "struct x struct-literal (later member of a type group)"},
	{Name: "constant-block-backward-reference", Suspect: true, Decls: []string{"const (\n\tk1# uint64 = k2# + 1\n\tk2# uint64 = 1\n)"}, Kinds: "const x constant-in-initialiser (later spec of the same block)"},
}

// c04Skip reads the quarantine switch.
func c04Skip() map[string]bool {
	m := map[string]bool{}
	for _, s := range strings.Split(os.Getenv("VERIF_C04_SKIP"), ",") {
		if s = strings.TrimSpace(s); s != "" {
			m[s] = true
		}
	}
	return m
}

func inst(t, id string) string { return strings.ReplaceAll(t, "#", id) }

// declSet is a package given as a set of declaration texts.
type declSet struct {
	ID      string
	Origin  string // directed:<atom> | random | shipped:<pkg>
	PkgName string
	Units   []string // declaration texts
	Refs    [][]string
	Imports []importSpec
	Atoms   []string
	Extra   map[string]map[string]string // sibling packages (rel dir -> files) the set imports
	Helper  bool                         // the only imports are the generated helper packages (c04matrix.go)
	Family  string
}

func c04DirectedSets(skip map[string]bool) []*declSet {
	var out []*declSet
	for i, a := range c04Atoms {
		if skip[a.Name] {
			continue
		}
		ds := &declSet{ID: fmt.Sprintf("d%02d", i), Origin: "directed:" + a.Name, PkgName: fmt.Sprintf("d%02d", i), Atoms: []string{a.Name}}
		for _, d := range a.Decls {
			ds.Units = append(ds.Units, inst(d, "0"))
		}
		out = append(out, ds)
	}
	for i, a := range c04GeneratedAtoms() {
		if skip[a.Name] {
			continue
		}
		id := fmt.Sprintf("g%03d", i)
		ds := &declSet{ID: id, Origin: "directed:" + a.Name, PkgName: id, Atoms: []string{a.Name}, Family: a.Family}
		for _, d := range a.Decls {
			ds.Units = append(ds.Units, inst(d, "0"))
		}
		ds.attachHelpers()
		out = append(out, ds)
	}
	return out
}

// c04RandomSet composes several atoms into one package with glue declarations on top (a DAG).
func c04RandomSet(rng *core.Rng, id string, skip map[string]bool) *declSet {
	ds := &declSet{ID: id, Origin: "random", PkgName: id}
	var pool, gpool []c04Atom
	for _, a := range c04Atoms {
		if !skip[a.Name] {
			pool = append(pool, a)
		}
	}
	for _, a := range c04GeneratedAtoms() {
		if !skip[a.Name] {
			gpool = append(gpool, a)
		}
	}
	n := 3 + rng.Intn(5)
	var entries, unitEntries, consts []string
	fixed := map[string]bool{}
	for k := 0; k < n; k++ {
		a := pool[rng.Intn(len(pool))]
		if len(gpool) > 0 && rng.Bool() {
			// a generated atom; atoms declaring a name without instance id must not meet the same name twice
			g := gpool[rng.Intn(len(gpool))]
			clash := false
			for _, f := range g.Fixed {
				clash = clash || fixed[f]
			}
			if !clash {
				a = g
				for _, f := range g.Fixed {
					fixed[f] = true
				}
			}
		}
		sid := fmt.Sprintf("%d", k)
		ds.Atoms = append(ds.Atoms, a.Name)
		for _, d := range a.Decls {
			ds.Units = append(ds.Units, inst(d, sid))
		}
		if a.Entry != "" {
			if a.Unit {
				unitEntries = append(unitEntries, inst(a.Entry, sid))
			} else {
				entries = append(entries, inst(a.Entry, sid))
			}
		}
		if a.Name == "constant-in-constant" {
			consts = append(consts, inst("e#", sid))
		}
	}
	// glue: functions over the closed entries (second level of the DAG), a constant over constants
	ng := 1 + rng.Intn(2)
	var glue []string
	for g := 0; g < ng; g++ {
		var b strings.Builder
		fmt.Fprintf(&b, "func glue%d() uint64 {\n\tvar r uint64 = %d\n", g, g)
		for _, e := range unitEntries {
			if rng.Bool() {
				fmt.Fprintf(&b, "\t%s()\n", e)
			}
		}
		for _, e := range entries {
			if rng.Bool() {
				fmt.Fprintf(&b, "\tr = r + %s()\n", e)
			}
		}
		for _, c := range consts {
			if rng.Bool() {
				fmt.Fprintf(&b, "\tr = r + %s\n", c)
			}
		}
		for _, p := range glue {
			if rng.Bool() {
				fmt.Fprintf(&b, "\tr = r + %s()\n", p)
			}
		}
		b.WriteString("\treturn r\n}")
		ds.Units = append(ds.Units, b.String())
		glue = append(glue, fmt.Sprintf("glue%d", g))
	}
	ds.attachHelpers()
	return ds
}

// ---------------------------------------------------------------- layouts

type layoutFile struct {
	Name  string
	Units []int
}

type layout struct {
	Files []layoutFile
	Desc  string
}

// file name pool: prefixes hit digits < upper case < lower case in byte order
// (goose sorts files by path); the part after the last '_' is never a GOOS/GOARCH/test suffix.
var namePrefixes = []string{"0", "1", "9", "A", "B", "M", "Z", "a", "b", "m", "z", "_x", "aa", "Zz", "a0", "a_a", "z_9"}

func fileName(rng *core.Rng, used map[string]bool) string {
	for {
		p := namePrefixes[rng.Intn(len(namePrefixes))]
		if strings.HasPrefix(p, "_") {
			p = "u" + p // files starting with _ are ignored by the go tool
		}
		n := fmt.Sprintf("%s_f%d.go", p, rng.Intn(10))
		if !used[strings.ToLower(n)] {
			used[strings.ToLower(n)] = true
			return n
		}
	}
}

func randomLayout(rng *core.Rng, n int) layout {
	perm := make([]int, n)
	for i := range perm {
		perm[i] = i
	}
	for i := n - 1; i > 0; i-- {
		j := rng.Intn(i + 1)
		perm[i], perm[j] = perm[j], perm[i]
	}
	k := 1 + rng.Intn(4)
	used := map[string]bool{}
	var files []layoutFile
	for f := 0; f < k; f++ {
		files = append(files, layoutFile{Name: fileName(rng, used)})
	}
	for _, u := range perm {
		f := rng.Intn(k)
		files[f].Units = append(files[f].Units, u)
	}
	return layout{Files: files, Desc: "random"}
}

// permutations enumerates all orders of 0..n-1 (n ≤ 6).
func permutations(n int) [][]int {
	var out [][]int
	a := make([]int, n)
	for i := range a {
		a[i] = i
	}
	var rec func(k int)
	rec = func(k int) {
		if k == n {
			out = append(out, append([]int{}, a...))
			return
		}
		for i := k; i < n; i++ {
			a[k], a[i] = a[i], a[k]
			rec(k + 1)
			a[k], a[i] = a[i], a[k]
		}
	}
	rec(0)
	return out
}

// exhaustiveLayouts: every permutation in one file; for n ≤ 4 also every cut into two files under both name orders.
func exhaustiveLayouts(n int) []layout {
	var out []layout
	for _, p := range permutations(n) {
		out = append(out, layout{Files: []layoutFile{{Name: "m_f0.go", Units: p}}, Desc: "exhaustive-1-file"})
		if n <= 4 {
			for cut := 1; cut < n; cut++ {
				for _, names := range [][2]string{{"a_f1.go", "z_f2.go"}, {"z_f1.go", "A_f2.go"}} {
					out = append(out, layout{Files: []layoutFile{
						{Name: names[0], Units: append([]int{}, p[:cut]...)},
						{Name: names[1], Units: append([]int{}, p[cut:]...)},
					}, Desc: "exhaustive-2-files"})
				}
			}
		}
	}
	return out
}

// render produces the files of one layout.
func (ds *declSet) render(l layout) map[string]string {
	files := map[string]string{}
	for _, f := range l.Files {
		var b strings.Builder
		fmt.Fprintf(&b, "package %s\n", ds.PkgName)
		need := map[string]bool{}
		for _, u := range f.Units {
			if u < len(ds.Refs) {
				for _, r := range ds.Refs[u] {
					need[r] = true
				}
			}
		}
		var imps []string
		for _, is := range ds.Imports {
			if need[is.Name] {
				imps = append(imps, is.Text)
			}
		}
		sort.Strings(imps)
		if len(imps) > 0 {
			b.WriteString("\nimport (\n")
			for _, t := range imps {
				b.WriteString("\t" + t + "\n")
			}
			b.WriteString(")\n")
		}
		for _, u := range f.Units {
			b.WriteString("\n" + ds.Units[u] + "\n")
		}
		files[f.Name] = b.String()
	}
	return files
}

// position of every unit in goose's processing order: files sorted by name (byte order), then position.
func (l layout) positions(n int) (fileRank, pos []int) {
	names := make([]string, len(l.Files))
	for i, f := range l.Files {
		names[i] = f.Name
	}
	sorted := append([]string{}, names...)
	sort.Strings(sorted)
	rank := map[string]int{}
	for i, s := range sorted {
		rank[s] = i
	}
	fileRank = make([]int, n)
	pos = make([]int, n)
	for _, f := range l.Files {
		for p, u := range f.Units {
			fileRank[u] = rank[f.Name]
			pos[u] = p
		}
	}
	return
}

// familyLayouts: the layouts of a set of a generated family. 2 declarations: exhaustive (both orders, in one file and
// cut into two files under both lexical orders of the file names). 3: every order in one file; every order cut into two
// files "a_", "z_" (cut point rotating, so that every ordered pair of declarations is met with the first one in the
// earlier file); every second order also under the file names "z_", "A_" (the textually first file is processed second).
// 4: every order in one file, every second order cut, every fourth under the other names. More: every order in one file.
// (The hand-written atoms keep their exhaustive layouts.)
func familyLayouts(n int) []layout {
	if n <= 2 {
		return exhaustiveLayouts(n)
	}
	names := [][2]string{{"a_f1.go", "z_f2.go"}, {"z_f1.go", "A_f2.go"}}
	two := func(p []int, cut, ni int) layout {
		return layout{Files: []layoutFile{
			{Name: names[ni][0], Units: append([]int{}, p[:cut]...)},
			{Name: names[ni][1], Units: append([]int{}, p[cut:]...)},
		}, Desc: "rotating-cut-2-files"}
	}
	var out []layout
	for pi, p := range permutations(n) {
		out = append(out, layout{Files: []layoutFile{{Name: "m_f0.go", Units: p}}, Desc: "every-order-1-file"})
		switch n {
		case 3:
			cut := 1 + pi%2
			out = append(out, two(p, cut, 0))
			if pi%2 == 0 {
				out = append(out, two(p, 3-cut, 1))
			}
		case 4:
			if pi%2 == 0 {
				out = append(out, two(p, 1+(pi/2)%3, 0))
			}
			if pi%4 == 1 {
				out = append(out, two(p, 1+(pi/4)%3, 1))
			}
		}
	}
	return out
}

// typecheckLayouts: the layouts translated a second time with -typecheck (at most ~60 per set).
func typecheckLayouts(n int) []layout {
	var l []layout
	for _, x := range familyLayouts(n) {
		// for 3 and more declarations the layouts under the second pair of file names are left out
		if n <= 2 || len(x.Files) == 1 || x.Files[0].Name == "a_f1.go" {
			l = append(l, x)
		}
	}
	if len(l) <= 60 {
		return l
	}
	var out []layout
	for i := 0; i < 60; i++ {
		out = append(out, l[i*len(l)/60])
	}
	return out
}
