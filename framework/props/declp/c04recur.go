package declp

import (
	"go/ast"
	"strings"
)

// c04recur.go: the KIND of reference from a definition to a name. The other C04 atoms refer from a
// "user" to a different "target" declaration (earlier or later in the layout); here the name referred
// to is the definition's OWN: direct recursion, written in every form goose has a separate path for
// (plain function, method with pointer / value receiver, generic function with inferred, explicit and
// two-parameter instantiation) crossed with the position of the self call (tail call, argument of
// itself, closure, loop body, conditional block, goroutine, twice, through a function value, argument
// of append, next to calls of an earlier and a later declaration). Every atom also has a caller, so
// the same name is met as a self reference and as an ordinary reference from another declaration.
//
// The rule is the one c04Judge already applies to every mention: an unquoted (Gallina) identifier X
// inside `Definition X` is a use of a name that is not yet defined; a self call has to go through the
// quoted rec binder "X" (a string variable, which the reader does not report as a mention, whatever it
// is applied to: the unchanged tree prints a generic self call as `"r" T "x"`).

type c04RecForm struct {
	name    string
	pre     []string                 // declarations the form needs
	head    string                   // everything before the body: `func r#(x uint64, n uint64) uint64`
	ret     string                   // result type
	call    func(x, n string) string // a self call
	value   string                   // r# as a function value ("" = the form has none)
	caller  string                   // a declaration that calls r# from outside
	helperT string                   // type of the helper functions' parameter
}

func c04RecursionAtoms() []c04Atom {
	forms := []c04RecForm{
		{name: "function", head: "func r#(x uint64, n uint64) uint64", ret: "uint64",
			call: func(x, n string) string { return "r#(" + x + ", " + n + ")" }, value: "r#",
			caller: "func u#() uint64 {\n\treturn r#(3, 2)\n}"},
		{name: "method-pointer-receiver", pre: []string{dS}, head: "func (s *S#) r#(x uint64, n uint64) uint64", ret: "uint64",
			call: func(x, n string) string { return "s.r#(" + x + ", " + n + ")" }, value: "s.r#",
			caller: "func u#(s *S#) uint64 {\n\treturn s.r#(3, 2)\n}"},
		{name: "method-value-receiver", pre: []string{dS}, head: "func (s S#) r#(x uint64, n uint64) uint64", ret: "uint64",
			call: func(x, n string) string { return "s.r#(" + x + ", " + n + ")" }, value: "s.r#",
			caller: "func u#(s S#) uint64 {\n\treturn s.r#(3, 2)\n}"},
		{name: "method-called-on-another-receiver", pre: []string{dS}, head: "func (s *S#) r#(x uint64, n uint64) uint64", ret: "uint64",
			call:   func(x, n string) string { return "(&S#{a: " + x + "}).r#(" + x + ", " + n + ")" },
			caller: "func u#(s *S#) uint64 {\n\treturn s.r#(3, 2)\n}"},
		{name: "generic-inferred", head: "func r#[T any](x T, n uint64) T", ret: "T",
			call:   func(x, n string) string { return "r#(" + x + ", " + n + ")" },
			caller: "func u#() uint64 {\n\treturn r#(uint64(3), 2)\n}"},
		{name: "generic-explicit", head: "func r#[T any](x T, n uint64) T", ret: "T",
			call: func(x, n string) string { return "r#[T](" + x + ", " + n + ")" }, value: "r#[T]",
			caller: "func u#() uint64 {\n\treturn r#[uint64](3, 2)\n}"},
		{name: "generic-two-parameters-explicit", head: "func r#[T any, U any](x T, y U, n uint64) T", ret: "T",
			call:   func(x, n string) string { return "r#[T, U](" + x + ", y, " + n + ")" },
			caller: "func u#() uint64 {\n\treturn r#[uint64, bool](3, true, 2)\n}"},
		{name: "generic-two-parameters-swapped", head: "func r#[T any, U any](x T, y U, n uint64) T", ret: "T",
			call:   func(x, n string) string { return "r#[T, T](" + x + ", " + x + ", " + n + ")" },
			caller: "func u#() uint64 {\n\treturn r#(uint64(3), true, 2)\n}"},
		{name: "generic-slice-parameter", head: "func r#[T any](x []T, n uint64) []T", ret: "[]T",
			call:   func(x, n string) string { return "r#(" + x + ", " + n + ")" },
			caller: "func u#() uint64 {\n\tvar e []uint64\n\treturn uint64(len(r#[uint64](e, 2)))\n}"},
	}
	type site struct {
		name    string
		body    func(f c04RecForm) string // "" = not applicable
		helpers bool
	}
	base := "if n == 0 {\n\treturn x\n}\n"
	sites := []site{
		{name: "tail-call", body: func(f c04RecForm) string { return base + "return " + f.call("x", "n-1") }},
		{name: "argument-of-itself", body: func(f c04RecForm) string {
			return "if n < 2 {\n\treturn x\n}\nreturn " + f.call(f.call("x", "n-2"), "n-1")
		}},
		{name: "bound-then-returned", body: func(f c04RecForm) string { return base + "y := " + f.call("x", "n-1") + "\nreturn y" }},
		{name: "in-closure", body: func(f c04RecForm) string {
			return "f := func() " + f.ret + " {\n\treturn " + f.call("x", "n-1") + "\n}\n" + base + "return f()"
		}},
		{name: "in-loop-body", body: func(f c04RecForm) string {
			return "var acc " + f.ret + " = x\nfor i := uint64(0); i < n; i++ {\n\tacc = " + f.call("acc", "i") + "\n}\nreturn acc"
		}},
		{name: "in-conditional-block", body: func(f c04RecForm) string {
			return "var acc " + f.ret + " = x\nif n > 0 {\n\tacc = " + f.call("x", "n-1") + "\n}\nreturn acc"
		}},
		{name: "in-goroutine", body: func(f c04RecForm) string {
			return "if n > 0 {\n\tgo func() {\n\t\t" + f.call("x", "n-1") + "\n\t}()\n}\nreturn x"
		}},
		{name: "twice", body: func(f c04RecForm) string {
			return "if n < 2 {\n\treturn x\n}\na := " + f.call("x", "n-1") + "\nb := " + f.call("a", "n-2") + "\nreturn b"
		}},
		{name: "through-a-function-value", body: func(f c04RecForm) string {
			if f.value == "" {
				return ""
			}
			return base + "f := " + f.value + "\nreturn " + strings.Replace(f.call("x", "n-1"), strings.SplitN(f.call("x", "n-1"), "(", 2)[0], "f", 1)
		}},
		{name: "argument-of-append", body: func(f c04RecForm) string {
			if strings.HasPrefix(f.ret, "[]") {
				return ""
			}
			return base + "var xs []" + f.ret + "\nxs = append(xs, " + f.call("x", "n-1") + ")\nreturn xs[0]"
		}},
		{name: "next-to-calls-of-other-declarations", helpers: true, body: func(f c04RecForm) string {
			return "if ha#(n) == 0 {\n\treturn x\n}\nreturn " + f.call("x", "hb#(n)")
		}},
	}
	var out []c04Atom
	for _, f := range forms {
		for _, s := range sites {
			if strings.HasPrefix(f.name, "method-called-on-another") && s.name != "tail-call" && s.name != "in-closure" {
				continue
			}
			body := s.body(f)
			if body == "" {
				continue
			}
			decls := append([]string{}, f.pre...)
			if s.helpers {
				decls = append(decls, "func ha#(n uint64) uint64 {\n\treturn n\n}", "func hb#(n uint64) uint64 {\n\treturn n - 1\n}")
			}
			decls = append(decls, f.head+" {\n\t"+strings.ReplaceAll(body, "\n", "\n\t")+"\n}")
			if !s.helpers || len(f.pre) == 0 {
				decls = append(decls, f.caller) // at most four declarations per atom (the layouts are enumerated)
			}
			out = append(out, c04Atom{Name: "recursion/" + f.name + "/" + s.name, Family: "recursion", Decls: decls,
				Kinds: "self reference of a " + f.name + " × " + s.name})
		}
	}
	// a type parameter NAMED like another top-level declaration: the parameter is bound by the definition itself,
	// a dependency on its namesake would order the two declarations by a use that does not exist
	out = append(out,
		c04Atom{Name: "recursion/type-parameter-named-like/function-that-uses-the-generic", Family: "recursion",
			Decls: []string{"func g#[u# any](x u#) u# {\n\treturn x\n}", "func u#() uint64 {\n\treturn g#[uint64](1)\n}"},
			Kinds: "type parameter named like a function that calls the generic function"},
		c04Atom{Name: "recursion/type-parameter-named-like/constant-built-from-nothing", Family: "recursion",
			Decls: []string{"func g#[k# any](x k#) k# {\n\treturn x\n}", "const k# uint64 = 3", "func u#() uint64 {\n\treturn g#[uint64](k#)\n}"},
			Kinds: "type parameter named like a constant"},
	)
	return out
}

// selfRefForm describes how the function or method declaration of a unit refers to itself in the Go source:
// <kind>[-generic]-<call|value|call+value|none>, where "value" is an occurrence of its own name that is not
// the callee of a call (a function value, a method value).
func selfRefForm(u unit) string {
	form := u.Kind
	if len(u.node) == 0 {
		return form
	}
	fd, ok := u.node[0].(*ast.FuncDecl)
	if !ok || fd.Body == nil {
		return form
	}
	if fd.Type.TypeParams != nil && len(fd.Type.TypeParams.List) > 0 {
		form += "-generic"
	}
	callees := map[ast.Expr]bool{}
	ast.Inspect(fd.Body, func(n ast.Node) bool {
		if c, ok := n.(*ast.CallExpr); ok {
			f := ast.Unparen(c.Fun)
			switch x := f.(type) {
			case *ast.IndexExpr:
				f = ast.Unparen(x.X)
			case *ast.IndexListExpr:
				f = ast.Unparen(x.X)
			}
			callees[f] = true
		}
		return true
	})
	calls, values := 0, 0
	isMethod := fd.Recv != nil
	ast.Inspect(fd.Body, func(n ast.Node) bool {
		switch x := n.(type) {
		case *ast.SelectorExpr:
			if isMethod && x.Sel.Name == fd.Name.Name {
				if callees[x] {
					calls++
				} else {
					values++
				}
			}
		case *ast.Ident:
			if !isMethod && x.Name == fd.Name.Name {
				if callees[x] {
					calls++
				} else {
					values++
				}
			}
		}
		return true
	})
	switch {
	case calls > 0 && values > 0:
		return form + "-call+value"
	case values > 0:
		return form + "-value"
	case calls > 0:
		return form + "-call"
	}
	return form + "-none"
}
