package props

import (
	"fmt"
	"go/ast"
	"go/parser"
	"go/token"
	"os"
	"path/filepath"
	"regexp"
	"sort"
	"strings"
	"time"

	"verif/core"
	"verif/gen"
	"verif/gl"
	"verif/gorun"
)

// C05: the output is well-formed by Coq's lexical and syntactic rules; text from Go comments,
// string literals and logging calls cannot change which definitions Coq sees; nesting as read
// by Coq = nesting of the Go source; -typecheck / -source-comments / -skip-interfaces leave
// every definition body unchanged.

func init() {
	Registry["C05"] = Prop{Level: "exploration", Run: runC05}
}

var flagCombos = [][]string{
	{},
	{"-typecheck"},
	{"-source-comments"},
	{"-skip-interfaces"},
	{"-typecheck", "-source-comments"},
	{"-typecheck", "-skip-interfaces"},
	{"-source-comments", "-skip-interfaces"},
	{"-typecheck", "-source-comments", "-skip-interfaces"},
}

// expectedDefs lists the definition names the Go declarations of a source must produce.
func expectedDefs(src string) []string {
	fset := token.NewFileSet()
	f, err := parser.ParseFile(fset, "x.go", src, 0)
	if err != nil {
		return nil
	}
	var out []string
	for _, d := range f.Decls {
		switch d := d.(type) {
		case *ast.FuncDecl:
			name := d.Name.Name
			if d.Recv != nil && len(d.Recv.List) == 1 {
				t := d.Recv.List[0].Type
				if st, ok := t.(*ast.StarExpr); ok {
					t = st.X
				}
				if id, ok := t.(*ast.Ident); ok {
					name = id.Name + "__" + name
				}
			}
			out = append(out, name)
		case *ast.GenDecl:
			for _, sp := range d.Specs {
				switch sp := sp.(type) {
				case *ast.TypeSpec:
					out = append(out, sp.Name.Name)
				case *ast.ValueSpec:
					for _, n := range sp.Names {
						out = append(out, n.Name)
					}
				}
			}
		}
	}
	return out
}

// arityViolations: a library function applied to more arguments than it takes means that
// parentheses around one of its operands were lost (the operand's own arguments became
// arguments of the library function).
func arityViolations(f *gl.File) []string {
	defined := map[string]bool{}
	for _, d := range f.Defs() {
		defined[d.Name] = true
	}
	var out []string
	for _, d := range f.Defs() {
		gl.WalkExpr(d.Body, func(e gl.Expr) {
			a, ok := e.(gl.App)
			if !ok {
				return
			}
			g, ok := a.Fn.(gl.Global)
			if !ok || defined[g.Name] {
				return
			}
			if n, ok := gl.LibraryArity(g.Name); ok && len(a.Args) > n {
				out = append(out, fmt.Sprintf("in %s: %s takes %d arguments but is applied to %d: %s", d.Name, g.Name, n, len(a.Args), short(gl.Show(a))))
			}
		})
	}
	return out
}

// c05Duplicates: a name defined twice is an error in Coq ("already exists"), and the set of
// definitions Coq sees is then not the set of Go declarations.
func c05Duplicates(r *core.Run, pkg, combo string, f *gl.File, src string) {
	seen := map[string]int{}
	for _, d := range f.Defs() {
		seen[d.Name]++
	}
	r.Count("files_checked_for_duplicate_definitions", 1)
	for n, k := range seen {
		if k > 1 {
			r.Violate("c05-definition-emitted-"+fmt.Sprint(k)+"-times"+sanitizeFlag(combo), fmt.Sprintf("%s is defined %d times in the file emitted for %s under flags [%s]", n, k, pkg, combo), map[string]interface{}{"pkg": pkg, "flags": combo, "source": src})
			return
		}
	}
}

func defBodies(f *gl.File) map[string]string {
	m := map[string]string{}
	for _, d := range f.Defs() {
		m[d.Name] = d.DefKind + ":" + strings.Join(d.TypeParams, ",") + ":" + gl.Show(d.Body)
	}
	return m
}

func runC05(r *core.Run) (bool, string) {
	r.SetRule("(1) every shipped .gold.v and every emitted file is lexed and parsed by a reader that follows Coq's rules (nested comments, strings lexed inside comments, notation levels of goose_lang/notation.v); (2) hostile payloads (comment delimiters, quotes, control and non-ASCII bytes, sentence-like text, very long lines) are placed in package/func/struct/const doc comments, body and field comments, interpreted and raw string literals, log.Printf/Println, fmt.Println, panic messages and const strings — all single placements that are legal Go, exhaustively — and the set of definitions read back must equal the Go declarations, string values must survive (differential run); (3) expression nesting: for every ordered pair of binary operators in three groupings and random deeper expressions, the tree Coq reads must equal the Go tree (independent skeleton walker); (4) every package is translated under the 8 combinations of -typecheck/-source-comments/-skip-interfaces and every definition body must be identical; a case is distinct by (placement, payload) / expression / (package, flag combination)")
	r.Assume("the reader (framework/gl) implements Coq's lexical rules and the notation levels of Perennial's goose_lang; calibrated on the 12 shipped gold files at every run")
	goose, err := r.BuildGoose()
	if err != nil {
		fmt.Println(err)
		return false, "goose does not build"
	}
	// (1) calibration on shipped gold files
	golds := 0
	filepath.Walk(core.RepoDir, func(p string, info os.FileInfo, err error) error {
		if err != nil || !strings.HasSuffix(p, ".gold.v") {
			return nil
		}
		b, _ := os.ReadFile(p)
		f, perr := gl.ParseFile(string(b))
		golds++
		if perr != nil {
			fmt.Printf("reader rejects shipped gold file %s: %v\n", p, perr)
			r.Inconclusive("reader-rejects-gold-file")
			golds = -1000
			return nil
		}
		want := len(regexp.MustCompile(`(?m)^(Definition|Notation) `).FindAllString(string(b), -1))
		if len(f.Defs()) != want {
			fmt.Printf("reader finds %d definitions in %s, text has %d\n", len(f.Defs()), p, want)
			golds = -1000
		}
		r.Count("gold_definitions_read", int64(len(f.Defs())))
		return nil
	})
	if golds < 10 {
		return false, "reader calibration on the shipped gold files failed: no verdicts issued"
	}
	r.Set("gold_files_read", golds)
	calibrate(r, goose)

	// (2) hostile payloads
	type hp struct {
		pkg       *gen.Package
		placement string
		payload   gen.Payload
	}
	var hps []hp
	for _, pl := range gen.Placements {
		for _, p := range gen.Payloads {
			name := fmt.Sprintf("h%d", len(hps))
			gp, ok := gen.HostilePackage(name, pl, p)
			if !ok {
				r.Count("placements_not_expressible_in_go", 1)
				continue
			}
			hps = append(hps, hp{gp, pl, p})
		}
	}
	// payload kinds x syntactic contexts (closures, loops, branches, methods, blocks): quick takes a
	// fixed core of payloads for every cell plus one rotating payload, thorough all of them
	var ctxs []hp
	core5 := map[string]bool{"percent": true, "qed": true, "quote-close": true, "close": true}
	cell := 0
	for _, kind := range gen.ContextKinds {
		for _, cx := range gen.Contexts {
			cell++
			for pi, p := range gen.Payloads {
				if r.Quick() && !core5[p.ID] && pi != cell%len(gen.Payloads) {
					continue
				}
				name := fmt.Sprintf("x%d", len(ctxs))
				gp, ok := gen.HostileContextPackage(name, kind, cx, p)
				if !ok {
					r.Count("placements_not_expressible_in_go", 1)
					continue
				}
				ctxs = append(ctxs, hp{gp, kind + "-in-" + cx, p})
			}
		}
	}
	rng := core.NewRng(r.Seed, "c05")
	// (3) nesting
	nest := gen.NestingPackage(rng.Fork("nest"), "nesting", r.Pick(150, 3000))
	// random in-subset packages for the flag comparison
	var rnd []*gen.Package
	for i := 0; i < r.Pick(10, 80); i++ {
		name := fmt.Sprintf("rf%d", i)
		rnd = append(rnd, gen.RandomPackage(rng.Fork(name), name, gen.DefaultOptions()))
	}
	var pkgs []*gorun.Pkg
	srcOf := map[string]string{}
	for _, h := range hps {
		pkgs = append(pkgs, &gorun.Pkg{Name: h.pkg.Name, Files: map[string]string{h.pkg.Name + ".go": h.pkg.Source}})
		srcOf[h.pkg.Name] = h.pkg.Source
	}
	for _, h := range ctxs {
		pkgs = append(pkgs, &gorun.Pkg{Name: h.pkg.Name, Files: map[string]string{h.pkg.Name + ".go": h.pkg.Source}})
		srcOf[h.pkg.Name] = h.pkg.Source
	}
	pkgs = append(pkgs, &gorun.Pkg{Name: nest.Name, Files: map[string]string{"nesting.go": nest.Source}})
	srcOf[nest.Name] = nest.Source
	for _, p := range rnd {
		pkgs = append(pkgs, &gorun.Pkg{Name: p.Name, Files: map[string]string{p.Name + ".go": p.Source}})
		srcOf[p.Name] = p.Source
	}
	dir := filepath.Join(r.Scratch, "c05")
	res, err := tvBatch(r, dir, goose, pkgs, tvOptions{PerPackage: true})
	if err != nil {
		fmt.Println(err)
		return false, "hostile batch failed to build (framework defect)"
	}
	byName := map[string]*tvPkg{}
	for _, p := range res {
		byName[p.Name] = p
	}
	for _, h := range hps {
		c05JudgeHostile(r, byName[h.pkg.Name], h.pkg, h.placement, h.payload)
	}
	for _, h := range ctxs {
		c05JudgeHostile(r, byName[h.pkg.Name], h.pkg, h.placement, h.payload)
	}
	// (3) nesting
	if np := byName[nest.Name]; np != nil && np.ParseErr == "" && np.VFile != "" {
		f, _ := gl.ParseFile(np.VFile)
		defs := map[string]gl.Expr{}
		for _, d := range f.Defs() {
			defs[d.Name] = d.Body
		}
		fset := token.NewFileSet()
		gf, _ := parser.ParseFile(fset, "n.go", nest.Source, 0)
		for _, d := range gf.Decls {
			fd, ok := d.(*ast.FuncDecl)
			if !ok || !strings.HasPrefix(fd.Name.Name, "e") || len(fd.Body.List) != 1 {
				continue
			}
			ret, ok := fd.Body.List[0].(*ast.ReturnStmt)
			if !ok {
				continue
			}
			want := goSkeleton(ret.Results[0])
			body, ok := defs[fd.Name.Name]
			r.Eval(1)
			if !ok {
				r.Violate("c05-nesting-definition-missing", "no definition for "+fd.Name.Name, nil)
				continue
			}
			rec, ok := gl.Strip(body).(gl.Rec)
			if !ok {
				r.Violate("c05-nesting-not-a-function", "definition of "+fd.Name.Name+" is not a rec:", nil)
				continue
			}
			got := glSkeleton(rec.Body)
			r.Count("nesting_expressions_compared", 1)
			r.Distinct("nest/" + want)
			if got != want {
				r.Violate("c05-nesting-differs", fmt.Sprintf("the tree Coq reads differs from the Go tree: Go %s, Coq %s", want, got),
					map[string]interface{}{"go": funcSource(nest.Source, fd.Name.Name), "coq_reads": got, "go_tree": want})
			} else if r.GetCount("nesting_expressions_compared")%97 == 1 {
				r.Sample(9, map[string]interface{}{"go_expression": funcSource(nest.Source, fd.Name.Name), "tree": want})
			}
		}
	} else if np != nil {
		r.Violate("c05-nesting-unreadable", "nesting package output unreadable: "+np.ParseErr, map[string]interface{}{"stderr": np.Stderr})
	}
	// (4) flag combinations: generated packages and the shipped examples
	base := map[string]map[string]string{}
	for _, p := range res {
		if p.ParseErr == "" && p.VFile != "" {
			f, _ := gl.ParseFile(p.VFile)
			base[p.Name] = defBodies(f)
			c05Arity(r, p.Name, f, srcOf[p.Name])
			c05Duplicates(r, p.Name, "", f, srcOf[p.Name])
		}
	}
	// the places x operations matrix puts compound operands into every construct
	if mx := pruneToCompile(r, filepath.Join(r.Scratch, "c05-matrix-prune"), gen.MatrixPackages()); mx != nil {
		var mp []*gorun.Pkg
		for _, p := range mx {
			mp = append(mp, &gorun.Pkg{Name: p.Name, Files: map[string]string{p.Name + ".go": p.Source}})
		}
		mb, err := gorun.Write(filepath.Join(r.Scratch, "c05-matrix"), mp, []string{"case"})
		if err == nil {
			g := mb.RunGoose(goose, filepath.Join(r.Scratch, "c05-matrix", "out"), []string{"-ignore-errors"})
			for _, p := range mp {
				vb, err := os.ReadFile(mb.VPath(g.OutDir, p.Name))
				if err != nil {
					continue
				}
				f, perr := gl.ParseFile(string(vb))
				r.Eval(1)
				if perr != nil {
					r.Violate("c05-matrix-unreadable", "matrix package "+p.Name+" is not well-formed: "+perr.Error(), map[string]interface{}{"v": string(vb)})
					continue
				}
				c05Arity(r, p.Name, f, p.Files[p.Name+".go"])
			}
		}
	}
	b := &gorun.Batch{Dir: filepath.Join(dir)}
	for ci, combo := range flagCombos[1:] {
		out := filepath.Join(dir, fmt.Sprintf("flags%d", ci))
		flags := append([]string{"-ignore-errors"}, combo...)
		// one invocation for the whole module; per package only if that one crashed
		if g := b.RunGoose(goose, out, flags); g.Code >= 2 || g.Signaled {
			core.Parallel(len(pkgs), 8, func(i int) {
				b.RunGoose(goose, out, flags, "./cases/"+pkgs[i].Name)
			})
		}
		for _, p := range pkgs {
			bb, ok := base[p.Name]
			if !ok {
				continue
			}
			vb, err := os.ReadFile(b.VPath(out, p.Name))
			r.Eval(1)
			cname := strings.Join(combo, " ")
			if err != nil {
				r.Violate("c05-flags-no-output", "no output under "+cname+" although the default flags produce one", map[string]interface{}{"pkg": p.Name, "source": srcOf[p.Name]})
				continue
			}
			f, perr := gl.ParseFile(string(vb))
			if perr != nil {
				r.Violate("c05-flags-unreadable-"+sanitizeFlag(cname), "output under "+cname+" is not well-formed: "+perr.Error(), map[string]interface{}{"pkg": p.Name, "source": srcOf[p.Name], "v": string(vb)})
				continue
			}
			c05CompareBodies(r, p.Name, cname, bb, defBodies(f), srcOf[p.Name])
			c05Duplicates(r, p.Name, cname, f, srcOf[p.Name])
		}
	}
	c05Shapes(r, goose)
	c05Names(r, goose)
	c05Examples(r, goose)
	replayWitnesses(r, goose, "C05", tvOptions{PerPackage: true}, c05Failing)
	ok := r.GetCount("nesting_expressions_compared") >= 100 && r.GetCount("flag_body_comparisons") >= 100 && (r.GetCount("hostile_placements_intact")+r.GetCount("hostile_placements_rejected_by_goose")) >= 50
	return ok, "too few placements / expressions / flag comparisons judged"
}

func sanitizeFlag(s string) string {
	return strings.ReplaceAll(strings.ReplaceAll(s, " ", ""), "-", "_")
}

func short(s string) string {
	if len(s) > 40 {
		return s[:40] + "…"
	}
	return s
}

// c05CompareBodies: bodies must be identical; -skip-interfaces may only remove X__to__Y definitions.
func c05CompareBodies(r *core.Run, pkg, combo string, base, got map[string]string, src string) {
	names := map[string]bool{}
	for n := range base {
		names[n] = true
	}
	for n := range got {
		names[n] = true
	}
	var ns []string
	for n := range names {
		ns = append(ns, n)
	}
	sort.Strings(ns)
	for _, n := range ns {
		r.Count("flag_body_comparisons", 1)
		bv, bok := base[n]
		gv, gok := got[n]
		r.Distinct("flags/" + pkg + "/" + n + "/" + combo)
		switch {
		case bok && gok && bv != gv:
			r.Violate("c05-flags-change-body-"+sanitizeFlag(combo), fmt.Sprintf("definition %s of %s differs under %s", n, pkg, combo), map[string]interface{}{"default": bv, "with_flags": gv, "source": src})
		case bok != gok:
			if strings.Contains(combo, "-skip-interfaces") && strings.Contains(n, "__to__") {
				continue
			}
			r.Violate("c05-flags-change-definition-set-"+sanitizeFlag(combo), fmt.Sprintf("definition %s of %s present=%v by default, present=%v under %s", n, pkg, bok, gok, combo), map[string]interface{}{"source": src})
		}
	}
}

// c05Examples translates the shipped example packages under every flag combination.
func c05Examples(r *core.Run, goose string) {
	pats := []string{"./internal/examples/unittest", "./internal/examples/semantics", "./internal/examples/append_log", "./internal/examples/logging2",
		"./internal/examples/simpledb", "./internal/examples/wal", "./internal/examples/comments", "./internal/examples/async", "./internal/examples/rfc1813", "./internal/examples/trust_import", "./internal/examples/unittest/generic"}
	var base map[string]map[string]string
	for ci, combo := range flagCombos {
		out := filepath.Join(r.Scratch, fmt.Sprintf("c05-ex%d", ci))
		args := append([]string{"-out", out}, combo...)
		args = append(args, pats...)
		res := core.Exec(core.RepoDir, core.GoEnv(), 5*time.Minute, "", goose, args...)
		if res.Code != 0 {
			r.Violate("c05-examples-fail-"+sanitizeFlag(strings.Join(combo, " ")), "goose fails on the shipped examples under "+strings.Join(combo, " ")+": "+firstLines(res.Stderr, 6), nil)
			continue
		}
		cur := map[string]map[string]string{}
		filepath.Walk(out, func(p string, info os.FileInfo, err error) error {
			if err != nil || !strings.HasSuffix(p, ".v") {
				return nil
			}
			bs, _ := os.ReadFile(p)
			rel, _ := filepath.Rel(out, p)
			f, perr := gl.ParseFile(string(bs))
			r.Eval(1)
			if perr != nil {
				r.Violate("c05-example-unreadable", "shipped example "+rel+" is not well-formed under "+strings.Join(combo, " ")+": "+perr.Error(), nil)
				return nil
			}
			cur[rel] = defBodies(f)
			r.Count("example_files_read", 1)
			return nil
		})
		if ci == 0 {
			base = cur
			continue
		}
		for rel, bb := range base {
			if g, ok := cur[rel]; ok {
				c05CompareBodies(r, "example:"+rel, strings.Join(combo, " "), bb, g, "")
			} else {
				r.Violate("c05-flags-no-output", "example "+rel+" has no output under "+strings.Join(combo, " "), nil)
			}
		}
	}
}

func c05Failing(p *tvPkg) (bool, string) {
	if p.Crashed {
		return false, ""
	}
	if p.VFile == "" {
		return false, ""
	}
	if p.ParseErr != "" {
		return true, "emitted file is not well-formed by Coq's rules: " + p.ParseErr
	}
	src := ""
	for _, s := range p.Source {
		src = s
	}
	f, _ := gl.ParseFile(p.VFile)
	got := map[string]int{}
	for _, d := range f.Defs() {
		got[d.Name]++
	}
	rej := len(p.GooseErrs) > 0
	for _, n := range expectedDefs(src) {
		if got[n] != 1 && !rej {
			return true, fmt.Sprintf("definition %s appears %d times", n, got[n])
		}
	}
	for _, c := range p.Cases {
		if c.Verdict == "mismatch" {
			return true, fmt.Sprintf("%s: Go %s, GooseLang %s", c.Case, c.GoValue, c.GL)
		}
	}
	return false, ""
}

// c05Names: top-level Go names that are Coq keywords or GooseLang library names.
func c05Names(r *core.Run, goose string) {
	var pkgs []*gorun.Pkg
	kind := map[string]string{}
	nameOf := map[string]string{}
	for i, n := range append(append([]string{}, gen.CoqKeywordNames...), gen.LibraryNames...) {
		pn := fmt.Sprintf("nm%d", i)
		gp := gen.NamePackage(pn, n)
		pkgs = append(pkgs, &gorun.Pkg{Name: pn, Files: map[string]string{pn + ".go": gp.Source}})
		nameOf[pn] = n
		if i < len(gen.CoqKeywordNames) {
			kind[pn] = "coq-keyword"
		} else {
			kind[pn] = "library-name"
		}
	}
	res, err := tvBatch(r, filepath.Join(r.Scratch, "c05-names"), goose, pkgs, tvOptions{PerPackage: true})
	if err != nil {
		fmt.Println("names batch:", err)
		r.Inconclusive("names-batch-failed")
		return
	}
	for _, p := range res {
		r.Eval(1)
		n := nameOf[p.Name]
		r.Distinct("name/" + n)
		r.Count("identifier_names_tried", 1)
		if p.Crashed {
			r.Violate("c05-name-"+n+"-goose-crash", "goose aborts on a package whose top-level function is named "+n+": "+firstLines(p.Stderr, 6), map[string]interface{}{"stderr": p.Stderr})
			continue
		}
		if len(p.GooseErrs) > 0 {
			continue // rejected: fine
		}
		detail := map[string]interface{}{"name": n, "source": p.Source, "v": p.VFile}
		if p.ParseErr != "" {
			r.Violate("c05-top-level-name-is-"+kind[p.Name], fmt.Sprintf("a Go function named %s is emitted under that name: %s", n, p.ParseErr), detail)
			continue
		}
		for _, c := range p.Cases {
			if c.Verdict == "mismatch" {
				r.Violate("c05-top-level-name-is-"+kind[p.Name], fmt.Sprintf("a Go function named %s shadows the library name the translation of loops/slices relies on: %s gives %s, Go %s", n, c.Case, c.GL, c.GoValue), detail)
				break
			}
		}
	}
}

func c05Arity(r *core.Run, pkg string, f *gl.File, src string) {
	n := 0
	for _, d := range f.Defs() {
		gl.WalkExpr(d.Body, func(e gl.Expr) {
			if _, ok := e.(gl.App); ok {
				n++
			}
		})
	}
	r.Count("applications_checked_for_arity", int64(n))
	if vs := arityViolations(f); len(vs) > 0 {
		r.Violate("c05-library-function-over-applied", "lost parentheses: "+vs[0], map[string]interface{}{"pkg": pkg, "all": vs, "source": src})
	}
}

func c05JudgeHostile(r *core.Run, p *tvPkg, pkg *gen.Package, placement string, payload gen.Payload) {
	for once := true; once; once = false {
		r.Eval(1)
		key := placement + "/" + payload.ID
		sig := "c05-" + placement + "-" + payload.ID
		detail := map[string]interface{}{"placement": placement, "payload": payload.Text, "source": pkg.Source, "v": p.VFile}
		if len(payload.Text) > 200 {
			detail["payload"] = payload.Text[:200] + "…"
			detail["source"] = "(omitted: very long line)"
			detail["v"] = "(omitted)"
		}
		if p.Crashed {
			// no file at all for this content: the printer (or the translator) aborted on it
			detail["stderr"] = p.Stderr
			r.Violate(sig+"-goose-crash", fmt.Sprintf("payload %q at %s: goose aborts instead of emitting a file: %s", short(payload.Text), placement, firstLines(p.Stderr, 6)), detail)
			continue
		}
		rejectedTarget := len(p.GooseErrs) > 0
		rejected := rejectedDecls(pkg.Source, p.GooseErrs)
		if p.VFile == "" {
			r.Violate(sig+"-no-output", "no output file although -ignore-errors was given", detail)
			continue
		}
		if p.ParseErr != "" {
			r.Distinct(key + "/unreadable")
			r.Violate(sig+"-unreadable", fmt.Sprintf("payload %q at %s: the emitted file is not well-formed by Coq's rules: %s", short(payload.Text), placement, p.ParseErr), detail)
			continue
		}
		f, _ := gl.ParseFile(p.VFile)
		got := map[string]int{}
		for _, d := range f.Defs() {
			got[d.Name]++
		}
		bad := ""
		for _, n := range expectedDefs(pkg.Source) {
			if got[n] == 0 && !rejected[n] {
				bad = "definition of " + n + " is missing (swallowed by a comment or string?)"
			}
			if got[n] > 1 {
				bad = "definition of " + n + " appears " + fmt.Sprint(got[n]) + " times"
			}
			delete(got, n)
		}
		for n := range got {
			bad = "extra definition " + n + " that no Go declaration produces"
		}
		if bad != "" {
			r.Distinct(key + "/defs-differ")
			r.Violate(sig+"-definitions-differ", fmt.Sprintf("payload %q at %s: %s", short(payload.Text), placement, bad), detail)
			continue
		}
		// string values must survive (differential)
		ok := true
		for _, c := range p.Cases {
			if rejectedTarget {
				continue // goose rejected a declaration (e.g. a string literal with quotes): nothing to compare
			}
			if c.Verdict == "mismatch" {
				ok = false
				r.Distinct(key + "/value-changed")
				r.Violate(sig+"-value-changed", fmt.Sprintf("payload %q at %s: %s returns %s in Go but the emitted text evaluates to %s", short(payload.Text), placement, c.Case, c.GoValue, c.GL), detail)
			}
		}
		if ok {
			if rejectedTarget {
				r.Distinct(key + "/rejected")
				r.Count("hostile_placements_rejected_by_goose", 1)
			} else {
				r.Distinct(key + "/intact")
				r.Count("hostile_placements_intact", 1)
			}
			r.Sample(6, map[string]interface{}{"placement": placement, "payload": short(payload.Text), "definitions_read": len(f.Defs()), "verdict": "intact"})
		}
	}
}

// rejectedDecls maps goose's error positions to the documented names of the declarations they lie in.
// An error whose position cannot be read makes every declaration count as possibly rejected.
func rejectedDecls(src string, errs []gooseErr) map[string]bool {
	out := map[string]bool{}
	if len(errs) == 0 {
		return out
	}
	fset := token.NewFileSet()
	f, err := parser.ParseFile(fset, "x.go", src, 0)
	all := func() map[string]bool {
		for _, n := range expectedDefs(src) {
			out[n] = true
		}
		return out
	}
	if err != nil {
		return all()
	}
	for _, e := range errs {
		parts := strings.Split(e.Src, ":")
		if len(parts) < 3 {
			return all()
		}
		var line int
		fmt.Sscanf(parts[len(parts)-2], "%d", &line)
		found := false
		for _, d := range f.Decls {
			if fset.Position(d.Pos()).Line <= line && line <= fset.Position(d.End()).Line {
				one := &ast.File{Name: f.Name, Decls: []ast.Decl{d}}
				_ = one
				for _, n := range declDefNames(d) {
					out[n] = true
				}
				found = true
			}
		}
		if !found {
			return all()
		}
	}
	return out
}

func declDefNames(d ast.Decl) []string {
	var out []string
	switch d := d.(type) {
	case *ast.FuncDecl:
		name := d.Name.Name
		if d.Recv != nil && len(d.Recv.List) == 1 {
			t := d.Recv.List[0].Type
			if st, ok := t.(*ast.StarExpr); ok {
				t = st.X
			}
			if id, ok := t.(*ast.Ident); ok {
				name = id.Name + "__" + name
			}
		}
		out = append(out, name)
	case *ast.GenDecl:
		for _, sp := range d.Specs {
			switch sp := sp.(type) {
			case *ast.TypeSpec:
				out = append(out, sp.Name.Name)
			case *ast.ValueSpec:
				for _, n := range sp.Names {
					out = append(out, n.Name)
				}
			}
		}
	}
	return out
}

// c05Shapes: a second corpus that is only translated (under every flag combination), read back
// and compared — every supported statement form and accepted shape in its host functions, the
// generated shape families (composite types nested in every type position, ...), and interface
// conversions needed at several call sites.
func c05Shapes(r *core.Run, goose string) {
	var pk []*gen.Package
	atoms := append(append([]gen.OutsideAtom{}, gen.InsideAtoms...), gen.AcceptedShapeAtoms()...)
	frng := core.NewRng(r.Seed, "c05-families")
	atoms = append(atoms, gen.FamilyAtoms("C01", r.Quick(), frng.Intn)...)
	for _, a := range atoms {
		a.Light = true
		pk = append(pk, gen.AtomPackage("s_", a))
	}
	pk = append(pk, gen.IfaceConvPackages()...)
	pkgs := pruneToCompile(r, filepath.Join(r.Scratch, "c05-shapes-prune"), pk)
	if pkgs == nil {
		r.Inconclusive("shapes-corpus-does-not-compile")
		return
	}
	var gp []*gorun.Pkg
	srcOf := map[string]string{}
	for _, p := range pkgs {
		gp = append(gp, &gorun.Pkg{Name: p.Name, Files: map[string]string{p.Name + ".go": p.Source}})
		srcOf[p.Name] = p.Source
	}
	dir := filepath.Join(r.Scratch, "c05-shapes")
	b, err := gorun.Write(dir, gp, []string{"case"})
	if err != nil {
		r.Inconclusive("shapes-corpus-not-written")
		return
	}
	base := map[string]map[string]string{}
	combos := flagCombos
	if r.Quick() {
		// the three flags alone, and one of their four combinations (seed-determined)
		combos = append(append([][]string{}, flagCombos[:4]...), flagCombos[4+frng.Intn(4)])
	}
	for ci, combo := range combos {
		out := filepath.Join(dir, fmt.Sprintf("flags%d", ci))
		flags := append([]string{"-ignore-errors"}, combo...)
		if g := b.RunGoose(goose, out, flags); g.Code >= 2 || g.Signaled {
			core.Parallel(len(gp), 8, func(i int) {
				b.RunGoose(goose, out, flags, "./cases/"+gp[i].Name)
			})
		}
		cname := strings.Join(combo, " ")
		for _, p := range gp {
			vb, err := os.ReadFile(b.VPath(out, p.Name))
			if err != nil {
				if _, had := base[p.Name]; had {
					r.Violate("c05-flags-no-output", "no output under "+cname+" although the default flags produce one", map[string]interface{}{"pkg": p.Name, "source": srcOf[p.Name]})
				}
				continue
			}
			r.Eval(1)
			f, perr := gl.ParseFile(string(vb))
			if perr != nil {
				r.Violate("c05-shapes-unreadable-"+sanitizeFlag(cname), "output of "+p.Name+" under ["+cname+"] is not well-formed: "+perr.Error(), map[string]interface{}{"pkg": p.Name, "source": srcOf[p.Name], "v": string(vb)})
				continue
			}
			r.Count("shape_files_read", 1)
			c05Duplicates(r, p.Name, cname, f, srcOf[p.Name])
			if ci == 0 {
				base[p.Name] = defBodies(f)
				c05Arity(r, p.Name, f, srcOf[p.Name])
				continue
			}
			if bb, ok := base[p.Name]; ok {
				c05CompareBodies(r, p.Name, cname, bb, defBodies(f), srcOf[p.Name])
			}
		}
	}
	r.Set("shape_corpus_packages", len(gp))
}
