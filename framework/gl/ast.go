package gl

import (
	"fmt"
	"strings"
)

// Expr is a node of the expression AST. Parentheses are kept as nodes so the
// nesting Coq reads can be compared with the Go source.
type Expr interface{ exprNode() }

type (
	// Var is a GooseLang variable: a string literal coerced to Var.
	Var struct{ Name string }
	// Global is a Gallina identifier (top-level definition or library name).
	Global struct{ Name string }
	// Lit is a # literal.
	Lit struct {
		Kind string // int, u32, u8, bool, str, unit, null
		N    uint64
		B    bool
		S    string
	}
	// Num is a bare Gallina number (appears only as argument of zero_array etc.).
	Num struct{ N uint64 }
	App struct {
		Fn   Expr
		Args []Expr
	}
	BinOp struct {
		Op   string
		L, R Expr
	}
	Not   struct{ X Expr }
	Load  struct{ Ty, X Expr } // ![ty] x   (Ty nil for bare !x)
	Store struct{ Ty, Dst, Val Expr }
	Let   struct {
		Pat       *Pat
		Val, Body Expr
	}
	Seq struct{ A, B Expr }
	If  struct{ C, T, E Expr }
	Lam struct {
		Params []string // "" = anonymous <>
		Body   Expr
	}
	Rec struct {
		Name   string
		Params []string
		Body   Expr
	}
	For   struct{ Cond, Post, Body Expr }
	Tuple struct{ Elems []Expr }
	Paren struct{ X Expr }
	// FieldVals is [ "f" ::= e; ... ]
	FieldVals struct {
		Names []string
		Vals  []Expr
	}
	// FieldTys is [ "f" :: ty; ... ]
	FieldTys struct {
		Names []string
		Tys   []Expr
	}
	// Scoped is (e)%scope, used for (a -> b)%ht
	Scoped struct {
		X     Expr
		Scope string
	}
	// GallinaFun is (fun _ => Some e); kept for completeness.
	GallinaFun struct{ Body Expr }
)

// Pat is a let-pattern: a binder or a left-nested pair of patterns.
type Pat struct {
	Name string // leaf: variable name, "" for <>
	L, R *Pat   // pair
}

func (Var) exprNode()        {}
func (Global) exprNode()     {}
func (Lit) exprNode()        {}
func (Num) exprNode()        {}
func (App) exprNode()        {}
func (BinOp) exprNode()      {}
func (Not) exprNode()        {}
func (Load) exprNode()       {}
func (Store) exprNode()      {}
func (Let) exprNode()        {}
func (Seq) exprNode()        {}
func (If) exprNode()         {}
func (Lam) exprNode()        {}
func (Rec) exprNode()        {}
func (For) exprNode()        {}
func (Tuple) exprNode()      {}
func (Paren) exprNode()      {}
func (FieldVals) exprNode()  {}
func (FieldTys) exprNode()   {}
func (Scoped) exprNode()     {}
func (GallinaFun) exprNode() {}

// Item is one top-level sentence group of an emitted file.
type Item struct {
	Kind string // require, section, context, coercion, end, def, notation, theorem, proof, hint
	Name string
	// for def: what kind of definition
	DefKind    string   // val, expr, ty, struct, other
	TypeParams []string // (T:ty) binders
	Body       Expr
	// for require
	From   string
	Path   string
	Import bool
	Pos    int
	End    int
	Line   int
}

type File struct {
	Items    []Item
	Comments []Comment
	Src      string
}

// Defs returns the Definition/Notation items in order.
func (f *File) Defs() []Item {
	var out []Item
	for _, it := range f.Items {
		if it.Kind == "def" || it.Kind == "notation" {
			out = append(out, it)
		}
	}
	return out
}

// Strip removes Paren nodes.
func Strip(e Expr) Expr {
	for {
		p, ok := e.(Paren)
		if !ok {
			return e
		}
		e = p.X
	}
}

// Show renders an expression in a compact fully-parenthesised form (for
// messages and structural comparison; not Coq syntax).
func Show(e Expr) string {
	var b strings.Builder
	show(&b, e)
	return b.String()
}

func show(b *strings.Builder, e Expr) {
	switch e := e.(type) {
	case nil:
		b.WriteString("<nil>")
	case Var:
		fmt.Fprintf(b, "%q", e.Name)
	case Global:
		b.WriteString(e.Name)
	case Num:
		fmt.Fprintf(b, "%d", e.N)
	case Lit:
		switch e.Kind {
		case "int":
			fmt.Fprintf(b, "#%d", e.N)
		case "u32":
			fmt.Fprintf(b, "#(U32 %d)", e.N)
		case "u8":
			fmt.Fprintf(b, "#(U8 %d)", e.N)
		case "bool":
			fmt.Fprintf(b, "#%v", e.B)
		case "str":
			fmt.Fprintf(b, "#(str%q)", e.S)
		case "unit":
			b.WriteString("#()")
		case "null":
			b.WriteString("#null")
		}
	case App:
		b.WriteString("(")
		show(b, e.Fn)
		for _, a := range e.Args {
			b.WriteString(" ")
			show(b, a)
		}
		b.WriteString(")")
	case BinOp:
		b.WriteString("(")
		show(b, e.L)
		b.WriteString(" " + e.Op + " ")
		show(b, e.R)
		b.WriteString(")")
	case Not:
		b.WriteString("(~ ")
		show(b, e.X)
		b.WriteString(")")
	case Load:
		b.WriteString("(![")
		show(b, e.Ty)
		b.WriteString("] ")
		show(b, e.X)
		b.WriteString(")")
	case Store:
		b.WriteString("(")
		show(b, e.Dst)
		b.WriteString(" <-[")
		show(b, e.Ty)
		b.WriteString("] ")
		show(b, e.Val)
		b.WriteString(")")
	case Let:
		b.WriteString("(let " + e.Pat.String() + " := ")
		show(b, e.Val)
		b.WriteString(" in ")
		show(b, e.Body)
		b.WriteString(")")
	case Seq:
		b.WriteString("(")
		show(b, e.A)
		b.WriteString(" ;; ")
		show(b, e.B)
		b.WriteString(")")
	case If:
		b.WriteString("(if ")
		show(b, e.C)
		b.WriteString(" then ")
		show(b, e.T)
		b.WriteString(" else ")
		show(b, e.E)
		b.WriteString(")")
	case Lam:
		b.WriteString("(λ " + strings.Join(e.Params, " ") + ", ")
		show(b, e.Body)
		b.WriteString(")")
	case Rec:
		b.WriteString("(rec " + e.Name + " " + strings.Join(e.Params, " ") + " := ")
		show(b, e.Body)
		b.WriteString(")")
	case For:
		b.WriteString("(for ")
		show(b, e.Cond)
		b.WriteString("; ")
		show(b, e.Post)
		b.WriteString(" := ")
		show(b, e.Body)
		b.WriteString(")")
	case Tuple:
		b.WriteString("⟨")
		for i, x := range e.Elems {
			if i > 0 {
				b.WriteString(", ")
			}
			show(b, x)
		}
		b.WriteString("⟩")
	case Paren:
		show(b, e.X)
	case FieldVals:
		b.WriteString("[")
		for i := range e.Names {
			if i > 0 {
				b.WriteString("; ")
			}
			fmt.Fprintf(b, "%q ::= ", e.Names[i])
			show(b, e.Vals[i])
		}
		b.WriteString("]")
	case FieldTys:
		b.WriteString("[")
		for i := range e.Names {
			if i > 0 {
				b.WriteString("; ")
			}
			fmt.Fprintf(b, "%q :: ", e.Names[i])
			show(b, e.Tys[i])
		}
		b.WriteString("]")
	case Scoped:
		show(b, e.X)
		b.WriteString("%" + e.Scope)
	case GallinaFun:
		b.WriteString("(fun _ => ")
		show(b, e.Body)
		b.WriteString(")")
	default:
		fmt.Fprintf(b, "<?%T>", e)
	}
}

func (p *Pat) String() string {
	if p == nil {
		return "<nil>"
	}
	if p.L == nil {
		if p.Name == "" {
			return "<>"
		}
		return fmt.Sprintf("%q", p.Name)
	}
	return "(" + p.L.String() + ", " + p.R.String() + ")"
}

// Names lists the leaf names of a pattern left to right ("" for anonymous).
func (p *Pat) Names() []string {
	if p.L == nil {
		return []string{p.Name}
	}
	return append(p.L.Names(), p.R.Names()...)
}
