package gl

import (
	"fmt"
	"sort"
	"strings"
	"sync"
)

// interp.go: big-step evaluator for the emitted GooseLang, following the
// published semantics (see DESIGN.md Appendix B): right-to-left evaluation of
// application / pair / binop operands, single-value heap cells with struct
// flattening, stuck as a first-class outcome.

// Stuck is raised (by panic) when evaluation cannot proceed under GooseLang's rules.
type Stuck struct{ Reason string }

func (s *Stuck) Error() string { return "stuck: " + s.Reason }

// Unsupported is raised when the program uses something this model does not implement.
type Unsupported struct{ What string }

func (u *Unsupported) Error() string { return "unsupported by model: " + u.What }

// Budget is raised when the step budget is exhausted.
type Budget struct{}

func (b *Budget) Error() string { return "step budget exhausted" }

// Diverge is raised by control.impl.Assume #false (infinite loop in GooseLang).
type Diverge struct{}

func (d *Diverge) Error() string { return "diverges (Assume false)" }

type abortRun struct{}

func stuck(format string, args ...interface{}) {
	panic(&Stuck{Reason: fmt.Sprintf(format, args...)})
}

func unsupported(format string, args ...interface{}) {
	panic(&Unsupported{What: fmt.Sprintf(format, args...)})
}

// CapPolicy chooses slice capacities where GooseLang is nondeterministic.
type CapPolicy int

const (
	CapExact CapPolicy = iota
	CapDouble
)

// Program is a parsed file prepared for execution.
type Program struct {
	File  *File
	Defs  []*Item          // Definition / Notation items in file order
	Index map[string][]int // name -> indices into Defs (several if redefined)
	// GoNames, when set, lists the package-level names the Go source declares: a Gallina
	// identifier with such a name that no definition of the file provides is a dangling
	// reference (stuck), not a library function the model lacks.
	GoNames map[string]bool
	// StrictCond selects Go's condition-variable semantics in the schedule explorer.
	StrictCond bool

	req map[string]bool // last path component of every Require of the file (set by NewProgram)
	// mods[i] is the module (last path component of its Require) the definition Defs[i] was loaded from;
	// "" for the definitions of the file itself. Imported definitions come first and are indexed under
	// their qualified name mod.Name only.
	mods     []string
	imported map[string]bool
}

// NewProgramWithImports is NewProgram for a file together with the translated files of the packages it
// Requires (resolve returns nil for modules that were not translated in the same batch). An imported
// module's definitions are visible to the file as mod.Name and to each other unqualified.
func NewProgramWithImports(f *File, resolve func(mod string) *File) *Program {
	p := &Program{File: f, Index: map[string][]int{}, req: fileRequires(f), imported: map[string]bool{}}
	var load func(file *File, depth int)
	load = func(file *File, depth int) {
		if depth > 8 {
			return
		}
		var mods []string
		for m := range fileRequires(file) {
			mods = append(mods, m)
		}
		sort.Strings(mods)
		for _, m := range mods {
			if p.imported[m] {
				continue
			}
			mf := resolve(m)
			if mf == nil {
				continue
			}
			p.imported[m] = true
			load(mf, depth+1)
			for i := range mf.Items {
				it := &mf.Items[i]
				if it.Kind == "def" || it.Kind == "notation" {
					p.Index[m+"."+it.Name] = append(p.Index[m+"."+it.Name], len(p.Defs))
					p.Defs = append(p.Defs, it)
					p.mods = append(p.mods, m)
				}
			}
		}
	}
	load(f, 0)
	for i := range f.Items {
		it := &f.Items[i]
		if it.Kind == "def" || it.Kind == "notation" {
			p.Index[it.Name] = append(p.Index[it.Name], len(p.Defs))
			p.Defs = append(p.Defs, it)
			p.mods = append(p.mods, "")
		}
	}
	return p
}

func NewProgram(f *File) *Program {
	p := &Program{File: f, Index: map[string][]int{}, req: fileRequires(f)}
	for i := range f.Items {
		it := &f.Items[i]
		if it.Kind == "def" || it.Kind == "notation" {
			p.Index[it.Name] = append(p.Index[it.Name], len(p.Defs))
			p.Defs = append(p.Defs, it)
		}
	}
	return p
}

// Interp is one execution (one heap).
type Interp struct {
	Prog     *Program
	Policy   CapPolicy
	MaxSteps int64
	Steps    int64
	nextID   int
	valCache map[int]Val
	inProg   map[int]bool
	Disk     [][]byte
	sched    *sched
	// syncBlocks: every lock / cond / waitgroup allocated in this execution (in allocation order)
	syncBlocks []*Block
	// StoreEpoch counts heap stores (used by the spin-suspension rule of the explorer)
	StoreEpoch int64
	// Trace of library calls by name (coverage information)
	PrimCalls map[string]int
	// StrictCond: see Program.StrictCond
	StrictCond bool
	// CallStack holds the names of the rec-closures being evaluated; it is not unwound on a
	// panic, so after Stuck it tells where evaluation stopped.
	CallStack []string
	Work      int64 // element-wise work inside library primitives (see work)
}

func NewInterp(p *Program, policy CapPolicy) *Interp {
	return &Interp{Prog: p, Policy: policy, MaxSteps: 2_000_000, valCache: map[int]Val{}, inProg: map[int]bool{}, PrimCalls: map[string]int{}}
}

func (in *Interp) tick() {
	in.Steps++
	if in.Steps > in.MaxSteps {
		panic(&Budget{})
	}
}

// work counts the element-wise work inside library primitives (allocation, copying on append, byte/string
// conversions). It is bounded separately from the evaluation steps: the native implementation of such a
// primitive can be asymptotically cheaper (Go compares string(b) with a constant without building the
// string), so exhausting this bound says nothing about divergence: the outcome is "unsupported".
func (in *Interp) work() {
	in.Work++
	if in.Work > 400_000_000 {
		panic(&Unsupported{What: "work budget of library primitives exhausted"})
	}
}

// ---------------------------------------------------------------- heap

func (in *Interp) alloc(cells []Val) VLoc {
	in.nextID++
	b := &Block{ID: in.nextID, Cells: cells}
	return VLoc{B: b, Off: 0}
}

func flatten(v Val, out []Val) []Val {
	switch v := v.(type) {
	case VPair:
		out = flatten(v.A, out)
		return flatten(v.B, out)
	case VUnit:
		return out
	}
	return append(out, v)
}

func (in *Interp) cell(th *Thread, l VLoc, write bool) *Val {
	if l.B == nil {
		stuck("access through #null")
	}
	if l.Off < 0 || l.Off >= len(l.B.Cells) {
		stuck("access outside allocation (block %d offset %d size %d)", l.B.ID, l.Off, len(l.B.Cells))
	}
	if in.sched != nil {
		in.sched.access(th, l.B, l.Off, write)
	}
	if write {
		if l.B.Meta != nil && l.B.Meta[l.Off].readers > 0 {
			stuck("store to a cell that is borrowed for reading (map modified during MapIter)")
		}
	}
	return &l.B.Cells[l.Off]
}

func asLoc(v Val, what string) VLoc {
	l, ok := v.(VLoc)
	if !ok {
		stuck("%s: expected a location, got %s", what, ShowVal(v))
	}
	return l
}

func tySize(t *Type) int {
	switch t.Kind {
	case "unit":
		return 0
	case "slice":
		return 3
	case "struct":
		n := 0
		for _, ft := range t.Desc.Tys {
			n += tySize(ft)
		}
		return n
	case "prod":
		n := 0
		for _, x := range t.Ts {
			n += tySize(x)
		}
		return n
	}
	return 1
}

func zeroVal(t *Type) Val {
	switch t.Kind {
	case "uint64":
		return VInt{0}
	case "uint32":
		return VU32{0}
	case "byte":
		return VU8{0}
	case "bool":
		return VBool{false}
	case "string":
		return VStr{""}
	case "unit":
		return VUnit{}
	case "slice":
		return sliceNil()
	case "struct":
		var v Val = VUnit{}
		for i := len(t.Desc.Tys) - 1; i >= 0; i-- {
			v = VPair{zeroVal(t.Desc.Tys[i]), v}
		}
		return v
	case "prod":
		if len(t.Ts) == 0 {
			return VUnit{}
		}
		v := zeroVal(t.Ts[0])
		for _, x := range t.Ts[1:] {
			v = VPair{v, zeroVal(x)}
		}
		return v
	}
	// ptr, map, arrow, any, named, array
	return VLoc{}
}

// loadTy reads ty_size(t) cells at l and rebuilds the value shape of t.
func (in *Interp) loadTy(th *Thread, t *Type, l VLoc) Val {
	off := l.Off
	var rd func(t *Type) Val
	rd = func(t *Type) Val {
		switch t.Kind {
		case "unit":
			return VUnit{}
		case "slice":
			a := *in.cell(th, VLoc{l.B, off}, false)
			b := *in.cell(th, VLoc{l.B, off + 1}, false)
			c := *in.cell(th, VLoc{l.B, off + 2}, false)
			off += 3
			return VPair{VPair{a, b}, c}
		case "struct":
			vals := make([]Val, len(t.Desc.Tys))
			for i, ft := range t.Desc.Tys {
				vals[i] = rd(ft)
			}
			var v Val = VUnit{}
			for i := len(vals) - 1; i >= 0; i-- {
				v = VPair{vals[i], v}
			}
			return v
		case "prod":
			if len(t.Ts) == 0 {
				return VUnit{}
			}
			v := rd(t.Ts[0])
			for _, x := range t.Ts[1:] {
				v = VPair{v, rd(x)}
			}
			return v
		}
		v := *in.cell(th, VLoc{l.B, off}, false)
		off++
		return v
	}
	if l.B == nil {
		stuck("load through #null")
	}
	return rd(t)
}

func (in *Interp) storeTy(th *Thread, t *Type, l VLoc, v Val) {
	cells := flatten(v, nil)
	if t != nil && len(cells) != tySize(t) {
		// store_ty is type-directed: a value of the wrong shape does not reduce
		stuck("store of a value with %d cells at type %s (%d cells)", len(cells), t.String(), tySize(t))
	}
	if l.B == nil {
		stuck("store through #null")
	}
	for i, c := range cells {
		in.setCell(th, VLoc{l.B, l.Off + i}, c)
	}
}

// setCell stores v; only a store that changes the cell counts as a state change for the
// explorer's wait/poll suspension rule.
func (in *Interp) setCell(th *Thread, l VLoc, v Val) {
	p := in.cell(th, l, true)
	if !(comparable(*p) && comparable(v) && valEq(*p, v)) {
		in.StoreEpoch++
		if th != nil {
			th.stores++
		}
	}
	*p = v
}

// ---------------------------------------------------------------- evaluation

// Call evaluates the top-level definition name applied to args.
func (in *Interp) Call(th *Thread, name string, args ...Val) Val {
	idxs := in.Prog.Index[name]
	if len(idxs) == 0 {
		stuck("no definition named %s", name)
	}
	f := in.defValue(th, idxs[len(idxs)-1])
	if len(args) == 0 {
		args = []Val{VUnit{}}
	}
	return in.apply(th, f, args)
}

func (in *Interp) defValue(th *Thread, idx int) Val {
	it := in.Prog.Defs[idx]
	if len(it.TypeParams) > 0 {
		return VGallina{Item: it, Idx: idx}
	}
	if it.DefKind == "expr" {
		// an expression, re-evaluated at every use
		return in.eval(th, it.Body, nil, idx)
	}
	if v, ok := in.valCache[idx]; ok {
		return v
	}
	if in.inProg[idx] {
		stuck("definition %s refers to itself through a global (not through its rec binder)", it.Name)
	}
	in.inProg[idx] = true
	defer delete(in.inProg, idx)
	v := in.eval(th, it.Body, nil, idx)
	if d, ok := v.(VDesc); ok {
		d.Name = it.Name
		v = d
	}
	in.valCache[idx] = v
	return v
}

// UnmodelledLibraryNames are library names the translator can emit that the model does not implement
// (filled by the calibration step from the translator's own name table); using one is "unsupported".
var UnmodelledLibraryNames = map[string]bool{"NewProph": true, "ResolveProph": true}

// KnownLibraryName reports whether the model implements the library name.
func KnownLibraryName(name string) bool {
	if _, ok := prims[name]; ok {
		return true
	}
	_, ok := LibraryArity(name)
	return ok
}

// global resolves a Gallina identifier as Coq would at the point of definition `scope`:
// the latest earlier definition of this file, else the library.
func (in *Interp) global(th *Thread, name string, env *Env, scope int) Val {
	if v, ok := env.lookup(name, true); ok {
		return v
	}
	if scope >= 0 && scope < len(in.Prog.mods) && in.Prog.mods[scope] != "" && !strings.Contains(name, ".") {
		// inside an imported module its own definitions are referred to unqualified
		q := in.Prog.Index[in.Prog.mods[scope]+"."+name]
		for k := len(q) - 1; k >= 0; k-- {
			if q[k] < scope {
				return in.defValue(th, q[k])
			}
		}
	}
	idxs := in.Prog.Index[name]
	for k := len(idxs) - 1; k >= 0; k-- {
		if idxs[k] < scope {
			return in.defValue(th, idxs[k])
		}
	}
	if p, ok := prims[name]; ok {
		if p.Arity == 0 {
			return p.Fn(in, th, nil)
		}
		return VPrim{Name: name, P: p}
	}
	if len(idxs) > 0 {
		if idxs[0] == scope {
			stuck("definition %s mentions itself as a global (not through its rec binder)", name)
		}
		stuck("use of %s before its definition", name)
	}
	if in.Prog.GoNames[name] {
		stuck("%s is declared by the Go package but the output has no definition of it", name)
	}
	if i := strings.Index(name, "__to__"); i > 0 && !strings.Contains(name, ".") {
		// the name of a struct-to-interface conversion goose generates for this package: no library defines it
		stuck("%s (a generated interface conversion) is used but the output has no definition of it", name)
	}
	if !strings.Contains(name, ".") && !UnmodelledLibraryNames[name] {
		// goose writes names of other packages qualified (pkg.Name); an unqualified name is a definition of
		// this file or one of the GooseLang library names the translator can emit, all of which the model
		// has (gl/parse_test.go checks the translator's name table against it): Coq finds no such reference
		stuck("reference %s not found: neither defined in the file nor a GooseLang library name", name)
	}
	if i := strings.LastIndex(name, "."); i > 0 {
		// a qualified name m.X: m is a module the file requires (another translated package, which the model
		// does not have: unsupported), a module of the GooseLang library, or nothing Coq could resolve
		mod := name[:i]
		if in.Prog.imported[mod] && !libraryModules()[mod] {
			stuck("reference %s not found: the required module %s has no such definition", name, mod)
		}
		if !in.Prog.requires()[mod] && !libraryModules()[mod] {
			stuck("reference %s not found: the file requires no module %s and the GooseLang library has none", name, mod)
		}
	}
	unsupported("unknown global %s", name)
	return nil
}

var libModsOnce sync.Once
var libMods map[string]bool

// libraryModules: the module prefixes of the library names the model implements, plus the FFI and support
// modules a translated file gets from its prelude.
func libraryModules() map[string]bool {
	libModsOnce.Do(func() {
		libMods = map[string]bool{"FS": true, "util": true, "async_disk": true, "grove_ffi": true, "dist_ffi": true, "kv": true}
		for n := range prims {
			if i := strings.LastIndex(n, "."); i > 0 {
				libMods[n[:i]] = true
			}
		}
		for n := range UnmodelledLibraryNames {
			if i := strings.LastIndex(n, "."); i > 0 {
				libMods[n[:i]] = true
			}
		}
	})
	return libMods
}

// requires lists the last path component of every `From ... Require` of the file.
func (p *Program) requires() map[string]bool {
	return p.req
}

func fileRequires(f *File) map[string]bool {
	req := map[string]bool{}
	if f != nil {
		for _, it := range f.Items {
			if it.Kind == "require" {
				parts := strings.Split(it.Path, ".")
				req[parts[len(parts)-1]] = true
			}
		}
	}
	return req
}

func (in *Interp) evalType(th *Thread, e Expr, env *Env, scope int) *Type {
	v := in.eval(th, e, env, scope)
	t, ok := v.(VType)
	if !ok {
		stuck("expected a type, got %s", ShowVal(v))
	}
	return t.T
}

func (in *Interp) eval(th *Thread, e Expr, env *Env, scope int) Val {
	in.tick()
	switch e := e.(type) {
	case Paren:
		return in.eval(th, e.X, env, scope)
	case Var:
		v, ok := env.lookup(e.Name, false)
		if !ok {
			stuck("unbound variable %q", e.Name)
		}
		return v
	case Global:
		if e.Name == "<>" {
			return VStr{"<>"}
		}
		return in.global(th, e.Name, env, scope)
	case Lit:
		switch e.Kind {
		case "int":
			return VInt{e.N}
		case "u32":
			return VU32{uint32(e.N)}
		case "u8":
			return VU8{uint8(e.N)}
		case "bool":
			return VBool{e.B}
		case "str":
			return VStr{e.S}
		case "unit":
			return VUnit{}
		case "null":
			return VLoc{}
		}
	case Num:
		return VInt{e.N} // bare Gallina number (only as a length argument)
	case Tuple:
		// (e1, e2, ..., en) = Pair (.. (Pair e1 e2) ..) en ; pair operands evaluate right to left
		vals := make([]Val, len(e.Elems))
		for i := len(e.Elems) - 1; i >= 0; i-- {
			vals[i] = in.eval(th, e.Elems[i], env, scope)
		}
		v := vals[0]
		for _, x := range vals[1:] {
			v = VPair{v, x}
		}
		return v
	case Scoped:
		return in.eval(th, e.X, env, scope)
	case BinOp:
		switch e.Op {
		case "&&":
			l := in.eval(th, e.L, env, scope)
			lb, ok := l.(VBool)
			if !ok {
				stuck("&&: left operand is not a bool: %s", ShowVal(l))
			}
			if !lb.B {
				return VBool{false}
			}
			return in.eval(th, e.R, env, scope)
		case "||":
			l := in.eval(th, e.L, env, scope)
			lb, ok := l.(VBool)
			if !ok {
				stuck("||: left operand is not a bool: %s", ShowVal(l))
			}
			if lb.B {
				return VBool{true}
			}
			return in.eval(th, e.R, env, scope)
		case "->", "*":
			// type-level when both sides are types
			r := in.eval(th, e.R, env, scope)
			l := in.eval(th, e.L, env, scope)
			lt, lok := l.(VType)
			rt, rok := r.(VType)
			if lok && rok {
				if e.Op == "->" {
					return VType{&Type{Kind: "arrow", Ts: []*Type{lt.T, rt.T}}}
				}
				if lt.T.Kind == "prod" {
					return VType{&Type{Kind: "prod", Ts: append(append([]*Type{}, lt.T.Ts...), rt.T)}}
				}
				return VType{&Type{Kind: "prod", Ts: []*Type{lt.T, rt.T}}}
			}
			if e.Op == "->" {
				stuck("-> applied to non-types")
			}
			return binop(e.Op, l, r)
		}
		r := in.eval(th, e.R, env, scope)
		l := in.eval(th, e.L, env, scope)
		return binop(e.Op, l, r)
	case Not:
		v := in.eval(th, e.X, env, scope)
		switch v := v.(type) {
		case VBool:
			return VBool{!v.B}
		case VInt:
			return VInt{^v.N}
		case VU32:
			return VU32{^v.N}
		case VU8:
			return VU8{^v.N}
		}
		stuck("~ applied to %s", ShowVal(v))
	case Load:
		if e.Ty == nil {
			l := asLoc(in.eval(th, e.X, env, scope), "!")
			return *in.cell(th, l, false)
		}
		// load_ty t e: the argument is evaluated, then the typed load runs
		l := in.eval(th, e.X, env, scope)
		t := in.evalType(th, e.Ty, env, scope)
		return in.loadTy(th, t, asLoc(l, "![t]"))
	case Store:
		v := in.eval(th, e.Val, env, scope)
		d := in.eval(th, e.Dst, env, scope)
		if e.Ty == nil {
			in.setCell(th, asLoc(d, "<-"), v)
			return VUnit{}
		}
		t := in.evalType(th, e.Ty, env, scope)
		in.storeTy(th, t, asLoc(d, "<-[t]"), v)
		return VUnit{}
	case Let:
		v := in.eval(th, e.Val, env, scope)
		env2 := bindPat(e.Pat, v, env)
		return in.eval(th, e.Body, env2, scope)
	case Seq:
		in.eval(th, e.A, env, scope)
		return in.eval(th, e.B, env, scope)
	case If:
		c := in.eval(th, e.C, env, scope)
		cb, ok := c.(VBool)
		if !ok {
			stuck("if: condition is not a bool: %s", ShowVal(c))
		}
		if cb.B {
			return in.eval(th, e.T, env, scope)
		}
		return in.eval(th, e.E, env, scope)
	case Lam:
		return VClo{Params: e.Params, Body: e.Body, Env: env, Scope: scope}
	case Rec:
		return VClo{Rec: e.Name, Params: e.Params, Body: e.Body, Env: env, Scope: scope}
	case For:
		// For cond body post: operands are λ-values; evaluated right to left like any application
		body := in.eval(th, e.Body, env, scope)
		post := in.eval(th, e.Post, env, scope)
		cond := in.eval(th, e.Cond, env, scope)
		// `for:` notation wraps body in λ: <>, — the parser keeps the λ in Body
		for {
			in.tick()
			c := in.apply(th, cond, []Val{VUnit{}})
			cb, ok := c.(VBool)
			if !ok {
				stuck("for: condition is not a bool: %s", ShowVal(c))
			}
			if !cb.B {
				return VUnit{}
			}
			r := in.apply(th, body, []Val{VUnit{}})
			rb, ok := r.(VBool)
			if !ok {
				stuck("for: loop body returned %s, not Continue/Break", ShowVal(r))
			}
			if !rb.B {
				return VUnit{}
			}
			in.apply(th, post, []Val{VUnit{}})
		}
	case FieldVals:
		return VFields{Names: e.Names, Exprs: e.Vals, Env: env, Scope: scope}
	case FieldTys:
		d := VDesc{}
		for i, n := range e.Names {
			d.Fields = append(d.Fields, n)
			d.Tys = append(d.Tys, in.evalType(th, e.Tys[i], env, scope))
		}
		return d
	case App:
		return in.evalApp(th, e, env, scope)
	case GallinaFun:
		unsupported("Gallina fun")
	}
	unsupported("expression node %T", e)
	return nil
}

func bindPat(p *Pat, v Val, env *Env) *Env {
	if p.L == nil {
		return env.bind(p.Name, v)
	}
	pr, ok := v.(VPair)
	if !ok {
		stuck("let-pattern %s applied to non-pair %s", p.String(), ShowVal(v))
	}
	// let: (a, b) := e  desugars to binding Fst/Snd; both names are bound in the body
	env = bindPat(p.L, pr.A, env)
	return bindPat(p.R, pr.B, env)
}

func (in *Interp) evalApp(th *Thread, e App, env *Env, scope int) Val {
	// library forms whose arguments are not all ordinary GooseLang expressions
	if g, ok := e.Fn.(Global); ok {
		if _, shadow := env.lookup(g.Name, true); !shadow && !in.shadowed(g.Name, scope) {
			if v, ok := in.evalSpecial(th, g.Name, e, env, scope); ok {
				return v
			}
		}
	}
	if th != nil {
		if g, ok := e.Fn.(Global); ok && g.Name == "lock.acquire" && len(e.Args) > 0 {
			th.site = fmt.Sprintf("%p", e.Args)
		}
	}
	// arguments right to left, then the function
	args := make([]Val, len(e.Args))
	for i := len(e.Args) - 1; i >= 0; i-- {
		args[i] = in.eval(th, e.Args[i], env, scope)
	}
	f := in.eval(th, e.Fn, env, scope)
	return in.apply(th, f, args)
}

// shadowed reports whether a library name is redefined by an earlier definition of this file.
func (in *Interp) shadowed(name string, scope int) bool {
	for _, i := range in.Prog.Index[name] {
		if i < scope {
			return true
		}
	}
	return false
}

func (in *Interp) apply(th *Thread, f Val, args []Val) Val {
	for len(args) > 0 {
		in.tick()
		switch fv := f.(type) {
		case VClo:
			n := len(fv.Params)
			if len(args) < n {
				// partial application: bind what we have
				env := fv.Env
				if fv.Rec != "" {
					env = env.bind(fv.Rec, fv)
				}
				for i, a := range args {
					env = env.bind(fv.Params[i], a)
				}
				return VClo{Params: fv.Params[len(args):], Body: fv.Body, Env: env, Scope: fv.Scope}
			}
			env := fv.Env
			if fv.Rec != "" {
				env = env.bind(fv.Rec, fv)
			}
			for i := 0; i < n; i++ {
				env = env.bind(fv.Params[i], args[i])
			}
			if fv.Rec != "" && th == nil {
				in.CallStack = append(in.CallStack, fv.Rec)
				f = in.eval(th, fv.Body, env, fv.Scope)
				in.CallStack = in.CallStack[:len(in.CallStack)-1]
			} else {
				f = in.eval(th, fv.Body, env, fv.Scope)
			}
			args = args[n:]
		case VPrim:
			need := fv.P.Arity - len(fv.Args)
			if len(args) < need {
				return VPrim{Name: fv.Name, P: fv.P, Args: append(append([]Val{}, fv.Args...), args...)}
			}
			all := append(append([]Val{}, fv.Args...), args[:need]...)
			in.PrimCalls[fv.Name]++
			f = fv.P.Fn(in, th, all)
			args = args[need:]
		case VGallina:
			need := len(fv.Item.TypeParams) - len(fv.Args)
			if len(args) < need {
				return VGallina{Item: fv.Item, Idx: fv.Idx, Args: append(append([]Val{}, fv.Args...), args...)}
			}
			all := append(append([]Val{}, fv.Args...), args[:need]...)
			var env *Env
			for i, tp := range fv.Item.TypeParams {
				if _, ok := all[i].(VType); !ok {
					stuck("%s: type argument %d is not a type: %s", fv.Item.Name, i, ShowVal(all[i]))
				}
				env = &Env{Name: tp, Val: all[i], Gal: true, Next: env}
			}
			f = in.eval(th, fv.Item.Body, env, fv.Idx)
			args = args[need:]
		default:
			stuck("application of a non-function %s", ShowVal(f))
		}
	}
	return f
}

// ---------------------------------------------------------------- operators

func binop(op string, l, r Val) Val {
	switch op {
	case "=", "≠":
		if !comparable(l) || !comparable(r) {
			stuck("%s on non-comparable values %s, %s", op, ShowVal(l), ShowVal(r))
		}
		eq := valEq(l, r)
		if op == "≠" {
			eq = !eq
		}
		return VBool{eq}
	}
	switch a := l.(type) {
	case VInt:
		b, ok := r.(VInt)
		if !ok {
			if isShift(op) {
				if n, ok := shiftAmount(r); ok {
					return VInt{shift64(op, a.N, n)}
				}
			}
			stuck("%s on operands of different kinds: %s, %s", op, ShowVal(l), ShowVal(r))
		}
		if v, ok := cmp(op, a.N, b.N); ok {
			return v
		}
		return VInt{arith64(op, a.N, b.N)}
	case VU32:
		b, ok := r.(VU32)
		if !ok {
			if isShift(op) {
				if n, ok := shiftAmount(r); ok {
					return VU32{}.truncShift(op, a.N, n)
				}
			}
			stuck("%s on operands of different kinds: %s, %s", op, ShowVal(l), ShowVal(r))
		}
		if v, ok := cmp(op, uint64(a.N), uint64(b.N)); ok {
			return v
		}
		return VU32{uint32(arithN(op, uint64(a.N), uint64(b.N), 32))}
	case VU8:
		b, ok := r.(VU8)
		if !ok {
			if isShift(op) {
				if n, ok := shiftAmount(r); ok {
					return VU8{}.truncShift(op, a.N, n)
				}
			}
			stuck("%s on operands of different kinds: %s, %s", op, ShowVal(l), ShowVal(r))
		}
		if v, ok := cmp(op, uint64(a.N), uint64(b.N)); ok {
			return v
		}
		return VU8{uint8(arithN(op, uint64(a.N), uint64(b.N), 8))}
	case VStr:
		b, ok := r.(VStr)
		if ok && op == "+" {
			return VStr{a.S + b.S}
		}
		stuck("%s on strings/mixed operands %s, %s", op, ShowVal(l), ShowVal(r))
	case VLoc:
		stuck("%s on a location", op)
	}
	stuck("%s on %s, %s", op, ShowVal(l), ShowVal(r))
	return nil
}

func (VU32) truncShift(op string, a uint32, n uint64) Val {
	if n >= 32 {
		return VU32{0}
	}
	if op == "≪" {
		return VU32{a << n}
	}
	return VU32{a >> n}
}

func (VU8) truncShift(op string, a uint8, n uint64) Val {
	if n >= 8 {
		return VU8{0}
	}
	if op == "≪" {
		return VU8{a << n}
	}
	return VU8{a >> n}
}

func isShift(op string) bool { return op == "≪" || op == "≫" }

func shiftAmount(v Val) (uint64, bool) {
	switch v := v.(type) {
	case VInt:
		return v.N, true
	case VU32:
		return uint64(v.N), true
	case VU8:
		return uint64(v.N), true
	}
	return 0, false
}

func shift64(op string, a, n uint64) uint64 {
	if n >= 64 {
		return 0
	}
	if op == "≪" {
		return a << n
	}
	return a >> n
}

func cmp(op string, a, b uint64) (Val, bool) {
	switch op {
	case "<":
		return VBool{a < b}, true
	case "≤":
		return VBool{a <= b}, true
	case ">":
		return VBool{a > b}, true
	case "≥":
		return VBool{a >= b}, true
	}
	return nil, false
}

func arith64(op string, a, b uint64) uint64 {
	switch op {
	case "+":
		return a + b
	case "-":
		return a - b
	case "*":
		return a * b
	case "`quot`":
		if b == 0 {
			stuck("division by zero")
		}
		return a / b
	case "`rem`":
		if b == 0 {
			stuck("remainder by zero")
		}
		return a % b
	case "`and`":
		return a & b
	case "`or`":
		return a | b
	case "`xor`":
		return a ^ b
	case "≪":
		return shift64(op, a, b)
	case "≫":
		return shift64(op, a, b)
	}
	stuck("unknown operator %s", op)
	return 0
}

func arithN(op string, a, b uint64, width uint) uint64 {
	mask := (uint64(1) << width) - 1
	switch op {
	case "≪":
		if b >= uint64(width) {
			return 0
		}
		return (a << b) & mask
	case "≫":
		if b >= uint64(width) {
			return 0
		}
		return a >> b
	}
	return arith64(op, a, b) & mask
}

func comparable(v Val) bool {
	switch v := v.(type) {
	case VInt, VU32, VU8, VBool, VStr, VUnit, VLoc:
		return true
	case VPair:
		return comparable(v.A) && comparable(v.B)
	}
	return false
}

func valEq(a, b Val) bool {
	switch x := a.(type) {
	case VPair:
		y, ok := b.(VPair)
		return ok && valEq(x.A, y.A) && valEq(x.B, y.B)
	case VLoc:
		y, ok := b.(VLoc)
		return ok && x.B == y.B && x.Off == y.Off
	}
	return a == b
}
