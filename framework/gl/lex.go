// Package gl reads and executes the GooseLang/Coq text that goose emits.
//
// lex.go: a lexer that follows Coq's lexical rules (not goose's intentions):
// nested comments, string literals lexed inside comments, "" as the only
// string escape, sentence terminator = '.' followed by blank or EOF.
package gl

import (
	"fmt"
	"strings"
	"unicode"
	"unicode/utf8"
)

type TokKind int

const (
	TEOF    TokKind = iota
	TIdent          // possibly qualified: slice.T, struct.loadF
	TString         // "..." (value unescaped)
	TNumber         // digits
	TSym            // punctuation / operators / keywords with colon
	TTerm           // sentence-terminating '.'
)

type Token struct {
	Kind TokKind
	Text string // identifier text, string value, symbol text
	Pos  int    // byte offset
	Line int
}

func (t Token) String() string {
	switch t.Kind {
	case TEOF:
		return "EOF"
	case TString:
		return fmt.Sprintf("%q", t.Text)
	case TTerm:
		return "'.'"
	}
	return t.Text
}

type Comment struct {
	Pos, End int
	Text     string
}

type LexError struct {
	Pos, Line int
	Msg       string
}

func (e *LexError) Error() string { return fmt.Sprintf("line %d: %s", e.Line, e.Msg) }

// symbols, longest first
var symbols = []string{
	"::=", ":=", "::", ";;", "<-", "<>", "->", "=>", "&&", "||",
	"(", ")", "[", "]", "{", "}", ",", ";", ":", "#", "!", "+", "-", "*", "=", "<", ">", "~", "`", "%", "|", "@", "'", "/", "\\", "^", "?", "$", "&",
	"≠", "≤", "≥", "≪", "≫", "⊢", "λ", "∀", "∃", "→", "↦", "∗", "⌜", "⌝", "∧", "∨", "¬",
}

func isIdentStart(r rune) bool {
	return r == '_' || unicode.IsLetter(r)
}

func isIdentPart(r rune) bool {
	return r == '_' || r == '\'' || unicode.IsLetter(r) || unicode.IsDigit(r)
}

// Lex tokenises src. Comments are returned separately.
func Lex(src string) ([]Token, []Comment, error) {
	var toks []Token
	var comments []Comment
	i := 0
	line := 1
	n := len(src)
	adv := func(k int) {
		for j := 0; j < k; j++ {
			if src[i+j] == '\n' {
				line++
			}
		}
		i += k
	}
	for i < n {
		c := src[i]
		// whitespace
		if c == ' ' || c == '\t' || c == '\n' || c == '\r' || c == '\f' || c == '\v' {
			adv(1)
			continue
		}
		// comment
		if c == '(' && i+1 < n && src[i+1] == '*' {
			start, startLine := i, line
			depth := 0
			for {
				if i >= n {
					return toks, comments, &LexError{start, startLine, "unterminated comment"}
				}
				if src[i] == '(' && i+1 < n && src[i+1] == '*' {
					depth++
					adv(2)
					continue
				}
				if src[i] == '*' && i+1 < n && src[i+1] == ')' {
					depth--
					adv(2)
					if depth == 0 {
						break
					}
					continue
				}
				if src[i] == '"' {
					// Coq lexes string literals inside comments
					sl := line
					adv(1)
					for {
						if i >= n {
							return toks, comments, &LexError{start, sl, "unterminated string inside comment"}
						}
						if src[i] == '"' {
							if i+1 < n && src[i+1] == '"' {
								adv(2)
								continue
							}
							adv(1)
							break
						}
						adv(1)
					}
					continue
				}
				adv(1)
			}
			comments = append(comments, Comment{start, i, src[start:i]})
			continue
		}
		// string
		if c == '"' {
			start, sl := i, line
			adv(1)
			var b strings.Builder
			for {
				if i >= n {
					return toks, comments, &LexError{start, sl, "unterminated string"}
				}
				if src[i] == '"' {
					if i+1 < n && src[i+1] == '"' {
						b.WriteByte('"')
						adv(2)
						continue
					}
					adv(1)
					break
				}
				b.WriteByte(src[i])
				adv(1)
			}
			toks = append(toks, Token{TString, b.String(), start, sl})
			continue
		}
		// number
		if c >= '0' && c <= '9' {
			start := i
			for i < n && (src[i] >= '0' && src[i] <= '9') {
				i++
			}
			// Coq: a number immediately followed by an identifier character is a lexing error in
			// recent versions; treat it as its own token followed by an identifier.
			toks = append(toks, Token{TNumber, src[start:i], start, line})
			continue
		}
		r, sz := utf8.DecodeRuneInString(src[i:])
		// λ is a notation keyword, not an identifier letter here
		if r != 'λ' && isIdentStart(r) {
			start := i
			for {
				// one identifier component
				for i < n {
					r2, s2 := utf8.DecodeRuneInString(src[i:])
					if !isIdentPart(r2) {
						break
					}
					i += s2
				}
				// qualified access: '.' immediately followed by an identifier start
				if i+1 < n && src[i] == '.' {
					r3, _ := utf8.DecodeRuneInString(src[i+1:])
					if isIdentStart(r3) && r3 != 'λ' {
						i++
						continue
					}
				}
				break
			}
			txt := src[start:i]
			// keywords with colon: let: if: for: rec:
			if i < n && src[i] == ':' && (txt == "let" || txt == "if" || txt == "for" || txt == "rec" || txt == "match") {
				i++
				toks = append(toks, Token{TSym, txt + ":", start, line})
				continue
			}
			toks = append(toks, Token{TIdent, txt, start, line})
			continue
		}
		// sentence terminator
		if c == '.' {
			if i+1 >= n || src[i+1] == ' ' || src[i+1] == '\n' || src[i+1] == '\t' || src[i+1] == '\r' {
				toks = append(toks, Token{TTerm, ".", i, line})
				adv(1)
				continue
			}
			return toks, comments, &LexError{i, line, "'.' not followed by blank (not a sentence end, not a qualified name)"}
		}
		// λ:
		if r == 'λ' {
			if i+sz < n && src[i+sz] == ':' {
				toks = append(toks, Token{TSym, "λ:", i, line})
				i += sz + 1
				continue
			}
			toks = append(toks, Token{TSym, "λ", i, line})
			i += sz
			continue
		}
		// symbols
		matched := false
		for _, s := range symbols {
			if strings.HasPrefix(src[i:], s) {
				toks = append(toks, Token{TSym, s, i, line})
				i += len(s)
				matched = true
				break
			}
		}
		if matched {
			continue
		}
		if r == utf8.RuneError && sz == 1 {
			return toks, comments, &LexError{i, line, fmt.Sprintf("invalid UTF-8 byte 0x%02x outside string/comment", c)}
		}
		// any other rune: an unknown symbol token (the parser will reject it where it matters)
		toks = append(toks, Token{TSym, string(r), i, line})
		i += sz
	}
	toks = append(toks, Token{TEOF, "", n, line})
	return toks, comments, nil
}
