package gl

import (
	"os"
	"strings"
	"testing"
)

func TestSemanticsSuite(t *testing.T) {
	b, err := os.ReadFile("/repo/internal/examples/semantics/semantics.gold.v")
	if err != nil {
		t.Fatal(err)
	}
	f, err := ParseFile(string(b))
	if err != nil {
		t.Fatal(err)
	}
	prog := NewProgram(f)
	bt, _ := ParseTDesc("bool")
	dec := func(in *Interp, v Val) (string, error) { return Decode(in, v, bt) }
	n := 0
	for _, d := range prog.Defs {
		if !strings.HasPrefix(d.Name, "test") && !strings.HasPrefix(d.Name, "failing_test") {
			continue
		}
		n++
		for _, pol := range []CapPolicy{CapExact, CapDouble} {
			res := Explore(prog, pol, d.Name, 1000, 0, dec, 30)
			t.Logf("%-45s pol=%d %v schedules=%d", d.Name, pol, res.Outcomes, res.Schedules)
		}
	}
	t.Logf("%d tests", n)
}
