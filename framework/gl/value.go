package gl

import (
	"fmt"
	"strings"
)

// Val is a GooseLang value.
type Val interface{}

type (
	VInt  struct{ N uint64 }
	VU32  struct{ N uint32 }
	VU8   struct{ N uint8 }
	VBool struct{ B bool }
	VStr  struct{ S string }
	VUnit struct{}
	// VLoc is a heap location; B == nil is #null.
	VLoc struct {
		B   *Block
		Off int
	}
	VPair struct{ A, B Val }
	// VClo is a GooseLang closure (rec: f x1..xn := body with captured environment).
	VClo struct {
		Rec    string // "" if not recursive
		Params []string
		Body   Expr
		Env    *Env
		Scope  int // index of the enclosing top-level definition (name resolution as Coq does it)
	}
	// VPrim is a (partially applied) library function.
	VPrim struct {
		Name string
		P    *Prim
		Args []Val
	}
	// VType is a GooseLang type used as a Gallina argument.
	VType struct{ T *Type }
	// VDesc is a struct descriptor.
	VDesc struct {
		Name   string
		Fields []string
		Tys    []*Type
	}
	// VFields is an evaluated [ "f" ::= v ] list (internal).
	VFields struct {
		Names []string
		Exprs []Expr
		Env   *Env
		Scope int
	}
	// VGallina is a Gallina-level function over types: a Definition with (T:ty) binders.
	VGallina struct {
		Item *Item
		Idx  int
		Args []Val
	}
	// VMap is the content of a map cell.
	VMap struct {
		Keys    []Val // insertion order
		M       map[string]Val
		Default Val
		Nil     bool
	}
)

type Type struct {
	Kind string // uint64, uint32, byte, bool, string, unit, ptr, any, slice, map, struct, array, prod, arrow, named(other)
	Elem *Type
	Desc *VDesc
	Ts   []*Type
	Name string
}

// Block is one heap allocation.
type Block struct {
	ID    int
	Cells []Val
	// per-cell access metadata for the race monitor (E5)
	Meta []cellMeta
	// native objects living in a block (locks, waitgroups)
	Kind string // "", lock, cond, wg
	Sync *syncState
}

type cellMeta struct {
	lastWrite  []int // vector clock of last write
	lastWriteT int
	reads      map[int][]int // thread -> vc of last read
	readers    int           // active MapIter borrows
}

type Env struct {
	Name string
	Val  Val
	Gal  bool // Gallina-level binding (type parameter)
	Next *Env
}

func (e *Env) lookup(name string, gal bool) (Val, bool) {
	for ; e != nil; e = e.Next {
		if e.Gal == gal && e.Name == name {
			return e.Val, true
		}
	}
	return nil, false
}

func (e *Env) bind(name string, v Val) *Env {
	if name == "" {
		return e
	}
	return &Env{Name: name, Val: v, Next: e}
}

// ShowVal renders a value for messages.
func ShowVal(v Val) string {
	var b strings.Builder
	showVal(&b, v, 0)
	return b.String()
}

func showVal(b *strings.Builder, v Val, d int) {
	if d > 8 {
		b.WriteString("…")
		return
	}
	switch v := v.(type) {
	case VInt:
		fmt.Fprintf(b, "#%d", v.N)
	case VU32:
		fmt.Fprintf(b, "#(U32 %d)", v.N)
	case VU8:
		fmt.Fprintf(b, "#(U8 %d)", v.N)
	case VBool:
		fmt.Fprintf(b, "#%v", v.B)
	case VStr:
		fmt.Fprintf(b, "#(str%q)", v.S)
	case VUnit:
		b.WriteString("#()")
	case VLoc:
		if v.B == nil {
			b.WriteString("#null")
		} else {
			fmt.Fprintf(b, "#loc(%d,%d)", v.B.ID, v.Off)
		}
	case VPair:
		b.WriteString("(")
		showVal(b, v.A, d+1)
		b.WriteString(", ")
		showVal(b, v.B, d+1)
		b.WriteString(")")
	case VClo:
		fmt.Fprintf(b, "<closure %s/%d>", v.Rec, len(v.Params))
	case VPrim:
		fmt.Fprintf(b, "<prim %s/%d>", v.Name, len(v.Args))
	case VType:
		b.WriteString("<type " + v.T.String() + ">")
	case VDesc:
		b.WriteString("<struct " + v.Name + ">")
	case *VMap:
		b.WriteString("<map>")
	case VGallina:
		b.WriteString("<gallina " + v.Item.Name + ">")
	case nil:
		b.WriteString("<nil>")
	default:
		fmt.Fprintf(b, "<%T>", v)
	}
}

func (t *Type) String() string {
	if t == nil {
		return "?"
	}
	switch t.Kind {
	case "slice":
		return "slice.T " + t.Elem.String()
	case "map":
		return "mapT " + t.Elem.String()
	case "struct":
		return "struct.t " + t.Desc.Name
	case "array":
		return "arrayT " + t.Elem.String()
	case "prod":
		var s []string
		for _, x := range t.Ts {
			s = append(s, x.String())
		}
		return "(" + strings.Join(s, " * ") + ")"
	case "named":
		return t.Name
	}
	return t.Kind + "T"
}
