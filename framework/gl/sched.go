package gl

import (
	"fmt"
	"sort"
	"strings"
)

// sched.go (E5): threads of the emitted program run as coroutines (one
// goroutine each, exactly one runnable at a time). A controller enumerates
// schedules depth-first by re-execution, switching threads before every
// blocking-capable synchronisation operation (lock acquire, cond re-acquire,
// waitgroup wait, thread start / end). A vector-clock monitor turns an
// unsynchronised conflicting access pair into stuck(race), GooseLang's rule.

type Thread struct {
	id     int
	vc     []int
	stores int64

	resume  chan bool
	pending *pendingOp
	done    bool
	result  Val
	err     interface{}

	signalled     bool  // strict cond semantics: this parked waiter has been signalled
	csStartStores int64 // th.stores when the current critical section began
	csLock        *Block
	emptyCS       map[*Block]int64 // (unused) lock -> global store epoch at the end of an empty critical section
	// polling-loop suppression: the last acquire of this thread
	site          string // call site of the acquire being executed (set by the evaluator)
	lastSite      string
	lastSiteOwn   int64 // th.stores at that acquire
	lastSiteEpoch int64 // global store epoch at that acquire
	body          func() Val
}

type pendingOp struct {
	kind  string // start, acquire, wgwait, condacquire
	obj   *Block
	epoch int64 // for cond re-acquire: global store epoch when the wait began; -1 if n/a
	spin  bool  // acquire that follows an empty critical section on the same lock
}

type sched struct {
	in       *Interp
	threads  []*Thread
	parked   chan *Thread
	prefix   []int
	taken    [][2]int // (chosen, options) per choice point
	maxDepth int
	multi    bool
	aborted  bool
}

func (b *Block) lockState() *syncState {
	if b.Sync == nil {
		b.Sync = &syncState{}
	}
	return b.Sync
}

type syncState struct {
	held bool
	ctr  int64
	vc   []int
	lock *Block
	// strict condition-variable semantics: threads parked in Wait, in arrival order
	waiters []*Thread
}

func joinVC(a, b []int) []int {
	if len(b) > len(a) {
		a = append(a, make([]int, len(b)-len(a))...)
	}
	for i, x := range b {
		if x > a[i] {
			a[i] = x
		}
	}
	return a
}

func (th *Thread) tickVC() {
	for len(th.vc) <= th.id {
		th.vc = append(th.vc, 0)
	}
	th.vc[th.id]++
}

func vcGet(vc []int, i int) int {
	if i < len(vc) {
		return vc[i]
	}
	return 0
}

// access is the race monitor: called on every heap cell access once a second thread exists.
func (s *sched) access(th *Thread, b *Block, off int, write bool) {
	if !s.multi || th == nil {
		return
	}
	if b.Meta == nil {
		b.Meta = make([]cellMeta, len(b.Cells))
	}
	if off >= len(b.Meta) {
		return
	}
	m := &b.Meta[off]
	me := vcGet(th.vc, th.id)
	if m.lastWrite != nil {
		wt, wc := m.lastWriteT, m.lastWrite[0]
		if wt != th.id && wc > vcGet(th.vc, wt) {
			stuck("race: %s of block %d+%d by thread %d is concurrent with a write by thread %d", rw(write), b.ID, off, th.id, wt)
		}
	}
	if write {
		for rt, rc := range m.reads {
			if rt != th.id && rc[0] > vcGet(th.vc, rt) {
				stuck("race: write of block %d+%d by thread %d is concurrent with a read by thread %d", b.ID, off, th.id, rt)
			}
		}
		m.lastWrite = []int{me}
		m.lastWriteT = th.id
		m.reads = nil
	} else {
		if m.reads == nil {
			m.reads = map[int][]int{}
		}
		m.reads[th.id] = []int{me}
	}
}

func rw(w bool) string {
	if w {
		return "write"
	}
	return "read"
}

// yield parks the current thread before a scheduling-relevant operation.
func (s *sched) yield(th *Thread, op *pendingOp) {
	th.pending = op
	s.parked <- th
	if ok := <-th.resume; !ok {
		panic(abortRun{})
	}
	th.pending = nil
}

func (in *Interp) fork(th *Thread, body Expr, env *Env, scope int) {
	s := in.sched
	if s == nil {
		unsupported("Fork outside the schedule explorer")
	}
	if len(s.threads) >= 8 {
		unsupported("more than 8 threads")
	}
	child := &Thread{id: len(s.threads), resume: make(chan bool), emptyCS: map[*Block]int64{}}
	child.vc = append([]int{}, th.vc...)
	child.tickVC()
	th.tickVC()
	child.body = func() Val { return in.eval(child, body, env, scope) }
	child.pending = &pendingOp{kind: "start", epoch: -1}
	s.threads = append(s.threads, child)
	s.multi = true
	s.spawn(child)
}

func (s *sched) spawn(th *Thread) {
	go func() {
		defer func() {
			if r := recover(); r != nil {
				if _, ok := r.(abortRun); !ok {
					th.err = r
				}
			}
			th.done = true
			s.parked <- th
		}()
		if ok := <-th.resume; !ok {
			panic(abortRun{})
		}
		th.pending = nil
		th.result = th.body()
	}()
}

func (s *sched) enabled(th *Thread) bool {
	if th.done || th.pending == nil {
		return false
	}
	op := th.pending
	switch op.kind {
	case "start":
		return true
	case "acquire":
		return !op.obj.lockState().held
	case "wgwait":
		return op.obj.lockState().ctr == 0
	case "condacquire":
		// strict semantics: a waiter proceeds only after a Signal/Broadcast reached it (a timed
		// wait may also time out, under the same no-new-information suspension rule)
		if op.obj.lockState().held {
			return false
		}
		return th.signalled || op.spin
	}
	return false
}

// suspended: the thread could run, but it would only re-observe a state it has already seen
// (a Wait that returns although nothing was written since it began, a polling loop back at the
// same acquire with nothing written in between, a timed wait timing out). Such threads run
// only when nothing else can, so pure spinning does not multiply schedules.
func (s *sched) suspended(th *Thread) bool {
	op := th.pending
	if op == nil {
		return false
	}
	switch op.kind {
	case "acquire":
		return op.epoch >= 0 && s.in.StoreEpoch == op.epoch
	case "condacquire":
		return !th.signalled && op.spin && s.in.StoreEpoch == op.epoch
	}
	return false
}

// ---------------------------------------------------------------- sync primitives

func initSyncPrims() {
	prims["lock.new"] = &Prim{1, func(in *Interp, th *Thread, a []Val) Val {
		l := in.alloc([]Val{VBool{false}})
		l.B.Kind = "lock"
		in.syncBlocks = append(in.syncBlocks, l.B)
		return l
	}}
	prims["lock.acquire"] = &Prim{1, func(in *Interp, th *Thread, a []Val) Val {
		b := syncBlock(a[0], "lock", "lock.acquire")
		in.acquire(th, b, -1)
		return VUnit{}
	}}
	prims["lock.release"] = &Prim{1, func(in *Interp, th *Thread, a []Val) Val {
		b := syncBlock(a[0], "lock", "lock.release")
		in.release(th, b)
		return VUnit{}
	}}
	prims["lock.newCond"] = &Prim{1, func(in *Interp, th *Thread, a []Val) Val {
		lb := syncBlock(a[0], "lock", "lock.newCond")
		c := in.alloc([]Val{VLoc{lb, 0}})
		c.B.Kind = "cond"
		in.syncBlocks = append(in.syncBlocks, c.B)
		c.B.lockState().lock = lb
		return c
	}}
	condWaitGen := func(in *Interp, th *Thread, a []Val, timed bool) Val {
		c := syncBlock(a[0], "cond", "lock.condWait")
		lb := c.lockState().lock
		if in.StrictCond && in.sched != nil {
			cs := c.lockState()
			th.signalled = false
			cs.waiters = append(cs.waiters, th)
			in.release(th, lb)
			in.sched.yield(th, &pendingOp{kind: "condacquire", obj: lb, epoch: in.StoreEpoch, spin: timed})
			if !th.signalled {
				// woke by timeout: the timer wakes every waiter of this Cond (spurious wakeups)
				for _, w := range cs.waiters {
					w.signalled = true
				}
				cs.waiters = nil
			}
			st := lb.lockState()
			if st.held {
				panic("scheduler granted a held lock")
			}
			st.held = true
			th.vc = joinVC(th.vc, st.vc)
			th.csStartStores = th.stores
			th.csLock = lb
			return VUnit{}
		}
		in.release(th, lb)
		in.acquire(th, lb, in.StoreEpoch)
		return VUnit{}
	}
	condWait := func(in *Interp, th *Thread, a []Val) Val { return condWaitGen(in, th, a, false) }
	prims["lock.condWait"] = &Prim{1, condWait}
	prims["lock.condWaitTimeout"] = &Prim{2, func(in *Interp, th *Thread, a []Val) Val {
		asInt(a[1], "lock.condWaitTimeout")
		return condWaitGen(in, th, a[:1], true)
	}}
	prims["lock.condSignal"] = &Prim{1, func(in *Interp, th *Thread, a []Val) Val {
		c := syncBlock(a[0], "cond", "lock.condSignal")
		if cs := c.lockState(); len(cs.waiters) > 0 {
			cs.waiters[0].signalled = true
			cs.waiters = cs.waiters[1:]
		}
		return VUnit{}
	}}
	prims["lock.condBroadcast"] = &Prim{1, func(in *Interp, th *Thread, a []Val) Val {
		c := syncBlock(a[0], "cond", "lock.condBroadcast")
		cs := c.lockState()
		for _, w := range cs.waiters {
			w.signalled = true
		}
		cs.waiters = nil
		return VUnit{}
	}}
	prims["waitgroup.New"] = &Prim{1, func(in *Interp, th *Thread, a []Val) Val {
		l := in.alloc([]Val{VInt{0}})
		l.B.Kind = "wg"
		in.syncBlocks = append(in.syncBlocks, l.B)
		return l
	}}
	prims["waitgroup.Add"] = &Prim{2, func(in *Interp, th *Thread, a []Val) Val {
		b := syncBlock(a[0], "wg", "waitgroup.Add")
		n := asInt(a[1], "waitgroup.Add")
		st := b.lockState()
		st.ctr += int64(n)
		if th != nil {
			st.vc = joinVC(st.vc, th.vc)
			th.tickVC()
		}
		return VUnit{}
	}}
	prims["waitgroup.Done"] = &Prim{1, func(in *Interp, th *Thread, a []Val) Val {
		b := syncBlock(a[0], "wg", "waitgroup.Done")
		st := b.lockState()
		if st.ctr <= 0 {
			stuck("waitgroup.Done with a zero counter")
		}
		st.ctr--
		if th != nil {
			st.vc = joinVC(st.vc, th.vc)
			th.tickVC()
		}
		in.StoreEpoch++
		return VUnit{}
	}}
	prims["waitgroup.Wait"] = &Prim{1, func(in *Interp, th *Thread, a []Val) Val {
		b := syncBlock(a[0], "wg", "waitgroup.Wait")
		st := b.lockState()
		if in.sched == nil {
			if st.ctr != 0 {
				stuck("deadlock: waitgroup.Wait with counter %d in a single-threaded run", st.ctr)
			}
			return VUnit{}
		}
		in.sched.yield(th, &pendingOp{kind: "wgwait", obj: b, epoch: -1})
		th.vc = joinVC(th.vc, st.vc)
		return VUnit{}
	}}
}

func syncBlock(v Val, kind, what string) *Block {
	l, ok := v.(VLoc)
	if !ok || l.B == nil || l.B.Kind != kind || l.Off != 0 {
		stuck("%s: argument is not a %s: %s", what, kind, ShowVal(v))
	}
	return l.B
}

func (in *Interp) acquire(th *Thread, b *Block, epoch int64) {
	st := b.lockState()
	if in.sched == nil {
		if st.held {
			stuck("deadlock: lock.acquire of a held lock in a single-threaded run")
		}
		st.held = true
		return
	}
	op := &pendingOp{kind: "acquire", obj: b, epoch: epoch}
	if epoch < 0 {
		// polling-loop suppression: the thread is back at the same acquire call site, has not
		// changed any cell since it was last here, and nobody else has either: it would observe
		// the same state again. Suspended until some thread stores.
		if th.site != "" && th.site == th.lastSite && th.lastSiteOwn == th.stores && th.lastSiteEpoch == in.StoreEpoch {
			op.epoch = in.StoreEpoch
			op.spin = true
		}
		th.lastSite, th.lastSiteOwn, th.lastSiteEpoch = th.site, th.stores, in.StoreEpoch
	}
	in.sched.yield(th, op)
	if st.held {
		panic("scheduler granted a held lock")
	}
	st.held = true
	th.vc = joinVC(th.vc, st.vc)
	th.csStartStores = th.stores
	th.csLock = b
}

func (in *Interp) release(th *Thread, b *Block) {
	st := b.lockState()
	if !st.held {
		stuck("lock.release of a lock that is not held")
	}
	st.held = false
	if th != nil {
		st.vc = joinVC(st.vc, th.vc)
		th.tickVC()
		if th.csLock == b && th.stores == th.csStartStores {
			th.emptyCS[b] = in.StoreEpoch
		} else {
			delete(th.emptyCS, b)
		}
	}
}

// ---------------------------------------------------------------- exploration

type Outcome struct {
	Kind   string // value, stuck, deadlock, diverge, budget, unsupported, depth
	Detail string
}

func (o Outcome) String() string { return o.Kind + ":" + o.Detail }

type ExploreResult struct {
	Outcomes   map[string]int // outcome string -> number of schedules
	Schedules  int
	BoundHit   bool
	MaxThreads int
	MaxChoices int
	Witness    map[string][]int // outcome -> one schedule (choice list) producing it
}

// runOnce executes entry under the schedule prefix; returns the outcome and the choice points met.
func runOnce(prog *Program, policy CapPolicy, entry string, prefix []int, maxDepth int, maxSteps int64,
	decode func(in *Interp, v Val) (string, error), diskBlocks int) (Outcome, [][2]int, int) {
	in := NewInterp(prog, policy)
	if maxSteps > 0 {
		in.MaxSteps = maxSteps
	}
	in.StrictCond = ExploreStrictCond(prog)
	in.Disk = make([][]byte, diskBlocks)
	s := &sched{in: in, parked: make(chan *Thread, 16), prefix: prefix, maxDepth: maxDepth}
	in.sched = s
	main := &Thread{id: 0, resume: make(chan bool), emptyCS: map[*Block]int64{}, vc: []int{1}}
	main.body = func() Val { return in.Call(main, entry) }
	main.pending = &pendingOp{kind: "start", epoch: -1}
	s.threads = []*Thread{main}
	s.spawn(main)

	var out Outcome
	finish := func(o Outcome) {
		out = o
		// abort every thread still parked
		for _, th := range s.threads {
			if !th.done {
				th.resume <- false
				for {
					t := <-s.parked
					if t == th && th.done {
						break
					}
				}
			}
		}
	}
	classify := func(err interface{}) Outcome {
		switch e := err.(type) {
		case *Stuck:
			return Outcome{"stuck", e.Reason}
		case *Budget:
			return Outcome{"budget", ""}
		case *Diverge:
			return Outcome{"diverge", ""}
		case *Unsupported:
			return Outcome{"unsupported", e.What}
		}
		return Outcome{"internal", fmt.Sprint(err)}
	}
	mainDone := false
	var mainOutcome Outcome
	// tried[id] = the store epoch at which thread id was last woken although suspended: it re-observed an
	// unchanged state and is deterministic, so waking it again before anybody stores shows nothing new
	tried := map[int]string{}
	fromSusp := false
	// the state a suspended thread would re-observe: the heap (store epoch) and the net state of the
	// synchronisation objects (a polling thread acquires and releases on its way round: net effect none)
	stateKey := func() string {
		var sb strings.Builder
		fmt.Fprintf(&sb, "%d", in.StoreEpoch)
		for i, b := range in.syncBlocks {
			st := b.lockState()
			fmt.Fprintf(&sb, "|%d:%v:%d:%d", i, st.held, st.ctr, len(st.waiters))
		}
		for _, th := range s.threads {
			fmt.Fprintf(&sb, "/%v%v", th.done, th.signalled)
		}
		return sb.String()
	}
	for {
		// any thread failed?
		failed := false
		for _, th := range s.threads {
			if th.done && th.err != nil {
				o := classify(th.err)
				if th.id != 0 && o.Kind == "stuck" {
					o.Detail = fmt.Sprintf("thread %d: %s", th.id, o.Detail)
				}
				finish(o)
				failed = true
				break
			}
		}
		if failed {
			break
		}
		if main.done && !mainDone {
			mainDone = true
			str, err := decode(in, main.result)
			if err != nil {
				mainOutcome = Outcome{"value-mismatch", err.Error()}
			} else {
				mainOutcome = Outcome{"value", str}
			}
		}
		var en, susp []*Thread
		for _, th := range s.threads {
			if s.enabled(th) {
				if s.suspended(th) {
					susp = append(susp, th)
				} else {
					en = append(en, th)
				}
			}
		}
		fromSusp = false
		if len(en) == 0 && len(susp) > 0 {
			// only threads that would re-observe an unchanged state are left: each of them is woken once per
			// store epoch (fairness: a thread that could change something is never starved by one that only
			// polls); when every one of them has been woken since the last store and none stored, no thread
			// can ever make progress
			var cand []*Thread
			key := stateKey()
			for _, th := range susp {
				if e, ok := tried[th.id]; !ok || e != key {
					cand = append(cand, th)
				}
			}
			fromSusp = true
			if len(cand) > 0 {
				susp = cand
			} else if mainDone {
				finish(mainOutcome)
				break
			} else {
				var who []string
				for _, th := range s.threads {
					if !th.done && th.pending != nil {
						who = append(who, fmt.Sprintf("t%d@%s", th.id, th.pending.kind))
					}
				}
				finish(Outcome{"deadlock", "no progress: every runnable thread waits for a change nobody makes " + fmt.Sprint(who)})
				break
			}
			en = susp
		}
		if len(en) == 0 {
			allDone := true
			for _, th := range s.threads {
				if !th.done {
					allDone = false
				}
			}
			if mainDone {
				finish(mainOutcome)
			} else if allDone {
				finish(Outcome{"internal", "all threads done but main has no result"})
			} else {
				var who []string
				for _, th := range s.threads {
					if !th.done && th.pending != nil {
						who = append(who, fmt.Sprintf("t%d@%s", th.id, th.pending.kind))
					}
				}
				finish(Outcome{"deadlock", fmt.Sprint(who)})
			}
			break
		}
		idx := 0
		if len(en) > 1 && !mainDone {
			k := len(s.taken)
			if k < len(prefix) {
				idx = prefix[k]
				if idx >= len(en) {
					idx = 0
				}
			}
			s.taken = append(s.taken, [2]int{idx, len(en)})
			if len(s.taken) > maxDepth {
				finish(Outcome{"depth", ""})
				break
			}
		}
		th := en[idx]
		if fromSusp {
			tried[th.id] = stateKey()
		}
		th.resume <- true
		<-s.parked
	}
	return out, s.taken, len(s.threads)
}

// Explore enumerates schedules of entry depth-first up to maxSchedules.
func Explore(prog *Program, policy CapPolicy, entry string, maxSchedules int, maxSteps int64,
	decode func(in *Interp, v Val) (string, error), diskBlocks int) ExploreResult {
	res := ExploreResult{Outcomes: map[string]int{}, Witness: map[string][]int{}}
	var prefix []int
	for {
		out, taken, nth := runOnce(prog, policy, entry, prefix, 300, maxSteps, decode, diskBlocks)
		res.Schedules++
		key := out.String()
		res.Outcomes[key]++
		if _, ok := res.Witness[key]; !ok {
			w := make([]int, len(taken))
			for i, t := range taken {
				w[i] = t[0]
			}
			res.Witness[key] = w
		}
		if nth > res.MaxThreads {
			res.MaxThreads = nth
		}
		if len(taken) > res.MaxChoices {
			res.MaxChoices = len(taken)
		}
		// next schedule: increment the last choice point that has an untried option
		i := len(taken) - 1
		for i >= 0 && taken[i][0]+1 >= taken[i][1] {
			i--
		}
		if i < 0 {
			break
		}
		prefix = prefix[:0]
		for j := 0; j < i; j++ {
			prefix = append(prefix, taken[j][0])
		}
		prefix = append(prefix, taken[i][0]+1)
		if res.Schedules >= maxSchedules {
			res.BoundHit = true
			break
		}
	}
	return res
}

// RunSequential evaluates entry with no scheduler (single thread).
func RunSequential(prog *Program, policy CapPolicy, entry string, maxSteps int64,
	decode func(in *Interp, v Val) (string, error), diskBlocks int) (o Outcome, in *Interp) {
	in = NewInterp(prog, policy)
	if maxSteps > 0 {
		in.MaxSteps = maxSteps
	}
	in.Disk = make([][]byte, diskBlocks)
	defer func() {
		if r := recover(); r != nil {
			switch e := r.(type) {
			case *Stuck:
				o = Outcome{"stuck", e.Reason + " [in " + strings.Join(in.CallStack, " > ") + "]"}
			case *Budget:
				o = Outcome{"budget", "in " + strings.Join(in.CallStack, " > ")}
			case *Diverge:
				o = Outcome{"diverge", ""}
			case *Unsupported:
				o = Outcome{"unsupported", e.What}
			default:
				panic(r)
			}
		}
	}()
	v := in.Call(nil, entry)
	s, err := decode(in, v)
	if err != nil {
		return Outcome{"value-mismatch", err.Error()}, in
	}
	return Outcome{"value", s}, in
}

// SortedOutcomes lists outcome keys in a stable order.
func (r ExploreResult) SortedOutcomes() []string {
	var ks []string
	for k := range r.Outcomes {
		ks = append(ks, k)
	}
	sort.Strings(ks)
	return ks
}

// ExploreStrictCond reports whether exploration of prog uses Go's condition-variable
// semantics (Wait blocks until a Signal/Broadcast reaches it, Signal wakes the longest
// waiter) instead of GooseLang's permissive model (Wait = release; acquire).
func ExploreStrictCond(p *Program) bool { return p.StrictCond }
