package gl

import (
	"fmt"
	"strconv"
)

// prims.go: native implementations of the GooseLang library functions with
// the observable behaviour of Perennial's goose_lang/lib (DESIGN.md §3.2).

type Prim struct {
	Arity int
	Fn    func(in *Interp, th *Thread, a []Val) Val
}

var prims = map[string]*Prim{}

// stringArg lists, for library forms that take a Gallina string, the argument position of it.
var stringArg = map[string]int{
	"struct.get": 1, "struct.loadF": 1, "struct.storeF": 1, "struct.fieldRef": 1, "Panic": 0,
}

func tyConst(kind string) *Prim {
	t := &Type{Kind: kind}
	return &Prim{0, func(in *Interp, th *Thread, a []Val) Val { return VType{t} }}
}

func asType(v Val, what string) *Type {
	t, ok := v.(VType)
	if !ok {
		stuck("%s: expected a type, got %s", what, ShowVal(v))
	}
	return t.T
}

func asInt(v Val, what string) uint64 {
	n, ok := v.(VInt)
	if !ok {
		stuck("%s: expected a 64-bit integer, got %s", what, ShowVal(v))
	}
	return n.N
}

func asDesc(v Val, what string) *VDesc {
	d, ok := v.(VDesc)
	if !ok {
		stuck("%s: expected a struct descriptor, got %s", what, ShowVal(v))
	}
	return &d
}

func sliceNil() Val { return VPair{VPair{VLoc{}, VInt{0}}, VInt{0}} }

func mkSlice(p VLoc, n, c uint64) Val { return VPair{VPair{p, VInt{n}}, VInt{c}} }

func asSlice(v Val, what string) (VLoc, uint64, uint64) {
	p, ok := v.(VPair)
	if ok {
		if q, ok := p.A.(VPair); ok {
			l, ok1 := q.A.(VLoc)
			n, ok2 := q.B.(VInt)
			c, ok3 := p.B.(VInt)
			if ok1 && ok2 && ok3 {
				return l, n.N, c.N
			}
		}
	}
	stuck("%s: expected a slice value, got %s", what, ShowVal(v))
	return VLoc{}, 0, 0
}

func (in *Interp) makeCap(n uint64) uint64 {
	if in.Policy == CapDouble {
		if n < 4 {
			return n + 2
		}
		return n * 2
	}
	return n
}

func (in *Interp) allocN(n uint64, t *Type) VLoc {
	sz := tySize(t)
	if n > 1<<22 {
		unsupported("allocation of %d elements", n)
	}
	cells := make([]Val, 0, int(n)*sz)
	z := flatten(zeroVal(t), nil)
	for i := uint64(0); i < n; i++ {
		in.work()
		cells = append(cells, z...)
	}
	return in.alloc(cells)
}

func (in *Interp) noteStore(th *Thread) {
	in.StoreEpoch++
	if th != nil {
		th.stores++
	}
}

func locAdd(l VLoc, k int) VLoc {
	if l.B == nil {
		if k == 0 {
			return l
		}
		stuck("pointer arithmetic on #null")
	}
	return VLoc{l.B, l.Off + k}
}

func (in *Interp) descOffset(d *VDesc, f string) (int, *Type) {
	off := 0
	for i, n := range d.Fields {
		if n == f {
			return off, d.Tys[i]
		}
		off += tySize(d.Tys[i])
	}
	stuck("struct %s has no field %q", d.Name, f)
	return 0, nil
}

func asStr(v Val, what string) string {
	s, ok := v.(VStr)
	if !ok {
		stuck("%s: expected a string, got %s", what, ShowVal(v))
	}
	return s.S
}

func mapKey(v Val) string {
	switch v := v.(type) {
	case VInt:
		return "i" + strconv.FormatUint(v.N, 10)
	case VStr:
		return "s" + v.S
	case VU32:
		return "w" + strconv.FormatUint(uint64(v.N), 10)
	case VU8:
		return "b" + strconv.FormatUint(uint64(v.N), 10)
	case VBool:
		return fmt.Sprintf("o%v", v.B)
	}
	stuck("unsupported map key %s", ShowVal(v))
	return ""
}

func (in *Interp) mapOf(th *Thread, v Val, what string, write bool) (*VMap, *Val) {
	l := asLoc(v, what)
	c := in.cell(th, l, write)
	m, ok := (*c).(*VMap)
	if !ok {
		stuck("%s: location does not hold a map", what)
	}
	return m, c
}

func init() {
	for _, k := range []string{"uint64", "uint32", "byte", "bool", "string", "unit", "ptr", "any"} {
		prims[k+"T"] = tyConst(k)
	}
	for _, k := range []string{"ProphIdT", "fileT", "disk.Disk"} {
		name := k
		prims[k] = &Prim{0, func(in *Interp, th *Thread, a []Val) Val { return VType{&Type{Kind: "named", Name: name}} }}
	}
	prims["disk.blockT"] = &Prim{0, func(in *Interp, th *Thread, a []Val) Val {
		return VType{&Type{Kind: "slice", Elem: &Type{Kind: "byte"}}}
	}}
	prims["slice.T"] = &Prim{1, func(in *Interp, th *Thread, a []Val) Val {
		return VType{&Type{Kind: "slice", Elem: asType(a[0], "slice.T")}}
	}}
	prims["mapT"] = &Prim{1, func(in *Interp, th *Thread, a []Val) Val {
		return VType{&Type{Kind: "map", Elem: asType(a[0], "mapT")}}
	}}
	prims["arrayT"] = &Prim{1, func(in *Interp, th *Thread, a []Val) Val {
		return VType{&Type{Kind: "array", Elem: asType(a[0], "arrayT")}}
	}}
	prims["refT"] = &Prim{1, func(in *Interp, th *Thread, a []Val) Val { return VType{&Type{Kind: "ptr"}} }}
	prims["struct.t"] = &Prim{1, func(in *Interp, th *Thread, a []Val) Val {
		return VType{&Type{Kind: "struct", Desc: asDesc(a[0], "struct.t")}}
	}}
	prims["struct.decl"] = &Prim{1, func(in *Interp, th *Thread, a []Val) Val {
		switch d := a[0].(type) {
		case VDesc:
			return d
		case VFields:
			if len(d.Names) == 0 {
				return VDesc{}
			}
		}
		stuck("struct.decl: malformed field list")
		return nil
	}}

	unit := func(in *Interp, th *Thread, a []Val) Val { return VUnit{} }
	prims["Skip"] = &Prim{0, unit}
	prims["Linearize"] = &Prim{0, unit}
	prims["Continue"] = &Prim{0, func(in *Interp, th *Thread, a []Val) Val { return VBool{true} }}
	prims["Break"] = &Prim{0, func(in *Interp, th *Thread, a []Val) Val { return VBool{false} }}
	prims["slice.nil"] = &Prim{0, func(in *Interp, th *Thread, a []Val) Val { return sliceNil() }}
	prims["null"] = &Prim{0, func(in *Interp, th *Thread, a []Val) Val { return VLoc{} }}

	prims["ref"] = &Prim{1, func(in *Interp, th *Thread, a []Val) Val { return in.alloc(flatten(a[0], nil)) }}
	prims["ref_to"] = &Prim{2, func(in *Interp, th *Thread, a []Val) Val {
		asType(a[0], "ref_to")
		return in.alloc(flatten(a[1], nil))
	}}
	prims["zero_val"] = &Prim{1, func(in *Interp, th *Thread, a []Val) Val { return zeroVal(asType(a[0], "zero_val")) }}
	prims["zero_array"] = &Prim{2, func(in *Interp, th *Thread, a []Val) Val {
		return in.allocN(asInt(a[1], "zero_array"), asType(a[0], "zero_array"))
	}}
	prims["Fst"] = &Prim{1, func(in *Interp, th *Thread, a []Val) Val {
		p, ok := a[0].(VPair)
		if !ok {
			stuck("Fst of non-pair %s", ShowVal(a[0]))
		}
		return p.A
	}}
	prims["Snd"] = &Prim{1, func(in *Interp, th *Thread, a []Val) Val {
		p, ok := a[0].(VPair)
		if !ok {
			stuck("Snd of non-pair %s", ShowVal(a[0]))
		}
		return p.B
	}}
	conv := func(name string, f func(uint64) Val) {
		prims[name] = &Prim{1, func(in *Interp, th *Thread, a []Val) Val {
			switch v := a[0].(type) {
			case VInt:
				return f(v.N)
			case VU32:
				return f(uint64(v.N))
			case VU8:
				return f(uint64(v.N))
			}
			stuck("%s of non-integer %s", name, ShowVal(a[0]))
			return nil
		}}
	}
	conv("to_u64", func(n uint64) Val { return VInt{n} })
	conv("to_u32", func(n uint64) Val { return VU32{uint32(n)} })
	conv("to_u8", func(n uint64) Val { return VU8{uint8(n)} })

	// ------------------------------------------------------------ slices
	prims["slice.len"] = &Prim{1, func(in *Interp, th *Thread, a []Val) Val {
		_, n, _ := asSlice(a[0], "slice.len")
		return VInt{n}
	}}
	prims["slice.cap"] = &Prim{1, func(in *Interp, th *Thread, a []Val) Val {
		_, _, c := asSlice(a[0], "slice.cap")
		return VInt{c}
	}}
	prims["slice.ptr"] = &Prim{1, func(in *Interp, th *Thread, a []Val) Val {
		p, _, _ := asSlice(a[0], "slice.ptr")
		return p
	}}
	prims["NewSlice"] = &Prim{2, func(in *Interp, th *Thread, a []Val) Val {
		t := asType(a[0], "NewSlice")
		n := asInt(a[1], "NewSlice")
		if n == 0 {
			return sliceNil()
		}
		c := in.makeCap(n)
		return mkSlice(in.allocN(c, t), n, c)
	}}
	prims["NewSliceWithCap"] = &Prim{3, func(in *Interp, th *Thread, a []Val) Val {
		t := asType(a[0], "NewSliceWithCap")
		n := asInt(a[1], "NewSliceWithCap")
		c := asInt(a[2], "NewSliceWithCap")
		if c < n {
			stuck("NewSliceWithCap: capacity %d < length %d", c, n)
		}
		if c == 0 {
			return sliceNil()
		}
		return mkSlice(in.allocN(c, t), n, c)
	}}
	prims["SliceSingleton"] = &Prim{1, func(in *Interp, th *Thread, a []Val) Val {
		return mkSlice(in.alloc(flatten(a[0], nil)), 1, 1)
	}}
	prims["SliceRef"] = &Prim{3, func(in *Interp, th *Thread, a []Val) Val {
		t := asType(a[0], "SliceRef")
		p, _, _ := asSlice(a[1], "SliceRef")
		i := asInt(a[2], "SliceRef")
		return locAdd(p, int(i)*tySize(t))
	}}
	prims["SliceGet"] = &Prim{3, func(in *Interp, th *Thread, a []Val) Val {
		t := asType(a[0], "SliceGet")
		p, _, _ := asSlice(a[1], "SliceGet")
		i := asInt(a[2], "SliceGet")
		if i > 1<<40 {
			stuck("SliceGet: index out of allocation")
		}
		return in.loadTy(th, t, locAdd(p, int(i)*tySize(t)))
	}}
	prims["SliceSet"] = &Prim{4, func(in *Interp, th *Thread, a []Val) Val {
		t := asType(a[0], "SliceSet")
		p, _, _ := asSlice(a[1], "SliceSet")
		i := asInt(a[2], "SliceSet")
		if i > 1<<40 {
			stuck("SliceSet: index out of allocation")
		}
		in.storeTy(th, t, locAdd(p, int(i)*tySize(t)), a[3])
		return VUnit{}
	}}
	prims["SliceSkip"] = &Prim{3, func(in *Interp, th *Thread, a []Val) Val {
		t := asType(a[0], "SliceSkip")
		p, n, c := asSlice(a[1], "SliceSkip")
		k := asInt(a[2], "SliceSkip")
		if k > 1<<40 {
			stuck("SliceSkip: out of range")
		}
		var np VLoc
		if p.B == nil && k == 0 {
			np = p
		} else {
			np = locAdd(p, int(k)*tySize(t))
		}
		return mkSlice(np, n-k, c-k)
	}}
	prims["SliceTake"] = &Prim{2, func(in *Interp, th *Thread, a []Val) Val {
		p, _, c := asSlice(a[0], "SliceTake")
		k := asInt(a[1], "SliceTake")
		if c < k {
			stuck("SliceTake: %d beyond capacity %d", k, c)
		}
		return mkSlice(p, k, c)
	}}
	prims["SliceSubslice"] = &Prim{4, func(in *Interp, th *Thread, a []Val) Val {
		t := asType(a[0], "SliceSubslice")
		p, _, c := asSlice(a[1], "SliceSubslice")
		lo := asInt(a[2], "SliceSubslice")
		hi := asInt(a[3], "SliceSubslice")
		if hi < lo || hi > c {
			stuck("SliceSubslice: [%d:%d] with capacity %d", lo, hi, c)
		}
		var np VLoc
		if p.B == nil && lo == 0 {
			np = p
		} else {
			np = locAdd(p, int(lo)*tySize(t))
		}
		return mkSlice(np, hi-lo, c-lo)
	}}
	appendN := func(in *Interp, th *Thread, t *Type, s Val, elems []Val) Val {
		p, n, c := asSlice(s, "SliceAppend")
		sz := tySize(t)
		k := uint64(len(elems))
		if k == 0 {
			return s
		}
		if n+k < n {
			panic(&Diverge{})
		}
		if c-n >= k {
			for i, x := range elems {
				in.storeTy(th, t, locAdd(p, (int(n)+i)*sz), x)
			}
			return mkSlice(p, n+k, c)
		}
		nc := in.makeCap(n + k)
		np := in.allocN(nc, t)
		for i := uint64(0); i < n; i++ {
			in.work()
			in.storeTy(th, t, locAdd(np, int(i)*sz), in.loadTy(th, t, locAdd(p, int(i)*sz)))
		}
		for i, x := range elems {
			in.storeTy(th, t, locAdd(np, (int(n)+i)*sz), x)
		}
		return mkSlice(np, n+k, nc)
	}
	prims["SliceAppend"] = &Prim{3, func(in *Interp, th *Thread, a []Val) Val {
		return appendN(in, th, asType(a[0], "SliceAppend"), a[1], []Val{a[2]})
	}}
	prims["SliceAppendSlice"] = &Prim{3, func(in *Interp, th *Thread, a []Val) Val {
		t := asType(a[0], "SliceAppendSlice")
		p2, n2, _ := asSlice(a[2], "SliceAppendSlice")
		sz := tySize(t)
		elems := make([]Val, n2)
		for i := uint64(0); i < n2; i++ {
			in.work()
			elems[i] = in.loadTy(th, t, locAdd(p2, int(i)*sz))
		}
		if n2 == 0 {
			// appending nothing returns the slice unchanged
			asSlice(a[1], "SliceAppendSlice")
			return a[1]
		}
		return appendN(in, th, t, a[1], elems)
	}}
	prims["SliceCopy"] = &Prim{3, func(in *Interp, th *Thread, a []Val) Val {
		t := asType(a[0], "SliceCopy")
		pd, nd, _ := asSlice(a[1], "SliceCopy")
		ps, ns, _ := asSlice(a[2], "SliceCopy")
		n := nd
		if ns < n {
			n = ns
		}
		sz := tySize(t)
		for i := uint64(0); i < n; i++ {
			in.work()
			in.storeTy(th, t, locAdd(pd, int(i)*sz), in.loadTy(th, t, locAdd(ps, int(i)*sz)))
		}
		return VInt{n}
	}}
	// ForSlice is a special form (see evalSpecial); forSlice is its function form
	// ------------------------------------------------------------ maps
	prims["NewMap"] = &Prim{3, func(in *Interp, th *Thread, a []Val) Val {
		asType(a[0], "NewMap")
		vt := asType(a[1], "NewMap")
		return in.alloc([]Val{&VMap{M: map[string]Val{}, Default: zeroVal(vt)}})
	}}
	prims["MapGet"] = &Prim{2, func(in *Interp, th *Thread, a []Val) Val {
		m, _ := in.mapOf(th, a[0], "MapGet", false)
		if v, ok := m.M[mapKey(a[1])]; ok {
			return VPair{v, VBool{true}}
		}
		return VPair{m.Default, VBool{false}}
	}}
	prims["MapInsert"] = &Prim{3, func(in *Interp, th *Thread, a []Val) Val {
		m, _ := in.mapOf(th, a[0], "MapInsert", true)
		in.noteStore(th)
		k := mapKey(a[1])
		if _, ok := m.M[k]; !ok {
			m.Keys = append(m.Keys, a[1])
		}
		m.M[k] = a[2]
		return VUnit{}
	}}
	prims["MapDelete"] = &Prim{2, func(in *Interp, th *Thread, a []Val) Val {
		m, _ := in.mapOf(th, a[0], "MapDelete", true)
		in.noteStore(th)
		k := mapKey(a[1])
		if _, ok := m.M[k]; ok {
			delete(m.M, k)
			for i, x := range m.Keys {
				if mapKey(x) == k {
					m.Keys = append(append([]Val{}, m.Keys[:i]...), m.Keys[i+1:]...)
					break
				}
			}
		}
		return VUnit{}
	}}
	prims["MapLen"] = &Prim{1, func(in *Interp, th *Thread, a []Val) Val {
		m, _ := in.mapOf(th, a[0], "MapLen", false)
		return VInt{uint64(len(m.M))}
	}}
	prims["MapClear"] = &Prim{1, func(in *Interp, th *Thread, a []Val) Val {
		m, _ := in.mapOf(th, a[0], "MapClear", true)
		in.noteStore(th)
		m.M = map[string]Val{}
		m.Keys = nil
		return VUnit{}
	}}
	prims["MapIter"] = &Prim{2, func(in *Interp, th *Thread, a []Val) Val {
		l := asLoc(a[0], "MapIter")
		m, _ := in.mapOf(th, a[0], "MapIter", false)
		if l.B.Meta == nil {
			l.B.Meta = make([]cellMeta, len(l.B.Cells))
		}
		l.B.Meta[l.Off].readers++
		defer func() { l.B.Meta[l.Off].readers-- }()
		keys := append([]Val{}, m.Keys...)
		for _, k := range keys {
			in.tick()
			v := m.M[mapKey(k)]
			in.apply(th, a[1], []Val{k, v})
		}
		return VUnit{}
	}}
	// ------------------------------------------------------------ strings, encoding
	prims["StringLength"] = &Prim{1, func(in *Interp, th *Thread, a []Val) Val {
		return VInt{uint64(len(asStr(a[0], "StringLength")))}
	}}
	prims["StringToBytes"] = &Prim{1, func(in *Interp, th *Thread, a []Val) Val {
		s := asStr(a[0], "StringToBytes")
		if len(s) == 0 {
			return sliceNil()
		}
		cells := make([]Val, len(s))
		for i := 0; i < len(s); i++ {
			cells[i] = VU8{s[i]}
		}
		return mkSlice(in.alloc(cells), uint64(len(s)), uint64(len(s)))
	}}
	prims["StringFromBytes"] = &Prim{1, func(in *Interp, th *Thread, a []Val) Val {
		p, n, _ := asSlice(a[0], "StringFromBytes")
		b := make([]byte, n)
		for i := uint64(0); i < n; i++ {
			in.work()
			c, ok := (*in.cell(th, locAdd(p, int(i)), false)).(VU8)
			if !ok {
				stuck("StringFromBytes: element %d is not a byte", i)
			}
			b[i] = c.N
		}
		return VStr{string(b)}
	}}
	prims["uint64_to_string"] = &Prim{1, func(in *Interp, th *Thread, a []Val) Val {
		return VStr{strconv.FormatUint(asInt(a[0], "uint64_to_string"), 10)}
	}}
	put := func(name string, width int) {
		prims[name] = &Prim{2, func(in *Interp, th *Thread, a []Val) Val {
			p, n, _ := asSlice(a[0], name)
			var v uint64
			if width == 8 {
				v = asInt(a[1], name)
			} else {
				x, ok := a[1].(VU32)
				if !ok {
					stuck("%s: value is not a 32-bit integer: %s", name, ShowVal(a[1]))
				}
				v = uint64(x.N)
			}
			if n < uint64(width) {
				stuck("%s: buffer of length %d", name, n)
			}
			for i := 0; i < width; i++ {
				in.setCell(th, locAdd(p, i), VU8{uint8(v >> (8 * uint(i)))})
			}
			return VUnit{}
		}}
	}
	put("UInt64Put", 8)
	put("UInt32Put", 4)
	get := func(name string, width int) {
		prims[name] = &Prim{1, func(in *Interp, th *Thread, a []Val) Val {
			p, n, _ := asSlice(a[0], name)
			if n < uint64(width) {
				stuck("%s: buffer of length %d", name, n)
			}
			var v uint64
			for i := 0; i < width; i++ {
				c, ok := (*in.cell(th, locAdd(p, i), false)).(VU8)
				if !ok {
					stuck("%s: element %d is not a byte", name, i)
				}
				v |= uint64(c.N) << (8 * uint(i))
			}
			if width == 8 {
				return VInt{v}
			}
			return VU32{uint32(v)}
		}}
	}
	get("UInt64Get", 8)
	get("UInt32Get", 4)
	// ------------------------------------------------------------ structs
	buildStruct := func(in *Interp, th *Thread, d *VDesc, fv Val) Val {
		f, ok := fv.(VFields)
		if !ok {
			stuck("struct.mk: expected a field list")
		}
		for _, n := range f.Names {
			found := false
			for _, dn := range d.Fields {
				if dn == n {
					found = true
				}
			}
			if !found {
				stuck("struct.mk %s: no field %q", d.Name, n)
			}
		}
		// (f1, (f2, (... #()))) — pair operands evaluate right to left, so the last field first
		vals := make([]Val, len(d.Fields))
		for i := len(d.Fields) - 1; i >= 0; i-- {
			vals[i] = nil
			for j, n := range f.Names {
				if n == d.Fields[i] {
					vals[i] = in.eval(th, f.Exprs[j], f.Env, f.Scope)
					break
				}
			}
			if vals[i] == nil {
				vals[i] = zeroVal(d.Tys[i])
			}
		}
		var v Val = VUnit{}
		for i := len(vals) - 1; i >= 0; i-- {
			v = VPair{vals[i], v}
		}
		return v
	}
	prims["struct.mk"] = &Prim{2, func(in *Interp, th *Thread, a []Val) Val {
		return buildStruct(in, th, asDesc(a[0], "struct.mk"), a[1])
	}}
	prims["struct.new"] = &Prim{2, func(in *Interp, th *Thread, a []Val) Val {
		return in.alloc(flatten(buildStruct(in, th, asDesc(a[0], "struct.new"), a[1]), nil))
	}}
	prims["struct.alloc"] = &Prim{2, func(in *Interp, th *Thread, a []Val) Val {
		asDesc(a[0], "struct.alloc")
		return in.alloc(flatten(a[1], nil))
	}}
	prims["struct.get"] = &Prim{3, func(in *Interp, th *Thread, a []Val) Val {
		d := asDesc(a[0], "struct.get")
		f := asStr(a[1], "struct.get")
		v := a[2]
		for _, n := range d.Fields {
			p, ok := v.(VPair)
			if !ok {
				stuck("struct.get %s %q of a value that is not a %s struct: %s", d.Name, f, d.Name, ShowVal(a[2]))
			}
			if n == f {
				return p.A
			}
			v = p.B
		}
		stuck("struct %s has no field %q", d.Name, f)
		return nil
	}}
	prims["struct.fieldRef"] = &Prim{3, func(in *Interp, th *Thread, a []Val) Val {
		d := asDesc(a[0], "struct.fieldRef")
		off, _ := in.descOffset(d, asStr(a[1], "struct.fieldRef"))
		return locAdd(asLoc(a[2], "struct.fieldRef"), off)
	}}
	prims["struct.loadF"] = &Prim{3, func(in *Interp, th *Thread, a []Val) Val {
		d := asDesc(a[0], "struct.loadF")
		off, ft := in.descOffset(d, asStr(a[1], "struct.loadF"))
		return in.loadTy(th, ft, locAdd(asLoc(a[2], "struct.loadF"), off))
	}}
	prims["struct.storeF"] = &Prim{4, func(in *Interp, th *Thread, a []Val) Val {
		d := asDesc(a[0], "struct.storeF")
		off, ft := in.descOffset(d, asStr(a[1], "struct.storeF"))
		in.storeTy(th, ft, locAdd(asLoc(a[2], "struct.storeF"), off), a[3])
		return VUnit{}
	}}
	prims["struct.load"] = &Prim{2, func(in *Interp, th *Thread, a []Val) Val {
		d := asDesc(a[0], "struct.load")
		return in.loadTy(th, &Type{Kind: "struct", Desc: d}, asLoc(a[1], "struct.load"))
	}}
	prims["struct.store"] = &Prim{3, func(in *Interp, th *Thread, a []Val) Val {
		d := asDesc(a[0], "struct.store")
		in.storeTy(th, &Type{Kind: "struct", Desc: d}, asLoc(a[1], "struct.store"), a[2])
		return VUnit{}
	}}
	// ------------------------------------------------------------ control
	prims["Panic"] = &Prim{1, func(in *Interp, th *Thread, a []Val) Val {
		stuck("Panic %s", ShowVal(a[0]))
		return nil
	}}
	prims["control.impl.Assume"] = &Prim{1, func(in *Interp, th *Thread, a []Val) Val {
		b, ok := a[0].(VBool)
		if !ok {
			stuck("Assume of non-bool")
		}
		if !b.B {
			panic(&Diverge{})
		}
		return VUnit{}
	}}
	prims["control.impl.Assert"] = &Prim{1, func(in *Interp, th *Thread, a []Val) Val {
		b, ok := a[0].(VBool)
		if !ok {
			stuck("Assert of non-bool")
		}
		if !b.B {
			stuck("Assert #false")
		}
		return VUnit{}
	}}
	prims["control.impl.Exit"] = &Prim{1, func(in *Interp, th *Thread, a []Val) Val {
		unsupported("Exit")
		return nil
	}}
	// ------------------------------------------------------------ time / random
	prims["time.Sleep"] = &Prim{1, func(in *Interp, th *Thread, a []Val) Val { asInt(a[0], "time.Sleep"); return VUnit{} }}
	prims["time.TimeNow"] = &Prim{1, func(in *Interp, th *Thread, a []Val) Val { return VInt{uint64(in.Steps)} }}
	prims["rand.RandomUint64"] = &Prim{1, func(in *Interp, th *Thread, a []Val) Val { return VInt{uint64(in.Steps) * 0x9E3779B97F4A7C15} }}
	// ------------------------------------------------------------ disk
	prims["disk.BlockSize"] = &Prim{0, func(in *Interp, th *Thread, a []Val) Val { return VInt{4096} }}
	prims["disk.Get"] = &Prim{1, func(in *Interp, th *Thread, a []Val) Val { return VUnit{} }}
	prims["disk.Size"] = &Prim{1, func(in *Interp, th *Thread, a []Val) Val { return VInt{uint64(len(in.Disk))} }}
	prims["disk.Barrier"] = &Prim{1, func(in *Interp, th *Thread, a []Val) Val { return VUnit{} }}
	prims["disk.Read"] = &Prim{1, func(in *Interp, th *Thread, a []Val) Val {
		addr := asInt(a[0], "disk.Read")
		if addr >= uint64(len(in.Disk)) {
			stuck("disk.Read out of bounds")
		}
		cells := make([]Val, 4096)
		blk := in.Disk[addr]
		for i := range cells {
			if blk != nil {
				cells[i] = VU8{blk[i]}
			} else {
				cells[i] = VU8{0}
			}
		}
		return mkSlice(in.alloc(cells), 4096, 4096)
	}}
	prims["disk.Write"] = &Prim{2, func(in *Interp, th *Thread, a []Val) Val {
		addr := asInt(a[0], "disk.Write")
		p, n, _ := asSlice(a[1], "disk.Write")
		if addr >= uint64(len(in.Disk)) {
			stuck("disk.Write out of bounds")
		}
		if n != 4096 {
			stuck("disk.Write of a %d-byte buffer", n)
		}
		blk := make([]byte, 4096)
		for i := 0; i < 4096; i++ {
			c, ok := (*in.cell(th, locAdd(p, i), false)).(VU8)
			if !ok {
				stuck("disk.Write: element is not a byte")
			}
			blk[i] = c.N
		}
		in.Disk[addr] = blk
		return VUnit{}
	}}
	// locks, condition variables, wait groups: sched.go
	initSyncPrims()
}

// evalSpecial handles library forms whose arguments are not all ordinary expressions.
func (in *Interp) evalSpecial(th *Thread, name string, e App, env *Env, scope int) (Val, bool) {
	switch name {
	case "Fork":
		if len(e.Args) != 1 {
			stuck("Fork expects one argument")
		}
		in.fork(th, e.Args[0], env, scope)
		return VUnit{}, true
	case "ForSlice":
		if len(e.Args) < 5 {
			stuck("ForSlice expects 5 arguments")
		}
		binderName := func(x Expr) string {
			switch b := x.(type) {
			case Var:
				return b.Name
			case Global:
				if b.Name == "<>" {
					return ""
				}
			}
			stuck("ForSlice: malformed binder")
			return ""
		}
		kn, vn := binderName(e.Args[1]), binderName(e.Args[2])
		s := in.eval(th, e.Args[3], env, scope)
		t := in.evalType(th, e.Args[0], env, scope)
		p, n, _ := asSlice(s, "ForSlice")
		sz := tySize(t)
		for i := uint64(0); i < n; i++ {
			in.tick()
			in.tick()
			x := in.loadTy(th, t, locAdd(p, int(i)*sz))
			env2 := env.bind(kn, VInt{i}).bind(vn, x)
			in.eval(th, e.Args[4], env2, scope)
		}
		var res Val = VUnit{}
		if len(e.Args) > 5 {
			stuck("ForSlice result applied to arguments")
		}
		return res, true
	}
	if pos, ok := stringArg[name]; ok && len(e.Args) > pos {
		args := make([]Val, len(e.Args))
		for i := len(e.Args) - 1; i >= 0; i-- {
			if i == pos {
				v, ok := e.Args[i].(Var)
				if !ok {
					stuck("%s: argument %d must be a string literal", name, i)
				}
				args[i] = VStr{v.Name}
				continue
			}
			args[i] = in.eval(th, e.Args[i], env, scope)
		}
		f := in.eval(th, e.Fn, env, scope)
		return in.apply(th, f, args), true
	}
	return nil, false
}

// LibraryArity returns the number of arguments (type arguments included) a GooseLang library
// function takes, for the arity monitor of C05.
func LibraryArity(name string) (int, bool) {
	if name == "ForSlice" {
		return 5, true
	}
	if name == "Fork" {
		return 1, true
	}
	p, ok := prims[name]
	if !ok || p.Arity == 0 {
		return 0, false
	}
	return p.Arity, true
}

// WalkExpr calls f on every sub-expression of e.
func WalkExpr(e Expr, f func(Expr)) {
	if e == nil {
		return
	}
	f(e)
	switch e := e.(type) {
	case Paren:
		WalkExpr(e.X, f)
	case App:
		WalkExpr(e.Fn, f)
		for _, a := range e.Args {
			WalkExpr(a, f)
		}
	case BinOp:
		WalkExpr(e.L, f)
		WalkExpr(e.R, f)
	case Not:
		WalkExpr(e.X, f)
	case Load:
		WalkExpr(e.Ty, f)
		WalkExpr(e.X, f)
	case Store:
		WalkExpr(e.Ty, f)
		WalkExpr(e.Dst, f)
		WalkExpr(e.Val, f)
	case Let:
		WalkExpr(e.Val, f)
		WalkExpr(e.Body, f)
	case Seq:
		WalkExpr(e.A, f)
		WalkExpr(e.B, f)
	case If:
		WalkExpr(e.C, f)
		WalkExpr(e.T, f)
		WalkExpr(e.E, f)
	case Lam:
		WalkExpr(e.Body, f)
	case Rec:
		WalkExpr(e.Body, f)
	case For:
		WalkExpr(e.Cond, f)
		WalkExpr(e.Post, f)
		WalkExpr(e.Body, f)
	case Tuple:
		for _, x := range e.Elems {
			WalkExpr(x, f)
		}
	case FieldVals:
		for _, x := range e.Vals {
			WalkExpr(x, f)
		}
	case FieldTys:
		for _, x := range e.Tys {
			WalkExpr(x, f)
		}
	case Scoped:
		WalkExpr(e.X, f)
	}
}
