package gl

import (
	"os"
	"path/filepath"
	"testing"
)

func TestGoldFilesParse(t *testing.T) {
	var files []string
	filepath.Walk("/repo", func(p string, info os.FileInfo, err error) error {
		if err == nil && filepath.Ext(p) == ".v" {
			files = append(files, p)
		}
		return nil
	})
	if len(files) < 10 {
		t.Fatalf("found only %d .v files", len(files))
	}
	for _, f := range files {
		b, _ := os.ReadFile(f)
		pf, err := ParseFile(string(b))
		if err != nil {
			t.Errorf("%s: %v", f, err)
			continue
		}
		t.Logf("%s: %d items, %d defs, %d comments", f, len(pf.Items), len(pf.Defs()), len(pf.Comments))
	}
}
