package gl

import (
	"fmt"
	"strconv"
)

// parse.go: parser for the vernacular sentences and the GooseLang expression
// notations goose prints, using the notation levels of Perennial's
// goose_lang/notation.v and Coq's defaults:
//   # 8; ! and ![t] 9 (right); application 10 (left); `quot` `rem` ≪ ≫ 35;
//   * && `and` `or` `xor` 40; + - || 50; = ≠ < ≤ > ≥ 70 (non-assoc); ~ 75;
//   <- and <-[t] 80; -> 99 (right); ;; 100 (rhs at 200); let: if: λ: rec: for: 200.

type ParseError struct {
	Line int
	Pos  int
	Msg  string
}

func (e *ParseError) Error() string { return fmt.Sprintf("line %d: %s", e.Line, e.Msg) }

type parser struct {
	toks []Token
	i    int
	src  string
}

func (p *parser) peek() Token { return p.toks[p.i] }
func (p *parser) next() Token {
	t := p.toks[p.i]
	if t.Kind != TEOF {
		p.i++
	}
	return t
}

func (p *parser) fail(format string, args ...interface{}) {
	t := p.peek()
	panic(&ParseError{Line: t.Line, Pos: t.Pos, Msg: fmt.Sprintf(format, args...) + fmt.Sprintf(" (at %s)", t.String())})
}

func (p *parser) isSym(s string) bool {
	t := p.peek()
	return t.Kind == TSym && t.Text == s
}

func (p *parser) isIdent(s string) bool {
	t := p.peek()
	return t.Kind == TIdent && t.Text == s
}

func (p *parser) expectSym(s string) {
	if !p.isSym(s) {
		p.fail("expected %q", s)
	}
	p.next()
}

func (p *parser) expectIdentText(s string) {
	if !p.isIdent(s) {
		p.fail("expected %q", s)
	}
	p.next()
}

func (p *parser) expectTerm() {
	if p.peek().Kind != TTerm {
		p.fail("expected end of sentence '.'")
	}
	p.next()
}

func (p *parser) ident() string {
	t := p.peek()
	if t.Kind != TIdent {
		p.fail("expected identifier")
	}
	p.next()
	return t.Text
}

// ParseFile lexes and parses an emitted .v file.
func ParseFile(src string) (f *File, err error) {
	toks, comments, lerr := Lex(src)
	if lerr != nil {
		return nil, lerr
	}
	p := &parser{toks: toks, src: src}
	f = &File{Comments: comments, Src: src}
	defer func() {
		if r := recover(); r != nil {
			if pe, ok := r.(*ParseError); ok {
				err = pe
				return
			}
			panic(r)
		}
	}()
	for p.peek().Kind != TEOF {
		f.Items = append(f.Items, p.sentence())
	}
	return f, nil
}

// ParseExprString parses a single expression (for tests).
func ParseExprString(src string) (e Expr, err error) {
	toks, _, lerr := Lex(src)
	if lerr != nil {
		return nil, lerr
	}
	p := &parser{toks: toks, src: src}
	defer func() {
		if r := recover(); r != nil {
			if pe, ok := r.(*ParseError); ok {
				err = pe
				return
			}
			panic(r)
		}
	}()
	e = p.expr200()
	if p.peek().Kind != TEOF {
		p.fail("trailing tokens after expression")
	}
	return e, nil
}

func (p *parser) skipToTerm() {
	depth := 0
	for {
		t := p.peek()
		if t.Kind == TEOF {
			p.fail("unterminated sentence")
		}
		if t.Kind == TSym && (t.Text == "(" || t.Text == "{" || t.Text == "[") {
			depth++
		}
		if t.Kind == TSym && (t.Text == ")" || t.Text == "}" || t.Text == "]") {
			depth--
			if depth < 0 {
				p.fail("unbalanced closing delimiter in sentence")
			}
		}
		if t.Kind == TTerm {
			if depth != 0 {
				p.fail("sentence ends inside an open delimiter")
			}
			p.next()
			return
		}
		p.next()
	}
}

func (p *parser) sentence() Item {
	t := p.peek()
	it := Item{Pos: t.Pos, Line: t.Line}
	if t.Kind != TIdent {
		p.fail("expected a vernacular command")
	}
	switch t.Text {
	case "From":
		p.next()
		it.Kind = "require"
		it.From = p.ident()
		p.expectIdentText("Require")
		if p.isIdent("Import") {
			p.next()
			it.Import = true
		}
		it.Path = p.ident()
		p.expectTerm()
	case "Section":
		p.next()
		it.Kind = "section"
		it.Name = p.ident()
		p.expectTerm()
	case "End":
		p.next()
		it.Kind = "end"
		it.Name = p.ident()
		p.expectTerm()
	case "Context":
		p.next()
		it.Kind = "context"
		p.skipToTerm()
	case "Local":
		p.next()
		it.Kind = "coercion"
		p.expectIdentText("Coercion")
		p.skipToTerm()
	case "Theorem", "Lemma":
		p.next()
		it.Kind = "theorem"
		it.Name = p.ident()
		p.skipToTerm()
	case "Proof":
		p.next()
		it.Kind = "proof"
		p.expectTerm()
		// tactic sentences up to Qed.
		for {
			if p.peek().Kind == TEOF {
				p.fail("Proof without Qed")
			}
			if p.isIdent("Qed") || p.isIdent("Defined") {
				p.next()
				p.expectTerm()
				break
			}
			p.skipToTerm()
		}
	case "Hint":
		p.next()
		it.Kind = "hint"
		p.skipToTerm()
	case "Notation":
		p.next()
		it.Kind = "notation"
		it.Name = p.ident()
		p.expectSym(":=")
		it.Body = p.arg()
		p.expectSym("(")
		p.expectIdentText("only")
		p.expectIdentText("parsing")
		p.expectSym(")")
		p.expectTerm()
	case "Definition":
		p.next()
		it.Kind = "def"
		if t := p.peek(); t.Kind == TIdent && CoqReserved[t.Text] {
			p.fail("%q is a reserved word of Coq and cannot be the name of a definition", t.Text)
		}
		if t := p.peek(); t.Kind == TIdent && t.Text == "_" {
			p.fail("_ is not an identifier a definition can have")
		}
		it.Name = p.ident()
		for p.isSym("(") {
			p.next()
			tp := p.ident()
			p.expectSym(":")
			p.expectIdentText("ty")
			p.expectSym(")")
			it.TypeParams = append(it.TypeParams, tp)
		}
		it.DefKind = "other"
		if p.isSym(":") {
			p.next()
			it.DefKind = p.ident()
		}
		p.expectSym(":=")
		it.Body = p.expr200()
		if it.DefKind == "other" {
			if a, ok := it.Body.(App); ok {
				if g, ok := a.Fn.(Global); ok && g.Name == "struct.decl" {
					it.DefKind = "struct"
				}
			}
		}
		p.expectTerm()
	default:
		p.fail("unknown vernacular command %q", t.Text)
	}
	it.End = p.toks[p.i-1].Pos + 1
	return it
}

// ---------------------------------------------------------------- expressions

// CoqReserved are identifiers the Coq lexer treats as keywords in terms.
var CoqReserved = map[string]bool{"Set": true, "Prop": true, "Type": true, "SProp": true, "end": true, "exists": true, "exists2": true, "fix": true,
	"cofix": true, "forall": true, "fun": true, "in": true, "let": true, "match": true, "then": true, "with": true, "as": true, "at": true,
	"using": true, "where": true, "if": true, "else": true, "return": true, "for": true, "IF": true}

var keywords = map[string]bool{"in": true, "then": true, "else": true, "with": true, "end": true, "fun": true}

func (p *parser) expr200() Expr {
	t := p.peek()
	if t.Kind == TSym {
		switch t.Text {
		case "let:":
			p.next()
			pat := p.pattern()
			p.expectSym(":=")
			v := p.expr200()
			p.expectIdentText("in")
			b := p.expr200()
			return Let{Pat: pat, Val: v, Body: b}
		case "if:":
			p.next()
			c := p.expr200()
			p.expectIdentText("then")
			a := p.expr200()
			p.expectIdentText("else")
			b := p.expr200()
			return If{C: c, T: a, E: b}
		case "λ:":
			p.next()
			var params []string
			for !p.isSym(",") {
				params = append(params, p.binder())
			}
			if len(params) == 0 {
				p.fail("λ: without binders")
			}
			p.next()
			return Lam{Params: params, Body: p.expr200()}
		case "rec:":
			p.next()
			nt := p.peek()
			if nt.Kind != TString {
				p.fail("rec: expects a quoted name")
			}
			p.next()
			var params []string
			for !p.isSym(":=") {
				params = append(params, p.binder())
			}
			if len(params) == 0 {
				p.fail("rec: without binders")
			}
			p.next()
			return Rec{Name: nt.Text, Params: params, Body: p.expr200()}
		case "for:":
			p.next()
			c := p.level(99)
			p.expectSym(";")
			po := p.level(99)
			p.expectSym(":=")
			b := p.expr200()
			return For{Cond: c, Post: po, Body: b}
		}
	}
	if t.Kind == TIdent && t.Text == "fun" {
		p.next()
		p.next() // binder
		p.expectSym("=>")
		return GallinaFun{Body: p.expr200()}
	}
	a := p.level(99)
	if p.isSym(";;") {
		p.next()
		b := p.expr200()
		return Seq{A: a, B: b}
	}
	return a
}

func (p *parser) binder() string {
	t := p.peek()
	if t.Kind == TString {
		p.next()
		return t.Text
	}
	if t.Kind == TSym && t.Text == "<>" {
		p.next()
		return ""
	}
	p.fail("expected binder (quoted name or <>)")
	return ""
}

func (p *parser) pattern() *Pat {
	if p.isSym("(") {
		p.next()
		l := p.pattern()
		p.expectSym(",")
		r := p.pattern()
		p.expectSym(")")
		return &Pat{L: l, R: r}
	}
	return &Pat{Name: p.binder()}
}

var binLevels = map[string]int{
	"`quot`": 35, "`rem`": 35, "≪": 35, "≫": 35,
	"*": 40, "&&": 40, "`and`": 40, "`or`": 40, "`xor`": 40,
	"+": 50, "-": 50, "||": 50,
	"=": 70, "≠": 70, "<": 70, "≤": 70, ">": 70, "≥": 70,
}

// binop returns the operator at the cursor (joining backquoted names) without consuming it.
func (p *parser) binop() (string, int, int) {
	t := p.peek()
	if t.Kind != TSym {
		return "", 0, 0
	}
	if t.Text == "`" {
		if p.i+2 < len(p.toks) && p.toks[p.i+1].Kind == TIdent && p.toks[p.i+2].Kind == TSym && p.toks[p.i+2].Text == "`" {
			op := "`" + p.toks[p.i+1].Text + "`"
			if lv, ok := binLevels[op]; ok {
				return op, lv, 3
			}
		}
		return "", 0, 0
	}
	if lv, ok := binLevels[t.Text]; ok {
		return t.Text, lv, 1
	}
	return "", 0, 0
}

// level parses an expression of at most the given notation level (≤ 99).
func (p *parser) level(n int) Expr {
	if n >= 99 {
		l := p.level(98)
		if p.isSym("->") {
			p.next()
			r := p.level(99)
			return BinOp{Op: "->", L: l, R: r}
		}
		return l
	}
	if n >= 80 {
		l := p.level(79)
		if p.isSym("<-") {
			p.next()
			var ty Expr
			if p.isSym("[") {
				p.next()
				ty = p.expr200()
				p.expectSym("]")
			}
			r := p.level(79)
			return Store{Ty: ty, Dst: l, Val: r}
		}
		return l
	}
	if n >= 75 {
		if p.isSym("~") {
			p.next()
			return Not{X: p.level(75)}
		}
		return p.level(70)
	}
	if n >= 70 {
		l := p.level(69)
		if op, lv, k := p.binop(); op != "" && lv == 70 {
			p.i += k
			r := p.level(69)
			res := BinOp{Op: op, L: l, R: r}
			if op2, lv2, _ := p.binop(); op2 != "" && lv2 == 70 {
				p.fail("comparison operators are non-associative: %s after %s needs parentheses", op2, op)
			}
			return res
		}
		return l
	}
	for _, lv := range []int{50, 40, 35} {
		if n >= lv {
			l := p.level(lv - 1)
			for {
				op, olv, k := p.binop()
				if op == "" || olv != lv {
					break
				}
				p.i += k
				r := p.level(lv - 1)
				l = BinOp{Op: op, L: l, R: r}
			}
			return l
		}
	}
	return p.app()
}

func (p *parser) startsArg() bool {
	t := p.peek()
	switch t.Kind {
	case TString, TNumber:
		return true
	case TIdent:
		return !keywords[t.Text]
	case TSym:
		switch t.Text {
		case "(", "[", "#", "!", "<>":
			return true
		}
	}
	return false
}

func (p *parser) app() Expr {
	if !p.startsArg() {
		p.fail("expected an expression")
	}
	head := p.arg()
	var args []Expr
	for p.startsArg() {
		args = append(args, p.arg())
	}
	if len(args) == 0 {
		return head
	}
	return App{Fn: head, Args: args}
}

func (p *parser) arg() Expr {
	t := p.peek()
	switch t.Kind {
	case TString:
		p.next()
		return Var{Name: t.Text}
	case TNumber:
		p.next()
		n, err := strconv.ParseUint(t.Text, 10, 64)
		if err != nil {
			p.fail("number out of range")
		}
		return Num{N: n}
	case TIdent:
		if keywords[t.Text] {
			p.fail("unexpected keyword")
		}
		p.next()
		return Global{Name: t.Text}
	case TSym:
		switch t.Text {
		case "<>":
			p.next()
			return Global{Name: "<>"}
		case "!":
			p.next()
			var ty Expr
			if p.isSym("[") {
				p.next()
				ty = p.expr200()
				p.expectSym("]")
			}
			return Load{Ty: ty, X: p.arg()}
		case "#":
			return p.literal()
		case "(":
			p.next()
			if p.isSym(")") {
				p.fail("empty parentheses")
			}
			e := p.expr200()
			var res Expr
			if p.isSym(",") {
				elems := []Expr{e}
				for p.isSym(",") {
					p.next()
					elems = append(elems, p.expr200())
				}
				res = Tuple{Elems: elems}
			} else {
				res = Paren{X: e}
			}
			p.expectSym(")")
			if p.isSym("%") {
				p.next()
				sc := p.ident()
				return Scoped{X: res, Scope: sc}
			}
			return res
		case "[":
			return p.list()
		}
	}
	p.fail("expected an atom")
	return nil
}

func (p *parser) list() Expr {
	p.expectSym("[")
	if p.isSym("]") {
		p.next()
		return FieldVals{}
	}
	var names []string
	var vals []Expr
	kind := ""
	for {
		t := p.peek()
		if t.Kind != TString {
			p.fail("expected a quoted field name in list")
		}
		p.next()
		var k string
		if p.isSym("::=") {
			k = "::="
		} else if p.isSym("::") {
			k = "::"
		} else {
			p.fail("expected ::= or :: after field name")
		}
		if kind != "" && kind != k {
			p.fail("mixed :: and ::= in one list")
		}
		kind = k
		p.next()
		names = append(names, t.Text)
		if k == "::=" {
			// `f ::= v` is declared at level 60 (goose_lang/struct): its right operand is read at level 59, so a
			// comparison (level 70), a store or a sequence as the value needs its own parentheses; let:/if:/λ:
			// (level 200) are always printed parenthesised
			vals = append(vals, p.level(59))
		} else {
			vals = append(vals, p.expr200())
		}
		if p.isSym(";") {
			p.next()
			continue
		}
		break
	}
	p.expectSym("]")
	if kind == "::" {
		return FieldTys{Names: names, Tys: vals}
	}
	return FieldVals{Names: names, Vals: vals}
}

func (p *parser) literal() Expr {
	p.expectSym("#")
	t := p.peek()
	switch t.Kind {
	case TNumber:
		p.next()
		n, err := strconv.ParseUint(t.Text, 10, 64)
		if err != nil {
			p.fail("integer literal out of 64-bit range")
		}
		return Lit{Kind: "int", N: n}
	case TIdent:
		switch t.Text {
		case "true":
			p.next()
			return Lit{Kind: "bool", B: true}
		case "false":
			p.next()
			return Lit{Kind: "bool", B: false}
		case "null":
			p.next()
			return Lit{Kind: "null"}
		}
		p.fail("unknown literal")
	case TSym:
		if t.Text == "(" {
			p.next()
			if p.isSym(")") {
				p.next()
				return Lit{Kind: "unit"}
			}
			k := p.ident()
			switch k {
			case "U32", "U8":
				nt := p.peek()
				if nt.Kind != TNumber {
					p.fail("expected number in #(%s n)", k)
				}
				p.next()
				n, err := strconv.ParseUint(nt.Text, 10, 64)
				if err != nil {
					p.fail("number out of range")
				}
				p.expectSym(")")
				if k == "U32" {
					if n > 0xFFFFFFFF {
						p.fail("U32 literal out of range")
					}
					return Lit{Kind: "u32", N: n}
				}
				if n > 0xFF {
					p.fail("U8 literal out of range")
				}
				return Lit{Kind: "u8", N: n}
			case "str":
				st := p.peek()
				if st.Kind != TString {
					p.fail("expected string in #(str ...)")
				}
				p.next()
				p.expectSym(")")
				return Lit{Kind: "str", S: st.Text}
			}
			p.fail("unknown literal constructor %q", k)
		}
	}
	p.fail("malformed # literal")
	return nil
}
