package gl

import (
	"fmt"
	"sort"
	"strconv"
	"strings"
)

// decode.go: type-directed decoding of GooseLang results into the canonical
// strings the Go-side runner prints. The type descriptor comes from the Go
// side (reflection on the case function's result), so a literal of the wrong
// kind (e.g. a 64-bit literal where Go has uint32) is a mismatch.
//
// descriptor grammar:  u64 | u32 | u8 | bool | string | unit | []T | *T |
//                      {name:T,...} | (T,T,...) | map[K]V | fn

type TDesc struct {
	Kind   string // u64 u32 u8 bool string unit slice ptr struct tuple map fn
	Elem   *TDesc
	Key    *TDesc
	Names  []string
	Elems  []*TDesc
	Source string
}

func ParseTDesc(s string) (*TDesc, error) {
	p := &tdParser{s: s}
	t, err := p.parse()
	if err != nil {
		return nil, err
	}
	if p.i != len(s) {
		return nil, fmt.Errorf("trailing text in type descriptor %q", s)
	}
	return t, nil
}

type tdParser struct {
	s string
	i int
}

func (p *tdParser) has(x string) bool {
	if strings.HasPrefix(p.s[p.i:], x) {
		p.i += len(x)
		return true
	}
	return false
}

func (p *tdParser) parse() (*TDesc, error) {
	start := p.i
	fin := func(t *TDesc) (*TDesc, error) { t.Source = p.s[start:p.i]; return t, nil }
	for _, k := range []string{"u64", "u32", "u8", "bool", "string", "unit", "fn"} {
		if p.has(k) {
			return fin(&TDesc{Kind: k})
		}
	}
	if p.has("[]") {
		e, err := p.parse()
		if err != nil {
			return nil, err
		}
		return fin(&TDesc{Kind: "slice", Elem: e})
	}
	if p.has("*") {
		e, err := p.parse()
		if err != nil {
			return nil, err
		}
		return fin(&TDesc{Kind: "ptr", Elem: e})
	}
	if p.has("map[") {
		k, err := p.parse()
		if err != nil {
			return nil, err
		}
		if !p.has("]") {
			return nil, fmt.Errorf("expected ] in %q", p.s)
		}
		v, err := p.parse()
		if err != nil {
			return nil, err
		}
		return fin(&TDesc{Kind: "map", Key: k, Elem: v})
	}
	if p.has("{") {
		t := &TDesc{Kind: "struct"}
		for !p.has("}") {
			j := strings.IndexByte(p.s[p.i:], ':')
			if j < 0 {
				return nil, fmt.Errorf("expected field name in %q", p.s)
			}
			t.Names = append(t.Names, p.s[p.i:p.i+j])
			p.i += j + 1
			e, err := p.parse()
			if err != nil {
				return nil, err
			}
			t.Elems = append(t.Elems, e)
			p.has(",")
		}
		return fin(t)
	}
	if p.has("(") {
		t := &TDesc{Kind: "tuple"}
		for !p.has(")") {
			e, err := p.parse()
			if err != nil {
				return nil, err
			}
			t.Elems = append(t.Elems, e)
			p.has(",")
		}
		return fin(t)
	}
	return nil, fmt.Errorf("bad type descriptor at %q", p.s[p.i:])
}

func (t *TDesc) cells() int {
	switch t.Kind {
	case "unit":
		return 0
	case "slice":
		return 3
	case "struct", "tuple":
		n := 0
		for _, e := range t.Elems {
			n += e.cells()
		}
		return n
	}
	return 1
}

// toType converts a descriptor into the interpreter's type (for typed loads).
func (t *TDesc) toType() *Type {
	switch t.Kind {
	case "u64":
		return &Type{Kind: "uint64"}
	case "u32":
		return &Type{Kind: "uint32"}
	case "u8":
		return &Type{Kind: "byte"}
	case "bool":
		return &Type{Kind: "bool"}
	case "string":
		return &Type{Kind: "string"}
	case "unit":
		return &Type{Kind: "unit"}
	case "slice":
		return &Type{Kind: "slice", Elem: t.Elem.toType()}
	case "struct":
		d := &VDesc{Name: "<go struct>"}
		for i, n := range t.Names {
			d.Fields = append(d.Fields, n)
			d.Tys = append(d.Tys, t.Elems[i].toType())
		}
		return &Type{Kind: "struct", Desc: d}
	case "tuple":
		ty := &Type{Kind: "prod"}
		for _, e := range t.Elems {
			ty.Ts = append(ty.Ts, e.toType())
		}
		return ty
	}
	return &Type{Kind: "ptr"}
}

// Decode renders v at type t; depth bounds pointer chasing.
func Decode(in *Interp, v Val, t *TDesc) (string, error) {
	var b strings.Builder
	if err := decode(in, &b, v, t, 0); err != nil {
		return "", err
	}
	return b.String(), nil
}

func decode(in *Interp, b *strings.Builder, v Val, t *TDesc, depth int) error {
	if depth > 6 {
		b.WriteString("…")
		return nil
	}
	mismatch := func() error {
		return fmt.Errorf("GooseLang value %s does not have the shape of Go type %s", ShowVal(v), t.Source)
	}
	switch t.Kind {
	case "u64":
		x, ok := v.(VInt)
		if !ok {
			return mismatch()
		}
		b.WriteString(strconv.FormatUint(x.N, 10))
	case "u32":
		x, ok := v.(VU32)
		if !ok {
			return mismatch()
		}
		b.WriteString(strconv.FormatUint(uint64(x.N), 10))
	case "u8":
		x, ok := v.(VU8)
		if !ok {
			return mismatch()
		}
		b.WriteString(strconv.FormatUint(uint64(x.N), 10))
	case "bool":
		x, ok := v.(VBool)
		if !ok {
			return mismatch()
		}
		b.WriteString(strconv.FormatBool(x.B))
	case "string":
		x, ok := v.(VStr)
		if !ok {
			return mismatch()
		}
		b.WriteString(strconv.Quote(x.S))
	case "unit":
		if _, ok := v.(VUnit); !ok {
			return mismatch()
		}
		b.WriteString("()")
	case "fn":
		switch v.(type) {
		case VClo, VPrim:
			b.WriteString("fn")
		default:
			return mismatch()
		}
	case "tuple":
		// left-nested pairs
		n := len(t.Elems)
		vals := make([]Val, n)
		cur := v
		for i := n - 1; i >= 1; i-- {
			p, ok := cur.(VPair)
			if !ok {
				return mismatch()
			}
			vals[i] = p.B
			cur = p.A
		}
		vals[0] = cur
		b.WriteString("(")
		for i := range vals {
			if i > 0 {
				b.WriteString(", ")
			}
			if err := decode(in, b, vals[i], t.Elems[i], depth+1); err != nil {
				return err
			}
		}
		b.WriteString(")")
	case "struct":
		b.WriteString("{")
		cur := v
		for i, n := range t.Names {
			p, ok := cur.(VPair)
			if !ok {
				return mismatch()
			}
			if i > 0 {
				b.WriteString(" ")
			}
			b.WriteString(n + ":")
			if err := decode(in, b, p.A, t.Elems[i], depth+1); err != nil {
				return err
			}
			cur = p.B
		}
		if _, ok := cur.(VUnit); !ok {
			return mismatch()
		}
		b.WriteString("}")
	case "slice":
		var p VLoc
		var n uint64
		ok := false
		if pr, isP := v.(VPair); isP {
			if q, isQ := pr.A.(VPair); isQ {
				l, o1 := q.A.(VLoc)
				nn, o2 := q.B.(VInt)
				_, o3 := pr.B.(VInt)
				if o1 && o2 && o3 {
					p, n, ok = l, nn.N, true
				}
			}
		}
		if !ok {
			return mismatch()
		}
		if n > 1<<20 {
			return fmt.Errorf("slice of length %d", n)
		}
		b.WriteString("[")
		et := t.Elem.toType()
		sz := tySize(et)
		for i := uint64(0); i < n; i++ {
			if i > 0 {
				b.WriteString(" ")
			}
			var ev Val
			err := catchStuck(func() { ev = in.loadTy(nil, et, locAdd(p, int(i)*sz)) })
			if err != nil {
				return fmt.Errorf("slice element %d unreadable: %v", i, err)
			}
			if err := decode(in, b, ev, t.Elem, depth+1); err != nil {
				return err
			}
		}
		b.WriteString("]")
	case "ptr":
		l, ok := v.(VLoc)
		if !ok {
			return mismatch()
		}
		if l.B == nil {
			b.WriteString("nil")
			return nil
		}
		b.WriteString("&")
		et := t.Elem.toType()
		var ev Val
		err := catchStuck(func() { ev = in.loadTy(nil, et, l) })
		if err != nil {
			return fmt.Errorf("pointer target unreadable: %v", err)
		}
		return decode(in, b, ev, t.Elem, depth+1)
	case "map":
		l, ok := v.(VLoc)
		if !ok {
			return mismatch()
		}
		if l.B == nil {
			b.WriteString("map[]")
			return nil
		}
		if l.Off >= len(l.B.Cells) {
			return mismatch()
		}
		m, ok := l.B.Cells[l.Off].(*VMap)
		if !ok {
			return mismatch()
		}
		var ents []string
		for _, k := range m.Keys {
			var kb, vb strings.Builder
			if err := decode(in, &kb, k, t.Key, depth+1); err != nil {
				return err
			}
			if err := decode(in, &vb, m.M[mapKey(k)], t.Elem, depth+1); err != nil {
				return err
			}
			ents = append(ents, kb.String()+":"+vb.String())
		}
		sort.Strings(ents)
		b.WriteString("map[" + strings.Join(ents, " ") + "]")
	default:
		return fmt.Errorf("unknown descriptor kind %s", t.Kind)
	}
	return nil
}

func catchStuck(f func()) (err error) {
	defer func() {
		if r := recover(); r != nil {
			if s, ok := r.(*Stuck); ok {
				err = s
				return
			}
			panic(r)
		}
	}()
	f()
	return nil
}
