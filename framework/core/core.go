// Package core holds what every property check shares: the run context (tier,
// seed, scratch directory), the evidence writer, the known-findings matcher,
// violation reporting, a deterministic PRNG and helpers to build and run the
// binaries of /repo.
package core

import (
	"bufio"
	"bytes"
	"context"
	"encoding/json"
	"fmt"
	"os"
	"os/exec"
	"path/filepath"
	"sort"
	"strconv"
	"strings"
	"sync"
	"syscall"
	"time"
)

const VerifDir = "/verif"

// RepoDir is the repository under test. VERIF_REPO overrides it for mutation confirmation on
// a scratch copy (translator checks only: the library checks link /repo through go.mod).
var RepoDir = func() string {
	if d := os.Getenv("VERIF_REPO"); d != "" {
		return d
	}
	return "/repo"
}()

// SelfPkg is the main package of the running driver (set by driver.Main), so
// that BuildSelf rebuilds the same binary with other flags.
var SelfPkg = "./cmd/vcheck"

// Run is the context of one check invocation.
type Run struct {
	ID      string
	Tier    string // quick | thorough
	Seed    int64
	Level   string
	Scratch string // fresh temp dir outside /repo and /verif, removed at exit
	Start   time.Time
	Replay  string // non-empty: replay this file instead of the normal workload

	mu         sync.Mutex
	cov        map[string]interface{}
	samples    []interface{}
	distinct   map[string]struct{}
	evals      int64
	inconcl    map[string]int
	assume     []string
	violations []Violation
	knownSeen  map[string]bool
	known      []Finding
	rule       string
}

type Violation struct {
	Sig    string      `json:"sig"`
	What   string      `json:"what"`
	Detail interface{} `json:"detail,omitempty"`
	Path   string      `json:"-"`
}

type Finding struct {
	Kind string // known | fixed
	Prop string
	Sig  string
	What string
}

func NewRun(id, tier string) *Run {
	seed := int64(1)
	if s := os.Getenv("VERIF_SEED"); s != "" {
		if v, err := strconv.ParseInt(s, 10, 64); err == nil {
			seed = v
		}
	}
	ensureDiskSpace()
	scratch, err := os.MkdirTemp("", "verif-"+id+"-")
	if err != nil {
		panic(err)
	}
	r := &Run{ID: id, Tier: tier, Seed: seed, Scratch: scratch, Start: time.Now(),
		cov: map[string]interface{}{}, distinct: map[string]struct{}{},
		inconcl: map[string]int{}, knownSeen: map[string]bool{}}
	r.known = LoadFindings(id)
	return r
}

func (r *Run) Quick() bool { return r.Tier != "thorough" }

// Pick returns q in the quick tier and t in the thorough tier.
func (r *Run) Pick(q, t int) int {
	if r.Quick() {
		return q
	}
	return t
}

func (r *Run) Cleanup() { os.RemoveAll(r.Scratch) }

// ---------------------------------------------------------------- evidence

func (r *Run) SetRule(s string) { r.mu.Lock(); r.rule = s; r.mu.Unlock() }
func (r *Run) Assume(s string)  { r.mu.Lock(); r.assume = append(r.assume, s); r.mu.Unlock() }

// Eval counts one evaluated case.
func (r *Run) Eval(n int) { r.mu.Lock(); r.evals += int64(n); r.mu.Unlock() }

// Distinct records the key of a non-trivial case; distinct_nontrivial is the
// size of the set of keys.
func (r *Run) Distinct(key string) {
	r.mu.Lock()
	if len(r.distinct) < 5_000_000 {
		r.distinct[key] = struct{}{}
	}
	r.mu.Unlock()
}

func (r *Run) DistinctCount() int { r.mu.Lock(); defer r.mu.Unlock(); return len(r.distinct) }
func (r *Run) Evals() int64       { r.mu.Lock(); defer r.mu.Unlock(); return r.evals }

// Sample keeps up to max written-out cases.
func (r *Run) Sample(max int, s interface{}) {
	r.mu.Lock()
	if len(r.samples) < max {
		r.samples = append(r.samples, s)
	}
	r.mu.Unlock()
}

// Count adds n to a named integer counter in coverage.
func (r *Run) Count(key string, n int64) {
	r.mu.Lock()
	v, _ := r.cov[key].(int64)
	r.cov[key] = v + n
	r.mu.Unlock()
}

func (r *Run) GetCount(key string) int64 {
	r.mu.Lock()
	defer r.mu.Unlock()
	v, _ := r.cov[key].(int64)
	return v
}

func (r *Run) Set(key string, v interface{}) { r.mu.Lock(); r.cov[key] = v; r.mu.Unlock() }

// Inconclusive counts one case that could not be decided, by reason.
func (r *Run) Inconclusive(reason string) {
	r.mu.Lock()
	r.inconcl[reason]++
	r.mu.Unlock()
}

func (r *Run) WriteEvidence() error {
	r.mu.Lock()
	defer r.mu.Unlock()
	cov := map[string]interface{}{}
	for k, v := range r.cov {
		cov[k] = v
	}
	cov["evaluations"] = r.evals
	cov["distinct_nontrivial"] = len(r.distinct)
	cov["rule"] = r.rule
	if len(r.samples) == 0 {
		cov["samples"] = []interface{}{}
	} else {
		cov["samples"] = r.samples
	}
	cov["inconclusive_by_reason"] = r.inconcl
	ks := []string{}
	for k := range r.knownSeen {
		ks = append(ks, k)
	}
	sort.Strings(ks)
	cov["known_findings_reproduced"] = ks
	if r.Level == "translation_validation" {
		if _, ok := cov["programs"]; !ok {
			cov["programs"] = r.evals
		}
		if _, ok := cov["disagreements_checked"]; !ok {
			cov["disagreements_checked"] = int64(0)
		}
	}
	ev := map[string]interface{}{
		"property_id": r.ID,
		"tier":        r.Tier,
		"seed":        r.Seed,
		"level":       r.Level,
		"coverage":    cov,
		"assumptions": r.assume,
		"wall_s":      time.Since(r.Start).Seconds(),
		"violations":  len(r.violations),
	}
	if r.assume == nil {
		ev["assumptions"] = []string{}
	}
	b, err := json.MarshalIndent(ev, "", " ")
	if err != nil {
		return err
	}
	dir := filepath.Join(VerifDir, "evidence")
	if RepoDir != "/repo" {
		// a run against a scratch copy (seeded-change confirmation): never overwrite the evidence of /repo
		dir = filepath.Join(VerifDir, "evidence-scratch")
	}
	os.MkdirAll(dir, 0o755)
	return os.WriteFile(filepath.Join(dir, r.ID+".json"), append(b, '\n'), 0o644)
}

// ---------------------------------------------------------------- findings

func LoadFindings(prop string) []Finding {
	f, err := os.Open(filepath.Join(VerifDir, "KNOWN_FINDINGS.txt"))
	if err != nil {
		return nil
	}
	defer f.Close()
	var out []Finding
	sc := bufio.NewScanner(f)
	sc.Buffer(make([]byte, 1<<20), 1<<20)
	for sc.Scan() {
		line := strings.TrimSpace(sc.Text())
		if strings.HasPrefix(line, "known:") {
			rest := strings.TrimSpace(strings.TrimPrefix(line, "known:"))
			parts := strings.SplitN(rest, "::", 2)
			fs := strings.Fields(parts[0])
			fd := Finding{Kind: "known"}
			for _, kv := range fs {
				if strings.HasPrefix(kv, "property=") {
					fd.Prop = strings.TrimPrefix(kv, "property=")
				}
				if strings.HasPrefix(kv, "sig=") {
					fd.Sig = strings.TrimPrefix(kv, "sig=")
				}
			}
			if len(parts) == 2 {
				fd.What = strings.TrimSpace(parts[1])
			}
			if fd.Prop == prop {
				out = append(out, fd)
			}
		}
	}
	return out
}

// IsKnown reports whether sig is listed as a known finding of this property.
func (r *Run) IsKnown(sig string) (Finding, bool) {
	for _, f := range r.known {
		if f.Sig == sig {
			return f, true
		}
	}
	return Finding{}, false
}

// KnownSigs lists the signatures of the known findings of this property.
func (r *Run) KnownSigs() []string {
	var out []string
	for _, f := range r.known {
		out = append(out, f.Sig)
	}
	return out
}

// Violate records a violation with signature sig. If sig is a listed known
// finding it is downgraded to a KNOWN-FINDING line (printed once).
func (r *Run) Violate(sig, what string, detail interface{}) {
	r.mu.Lock()
	defer r.mu.Unlock()
	for _, f := range r.known {
		if f.Sig == sig {
			if !r.knownSeen[sig] {
				r.knownSeen[sig] = true
				fmt.Printf("KNOWN-FINDING: property=%s %s [sig=%s]\n", r.ID, f.What, sig)
			}
			return
		}
	}
	for _, v := range r.violations {
		if v.Sig == sig {
			return
		}
	}
	v := Violation{Sig: sig, What: what, Detail: detail}
	dir := filepath.Join(VerifDir, "replay")
	os.MkdirAll(dir, 0o755)
	name := fmt.Sprintf("%s-%s-%d.json", r.ID, sanitize(sig), len(r.violations))
	v.Path = filepath.Join(dir, name)
	b, _ := json.MarshalIndent(map[string]interface{}{
		"property": r.ID, "tier": r.Tier, "seed": r.Seed, "sig": sig, "what": what, "detail": detail,
	}, "", " ")
	os.WriteFile(v.Path, b, 0o644)
	r.violations = append(r.violations, v)
	if len(r.violations) <= 20 {
		fmt.Printf("VIOLATION property=%s replay=%s\n", r.ID, v.Path)
		fmt.Printf("  what: %s\n  sig: %s\n", oneLine(what, 600), sig)
	}
}

func (r *Run) NumViolations() int { r.mu.Lock(); defer r.mu.Unlock(); return len(r.violations) }

func oneLine(s string, max int) string {
	s = strings.ReplaceAll(s, "\n", " ⏎ ")
	if len(s) > max {
		s = s[:max] + "…"
	}
	return s
}

func sanitize(s string) string {
	var b strings.Builder
	for _, c := range s {
		switch {
		case c >= 'a' && c <= 'z', c >= 'A' && c <= 'Z', c >= '0' && c <= '9', c == '-', c == '_':
			b.WriteRune(c)
		default:
			b.WriteByte('_')
		}
		if b.Len() > 60 {
			break
		}
	}
	return b.String()
}

// Finish writes the evidence and returns the process exit code.
// floorOK=false means the run observed too little to say anything.
func (r *Run) Finish(floorOK bool, floorMsg string) int {
	if err := r.WriteEvidence(); err != nil {
		fmt.Fprintln(os.Stderr, "evidence:", err)
		return 2
	}
	r.mu.Lock()
	nv := len(r.violations)
	inc := 0
	for _, v := range r.inconcl {
		inc += v
	}
	r.mu.Unlock()
	fmt.Printf("%s %s seed=%d: evaluations=%d distinct=%d inconclusive=%d violations=%d wall=%.1fs\n",
		r.ID, r.Tier, r.Seed, r.evals, len(r.distinct), inc, nv, time.Since(r.Start).Seconds())
	if nv > 0 {
		return 1
	}
	if !floorOK {
		fmt.Printf("INCONCLUSIVE property=%s %s\n", r.ID, floorMsg)
		return 3
	}
	return 0
}

// ---------------------------------------------------------------- PRNG

// Rng is splitmix64: the case list is a function of the seed only.
type Rng struct{ s uint64 }

func NewRng(seed int64, stream string) *Rng {
	h := uint64(seed)*0x9E3779B97F4A7C15 + 0x1234567
	for _, c := range []byte(stream) {
		h = (h ^ uint64(c)) * 0x100000001B3
	}
	r := &Rng{s: h}
	r.U64()
	return r
}

func (r *Rng) U64() uint64 {
	r.s += 0x9E3779B97F4A7C15
	z := r.s
	z = (z ^ (z >> 30)) * 0xBF58476D1CE4E5B9
	z = (z ^ (z >> 27)) * 0x94D049BB133111EB
	return z ^ (z >> 31)
}

func (r *Rng) Intn(n int) int {
	if n <= 0 {
		return 0
	}
	return int(r.U64() % uint64(n))
}

func (r *Rng) Bool() bool         { return r.U64()&1 == 1 }
func (r *Rng) Chance(p int) bool  { return r.Intn(100) < p } // p percent
func (r *Rng) Fork(s string) *Rng { return NewRng(int64(r.U64()), s) }

func (r *Rng) Bytes(n int) []byte {
	b := make([]byte, n)
	for i := 0; i < n; i += 8 {
		v := r.U64()
		for j := 0; j < 8 && i+j < n; j++ {
			b[i+j] = byte(v >> (8 * j))
		}
	}
	return b
}

// ---------------------------------------------------------------- exec helpers

func GoEnv() []string {
	env := os.Environ()
	env = append(env, "GOFLAGS=-mod=mod", "GOPROXY=off", "GOSUMDB=off", "GOTOOLCHAIN=local", "CGO_ENABLED=1")
	return env
}

type ExecResult struct {
	Stdout, Stderr string
	Code           int  // exit status; -1 if killed by signal
	Signaled       bool // terminated by a signal
	TimedOut       bool
	Err            error
}

// Exec runs a command with a watchdog. A fired watchdog is reported through
// TimedOut and is never by itself a violation.
func Exec(dir string, env []string, timeout time.Duration, stdin string, name string, args ...string) ExecResult {
	ctx, cancel := context.WithTimeout(context.Background(), timeout)
	defer cancel()
	cmd := exec.CommandContext(ctx, name, args...)
	cmd.Dir = dir
	if env != nil {
		cmd.Env = env
	}
	if stdin != "" {
		cmd.Stdin = strings.NewReader(stdin)
	}
	var so, se bytes.Buffer
	cmd.Stdout = &so
	cmd.Stderr = &se
	cmd.WaitDelay = 5 * time.Second
	err := cmd.Run()
	res := ExecResult{Stdout: so.String(), Stderr: se.String(), Err: err}
	if ctx.Err() == context.DeadlineExceeded {
		res.TimedOut = true
	}
	if cmd.ProcessState != nil {
		res.Code = cmd.ProcessState.ExitCode()
		if res.Code == -1 {
			res.Signaled = true
		}
	} else if err != nil {
		res.Code = -2
	}
	return res
}

// GoBuild builds a package of dir into out; extra are build flags (-race, -cover...).
func GoBuild(dir, out, pkg string, extra ...string) error {
	args := append([]string{"build"}, extra...)
	args = append(args, "-o", out, pkg)
	res := Exec(dir, GoEnv(), 10*time.Minute, "", "go", args...)
	if res.Code != 0 {
		return fmt.Errorf("go build %s in %s failed: %s%s", pkg, dir, res.Stdout, res.Stderr)
	}
	return nil
}

// BuildGoose builds cmd/goose of /repo's working tree.
func (r *Run) BuildGoose(extra ...string) (string, error) {
	// VERIF_GOOSE_BIN substitutes a pre-built binary (used only to measure which statements of
	// the translator the workloads reach, with a -cover build; registered commands never set it)
	if b := os.Getenv("VERIF_GOOSE_BIN"); b != "" && len(extra) == 0 {
		return b, nil
	}
	name := "goose"
	for _, e := range extra {
		name += strings.ReplaceAll(e, "/", "_")
	}
	out := filepath.Join(r.Scratch, "bin", name)
	if _, err := os.Stat(out); err == nil {
		return out, nil
	}
	os.MkdirAll(filepath.Dir(out), 0o755)
	return out, GoBuild(RepoDir, out, "./cmd/goose", extra...)
}

func (r *Run) BuildTestGen() (string, error) {
	out := filepath.Join(r.Scratch, "bin", "test_gen")
	os.MkdirAll(filepath.Dir(out), 0o755)
	return out, GoBuild(RepoDir, out, "./cmd/test_gen")
}

// BuildSelf builds this framework's vcheck (which links /repo's library
// packages through the replace directive) with extra flags, e.g. -race.
func (r *Run) BuildSelf(extra ...string) (string, error) {
	name := "vcheck"
	for _, e := range extra {
		name += e
	}
	out := filepath.Join(r.Scratch, "bin", name)
	if _, err := os.Stat(out); err == nil {
		return out, nil
	}
	os.MkdirAll(filepath.Dir(out), 0o755)
	return out, GoBuild(FrameworkDir(), out, SelfPkg, append([]string{"-tags", "verif"}, extra...)...)
}

// FrameworkDir is the module directory of this framework; VERIF_FRAMEWORK
// overrides it (used when developing in a scratch copy).
func FrameworkDir() string {
	if d := os.Getenv("VERIF_FRAMEWORK"); d != "" {
		return d
	}
	return filepath.Join(VerifDir, "framework")
}

// Parallel runs f(i) for i in [0,n) on w workers.
func Parallel(n, w int, f func(i int)) {
	if w < 1 {
		w = 1
	}
	var wg sync.WaitGroup
	ch := make(chan int)
	for k := 0; k < w; k++ {
		wg.Add(1)
		go func() {
			defer wg.Done()
			for i := range ch {
				f(i)
			}
		}()
	}
	for i := 0; i < n; i++ {
		ch <- i
	}
	close(ch)
	wg.Wait()
}

func WriteFile(path, content string) error {
	if err := os.MkdirAll(filepath.Dir(path), 0o755); err != nil {
		return err
	}
	return os.WriteFile(path, []byte(content), 0o644)
}

// ensureDiskSpace: every generated batch is compiled, and the go command keeps each compiled package in its
// build cache for days; a long series of runs fills the disk (135 GB were seen). Before a run starts, a file
// system with less than 25 GB free gets the build cache emptied (the next build recompiles the standard library).
func ensureDiskSpace() {
	var st syscall.Statfs_t
	if err := syscall.Statfs(os.TempDir(), &st); err != nil {
		return
	}
	free := st.Bavail * uint64(st.Bsize)
	if free >= 25<<30 {
		return
	}
	fmt.Fprintf(os.Stderr, "only %d GB free: emptying the go build cache\n", free>>30)
	Exec("", GoEnv(), 10*time.Minute, "", "go", "clean", "-cache")
}
