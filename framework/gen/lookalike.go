package gen

import (
	"fmt"
	"strings"
)

// lookalike.go: whole packages whose NAME (not import path) coincides with a package the translator
// treats specially (FFI packages, machine/primitive, sync, ...), declaring their own types and
// functions under the names of that package's members — with deliberately different behaviour, so that
// a translation that recognises the library by spelling is observable — plus a user package for each
// that imports it and uses the members through the qualified name. (C02: "a user-defined function or
// package that merely shares its name with a builtin or with an FFI package is not given the meaning
// of the supported look-alike".)

// LookalikeNames are the package names tried.
var LookalikeNames = []string{"disk", "filesys", "sync", "machine", "primitive", "async_disk", "cfmutex", "grove_ffi", "std", "lock", "log", "fmt", "util", "time", "trusted_disk"}

const lookalikeBody = `
type Disk struct {
	n uint64
}

func (d *Disk) Read(a uint64) uint64 {
	return d.n + a
}

func (d *Disk) Write(a uint64, v uint64) {
	d.n = d.n + a*10 + v
}

func (d *Disk) Size() uint64 {
	return d.n + 1000
}

func (d *Disk) Barrier() {
	d.n = d.n * 2
}

type Mutex struct {
	n uint64
}

func (m *Mutex) Lock() {
	m.n = m.n + 1
}

func (m *Mutex) Unlock() {
	m.n = m.n + 10
}

type CFMutex struct {
	n uint64
}

func (m *CFMutex) Lock() {
	m.n = m.n + 3
}

func (m *CFMutex) Unlock() {
	m.n = m.n + 30
}

type Cond struct {
	k uint64
}

func NewCond(m *Mutex) *Cond {
	return &Cond{k: m.n + 5}
}

func (c *Cond) Signal() {
	c.k = c.k + 1
}

func (c *Cond) Broadcast() {
	c.k = c.k * 2
}

func (c *Cond) Wait() {
	c.k = c.k + 100
}

type WaitGroup struct {
	left uint64
}

func (w *WaitGroup) Add(d uint64) {
	w.left = w.left + d
}

func (w *WaitGroup) Done() {
	w.left = w.left - 1
}

func (w *WaitGroup) Wait() {
	w.left = w.left * 3
}

type File struct {
	pos uint64
}

func Create(v uint64) *File {
	return &File{pos: v + 2}
}

func Open(v uint64) *File {
	return &File{pos: v + 4}
}

func UInt64Put(b []byte, v uint64) {
	b[0] = byte(v + 1)
}

func UInt64Get(b []byte) uint64 {
	return uint64(b[0]) + 7
}

func UInt32Get(b []byte) uint32 {
	return uint32(b[1]) + 9
}

func Assume(c bool) uint64 {
	if c {
		return 1
	}
	return 2
}

func Assert(c bool) uint64 {
	if c {
		return 3
	}
	return 4
}

func RandomUint64() uint64 {
	return 42
}

func UInt64ToString(v uint64) string {
	if v > 5 {
		return "big"
	}
	return "s"
}

func MapClear(m map[uint64]uint64) {
	m[99] = 1
}

func Linearize() uint64 {
	return 17
}

func Sleep(v uint64) uint64 {
	return v + 1
}

func TimeNow() uint64 {
	return 12345
}

func WaitTimeout(c *Cond, v uint64) {
	c.k = c.k + v
}

func Read(a uint64) uint64 {
	return a + 500
}

func Write(a uint64, v uint64) uint64 {
	return a*2 + v
}

func Size() uint64 {
	return 77
}

func Barrier() uint64 {
	return 88
}

func Get() *Disk {
	return &Disk{n: 3}
}

const BlockSize uint64 = 5

func Println(v uint64) uint64 {
	return v + 21
}

func Printf(s string, v uint64) uint64 {
	return v + uint64(len(s))
}

func SumAssumeNoOverflow(a uint64, b uint64) uint64 {
	return a*100 + b
}

func DPrintf(level uint64, v uint64) uint64 {
	return level*7 + v
}

func Total(xs ...uint64) uint64 {
	var t uint64 = 0
	for _, v := range xs {
		t = t + v
	}
	return t
}
`

// lookalikeUses: closed uses of the members, written against a qualifier Q ("" inside the package
// itself, "N." from the importing package).
func lookalikeUses(q string) string {
	u := `func UseDisk(a uint64) uint64 {
	d := &Q:Disk{}
	d.Write(a%7, 3)
	d.Barrier()
	return d.Read(1) + d.Size()
}

func UseGet(a uint64) uint64 {
	d := Q:Get()
	d.Write(1, a%5)
	return d.Size() + Q:Read(a%9) + Q:Write(2, 3) + Q:Size() + Q:Barrier() + Q:BlockSize
}

func UseMutex(a uint64) uint64 {
	m := &Q:Mutex{}
	m.Lock()
	m.Lock()
	m.Unlock()
	c := Q:NewCond(m)
	c.Signal()
	c.Broadcast()
	c.Wait()
	return UseMutexTail(m, c) + a%4
}

func UseMutexNew(a uint64) uint64 {
	m := new(Q:Mutex)
	m.Lock()
	m.Unlock()
	cm := new(Q:CFMutex)
	cm.Lock()
	cm.Unlock()
	return UseMutexTail(m, Q:NewCond(m)) + UseCF(cm) + a%3
}

func UseWaitGroup(a uint64) uint64 {
	w := &Q:WaitGroup{}
	w.Add(a%5 + 2)
	w.Done()
	w.Wait()
	return UseWG(w)
}

func UseWaitGroupNew(a uint64) uint64 {
	w := new(Q:WaitGroup)
	w.Add(a%5 + 2)
	w.Done()
	w.Wait()
	return UseWG(w)
}

func UseFile(a uint64) uint64 {
	f := Q:Create(a % 11)
	g := Q:Open(a % 13)
	return UseF(f) + UseF(g)*100
}

func UsePut(a uint64) uint64 {
	b := make([]byte, 8)
	Q:UInt64Put(b, a%50)
	return uint64(b[0]) + uint64(b[1])*256
}

func UseGet64(a uint64) uint64 {
	b := make([]byte, 8)
	b[0] = byte(a % 100)
	b[1] = 3
	return Q:UInt64Get(b) + uint64(Q:UInt32Get(b))*1000
}

func UseAssume(a uint64) uint64 {
	return Q:Assume(a > 3)*10 + Q:Assert(a > 200)
}

func UseRandom(a uint64) uint64 {
	return Q:RandomUint64() + a%2
}

func UseToString(a uint64) uint64 {
	return uint64(len(Q:UInt64ToString(a)))
}

func UseMapClear(a uint64) uint64 {
	mm := make(map[uint64]uint64)
	mm[1] = a
	mm[2] = 2
	Q:MapClear(mm)
	return uint64(len(mm))
}

func UseLinearize(a uint64) uint64 {
	return Q:Linearize() + a%2
}

func UseSleep(a uint64) uint64 {
	return Q:Sleep(a%3) + Q:TimeNow()
}

func UsePrintln(a uint64) uint64 {
	return Q:Println(a % 8)
}

func UsePrintf(a uint64) uint64 {
	return Q:Printf("ab", a%8)
}

func UseDPrintf(a uint64) uint64 {
	return Q:DPrintf(a%8, 5)
}

func UseVariadic(a uint64) uint64 {
	return Q:Total(a%5, 2, 3)
}

func UseSum(a uint64) uint64 {
	return Q:SumAssumeNoOverflow(a%10, 3)
}

func UseWaitTimeout(a uint64) uint64 {
	m := &Q:Mutex{}
	c := Q:NewCond(m)
	Q:WaitTimeout(c, a%4+1)
	return UseMutexTail(m, c)
}
`
	return strings.ReplaceAll(u, "Q:", q)
}

const lookalikeAccessorsIn = `
func UseMutexTail(m *Mutex, c *Cond) uint64 {
	return m.n*1000 + c.k
}

func UseCF(m *CFMutex) uint64 {
	return m.n
}

func UseWG(w *WaitGroup) uint64 {
	return w.left
}

func UseF(f *File) uint64 {
	return f.pos
}
`

var lookalikeUseNames = []string{"UseDisk", "UseGet", "UseMutex", "UseMutexNew", "UseWaitGroup", "UseWaitGroupNew", "UseFile", "UsePut", "UseGet64", "UseAssume", "UseRandom", "UseToString", "UseMapClear", "UseLinearize", "UseSleep", "UsePrintln", "UsePrintf", "UseDPrintf", "UseSum", "UseVariadic", "UseWaitTimeout"}

// LookalikePackages returns, for every look-alike name N, the package N itself (uses from inside the
// package) and a package use_N importing it (uses through the qualified name).
func LookalikePackages(modPath string) []*Package {
	var out []*Package
	args := []uint64{0, 3, 8, 255, 4294967296}
	for _, n := range LookalikeNames {
		var b strings.Builder
		fmt.Fprintf(&b, "package %s\n%s%s\n", n, lookalikeBody, lookalikeAccessorsIn)
		// exported accessors for the importing package
		b.WriteString("func MutexTail(m *Mutex, c *Cond) uint64 {\n\treturn UseMutexTail(m, c)\n}\n\nfunc CFn(m *CFMutex) uint64 {\n\treturn m.n\n}\n\nfunc WGLeft(w *WaitGroup) uint64 {\n\treturn w.left\n}\n\nfunc FPos(f *File) uint64 {\n\treturn f.pos\n}\n\n")
		b.WriteString(lookalikeUses(""))
		var cases []string
		uses := lookalikeUseNames
		_ = []string{"UseDisk", "UseGet", "UseMutex", "UseMutexNew", "UseWaitGroup", "UseWaitGroupNew", "UseFile", "UsePut", "UseGet64", "UseAssume", "UseRandom", "UseToString", "UseMapClear", "UseLinearize", "UseSleep", "UsePrintln", "UsePrintf", "UseDPrintf", "UseSum", "UseVariadic", "UseWaitTimeout"}
		for _, u := range uses {
			for i, v := range args {
				cn := fmt.Sprintf("case_%s_%d", u, i)
				fmt.Fprintf(&b, "\nfunc %s() uint64 {\n\treturn %s(%d)\n}\n", cn, u, v)
				cases = append(cases, cn)
			}
		}
		out = append(out, &Package{Name: n, Source: b.String(), Cases: cases, Features: map[string]int{"lookalike-package-" + n: 1}})

		var ub strings.Builder
		un := "use_" + n
		fmt.Fprintf(&ub, "package %s\n\nimport \"%s/cases/%s\"\n\n", un, modPath, n)
		uu := lookalikeUses(n + ".")
		uu = strings.ReplaceAll(uu, "UseMutexTail(m, c)", n+".MutexTail(m, c)")
		uu = strings.ReplaceAll(uu, "UseMutexTail(m, "+n+".NewCond(m))", n+".MutexTail(m, "+n+".NewCond(m))")
		uu = strings.ReplaceAll(uu, "UseCF(cm)", n+".CFn(cm)")
		uu = strings.ReplaceAll(uu, "UseWG(w)", n+".WGLeft(w)")
		uu = strings.ReplaceAll(uu, "UseF(f)", n+".FPos(f)")
		uu = strings.ReplaceAll(uu, "UseF(g)", n+".FPos(g)")
		ub.WriteString(uu)
		var ucases []string
		for _, u := range uses {
			for i, v := range args {
				cn := fmt.Sprintf("case_%s_%d", u, i)
				fmt.Fprintf(&ub, "\nfunc %s() uint64 {\n\treturn %s(%d)\n}\n", cn, u, v)
				ucases = append(ucases, cn)
			}
		}
		out = append(out, &Package{Name: un, Source: ub.String(), Cases: ucases, Features: map[string]int{"lookalike-import-" + n: 1}})
	}
	// the same uses through an import ALIAS that coincides with a special name: the imported package is the
	// user package std, renamed at the import (import sync "example.com/.../cases/std")
	for _, n := range LookalikeNames {
		if n == "std" {
			continue
		}
		var ub strings.Builder
		un := "useas_" + n
		fmt.Fprintf(&ub, "package %s\n\nimport %s \"%s/cases/std\"\n\n", un, n, modPath)
		uu := lookalikeUses(n + ".")
		uu = strings.ReplaceAll(uu, "UseMutexTail(m, c)", n+".MutexTail(m, c)")
		uu = strings.ReplaceAll(uu, "UseMutexTail(m, "+n+".NewCond(m))", n+".MutexTail(m, "+n+".NewCond(m))")
		uu = strings.ReplaceAll(uu, "UseCF(cm)", n+".CFn(cm)")
		uu = strings.ReplaceAll(uu, "UseWG(w)", n+".WGLeft(w)")
		uu = strings.ReplaceAll(uu, "UseF(f)", n+".FPos(f)")
		uu = strings.ReplaceAll(uu, "UseF(g)", n+".FPos(g)")
		ub.WriteString(uu)
		var ucases []string
		for _, u := range lookalikeUseNames {
			for i, v := range args {
				cn := fmt.Sprintf("case_%s_%d", u, i)
				fmt.Fprintf(&ub, "\nfunc %s() uint64 {\n\treturn %s(%d)\n}\n", cn, u, v)
				ucases = append(ucases, cn)
			}
		}
		out = append(out, &Package{Name: un, Source: ub.String(), Cases: ucases, Features: map[string]int{"lookalike-alias-" + n: 1}})
	}
	out = append(out, &Package{Name: "alias_real", Source: aliasRealSrc, Cases: []string{"case_AliasPut_0", "case_AliasLock_0", "case_AliasDisk_0", "case_AliasString_0"}, Features: map[string]int{"renamed-import-of-the-library": 1}})
	return out
}

// aliasRealSrc: the real library packages imported under other names.
const aliasRealSrc = `package alias_real

import (
	s "sync"

	m "github.com/goose-lang/goose/machine"
	d "github.com/goose-lang/goose/machine/disk"
)

func UsePut(a uint64) uint64 {
	b := make([]byte, 8)
	m.UInt64Put(b, a)
	return m.UInt64Get(b) + uint64(b[0])
}

func UseLock(a uint64) uint64 {
	mu := new(s.Mutex)
	mu.Lock()
	c := s.NewCond(mu)
	c.Signal()
	mu.Unlock()
	wg := new(s.WaitGroup)
	wg.Add(1)
	wg.Done()
	wg.Wait()
	return a + 1
}

func UseDiskReal(a uint64) uint64 {
	b := make([]byte, d.BlockSize)
	b[0] = byte(a)
	d.Write(1, b)
	r := d.Read(1)
	return uint64(r[0]) + d.Size()
}

func UseString(a uint64) uint64 {
	return uint64(len(m.UInt64ToString(a)))
}

func case_AliasPut_0() uint64 {
	return UsePut(258)
}

func case_AliasLock_0() uint64 {
	return UseLock(5)
}

func case_AliasDisk_0() uint64 {
	return UseDiskReal(7)
}

func case_AliasString_0() uint64 {
	return UseString(12345)
}
`

// LookalikeValuePackages: a second batch with the same package names. Flavour "val": the special type
// names declared as structs with VALUE receivers and used as values (d := Disk{...}; d.Read(1));
// flavour "iface": Disk, File declared as INTERFACES of the user package implemented by a local struct.
// Packages <N> (flavour val), <N>_user (imports it) for every look-alike name; the interface flavour
// lives in packages named like the FFI packages only (a second directory level: ifc/<N>).
func LookalikeValuePackages(modPath string) []*Package {
	const valBody = `
type Disk struct {
	n uint64
}

func (d Disk) Read(a uint64) uint64 {
	return d.n + a
}

func (d Disk) Write(a uint64, v uint64) uint64 {
	return d.n + a*10 + v
}

func (d Disk) Size() uint64 {
	return d.n + 1000
}

func (d Disk) Barrier() uint64 {
	return d.n * 2
}

type File struct {
	pos uint64
}

func (f File) Len() uint64 {
	return f.pos + 3
}

type Block struct {
	b0 uint64
}

func (b Block) First() uint64 {
	return b.b0 + 1
}

type WaitGroup struct {
	left uint64
}

func (w WaitGroup) Add(d uint64) uint64 {
	return w.left + d
}

func (w WaitGroup) Done() uint64 {
	return w.left + 100
}

func (w WaitGroup) Wait() uint64 {
	return w.left * 3
}

func MkDisk(v uint64) Disk {
	return Disk{n: v}
}

func MkFile(v uint64) File {
	return File{pos: v}
}

func MkBlock(v uint64) Block {
	return Block{b0: v}
}

func MkWG(v uint64) WaitGroup {
	return WaitGroup{left: v}
}
`
	uses := func(q string) string {
		return strings.ReplaceAll(`func UseDiskValue(a uint64) uint64 {
	d := Q:MkDisk(a % 7)
	return d.Read(1) + d.Write(2, 3)*10 + d.Size()*100 + d.Barrier()
}

func UseDiskVar(a uint64) uint64 {
	var d Q:Disk
	d = Q:MkDisk(a%7 + 1)
	return d.Size() + d.Read(4)
}

func UseDiskParam(a uint64) uint64 {
	return sizeOf(Q:MkDisk(a%5)) + 1
}

func sizeOf(d Q:Disk) uint64 {
	return d.Size() + d.Read(0)
}

func UseFileValue(a uint64) uint64 {
	f := Q:MkFile(a % 9)
	b := Q:MkBlock(a % 4)
	return f.Len()*10 + b.First()
}

func UseWGValue(a uint64) uint64 {
	w := Q:MkWG(a % 6)
	return w.Add(2) + w.Done() + w.Wait()
}
`, "Q:", q)
	}
	useNames := []string{"UseDiskValue", "UseDiskVar", "UseDiskParam", "UseFileValue", "UseWGValue"}
	args := []uint64{0, 3, 8, 255}
	cases := func(b *strings.Builder) []string {
		var cs []string
		for _, u := range useNames {
			for i, v := range args {
				cn := fmt.Sprintf("case_%s_%d", u, i)
				fmt.Fprintf(b, "\nfunc %s() uint64 {\n\treturn %s(%d)\n}\n", cn, u, v)
				cs = append(cs, cn)
			}
		}
		return cs
	}
	var out []*Package
	for _, n := range LookalikeNames {
		var b strings.Builder
		fmt.Fprintf(&b, "package %s\n%s\n%s", n, valBody, uses(""))
		cs := cases(&b)
		out = append(out, &Package{Name: n, Source: b.String(), Cases: cs, Features: map[string]int{"lookalike-value-package-" + n: 1}})
		var ub strings.Builder
		fmt.Fprintf(&ub, "package use_%s\n\nimport \"%s/cases/%s\"\n\n%s", n, modPath, n, uses(n+"."))
		ucs := cases(&ub)
		out = append(out, &Package{Name: "use_" + n, Source: ub.String(), Cases: ucs, Features: map[string]int{"lookalike-value-import-" + n: 1}})
	}
	return out
}
