package gen

import (
	"fmt"
	"strings"
)

// directed.go: seed-independent enumerations (the directed layer of C01):
// every operator × width × operand shape × boundary value pair, every
// conversion pair, every l-value kind × assignment operator.

type widthInfo struct {
	goT   string // type spelling
	conv  string // conversion spelling
	max   uint64
	width int
	tag   string
}

var widths = []widthInfo{
	{"uint64", "uint64", ^uint64(0), 64, "u64"},
	{"uint32", "uint32", 0xFFFFFFFF, 32, "u32"},
	{"byte", "uint8", 0xFF, 8, "u8"},
}

func boundaryPairs(w widthInfo) [][2]uint64 {
	m := w.max
	h := uint64(1) << uint(w.width-1)
	return [][2]uint64{
		{0, 0}, {1, 1}, {m, 1}, {1, m}, {m, m}, {0, m}, {h, h}, {h - 1, h + 1}, {m - 1, 2}, {3, 5},
		{0x55 & m, 0xAA & m}, {m / 3, m / 7},
	}
}

type opInfo struct {
	name, op string
	kind     string // arith, div, shift, cmp
}

var directedOps = []opInfo{
	{"add", "+", "arith"}, {"sub", "-", "arith"}, {"mul", "*", "arith"}, {"and", "&", "arith"}, {"or", "|", "arith"}, {"xor", "^", "arith"},
	{"quo", "/", "div"}, {"rem", "%", "div"}, {"shl", "<<", "shift"}, {"shr", ">>", "shift"},
	{"eq", "==", "cmp"}, {"ne", "!=", "cmp"}, {"lt", "<", "cmp"}, {"le", "<=", "cmp"}, {"gt", ">", "cmp"}, {"ge", ">=", "cmp"},
}

// OperatorPackages returns one package per width with every operator in four operand shapes.
func OperatorPackages() []*Package {
	var out []*Package
	for _, w := range widths {
		var b strings.Builder
		name := "ops_" + w.tag
		fmt.Fprintf(&b, "package %s\n\n", name)
		var cases []string
		for _, o := range directedOps {
			res := w.goT
			if o.kind == "cmp" {
				res = "bool"
			}
			// shape 1: var op var
			fmt.Fprintf(&b, "func %s_vv(a %s, b %s) %s {\n\treturn a %s b\n}\n\n", o.name, w.goT, w.goT, res, o.op)
			// shape 2: nested with a third operand and mixed operator (checks parenthesisation)
			if o.kind != "cmp" {
				fmt.Fprintf(&b, "func %s_nest(a %s, b %s, c %s) %s {\n\treturn (a %s b) + c*(b %s (a|1))\n}\n\n", o.name, w.goT, w.goT, w.goT, res, o.op, safeOp(o))
			} else {
				fmt.Fprintf(&b, "func %s_nest(a %s, b %s, c %s) bool {\n\treturn (a %s b) && !(b %s c) || (c %s a)\n}\n\n", o.name, w.goT, w.goT, w.goT, o.op, o.op, o.op)
			}
			// shape 3: op-assign on a pointer-wrapped local and through a pointer
			if o.kind == "arith" && o.op != "*" {
				fmt.Fprintf(&b, "func %s_assign(a %s, b %s) %s {\n\tvar x %s = a\n\tx %s= b\n\tp := new(%s)\n\t*p = a\n\t*p %s= x\n\treturn *p\n}\n\n",
					o.name, w.goT, w.goT, w.goT, w.goT, o.op, w.goT, o.op)
			}
			pairs := boundaryPairs(w)
			for i, p := range pairs {
				a, bb := p[0], p[1]
				if o.kind == "div" && bb == 0 {
					bb = 1
				}
				if o.kind == "shift" {
					bb = bb % uint64(w.width)
				}
				cn := fmt.Sprintf("case_%s_vv_%d", o.name, i)
				fmt.Fprintf(&b, "func %s() %s {\n\treturn %s_vv(%d, %d)\n}\n\n", cn, res, o.name, a, bb)
				cases = append(cases, cn)
				// literal operand shapes: the literal takes its type from the sibling
				if o.kind == "shift" || (o.kind == "div" && bb == 0) {
					continue
				}
				if i < 6 {
					cn = fmt.Sprintf("case_%s_vl_%d", o.name, i)
					fmt.Fprintf(&b, "func %s() %s {\n\tvar a %s = %d\n\treturn a %s %d\n}\n\n", cn, res, w.goT, a, o.op, bb)
					cases = append(cases, cn)
					cn = fmt.Sprintf("case_%s_lv_%d", o.name, i)
					fmt.Fprintf(&b, "func %s() %s {\n\tvar b %s = %d\n\treturn %d %s b\n}\n\n", cn, res, w.goT, bb, a, o.op)
					cases = append(cases, cn)
				}
				if i%3 == 0 {
					c := pairs[(i+5)%len(pairs)][0]
					cn = fmt.Sprintf("case_%s_nest_%d", o.name, i)
					if o.kind == "div" || o.kind == "shift" {
						fmt.Fprintf(&b, "func %s() %s {\n\treturn %s_nest(%d, %d, %d)\n}\n\n", cn, res, o.name, a, bb, c)
					} else {
						fmt.Fprintf(&b, "func %s() %s {\n\treturn %s_nest(%d, %d, %d)\n}\n\n", cn, res, o.name, a, bb, c)
					}
					cases = append(cases, cn)
					if o.kind == "arith" && o.op != "*" {
						cn = fmt.Sprintf("case_%s_assign_%d", o.name, i)
						fmt.Fprintf(&b, "func %s() %s {\n\treturn %s_assign(%d, %d)\n}\n\n", cn, res, o.name, a, bb)
						cases = append(cases, cn)
					}
				}
			}
		}
		// unary complement and logical not
		fmt.Fprintf(&b, "func compl(a %s) %s {\n\treturn ^a\n}\n\n", w.goT, w.goT)
		for i, p := range boundaryPairs(w) {
			cn := fmt.Sprintf("case_compl_%d", i)
			fmt.Fprintf(&b, "func %s() %s {\n\treturn compl(%d)\n}\n\n", cn, w.goT, p[0])
			cases = append(cases, cn)
		}
		// inc/dec (64-bit only here; the narrow widths are a quarantined atom)
		if w.width == 64 {
			fmt.Fprintf(&b, "func incdec(a %s) (%s, %s) {\n\tvar x %s = a\n\tx++\n\tvar y %s = a\n\ty--\n\treturn x, y\n}\n\n", w.goT, w.goT, w.goT, w.goT, w.goT)
			for i, p := range boundaryPairs(w) {
				cn := fmt.Sprintf("case_incdec_%d", i)
				fmt.Fprintf(&b, "func %s() (%s, %s) {\n\treturn incdec(%d)\n}\n\n", cn, w.goT, w.goT, p[0])
				cases = append(cases, cn)
			}
		}
		out = append(out, &Package{Name: name, Source: b.String(), Cases: cases, Features: map[string]int{"directed-operators-" + w.tag: len(cases)}})
	}
	return out
}

func safeOp(o opInfo) string {
	switch o.kind {
	case "div":
		return o.op
	case "shift":
		return "&"
	}
	return o.op
}

// ConversionPackage: every conversion pair among the three widths, chains, and len/conversions.
func ConversionPackage() *Package {
	var b strings.Builder
	name := "convs"
	fmt.Fprintf(&b, "package %s\n\n", name)
	var cases []string
	for _, from := range widths {
		for _, to := range widths {
			fn := fmt.Sprintf("conv_%s_%s", from.tag, to.tag)
			fmt.Fprintf(&b, "func %s(a %s) %s {\n\treturn %s(a)\n}\n\n", fn, from.goT, to.goT, to.conv)
			// conversion inside arithmetic, on both sides
			fn2 := fn + "_arith"
			fmt.Fprintf(&b, "func %s(a %s, b %s) %s {\n\treturn %s(a+a) + b*%s(a)\n}\n\n", fn2, from.goT, to.goT, to.goT, to.conv, to.conv)
			vals := []uint64{0, 1, from.max, from.max - 1, from.max/2 + 1, 0x1FF & from.max, 0x100 & from.max, 0x12345678 & from.max, 0x100000000 & from.max, 0xFFFFFFFF & from.max}
			for i, v := range vals {
				cn := fmt.Sprintf("case_%s_%d", fn, i)
				fmt.Fprintf(&b, "func %s() %s {\n\treturn %s(%d)\n}\n\n", cn, to.goT, fn, v)
				cases = append(cases, cn)
				if i%2 == 0 {
					cn = fmt.Sprintf("case_%s_%d", fn2, i)
					fmt.Fprintf(&b, "func %s() %s {\n\treturn %s(%d, %d)\n}\n\n", cn, to.goT, fn2, v, to.max-3)
					cases = append(cases, cn)
				}
			}
		}
	}
	// chains and lengths
	b.WriteString(`func chain(a uint64) uint64 {
	return uint64(uint8(uint32(a))) + uint64(uint32(uint8(a>>4))) + uint64(uint32(a>>8))
}

func lens(s string, n uint64) (uint64, uint32, byte) {
	b := make([]byte, n)
	m := make(map[uint64]bool)
	m[n] = true
	m[n+1] = false
	return uint64(len(s)) + uint64(len(b)), uint32(len(b)) + uint32(len(m)), uint8(len(s))
}

`)
	for i, v := range []uint64{0, 0x1234, 0xFFFFFFFFFFFFFFFF, 0x8000000080008080, 0x0102030405060708} {
		cn := fmt.Sprintf("case_chain_%d", i)
		fmt.Fprintf(&b, "func %s() uint64 {\n\treturn chain(%d)\n}\n\n", cn, v)
		cases = append(cases, cn)
	}
	for i, v := range []struct {
		s string
		n uint64
	}{{"", 0}, {"abc", 3}, {"hello world", 300}} {
		cn := fmt.Sprintf("case_lens_%d", i)
		fmt.Fprintf(&b, "func %s() (uint64, uint32, byte) {\n\treturn lens(%q, %d)\n}\n\n", cn, v.s, v.n)
		cases = append(cases, cn)
	}
	return &Package{Name: name, Source: b.String(), Cases: cases, Features: map[string]int{"directed-conversions": len(cases)}}
}

// LvaluePackage: every l-value kind × assignment operator × width.
func LvaluePackage() *Package {
	var b strings.Builder
	name := "lvalues"
	fmt.Fprintf(&b, "package %s\n\n", name)
	var cases []string
	ops := []string{"=", "+=", "-=", "|=", "&=", "^="}
	opn := []string{"set", "add", "sub", "or", "and", "xor"}
	for _, w := range widths {
		fmt.Fprintf(&b, "type R%s struct {\n\tpre  %s\n\tf    %s\n\tpost %s\n}\n\n", w.tag, w.goT, w.goT, w.goT)
		fmt.Fprintf(&b, "type Outer%s struct {\n\tin R%s\n\tp  *R%s\n}\n\n", w.tag, w.tag, w.tag)
		for k, op := range ops {
			fn := fmt.Sprintf("lv_%s_%s", opn[k], w.tag)
			// local var, field via pointer, field of var struct, deref, slice element, map element, nested field
			fmt.Fprintf(&b, `func %s(a %s, b %s) (%s, %s, %s, %s, %s, %s, %s) {
	var x %s = a
	x %s b
	p := &R%s{pre: 1, f: a, post: 2}
	p.f %s b
	var s R%s
	s.f = a
	s.f %s b
	q := new(%s)
	*q = a
	*q %s b
	sl := make([]%s, 3)
	sl[1] = a
	sl[1] %s b
	m := make(map[uint64]%s)
	m[7] = a
	m[7] %s b
	o := &Outer%s{p: p}
	o.p.f %s b
	return x, p.pre + p.f + p.post, s.f + s.pre + s.post, *q, sl[0] + sl[1] + sl[2], m[7], o.p.f
}

`, fn, w.goT, w.goT, w.goT, w.goT, w.goT, w.goT, w.goT, w.goT, w.goT,
				w.goT, op, w.tag, op, w.tag, op, w.goT, op, w.goT, op, w.goT, op, w.tag, op)
			for i, p := range boundaryPairs(w) {
				if i > 7 {
					break
				}
				cn := fmt.Sprintf("case_%s_%d", fn, i)
				fmt.Fprintf(&b, "func %s() (%s, %s, %s, %s, %s, %s, %s) {\n\treturn %s(%d, %d)\n}\n\n", cn, w.goT, w.goT, w.goT, w.goT, w.goT, w.goT, w.goT, fn, p[0], p[1])
				cases = append(cases, cn)
			}
		}
	}
	return &Package{Name: name, Source: b.String(), Cases: cases, Features: map[string]int{"directed-lvalues": len(cases)}}
}
