package gen

import (
	"fmt"
	"os"
	"testing"

	"verif/core"
)

func TestDump(t *testing.T) {
	rng := core.NewRng(1, "c01-random")
	for b := 0; b < 2; b++ {
		for k := 0; k < 14; k++ {
			name := fmt.Sprintf("r%d_%d", b, k)
			gp := RandomPackage(rng.Fork(name), name, DefaultOptions())
			os.MkdirAll("/tmp/gt/"+name, 0o755)
			os.WriteFile("/tmp/gt/"+name+"/x.go", []byte(gp.Source), 0o644)
		}
	}
}
