package gen

import (
	"embed"
	"path"
	"sort"
	"strings"
)

//go:embed corpus/*.go.txt
var corpusFS embed.FS

// CorpusPackages returns the hand-written directed programs.
func CorpusPackages() []*Package {
	ents, _ := corpusFS.ReadDir("corpus")
	var out []*Package
	for _, e := range ents {
		b, err := corpusFS.ReadFile(path.Join("corpus", e.Name()))
		if err != nil {
			continue
		}
		name := strings.TrimSuffix(e.Name(), ".go.txt")
		out = append(out, &Package{Name: name, Source: string(b), Features: map[string]int{"corpus-" + name: 1}})
	}
	sort.Slice(out, func(i, j int) bool { return out[i].Name < out[j].Name })
	return out
}
