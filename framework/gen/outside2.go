package gen

import (
	"fmt"
	"strings"
)

// outside2.go: generated families of out-of-subset / look-alike atoms (C02): every basic numeric
// type goose does not model × the ways a value of it can come into being without its type being
// spelled in a declaration goose inspects, the ways a variadic callee can be reached, and the
// constructs of the C07 catalogue that goose accepts without an error (their meaning is checked here).

func init() {
	OutsideAtoms = append(OutsideAtoms, numericTypeAtoms()...)
	OutsideAtoms = append(OutsideAtoms, variadicAtoms()...)
	OutsideAtoms = append(OutsideAtoms, acceptedShapeAtoms()...)
}

func numericTypeAtoms() []OutsideAtom {
	var out []OutsideAtom
	type nt struct {
		name   string
		signed bool
		float  bool
	}
	types := []nt{{"int8", true, false}, {"int16", true, false}, {"int32", true, false}, {"int64", true, false}, {"int", true, false},
		{"uint16", false, false}, {"uintptr", false, false}, {"uint", false, false}, {"float64", false, true}, {"float32", false, true}}
	for _, t := range types {
		T := t.name
		add := func(form, code string) {
			out = append(out, OutsideAtom{ID: "num_" + T + "_" + form, Kind: "stmt", Code: code, Site: "values of the unmodelled basic type " + T + " (" + form + ")"})
		}
		addDecl := func(form, code string) {
			id := "num_" + T + "_" + form
			out = append(out, OutsideAtom{ID: id, Kind: "decl", Code: strings.ReplaceAll(code, "ID", id), Site: "values of the unmodelled basic type " + T + " (" + form + ")"})
		}
		if t.float {
			add("chain", fmt.Sprintf("d := %s(x) / 4\n\tx = uint64(d * 3)", T))
			add("inline", fmt.Sprintf("x = uint64(%s(x)/8 + 0.5)", T))
			add("compare", fmt.Sprintf("d := %s(x)\n\tif d/2 > 1.4 {\n\t\tx += 100\n\t}", T))
			addDecl("param", fmt.Sprintf("func ID_h(v %s) %s {\n\treturn v / 2\n}\n\nfunc ID_fn(a uint64) uint64 {\n\treturn uint64(ID_h(%s(a)) * 3)\n}", T, T, T))
			continue
		}
		// a value below zero (signed) or wrapped at the type's width (unsigned), widened back to 64 bits
		add("chain", fmt.Sprintf("d := %s(x - y - 2)\n\tx = uint64(d)", T))
		add("chain_via_u32", fmt.Sprintf("d := %s(w) - %s(z)\n\tx = uint64(d)", T, T))
		add("inline", fmt.Sprintf("x = uint64(%s(x) - %s(y) - 2)", T, T))
		add("arith_mul", fmt.Sprintf("d := %s(x) + %s(z)\n\te := d * d * d * d\n\tx = uint64(e)", T, T))
		if T != "int" {
			// signed arithmetic on int emitted as unsigned is the recorded finding c02-inttype-mistranslated
			// (atom inttype); division, shift and ordered comparison of a negative int only restate it
			add("div", fmt.Sprintf("d := %s(x) - %s(z)\n\tx = uint64(d / %s(w))", T, T, T))
			add("shift", fmt.Sprintf("d := %s(x) - %s(z)\n\tx = uint64(d >> (y %% 3))", T, T))
			add("compare", fmt.Sprintf("d := %s(x) - %s(z)\n\tif d < %s(y) {\n\t\tx += 100\n\t}", T, T, T))
			add("compare_zero", fmt.Sprintf("d := %s(x) - %s(z)\n\tzero := %s(x) - %s(x)\n\tif d < zero {\n\t\tx += 100\n\t}\n\tif d >= zero {\n\t\tx += 1000\n\t}", T, T, T, T))
		}
		add("var", fmt.Sprintf("var d %s = %s(x)\n\td = d - 7\n\tx = uint64(d / 2)", T, T))
		add("to_u32", fmt.Sprintf("d := %s(x) - %s(z)\n\tw = uint32(d)\n\tx += uint64(w)", T, T))
		add("to_byte", fmt.Sprintf("d := %s(x) - %s(w)\n\tz = byte(d)\n\tx += uint64(z)", T, T))
		add("from_byte", fmt.Sprintf("d := %s(z)\n\te := d + d\n\tx += uint64(e)", T))
		add("no_conversion_back", fmt.Sprintf("d := %s(x) - %s(z)\n\tif d == %s(y) {\n\t\tx += 100\n\t} else {\n\t\tx += 1\n\t}", T, T, T))
		if T != "int" {
			add("only_in_condition", fmt.Sprintf("if %s(x)-%s(z) > %s(y) {\n\t\tx += 100\n\t}", T, T, T))
		}
		add("index", fmt.Sprintf("d := %s(x %% 3)\n\tx += s[d]", T))
		add("makelen", fmt.Sprintf("d := %s(x%%3 + 1)\n\tt := make([]uint64, d)\n\tx += uint64(len(t))", T))
		add("loopvar", fmt.Sprintf("for d := %s(2); d >= 0; d-- {\n\t\tx += 1\n\t\tif x > 1000 {\n\t\t\tbreak\n\t\t}\n\t}", T))
		addDecl("param", fmt.Sprintf("func ID_h(v %s) %s {\n\treturn v - 3\n}\n\nfunc ID_fn(a uint64) uint64 {\n\treturn uint64(ID_h(%s(a)) / 2)\n}", T, T, T))
		addDecl("field", fmt.Sprintf("type ID_t struct {\n\tv %s\n}\n\nfunc ID_fn(a uint64) uint64 {\n\tt := &ID_t{v: %s(a)}\n\tt.v = t.v - 9\n\treturn uint64(t.v / 2)\n}", T, T))
		addDecl("result", fmt.Sprintf("func ID_h(v uint64) %s {\n\treturn %s(v) - 3\n}\n\nfunc ID_fn(a uint64) uint64 {\n\treturn uint64(ID_h(a) / 2)\n}", T, T))
		addDecl("global", fmt.Sprintf("var ID_g %s = 5\n\nfunc ID_fn(a uint64) uint64 {\n\treturn uint64((ID_g - %s(a) - 9) / 2)\n}", T, T))
		addDecl("const", fmt.Sprintf("const ID_c %s = 5\n\nfunc ID_fn(a uint64) uint64 {\n\treturn uint64((ID_c - %s(a) - 9) / 2)\n}", T, T))
		addDecl("namedtype", fmt.Sprintf("type ID_n %s\n\nfunc ID_fn(a uint64) uint64 {\n\tvar v ID_n = ID_n(a)\n\tv = v - 9\n\treturn uint64(v / 2)\n}", T))
		addDecl("slice", fmt.Sprintf("func ID_fn(a uint64) uint64 {\n\tt := make([]%s, 2)\n\tt[0] = %s(a) - 9\n\treturn uint64(t[0]/2) + uint64(t[1])\n}", T, T))
		addDecl("mapval", fmt.Sprintf("func ID_fn(a uint64) uint64 {\n\tt := make(map[uint64]%s)\n\tt[0] = %s(a) - 9\n\treturn uint64(t[0]/2) + uint64(t[1])\n}", T, T))
	}
	return out
}

func variadicAtoms() []OutsideAtom {
	const sum = "\tvar t uint64\n\tfor _, v := range xs {\n\t\tt += v\n\t}\n\treturn t\n"
	mk := func(id, code string) OutsideAtom {
		return OutsideAtom{ID: "variadic_" + id, Kind: "decl", Code: strings.ReplaceAll(code, "ID", "variadic_"+id), Site: "variadic callee reached through " + id}
	}
	return []OutsideAtom{
		mk("iface", "type ID_i interface {\n\tSum(xs ...uint64) uint64\n}\n\ntype ID_s struct {\n\tb uint64\n}\n\nfunc (s *ID_s) Sum(xs ...uint64) uint64 {\n"+sum+"}\n\nfunc ID_use(i ID_i, a uint64) uint64 {\n\treturn i.Sum(a, 2, 3)\n}\n\nfunc ID_fn(a uint64) uint64 {\n\treturn ID_use(&ID_s{b: 1}, a)\n}"),
		mk("funcfield", "type ID_s struct {\n\tf func(xs ...uint64) uint64\n}\n\nfunc ID_sum(xs ...uint64) uint64 {\n"+sum+"}\n\nfunc ID_fn(a uint64) uint64 {\n\th := &ID_s{f: ID_sum}\n\treturn h.f(a, 10, 20)\n}"),
		mk("funcfield_value", "type ID_s struct {\n\tf func(xs ...uint64) uint64\n}\n\nfunc ID_sum(xs ...uint64) uint64 {\n"+sum+"}\n\nfunc ID_fn(a uint64) uint64 {\n\th := ID_s{f: ID_sum}\n\treturn h.f(a, 10, 20)\n}"),
		mk("closure", "func ID_fn(a uint64) uint64 {\n\tf := func(xs ...uint64) uint64 {\n"+strings.ReplaceAll(sum, "\n\t", "\n\t\t")+"\t}\n\treturn f(a, 10, 20)\n}"),
		mk("funcparam", "func ID_sum(xs ...uint64) uint64 {\n"+sum+"}\n\nfunc ID_apply(f func(xs ...uint64) uint64, a uint64) uint64 {\n\treturn f(a, 4)\n}\n\nfunc ID_fn(a uint64) uint64 {\n\treturn ID_apply(ID_sum, a)\n}"),
		mk("method", "type ID_s struct {\n\tb uint64\n}\n\nfunc (s *ID_s) Sum(xs ...uint64) uint64 {\n"+sum+"}\n\nfunc ID_fn(a uint64) uint64 {\n\ts := &ID_s{b: 1}\n\treturn s.Sum(a, 2, 3)\n}"),
		mk("method_value_receiver", "type ID_s struct {\n\tb uint64\n}\n\nfunc (s ID_s) Sum(xs ...uint64) uint64 {\n"+sum+"}\n\nfunc ID_fn(a uint64) uint64 {\n\ts := ID_s{b: 1}\n\treturn s.Sum(a, 2, 3)\n}"),
		mk("spread", "func ID_sum(xs ...uint64) uint64 {\n"+sum+"}\n\nfunc ID_fn(a uint64) uint64 {\n\tt := make([]uint64, 2)\n\tt[0] = a\n\treturn ID_sum(t...)\n}"),
		mk("noargs", "func ID_sum(xs ...uint64) uint64 {\n"+sum+"}\n\nfunc ID_fn(a uint64) uint64 {\n\treturn ID_sum() + a\n}"),
		mk("onearg", "func ID_sum(xs ...uint64) uint64 {\n"+sum+"}\n\nfunc ID_fn(a uint64) uint64 {\n\treturn ID_sum(a)\n}"),
		mk("fixed_then_rest", "func ID_sum(base uint64, xs ...uint64) uint64 {\n\tt := base\n\tfor _, v := range xs {\n\t\tt += v * 2\n\t}\n\treturn t\n}\n\nfunc ID_fn(a uint64) uint64 {\n\treturn ID_sum(a, 5, 6)\n}"),
		mk("fixed_only", "func ID_sum(base uint64, xs ...uint64) uint64 {\n\treturn base + uint64(len(xs))\n}\n\nfunc ID_fn(a uint64) uint64 {\n\treturn ID_sum(a)\n}"),
		mk("go_spawn", "func ID_add(wg *sync.WaitGroup, q *uint64, xs ...uint64) {\n\tfor _, v := range xs {\n\t\t*q += v\n\t}\n\twg.Done()\n}\n\nfunc ID_fn(a uint64) uint64 {\n\twg := new(sync.WaitGroup)\n\tq := new(uint64)\n\twg.Add(1)\n\tgo ID_add(wg, q, a, 3)\n\twg.Wait()\n\treturn *q\n}"),
		mk("generic", "func ID_first[T any](d T, xs ...T) T {\n\tfor _, v := range xs {\n\t\treturn v\n\t}\n\treturn d\n}\n\nfunc ID_fn(a uint64) uint64 {\n\treturn ID_first[uint64](a, 7, 8)\n}"),
		mk("append_like_user", "func ID_push(t []uint64, xs ...uint64) []uint64 {\n\tfor _, v := range xs {\n\t\tt = append(t, v)\n\t}\n\treturn t\n}\n\nfunc ID_fn(a uint64) uint64 {\n\tvar t []uint64\n\tt = ID_push(t, a, 2)\n\treturn uint64(len(t)) + t[0]\n}"),
	}
}

// acceptedShapeAtoms: shapes goose translates without any error that the hand-written catalogue
// did not have (found by listing the C07 catalogue constructs accepted silently).
// AcceptedShapeAtoms is used by C01 as well: these are supported (accepted) shapes.
func AcceptedShapeAtoms() []OutsideAtom { return acceptedShapeAtoms() }

func acceptedShapeAtoms() []OutsideAtom {
	st := func(id, code string) OutsideAtom {
		return OutsideAtom{ID: "shape_" + id, Kind: "stmt", Code: code, Site: "accepted shape: " + id}
	}
	stNoLoop := func(id, code string) OutsideAtom {
		a := st(id, code)
		a.NoLoop = true
		return a
	}
	dc := func(id, code string) OutsideAtom {
		return OutsideAtom{ID: "shape_" + id, Kind: "decl", Code: strings.ReplaceAll(code, "ID", "shape_"+id), Site: "accepted shape: " + id}
	}
	return []OutsideAtom{
		st("slice3_nolow", "t := s[:2:3]\n\tt = append(t, 9)\n\tt = append(t, 8)\n\tx += s[2] + s[3] + uint64(len(t))"),
		st("slice3_nolow_cap", "t := s[:1:2]\n\tx += uint64(cap(t))*10 + uint64(len(t))"),
		st("slice3_full", "t := s[1:2:3]\n\tt = append(t, 9)\n\tt = append(t, 8)\n\tx += s[2] + s[3] + uint64(len(t))"),
		st("slice3_bytes_nolow", "bt := bs[:1:1]\n\tbt = append(bt, 7)\n\tx += uint64(bs[1]) + uint64(len(bt))"),
		stNoLoop("go_samename_var", "gw := new(sync.WaitGroup)\n\tgw.Add(1)\n\tgo func(x uint64) {\n\t\t*q = *q + x\n\t\tgw.Done()\n\t}(x)\n\tx = x + 100\n\tgw.Wait()\n\tx += *q"),
		stNoLoop("go_samename_define", "gw := new(sync.WaitGroup)\n\tgw.Add(1)\n\tgo func(y uint64) {\n\t\t*q = *q + y\n\t\tgw.Done()\n\t}(y)\n\tx = x + 100\n\tgw.Wait()\n\tx += *q"),
		stNoLoop("go_samename_loopvar", "gw := new(sync.WaitGroup)\n\tgw.Add(2)\n\tfor i := uint64(0); i < 2; i++ {\n\t\tgo func(i uint64) {\n\t\t\tp.f = p.f + 0\n\t\t\tsideEffect(q, i)\n\t\t\tgw.Done()\n\t\t}(i)\n\t}\n\tgw.Wait()\n\tx += 1"),
		stNoLoop("go_param_shadows_later_use", "gw := new(sync.WaitGroup)\n\tgw.Add(1)\n\tgo func(y uint64) {\n\t\t*q = *q + y\n\t\tgw.Done()\n\t}(y + 1)\n\tx = x + y\n\tgw.Wait()\n\tx += *q"),
		stNoLoop("go_two_params_rotated", "gw := new(sync.WaitGroup)\n\tgw.Add(1)\n\tcur := x + 5\n\tprev := x + 1\n\tgo func(cur uint64, prev uint64) {\n\t\t*q = *q + cur*10 + prev\n\t\tgw.Done()\n\t}(cur+1, cur)\n\tgw.Wait()\n\tx += *q + cur + prev"),
		stNoLoop("go_bare_return_in_range", "gw := new(sync.WaitGroup)\n\tgw.Add(1)\n\tgo func() {\n\t\tfor _, v := range s {\n\t\t\tif v == 5 {\n\t\t\t\tgw.Done()\n\t\t\t\treturn\n\t\t\t}\n\t\t\t*q = *q + v + 1\n\t\t}\n\t\tgw.Done()\n\t}()\n\tgw.Wait()\n\tx += *q"),
		stNoLoop("go_bare_return_in_nested_if", "gw := new(sync.WaitGroup)\n\tgw.Add(1)\n\tgo func() {\n\t\tif y > 0 {\n\t\t\tif y > 1 {\n\t\t\t\tgw.Done()\n\t\t\t\treturn\n\t\t\t}\n\t\t\t*q = *q + 10\n\t\t}\n\t\t*q = *q + 1\n\t\tgw.Done()\n\t}()\n\tgw.Wait()\n\tx += *q"),
		stNoLoop("go_bare_return_early_exit", "gw := new(sync.WaitGroup)\n\tgw.Add(1)\n\tgo func() {\n\t\tif y > 1 {\n\t\t\tgw.Done()\n\t\t\treturn\n\t\t}\n\t\t*q = *q + 1\n\t\tgw.Done()\n\t}()\n\tgw.Wait()\n\tx += *q"),
		st("closure_bare_return_in_range", "f := func() {\n\t\tfor _, v := range s {\n\t\t\tif v == 5 {\n\t\t\t\treturn\n\t\t\t}\n\t\t\t*q = *q + v + 1\n\t\t}\n\t}\n\tf()\n\tx += *q"),
		st("clone_append_empty_literal", "cl := append([]uint64{}, s...)\n\tcl[0] = 99\n\tx += s[0] + cl[0] + uint64(len(cl))"),
		st("clone_append_empty_literal_bytes", "cb := append([]byte{}, bs...)\n\tbs[0] = 42\n\tx += uint64(cb[0]) + uint64(bs[0])"),
		st("clone_append_nil_var", "var cl []uint64\n\tcl = append(cl, s...)\n\ts[1] = 77\n\tx += cl[1] + s[1]"),
		st("clone_append_make0", "cl := append(make([]uint64, 0), s...)\n\tcl[2] = 55\n\tx += cl[2] + s[2]"),
		st("append_spread_self", "var t = make([]uint64, 2)\n\tt[0] = x\n\tt = append(t, t...)\n\tt[0] = 5\n\tx += t[2] + uint64(len(t))"),
		st("bare_block", "{\n\t\tt := x + 1\n\t\tx = t * 2\n\t}\n\tx += 1"),
		st("empty_block", "{\n\t}\n\tx += 1"),
		st("empty_stmt", ";\n\tx += 1"),
		st("for_empty_clauses", "for ; ; {\n\t\tx++\n\t\tif x > 6 {\n\t\t\tbreak\n\t\t}\n\t}"),
		st("for_only_post", "for ; ; x++ {\n\t\tif x > 6 {\n\t\t\tbreak\n\t\t}\n\t}"),
		st("for_only_post_continue", "for ; ; x++ {\n\t\tif x > 6 {\n\t\t\tbreak\n\t\t}\n\t\tif x%2 == 0 {\n\t\t\tcontinue\n\t\t}\n\t\ts[1] += 1\n\t}\n\tx += s[1]"),
		st("for_cond_post", "for ; x < 7; x++ {\n\t\ts[1] += 2\n\t}\n\tx += s[1]"),
		st("for_only_init", "for i := uint64(3); ; {\n\t\tx += i\n\t\tif x > 6 {\n\t\t\tbreak\n\t\t}\n\t}"),
		st("for_init_cond", "for i := x; i < 6; {\n\t\ti = i + 2\n\t\tx += i\n\t}"),
		st("func_type_conversion", "g := FnT(func(v uint64) uint64 {\n\t\treturn v + 5\n\t})\n\tx = g(x)"),
		st("func_nil_compare", "var g func(uint64) uint64\n\tif g == nil {\n\t\tx += 3\n\t}"),
		st("iface_literal_var", "var i interface {\n\t\tM() uint64\n\t}\n\tif i == nil {\n\t\tx += 3\n\t}"),
		st("ptr_to_ptr", "pp := new(*uint64)\n\t*pp = q\n\t**pp = **pp + 4\n\tx += *q"),
		st("hex_literals", "x += 0x10 + 0o7 + 0b11 + 1_000"),
		st("big_hex_literal", "x ^= 0xFFFFFFFFFFFFFFFF\n\tx += 0x8000000000000000"),
		st("char_escape", "var cb byte = '\\n'\n\tx += uint64(cb) + uint64(byte('\\''))"),
		st("index_call_result", "x += mkSlice(x)[1]"),
		st("slice_call_result", "x += uint64(len(mkSlice(x)[1:]))"),
		st("selector_call_result", "x += mkH(x).f + uint64(mkH(3).g)"),
		st("method_on_literal", "x += H{f: 2, g: 3}.sumWith(x)"),
		st("method_on_addr_literal", "x += (&H{f: 2}).addTo(x)"),
		st("addr_composite_in_call", "x += takeH(&H{f: x, g: 1})"),
		st("slice_of_ptr_elided", "hs := []*H{{f: x}}\n\tx += hs[0].f + 1"),
		st("call_multi_value_arg", "x = addPair(two(x))"),
		st("bool_op_assign", "x &= 13\n\tx |= 64\n\tx ^= 3"),
		st("string_plus_assign", "str += \"de\"\n\tx += uint64(len(str))"),
		st("conv_of_field_of_call", "x += uint64(mkH(x).g) + 1"),
		st("nested_struct_literal", "o := Outer{in: H{f: x, g: 2}, n: 3}\n\tx += o.in.f + uint64(o.in.g) + o.n"),
		st("nested_struct_assign_field", "o := &Outer{n: 3}\n\to.in.f = x\n\tx += o.in.f + o.n"),
		st("struct_ptr_copy_deref", "h1 := *p\n\tp.f = 77\n\tx += h1.f"),
		st("store_struct_through_ptr", "*p = H{f: x + 1, g: 4}\n\tx += p.f + uint64(p.g)"),
		st("nil_slice_compare", "var ns []uint64\n\tif ns == nil {\n\t\tx += 3\n\t}\n\tif s != nil {\n\t\tx += 5\n\t}"),
		st("nil_ptr_compare", "var np *H\n\tif np == nil {\n\t\tx += 3\n\t}\n\tif p != nil {\n\t\tx += 5\n\t}"),
		st("nil_map_compare", "var nm map[uint64]uint64\n\tif nm == nil {\n\t\tx += 3\n\t}"),
		st("nil_on_left_nilptr", "var np *H\n\tvar nq *uint64\n\tif nil == np {\n\t\tx += 3\n\t}\n\tif nil != nq {\n\t\tx += 5\n\t}\n\tif nil == s {\n\t\tx += 7\n\t}"),
		st("nil_named_ptr", "var v PtrU\n\tif v == nil {\n\t\tx += 3\n\t}\n\tvar v2 PtrU = q\n\tif v2 != nil {\n\t\tx += 5\n\t}"),
		st("nil_on_left", "if nil == p {\n\t\tx += 3\n\t}\n\tif nil != q {\n\t\tx += 5\n\t}"),
		st("const_on_left", "if 3 >= x {\n\t\tx += 100\n\t}\n\tif 3 < x {\n\t\tx += 1000\n\t}\n\tif Limit >= x+997 {\n\t\tx += 7\n\t}"),
		st("const_on_left_eq", "if 3 == x {\n\t\tx += 100\n\t}\n\tif 4 != x {\n\t\tx += 1000\n\t}\n\tif 3 <= x {\n\t\tx += 7\n\t}\n\tif 3 > x {\n\t\tx += 9\n\t}"),
		st("uint64_to_string", "x += uint64(len(machine.UInt64ToString(x)))"),
		st("uint64_to_string_big", "if machine.UInt64ToString(x+18446744073709551000) == machine.UInt64ToString(x) {\n\t\tx += 1\n\t}\n\tx += uint64(len(machine.UInt64ToString(x + 9223372036854775808)))"),
		st("named_byteslice_conv", "nb := Bytes(bs)\n\tnb[0] = 7\n\tpl := []byte(nb)\n\tpl[1] = 9\n\tx += uint64(bs[0]) + uint64(bs[1]) + uint64(len(pl))"),
		st("named_byteslice_conv_call", "x += uint64(len([]byte(Bytes(bs)))) + uint64(len(Bytes([]byte(bs))))"),
		st("named_string_conv", "k := Key(str)\n\tst2 := string(k)\n\tx += uint64(len(st2)) + uint64(len(k))"),
		st("string_bytes_roundtrip", "b2 := []byte(str)\n\tb2[0] = 65\n\tst2 := string(b2)\n\tx += uint64(len(st2)) + uint64(b2[0]) + uint64(len(str))"),
		st("named_map_conv", "sn := Seen(make(map[uint64]bool))\n\tsn[3] = true\n\tif sn[3] {\n\t\tx += 2\n\t}"),
		dc("tail_block_return", "func ID_fn(a uint64) uint64 {\n\tx := a + 2\n\t{\n\t\ty := x + 1\n\t\treturn y - 1\n\t}\n}"),
		dc("tail_block_return_in_if", "func ID_fn(a uint64) uint64 {\n\tif a > 2 {\n\t\t{\n\t\t\ty := a + 1\n\t\t\treturn y * 2\n\t\t}\n\t}\n\treturn a\n}"),
		dc("tail_block_break_in_loop", "func ID_fn(a uint64) uint64 {\n\tvar i uint64 = 0\n\tfor {\n\t\ti = i + 1\n\t\t{\n\t\t\tif i > a%5 {\n\t\t\t\tbreak\n\t\t\t}\n\t\t}\n\t}\n\treturn i\n}"),
		dc("tail_block_continue_in_loop", "func ID_fn(a uint64) uint64 {\n\tvar t uint64 = 0\n\tfor i := uint64(0); i < 4; i++ {\n\t\tt = t + i\n\t\t{\n\t\t\tif i == a%4 {\n\t\t\t\tcontinue\n\t\t\t}\n\t\t\tt = t + 10\n\t\t}\n\t}\n\treturn t\n}"),
		dc("tail_block_in_closure", "func ID_fn(a uint64) uint64 {\n\tf := func(v uint64) uint64 {\n\t\t{\n\t\t\tw := v * 3\n\t\t\treturn w + 1\n\t\t}\n\t}\n\treturn f(a)\n}"),
		dc("tail_block_void", "func ID_h(p *uint64) {\n\t*p = *p + 1\n\t{\n\t\t*p = *p * 2\n\t}\n}\n\nfunc ID_fn(a uint64) uint64 {\n\tv := new(uint64)\n\t*v = a\n\tID_h(v)\n\treturn *v\n}"),
		dc("tail_if_else_return", "func ID_fn(a uint64) uint64 {\n\tif a > 3 {\n\t\treturn a - 3\n\t} else {\n\t\treturn a + 30\n\t}\n}"),
		dc("tail_nested_if_return", "func ID_fn(a uint64) uint64 {\n\tif a > 3 {\n\t\tif a > 6 {\n\t\t\treturn 1\n\t\t}\n\t\treturn 2\n\t}\n\treturn 3\n}"),
		dc("blank_param", "func ID_h(_ uint64, b uint64) uint64 {\n\treturn b + 1\n}\n\nfunc ID_fn(a uint64) uint64 {\n\treturn ID_h(a, a+2)\n}"),
		dc("blank_params_two", "func ID_h(_ uint64, b uint64, _ bool) uint64 {\n\treturn b + 1\n}\n\nfunc ID_fn(a uint64) uint64 {\n\treturn ID_h(a, a+2, true)\n}"),
		dc("unnamed_params", "func ID_h(uint64, bool) uint64 {\n\treturn 7\n}\n\nfunc ID_fn(a uint64) uint64 {\n\treturn ID_h(a, true) + a\n}"),
		dc("blank_receiver", "type ID_t struct {\n\tv uint64\n}\n\nfunc (_ *ID_t) get(d uint64) uint64 {\n\treturn d + 1\n}\n\nfunc ID_fn(a uint64) uint64 {\n\tt := &ID_t{v: a}\n\treturn t.get(a) + t.v\n}"),
		dc("unnamed_receiver", "type ID_t struct {\n\tv uint64\n}\n\nfunc (*ID_t) get(d uint64) uint64 {\n\treturn d + 1\n}\n\nfunc ID_fn(a uint64) uint64 {\n\tt := &ID_t{v: a}\n\treturn t.get(a) + t.v\n}"),
		dc("return_multi_call", "func ID_pair(v uint64) (uint64, bool) {\n\treturn v + 1, v > 2\n}\n\nfunc ID_fwd(v uint64) (uint64, bool) {\n\treturn ID_pair(v)\n}\n\nfunc ID_fn(a uint64) uint64 {\n\tr, ok := ID_fwd(a)\n\tif ok {\n\t\treturn r\n\t}\n\treturn r + 100\n}"),
		dc("generic_func", "func ID_id[T any](x T) T {\n\treturn x\n}\n\nfunc ID_fn(a uint64) uint64 {\n\treturn ID_id[uint64](a) + 1\n}"),
		dc("generic_func_inferred", "func ID_id[T any](x T) T {\n\treturn x\n}\n\nfunc ID_fn(a uint64) uint64 {\n\treturn ID_id(a) + 1\n}"),
		dc("generic_two", "func ID_pick[T any, U any](x T, y U) T {\n\treturn x\n}\n\nfunc ID_fn(a uint64) uint64 {\n\treturn ID_pick[uint64, bool](a, true) + 1\n}"),
		dc("init_func", "var ID_g uint64 = 1\n\nfunc init() {\n}\n\nfunc ID_fn(a uint64) uint64 {\n\treturn a + ID_g\n}"),
		dc("method_named_like_func", "type ID_t struct {\n\tv uint64\n}\n\nfunc Get(a uint64) uint64 {\n\treturn a + 1\n}\n\nfunc ID_look(a uint64) uint64 {\n\treturn Get(a) * 2\n}\n\nfunc (t *ID_t) Get() uint64 {\n\treturn t.v\n}\n\nfunc ID_fn(a uint64) uint64 {\n\tt := &ID_t{v: 5}\n\treturn ID_look(a) + t.Get()\n}"),
		dc("user_type_named_mutex", "type Mutex struct {\n\tn uint64\n}\n\nfunc (m *Mutex) Lock() {\n\tm.n = m.n + 1\n}\n\nfunc (m *Mutex) Unlock() {\n\tm.n = m.n + 10\n}\n\nfunc ID_fn(a uint64) uint64 {\n\tm := &Mutex{n: a}\n\tm.Lock()\n\tm.Unlock()\n\treturn m.n\n}"),
		dc("user_type_named_waitgroup", "type WaitGroup struct {\n\tleft uint64\n}\n\nfunc (w *WaitGroup) Add(d uint64) {\n\tw.left = w.left + d\n}\n\nfunc (w *WaitGroup) Done() {\n\tw.left = w.left - 1\n}\n\nfunc (w *WaitGroup) Wait() uint64 {\n\treturn w.left\n}\n\nfunc ID_fn(a uint64) uint64 {\n\tw := &WaitGroup{}\n\tw.Add(a + 2)\n\tw.Done()\n\treturn w.Wait()\n}"),
		dc("user_type_named_cond", "type Cond struct {\n\tk uint64\n}\n\nfunc (c *Cond) Signal() {\n\tc.k = c.k + 1\n}\n\nfunc (c *Cond) Broadcast() {\n\tc.k = c.k * 2\n}\n\nfunc (c *Cond) Wait() {\n\tc.k = c.k + 100\n}\n\nfunc ID_fn(a uint64) uint64 {\n\tc := &Cond{k: a}\n\tc.Signal()\n\tc.Broadcast()\n\tc.Wait()\n\treturn c.k\n}"),
		dc("iface_call_compound_args", "type ID_shape interface {\n\tarea() uint64\n}\n\ntype ID_sq struct {\n\ts uint64\n}\n\nfunc (q ID_sq) area() uint64 {\n\treturn q.s * q.s\n}\n\nfunc ID_dbl(v uint64) uint64 {\n\treturn v * 2\n}\n\nfunc ID_scaled(s ID_shape, k uint64, j uint64) uint64 {\n\treturn s.area()*k + j\n}\n\nfunc ID_fn(a uint64) uint64 {\n\tsq := ID_sq{s: 3}\n\treturn ID_scaled(sq, a+1, ID_dbl(a)) + ID_scaled(sq, ID_dbl(a), a*3)\n}"),
		dc("iface_call_two_structs", "type ID_shape interface {\n\tarea() uint64\n}\n\ntype ID_sq struct {\n\ts uint64\n}\n\nfunc (q ID_sq) area() uint64 {\n\treturn q.s * q.s\n}\n\nfunc ID_both(k uint64, s ID_shape, t ID_shape) uint64 {\n\treturn s.area()*k + t.area()\n}\n\nfunc ID_fn(a uint64) uint64 {\n\treturn ID_both(a+1, ID_sq{s: 3}, ID_sq{s: a})\n}"),
		dc("iface_method_compound_args", "type ID_acc interface {\n\tadd(a uint64, b uint64) uint64\n}\n\ntype ID_s struct {\n\tv uint64\n}\n\nfunc (s *ID_s) add(a uint64, b uint64) uint64 {\n\treturn s.v + a*10 + b\n}\n\nfunc ID_use(i ID_acc, a uint64) uint64 {\n\treturn i.add(a+1, a*2) + 1\n}\n\nfunc ID_fn(a uint64) uint64 {\n\treturn ID_use(&ID_s{v: 100}, a)\n}"),
	}
}
