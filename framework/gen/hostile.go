package gen

import (
	"fmt"
	"strings"

	"verif/core"
)

// hostile.go: comment / string-literal / log-call payloads for C05.

type Payload struct {
	ID   string
	Text string
	// GoLit, when set, is the exact Go source spelling of the string literal for the
	// string-literal placements (the default is strconv-style quoting of Text)
	GoLit string
}

var Payloads = []Payload{
	{"open", "(*", ""},
	{"close", "*)", ""},
	{"openclose", "(*)", ""},
	{"closeopen", "*)(*", ""},
	{"nested", "(* (* x *) *)", ""},
	{"quote1", `"`, ""},
	{"quote2", `""`, ""},
	{"quote-close", `"*)`, ""},
	{"quote3", `a"b"c"d`, ""},
	{"backquote", "`", ""},
	{"tab", "a\tb", ""},
	{"ctrl", "a\x01b", ""},
	{"nonascii", "héllo — ∀λ≠", ""},
	{"dotnl", "end. ", ""},
	{"fakedef", "Definition x := 0.", ""},
	{"endcode", "End code.", ""},
	{"qed", "*) Definition evil: val := #0. (*", ""},
	{"longline", strings.Repeat("long ", 3000), ""},
	{"backslash", `a\b\\c\"`, ""},
	{"percent", "100%s %d %v", ""},
	{"star-paren", "*(x)* ( * ) (  *", ""},
	{"quote-hex-escape", "a\"b", `"a\x22b"`},
	{"quote-unicode-escape", "\"", `"\u0022"`},
	{"quote-octal-escape", "x\"\"y", `"x\042\042y"`},
	{"close-comment-escape", "*)", `"\x2a\x29"`},
	{"rune-quote", `is the '"' character`, ""},
	{"rune-quote-pair", `'"' then "quoted" then '"'`, ""},
	{"rune-quote-escaped", `'\"' and '"'`, ""},
	{"single-quotes", `it's 'x' and ''`, ""},
}

// Placement names where a payload goes.
var Placements = []string{"pkgdoc", "funcdoc", "structdoc", "constdoc", "bodycomment", "fieldcomment", "strlit", "rawstr", "logprintf", "logprintln", "fmtprintln", "panicmsg", "conststr", "multiline-doc", "strconcat", "strconcat-empty", "strconcat-three", "constconcat", "concat-named-const", "logconcat", "panicconcat", "linedirective-func", "linedirective-struct", "linedirective-const"}

func goStringLit(s string) (string, bool) {
	return fmt.Sprintf("%q", s), true
}

func (p Payload) lit() string {
	if p.GoLit != "" {
		return p.GoLit
	}
	return fmt.Sprintf("%q", p.Text)
}

func rawStringLit(s string) (string, bool) {
	if strings.Contains(s, "`") {
		return "", false
	}
	return "`" + s + "`", true
}

func commentText(s string) (string, bool) {
	// a // comment cannot contain a newline; a /* */ comment cannot contain */
	if strings.ContainsAny(s, "\n\r") {
		return "", false
	}
	return s, true
}

// HostilePackage builds a package with payload p at placement pl. ok=false when the
// combination cannot be written in Go.
func HostilePackage(name string, pl string, p Payload) (*Package, bool) {
	var b strings.Builder
	pkgdoc, funcdoc, structdoc, constdoc, bodyc, fieldc := "", "", "", "", "", ""
	strE, logE, constE := `"plain"`, "", `"cv"`
	ct, cok := commentText(p.Text)
	lineDir := map[string]string{}
	switch pl {
	case "pkgdoc":
		if !cok {
			return nil, false
		}
		pkgdoc = "// Package doc " + ct + " end\n"
	case "funcdoc":
		if !cok {
			return nil, false
		}
		funcdoc = "// target does things " + ct + " really\n"
	case "multiline-doc":
		if !cok {
			return nil, false
		}
		funcdoc = "// target first line\n//\n//   indented " + ct + "\n// last " + ct + " line\n"
	case "structdoc":
		if !cok {
			return nil, false
		}
		structdoc = "// T is a struct " + ct + "\n"
	case "constdoc":
		if !cok {
			return nil, false
		}
		constdoc = " // trailing " + ct
	case "bodycomment":
		if !cok {
			return nil, false
		}
		bodyc = "\t// inside " + ct + "\n"
	case "fieldcomment":
		if !cok {
			return nil, false
		}
		fieldc = " // field " + ct
	case "linedirective-func", "linedirective-struct", "linedirective-const":
		// the payload becomes the FILE NAME of the positions that follow (as in generated code: //line rules.y:12);
		// it reaches the output wherever a position is printed (-source-comments)
		if !cok || strings.ContainsAny(ct, ":") || strings.TrimSpace(ct) != ct || ct == "" {
			return nil, false
		}
		lineDir[strings.TrimPrefix(pl, "linedirective-")] = "//line gen_" + ct + ".y:12\n"
	case "strlit":
		strE, _ = p.lit(), true
	case "rawstr":
		var ok bool
		strE, ok = rawStringLit(p.Text)
		if !ok {
			return nil, false
		}
	case "logprintf":
		l, _ := p.lit(), true
		logE = "\tlog.Printf(" + l + ", a)\n"
	case "logprintln":
		l, _ := p.lit(), true
		logE = "\tlog.Println(" + l + ", a)\n"
	case "fmtprintln":
		l, _ := p.lit(), true
		logE = "\tfmt.Println(" + l + ")\n"
	case "panicmsg":
		l, _ := p.lit(), true
		logE = "\tif a == 12345 {\n\t\tpanic(" + l + ")\n\t}\n"
	case "conststr":
		constE, _ = p.lit(), true
	case "strconcat":
		// the value comes into being as a constant expression: two literals that each hold half of the payload
		h := len(p.Text) / 2
		strE = fmt.Sprintf("%q + %q", p.Text[:h], p.Text[h:])
	case "strconcat-empty":
		strE = `"" + ` + p.lit()
	case "strconcat-three":
		strE = `"pre " + ` + p.lit() + ` + " post"`
	case "constconcat":
		h := len(p.Text) / 2
		constE = fmt.Sprintf("%q + %q", p.Text[:h], p.Text[h:])
	case "concat-named-const":
		constE = p.lit()
		strE = `Greeting + "!" + Greeting`
	case "logconcat":
		h := len(p.Text) / 2
		logE = fmt.Sprintf("\tlog.Println(%q+%q, a)\n", p.Text[:h], p.Text[h:])
	case "panicconcat":
		h := len(p.Text) / 2
		logE = fmt.Sprintf("\tif a == 12345 {\n\t\tpanic(%q + %q)\n\t}\n", p.Text[:h], p.Text[h:])
	}
	b.WriteString(pkgdoc)
	fmt.Fprintf(&b, "package %s\n\nimport (\n\t\"fmt\"\n\t\"log\"\n)\n\n", name)
	b.WriteString(lineDir["const"])
	fmt.Fprintf(&b, "const Greeting string = %s%s\n\n", constE, constdoc)
	b.WriteString(structdoc)
	b.WriteString(lineDir["struct"])
	fmt.Fprintf(&b, "type T struct {\n\tf uint64%s\n\tg uint64\n}\n\n", fieldc)
	b.WriteString("func before(a uint64) uint64 {\n\treturn a + 1\n}\n\n")
	b.WriteString(funcdoc)
	b.WriteString(lineDir["func"])
	fmt.Fprintf(&b, "func target(a uint64) (string, uint64) {\n%s\ts := %s\n%s\tfmt.Println(\"x\")\n\tlog.Println(\"y\")\n\treturn s, uint64(len(s)) + before(a)\n}\n\n", bodyc, strE, logE)
	b.WriteString("func after(t *T) uint64 {\n\treturn t.f + t.g + uint64(len(Greeting))\n}\n\n")
	b.WriteString("func case_target() (string, uint64) {\n\treturn target(1)\n}\n\n")
	b.WriteString("func case_after() uint64 {\n\treturn after(&T{f: 1, g: 2})\n}\n")
	return &Package{Name: name, Source: b.String(), Cases: []string{"case_target", "case_after", ""}, Features: map[string]int{"hostile-" + pl + "-" + p.ID: 1}}, true
}

// ---------------------------------------------------------------- expression nesting

var nestOps = []string{"+", "-", "*", "/", "%", "&", "|", "^", "<<", ">>"}
var nestCmp = []string{"==", "!=", "<", "<=", ">", ">="}

// NestingPackage builds functions whose body is one expression, for the structural
// comparison of C05: all ordered operator pairs in both association orders with the operand
// kinds of the subset (exhaustive for depth 2), plus random deeper expressions.
func NestingPackage(rng *core.Rng, name string, nrandom int) *Package {
	var b strings.Builder
	fmt.Fprintf(&b, "package %s\n\ntype P struct {\n\tf uint64\n}\n\nfunc h(x uint64, y uint64) uint64 {\n\treturn x ^ y\n}\n\n", name)
	// callee forms whose printed call is assembled in different parts of the translator: a method, and a
	// function taking an interface (the struct argument is wrapped in a conversion, the remaining arguments follow)
	b.WriteString("type Sq struct {\n\tn uint64\n}\n\ntype Shape interface {\n\tarea() uint64\n}\n\nfunc (q Sq) area() uint64 {\n\treturn q.n * q.n\n}\n\n")
	b.WriteString("func scaled(sh Shape, k uint64, j uint64) uint64 {\n\treturn sh.area()*k + j\n}\n\nfunc measure(sh Shape) uint64 {\n\treturn sh.area()\n}\n\n")
	b.WriteString("func (p *P) mix(x uint64, y uint64) uint64 {\n\treturn p.f + x*3 + y\n}\n\n")
	n := 0
	emit := func(ret, expr string) {
		fmt.Fprintf(&b, "func e%d(a uint64, b uint64, c uint64, p *P, s []uint64, w uint32, q Sq) %s {\n\treturn %s\n}\n\n", n, ret, expr)
		n++
	}
	operands := []string{"a", "b", "c", "p.f", "s[1]", "h(a, b)", "uint64(w)", "(^c)", "uint64(len(s))", "7", "p.mix(a, b)", "s[(a+b)%4]"}
	// compound arguments at every argument position of every callee form
	compound := []string{"a + b", "h(a, c)", "b * c", "uint64(w) - a", "p.f ^ 3", "s[b%4] + 1", "p.mix(c, a+1)", "h(a+1, b*2)"}
	for i, x := range compound {
		y := compound[(i+3)%len(compound)]
		emit("uint64", fmt.Sprintf("scaled(q, %s, %s)", x, y))
		emit("uint64", fmt.Sprintf("scaled(q, %s, c)", x))
		emit("uint64", fmt.Sprintf("scaled(q, c, %s)", x))
		emit("uint64", fmt.Sprintf("p.mix(%s, %s)", x, y))
		emit("uint64", fmt.Sprintf("h(%s, %s)", x, y))
		emit("uint64", fmt.Sprintf("s[(%s)%%4]", x))
		emit("uint64", fmt.Sprintf("scaled(q, %s, %s) + h(%s, b)", x, y, y))
		emit("uint64", fmt.Sprintf("measure(q) * (%s)", x))
	}
	safe := func(op, r string) string {
		switch op {
		case "/", "%":
			return "(" + r + " | 1)"
		case "<<", ">>":
			return "(" + r + " % 64)"
		}
		return r
	}
	k := 0
	for _, o1 := range nestOps {
		for _, o2 := range nestOps {
			x, y, z := operands[k%len(operands)], operands[(k+3)%len(operands)], operands[(k+7)%len(operands)]
			k++
			// written without parentheses (Go's precedence decides) and with both explicit groupings
			emit("uint64", fmt.Sprintf("%s %s %s %s %s", x, o1, safe(o1, y), o2, safe(o2, z)))
			emit("uint64", fmt.Sprintf("(%s %s %s) %s %s", x, o1, safe(o1, y), o2, safe(o2, z)))
			emit("uint64", fmt.Sprintf("%s %s %s", x, o1, safe(o1, "("+y+" "+o2+" "+safe(o2, z)+")")))
		}
	}
	for _, c1 := range nestCmp {
		for _, l := range []string{"&&", "||"} {
			emit("bool", fmt.Sprintf("a %s b %s !(b+1 %s c*2) %s p.f&3 == 1", c1, l, c1, l))
			emit("bool", fmt.Sprintf("(a %s b) == (b %s c) %s !(a+b %s c)", c1, c1, l, c1))
		}
	}
	// random deeper expressions
	var gen func(d int) string
	gen = func(d int) string {
		if d == 0 || rng.Chance(20) {
			// (no literal leaves: a subexpression made of literals only is a constant expression, which the
			// compiler evaluates exactly and rejects when it is negative)
			for {
				if o := operands[rng.Intn(len(operands))]; o != "7" {
					return o
				}
			}
		}
		op := nestOps[rng.Intn(len(nestOps))]
		l, r := gen(d-1), gen(d-1)
		e := fmt.Sprintf("%s %s %s", l, op, safe(op, r))
		if rng.Chance(55) {
			e = "(" + e + ")"
		}
		return e
	}
	for i := 0; i < nrandom; i++ {
		emit("uint64", gen(2+rng.Intn(4)))
	}
	return &Package{Name: name, Source: b.String(), Features: map[string]int{"nesting-functions": n}}
}

// NamePackage declares a top-level function called n (a Coq keyword or a GooseLang library
// name that is a legal Go identifier) and uses it inside loops and conditionals, the
// constructs whose translation mentions library names.
func NamePackage(pkg, n string) *Package {
	var b strings.Builder
	fmt.Fprintf(&b, "package %s\n\nfunc %s(a uint64) uint64 {\n\treturn a + 1\n}\n\n", pkg, n)
	fmt.Fprintf(&b, "func user(a uint64) uint64 {\n\tvar t uint64 = 0\n\tfor i := uint64(0); i < a; i++ {\n\t\tif i == 2 {\n\t\t\tcontinue\n\t\t}\n\t\tt = t + %s(i)\n\t}\n\ts := make([]uint64, 2)\n\ts[1] = t\n\tfor _, v := range s {\n\t\tt = t + v\n\t}\n\tp := new(uint64)\n\t*p = t\n\treturn *p + uint64(len(s))\n}\n\n", n)
	b.WriteString("func case_user_0() uint64 {\n\treturn user(5)\n}\n\nfunc case_user_1() uint64 {\n\treturn user(0)\n}\n")
	return &Package{Name: pkg, Source: b.String(), Cases: []string{"case_user_0", "case_user_1", ""}, Features: map[string]int{"name-" + n: 1}}
}

var CoqKeywordNames = []string{"Set", "Prop", "Type", "end", "exists", "fix", "forall", "fun", "in", "let", "match", "then", "with", "as", "at", "using", "where"}
var LibraryNames = []string{"Skip", "Continue", "Break", "Fst", "Snd", "ref", "ref_to", "zero_val", "NewSlice", "SliceGet", "SliceSet", "ForSlice", "MapGet", "Panic", "Fork", "uint64T", "slice", "lock", "disk", "ptrT", "to_u64", "Var", "expr", "val", "ty"}

// ---------------------------------------------------------------- payload kinds x syntactic contexts

// ContextKinds are the ways a payload's text reaches the printer from inside a function body.
var ContextKinds = []string{"strlit", "logprintf", "logprintln", "bodycomment", "panicmsg", "callarg", "structfield", "compare", "concat", "return", "logprintf-last", "fmtprintln-last", "comment-last", "logprintf-rune-arg"}

// Contexts are the enclosing constructs the statement carrying the payload sits in; each is printed by a
// different part of the printer (function literal, loop body, branches, method body, nested blocks).
var Contexts = []string{"closure", "nestedclosure", "loop", "rangeloop", "ifthen", "ifelse", "method", "block", "closureinloop", "goclosure"}

// HostileContextPackage puts payload p, carried by a statement of the given kind, inside the given context.
func HostileContextPackage(name, kind, context string, p Payload) (*Package, bool) {
	lit := p.lit()
	ct, cok := commentText(p.Text)
	var body string // statements over `s` (var string), `a` (uint64)
	switch kind {
	case "strlit":
		body = "s = " + lit
	case "logprintf":
		body = "log.Printf(" + lit + ", a)\ns = \"logged\""
	case "logprintln":
		body = "log.Println(" + lit + ", a)\ns = \"logged\""
	case "logprintf-last":
		// the logging call is the last statement of its block (nothing follows it inside the context)
		body = "s = \"logged\"\nlog.Printf(" + lit + ", a)"
	case "fmtprintln-last":
		body = "s = \"printed\"\nlog.Println(" + lit + ")"
	case "comment-last":
		if !cok {
			return nil, false
		}
		body = "s = \"commented\"\n// last " + ct
	case "logprintf-rune-arg":
		body = "log.Printf(" + lit + ", byte(a), '\"')\ns = \"logged\""
	case "bodycomment":
		if !cok {
			return nil, false
		}
		body = "// inside " + ct + "\ns = \"commented\""
	case "panicmsg":
		body = "if a == 12345 {\n\tpanic(" + lit + ")\n}\ns = \"checked\""
	case "callarg":
		body = "s = pick(" + lit + ", a+1)"
	case "structfield":
		body = "t2 := &T{s: " + lit + ", n: a}\ns = t2.s"
	case "compare":
		body = "if s != " + lit + " {\n\ts = \"ne\"\n}"
	case "concat":
		body = "s = s + " + lit + " + \"!\""
	case "return":
		body = "s = give(a)"
	default:
		return nil, false
	}
	ind := func(code string, n int) string {
		pad := strings.Repeat("\t", n)
		return pad + strings.ReplaceAll(code, "\n", "\n"+pad)
	}
	var pre, target, method string
	method = "func (t *T) m(a uint64) string {\n\treturn t.s\n}\n\n"
	give := "func give(a uint64) string {\n\treturn \"given\"\n}\n\n"
	if kind == "return" {
		give = "func give(a uint64) string {\n\tif a == 12345 {\n\t\treturn \"other\"\n\t}\n\treturn " + lit + "\n}\n\n"
	}
	switch context {
	case "closure":
		target = "\tf := func(v uint64) {\n" + ind(body, 2) + "\n\t}\n\tf(a)\n"
	case "nestedclosure":
		target = "\tf := func(v uint64) {\n\t\tg := func() {\n" + ind(body, 3) + "\n\t\t}\n\t\tg()\n\t}\n\tf(a)\n"
	case "loop":
		target = "\tfor i := uint64(0); i < 2; i++ {\n" + ind(body, 2) + "\n\t}\n"
	case "rangeloop":
		target = "\tsl := make([]uint64, 2)\n\tfor _, v := range sl {\n\t\tsl[0] = v\n" + ind(body, 2) + "\n\t}\n"
	case "ifthen":
		target = "\tif a < 100 {\n" + ind(body, 2) + "\n\t} else {\n\t\ts = \"else\"\n\t}\n"
	case "ifelse":
		target = "\tif a > 100 {\n\t\ts = \"then\"\n\t} else {\n" + ind(body, 2) + "\n\t}\n"
	case "block":
		target = "\t{\n" + ind(body, 2) + "\n\t}\n"
	case "closureinloop":
		target = "\tfor i := uint64(0); i < 2; i++ {\n\t\tf := func() {\n" + ind(body, 3) + "\n\t\t}\n\t\tf()\n\t}\n"
	case "goclosure":
		pre = "\twg := new(sync.WaitGroup)\n\twg.Add(1)\n"
		target = "\tgo func() {\n" + ind(body, 2) + "\n\t\twg.Done()\n\t}()\n\twg.Wait()\n"
	case "method":
		method = "func (t *T) m(a uint64) string {\n\tvar s string = t.s\n" + ind(body, 1) + "\n\treturn s\n}\n\n"
		target = "\tt := &T{s: \"m\", n: a}\n\ts = t.m(a)\n"
	default:
		return nil, false
	}
	var b strings.Builder
	fmt.Fprintf(&b, "package %s\n\nimport (\n\t\"log\"\n\t\"sync\"\n)\n\n", name)
	b.WriteString("type T struct {\n\ts string\n\tn uint64\n}\n\n")
	b.WriteString("func keepSync() *sync.Mutex {\n\treturn new(sync.Mutex)\n}\n\nfunc keepLog() {\n\tlog.Println(\"k\")\n}\n\n")
	b.WriteString("func pick(s string, n uint64) string {\n\treturn s\n}\n\n")
	b.WriteString(give)
	b.WriteString(method)
	b.WriteString("func before(a uint64) uint64 {\n\treturn a + 1\n}\n\n")
	fmt.Fprintf(&b, "func target(a uint64) (string, uint64) {\n\tvar s string = \"plain\"\n%s%s\treturn s, uint64(len(s)) + before(a)\n}\n\n", pre, target)
	b.WriteString("func after(t *T) uint64 {\n\treturn t.n + uint64(len(t.s))\n}\n\n")
	b.WriteString("func case_target() (string, uint64) {\n\treturn target(1)\n}\n\n")
	b.WriteString("func case_after() uint64 {\n\treturn after(&T{s: \"ab\", n: 2})\n}\n")
	return &Package{Name: name, Source: b.String(), Cases: []string{"case_target", "case_after", ""}, Features: map[string]int{"hostile-" + kind + "-in-" + context + "-" + p.ID: 1}}, true
}
