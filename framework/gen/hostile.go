package gen

import (
	"fmt"
	"strings"

	"verif/core"
)

// hostile.go: comment / string-literal / log-call payloads for C05.

type Payload struct {
	ID   string
	Text string
	// GoLit, when set, is the exact Go source spelling of the string literal for the
	// string-literal placements (the default is strconv-style quoting of Text)
	GoLit string
}

var Payloads = []Payload{
	{"open", "(*", ""},
	{"close", "*)", ""},
	{"openclose", "(*)", ""},
	{"closeopen", "*)(*", ""},
	{"nested", "(* (* x *) *)", ""},
	{"quote1", `"`, ""},
	{"quote2", `""`, ""},
	{"quote-close", `"*)`, ""},
	{"quote3", `a"b"c"d`, ""},
	{"backquote", "`", ""},
	{"tab", "a\tb", ""},
	{"ctrl", "a\x01b", ""},
	{"nonascii", "héllo — ∀λ≠", ""},
	{"dotnl", "end. ", ""},
	{"fakedef", "Definition x := 0.", ""},
	{"endcode", "End code.", ""},
	{"qed", "*) Definition evil: val := #0. (*", ""},
	{"longline", strings.Repeat("long ", 3000), ""},
	{"backslash", `a\b\\c\"`, ""},
	{"percent", "100%s %d %v", ""},
	{"star-paren", "*(x)* ( * ) (  *", ""},
	{"quote-hex-escape", "a\"b", `"a\x22b"`},
	{"quote-unicode-escape", "\"", `"\u0022"`},
	{"quote-octal-escape", "x\"\"y", `"x\042\042y"`},
	{"close-comment-escape", "*)", `"\x2a\x29"`},
}

// Placement names where a payload goes.
var Placements = []string{"pkgdoc", "funcdoc", "structdoc", "constdoc", "bodycomment", "fieldcomment", "strlit", "rawstr", "logprintf", "logprintln", "fmtprintln", "panicmsg", "conststr", "multiline-doc"}

func goStringLit(s string) (string, bool) {
	return fmt.Sprintf("%q", s), true
}

func (p Payload) lit() string {
	if p.GoLit != "" {
		return p.GoLit
	}
	return fmt.Sprintf("%q", p.Text)
}

func rawStringLit(s string) (string, bool) {
	if strings.Contains(s, "`") {
		return "", false
	}
	return "`" + s + "`", true
}

func commentText(s string) (string, bool) {
	// a // comment cannot contain a newline; a /* */ comment cannot contain */
	if strings.ContainsAny(s, "\n\r") {
		return "", false
	}
	return s, true
}

// HostilePackage builds a package with payload p at placement pl. ok=false when the
// combination cannot be written in Go.
func HostilePackage(name string, pl string, p Payload) (*Package, bool) {
	var b strings.Builder
	pkgdoc, funcdoc, structdoc, constdoc, bodyc, fieldc := "", "", "", "", "", ""
	strE, logE, constE := `"plain"`, "", `"cv"`
	ct, cok := commentText(p.Text)
	switch pl {
	case "pkgdoc":
		if !cok {
			return nil, false
		}
		pkgdoc = "// Package doc " + ct + " end\n"
	case "funcdoc":
		if !cok {
			return nil, false
		}
		funcdoc = "// target does things " + ct + " really\n"
	case "multiline-doc":
		if !cok {
			return nil, false
		}
		funcdoc = "// target first line\n//\n//   indented " + ct + "\n// last " + ct + " line\n"
	case "structdoc":
		if !cok {
			return nil, false
		}
		structdoc = "// T is a struct " + ct + "\n"
	case "constdoc":
		if !cok {
			return nil, false
		}
		constdoc = " // trailing " + ct
	case "bodycomment":
		if !cok {
			return nil, false
		}
		bodyc = "\t// inside " + ct + "\n"
	case "fieldcomment":
		if !cok {
			return nil, false
		}
		fieldc = " // field " + ct
	case "strlit":
		strE, _ = p.lit(), true
	case "rawstr":
		var ok bool
		strE, ok = rawStringLit(p.Text)
		if !ok {
			return nil, false
		}
	case "logprintf":
		l, _ := p.lit(), true
		logE = "\tlog.Printf(" + l + ", a)\n"
	case "logprintln":
		l, _ := p.lit(), true
		logE = "\tlog.Println(" + l + ", a)\n"
	case "fmtprintln":
		l, _ := p.lit(), true
		logE = "\tfmt.Println(" + l + ")\n"
	case "panicmsg":
		l, _ := p.lit(), true
		logE = "\tif a == 12345 {\n\t\tpanic(" + l + ")\n\t}\n"
	case "conststr":
		constE, _ = p.lit(), true
	}
	b.WriteString(pkgdoc)
	fmt.Fprintf(&b, "package %s\n\nimport (\n\t\"fmt\"\n\t\"log\"\n)\n\n", name)
	fmt.Fprintf(&b, "const Greeting string = %s%s\n\n", constE, constdoc)
	b.WriteString(structdoc)
	fmt.Fprintf(&b, "type T struct {\n\tf uint64%s\n\tg uint64\n}\n\n", fieldc)
	b.WriteString("func before(a uint64) uint64 {\n\treturn a + 1\n}\n\n")
	b.WriteString(funcdoc)
	fmt.Fprintf(&b, "func target(a uint64) (string, uint64) {\n%s\ts := %s\n%s\tfmt.Println(\"x\")\n\tlog.Println(\"y\")\n\treturn s, uint64(len(s)) + before(a)\n}\n\n", bodyc, strE, logE)
	b.WriteString("func after(t *T) uint64 {\n\treturn t.f + t.g + uint64(len(Greeting))\n}\n\n")
	b.WriteString("func case_target() (string, uint64) {\n\treturn target(1)\n}\n\n")
	b.WriteString("func case_after() uint64 {\n\treturn after(&T{f: 1, g: 2})\n}\n")
	return &Package{Name: name, Source: b.String(), Cases: []string{"case_target", "case_after", ""}, Features: map[string]int{"hostile-" + pl + "-" + p.ID: 1}}, true
}

// ---------------------------------------------------------------- expression nesting

var nestOps = []string{"+", "-", "*", "/", "%", "&", "|", "^", "<<", ">>"}
var nestCmp = []string{"==", "!=", "<", "<=", ">", ">="}

// NestingPackage builds functions whose body is one expression, for the structural
// comparison of C05: all ordered operator pairs in both association orders with the operand
// kinds of the subset (exhaustive for depth 2), plus random deeper expressions.
func NestingPackage(rng *core.Rng, name string, nrandom int) *Package {
	var b strings.Builder
	fmt.Fprintf(&b, "package %s\n\ntype P struct {\n\tf uint64\n}\n\nfunc h(x uint64, y uint64) uint64 {\n\treturn x ^ y\n}\n\n", name)
	n := 0
	emit := func(ret, expr string) {
		fmt.Fprintf(&b, "func e%d(a uint64, b uint64, c uint64, p *P, s []uint64, w uint32) %s {\n\treturn %s\n}\n\n", n, ret, expr)
		n++
	}
	operands := []string{"a", "b", "c", "p.f", "s[1]", "h(a, b)", "uint64(w)", "(^c)", "uint64(len(s))", "7"}
	safe := func(op, r string) string {
		switch op {
		case "/", "%":
			return "(" + r + " | 1)"
		case "<<", ">>":
			return "(" + r + " % 64)"
		}
		return r
	}
	k := 0
	for _, o1 := range nestOps {
		for _, o2 := range nestOps {
			x, y, z := operands[k%len(operands)], operands[(k+3)%len(operands)], operands[(k+7)%len(operands)]
			k++
			// written without parentheses (Go's precedence decides) and with both explicit groupings
			emit("uint64", fmt.Sprintf("%s %s %s %s %s", x, o1, safe(o1, y), o2, safe(o2, z)))
			emit("uint64", fmt.Sprintf("(%s %s %s) %s %s", x, o1, safe(o1, y), o2, safe(o2, z)))
			emit("uint64", fmt.Sprintf("%s %s %s", x, o1, safe(o1, "("+y+" "+o2+" "+safe(o2, z)+")")))
		}
	}
	for _, c1 := range nestCmp {
		for _, l := range []string{"&&", "||"} {
			emit("bool", fmt.Sprintf("a %s b %s !(b+1 %s c*2) %s p.f&3 == 1", c1, l, c1, l))
			emit("bool", fmt.Sprintf("(a %s b) == (b %s c) %s !(a+b %s c)", c1, c1, l, c1))
		}
	}
	// random deeper expressions
	var gen func(d int) string
	gen = func(d int) string {
		if d == 0 || rng.Chance(20) {
			return operands[rng.Intn(len(operands))]
		}
		op := nestOps[rng.Intn(len(nestOps))]
		l, r := gen(d-1), gen(d-1)
		e := fmt.Sprintf("%s %s %s", l, op, safe(op, r))
		if rng.Chance(55) {
			e = "(" + e + ")"
		}
		return e
	}
	for i := 0; i < nrandom; i++ {
		emit("uint64", gen(2+rng.Intn(4)))
	}
	return &Package{Name: name, Source: b.String(), Features: map[string]int{"nesting-functions": n}}
}

// NamePackage declares a top-level function called n (a Coq keyword or a GooseLang library
// name that is a legal Go identifier) and uses it inside loops and conditionals, the
// constructs whose translation mentions library names.
func NamePackage(pkg, n string) *Package {
	var b strings.Builder
	fmt.Fprintf(&b, "package %s\n\nfunc %s(a uint64) uint64 {\n\treturn a + 1\n}\n\n", pkg, n)
	fmt.Fprintf(&b, "func user(a uint64) uint64 {\n\tvar t uint64 = 0\n\tfor i := uint64(0); i < a; i++ {\n\t\tif i == 2 {\n\t\t\tcontinue\n\t\t}\n\t\tt = t + %s(i)\n\t}\n\ts := make([]uint64, 2)\n\ts[1] = t\n\tfor _, v := range s {\n\t\tt = t + v\n\t}\n\tp := new(uint64)\n\t*p = t\n\treturn *p + uint64(len(s))\n}\n\n", n)
	b.WriteString("func case_user_0() uint64 {\n\treturn user(5)\n}\n\nfunc case_user_1() uint64 {\n\treturn user(0)\n}\n")
	return &Package{Name: pkg, Source: b.String(), Cases: []string{"case_user_0", "case_user_1", ""}, Features: map[string]int{"name-" + n: 1}}
}

var CoqKeywordNames = []string{"Set", "Prop", "Type", "end", "exists", "fix", "forall", "fun", "in", "let", "match", "then", "with", "as", "at", "using", "where"}
var LibraryNames = []string{"Skip", "Continue", "Break", "Fst", "Snd", "ref", "ref_to", "zero_val", "NewSlice", "SliceGet", "SliceSet", "ForSlice", "MapGet", "Panic", "Fork", "uint64T", "slice", "lock", "disk", "ptrT", "to_u64", "Var", "expr", "val", "ty"}
